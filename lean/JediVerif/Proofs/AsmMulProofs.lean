/-
Theorems about the x86-64 assembly multiplication routines of /repo/src/core/arch/x86_64/multiply.s (as
regenerated into `JediVerif/Gen/AsmX86.lean`, executed by the machine model of `JediVerif/Impl/X86.lean`):
this file has the shared infrastructure and `bigint_768_multiply` (baseline family: `mul`/`add`/`adc`).
The BMI2/ADX multiply, the Montgomery reductions and the squarings are in `AsmMulxProofs.lean`,
`AsmMontProofs.lean`, `AsmMontxProofs.lean`, `AsmSqrProofs.lean`, `AsmSqrxProofs.lean`; the property
statements in `Properties/C03b.lean`.

Method (extends `AsmProofs.lean`).  The routines are straight-line code of 137–338 instructions; one
`simp` over the whole routine does not fit the heartbeat budget, so the symbolic execution is cut into
pieces: for consecutive instruction ranges a lemma `…_part k` states

    run P (state after the first k pieces) n = (state after k+1 pieces)

where both states are explicit records over the entry state `s` and over named intermediates (every
`mulLo`/`mulHi`/`addc`/`subb` result is a variable with a defining hypothesis, exactly as in
`AsmProofs.lean`).  The pieces are chained with `run_chain`.  The arithmetic is then done on the named
intermediates alone: one Nat equation per macro instance (`mulcarry64_spec`, `muladd64_spec`,
`muladdcarry64_spec`: each contains the fact that `adc $0, %rdx` cannot carry out, which needs the bound
`x·y ≤ (2^64−1)²`), and one `linear_combination` of the 36 macro equations with weights `2^(64(i+j))`.

The statements and the part lemmas are written by an authoring script from the generated program (a
symbolic executor that mirrors `Impl/X86.lean`); nothing in this file depends on the script: if the
assembly changes, the generated program changes and the part lemmas no longer check.
-/
import JediVerif.Proofs.AsmProofs

set_option linter.unusedSimpArgs false

namespace Jedi.X86
open Lean Meta Simp
open Jedi.Impl (val WF val_cons val_nil val_lt val_inj)

/-! ## deeper stacks (up to six pushes) -/

theorem sub8x3_toNat (x : Word) (h : 24 ≤ x.toNat) : (x - 8 - 8 - 8).toNat = x.toNat - 8 - 8 - 8 := by
  rw [sub8_toNat _ (by rw [sub8_sub8_toNat _ (by omega)]; omega), sub8_sub8_toNat _ (by omega)]
theorem sub8x4_toNat (x : Word) (h : 32 ≤ x.toNat) : (x - 8 - 8 - 8 - 8).toNat = x.toNat - 8 - 8 - 8 - 8 := by
  rw [sub8_toNat _ (by rw [sub8x3_toNat _ (by omega)]; omega), sub8x3_toNat _ (by omega)]
theorem sub8x5_toNat (x : Word) (h : 40 ≤ x.toNat) :
    (x - 8 - 8 - 8 - 8 - 8).toNat = x.toNat - 8 - 8 - 8 - 8 - 8 := by
  rw [sub8_toNat _ (by rw [sub8x4_toNat _ (by omega)]; omega), sub8x4_toNat _ (by omega)]
theorem sub8x6_toNat (x : Word) (h : 48 ≤ x.toNat) :
    (x - 8 - 8 - 8 - 8 - 8 - 8).toNat = x.toNat - 8 - 8 - 8 - 8 - 8 - 8 := by
  rw [sub8_toNat _ (by rw [sub8x5_toNat _ (by omega)]; omega), sub8x5_toNat _ (by omega)]
theorem sub8x7_toNat (x : Word) (h : 56 ≤ x.toNat) :
    (x - 8 - 8 - 8 - 8 - 8 - 8 - 8).toNat = x.toNat - 8 - 8 - 8 - 8 - 8 - 8 - 8 := by
  rw [sub8_toNat _ (by rw [sub8x6_toNat _ (by omega)]; omega), sub8x6_toNat _ (by omega)]

theorem Stack.slot {s : State} {n : Nat} (h : Stack s n) (i : Nat) (h1 : 1 ≤ i) (hi : i ≤ n) :
    8 * i ≤ s.rsp.toNat ∧ (s.rsp.toNat - 8 * i) % 8 = 0 ∧
    s.readable (s.rsp.toNat - 8 * i) = true ∧ s.writable (s.rsp.toNat - 8 * i) = true := by
  have := h.aligned; have := h.room
  obtain ⟨r, w⟩ := h.slots i h1 hi
  exact ⟨by omega, by omega, r, w⟩

theorem Stack.f3 {s : State} {n : Nat} (h : Stack s n) (hn : 3 ≤ n) :
    24 ≤ s.rsp.toNat ∧ (s.rsp.toNat - 8 - 8 - 8) % 8 = 0 ∧
    s.readable (s.rsp.toNat - 8 - 8 - 8) = true ∧ s.writable (s.rsp.toNat - 8 - 8 - 8) = true := by
  have := h.slot 3 (by omega) hn
  rwa [show s.rsp.toNat - 8 * 3 = s.rsp.toNat - 8 - 8 - 8 by omega] at this
theorem Stack.f4 {s : State} {n : Nat} (h : Stack s n) (hn : 4 ≤ n) :
    32 ≤ s.rsp.toNat ∧ (s.rsp.toNat - 8 - 8 - 8 - 8) % 8 = 0 ∧
    s.readable (s.rsp.toNat - 8 - 8 - 8 - 8) = true ∧ s.writable (s.rsp.toNat - 8 - 8 - 8 - 8) = true := by
  have := h.slot 4 (by omega) hn
  rwa [show s.rsp.toNat - 8 * 4 = s.rsp.toNat - 8 - 8 - 8 - 8 by omega] at this
theorem Stack.f5 {s : State} {n : Nat} (h : Stack s n) (hn : 5 ≤ n) :
    40 ≤ s.rsp.toNat ∧ (s.rsp.toNat - 8 - 8 - 8 - 8 - 8) % 8 = 0 ∧
    s.readable (s.rsp.toNat - 8 - 8 - 8 - 8 - 8) = true ∧ s.writable (s.rsp.toNat - 8 - 8 - 8 - 8 - 8) = true := by
  have := h.slot 5 (by omega) hn
  rwa [show s.rsp.toNat - 8 * 5 = s.rsp.toNat - 8 - 8 - 8 - 8 - 8 by omega] at this
theorem Stack.f6 {s : State} {n : Nat} (h : Stack s n) (hn : 6 ≤ n) :
    48 ≤ s.rsp.toNat ∧ (s.rsp.toNat - 8 - 8 - 8 - 8 - 8 - 8) % 8 = 0 ∧
    s.readable (s.rsp.toNat - 8 - 8 - 8 - 8 - 8 - 8) = true ∧
    s.writable (s.rsp.toNat - 8 - 8 - 8 - 8 - 8 - 8) = true := by
  have := h.slot 6 (by omega) hn
  rwa [show s.rsp.toNat - 8 * 6 = s.rsp.toNat - 8 - 8 - 8 - 8 - 8 - 8 by omega] at this
theorem Stack.f7 {s : State} {n : Nat} (h : Stack s n) (hn : 7 ≤ n) :
    56 ≤ s.rsp.toNat ∧ (s.rsp.toNat - 8 - 8 - 8 - 8 - 8 - 8 - 8) % 8 = 0 ∧
    s.readable (s.rsp.toNat - 8 - 8 - 8 - 8 - 8 - 8 - 8) = true ∧
    s.writable (s.rsp.toNat - 8 - 8 - 8 - 8 - 8 - 8 - 8) = true := by
  have := h.slot 7 (by omega) hn
  rwa [show s.rsp.toNat - 8 * 7 = s.rsp.toNat - 8 - 8 - 8 - 8 - 8 - 8 - 8 by omega] at this

/-! ## twelve-limb buffers -/

theorem limbs_twelve (m : Nat → Word) (p : Nat) : limbs m p 12 =
    [(m (p + 0)).toNat, (m (p + 8)).toNat, (m (p + 16)).toNat, (m (p + 24)).toNat, (m (p + 32)).toNat, (m (p + 40)).toNat,
     (m (p + 48)).toNat, (m (p + 56)).toNat, (m (p + 64)).toNat, (m (p + 72)).toNat, (m (p + 80)).toNat,
     (m (p + 88)).toNat] := rfl

theorem Buf.r12 {s : State} {p : Word} {w : Bool} (h : Buf s p 12 w) :
    s.readable (p.toNat + 0) = true ∧ s.readable (p.toNat + 8) = true ∧ s.readable (p.toNat + 16) = true ∧
    s.readable (p.toNat + 24) = true ∧ s.readable (p.toNat + 32) = true ∧ s.readable (p.toNat + 40) = true ∧
    s.readable (p.toNat + 48) = true ∧ s.readable (p.toNat + 56) = true ∧ s.readable (p.toNat + 64) = true ∧
    s.readable (p.toNat + 72) = true ∧ s.readable (p.toNat + 80) = true ∧ s.readable (p.toNat + 88) = true :=
  ⟨h.readable 0 (by omega), h.readable 1 (by omega), h.readable 2 (by omega), h.readable 3 (by omega),
   h.readable 4 (by omega), h.readable 5 (by omega), h.readable 6 (by omega), h.readable 7 (by omega),
   h.readable 8 (by omega), h.readable 9 (by omega), h.readable 10 (by omega), h.readable 11 (by omega)⟩

theorem Buf.w12 {s : State} {p : Word} (h : Buf s p 12 true) :
    s.writable (p.toNat + 0) = true ∧ s.writable (p.toNat + 8) = true ∧ s.writable (p.toNat + 16) = true ∧
    s.writable (p.toNat + 24) = true ∧ s.writable (p.toNat + 32) = true ∧ s.writable (p.toNat + 40) = true ∧
    s.writable (p.toNat + 48) = true ∧ s.writable (p.toNat + 56) = true ∧ s.writable (p.toNat + 64) = true ∧
    s.writable (p.toNat + 72) = true ∧ s.writable (p.toNat + 80) = true ∧ s.writable (p.toNat + 88) = true :=
  ⟨h.writable rfl 0 (by omega), h.writable rfl 1 (by omega), h.writable rfl 2 (by omega), h.writable rfl 3 (by omega),
   h.writable rfl 4 (by omega), h.writable rfl 5 (by omega), h.writable rfl 6 (by omega), h.writable rfl 7 (by omega),
   h.writable rfl 8 (by omega), h.writable rfl 9 (by omega), h.writable rfl 10 (by omega), h.writable rfl 11 (by omega)⟩

theorem Buf.addr12 {s : State} {p : Word} {w : Bool} (h : Buf s p 12 w) :
    ((p.toNat + 0) % 8 = 0 ∧ (p.toNat + 8) % 8 = 0 ∧ (p.toNat + 16) % 8 = 0 ∧ (p.toNat + 24) % 8 = 0 ∧
      (p.toNat + 32) % 8 = 0 ∧ (p.toNat + 40) % 8 = 0 ∧ (p.toNat + 48) % 8 = 0 ∧ (p.toNat + 56) % 8 = 0 ∧
      (p.toNat + 64) % 8 = 0 ∧ (p.toNat + 72) % 8 = 0 ∧ (p.toNat + 80) % 8 = 0 ∧ (p.toNat + 88) % 8 = 0) ∧
    (p.toNat + 0 < 2 ^ 64 ∧ p.toNat + 8 < 2 ^ 64 ∧ p.toNat + 16 < 2 ^ 64 ∧ p.toNat + 24 < 2 ^ 64 ∧ p.toNat + 32 < 2 ^ 64 ∧
      p.toNat + 40 < 2 ^ 64 ∧ p.toNat + 48 < 2 ^ 64 ∧ p.toNat + 56 < 2 ^ 64 ∧ p.toNat + 64 < 2 ^ 64 ∧
      p.toNat + 72 < 2 ^ 64 ∧ p.toNat + 80 < 2 ^ 64 ∧ p.toNat + 88 < 2 ^ 64) := by
  have := h.fits; have := h.aligned; omega

theorem val6_lt (x0 x1 x2 x3 x4 x5 : Word) :
    val (2 ^ 64) [x0.toNat, x1.toNat, x2.toNat, x3.toNat, x4.toNat, x5.toNat] < 2 ^ 384 :=
  (val6_split x0 x1 x2 x3 x4 x5).choose_spec.2.2

/-! ## 64×64→128 multiplication -/

/-- low / high qword of the 128-bit product, in the form the interpreter writes them -/
def mulLo (x y : Word) : Word := BitVec.ofNat 64 (x.toNat * y.toNat % 2 ^ 64)
def mulHi (x y : Word) : Word := BitVec.ofNat 64 (x.toNat * y.toNat / 2 ^ 64)

theorem mulLo_fold (x y : Word) : BitVec.ofNat 64 (x.toNat * y.toNat % 2 ^ 64) = mulLo x y := rfl
theorem mulHi_fold (x y : Word) : BitVec.ofNat 64 (x.toNat * y.toNat / 2 ^ 64) = mulHi x y := rfl

theorem mul_lt (x y : Word) : x.toNat * y.toNat ≤ (2 ^ 64 - 1) * (2 ^ 64 - 1) :=
  Nat.mul_le_mul (by have := x.isLt; omega) (by have := y.isLt; omega)

theorem mul_spec (x y : Word) : (mulLo x y).toNat + 2 ^ 64 * (mulHi x y).toNat = x.toNat * y.toNat := by
  have h := mul_lt x y
  simp only [mulLo, mulHi, BitVec.toNat_ofNat, Nat.mod_mod]
  generalize x.toNat * y.toNat = p at *
  omega

/-! ### the three macros of multiply.s, as Nat equations over the named intermediates -/

section macros
variable {a b cin dst lo hi : Word} {t u t2 u2 : ArithRes}

/-- `mulcarry64`: `dst:rdx := a·b + cin` -/
theorem mulcarry64_spec (hlo : lo = mulLo a b) (hhi : hi = mulHi a b)
    (ht : t = addc .q lo cin false) (hu : u = addc .q hi (0#64) t.cf) :
    t.val.toNat + 2 ^ 64 * u.val.toNat = a.toNat * b.toNat + cin.toNat := by
  have hm := mul_spec a b; rw [← hlo, ← hhi] at hm
  have hb := mul_lt a b
  have e1 := addc_spec lo cin false; rw [← ht] at e1
  have e2 := addc_spec hi (0#64) t.cf; rw [← hu] at e2
  have := lo.isLt; have := hi.isLt; have := cin.isLt; have := t.val.isLt; have := u.val.isLt
  have := Bool.toNat_le t.cf; have := Bool.toNat_le u.cf
  simp only [Bool.toNat_false, BitVec.toNat_ofNat, Nat.zero_mod] at e1 e2
  generalize a.toNat * b.toNat = p at *
  omega

/-- `muladd64`: `dst:rdx := a·b + dst` -/
theorem muladd64_spec (hlo : lo = mulLo a b) (hhi : hi = mulHi a b)
    (ht : t = addc .q dst lo false) (hu : u = addc .q hi (0#64) t.cf) :
    t.val.toNat + 2 ^ 64 * u.val.toNat = a.toNat * b.toNat + dst.toNat := by
  have hm := mul_spec a b; rw [← hlo, ← hhi] at hm
  have hb := mul_lt a b
  have e1 := addc_spec dst lo false; rw [← ht] at e1
  have e2 := addc_spec hi (0#64) t.cf; rw [← hu] at e2
  have := lo.isLt; have := hi.isLt; have := dst.isLt; have := t.val.isLt; have := u.val.isLt
  have := Bool.toNat_le t.cf; have := Bool.toNat_le u.cf
  simp only [Bool.toNat_false, BitVec.toNat_ofNat, Nat.zero_mod] at e1 e2
  generalize a.toNat * b.toNat = p at *
  omega

/-- `muladdcarry64`: `dst:rdx := a·b + cin + dst` -/
theorem muladdcarry64_spec (hlo : lo = mulLo a b) (hhi : hi = mulHi a b)
    (ht : t = addc .q lo cin false) (hu : u = addc .q hi (0#64) t.cf)
    (ht2 : t2 = addc .q dst t.val false) (hu2 : u2 = addc .q u.val (0#64) t2.cf) :
    t2.val.toNat + 2 ^ 64 * u2.val.toNat = a.toNat * b.toNat + cin.toNat + dst.toNat := by
  have hm := mul_spec a b; rw [← hlo, ← hhi] at hm
  have hb := mul_lt a b
  have e1 := addc_spec lo cin false; rw [← ht] at e1
  have e2 := addc_spec hi (0#64) t.cf; rw [← hu] at e2
  have e3 := addc_spec dst t.val false; rw [← ht2] at e3
  have e4 := addc_spec u.val (0#64) t2.cf; rw [← hu2] at e4
  have := lo.isLt; have := hi.isLt; have := cin.isLt; have := dst.isLt
  have := t.val.isLt; have := u.val.isLt; have := t2.val.isLt; have := u2.val.isLt
  have := Bool.toNat_le t.cf; have := Bool.toNat_le u.cf; have := Bool.toNat_le t2.cf; have := Bool.toNat_le u2.cf
  simp only [Bool.toNat_false, BitVec.toNat_ofNat, Nat.zero_mod] at e1 e2 e3 e4
  generalize a.toNat * b.toNat = p at *
  omega

end macros

theorem run_chain {p : Program} {s s1 s2 : State} {m n : Nat} (h1 : run p s m = s1) (h2 : run p s1 n = s2) :
    run p s (m + n) = s2 := by rw [run_add, h1, h2]

open Jedi.Gen.AsmX86

/-! ## `bigint_768_multiply` (baseline): symbolic execution, cut into pieces -/

set_option maxHeartbeats 1600000 in
theorem mul768_part0 (s : State) (pr pa pb : Word)
    (hr : Buf s pr 12 true) (ha : Buf s pa 6 false) (hb : Buf s pb 6 false)
    (hra : X86.Disjoint pr 12 pa 6) (hrb : X86.Disjoint pr 12 pb 6)
    (hstk : Stack s 4) (hrs : OffStack s 4 pr 12) (has : OffStack s 4 pa 6) (hbs : OffStack s 4 pb 6) {a0 b0 b1 b2 b3 b4 b5 m7h m7l m11h m11l m17h m17l m23h m23l m29h m29l m35h m35l : Word} {t12 t13 t18 t19 t24 t25 t30 t31 t36 t37 : ArithRes}
    (hst : s.status = .running) (hpc : s.pc = 0) (hdi : s.rdi = pr) (hsi : s.rsi = pa) (hdx : s.rdx = pb) (ha0 : a0 = s.mem (pa.toNat + 0)) (hb0 : b0 = s.mem (pb.toNat + 0)) (hb1 : b1 = s.mem (pb.toNat + 8))
    (hb2 : b2 = s.mem (pb.toNat + 16)) (hb3 : b3 = s.mem (pb.toNat + 24)) (hb4 : b4 = s.mem (pb.toNat + 32))
    (hb5 : b5 = s.mem (pb.toNat + 40)) (hm7l : m7l = mulLo a0 b0) (hm7h : m7h = mulHi a0 b0) (hm11l : m11l = mulLo a0 b1)
    (hm11h : m11h = mulHi a0 b1) (ht12 : t12 = addc .q m11l m7h false) (ht13 : t13 = addc .q m11h (0#64) t12.cf)
    (hm17l : m17l = mulLo a0 b2) (hm17h : m17h = mulHi a0 b2) (ht18 : t18 = addc .q m17l t13.val false)
    (ht19 : t19 = addc .q m17h (0#64) t18.cf) (hm23l : m23l = mulLo a0 b3) (hm23h : m23h = mulHi a0 b3)
    (ht24 : t24 = addc .q m23l t19.val false) (ht25 : t25 = addc .q m23h (0#64) t24.cf) (hm29l : m29l = mulLo a0 b4)
    (hm29h : m29h = mulHi a0 b4) (ht30 : t30 = addc .q m29l t25.val false) (ht31 : t31 = addc .q m29h (0#64) t30.cf)
    (hm35l : m35l = mulLo a0 b5) (hm35h : m35h = mulHi a0 b5) (ht36 : t36 = addc .q m35l t31.val false)
    (ht37 : t37 = addc .q m35h (0#64) t36.cf) :
    run embedded_pairing_core_arch_x86_64_bigint_768_multiply s 40
      = ({ rax := t36.val, rcx := pb, rdx := t37.val, rbx := s.rbx, rsp := s.rsp - 8 - 8 - 8 - 8, rbp := s.rbp, rsi := pa, rdi := pr, r8 := t31.val, r9 := a0, r10 := t12.val, r11 := t18.val, r12 := t24.val, r13 := t30.val, r14 := t36.val, r15 := t37.val, cf := some t37.cf, zf := some t37.zf, sf := some t37.sf, of := some t37.of, mem := setMem (setMem (setMem (setMem (setMem (s.mem) (s.rsp.toNat - 8) s.r12) (s.rsp.toNat - 8 - 8) s.r13) (s.rsp.toNat - 8 - 8 - 8) s.r14) (s.rsp.toNat - 8 - 8 - 8 - 8) s.r15) (pr.toNat + 0) m7l, readable := s.readable, writable := s.writable, cpuidFn := s.cpuidFn, pc := 40, status := .running } : State) := by
  obtain ⟨ra0, ra1, ra2, ra3, ra4, ra5⟩ := ha.r6
  obtain ⟨⟨alra0, alra1, alra2, alra3, alra4, alra5⟩, fra0, fra1, fra2, fra3, fra4, fra5⟩ := ha.addr6
  obtain ⟨rb0, rb1, rb2, rb3, rb4, rb5⟩ := hb.r6
  obtain ⟨⟨alrb0, alrb1, alrb2, alrb3, alrb4, alrb5⟩, frb0, frb1, frb2, frb3, frb4, frb5⟩ := hb.addr6
  obtain ⟨rr0, rr1, rr2, rr3, rr4, rr5, rr6, rr7, rr8, rr9, rr10, rr11⟩ := hr.r12
  obtain ⟨wr0, wr1, wr2, wr3, wr4, wr5, wr6, wr7, wr8, wr9, wr10, wr11⟩ := hr.w12
  obtain ⟨⟨alrr0, alrr1, alrr2, alrr3, alrr4, alrr5, alrr6, alrr7, alrr8, alrr9, alrr10, alrr11⟩, frr0, frr1, frr2, frr3, frr4, frr5, frr6, frr7, frr8, frr9, frr10, frr11⟩ := hr.addr12
  obtain ⟨als0, rs0⟩ := hstk.f0
  obtain ⟨room1, als1, sr1, sw1⟩ := hstk.f1 (by omega)
  obtain ⟨room2, als2, sr2, sw2⟩ := hstk.f2 (by omega)
  obtain ⟨room3, als3, sr3, sw3⟩ := hstk.f3 (by omega)
  obtain ⟨room4, als4, sr4, sw4⟩ := hstk.f4 (by omega)
  replace hra := Hide.mk hra; replace hrb := Hide.mk hrb; replace hrs := Hide.mk hrs
  replace has := Hide.mk has; replace hbs := Hide.mk hbs
  simp only [X86.Disjoint, OffStack] at hra hrb hrs has hbs
  clear ha hb hr hstk
  rw [State.eta s]
  x86_sym [hst, hpc, hdi, hsi, hdx, sub8x3_toNat, sub8x4_toNat, mulLo_fold, mulHi_fold, ← ha0, ← hb0, ← hb1, ← hb2, ← hb3, ← hb4, ← hb5, ← hm7l, ← hm7h, ← hm11l, ← hm11h, ← ht12, ← ht13, ← hm17l, ← hm17h, ← ht18, ← ht19, ← hm23l, ← hm23h, ← ht24, ← ht25, ← hm29l, ← hm29h, ← ht30, ← ht31, ← hm35l, ← hm35h, ← ht36, ← ht37]

set_option maxHeartbeats 1600000 in
theorem mul768_part1 (s : State) (pr pa pb : Word)
    (hr : Buf s pr 12 true) (ha : Buf s pa 6 false) (hb : Buf s pb 6 false)
    (hra : X86.Disjoint pr 12 pa 6) (hrb : X86.Disjoint pr 12 pb 6)
    (hstk : Stack s 4) (hrs : OffStack s 4 pr 12) (has : OffStack s 4 pa 6) (hbs : OffStack s 4 pb 6) {a0 a1 b0 b1 b2 b3 b4 b5 m7l m42h m42l m48h m48l m55h m55l m62h m62l m69h m69l m76h m76l : Word} {t12 t18 t24 t30 t31 t36 t37 t43 t44 t49 t50 t51 t52 t56 t57 t58 t59 t63 t64 t65 t66 t70 t71 t72 t73 t77 t78 t79 t80 : ArithRes}
    (ha1 : a1 = s.mem (pa.toNat + 8)) (hb0 : b0 = s.mem (pb.toNat + 0)) (hb1 : b1 = s.mem (pb.toNat + 8))
    (hb2 : b2 = s.mem (pb.toNat + 16)) (hb3 : b3 = s.mem (pb.toNat + 24)) (hb4 : b4 = s.mem (pb.toNat + 32))
    (hb5 : b5 = s.mem (pb.toNat + 40)) (hm42l : m42l = mulLo a1 b0) (hm42h : m42h = mulHi a1 b0)
    (ht43 : t43 = addc .q t12.val m42l false) (ht44 : t44 = addc .q m42h (0#64) t43.cf) (hm48l : m48l = mulLo a1 b1)
    (hm48h : m48h = mulHi a1 b1) (ht49 : t49 = addc .q m48l t44.val false) (ht50 : t50 = addc .q m48h (0#64) t49.cf)
    (ht51 : t51 = addc .q t18.val t49.val false) (ht52 : t52 = addc .q t50.val (0#64) t51.cf) (hm55l : m55l = mulLo a1 b2)
    (hm55h : m55h = mulHi a1 b2) (ht56 : t56 = addc .q m55l t52.val false) (ht57 : t57 = addc .q m55h (0#64) t56.cf)
    (ht58 : t58 = addc .q t24.val t56.val false) (ht59 : t59 = addc .q t57.val (0#64) t58.cf) (hm62l : m62l = mulLo a1 b3)
    (hm62h : m62h = mulHi a1 b3) (ht63 : t63 = addc .q m62l t59.val false) (ht64 : t64 = addc .q m62h (0#64) t63.cf)
    (ht65 : t65 = addc .q t30.val t63.val false) (ht66 : t66 = addc .q t64.val (0#64) t65.cf) (hm69l : m69l = mulLo a1 b4)
    (hm69h : m69h = mulHi a1 b4) (ht70 : t70 = addc .q m69l t66.val false) (ht71 : t71 = addc .q m69h (0#64) t70.cf)
    (ht72 : t72 = addc .q t36.val t70.val false) (ht73 : t73 = addc .q t71.val (0#64) t72.cf) (hm76l : m76l = mulLo a1 b5)
    (hm76h : m76h = mulHi a1 b5) (ht77 : t77 = addc .q m76l t73.val false) (ht78 : t78 = addc .q m76h (0#64) t77.cf)
    (ht79 : t79 = addc .q t37.val t77.val false) (ht80 : t80 = addc .q t78.val (0#64) t79.cf) :
    run embedded_pairing_core_arch_x86_64_bigint_768_multiply ({ rax := t36.val, rcx := pb, rdx := t37.val, rbx := s.rbx, rsp := s.rsp - 8 - 8 - 8 - 8, rbp := s.rbp, rsi := pa, rdi := pr, r8 := t31.val, r9 := a0, r10 := t12.val, r11 := t18.val, r12 := t24.val, r13 := t30.val, r14 := t36.val, r15 := t37.val, cf := some t37.cf, zf := some t37.zf, sf := some t37.sf, of := some t37.of, mem := setMem (setMem (setMem (setMem (setMem (s.mem) (s.rsp.toNat - 8) s.r12) (s.rsp.toNat - 8 - 8) s.r13) (s.rsp.toNat - 8 - 8 - 8) s.r14) (s.rsp.toNat - 8 - 8 - 8 - 8) s.r15) (pr.toNat + 0) m7l, readable := s.readable, writable := s.writable, cpuidFn := s.cpuidFn, pc := 40, status := .running } : State) 42
      = ({ rax := t77.val, rcx := pb, rdx := t80.val, rbx := s.rbx, rsp := s.rsp - 8 - 8 - 8 - 8, rbp := s.rbp, rsi := pa, rdi := pr, r8 := t31.val, r9 := a1, r10 := t80.val, r11 := t51.val, r12 := t58.val, r13 := t65.val, r14 := t72.val, r15 := t79.val, cf := some t80.cf, zf := some t80.zf, sf := some t80.sf, of := some t80.of, mem := setMem (setMem (setMem (setMem (setMem (setMem (s.mem) (s.rsp.toNat - 8) s.r12) (s.rsp.toNat - 8 - 8) s.r13) (s.rsp.toNat - 8 - 8 - 8) s.r14) (s.rsp.toNat - 8 - 8 - 8 - 8) s.r15) (pr.toNat + 0) m7l) (pr.toNat + 8) t43.val, readable := s.readable, writable := s.writable, cpuidFn := s.cpuidFn, pc := 82, status := .running } : State) := by
  obtain ⟨ra0, ra1, ra2, ra3, ra4, ra5⟩ := ha.r6
  obtain ⟨⟨alra0, alra1, alra2, alra3, alra4, alra5⟩, fra0, fra1, fra2, fra3, fra4, fra5⟩ := ha.addr6
  obtain ⟨rb0, rb1, rb2, rb3, rb4, rb5⟩ := hb.r6
  obtain ⟨⟨alrb0, alrb1, alrb2, alrb3, alrb4, alrb5⟩, frb0, frb1, frb2, frb3, frb4, frb5⟩ := hb.addr6
  obtain ⟨rr0, rr1, rr2, rr3, rr4, rr5, rr6, rr7, rr8, rr9, rr10, rr11⟩ := hr.r12
  obtain ⟨wr0, wr1, wr2, wr3, wr4, wr5, wr6, wr7, wr8, wr9, wr10, wr11⟩ := hr.w12
  obtain ⟨⟨alrr0, alrr1, alrr2, alrr3, alrr4, alrr5, alrr6, alrr7, alrr8, alrr9, alrr10, alrr11⟩, frr0, frr1, frr2, frr3, frr4, frr5, frr6, frr7, frr8, frr9, frr10, frr11⟩ := hr.addr12
  obtain ⟨als0, rs0⟩ := hstk.f0
  obtain ⟨room1, als1, sr1, sw1⟩ := hstk.f1 (by omega)
  obtain ⟨room2, als2, sr2, sw2⟩ := hstk.f2 (by omega)
  obtain ⟨room3, als3, sr3, sw3⟩ := hstk.f3 (by omega)
  obtain ⟨room4, als4, sr4, sw4⟩ := hstk.f4 (by omega)
  replace hra := Hide.mk hra; replace hrb := Hide.mk hrb; replace hrs := Hide.mk hrs
  replace has := Hide.mk has; replace hbs := Hide.mk hbs
  simp only [X86.Disjoint, OffStack] at hra hrb hrs has hbs
  clear ha hb hr hstk
  x86_sym [sub8x3_toNat, sub8x4_toNat, mulLo_fold, mulHi_fold, ← ha1, ← hb0, ← hb1, ← hb2, ← hb3, ← hb4, ← hb5, ← hm42l, ← hm42h, ← ht43, ← ht44, ← hm48l, ← hm48h, ← ht49, ← ht50, ← ht51, ← ht52, ← hm55l, ← hm55h, ← ht56, ← ht57, ← ht58, ← ht59, ← hm62l, ← hm62h, ← ht63, ← ht64, ← ht65, ← ht66, ← hm69l, ← hm69h, ← ht70, ← ht71, ← ht72, ← ht73, ← hm76l, ← hm76h, ← ht77, ← ht78, ← ht79, ← ht80]

set_option maxHeartbeats 1600000 in
theorem mul768_part2 (s : State) (pr pa pb : Word)
    (hr : Buf s pr 12 true) (ha : Buf s pa 6 false) (hb : Buf s pb 6 false)
    (hra : X86.Disjoint pr 12 pa 6) (hrb : X86.Disjoint pr 12 pb 6)
    (hstk : Stack s 4) (hrs : OffStack s 4 pr 12) (has : OffStack s 4 pa 6) (hbs : OffStack s 4 pb 6) {a1 a2 b0 b1 b2 b3 b4 b5 m7l m84h m84l m90h m90l m97h m97l m104h m104l m111h m111l m118h m118l : Word} {t31 t43 t51 t58 t65 t72 t77 t79 t80 t85 t86 t91 t92 t93 t94 t98 t99 t100 t101 t105 t106 t107 t108 t112 t113 t114 t115 t119 t120 t121 t122 : ArithRes}
    (ha2 : a2 = s.mem (pa.toNat + 16)) (hb0 : b0 = s.mem (pb.toNat + 0)) (hb1 : b1 = s.mem (pb.toNat + 8))
    (hb2 : b2 = s.mem (pb.toNat + 16)) (hb3 : b3 = s.mem (pb.toNat + 24)) (hb4 : b4 = s.mem (pb.toNat + 32))
    (hb5 : b5 = s.mem (pb.toNat + 40)) (hm84l : m84l = mulLo a2 b0) (hm84h : m84h = mulHi a2 b0)
    (ht85 : t85 = addc .q t51.val m84l false) (ht86 : t86 = addc .q m84h (0#64) t85.cf) (hm90l : m90l = mulLo a2 b1)
    (hm90h : m90h = mulHi a2 b1) (ht91 : t91 = addc .q m90l t86.val false) (ht92 : t92 = addc .q m90h (0#64) t91.cf)
    (ht93 : t93 = addc .q t58.val t91.val false) (ht94 : t94 = addc .q t92.val (0#64) t93.cf) (hm97l : m97l = mulLo a2 b2)
    (hm97h : m97h = mulHi a2 b2) (ht98 : t98 = addc .q m97l t94.val false) (ht99 : t99 = addc .q m97h (0#64) t98.cf)
    (ht100 : t100 = addc .q t65.val t98.val false) (ht101 : t101 = addc .q t99.val (0#64) t100.cf)
    (hm104l : m104l = mulLo a2 b3) (hm104h : m104h = mulHi a2 b3) (ht105 : t105 = addc .q m104l t101.val false)
    (ht106 : t106 = addc .q m104h (0#64) t105.cf) (ht107 : t107 = addc .q t72.val t105.val false)
    (ht108 : t108 = addc .q t106.val (0#64) t107.cf) (hm111l : m111l = mulLo a2 b4) (hm111h : m111h = mulHi a2 b4)
    (ht112 : t112 = addc .q m111l t108.val false) (ht113 : t113 = addc .q m111h (0#64) t112.cf)
    (ht114 : t114 = addc .q t79.val t112.val false) (ht115 : t115 = addc .q t113.val (0#64) t114.cf)
    (hm118l : m118l = mulLo a2 b5) (hm118h : m118h = mulHi a2 b5) (ht119 : t119 = addc .q m118l t115.val false)
    (ht120 : t120 = addc .q m118h (0#64) t119.cf) (ht121 : t121 = addc .q t80.val t119.val false)
    (ht122 : t122 = addc .q t120.val (0#64) t121.cf) :
    run embedded_pairing_core_arch_x86_64_bigint_768_multiply ({ rax := t77.val, rcx := pb, rdx := t80.val, rbx := s.rbx, rsp := s.rsp - 8 - 8 - 8 - 8, rbp := s.rbp, rsi := pa, rdi := pr, r8 := t31.val, r9 := a1, r10 := t80.val, r11 := t51.val, r12 := t58.val, r13 := t65.val, r14 := t72.val, r15 := t79.val, cf := some t80.cf, zf := some t80.zf, sf := some t80.sf, of := some t80.of, mem := setMem (setMem (setMem (setMem (setMem (setMem (s.mem) (s.rsp.toNat - 8) s.r12) (s.rsp.toNat - 8 - 8) s.r13) (s.rsp.toNat - 8 - 8 - 8) s.r14) (s.rsp.toNat - 8 - 8 - 8 - 8) s.r15) (pr.toNat + 0) m7l) (pr.toNat + 8) t43.val, readable := s.readable, writable := s.writable, cpuidFn := s.cpuidFn, pc := 82, status := .running } : State) 42
      = ({ rax := t119.val, rcx := pb, rdx := t122.val, rbx := s.rbx, rsp := s.rsp - 8 - 8 - 8 - 8, rbp := s.rbp, rsi := pa, rdi := pr, r8 := t31.val, r9 := a2, r10 := t121.val, r11 := t122.val, r12 := t93.val, r13 := t100.val, r14 := t107.val, r15 := t114.val, cf := some t122.cf, zf := some t122.zf, sf := some t122.sf, of := some t122.of, mem := setMem (setMem (setMem (setMem (setMem (setMem (setMem (s.mem) (s.rsp.toNat - 8) s.r12) (s.rsp.toNat - 8 - 8) s.r13) (s.rsp.toNat - 8 - 8 - 8) s.r14) (s.rsp.toNat - 8 - 8 - 8 - 8) s.r15) (pr.toNat + 0) m7l) (pr.toNat + 8) t43.val) (pr.toNat + 16) t85.val, readable := s.readable, writable := s.writable, cpuidFn := s.cpuidFn, pc := 124, status := .running } : State) := by
  obtain ⟨ra0, ra1, ra2, ra3, ra4, ra5⟩ := ha.r6
  obtain ⟨⟨alra0, alra1, alra2, alra3, alra4, alra5⟩, fra0, fra1, fra2, fra3, fra4, fra5⟩ := ha.addr6
  obtain ⟨rb0, rb1, rb2, rb3, rb4, rb5⟩ := hb.r6
  obtain ⟨⟨alrb0, alrb1, alrb2, alrb3, alrb4, alrb5⟩, frb0, frb1, frb2, frb3, frb4, frb5⟩ := hb.addr6
  obtain ⟨rr0, rr1, rr2, rr3, rr4, rr5, rr6, rr7, rr8, rr9, rr10, rr11⟩ := hr.r12
  obtain ⟨wr0, wr1, wr2, wr3, wr4, wr5, wr6, wr7, wr8, wr9, wr10, wr11⟩ := hr.w12
  obtain ⟨⟨alrr0, alrr1, alrr2, alrr3, alrr4, alrr5, alrr6, alrr7, alrr8, alrr9, alrr10, alrr11⟩, frr0, frr1, frr2, frr3, frr4, frr5, frr6, frr7, frr8, frr9, frr10, frr11⟩ := hr.addr12
  obtain ⟨als0, rs0⟩ := hstk.f0
  obtain ⟨room1, als1, sr1, sw1⟩ := hstk.f1 (by omega)
  obtain ⟨room2, als2, sr2, sw2⟩ := hstk.f2 (by omega)
  obtain ⟨room3, als3, sr3, sw3⟩ := hstk.f3 (by omega)
  obtain ⟨room4, als4, sr4, sw4⟩ := hstk.f4 (by omega)
  replace hra := Hide.mk hra; replace hrb := Hide.mk hrb; replace hrs := Hide.mk hrs
  replace has := Hide.mk has; replace hbs := Hide.mk hbs
  simp only [X86.Disjoint, OffStack] at hra hrb hrs has hbs
  clear ha hb hr hstk
  x86_sym [sub8x3_toNat, sub8x4_toNat, mulLo_fold, mulHi_fold, ← ha2, ← hb0, ← hb1, ← hb2, ← hb3, ← hb4, ← hb5, ← hm84l, ← hm84h, ← ht85, ← ht86, ← hm90l, ← hm90h, ← ht91, ← ht92, ← ht93, ← ht94, ← hm97l, ← hm97h, ← ht98, ← ht99, ← ht100, ← ht101, ← hm104l, ← hm104h, ← ht105, ← ht106, ← ht107, ← ht108, ← hm111l, ← hm111h, ← ht112, ← ht113, ← ht114, ← ht115, ← hm118l, ← hm118h, ← ht119, ← ht120, ← ht121, ← ht122]

set_option maxHeartbeats 1600000 in
theorem mul768_part3 (s : State) (pr pa pb : Word)
    (hr : Buf s pr 12 true) (ha : Buf s pa 6 false) (hb : Buf s pb 6 false)
    (hra : X86.Disjoint pr 12 pa 6) (hrb : X86.Disjoint pr 12 pb 6)
    (hstk : Stack s 4) (hrs : OffStack s 4 pr 12) (has : OffStack s 4 pa 6) (hbs : OffStack s 4 pb 6) {a2 a3 b0 b1 b2 b3 b4 b5 m7l m126h m126l m132h m132l m139h m139l m146h m146l m153h m153l m160h m160l : Word} {t31 t43 t85 t93 t100 t107 t114 t119 t121 t122 t127 t128 t133 t134 t135 t136 t140 t141 t142 t143 t147 t148 t149 t150 t154 t155 t156 t157 t161 t162 t163 t164 : ArithRes}
    (ha3 : a3 = s.mem (pa.toNat + 24)) (hb0 : b0 = s.mem (pb.toNat + 0)) (hb1 : b1 = s.mem (pb.toNat + 8))
    (hb2 : b2 = s.mem (pb.toNat + 16)) (hb3 : b3 = s.mem (pb.toNat + 24)) (hb4 : b4 = s.mem (pb.toNat + 32))
    (hb5 : b5 = s.mem (pb.toNat + 40)) (hm126l : m126l = mulLo a3 b0) (hm126h : m126h = mulHi a3 b0)
    (ht127 : t127 = addc .q t93.val m126l false) (ht128 : t128 = addc .q m126h (0#64) t127.cf)
    (hm132l : m132l = mulLo a3 b1) (hm132h : m132h = mulHi a3 b1) (ht133 : t133 = addc .q m132l t128.val false)
    (ht134 : t134 = addc .q m132h (0#64) t133.cf) (ht135 : t135 = addc .q t100.val t133.val false)
    (ht136 : t136 = addc .q t134.val (0#64) t135.cf) (hm139l : m139l = mulLo a3 b2) (hm139h : m139h = mulHi a3 b2)
    (ht140 : t140 = addc .q m139l t136.val false) (ht141 : t141 = addc .q m139h (0#64) t140.cf)
    (ht142 : t142 = addc .q t107.val t140.val false) (ht143 : t143 = addc .q t141.val (0#64) t142.cf)
    (hm146l : m146l = mulLo a3 b3) (hm146h : m146h = mulHi a3 b3) (ht147 : t147 = addc .q m146l t143.val false)
    (ht148 : t148 = addc .q m146h (0#64) t147.cf) (ht149 : t149 = addc .q t114.val t147.val false)
    (ht150 : t150 = addc .q t148.val (0#64) t149.cf) (hm153l : m153l = mulLo a3 b4) (hm153h : m153h = mulHi a3 b4)
    (ht154 : t154 = addc .q m153l t150.val false) (ht155 : t155 = addc .q m153h (0#64) t154.cf)
    (ht156 : t156 = addc .q t121.val t154.val false) (ht157 : t157 = addc .q t155.val (0#64) t156.cf)
    (hm160l : m160l = mulLo a3 b5) (hm160h : m160h = mulHi a3 b5) (ht161 : t161 = addc .q m160l t157.val false)
    (ht162 : t162 = addc .q m160h (0#64) t161.cf) (ht163 : t163 = addc .q t122.val t161.val false)
    (ht164 : t164 = addc .q t162.val (0#64) t163.cf) :
    run embedded_pairing_core_arch_x86_64_bigint_768_multiply ({ rax := t119.val, rcx := pb, rdx := t122.val, rbx := s.rbx, rsp := s.rsp - 8 - 8 - 8 - 8, rbp := s.rbp, rsi := pa, rdi := pr, r8 := t31.val, r9 := a2, r10 := t121.val, r11 := t122.val, r12 := t93.val, r13 := t100.val, r14 := t107.val, r15 := t114.val, cf := some t122.cf, zf := some t122.zf, sf := some t122.sf, of := some t122.of, mem := setMem (setMem (setMem (setMem (setMem (setMem (setMem (s.mem) (s.rsp.toNat - 8) s.r12) (s.rsp.toNat - 8 - 8) s.r13) (s.rsp.toNat - 8 - 8 - 8) s.r14) (s.rsp.toNat - 8 - 8 - 8 - 8) s.r15) (pr.toNat + 0) m7l) (pr.toNat + 8) t43.val) (pr.toNat + 16) t85.val, readable := s.readable, writable := s.writable, cpuidFn := s.cpuidFn, pc := 124, status := .running } : State) 42
      = ({ rax := t161.val, rcx := pb, rdx := t164.val, rbx := s.rbx, rsp := s.rsp - 8 - 8 - 8 - 8, rbp := s.rbp, rsi := pa, rdi := pr, r8 := t31.val, r9 := a3, r10 := t156.val, r11 := t163.val, r12 := t164.val, r13 := t135.val, r14 := t142.val, r15 := t149.val, cf := some t164.cf, zf := some t164.zf, sf := some t164.sf, of := some t164.of, mem := setMem (setMem (setMem (setMem (setMem (setMem (setMem (setMem (s.mem) (s.rsp.toNat - 8) s.r12) (s.rsp.toNat - 8 - 8) s.r13) (s.rsp.toNat - 8 - 8 - 8) s.r14) (s.rsp.toNat - 8 - 8 - 8 - 8) s.r15) (pr.toNat + 0) m7l) (pr.toNat + 8) t43.val) (pr.toNat + 16) t85.val) (pr.toNat + 24) t127.val, readable := s.readable, writable := s.writable, cpuidFn := s.cpuidFn, pc := 166, status := .running } : State) := by
  obtain ⟨ra0, ra1, ra2, ra3, ra4, ra5⟩ := ha.r6
  obtain ⟨⟨alra0, alra1, alra2, alra3, alra4, alra5⟩, fra0, fra1, fra2, fra3, fra4, fra5⟩ := ha.addr6
  obtain ⟨rb0, rb1, rb2, rb3, rb4, rb5⟩ := hb.r6
  obtain ⟨⟨alrb0, alrb1, alrb2, alrb3, alrb4, alrb5⟩, frb0, frb1, frb2, frb3, frb4, frb5⟩ := hb.addr6
  obtain ⟨rr0, rr1, rr2, rr3, rr4, rr5, rr6, rr7, rr8, rr9, rr10, rr11⟩ := hr.r12
  obtain ⟨wr0, wr1, wr2, wr3, wr4, wr5, wr6, wr7, wr8, wr9, wr10, wr11⟩ := hr.w12
  obtain ⟨⟨alrr0, alrr1, alrr2, alrr3, alrr4, alrr5, alrr6, alrr7, alrr8, alrr9, alrr10, alrr11⟩, frr0, frr1, frr2, frr3, frr4, frr5, frr6, frr7, frr8, frr9, frr10, frr11⟩ := hr.addr12
  obtain ⟨als0, rs0⟩ := hstk.f0
  obtain ⟨room1, als1, sr1, sw1⟩ := hstk.f1 (by omega)
  obtain ⟨room2, als2, sr2, sw2⟩ := hstk.f2 (by omega)
  obtain ⟨room3, als3, sr3, sw3⟩ := hstk.f3 (by omega)
  obtain ⟨room4, als4, sr4, sw4⟩ := hstk.f4 (by omega)
  replace hra := Hide.mk hra; replace hrb := Hide.mk hrb; replace hrs := Hide.mk hrs
  replace has := Hide.mk has; replace hbs := Hide.mk hbs
  simp only [X86.Disjoint, OffStack] at hra hrb hrs has hbs
  clear ha hb hr hstk
  x86_sym [sub8x3_toNat, sub8x4_toNat, mulLo_fold, mulHi_fold, ← ha3, ← hb0, ← hb1, ← hb2, ← hb3, ← hb4, ← hb5, ← hm126l, ← hm126h, ← ht127, ← ht128, ← hm132l, ← hm132h, ← ht133, ← ht134, ← ht135, ← ht136, ← hm139l, ← hm139h, ← ht140, ← ht141, ← ht142, ← ht143, ← hm146l, ← hm146h, ← ht147, ← ht148, ← ht149, ← ht150, ← hm153l, ← hm153h, ← ht154, ← ht155, ← ht156, ← ht157, ← hm160l, ← hm160h, ← ht161, ← ht162, ← ht163, ← ht164]

set_option maxHeartbeats 1600000 in
theorem mul768_part4 (s : State) (pr pa pb : Word)
    (hr : Buf s pr 12 true) (ha : Buf s pa 6 false) (hb : Buf s pb 6 false)
    (hra : X86.Disjoint pr 12 pa 6) (hrb : X86.Disjoint pr 12 pb 6)
    (hstk : Stack s 4) (hrs : OffStack s 4 pr 12) (has : OffStack s 4 pa 6) (hbs : OffStack s 4 pb 6) {a3 a4 b0 b1 b2 b3 b4 b5 m7l m168h m168l m174h m174l m181h m181l m188h m188l m195h m195l m202h m202l : Word} {t31 t43 t85 t127 t135 t142 t149 t156 t161 t163 t164 t169 t170 t175 t176 t177 t178 t182 t183 t184 t185 t189 t190 t191 t192 t196 t197 t198 t199 t203 t204 t205 t206 : ArithRes}
    (ha4 : a4 = s.mem (pa.toNat + 32)) (hb0 : b0 = s.mem (pb.toNat + 0)) (hb1 : b1 = s.mem (pb.toNat + 8))
    (hb2 : b2 = s.mem (pb.toNat + 16)) (hb3 : b3 = s.mem (pb.toNat + 24)) (hb4 : b4 = s.mem (pb.toNat + 32))
    (hb5 : b5 = s.mem (pb.toNat + 40)) (hm168l : m168l = mulLo a4 b0) (hm168h : m168h = mulHi a4 b0)
    (ht169 : t169 = addc .q t135.val m168l false) (ht170 : t170 = addc .q m168h (0#64) t169.cf)
    (hm174l : m174l = mulLo a4 b1) (hm174h : m174h = mulHi a4 b1) (ht175 : t175 = addc .q m174l t170.val false)
    (ht176 : t176 = addc .q m174h (0#64) t175.cf) (ht177 : t177 = addc .q t142.val t175.val false)
    (ht178 : t178 = addc .q t176.val (0#64) t177.cf) (hm181l : m181l = mulLo a4 b2) (hm181h : m181h = mulHi a4 b2)
    (ht182 : t182 = addc .q m181l t178.val false) (ht183 : t183 = addc .q m181h (0#64) t182.cf)
    (ht184 : t184 = addc .q t149.val t182.val false) (ht185 : t185 = addc .q t183.val (0#64) t184.cf)
    (hm188l : m188l = mulLo a4 b3) (hm188h : m188h = mulHi a4 b3) (ht189 : t189 = addc .q m188l t185.val false)
    (ht190 : t190 = addc .q m188h (0#64) t189.cf) (ht191 : t191 = addc .q t156.val t189.val false)
    (ht192 : t192 = addc .q t190.val (0#64) t191.cf) (hm195l : m195l = mulLo a4 b4) (hm195h : m195h = mulHi a4 b4)
    (ht196 : t196 = addc .q m195l t192.val false) (ht197 : t197 = addc .q m195h (0#64) t196.cf)
    (ht198 : t198 = addc .q t163.val t196.val false) (ht199 : t199 = addc .q t197.val (0#64) t198.cf)
    (hm202l : m202l = mulLo a4 b5) (hm202h : m202h = mulHi a4 b5) (ht203 : t203 = addc .q m202l t199.val false)
    (ht204 : t204 = addc .q m202h (0#64) t203.cf) (ht205 : t205 = addc .q t164.val t203.val false)
    (ht206 : t206 = addc .q t204.val (0#64) t205.cf) :
    run embedded_pairing_core_arch_x86_64_bigint_768_multiply ({ rax := t161.val, rcx := pb, rdx := t164.val, rbx := s.rbx, rsp := s.rsp - 8 - 8 - 8 - 8, rbp := s.rbp, rsi := pa, rdi := pr, r8 := t31.val, r9 := a3, r10 := t156.val, r11 := t163.val, r12 := t164.val, r13 := t135.val, r14 := t142.val, r15 := t149.val, cf := some t164.cf, zf := some t164.zf, sf := some t164.sf, of := some t164.of, mem := setMem (setMem (setMem (setMem (setMem (setMem (setMem (setMem (s.mem) (s.rsp.toNat - 8) s.r12) (s.rsp.toNat - 8 - 8) s.r13) (s.rsp.toNat - 8 - 8 - 8) s.r14) (s.rsp.toNat - 8 - 8 - 8 - 8) s.r15) (pr.toNat + 0) m7l) (pr.toNat + 8) t43.val) (pr.toNat + 16) t85.val) (pr.toNat + 24) t127.val, readable := s.readable, writable := s.writable, cpuidFn := s.cpuidFn, pc := 166, status := .running } : State) 42
      = ({ rax := t203.val, rcx := pb, rdx := t206.val, rbx := s.rbx, rsp := s.rsp - 8 - 8 - 8 - 8, rbp := s.rbp, rsi := pa, rdi := pr, r8 := t31.val, r9 := a4, r10 := t191.val, r11 := t198.val, r12 := t205.val, r13 := t206.val, r14 := t177.val, r15 := t184.val, cf := some t206.cf, zf := some t206.zf, sf := some t206.sf, of := some t206.of, mem := setMem (setMem (setMem (setMem (setMem (setMem (setMem (setMem (setMem (s.mem) (s.rsp.toNat - 8) s.r12) (s.rsp.toNat - 8 - 8) s.r13) (s.rsp.toNat - 8 - 8 - 8) s.r14) (s.rsp.toNat - 8 - 8 - 8 - 8) s.r15) (pr.toNat + 0) m7l) (pr.toNat + 8) t43.val) (pr.toNat + 16) t85.val) (pr.toNat + 24) t127.val) (pr.toNat + 32) t169.val, readable := s.readable, writable := s.writable, cpuidFn := s.cpuidFn, pc := 208, status := .running } : State) := by
  obtain ⟨ra0, ra1, ra2, ra3, ra4, ra5⟩ := ha.r6
  obtain ⟨⟨alra0, alra1, alra2, alra3, alra4, alra5⟩, fra0, fra1, fra2, fra3, fra4, fra5⟩ := ha.addr6
  obtain ⟨rb0, rb1, rb2, rb3, rb4, rb5⟩ := hb.r6
  obtain ⟨⟨alrb0, alrb1, alrb2, alrb3, alrb4, alrb5⟩, frb0, frb1, frb2, frb3, frb4, frb5⟩ := hb.addr6
  obtain ⟨rr0, rr1, rr2, rr3, rr4, rr5, rr6, rr7, rr8, rr9, rr10, rr11⟩ := hr.r12
  obtain ⟨wr0, wr1, wr2, wr3, wr4, wr5, wr6, wr7, wr8, wr9, wr10, wr11⟩ := hr.w12
  obtain ⟨⟨alrr0, alrr1, alrr2, alrr3, alrr4, alrr5, alrr6, alrr7, alrr8, alrr9, alrr10, alrr11⟩, frr0, frr1, frr2, frr3, frr4, frr5, frr6, frr7, frr8, frr9, frr10, frr11⟩ := hr.addr12
  obtain ⟨als0, rs0⟩ := hstk.f0
  obtain ⟨room1, als1, sr1, sw1⟩ := hstk.f1 (by omega)
  obtain ⟨room2, als2, sr2, sw2⟩ := hstk.f2 (by omega)
  obtain ⟨room3, als3, sr3, sw3⟩ := hstk.f3 (by omega)
  obtain ⟨room4, als4, sr4, sw4⟩ := hstk.f4 (by omega)
  replace hra := Hide.mk hra; replace hrb := Hide.mk hrb; replace hrs := Hide.mk hrs
  replace has := Hide.mk has; replace hbs := Hide.mk hbs
  simp only [X86.Disjoint, OffStack] at hra hrb hrs has hbs
  clear ha hb hr hstk
  x86_sym [sub8x3_toNat, sub8x4_toNat, mulLo_fold, mulHi_fold, ← ha4, ← hb0, ← hb1, ← hb2, ← hb3, ← hb4, ← hb5, ← hm168l, ← hm168h, ← ht169, ← ht170, ← hm174l, ← hm174h, ← ht175, ← ht176, ← ht177, ← ht178, ← hm181l, ← hm181h, ← ht182, ← ht183, ← ht184, ← ht185, ← hm188l, ← hm188h, ← ht189, ← ht190, ← ht191, ← ht192, ← hm195l, ← hm195h, ← ht196, ← ht197, ← ht198, ← ht199, ← hm202l, ← hm202h, ← ht203, ← ht204, ← ht205, ← ht206]

set_option maxHeartbeats 1600000 in
theorem mul768_part5 (s : State) (pr pa pb : Word)
    (hr : Buf s pr 12 true) (ha : Buf s pa 6 false) (hb : Buf s pb 6 false)
    (hra : X86.Disjoint pr 12 pa 6) (hrb : X86.Disjoint pr 12 pb 6)
    (hstk : Stack s 4) (hrs : OffStack s 4 pr 12) (has : OffStack s 4 pa 6) (hbs : OffStack s 4 pb 6) {a4 a5 b0 b1 b2 b3 b4 b5 m7l m210h m210l m216h m216l m223h m223l m230h m230l m237h m237l m244h m244l : Word} {t31 t43 t85 t127 t169 t177 t184 t191 t198 t203 t205 t206 t211 t212 t217 t218 t219 t220 t224 t225 t226 t227 t231 t232 t233 t234 t238 t239 t240 t241 t245 t246 t247 t248 : ArithRes}
    (ha5 : a5 = s.mem (pa.toNat + 40)) (hb0 : b0 = s.mem (pb.toNat + 0)) (hb1 : b1 = s.mem (pb.toNat + 8))
    (hb2 : b2 = s.mem (pb.toNat + 16)) (hb3 : b3 = s.mem (pb.toNat + 24)) (hb4 : b4 = s.mem (pb.toNat + 32))
    (hb5 : b5 = s.mem (pb.toNat + 40)) (hm210l : m210l = mulLo a5 b0) (hm210h : m210h = mulHi a5 b0)
    (ht211 : t211 = addc .q t177.val m210l false) (ht212 : t212 = addc .q m210h (0#64) t211.cf)
    (hm216l : m216l = mulLo a5 b1) (hm216h : m216h = mulHi a5 b1) (ht217 : t217 = addc .q m216l t212.val false)
    (ht218 : t218 = addc .q m216h (0#64) t217.cf) (ht219 : t219 = addc .q t184.val t217.val false)
    (ht220 : t220 = addc .q t218.val (0#64) t219.cf) (hm223l : m223l = mulLo a5 b2) (hm223h : m223h = mulHi a5 b2)
    (ht224 : t224 = addc .q m223l t220.val false) (ht225 : t225 = addc .q m223h (0#64) t224.cf)
    (ht226 : t226 = addc .q t191.val t224.val false) (ht227 : t227 = addc .q t225.val (0#64) t226.cf)
    (hm230l : m230l = mulLo a5 b3) (hm230h : m230h = mulHi a5 b3) (ht231 : t231 = addc .q m230l t227.val false)
    (ht232 : t232 = addc .q m230h (0#64) t231.cf) (ht233 : t233 = addc .q t198.val t231.val false)
    (ht234 : t234 = addc .q t232.val (0#64) t233.cf) (hm237l : m237l = mulLo a5 b4) (hm237h : m237h = mulHi a5 b4)
    (ht238 : t238 = addc .q m237l t234.val false) (ht239 : t239 = addc .q m237h (0#64) t238.cf)
    (ht240 : t240 = addc .q t205.val t238.val false) (ht241 : t241 = addc .q t239.val (0#64) t240.cf)
    (hm244l : m244l = mulLo a5 b5) (hm244h : m244h = mulHi a5 b5) (ht245 : t245 = addc .q m244l t241.val false)
    (ht246 : t246 = addc .q m244h (0#64) t245.cf) (ht247 : t247 = addc .q t206.val t245.val false)
    (ht248 : t248 = addc .q t246.val (0#64) t247.cf) :
    run embedded_pairing_core_arch_x86_64_bigint_768_multiply ({ rax := t203.val, rcx := pb, rdx := t206.val, rbx := s.rbx, rsp := s.rsp - 8 - 8 - 8 - 8, rbp := s.rbp, rsi := pa, rdi := pr, r8 := t31.val, r9 := a4, r10 := t191.val, r11 := t198.val, r12 := t205.val, r13 := t206.val, r14 := t177.val, r15 := t184.val, cf := some t206.cf, zf := some t206.zf, sf := some t206.sf, of := some t206.of, mem := setMem (setMem (setMem (setMem (setMem (setMem (setMem (setMem (setMem (s.mem) (s.rsp.toNat - 8) s.r12) (s.rsp.toNat - 8 - 8) s.r13) (s.rsp.toNat - 8 - 8 - 8) s.r14) (s.rsp.toNat - 8 - 8 - 8 - 8) s.r15) (pr.toNat + 0) m7l) (pr.toNat + 8) t43.val) (pr.toNat + 16) t85.val) (pr.toNat + 24) t127.val) (pr.toNat + 32) t169.val, readable := s.readable, writable := s.writable, cpuidFn := s.cpuidFn, pc := 208, status := .running } : State) 41
      = ({ rax := t245.val, rcx := pb, rdx := t248.val, rbx := s.rbx, rsp := s.rsp - 8 - 8 - 8 - 8, rbp := s.rbp, rsi := pa, rdi := pr, r8 := t31.val, r9 := a5, r10 := t226.val, r11 := t233.val, r12 := t240.val, r13 := t247.val, r14 := t241.val, r15 := t219.val, cf := some t248.cf, zf := some t248.zf, sf := some t248.sf, of := some t248.of, mem := setMem (setMem (setMem (setMem (setMem (setMem (setMem (setMem (setMem (setMem (s.mem) (s.rsp.toNat - 8) s.r12) (s.rsp.toNat - 8 - 8) s.r13) (s.rsp.toNat - 8 - 8 - 8) s.r14) (s.rsp.toNat - 8 - 8 - 8 - 8) s.r15) (pr.toNat + 0) m7l) (pr.toNat + 8) t43.val) (pr.toNat + 16) t85.val) (pr.toNat + 24) t127.val) (pr.toNat + 32) t169.val) (pr.toNat + 40) t211.val, readable := s.readable, writable := s.writable, cpuidFn := s.cpuidFn, pc := 249, status := .running } : State) := by
  obtain ⟨ra0, ra1, ra2, ra3, ra4, ra5⟩ := ha.r6
  obtain ⟨⟨alra0, alra1, alra2, alra3, alra4, alra5⟩, fra0, fra1, fra2, fra3, fra4, fra5⟩ := ha.addr6
  obtain ⟨rb0, rb1, rb2, rb3, rb4, rb5⟩ := hb.r6
  obtain ⟨⟨alrb0, alrb1, alrb2, alrb3, alrb4, alrb5⟩, frb0, frb1, frb2, frb3, frb4, frb5⟩ := hb.addr6
  obtain ⟨rr0, rr1, rr2, rr3, rr4, rr5, rr6, rr7, rr8, rr9, rr10, rr11⟩ := hr.r12
  obtain ⟨wr0, wr1, wr2, wr3, wr4, wr5, wr6, wr7, wr8, wr9, wr10, wr11⟩ := hr.w12
  obtain ⟨⟨alrr0, alrr1, alrr2, alrr3, alrr4, alrr5, alrr6, alrr7, alrr8, alrr9, alrr10, alrr11⟩, frr0, frr1, frr2, frr3, frr4, frr5, frr6, frr7, frr8, frr9, frr10, frr11⟩ := hr.addr12
  obtain ⟨als0, rs0⟩ := hstk.f0
  obtain ⟨room1, als1, sr1, sw1⟩ := hstk.f1 (by omega)
  obtain ⟨room2, als2, sr2, sw2⟩ := hstk.f2 (by omega)
  obtain ⟨room3, als3, sr3, sw3⟩ := hstk.f3 (by omega)
  obtain ⟨room4, als4, sr4, sw4⟩ := hstk.f4 (by omega)
  replace hra := Hide.mk hra; replace hrb := Hide.mk hrb; replace hrs := Hide.mk hrs
  replace has := Hide.mk has; replace hbs := Hide.mk hbs
  simp only [X86.Disjoint, OffStack] at hra hrb hrs has hbs
  clear ha hb hr hstk
  x86_sym [sub8x3_toNat, sub8x4_toNat, mulLo_fold, mulHi_fold, ← ha5, ← hb0, ← hb1, ← hb2, ← hb3, ← hb4, ← hb5, ← hm210l, ← hm210h, ← ht211, ← ht212, ← hm216l, ← hm216h, ← ht217, ← ht218, ← ht219, ← ht220, ← hm223l, ← hm223h, ← ht224, ← ht225, ← ht226, ← ht227, ← hm230l, ← hm230h, ← ht231, ← ht232, ← ht233, ← ht234, ← hm237l, ← hm237h, ← ht238, ← ht239, ← ht240, ← ht241, ← hm244l, ← hm244h, ← ht245, ← ht246, ← ht247, ← ht248]

set_option maxHeartbeats 1600000 in
theorem mul768_part6 (s : State) (pr pa pb : Word)
    (hr : Buf s pr 12 true) (ha : Buf s pa 6 false) (hb : Buf s pb 6 false)
    (hra : X86.Disjoint pr 12 pa 6) (hrb : X86.Disjoint pr 12 pb 6)
    (hstk : Stack s 4) (hrs : OffStack s 4 pr 12) (has : OffStack s 4 pa 6) (hbs : OffStack s 4 pb 6) {a5 m7l : Word} {t31 t43 t85 t127 t169 t211 t219 t226 t233 t240 t241 t245 t247 t248 : ArithRes}
     :
    run embedded_pairing_core_arch_x86_64_bigint_768_multiply ({ rax := t245.val, rcx := pb, rdx := t248.val, rbx := s.rbx, rsp := s.rsp - 8 - 8 - 8 - 8, rbp := s.rbp, rsi := pa, rdi := pr, r8 := t31.val, r9 := a5, r10 := t226.val, r11 := t233.val, r12 := t240.val, r13 := t247.val, r14 := t241.val, r15 := t219.val, cf := some t248.cf, zf := some t248.zf, sf := some t248.sf, of := some t248.of, mem := setMem (setMem (setMem (setMem (setMem (setMem (setMem (setMem (setMem (setMem (s.mem) (s.rsp.toNat - 8) s.r12) (s.rsp.toNat - 8 - 8) s.r13) (s.rsp.toNat - 8 - 8 - 8) s.r14) (s.rsp.toNat - 8 - 8 - 8 - 8) s.r15) (pr.toNat + 0) m7l) (pr.toNat + 8) t43.val) (pr.toNat + 16) t85.val) (pr.toNat + 24) t127.val) (pr.toNat + 32) t169.val) (pr.toNat + 40) t211.val, readable := s.readable, writable := s.writable, cpuidFn := s.cpuidFn, pc := 249, status := .running } : State) 11
      = ({ rax := t245.val, rcx := pb, rdx := t248.val, rbx := s.rbx, rsp := s.rsp + 8, rbp := s.rbp, rsi := pa, rdi := pr, r8 := t31.val, r9 := a5, r10 := t226.val, r11 := t233.val, r12 := s.r12, r13 := s.r13, r14 := s.r14, r15 := s.r15, cf := some t248.cf, zf := some t248.zf, sf := some t248.sf, of := some t248.of, mem := setMem (setMem (setMem (setMem (setMem (setMem (setMem (setMem (setMem (setMem (setMem (setMem (setMem (setMem (setMem (setMem (s.mem) (s.rsp.toNat - 8) s.r12) (s.rsp.toNat - 8 - 8) s.r13) (s.rsp.toNat - 8 - 8 - 8) s.r14) (s.rsp.toNat - 8 - 8 - 8 - 8) s.r15) (pr.toNat + 0) m7l) (pr.toNat + 8) t43.val) (pr.toNat + 16) t85.val) (pr.toNat + 24) t127.val) (pr.toNat + 32) t169.val) (pr.toNat + 40) t211.val) (pr.toNat + 48) t219.val) (pr.toNat + 56) t226.val) (pr.toNat + 64) t233.val) (pr.toNat + 72) t240.val) (pr.toNat + 80) t247.val) (pr.toNat + 88) t248.val, readable := s.readable, writable := s.writable, cpuidFn := s.cpuidFn, pc := (s.mem s.rsp.toNat).toNat, status := .halted } : State) := by
  obtain ⟨ra0, ra1, ra2, ra3, ra4, ra5⟩ := ha.r6
  obtain ⟨⟨alra0, alra1, alra2, alra3, alra4, alra5⟩, fra0, fra1, fra2, fra3, fra4, fra5⟩ := ha.addr6
  obtain ⟨rb0, rb1, rb2, rb3, rb4, rb5⟩ := hb.r6
  obtain ⟨⟨alrb0, alrb1, alrb2, alrb3, alrb4, alrb5⟩, frb0, frb1, frb2, frb3, frb4, frb5⟩ := hb.addr6
  obtain ⟨rr0, rr1, rr2, rr3, rr4, rr5, rr6, rr7, rr8, rr9, rr10, rr11⟩ := hr.r12
  obtain ⟨wr0, wr1, wr2, wr3, wr4, wr5, wr6, wr7, wr8, wr9, wr10, wr11⟩ := hr.w12
  obtain ⟨⟨alrr0, alrr1, alrr2, alrr3, alrr4, alrr5, alrr6, alrr7, alrr8, alrr9, alrr10, alrr11⟩, frr0, frr1, frr2, frr3, frr4, frr5, frr6, frr7, frr8, frr9, frr10, frr11⟩ := hr.addr12
  obtain ⟨als0, rs0⟩ := hstk.f0
  obtain ⟨room1, als1, sr1, sw1⟩ := hstk.f1 (by omega)
  obtain ⟨room2, als2, sr2, sw2⟩ := hstk.f2 (by omega)
  obtain ⟨room3, als3, sr3, sw3⟩ := hstk.f3 (by omega)
  obtain ⟨room4, als4, sr4, sw4⟩ := hstk.f4 (by omega)
  replace hra := Hide.mk hra; replace hrb := Hide.mk hrb; replace hrs := Hide.mk hrs
  replace has := Hide.mk has; replace hbs := Hide.mk hbs
  simp only [X86.Disjoint, OffStack] at hra hrb hrs has hbs
  clear ha hb hr hstk
  x86_sym [sub8x3_toNat, sub8x4_toNat, mulLo_fold, mulHi_fold]


set_option maxHeartbeats 1600000 in
set_option exponentiation.threshold 800 in
/-- `void bigint_768_multiply(res, a, b)`: the twelve limbs of `res` are `a · b` -/
theorem bigint_768_multiply_run (s : State) (pr pa pb : Word)
    (hst : s.status = .running) (hpc : s.pc = 0) (hdi : s.rdi = pr) (hsi : s.rsi = pa) (hdx : s.rdx = pb)
    (hr : Buf s pr 12 true) (ha : Buf s pa 6 false) (hb : Buf s pb 6 false)
    (hra : X86.Disjoint pr 12 pa 6) (hrb : X86.Disjoint pr 12 pb 6)
    (hstk : Stack s 4) (hrs : OffStack s 4 pr 12) (has : OffStack s 4 pa 6) (hbs : OffStack s 4 pb 6) :
    ∃ s', run embedded_pairing_core_arch_x86_64_bigint_768_multiply s 260 = s' ∧ Returned s s' ∧
      val (2 ^ 64) (limbs s'.mem pr.toNat 12)
        = val (2 ^ 64) (limbs s.mem pa.toNat 6) * val (2 ^ 64) (limbs s.mem pb.toNat 6) ∧
      (∀ k, ¬(pr.toNat ≤ k ∧ k < pr.toNat + 96) → ¬(s.rsp.toNat - 32 ≤ k ∧ k < s.rsp.toNat) → s'.mem k = s.mem k) := by
  refine ⟨_, rfl, ?_⟩
  simp only [limbs_six, limbs_twelve]
  obtain ⟨a0, ha0⟩ : ∃ x, x = s.mem (pa.toNat + 0) := ⟨_, rfl⟩
  obtain ⟨a1, ha1⟩ : ∃ x, x = s.mem (pa.toNat + 8) := ⟨_, rfl⟩
  obtain ⟨a2, ha2⟩ : ∃ x, x = s.mem (pa.toNat + 16) := ⟨_, rfl⟩
  obtain ⟨a3, ha3⟩ : ∃ x, x = s.mem (pa.toNat + 24) := ⟨_, rfl⟩
  obtain ⟨a4, ha4⟩ : ∃ x, x = s.mem (pa.toNat + 32) := ⟨_, rfl⟩
  obtain ⟨a5, ha5⟩ : ∃ x, x = s.mem (pa.toNat + 40) := ⟨_, rfl⟩
  obtain ⟨b0, hb0⟩ : ∃ x, x = s.mem (pb.toNat + 0) := ⟨_, rfl⟩
  obtain ⟨b1, hb1⟩ : ∃ x, x = s.mem (pb.toNat + 8) := ⟨_, rfl⟩
  obtain ⟨b2, hb2⟩ : ∃ x, x = s.mem (pb.toNat + 16) := ⟨_, rfl⟩
  obtain ⟨b3, hb3⟩ : ∃ x, x = s.mem (pb.toNat + 24) := ⟨_, rfl⟩
  obtain ⟨b4, hb4⟩ : ∃ x, x = s.mem (pb.toNat + 32) := ⟨_, rfl⟩
  obtain ⟨b5, hb5⟩ : ∃ x, x = s.mem (pb.toNat + 40) := ⟨_, rfl⟩
  simp only [← ha0, ← ha1, ← ha2, ← ha3, ← ha4, ← ha5, ← hb0, ← hb1, ← hb2, ← hb3, ← hb4, ← hb5]
  obtain ⟨m7l, hm7l⟩ : ∃ x, x = mulLo a0 b0 := ⟨_, rfl⟩
  obtain ⟨m7h, hm7h⟩ : ∃ x, x = mulHi a0 b0 := ⟨_, rfl⟩
  obtain ⟨m11l, hm11l⟩ : ∃ x, x = mulLo a0 b1 := ⟨_, rfl⟩
  obtain ⟨m11h, hm11h⟩ : ∃ x, x = mulHi a0 b1 := ⟨_, rfl⟩
  obtain ⟨t12, ht12⟩ : ∃ x, x = addc .q m11l m7h false := ⟨_, rfl⟩
  obtain ⟨t13, ht13⟩ : ∃ x, x = addc .q m11h (0#64) t12.cf := ⟨_, rfl⟩
  obtain ⟨m17l, hm17l⟩ : ∃ x, x = mulLo a0 b2 := ⟨_, rfl⟩
  obtain ⟨m17h, hm17h⟩ : ∃ x, x = mulHi a0 b2 := ⟨_, rfl⟩
  obtain ⟨t18, ht18⟩ : ∃ x, x = addc .q m17l t13.val false := ⟨_, rfl⟩
  obtain ⟨t19, ht19⟩ : ∃ x, x = addc .q m17h (0#64) t18.cf := ⟨_, rfl⟩
  obtain ⟨m23l, hm23l⟩ : ∃ x, x = mulLo a0 b3 := ⟨_, rfl⟩
  obtain ⟨m23h, hm23h⟩ : ∃ x, x = mulHi a0 b3 := ⟨_, rfl⟩
  obtain ⟨t24, ht24⟩ : ∃ x, x = addc .q m23l t19.val false := ⟨_, rfl⟩
  obtain ⟨t25, ht25⟩ : ∃ x, x = addc .q m23h (0#64) t24.cf := ⟨_, rfl⟩
  obtain ⟨m29l, hm29l⟩ : ∃ x, x = mulLo a0 b4 := ⟨_, rfl⟩
  obtain ⟨m29h, hm29h⟩ : ∃ x, x = mulHi a0 b4 := ⟨_, rfl⟩
  obtain ⟨t30, ht30⟩ : ∃ x, x = addc .q m29l t25.val false := ⟨_, rfl⟩
  obtain ⟨t31, ht31⟩ : ∃ x, x = addc .q m29h (0#64) t30.cf := ⟨_, rfl⟩
  obtain ⟨m35l, hm35l⟩ : ∃ x, x = mulLo a0 b5 := ⟨_, rfl⟩
  obtain ⟨m35h, hm35h⟩ : ∃ x, x = mulHi a0 b5 := ⟨_, rfl⟩
  obtain ⟨t36, ht36⟩ : ∃ x, x = addc .q m35l t31.val false := ⟨_, rfl⟩
  obtain ⟨t37, ht37⟩ : ∃ x, x = addc .q m35h (0#64) t36.cf := ⟨_, rfl⟩
  obtain ⟨m42l, hm42l⟩ : ∃ x, x = mulLo a1 b0 := ⟨_, rfl⟩
  obtain ⟨m42h, hm42h⟩ : ∃ x, x = mulHi a1 b0 := ⟨_, rfl⟩
  obtain ⟨t43, ht43⟩ : ∃ x, x = addc .q t12.val m42l false := ⟨_, rfl⟩
  obtain ⟨t44, ht44⟩ : ∃ x, x = addc .q m42h (0#64) t43.cf := ⟨_, rfl⟩
  obtain ⟨m48l, hm48l⟩ : ∃ x, x = mulLo a1 b1 := ⟨_, rfl⟩
  obtain ⟨m48h, hm48h⟩ : ∃ x, x = mulHi a1 b1 := ⟨_, rfl⟩
  obtain ⟨t49, ht49⟩ : ∃ x, x = addc .q m48l t44.val false := ⟨_, rfl⟩
  obtain ⟨t50, ht50⟩ : ∃ x, x = addc .q m48h (0#64) t49.cf := ⟨_, rfl⟩
  obtain ⟨t51, ht51⟩ : ∃ x, x = addc .q t18.val t49.val false := ⟨_, rfl⟩
  obtain ⟨t52, ht52⟩ : ∃ x, x = addc .q t50.val (0#64) t51.cf := ⟨_, rfl⟩
  obtain ⟨m55l, hm55l⟩ : ∃ x, x = mulLo a1 b2 := ⟨_, rfl⟩
  obtain ⟨m55h, hm55h⟩ : ∃ x, x = mulHi a1 b2 := ⟨_, rfl⟩
  obtain ⟨t56, ht56⟩ : ∃ x, x = addc .q m55l t52.val false := ⟨_, rfl⟩
  obtain ⟨t57, ht57⟩ : ∃ x, x = addc .q m55h (0#64) t56.cf := ⟨_, rfl⟩
  obtain ⟨t58, ht58⟩ : ∃ x, x = addc .q t24.val t56.val false := ⟨_, rfl⟩
  obtain ⟨t59, ht59⟩ : ∃ x, x = addc .q t57.val (0#64) t58.cf := ⟨_, rfl⟩
  obtain ⟨m62l, hm62l⟩ : ∃ x, x = mulLo a1 b3 := ⟨_, rfl⟩
  obtain ⟨m62h, hm62h⟩ : ∃ x, x = mulHi a1 b3 := ⟨_, rfl⟩
  obtain ⟨t63, ht63⟩ : ∃ x, x = addc .q m62l t59.val false := ⟨_, rfl⟩
  obtain ⟨t64, ht64⟩ : ∃ x, x = addc .q m62h (0#64) t63.cf := ⟨_, rfl⟩
  obtain ⟨t65, ht65⟩ : ∃ x, x = addc .q t30.val t63.val false := ⟨_, rfl⟩
  obtain ⟨t66, ht66⟩ : ∃ x, x = addc .q t64.val (0#64) t65.cf := ⟨_, rfl⟩
  obtain ⟨m69l, hm69l⟩ : ∃ x, x = mulLo a1 b4 := ⟨_, rfl⟩
  obtain ⟨m69h, hm69h⟩ : ∃ x, x = mulHi a1 b4 := ⟨_, rfl⟩
  obtain ⟨t70, ht70⟩ : ∃ x, x = addc .q m69l t66.val false := ⟨_, rfl⟩
  obtain ⟨t71, ht71⟩ : ∃ x, x = addc .q m69h (0#64) t70.cf := ⟨_, rfl⟩
  obtain ⟨t72, ht72⟩ : ∃ x, x = addc .q t36.val t70.val false := ⟨_, rfl⟩
  obtain ⟨t73, ht73⟩ : ∃ x, x = addc .q t71.val (0#64) t72.cf := ⟨_, rfl⟩
  obtain ⟨m76l, hm76l⟩ : ∃ x, x = mulLo a1 b5 := ⟨_, rfl⟩
  obtain ⟨m76h, hm76h⟩ : ∃ x, x = mulHi a1 b5 := ⟨_, rfl⟩
  obtain ⟨t77, ht77⟩ : ∃ x, x = addc .q m76l t73.val false := ⟨_, rfl⟩
  obtain ⟨t78, ht78⟩ : ∃ x, x = addc .q m76h (0#64) t77.cf := ⟨_, rfl⟩
  obtain ⟨t79, ht79⟩ : ∃ x, x = addc .q t37.val t77.val false := ⟨_, rfl⟩
  obtain ⟨t80, ht80⟩ : ∃ x, x = addc .q t78.val (0#64) t79.cf := ⟨_, rfl⟩
  obtain ⟨m84l, hm84l⟩ : ∃ x, x = mulLo a2 b0 := ⟨_, rfl⟩
  obtain ⟨m84h, hm84h⟩ : ∃ x, x = mulHi a2 b0 := ⟨_, rfl⟩
  obtain ⟨t85, ht85⟩ : ∃ x, x = addc .q t51.val m84l false := ⟨_, rfl⟩
  obtain ⟨t86, ht86⟩ : ∃ x, x = addc .q m84h (0#64) t85.cf := ⟨_, rfl⟩
  obtain ⟨m90l, hm90l⟩ : ∃ x, x = mulLo a2 b1 := ⟨_, rfl⟩
  obtain ⟨m90h, hm90h⟩ : ∃ x, x = mulHi a2 b1 := ⟨_, rfl⟩
  obtain ⟨t91, ht91⟩ : ∃ x, x = addc .q m90l t86.val false := ⟨_, rfl⟩
  obtain ⟨t92, ht92⟩ : ∃ x, x = addc .q m90h (0#64) t91.cf := ⟨_, rfl⟩
  obtain ⟨t93, ht93⟩ : ∃ x, x = addc .q t58.val t91.val false := ⟨_, rfl⟩
  obtain ⟨t94, ht94⟩ : ∃ x, x = addc .q t92.val (0#64) t93.cf := ⟨_, rfl⟩
  obtain ⟨m97l, hm97l⟩ : ∃ x, x = mulLo a2 b2 := ⟨_, rfl⟩
  obtain ⟨m97h, hm97h⟩ : ∃ x, x = mulHi a2 b2 := ⟨_, rfl⟩
  obtain ⟨t98, ht98⟩ : ∃ x, x = addc .q m97l t94.val false := ⟨_, rfl⟩
  obtain ⟨t99, ht99⟩ : ∃ x, x = addc .q m97h (0#64) t98.cf := ⟨_, rfl⟩
  obtain ⟨t100, ht100⟩ : ∃ x, x = addc .q t65.val t98.val false := ⟨_, rfl⟩
  obtain ⟨t101, ht101⟩ : ∃ x, x = addc .q t99.val (0#64) t100.cf := ⟨_, rfl⟩
  obtain ⟨m104l, hm104l⟩ : ∃ x, x = mulLo a2 b3 := ⟨_, rfl⟩
  obtain ⟨m104h, hm104h⟩ : ∃ x, x = mulHi a2 b3 := ⟨_, rfl⟩
  obtain ⟨t105, ht105⟩ : ∃ x, x = addc .q m104l t101.val false := ⟨_, rfl⟩
  obtain ⟨t106, ht106⟩ : ∃ x, x = addc .q m104h (0#64) t105.cf := ⟨_, rfl⟩
  obtain ⟨t107, ht107⟩ : ∃ x, x = addc .q t72.val t105.val false := ⟨_, rfl⟩
  obtain ⟨t108, ht108⟩ : ∃ x, x = addc .q t106.val (0#64) t107.cf := ⟨_, rfl⟩
  obtain ⟨m111l, hm111l⟩ : ∃ x, x = mulLo a2 b4 := ⟨_, rfl⟩
  obtain ⟨m111h, hm111h⟩ : ∃ x, x = mulHi a2 b4 := ⟨_, rfl⟩
  obtain ⟨t112, ht112⟩ : ∃ x, x = addc .q m111l t108.val false := ⟨_, rfl⟩
  obtain ⟨t113, ht113⟩ : ∃ x, x = addc .q m111h (0#64) t112.cf := ⟨_, rfl⟩
  obtain ⟨t114, ht114⟩ : ∃ x, x = addc .q t79.val t112.val false := ⟨_, rfl⟩
  obtain ⟨t115, ht115⟩ : ∃ x, x = addc .q t113.val (0#64) t114.cf := ⟨_, rfl⟩
  obtain ⟨m118l, hm118l⟩ : ∃ x, x = mulLo a2 b5 := ⟨_, rfl⟩
  obtain ⟨m118h, hm118h⟩ : ∃ x, x = mulHi a2 b5 := ⟨_, rfl⟩
  obtain ⟨t119, ht119⟩ : ∃ x, x = addc .q m118l t115.val false := ⟨_, rfl⟩
  obtain ⟨t120, ht120⟩ : ∃ x, x = addc .q m118h (0#64) t119.cf := ⟨_, rfl⟩
  obtain ⟨t121, ht121⟩ : ∃ x, x = addc .q t80.val t119.val false := ⟨_, rfl⟩
  obtain ⟨t122, ht122⟩ : ∃ x, x = addc .q t120.val (0#64) t121.cf := ⟨_, rfl⟩
  obtain ⟨m126l, hm126l⟩ : ∃ x, x = mulLo a3 b0 := ⟨_, rfl⟩
  obtain ⟨m126h, hm126h⟩ : ∃ x, x = mulHi a3 b0 := ⟨_, rfl⟩
  obtain ⟨t127, ht127⟩ : ∃ x, x = addc .q t93.val m126l false := ⟨_, rfl⟩
  obtain ⟨t128, ht128⟩ : ∃ x, x = addc .q m126h (0#64) t127.cf := ⟨_, rfl⟩
  obtain ⟨m132l, hm132l⟩ : ∃ x, x = mulLo a3 b1 := ⟨_, rfl⟩
  obtain ⟨m132h, hm132h⟩ : ∃ x, x = mulHi a3 b1 := ⟨_, rfl⟩
  obtain ⟨t133, ht133⟩ : ∃ x, x = addc .q m132l t128.val false := ⟨_, rfl⟩
  obtain ⟨t134, ht134⟩ : ∃ x, x = addc .q m132h (0#64) t133.cf := ⟨_, rfl⟩
  obtain ⟨t135, ht135⟩ : ∃ x, x = addc .q t100.val t133.val false := ⟨_, rfl⟩
  obtain ⟨t136, ht136⟩ : ∃ x, x = addc .q t134.val (0#64) t135.cf := ⟨_, rfl⟩
  obtain ⟨m139l, hm139l⟩ : ∃ x, x = mulLo a3 b2 := ⟨_, rfl⟩
  obtain ⟨m139h, hm139h⟩ : ∃ x, x = mulHi a3 b2 := ⟨_, rfl⟩
  obtain ⟨t140, ht140⟩ : ∃ x, x = addc .q m139l t136.val false := ⟨_, rfl⟩
  obtain ⟨t141, ht141⟩ : ∃ x, x = addc .q m139h (0#64) t140.cf := ⟨_, rfl⟩
  obtain ⟨t142, ht142⟩ : ∃ x, x = addc .q t107.val t140.val false := ⟨_, rfl⟩
  obtain ⟨t143, ht143⟩ : ∃ x, x = addc .q t141.val (0#64) t142.cf := ⟨_, rfl⟩
  obtain ⟨m146l, hm146l⟩ : ∃ x, x = mulLo a3 b3 := ⟨_, rfl⟩
  obtain ⟨m146h, hm146h⟩ : ∃ x, x = mulHi a3 b3 := ⟨_, rfl⟩
  obtain ⟨t147, ht147⟩ : ∃ x, x = addc .q m146l t143.val false := ⟨_, rfl⟩
  obtain ⟨t148, ht148⟩ : ∃ x, x = addc .q m146h (0#64) t147.cf := ⟨_, rfl⟩
  obtain ⟨t149, ht149⟩ : ∃ x, x = addc .q t114.val t147.val false := ⟨_, rfl⟩
  obtain ⟨t150, ht150⟩ : ∃ x, x = addc .q t148.val (0#64) t149.cf := ⟨_, rfl⟩
  obtain ⟨m153l, hm153l⟩ : ∃ x, x = mulLo a3 b4 := ⟨_, rfl⟩
  obtain ⟨m153h, hm153h⟩ : ∃ x, x = mulHi a3 b4 := ⟨_, rfl⟩
  obtain ⟨t154, ht154⟩ : ∃ x, x = addc .q m153l t150.val false := ⟨_, rfl⟩
  obtain ⟨t155, ht155⟩ : ∃ x, x = addc .q m153h (0#64) t154.cf := ⟨_, rfl⟩
  obtain ⟨t156, ht156⟩ : ∃ x, x = addc .q t121.val t154.val false := ⟨_, rfl⟩
  obtain ⟨t157, ht157⟩ : ∃ x, x = addc .q t155.val (0#64) t156.cf := ⟨_, rfl⟩
  obtain ⟨m160l, hm160l⟩ : ∃ x, x = mulLo a3 b5 := ⟨_, rfl⟩
  obtain ⟨m160h, hm160h⟩ : ∃ x, x = mulHi a3 b5 := ⟨_, rfl⟩
  obtain ⟨t161, ht161⟩ : ∃ x, x = addc .q m160l t157.val false := ⟨_, rfl⟩
  obtain ⟨t162, ht162⟩ : ∃ x, x = addc .q m160h (0#64) t161.cf := ⟨_, rfl⟩
  obtain ⟨t163, ht163⟩ : ∃ x, x = addc .q t122.val t161.val false := ⟨_, rfl⟩
  obtain ⟨t164, ht164⟩ : ∃ x, x = addc .q t162.val (0#64) t163.cf := ⟨_, rfl⟩
  obtain ⟨m168l, hm168l⟩ : ∃ x, x = mulLo a4 b0 := ⟨_, rfl⟩
  obtain ⟨m168h, hm168h⟩ : ∃ x, x = mulHi a4 b0 := ⟨_, rfl⟩
  obtain ⟨t169, ht169⟩ : ∃ x, x = addc .q t135.val m168l false := ⟨_, rfl⟩
  obtain ⟨t170, ht170⟩ : ∃ x, x = addc .q m168h (0#64) t169.cf := ⟨_, rfl⟩
  obtain ⟨m174l, hm174l⟩ : ∃ x, x = mulLo a4 b1 := ⟨_, rfl⟩
  obtain ⟨m174h, hm174h⟩ : ∃ x, x = mulHi a4 b1 := ⟨_, rfl⟩
  obtain ⟨t175, ht175⟩ : ∃ x, x = addc .q m174l t170.val false := ⟨_, rfl⟩
  obtain ⟨t176, ht176⟩ : ∃ x, x = addc .q m174h (0#64) t175.cf := ⟨_, rfl⟩
  obtain ⟨t177, ht177⟩ : ∃ x, x = addc .q t142.val t175.val false := ⟨_, rfl⟩
  obtain ⟨t178, ht178⟩ : ∃ x, x = addc .q t176.val (0#64) t177.cf := ⟨_, rfl⟩
  obtain ⟨m181l, hm181l⟩ : ∃ x, x = mulLo a4 b2 := ⟨_, rfl⟩
  obtain ⟨m181h, hm181h⟩ : ∃ x, x = mulHi a4 b2 := ⟨_, rfl⟩
  obtain ⟨t182, ht182⟩ : ∃ x, x = addc .q m181l t178.val false := ⟨_, rfl⟩
  obtain ⟨t183, ht183⟩ : ∃ x, x = addc .q m181h (0#64) t182.cf := ⟨_, rfl⟩
  obtain ⟨t184, ht184⟩ : ∃ x, x = addc .q t149.val t182.val false := ⟨_, rfl⟩
  obtain ⟨t185, ht185⟩ : ∃ x, x = addc .q t183.val (0#64) t184.cf := ⟨_, rfl⟩
  obtain ⟨m188l, hm188l⟩ : ∃ x, x = mulLo a4 b3 := ⟨_, rfl⟩
  obtain ⟨m188h, hm188h⟩ : ∃ x, x = mulHi a4 b3 := ⟨_, rfl⟩
  obtain ⟨t189, ht189⟩ : ∃ x, x = addc .q m188l t185.val false := ⟨_, rfl⟩
  obtain ⟨t190, ht190⟩ : ∃ x, x = addc .q m188h (0#64) t189.cf := ⟨_, rfl⟩
  obtain ⟨t191, ht191⟩ : ∃ x, x = addc .q t156.val t189.val false := ⟨_, rfl⟩
  obtain ⟨t192, ht192⟩ : ∃ x, x = addc .q t190.val (0#64) t191.cf := ⟨_, rfl⟩
  obtain ⟨m195l, hm195l⟩ : ∃ x, x = mulLo a4 b4 := ⟨_, rfl⟩
  obtain ⟨m195h, hm195h⟩ : ∃ x, x = mulHi a4 b4 := ⟨_, rfl⟩
  obtain ⟨t196, ht196⟩ : ∃ x, x = addc .q m195l t192.val false := ⟨_, rfl⟩
  obtain ⟨t197, ht197⟩ : ∃ x, x = addc .q m195h (0#64) t196.cf := ⟨_, rfl⟩
  obtain ⟨t198, ht198⟩ : ∃ x, x = addc .q t163.val t196.val false := ⟨_, rfl⟩
  obtain ⟨t199, ht199⟩ : ∃ x, x = addc .q t197.val (0#64) t198.cf := ⟨_, rfl⟩
  obtain ⟨m202l, hm202l⟩ : ∃ x, x = mulLo a4 b5 := ⟨_, rfl⟩
  obtain ⟨m202h, hm202h⟩ : ∃ x, x = mulHi a4 b5 := ⟨_, rfl⟩
  obtain ⟨t203, ht203⟩ : ∃ x, x = addc .q m202l t199.val false := ⟨_, rfl⟩
  obtain ⟨t204, ht204⟩ : ∃ x, x = addc .q m202h (0#64) t203.cf := ⟨_, rfl⟩
  obtain ⟨t205, ht205⟩ : ∃ x, x = addc .q t164.val t203.val false := ⟨_, rfl⟩
  obtain ⟨t206, ht206⟩ : ∃ x, x = addc .q t204.val (0#64) t205.cf := ⟨_, rfl⟩
  obtain ⟨m210l, hm210l⟩ : ∃ x, x = mulLo a5 b0 := ⟨_, rfl⟩
  obtain ⟨m210h, hm210h⟩ : ∃ x, x = mulHi a5 b0 := ⟨_, rfl⟩
  obtain ⟨t211, ht211⟩ : ∃ x, x = addc .q t177.val m210l false := ⟨_, rfl⟩
  obtain ⟨t212, ht212⟩ : ∃ x, x = addc .q m210h (0#64) t211.cf := ⟨_, rfl⟩
  obtain ⟨m216l, hm216l⟩ : ∃ x, x = mulLo a5 b1 := ⟨_, rfl⟩
  obtain ⟨m216h, hm216h⟩ : ∃ x, x = mulHi a5 b1 := ⟨_, rfl⟩
  obtain ⟨t217, ht217⟩ : ∃ x, x = addc .q m216l t212.val false := ⟨_, rfl⟩
  obtain ⟨t218, ht218⟩ : ∃ x, x = addc .q m216h (0#64) t217.cf := ⟨_, rfl⟩
  obtain ⟨t219, ht219⟩ : ∃ x, x = addc .q t184.val t217.val false := ⟨_, rfl⟩
  obtain ⟨t220, ht220⟩ : ∃ x, x = addc .q t218.val (0#64) t219.cf := ⟨_, rfl⟩
  obtain ⟨m223l, hm223l⟩ : ∃ x, x = mulLo a5 b2 := ⟨_, rfl⟩
  obtain ⟨m223h, hm223h⟩ : ∃ x, x = mulHi a5 b2 := ⟨_, rfl⟩
  obtain ⟨t224, ht224⟩ : ∃ x, x = addc .q m223l t220.val false := ⟨_, rfl⟩
  obtain ⟨t225, ht225⟩ : ∃ x, x = addc .q m223h (0#64) t224.cf := ⟨_, rfl⟩
  obtain ⟨t226, ht226⟩ : ∃ x, x = addc .q t191.val t224.val false := ⟨_, rfl⟩
  obtain ⟨t227, ht227⟩ : ∃ x, x = addc .q t225.val (0#64) t226.cf := ⟨_, rfl⟩
  obtain ⟨m230l, hm230l⟩ : ∃ x, x = mulLo a5 b3 := ⟨_, rfl⟩
  obtain ⟨m230h, hm230h⟩ : ∃ x, x = mulHi a5 b3 := ⟨_, rfl⟩
  obtain ⟨t231, ht231⟩ : ∃ x, x = addc .q m230l t227.val false := ⟨_, rfl⟩
  obtain ⟨t232, ht232⟩ : ∃ x, x = addc .q m230h (0#64) t231.cf := ⟨_, rfl⟩
  obtain ⟨t233, ht233⟩ : ∃ x, x = addc .q t198.val t231.val false := ⟨_, rfl⟩
  obtain ⟨t234, ht234⟩ : ∃ x, x = addc .q t232.val (0#64) t233.cf := ⟨_, rfl⟩
  obtain ⟨m237l, hm237l⟩ : ∃ x, x = mulLo a5 b4 := ⟨_, rfl⟩
  obtain ⟨m237h, hm237h⟩ : ∃ x, x = mulHi a5 b4 := ⟨_, rfl⟩
  obtain ⟨t238, ht238⟩ : ∃ x, x = addc .q m237l t234.val false := ⟨_, rfl⟩
  obtain ⟨t239, ht239⟩ : ∃ x, x = addc .q m237h (0#64) t238.cf := ⟨_, rfl⟩
  obtain ⟨t240, ht240⟩ : ∃ x, x = addc .q t205.val t238.val false := ⟨_, rfl⟩
  obtain ⟨t241, ht241⟩ : ∃ x, x = addc .q t239.val (0#64) t240.cf := ⟨_, rfl⟩
  obtain ⟨m244l, hm244l⟩ : ∃ x, x = mulLo a5 b5 := ⟨_, rfl⟩
  obtain ⟨m244h, hm244h⟩ : ∃ x, x = mulHi a5 b5 := ⟨_, rfl⟩
  obtain ⟨t245, ht245⟩ : ∃ x, x = addc .q m244l t241.val false := ⟨_, rfl⟩
  obtain ⟨t246, ht246⟩ : ∃ x, x = addc .q m244h (0#64) t245.cf := ⟨_, rfl⟩
  obtain ⟨t247, ht247⟩ : ∃ x, x = addc .q t206.val t245.val false := ⟨_, rfl⟩
  obtain ⟨t248, ht248⟩ : ∃ x, x = addc .q t246.val (0#64) t247.cf := ⟨_, rfl⟩
  have hq0 := mul768_part0 s pr pa pb hr ha hb hra hrb hstk hrs has hbs hst hpc hdi hsi hdx (t12 := t12) (t13 := t13) (t18 := t18) (t19 := t19) (t24 := t24) (t25 := t25) (t30 := t30) (t31 := t31) (t36 := t36) (t37 := t37) (a0 := a0) (b0 := b0) (b1 := b1) (b2 := b2) (b3 := b3) (b4 := b4) (b5 := b5) (m7h := m7h) (m7l := m7l) (m11h := m11h) (m11l := m11l) (m17h := m17h) (m17l := m17l) (m23h := m23h) (m23l := m23l) (m29h := m29h) (m29l := m29l) (m35h := m35h) (m35l := m35l) ha0 hb0 hb1 hb2 hb3 hb4 hb5 hm7l hm7h hm11l hm11h ht12 ht13 hm17l hm17h ht18 ht19 hm23l hm23h ht24 ht25 hm29l hm29h ht30 ht31 hm35l hm35h ht36 ht37
  have hq1 := mul768_part1 s pr pa pb hr ha hb hra hrb hstk hrs has hbs (t12 := t12) (t18 := t18) (t24 := t24) (t30 := t30) (t31 := t31) (t36 := t36) (t37 := t37) (t43 := t43) (t44 := t44) (t49 := t49) (t50 := t50) (t51 := t51) (t52 := t52) (t56 := t56) (t57 := t57) (t58 := t58) (t59 := t59) (t63 := t63) (t64 := t64) (t65 := t65) (t66 := t66) (t70 := t70) (t71 := t71) (t72 := t72) (t73 := t73) (t77 := t77) (t78 := t78) (t79 := t79) (t80 := t80) (a0 := a0) (a1 := a1) (b0 := b0) (b1 := b1) (b2 := b2) (b3 := b3) (b4 := b4) (b5 := b5) (m7l := m7l) (m42h := m42h) (m42l := m42l) (m48h := m48h) (m48l := m48l) (m55h := m55h) (m55l := m55l) (m62h := m62h) (m62l := m62l) (m69h := m69h) (m69l := m69l) (m76h := m76h) (m76l := m76l) ha1 hb0 hb1 hb2 hb3 hb4 hb5 hm42l hm42h ht43 ht44 hm48l hm48h ht49 ht50 ht51 ht52 hm55l hm55h ht56 ht57 ht58 ht59 hm62l hm62h ht63 ht64 ht65 ht66 hm69l hm69h ht70 ht71 ht72 ht73 hm76l hm76h ht77 ht78 ht79 ht80
  have hq2 := mul768_part2 s pr pa pb hr ha hb hra hrb hstk hrs has hbs (t31 := t31) (t43 := t43) (t51 := t51) (t58 := t58) (t65 := t65) (t72 := t72) (t77 := t77) (t79 := t79) (t80 := t80) (t85 := t85) (t86 := t86) (t91 := t91) (t92 := t92) (t93 := t93) (t94 := t94) (t98 := t98) (t99 := t99) (t100 := t100) (t101 := t101) (t105 := t105) (t106 := t106) (t107 := t107) (t108 := t108) (t112 := t112) (t113 := t113) (t114 := t114) (t115 := t115) (t119 := t119) (t120 := t120) (t121 := t121) (t122 := t122) (a1 := a1) (a2 := a2) (b0 := b0) (b1 := b1) (b2 := b2) (b3 := b3) (b4 := b4) (b5 := b5) (m7l := m7l) (m84h := m84h) (m84l := m84l) (m90h := m90h) (m90l := m90l) (m97h := m97h) (m97l := m97l) (m104h := m104h) (m104l := m104l) (m111h := m111h) (m111l := m111l) (m118h := m118h) (m118l := m118l) ha2 hb0 hb1 hb2 hb3 hb4 hb5 hm84l hm84h ht85 ht86 hm90l hm90h ht91 ht92 ht93 ht94 hm97l hm97h ht98 ht99 ht100 ht101 hm104l hm104h ht105 ht106 ht107 ht108 hm111l hm111h ht112 ht113 ht114 ht115 hm118l hm118h ht119 ht120 ht121 ht122
  have hq3 := mul768_part3 s pr pa pb hr ha hb hra hrb hstk hrs has hbs (t31 := t31) (t43 := t43) (t85 := t85) (t93 := t93) (t100 := t100) (t107 := t107) (t114 := t114) (t119 := t119) (t121 := t121) (t122 := t122) (t127 := t127) (t128 := t128) (t133 := t133) (t134 := t134) (t135 := t135) (t136 := t136) (t140 := t140) (t141 := t141) (t142 := t142) (t143 := t143) (t147 := t147) (t148 := t148) (t149 := t149) (t150 := t150) (t154 := t154) (t155 := t155) (t156 := t156) (t157 := t157) (t161 := t161) (t162 := t162) (t163 := t163) (t164 := t164) (a2 := a2) (a3 := a3) (b0 := b0) (b1 := b1) (b2 := b2) (b3 := b3) (b4 := b4) (b5 := b5) (m7l := m7l) (m126h := m126h) (m126l := m126l) (m132h := m132h) (m132l := m132l) (m139h := m139h) (m139l := m139l) (m146h := m146h) (m146l := m146l) (m153h := m153h) (m153l := m153l) (m160h := m160h) (m160l := m160l) ha3 hb0 hb1 hb2 hb3 hb4 hb5 hm126l hm126h ht127 ht128 hm132l hm132h ht133 ht134 ht135 ht136 hm139l hm139h ht140 ht141 ht142 ht143 hm146l hm146h ht147 ht148 ht149 ht150 hm153l hm153h ht154 ht155 ht156 ht157 hm160l hm160h ht161 ht162 ht163 ht164
  have hq4 := mul768_part4 s pr pa pb hr ha hb hra hrb hstk hrs has hbs (t31 := t31) (t43 := t43) (t85 := t85) (t127 := t127) (t135 := t135) (t142 := t142) (t149 := t149) (t156 := t156) (t161 := t161) (t163 := t163) (t164 := t164) (t169 := t169) (t170 := t170) (t175 := t175) (t176 := t176) (t177 := t177) (t178 := t178) (t182 := t182) (t183 := t183) (t184 := t184) (t185 := t185) (t189 := t189) (t190 := t190) (t191 := t191) (t192 := t192) (t196 := t196) (t197 := t197) (t198 := t198) (t199 := t199) (t203 := t203) (t204 := t204) (t205 := t205) (t206 := t206) (a3 := a3) (a4 := a4) (b0 := b0) (b1 := b1) (b2 := b2) (b3 := b3) (b4 := b4) (b5 := b5) (m7l := m7l) (m168h := m168h) (m168l := m168l) (m174h := m174h) (m174l := m174l) (m181h := m181h) (m181l := m181l) (m188h := m188h) (m188l := m188l) (m195h := m195h) (m195l := m195l) (m202h := m202h) (m202l := m202l) ha4 hb0 hb1 hb2 hb3 hb4 hb5 hm168l hm168h ht169 ht170 hm174l hm174h ht175 ht176 ht177 ht178 hm181l hm181h ht182 ht183 ht184 ht185 hm188l hm188h ht189 ht190 ht191 ht192 hm195l hm195h ht196 ht197 ht198 ht199 hm202l hm202h ht203 ht204 ht205 ht206
  have hq5 := mul768_part5 s pr pa pb hr ha hb hra hrb hstk hrs has hbs (t31 := t31) (t43 := t43) (t85 := t85) (t127 := t127) (t169 := t169) (t177 := t177) (t184 := t184) (t191 := t191) (t198 := t198) (t203 := t203) (t205 := t205) (t206 := t206) (t211 := t211) (t212 := t212) (t217 := t217) (t218 := t218) (t219 := t219) (t220 := t220) (t224 := t224) (t225 := t225) (t226 := t226) (t227 := t227) (t231 := t231) (t232 := t232) (t233 := t233) (t234 := t234) (t238 := t238) (t239 := t239) (t240 := t240) (t241 := t241) (t245 := t245) (t246 := t246) (t247 := t247) (t248 := t248) (a4 := a4) (a5 := a5) (b0 := b0) (b1 := b1) (b2 := b2) (b3 := b3) (b4 := b4) (b5 := b5) (m7l := m7l) (m210h := m210h) (m210l := m210l) (m216h := m216h) (m216l := m216l) (m223h := m223h) (m223l := m223l) (m230h := m230h) (m230l := m230l) (m237h := m237h) (m237l := m237l) (m244h := m244h) (m244l := m244l) ha5 hb0 hb1 hb2 hb3 hb4 hb5 hm210l hm210h ht211 ht212 hm216l hm216h ht217 ht218 ht219 ht220 hm223l hm223h ht224 ht225 ht226 ht227 hm230l hm230h ht231 ht232 ht233 ht234 hm237l hm237h ht238 ht239 ht240 ht241 hm244l hm244h ht245 ht246 ht247 ht248
  have hq6 := mul768_part6 s pr pa pb hr ha hb hra hrb hstk hrs has hbs (t31 := t31) (t43 := t43) (t85 := t85) (t127 := t127) (t169 := t169) (t211 := t211) (t219 := t219) (t226 := t226) (t233 := t233) (t240 := t240) (t241 := t241) (t245 := t245) (t247 := t247) (t248 := t248) (a5 := a5) (m7l := m7l) 
  have hall : run embedded_pairing_core_arch_x86_64_bigint_768_multiply s 260 = _ := show run embedded_pairing_core_arch_x86_64_bigint_768_multiply s (40 + (42 + (42 + (42 + (42 + (41 + (11))))))) = _ from run_chain hq0 (run_chain hq1 (run_chain hq2 (run_chain hq3 (run_chain hq4 (run_chain hq5 (hq6))))))
  rw [hall]
  obtain ⟨room1, -⟩ := hstk.f1 (by omega)
  obtain ⟨room4, -⟩ := hstk.f4 (by omega)
  replace hrs := Hide.mk hrs
  simp only [OffStack] at hrs
  clear hq0 hq1 hq2 hq3 hq4 hq5 hq6 hall
  refine ⟨⟨rfl, ?_, ?_, rfl, rfl, ?_, ?_, ?_, ?_⟩, ?_, ?_⟩
  · simp only
  · simp only
  · simp only
  · simp only
  · simp only
  · simp only
  · x86_mem
    have e7 := mul_spec a0 b0; rw [← hm7l, ← hm7h] at e7
    have e11 := mulcarry64_spec hm11l hm11h ht12 ht13
    have e17 := mulcarry64_spec hm17l hm17h ht18 ht19
    have e23 := mulcarry64_spec hm23l hm23h ht24 ht25
    have e29 := mulcarry64_spec hm29l hm29h ht30 ht31
    have e35 := mulcarry64_spec hm35l hm35h ht36 ht37
    have e42 := muladd64_spec hm42l hm42h ht43 ht44
    have e48 := muladdcarry64_spec hm48l hm48h ht49 ht50 ht51 ht52
    have e55 := muladdcarry64_spec hm55l hm55h ht56 ht57 ht58 ht59
    have e62 := muladdcarry64_spec hm62l hm62h ht63 ht64 ht65 ht66
    have e69 := muladdcarry64_spec hm69l hm69h ht70 ht71 ht72 ht73
    have e76 := muladdcarry64_spec hm76l hm76h ht77 ht78 ht79 ht80
    have e84 := muladd64_spec hm84l hm84h ht85 ht86
    have e90 := muladdcarry64_spec hm90l hm90h ht91 ht92 ht93 ht94
    have e97 := muladdcarry64_spec hm97l hm97h ht98 ht99 ht100 ht101
    have e104 := muladdcarry64_spec hm104l hm104h ht105 ht106 ht107 ht108
    have e111 := muladdcarry64_spec hm111l hm111h ht112 ht113 ht114 ht115
    have e118 := muladdcarry64_spec hm118l hm118h ht119 ht120 ht121 ht122
    have e126 := muladd64_spec hm126l hm126h ht127 ht128
    have e132 := muladdcarry64_spec hm132l hm132h ht133 ht134 ht135 ht136
    have e139 := muladdcarry64_spec hm139l hm139h ht140 ht141 ht142 ht143
    have e146 := muladdcarry64_spec hm146l hm146h ht147 ht148 ht149 ht150
    have e153 := muladdcarry64_spec hm153l hm153h ht154 ht155 ht156 ht157
    have e160 := muladdcarry64_spec hm160l hm160h ht161 ht162 ht163 ht164
    have e168 := muladd64_spec hm168l hm168h ht169 ht170
    have e174 := muladdcarry64_spec hm174l hm174h ht175 ht176 ht177 ht178
    have e181 := muladdcarry64_spec hm181l hm181h ht182 ht183 ht184 ht185
    have e188 := muladdcarry64_spec hm188l hm188h ht189 ht190 ht191 ht192
    have e195 := muladdcarry64_spec hm195l hm195h ht196 ht197 ht198 ht199
    have e202 := muladdcarry64_spec hm202l hm202h ht203 ht204 ht205 ht206
    have e210 := muladd64_spec hm210l hm210h ht211 ht212
    have e216 := muladdcarry64_spec hm216l hm216h ht217 ht218 ht219 ht220
    have e223 := muladdcarry64_spec hm223l hm223h ht224 ht225 ht226 ht227
    have e230 := muladdcarry64_spec hm230l hm230h ht231 ht232 ht233 ht234
    have e237 := muladdcarry64_spec hm237l hm237h ht238 ht239 ht240 ht241
    have e244 := muladdcarry64_spec hm244l hm244h ht245 ht246 ht247 ht248
    simp only [val_cons, val_nil]
    linear_combination e7 + 2 ^ 64 * e11 + 2 ^ 128 * e17 + 2 ^ 192 * e23 + 2 ^ 256 * e29 + 2 ^ 320 * e35 + 2 ^ 64 * e42 + 2 ^ 128 * e48 + 2 ^ 192 * e55 + 2 ^ 256 * e62 + 2 ^ 320 * e69 + 2 ^ 384 * e76 + 2 ^ 128 * e84 + 2 ^ 192 * e90 + 2 ^ 256 * e97 + 2 ^ 320 * e104 + 2 ^ 384 * e111 + 2 ^ 448 * e118 + 2 ^ 192 * e126 + 2 ^ 256 * e132 + 2 ^ 320 * e139 + 2 ^ 384 * e146 + 2 ^ 448 * e153 + 2 ^ 512 * e160 + 2 ^ 256 * e168 + 2 ^ 320 * e174 + 2 ^ 384 * e181 + 2 ^ 448 * e188 + 2 ^ 512 * e195 + 2 ^ 576 * e202 + 2 ^ 320 * e210 + 2 ^ 384 * e216 + 2 ^ 448 * e223 + 2 ^ 512 * e230 + 2 ^ 576 * e237 + 2 ^ 640 * e244
  · intro k hk1 hk2
    simp (disch := (clear * - hk1 hk2 room1 room4; omega)) only [setMem_ne]

end Jedi.X86
