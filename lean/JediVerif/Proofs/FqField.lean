/-
The concrete prime fields `Fq = Fin q` and `Fr = Fin r` as Mathlib `Field`s.

The ring structure is *definitionally* Mathlib's `Fin.instCommRing` (i.e. core Lean's modular `Fin.add`, `Fin.mul`, …,
exactly what the Spec and the judge execute) and the inverse is *definitionally* the Spec's Fermat inverse
`finInv x = npow x (n - 2)` (`Spec/Basic.lean`).  The only inputs are the primality certificates of
`Proofs/Primes.lean`.
-/
import JediVerif.Proofs.Primes
import JediVerif.Proofs.Pow
import Mathlib.FieldTheory.Finite.Basic

namespace Jedi

section Generic
variable {n : Nat} [NeZero n]

attribute [local instance] Fin.instCommRing

/-- Fermat's little theorem in `Fin n` (ring structure `Fin.instCommRing`), `n` prime. -/
theorem fin_pow_pred_eq_one (hp : n.Prime) (x : Fin n) (hx : x ≠ 0) : x ^ (n - 1) = 1 := by
  cases n with
  | zero => exact absurd hp (by decide)
  | succ m =>
    have : Fact (m + 1).Prime := ⟨hp⟩
    exact ZMod.pow_card_sub_one_eq_one (p := m + 1) (a := x) hx

/-- The Spec inverse `finInv` is the Fermat power. -/
theorem finInv_eq_pow (x : Fin n) : finInv x = x ^ (n - 2) := npow_eq_pow x (n - 2)

theorem fin_mul_finInv (hp : n.Prime) (x : Fin n) (hx : x ≠ 0) : x * finInv x = 1 := by
  rw [finInv_eq_pow, ← pow_succ']
  have h2 := hp.two_le
  have : n - 2 + 1 = n - 1 := by omega
  rw [this]
  exact fin_pow_pred_eq_one hp x hx

theorem finInv_zero (h2 : 2 < n) : finInv (0 : Fin n) = 0 := by
  rw [finInv_eq_pow]
  exact zero_pow (M₀ := Fin n) (by omega)

/-- `Fin n` (n an odd prime) as a field: ring structure `Fin.instCommRing n`, inverse the Spec's `finInv`. -/
@[reducible] def finField (hp : n.Prime) (h2 : 2 < n) : Field (Fin n) :=
  { Fin.instCommRing n with
    inv := finInv
    div := fun a b => a * finInv b
    div_eq_mul_inv := fun _ _ => rfl
    exists_pair_ne := ⟨0, 1, fun h => by
      have := congrArg Fin.val h
      have h1 : ((1 : Fin n) : Nat) = 1 % n := Fin.val_one' n
      rw [Nat.mod_eq_of_lt (by omega)] at h1
      rw [h1] at this
      exact absurd this (by simp)⟩
    mul_inv_cancel := fun a ha => fin_mul_finInv hp a ha
    inv_zero := finInv_zero h2
    nnqsmul := _
    nnqsmul_def := fun _ _ => rfl
    qsmul := _
    qsmul_def := fun _ _ => rfl }

end Generic

theorem two_lt_q : 2 < q := by decide
theorem two_lt_r : 2 < r := by decide

/-- `Fq` is a field with Mathlib's `Fin` ring structure and the Spec's Fermat inverse. -/
instance instFieldFq : Field Fq := finField q_prime two_lt_q
/-- `Fr` is a field with Mathlib's `Fin` ring structure and the Spec's Fermat inverse. -/
instance instFieldFr : Field Fr := finField r_prime two_lt_r

/-- the ring structure of the field instance is definitionally `Fin.instCommRing q` -/
theorem instFieldFq_toCommRing : (instFieldFq.toCommRing : CommRing Fq) = Fin.instCommRing q := rfl
theorem instFieldFr_toCommRing : (instFieldFr.toCommRing : CommRing Fr) = Fin.instCommRing r := rfl
/-- the inverse of the field instance is definitionally the Spec's `finInv` (= `Inv Fq` of `Spec/Basic.lean`) -/
theorem Fq.inv_def (x : Fq) : x⁻¹ = finInv x := rfl
theorem Fr.inv_def (x : Fr) : x⁻¹ = finInv x := rfl
theorem instFieldFq_toInv : (instFieldFq.toInv : Inv Fq) = Jedi.instInvFq := rfl
theorem instFieldFr_toInv : (instFieldFr.toInv : Inv Fr) = Jedi.instInvFr := rfl

/-- the operations core Lean provides on `Fin q` (what the Spec and the judge use without Mathlib) are the field's -/
theorem Fq.zero_inst : (MulZeroClass.toZero : Zero Fq) = @Zero.ofOfNat0 Fq _ := rfl
theorem Fq.one_inst : (AddMonoidWithOne.toOne : One Fq) = @One.ofOfNat1 Fq _ := rfl
theorem Fq.add_inst : (Distrib.toAdd : Add Fq) = Fin.instAdd := rfl
theorem Fq.mul_inst : (Distrib.toMul : Mul Fq) = Fin.instMul := rfl
theorem Fq.sub_inst : (Ring.toSub : Sub Fq) = Fin.instSub := rfl
theorem Fq.neg_inst : (Ring.toNeg : Neg Fq) = Fin.neg q := rfl

theorem Fq.card : Fintype.card Fq = q := Fintype.card_fin q
theorem Fr.card : Fintype.card Fr = r := Fintype.card_fin r

instance instCharPFq : CharP Fq q := ZMod.charP q
instance instCharPFr : CharP Fr r := ZMod.charP r

/-- Frobenius is the identity on the prime field. -/
theorem Fq.pow_q (x : Fq) : x ^ q = x := by
  have := FiniteField.pow_card x
  rwa [Fq.card] at this
theorem Fr.pow_r (x : Fr) : x ^ r = x := by
  have := FiniteField.pow_card x
  rwa [Fr.card] at this

/-- Fermat: `x^(q-1) = 1` for `x ≠ 0`. -/
theorem Fq.pow_q_sub_one (x : Fq) (hx : x ≠ 0) : x ^ (q - 1) = 1 := fin_pow_pred_eq_one q_prime x hx
theorem Fr.pow_r_sub_one (x : Fr) (hx : x ≠ 0) : x ^ (r - 1) = 1 := fin_pow_pred_eq_one r_prime x hx

/-- the Spec inverse really inverts -/
theorem Fq.mul_finInv (x : Fq) (hx : x ≠ 0) : x * finInv x = 1 := fin_mul_finInv q_prime x hx
theorem Fr.mul_finInv (x : Fr) (hx : x ≠ 0) : x * finInv x = 1 := fin_mul_finInv r_prime x hx

/-- non-vacuity -/
example : (3 : Fq) * finInv 3 = 1 := Fq.mul_finInv 3 (by decide)

end Jedi
