/-
Helper lemmas for the byte-level models: `toBytesBE`/`ofBytesBE`, the point encoders of
`Impl/Encode.lean`, the marshalling length arithmetic of `Impl/Marshal.lean`, and the random
stream / rejection sampler of `Spec/Rand.lean`.  Property-level statements live in
`Properties/C09.lean`, `C10.lean`, `C15.lean`, `C17.lean`.
-/
import JediVerif.Impl.Marshal
import Mathlib.Tactic.Ring
import Mathlib.Tactic.Linarith
import Mathlib.Data.ZMod.Defs

namespace Jedi.Impl
open Jedi

/-! ### `toBytesBE` / `ofBytesBE` -/

theorem toBytesBE_length (w v : Nat) : (toBytesBE w v).length = w := by
  simp [toBytesBE]

/-- most significant byte first. -/
theorem toBytesBE_succ (w v : Nat) :
    toBytesBE (w + 1) v = UInt8.ofNat ((v >>> (8 * w)) % 256) :: toBytesBE w v := by
  unfold toBytesBE
  rw [List.range_succ_eq_map, List.map_cons, List.map_map]
  congr 1
  apply List.map_congr_left
  intro i _
  simp only [Function.comp]
  congr 3
  omega

theorem ofBytesBE_nil : ofBytesBE [] = 0 := rfl

theorem ofBytesBE_foldl (acc : Nat) (bs : List UInt8) :
    bs.foldl (fun acc b => acc * 256 + b.toNat) acc = acc * 256 ^ bs.length + ofBytesBE bs := by
  unfold ofBytesBE
  induction bs generalizing acc with
  | nil => simp
  | cons b bs ih =>
    simp only [List.foldl_cons, List.length_cons]
    rw [ih, ih (0 * 256 + b.toNat)]
    ring

theorem ofBytesBE_cons (b : UInt8) (bs : List UInt8) :
    ofBytesBE (b :: bs) = b.toNat * 256 ^ bs.length + ofBytesBE bs := by
  show (b :: bs).foldl _ 0 = _
  rw [List.foldl_cons, ofBytesBE_foldl]; simp

theorem ofBytesBE_append (xs ys : List UInt8) :
    ofBytesBE (xs ++ ys) = ofBytesBE xs * 256 ^ ys.length + ofBytesBE ys := by
  show (xs ++ ys).foldl _ 0 = _
  rw [List.foldl_append, ofBytesBE_foldl]; rfl

theorem ofBytesBE_lt (bs : List UInt8) : ofBytesBE bs < 256 ^ bs.length := by
  induction bs with
  | nil => simp [ofBytesBE]
  | cons b bs ih =>
    rw [ofBytesBE_cons, List.length_cons, pow_succ]
    have hb : b.toNat < 256 := b.toNat_lt
    nlinarith

/-- decoding an encoded number gives the number back, reduced to the width. -/
theorem ofBytesBE_toBytesBE (w v : Nat) : ofBytesBE (toBytesBE w v) = v % 256 ^ w := by
  induction w with
  | zero => simp [toBytesBE, ofBytesBE, Nat.mod_one]
  | succ w ih =>
    rw [toBytesBE_succ, ofBytesBE_cons, ih, toBytesBE_length, UInt8.toNat_ofNat',
      Nat.shiftRight_eq_div_pow]
    have h1 : (2 : Nat) ^ (8 * w) = 256 ^ w := by rw [pow_mul]; rfl
    have h2 : (2 : Nat) ^ 8 = 256 := rfl
    rw [h1, h2, Nat.mod_mod, Nat.mod_pow_succ (b := 256)]
    ring

theorem ofBytesBE_toBytesBE_of_lt {w v : Nat} (h : v < 256 ^ w) : ofBytesBE (toBytesBE w v) = v := by
  rw [ofBytesBE_toBytesBE, Nat.mod_eq_of_lt h]

/-- the other direction: re-encoding the value of a byte string gives the byte string. -/
theorem toBytesBE_ofBytesBE (bs : List UInt8) : toBytesBE bs.length (ofBytesBE bs) = bs := by
  induction bs with
  | nil => rfl
  | cons b bs ih =>
    rw [List.length_cons, toBytesBE_succ, ofBytesBE_cons]
    have hlt := ofBytesBE_lt bs
    have h256 : (2 : Nat) ^ (8 * bs.length) = 256 ^ bs.length := by rw [pow_mul]; rfl
    have hpos : 0 < 256 ^ bs.length := Nat.pow_pos (by norm_num)
    congr 1
    · rw [Nat.shiftRight_eq_div_pow, h256, Nat.add_comm, Nat.add_mul_div_right _ _ hpos,
        Nat.div_eq_of_lt hlt, Nat.zero_add, Nat.mod_eq_of_lt b.toNat_lt]
      exact UInt8.ofNat_toNat
    · -- the low part does not see the leading byte
      have : ∀ (w a c : Nat), toBytesBE w (a * 256 ^ w + c) = toBytesBE w c := by
        intro w a c
        unfold toBytesBE
        apply List.map_congr_left
        intro i hi
        have hi' : i < w := List.mem_range.mp hi
        congr 1
        rw [Nat.shiftRight_eq_div_pow, Nat.shiftRight_eq_div_pow]
        have e : 256 ^ w = 2 ^ (8 * (w - 1 - i)) * (256 * 256 ^ i) := by
          have : (256 : Nat) = 2 ^ 8 := rfl
          rw [this, ← pow_mul, ← pow_succ', ← pow_mul, ← pow_add]
          congr 1; omega
        have hp : 0 < 2 ^ (8 * (w - 1 - i)) := Nat.pow_pos (by norm_num)
        rw [e, ← Nat.mul_assoc, Nat.mul_comm a, Nat.mul_assoc, Nat.mul_add_div hp,
          ← Nat.mul_assoc, Nat.mul_comm _ 256, Nat.mul_assoc, Nat.mul_add_mod]
      rw [this, ih]

/-! ### `orFirst`, `encode`: lengths -/

theorem orFirst_length (bs : List UInt8) (m : Nat) : (orFirst bs m).length = bs.length := by
  cases bs <;> rfl

theorem opsFq_toBytes_length (x : Fq) : (opsFq.toBytes x).length = opsFq.size :=
  toBytesBE_length 48 _

theorem opsFq2_toBytes_length (x : Fq2) : (opsFq2.toBytes x).length = opsFq2.size := by
  show (toBytesBE 48 _ ++ toBytesBE 48 _).length = 96
  rw [List.length_append, toBytesBE_length, toBytesBE_length]

theorem encode_length {F : Type} (o : FieldOps F) (hlen : ∀ x, (o.toBytes x).length = o.size)
    (comp : Bool) (p : Pt F) :
    (encode o comp p).length = if comp then o.size else 2 * o.size := by
  cases p with
  | inf => cases comp <;> simp [encode, orFirst_length]
  | aff x y =>
    cases comp
    · simp [encode, hlen]; omega
    · simp only [encode, if_true]
      split <;> simp [orFirst_length, hlen]

theorem encG1_length (comp : Bool) (p : G1Pt) : (encG1 comp p).length = g1Size comp := by
  unfold encG1 g1Size
  rw [encode_length opsFq opsFq_toBytes_length]; rfl

theorem encG2_length (comp : Bool) (p : G2Pt) : (encG2 comp p).length = g2Size comp := by
  unfold encG2 g2Size
  rw [encode_length opsFq2 opsFq2_toBytes_length]; rfl

/-- `flatMap` over pieces of constant length. -/
theorem length_flatMap_const {α β : Type} (f : α → List β) (n : Nat) (h : ∀ a, (f a).length = n)
    (l : List α) : (l.flatMap f).length = l.length * n := by
  induction l with
  | nil => simp
  | cons a l ih => rw [List.flatMap_cons, List.length_append, ih, h, List.length_cons]; ring

theorem fq12Bytes_length (a : Fq12) : (fq12Bytes a).length = 576 := by
  unfold fq12Bytes
  rw [length_flatMap_const _ 48 (fun c => toBytesBE_length 48 _)]; simp [fq12Comps]

/-! ### marshalled lengths -/

theorem marshalParams_length (comp : Bool) (pp : WParams) :
    (marshalParams comp pp).length = paramsLen comp pp.h.length pp.signatures := by
  unfold marshalParams paramsLen
  simp only [List.length_append, List.length_cons, List.length_nil, encG1_length, encG2_length,
    length_flatMap_const _ _ (encG1_length comp)]
  cases comp <;> cases pp.signatures <;> simp [fq12Bytes_length, encG1_length, g1Size, g2Size] <;> omega

theorem marshalKey_length (comp : Bool) (k : WKey) :
    (marshalKey comp k).length = keyLen comp k.b.length k.signatures := by
  unfold marshalKey keyLen
  have h : ∀ a : Nat × G1Pt, (encG1 comp a.2 ++ toBytesBE 4 a.1).length = g1Size comp + 4 := by
    intro a; rw [List.length_append, encG1_length, toBytesBE_length]
  simp only [List.length_append, List.length_cons, List.length_nil, encG1_length, encG2_length,
    length_flatMap_const (fun a : Nat × G1Pt => encG1 comp a.2 ++ toBytesBE 4 a.1) _ h]
  cases comp <;> cases k.signatures <;> simp [encG1_length, g1Size, g2Size] <;> omega

theorem marshalParams_head (comp : Bool) (pp : WParams) :
    (marshalParams comp pp).head? = some (if pp.signatures then 1 else 0) := by
  simp [marshalParams]

theorem marshalKey_head (comp : Bool) (k : WKey) :
    (marshalKey comp k).head? = some (if k.signatures then 1 else 0) := by
  simp [marshalKey]

/-! ### `unLen` (the library's `unmarshalledLength`) against `paramsLen` / `keyLen` -/

theorem g1Size_pos (comp : Bool) : 0 < g1Size comp := by cases comp <;> decide

theorem unLen_paramsLen (comp sig : Bool) (l : Nat) :
    unLen true comp (if sig then 1 else 0) (paramsLen comp l sig) = some l := by
  cases comp <;> cases sig <;>
    simp [unLen, paramsLen, g1Size, g2Size] <;> omega

theorem unLen_keyLen (comp sig : Bool) (l : Nat) :
    unLen false comp (if sig then 1 else 0) (keyLen comp l sig) = some l := by
  cases comp <;> cases sig <;>
    simp [unLen, keyLen, g1Size, g2Size]

/-- whatever `unLen` accepts is exactly the length of an object with that many slots. -/
theorem unLen_some_params {comp : Bool} {fb n l : Nat} (h : unLen true comp fb n = some l) :
    paramsLen comp l (fb != 0) = n := by
  by_cases hfb : fb = 0
  · subst hfb
    cases comp <;> simp [unLen, paramsLen, g1Size, g2Size] at h ⊢ <;> omega
  · have e1 : (fb == 0) = false := by simpa using hfb
    have e2 : (fb != 0) = true := by simpa using hfb
    rw [e2]
    cases comp <;> simp [unLen, paramsLen, g1Size, g2Size, e1] at h ⊢ <;> omega

theorem unLen_some_key {comp : Bool} {fb n l : Nat} (h : unLen false comp fb n = some l) :
    keyLen comp l (fb != 0) = n := by
  by_cases hfb : fb = 0
  · subst hfb
    cases comp <;> simp [unLen, keyLen, g1Size, g2Size] at h ⊢ <;> omega
  · have e1 : (fb == 0) = false := by simpa using hfb
    have e2 : (fb != 0) = true := by simpa using hfb
    rw [e2]
    cases comp <;> simp [unLen, keyLen, g1Size, g2Size, e1] at h ⊢ <;> omega

theorem unLen_params_iff (comp : Bool) (fb n l : Nat) :
    unLen true comp fb n = some l ↔ paramsLen comp l (fb != 0) = n := by
  refine ⟨unLen_some_params, ?_⟩
  intro h; subst h
  by_cases hfb : fb = 0
  · subst hfb
    cases comp <;> simp [unLen, paramsLen, g1Size, g2Size]
  · have e1 : (fb == 0) = false := by simpa using hfb
    have e2 : (fb != 0) = true := by simpa using hfb
    rw [e2]
    cases comp <;> simp [unLen, paramsLen, g1Size, g2Size, e1] <;> omega

theorem unLen_key_iff (comp : Bool) (fb n l : Nat) :
    unLen false comp fb n = some l ↔ keyLen comp l (fb != 0) = n := by
  refine ⟨unLen_some_key, ?_⟩
  intro h; subst h
  by_cases hfb : fb = 0
  · subst hfb
    cases comp <;> simp [unLen, keyLen, g1Size, g2Size]
  · have e1 : (fb == 0) = false := by simpa using hfb
    have e2 : (fb != 0) = true := by simpa using hfb
    rw [e2]
    cases comp <;> simp [unLen, keyLen, g1Size, g2Size, e1]

/-- buffers shorter than the empty object are refused. -/
theorem unLen_none_params {comp : Bool} {fb n : Nat} (h : n < paramsLen comp 0 (fb != 0)) :
    unLen true comp fb n = none := by
  cases hu : unLen true comp fb n with
  | none => rfl
  | some l =>
    have := unLen_some_params hu
    have hmono : paramsLen comp 0 (fb != 0) ≤ paramsLen comp l (fb != 0) := by
      unfold paramsLen; apply Nat.add_le_add_left; apply Nat.mul_le_mul_right; omega
    omega

theorem unLen_none_key {comp : Bool} {fb n : Nat} (h : n < keyLen comp 0 (fb != 0)) :
    unLen false comp fb n = none := by
  cases hu : unLen false comp fb n with
  | none => rfl
  | some l =>
    have := unLen_some_key hu
    have hmono : keyLen comp 0 (fb != 0) ≤ keyLen comp l (fb != 0) := by
      unfold keyLen; simp only [Nat.zero_mul, Nat.add_zero]; omega
    omega

/-! ### first bytes and flags -/

-- `firstByte` (first byte as a number, what `decode` inspects) is defined in `Impl/Marshal.lean`.

theorem firstByte_lt (bs : List UInt8) : firstByte bs < 256 := (bs.headD 0).toNat_lt

theorem firstByte_orFirst {bs : List UInt8} (h : 0 < bs.length) (m : Nat) :
    firstByte (orFirst bs m) = (firstByte bs ||| m) % 256 := by
  cases bs with
  | nil => simp at h
  | cons b bs =>
    show (UInt8.ofNat _).toNat = _
    rw [UInt8.toNat_ofNat']; rfl

theorem firstByte_append {xs : List UInt8} (h : 0 < xs.length) (ys : List UInt8) :
    firstByte (xs ++ ys) = firstByte xs := by
  cases xs with
  | nil => simp at h
  | cons b bs => rfl

theorem firstByte_replicate_zero (n : Nat) : firstByte (List.replicate n 0) = 0 := by
  cases n <;> rfl

theorem orFirst_zero (bs : List UInt8) : orFirst bs 0 = bs := by
  cases bs with
  | nil => rfl
  | cons b bs => simp [orFirst]

set_option exponentiation.threshold 400 in
theorem toBytesBE48_firstByte_lt {v : Nat} (h : v < 2 ^ 381) : firstByte (toBytesBE 48 v) < 32 := by
  rw [toBytesBE_succ 47 v]
  simp only [firstByte, List.headD_cons, UInt8.toNat_ofNat']
  rw [Nat.shiftRight_eq_div_pow]
  have : v / 2 ^ (8 * 47) < 32 := by
    rw [Nat.div_lt_iff_lt_mul (Nat.pow_pos (by norm_num))]
    calc v < 2 ^ 381 := h
      _ = 32 * 2 ^ (8 * 47) := by decide +kernel
  omega

theorem q_lt_2_381 : q < 2 ^ 381 := by decide +kernel
theorem q_lt_256_48 : q < 256 ^ 48 := by decide +kernel

theorem opsFq_firstByte_lt (x : Fq) : firstByte (opsFq.toBytes x) < 32 :=
  toBytesBE48_firstByte_lt (Nat.lt_trans x.isLt q_lt_2_381)

theorem opsFq2_firstByte_lt (x : Fq2) : firstByte (opsFq2.toBytes x) < 32 := by
  show firstByte (toBytesBE 48 _ ++ toBytesBE 48 _) < 32
  rw [firstByte_append (by rw [toBytesBE_length]; norm_num)]
  exact toBytesBE48_firstByte_lt (Nat.lt_trans x.c1.isLt q_lt_2_381)

/-- bit patterns of a first byte `t < 32` after the encoder's flag insertions. -/
theorem flag_facts : ∀ t, t < 32 →
    (t &&& 128 = 0 ∧ t &&& 64 = 0 ∧ t &&& 32 = 0 ∧ t &&& 224 = 0) ∧
    ((t ||| 128) % 256 &&& 128 = 128 ∧ (t ||| 128) % 256 &&& 64 = 0 ∧ (t ||| 128) % 256 &&& 32 = 0 ∧
      (t ||| 128) % 256 &&& 224 = 128) ∧
    (((t ||| 32) % 256 ||| 128) % 256 &&& 128 = 128 ∧ ((t ||| 32) % 256 ||| 128) % 256 &&& 64 = 0 ∧
      ((t ||| 32) % 256 ||| 128) % 256 &&& 32 = 32 ∧ ((t ||| 32) % 256 ||| 128) % 256 &&& 224 = 160) := by
  decide

/-! ### field (de)serialisation round trips -/

set_option exponentiation.threshold 400 in
theorem fqOfBytes48_toBytesBE (x : Fq) : fqOfBytes48 (toBytesBE 48 x.val) = x := by
  unfold fqOfBytes48
  rw [ofBytesBE_toBytesBE_of_lt (Nat.lt_trans x.isLt q_lt_256_48),
    Nat.mod_eq_of_lt (Nat.lt_trans x.isLt q_lt_2_381)]
  exact Fin.ofNat_val_eq_self x

theorem opsFq_roundtrip (x : Fq) : opsFq.ofBytes (opsFq.toBytes x) = x := fqOfBytes48_toBytesBE x

theorem opsFq2_roundtrip (x : Fq2) : opsFq2.ofBytes (opsFq2.toBytes x) = x := by
  show (⟨fqOfBytes48 ((toBytesBE 48 _ ++ toBytesBE 48 _).drop 48),
      fqOfBytes48 ((toBytesBE 48 _ ++ toBytesBE 48 _).take 48)⟩ : Fq2) = x
  rw [List.drop_left' (toBytesBE_length 48 _), List.take_left' (toBytesBE_length 48 _),
    fqOfBytes48_toBytesBE, fqOfBytes48_toBytesBE]

theorem mask_aux (x y P R : Nat) (h : x % 32 = y % 32) :
    (x * P + R) % (32 * P) = (y * P + R) % (32 * P) := by
  have e : ∀ z, (z * P + R) % (32 * P) = (z % 32 * P + R) % (32 * P) := by
    intro z
    conv_lhs => rw [← Nat.div_add_mod z 32]
    have : (32 * (z / 32) + z % 32) * P + R = 32 * P * (z / 32) + (z % 32 * P + R) := by ring
    rw [this, Nat.mul_add_mod]
  rw [e x, e y, h]

theorem or_flag_mod32 (b m : Nat) (hm : m % 32 = 0) : (b ||| m) % 256 % 32 = b % 32 := by
  rw [Nat.mod_mod_of_dvd _ (by norm_num : 32 ∣ 256)]
  have := @Nat.or_mod_two_pow b m 5
  norm_num at this
  rw [this, hm, Nat.or_zero]

set_option exponentiation.threshold 400 in
/-- `read_big_endian` ignores the three flag bits. -/
theorem fqOfBytes48_orFirst (bs : List UInt8) (m : Nat) (hl : bs.length = 48) (hm : m % 32 = 0) :
    fqOfBytes48 (orFirst bs m) = fqOfBytes48 bs := by
  cases bs with
  | nil => simp at hl
  | cons b rest =>
    have hr : rest.length = 47 := by simpa using hl
    unfold fqOfBytes48 orFirst
    congr 1
    rw [ofBytesBE_cons, ofBytesBE_cons, hr, UInt8.toNat_ofNat']
    have e : (2 : Nat) ^ 381 = 32 * 256 ^ 47 := by decide +kernel
    rw [e]
    exact mask_aux _ _ _ _ (or_flag_mod32 _ _ hm)

theorem take_orFirst (bs : List UInt8) (m n : Nat) (hn : 0 < n) :
    (orFirst bs m).take n = orFirst (bs.take n) m := by
  cases bs with
  | nil => simp [orFirst]
  | cons b rest =>
    cases n with
    | zero => omega
    | succ n => simp [orFirst]

theorem drop_orFirst (bs : List UInt8) (m n : Nat) (hn : 0 < n) :
    (orFirst bs m).drop n = bs.drop n := by
  cases bs with
  | nil => simp [orFirst]
  | cons b rest =>
    cases n with
    | zero => omega
    | succ n => simp [orFirst]

theorem opsFq_mask (bs : List UInt8) (m : Nat) (hl : bs.length = opsFq.size) (hm : m % 32 = 0) :
    opsFq.ofBytes (orFirst bs m) = opsFq.ofBytes bs := fqOfBytes48_orFirst bs m hl hm

theorem opsFq2_mask (bs : List UInt8) (m : Nat) (hl : bs.length = opsFq2.size) (hm : m % 32 = 0) :
    opsFq2.ofBytes (orFirst bs m) = opsFq2.ofBytes bs := by
  have hl : bs.length = 96 := hl
  show (⟨fqOfBytes48 ((orFirst bs m).drop 48), fqOfBytes48 ((orFirst bs m).take 48)⟩ : Fq2) =
    ⟨fqOfBytes48 (bs.drop 48), fqOfBytes48 (bs.take 48)⟩
  rw [drop_orFirst _ _ _ (by norm_num), take_orFirst _ _ _ (by norm_num),
    fqOfBytes48_orFirst _ _ (by rw [List.length_take]; omega) hm]

/-- What the encoding theorems need of a `FieldOps` record; all of it holds for `opsFq`, `opsFq2`. -/
structure EncOK {F : Type} (o : FieldOps F) : Prop where
  size_pos : 0 < o.size
  /-- serialisations have the advertised size -/
  len : ∀ x, (o.toBytes x).length = o.size
  /-- the three top bits of a serialised coordinate are clear (values are below q < 2^381) -/
  head_lt : ∀ x, firstByte (o.toBytes x) < 32
  /-- reading back a serialised coordinate gives the coordinate -/
  roundtrip : ∀ x, o.ofBytes (o.toBytes x) = x
  /-- reading masks off the three flag bits of the first byte -/
  mask : ∀ bs m, bs.length = o.size → m % 32 = 0 → o.ofBytes (orFirst bs m) = o.ofBytes bs

theorem opsFq_ok : EncOK opsFq :=
  ⟨by decide, opsFq_toBytes_length, opsFq_firstByte_lt, opsFq_roundtrip, opsFq_mask⟩

theorem opsFq2_ok : EncOK opsFq2 :=
  ⟨by decide, opsFq2_toBytes_length, opsFq2_firstByte_lt, opsFq2_roundtrip, opsFq2_mask⟩

/-! ### `encode` / unchecked `decode` -/

section
variable {F : Type} {o : FieldOps F}

theorem firstByte_encode_inf (ok : EncOK o) (comp : Bool) :
    firstByte (encode o comp .inf) = if comp then 192 else 64 := by
  have hp := ok.size_pos
  cases comp
  · simp only [encode, Bool.false_eq_true, if_false]
    rw [firstByte_orFirst (by rw [List.length_replicate]; omega), firstByte_replicate_zero]; rfl
  · simp only [encode, if_true]
    rw [firstByte_orFirst (by rw [orFirst_length, List.length_replicate]; omega),
      firstByte_orFirst (by rw [List.length_replicate]; omega), firstByte_replicate_zero]; rfl

theorem firstByte_encode_aff_unc (ok : EncOK o) (x y : F) :
    firstByte (encode o false (.aff x y)) = firstByte (o.toBytes x) := by
  simp only [encode, Bool.false_eq_true, if_false]
  rw [firstByte_append (by rw [ok.len]; exact ok.size_pos)]

theorem firstByte_encode_aff_comp (ok : EncOK o) (x y : F) :
    firstByte (encode o true (.aff x y)) =
      if o.cmp y (o.neg y) == 1 then ((firstByte (o.toBytes x) ||| 32) % 256 ||| 128) % 256
      else (firstByte (o.toBytes x) ||| 128) % 256 := by
  have hp := ok.size_pos
  simp only [encode, if_true]
  split
  · rw [firstByte_orFirst (by rw [orFirst_length, ok.len]; omega),
      firstByte_orFirst (by rw [ok.len]; omega)]; rfl
  · rw [firstByte_orFirst (by rw [ok.len]; omega)]; rfl

theorem decode_unchecked_encode_inf (ok : EncOK o) (f : Pt F → Bool) (comp : Bool) :
    decode o f comp false (encode o comp .inf) = some .inf := by
  have h := firstByte_encode_inf ok comp
  unfold firstByte at h
  unfold decode
  simp only [h]
  cases comp <;> simp [flagInfinity]

theorem decode_unchecked_encode_aff_unc (ok : EncOK o) (f : Pt F → Bool) (x y : F) :
    decode o f false false (encode o false (.aff x y)) = some (.aff x y) := by
  have h := firstByte_encode_aff_unc ok x y
  have hlt := ok.head_lt x
  have hf := (flag_facts _ hlt).1
  unfold firstByte at h hlt hf
  unfold decode
  simp only [h]
  simp only [Bool.false_and, Bool.false_eq_true, if_false, flagInfinity, hf.2.1, bne_self_eq_false]
  simp only [encode, Bool.false_eq_true, if_false]
  rw [List.take_left' (ok.len x), List.drop_left' (ok.len x), ← ok.len y, List.take_length,
    ok.roundtrip, ok.roundtrip]


theorem decode_unchecked_encode_aff_comp (ok : EncOK o) (f : Pt F → Bool) (x y : F)
    (hx : fromX o x (o.cmp y (o.neg y) == 1) false = some (x, y)) :
    decode o f true false (encode o true (.aff x y)) = some (.aff x y) := by
  have h := firstByte_encode_aff_comp ok x y
  have hlt := ok.head_lt x
  obtain ⟨-, hB, hC⟩ := flag_facts _ hlt
  have hp := ok.size_pos
  have hlen : (encode o true (.aff x y)).length = o.size := by
    rw [encode_length o ok.len]; rfl
  have hxb : o.ofBytes ((encode o true (.aff x y)).take o.size) = x := by
    rw [← hlen, List.take_length]
    simp only [encode, if_true]
    split
    · rw [ok.mask _ _ (by rw [orFirst_length, ok.len]) (by decide),
        ok.mask _ _ (ok.len x) (by decide), ok.roundtrip]
    · rw [ok.mask _ _ (ok.len x) (by decide), ok.roundtrip]
  unfold firstByte at h hlt hB hC
  unfold decode
  simp only [h, hxb]
  by_cases hg : (o.cmp y (o.neg y) == 1) = true
  · simp only [hg, if_true, flagInfinity, flagGreater, hC.2.1, hC.2.2.1] at hx ⊢
    simp [hx]
  · have hg : (o.cmp y (o.neg y) == 1) = false := by simpa using hg
    simp only [hg, Bool.false_eq_true, if_false, flagInfinity, flagGreater, hB.2.1, hB.2.2.1] at hx ⊢
    simp [hx]

/-- the y selected by `get_point_from_x` (unchecked) for the sign bit of y is y itself, as soon as
y is one of the two roots the square-root routine can stand for. -/
theorem fromX_selects (x y : F)
    (hneg : o.neg (o.neg (o.sqrt (o.add (o.mul (o.mul x x) x) o.b))) = o.sqrt (o.add (o.mul (o.mul x x) x) o.b))
    (hcmp : ∀ a b : F, a ≠ b → ((o.cmp a b == 1) = !(o.cmp b a == 1)))
    (hy : y = o.sqrt (o.add (o.mul (o.mul x x) x) o.b) ∨ y = o.neg (o.sqrt (o.add (o.mul (o.mul x x) x) o.b))) :
    fromX o x (o.cmp y (o.neg y) == 1) false = some (x, y) := by
  unfold fromX
  simp only [Bool.false_and, Bool.false_eq_true, if_false]
  generalize o.sqrt (o.add (o.mul (o.mul x x) x) o.b) = s at *
  by_cases hs : y = s
  · subst hs; simp
  · have hy' : y = o.neg s := by rcases hy with h | h; exact absurd h hs; exact h
    subst hy'
    rw [hneg, hcmp _ _ hs]
    simp

/-! ### `decodeCanonical` -/

theorem decodeCanonical_sound {inSub onC : Pt F → Bool} {comp : Bool} {bs : List UInt8} {p : Pt F}
    (h : decodeCanonical o inSub onC comp bs = some p) :
    onC p = true ∧ inSub p = true ∧ encode o comp p = bs := by
  unfold decodeCanonical at h
  split at h
  · cases h
  · split at h
    · rename_i hc
      injection h with h; subst h
      simp only [Bool.and_eq_true, beq_iff_eq] at hc
      exact ⟨hc.1.1, hc.1.2, hc.2⟩
    · cases h

theorem decodeCanonical_of_decode {inSub onC : Pt F → Bool} {comp : Bool} {p : Pt F}
    (hd : decode o (fun _ => true) comp false (encode o comp p) = some p)
    (hc : onC p = true) (hs : inSub p = true) :
    decodeCanonical o inSub onC comp (encode o comp p) = some p := by
  unfold decodeCanonical
  rw [hd]
  simp [hc, hs]

end

end Jedi.Impl

namespace Jedi
open Jedi.Impl

/-! ### the random stream and the rejection sampler -/

theorem RS.draw_length (s : RS) (n : Nat) : (s.draw n).1.length = n := by
  simp only [RS.draw, List.length_append, List.length_take, List.length_replicate]; omega

/-- every requested byte is accounted for: either taken from the stream or padding. -/
theorem RS.draw_counters (s : RS) (n : Nat) :
    (s.draw n).2.used + (s.draw n).2.over = s.used + s.over + n := by
  simp only [RS.draw, List.length_take]; omega

theorem RS.draw_bytes (s : RS) (n : Nat) : (s.draw n).2.bytes = s.bytes.drop n := rfl

theorem RS.draw_eq (s : RS) (n : Nat) :
    (s.draw n).1 = (s.bytes ++ List.replicate n 0).take n := by
  simp only [RS.draw, List.take_append, List.length_take, List.take_replicate]
  congr 2; omega

/-- the stream after `k` draws of `chunk` bytes. -/
def RS.after (chunk : Nat) : Nat → RS → RS
  | 0, s => s
  | k+1, s => RS.after chunk k (s.draw chunk).2

/-- the candidate the sampler forms from the next draw: little-endian value, top bits cleared. -/
def RS.candidate (chunk maskBits : Nat) (s : RS) : Nat := ofBytesLE (s.draw chunk).1 % 2 ^ maskBits

theorem RS.after_succ' (chunk k : Nat) (s : RS) :
    RS.after chunk (k + 1) s = ((RS.after chunk k s).draw chunk).2 := by
  induction k generalizing s with
  | zero => rfl
  | succ k ih => rw [RS.after, ih]; rfl

theorem RS.after_bytes (chunk k : Nat) (s : RS) : (RS.after chunk k s).bytes = s.bytes.drop (k * chunk) := by
  induction k generalizing s with
  | zero => simp [RS.after]
  | succ k ih => rw [RS.after, ih, RS.draw_bytes, List.drop_drop]; congr 1; ring

theorem RS.after_counters (chunk k : Nat) (s : RS) :
    (RS.after chunk k s).used + (RS.after chunk k s).over = s.used + s.over + k * chunk := by
  induction k generalizing s with
  | zero => simp [RS.after]
  | succ k ih => rw [RS.after, ih, RS.draw_counters]; ring

theorem randBelow_lt {bound : Nat} (hb : 0 < bound) (chunk maskBits fuel : Nat) (s : RS) :
    (randBelow chunk maskBits bound fuel s).1 < bound := by
  induction fuel generalizing s with
  | zero => exact hb
  | succ fuel ih =>
    simp only [randBelow]
    split
    · assumption
    · exact ih _

/-- the sampler returns the first candidate below the bound (and the stream just after it). -/
theorem randBelow_first_hit (chunk maskBits bound : Nat) (fuel k : Nat) (s : RS) (hk : k < fuel)
    (hrej : ∀ j, j < k → ¬ RS.candidate chunk maskBits (RS.after chunk j s) < bound)
    (hacc : RS.candidate chunk maskBits (RS.after chunk k s) < bound) :
    randBelow chunk maskBits bound fuel s =
      (RS.candidate chunk maskBits (RS.after chunk k s), RS.after chunk (k + 1) s) := by
  induction k generalizing s fuel with
  | zero =>
    obtain ⟨fuel, rfl⟩ : ∃ f, fuel = f + 1 := ⟨fuel - 1, by omega⟩
    simp only [randBelow]
    rw [if_pos (by exact hacc)]
    rfl
  | succ k ih =>
    obtain ⟨fuel, rfl⟩ : ∃ f, fuel = f + 1 := ⟨fuel - 1, by omega⟩
    simp only [randBelow]
    rw [if_neg (by exact hrej 0 (by omega))]
    rw [ih fuel (s.draw chunk).2 (by omega) (fun j hj => hrej (j + 1) (by omega)) hacc]
    rfl

/-- if nothing is accepted within the fuel, the default 0 comes back after `fuel` draws. -/
theorem randBelow_exhausted (chunk maskBits bound : Nat) (fuel : Nat) (s : RS)
    (hrej : ∀ j, j < fuel → ¬ RS.candidate chunk maskBits (RS.after chunk j s) < bound) :
    randBelow chunk maskBits bound fuel s = (0, RS.after chunk fuel s) := by
  induction fuel generalizing s with
  | zero => rfl
  | succ fuel ih =>
    simp only [randBelow]
    rw [if_neg (by exact hrej 0 (by omega))]
    rw [ih (s.draw chunk).2 (fun j hj => hrej (j + 1) (by omega))]
    rfl

theorem ofBytesLE_replicate_zero (n : Nat) : ofBytesLE (List.replicate n 0) = 0 := by
  induction n with
  | zero => rfl
  | succ n ih =>
    rw [List.replicate_succ]
    show ofBytesLE (List.replicate n 0) * 256 + (0 : UInt8).toNat = 0
    rw [ih]; rfl

/-- once the stream is exhausted the candidate is 0: the loop cannot run past the stream. -/
theorem RS.candidate_of_empty (chunk maskBits : Nat) (s : RS) (h : s.bytes = []) :
    RS.candidate chunk maskBits s = 0 := by
  unfold RS.candidate
  rw [RS.draw_eq, h, List.nil_append, List.take_replicate, ofBytesLE_replicate_zero, Nat.zero_mod]

/-- with the library's fuel (`RS.fuel`) the sampler always accepts a genuine candidate: the result is
the first candidate below the bound, never the out-of-fuel default. -/
theorem randBelow_accepts {bound : Nat} (hb : 0 < bound) (chunk maskBits : Nat) (s : RS) :
    ∃ k, k < s.fuel chunk ∧
      (∀ j, j < k → ¬ RS.candidate chunk maskBits (RS.after chunk j s) < bound) ∧
      RS.candidate chunk maskBits (RS.after chunk k s) < bound ∧
      randBelow chunk maskBits bound (s.fuel chunk) s =
        (RS.candidate chunk maskBits (RS.after chunk k s), RS.after chunk (k + 1) s) := by
  classical
  have hex : RS.candidate chunk maskBits (RS.after chunk (s.bytes.length / chunk + 1) s) < bound := by
    rcases Nat.eq_zero_or_pos chunk with h0 | hpos
    · subst h0
      have : ∀ t : RS, RS.candidate 0 maskBits t = 0 := by
        intro t; simp [RS.candidate, RS.draw, ofBytesLE]
      rw [this]; exact hb
    · rw [RS.candidate_of_empty]; exact hb
      rw [RS.after_bytes]
      apply List.drop_eq_nil_of_le
      have := Nat.div_add_mod s.bytes.length chunk
      have := Nat.mod_lt s.bytes.length hpos
      nlinarith
  have hex' : ∃ k, RS.candidate chunk maskBits (RS.after chunk k s) < bound := ⟨_, hex⟩
  have hmin : Nat.find hex' ≤ s.bytes.length / chunk + 1 := Nat.find_min' hex' hex
  have hlt : Nat.find hex' < s.fuel chunk := by unfold RS.fuel; omega
  exact ⟨Nat.find hex', hlt, fun j hj => Nat.find_min hex' hj, Nat.find_spec hex',
    randBelow_first_hit _ _ _ _ _ _ hlt (fun j hj => Nat.find_min hex' hj) (Nat.find_spec hex')⟩

/-! ### hashing to Z_r (`zp_from_hash`, `Fr::hash_reduce`) -/

/-- `Fr::hash_reduce` as coded: clear the top bit of the 256-bit value, subtract r once if needed. -/
def hashReduce (x : Nat) : Nat :=
  let v := x % 2 ^ 255
  if v < r then v else v - r

/-- `embedded_pairing_bls12_381_zp_from_hash`: big-endian read, top bit dropped, reduced mod r. -/
def zpFromHash (bs : List UInt8) : Nat := (ofBytesBE bs % 2 ^ 255) % r

theorem two_pow_255_lt : 2 ^ 255 < 2 * r := by decide +kernel

/-- one conditional subtraction is a full reduction because 2^255 < 2r. -/
theorem cond_sub_eq_mod {x : Nat} (h : x < 2 ^ 255) : (if x < r then x else x - r) = x % r := by
  have h2 := two_pow_255_lt
  split
  · rw [Nat.mod_eq_of_lt (by assumption)]
  · rename_i hge
    have hge : r ≤ x := Nat.le_of_not_lt hge
    rw [Nat.mod_eq_sub_mod hge, Nat.mod_eq_of_lt (by omega)]

theorem hashReduce_eq (x : Nat) : hashReduce x = x % 2 ^ 255 % r :=
  cond_sub_eq_mod (Nat.mod_lt _ (Nat.pow_pos (by norm_num)))

theorem zpFromHash_eq_hashReduce (bs : List UInt8) : zpFromHash bs = hashReduce (ofBytesBE bs) :=
  (hashReduce_eq _).symm

theorem zpFromHash_lt (bs : List UInt8) : zpFromHash bs < r := Nat.mod_lt _ (by decide)

end Jedi

namespace Jedi.Impl

/-! ### length recovered from a marshalled buffer -/

theorem firstByte_marshalParams (comp : Bool) (pp : WParams) :
    firstByte (marshalParams comp pp) = if pp.signatures then 1 else 0 := by
  unfold marshalParams firstByte
  cases pp.signatures <;> rfl

theorem firstByte_marshalKey (comp : Bool) (k : WKey) :
    firstByte (marshalKey comp k) = if k.signatures then 1 else 0 := by
  unfold marshalKey firstByte
  cases k.signatures <;> rfl

theorem unLen_marshalParams (comp : Bool) (pp : WParams) :
    unLen true comp (firstByte (marshalParams comp pp)) (marshalParams comp pp).length = some pp.h.length := by
  rw [firstByte_marshalParams, marshalParams_length, unLen_paramsLen]

theorem unLen_marshalKey (comp : Bool) (k : WKey) :
    unLen false comp (firstByte (marshalKey comp k)) (marshalKey comp k).length = some k.b.length := by
  rw [firstByte_marshalKey, marshalKey_length, unLen_keyLen]

end Jedi.Impl

/-! ### validating decode with the canonicity test (`coordinate_is_canonical`) -/

namespace Jedi.Impl

section
variable {F : Type} {o : FieldOps F}

-- `coordCanonical` (`coordinate_is_canonical`) and `decodeChecked` (validating decode of the repaired library) are
-- defined in `Impl/Marshal.lean` (executable, Mathlib-free: the judge's unmarshalling models use them).

/-- the curve test of checked uncompressed decoding, on points. -/
def onCurvePt (o : FieldOps F) : Pt F → Bool
  | .inf => true
  | .aff x y => onCurve o x y

theorem byte_eq_64 : ∀ b, b < 256 → b &&& 128 = 0 → b &&& 64 ≠ 0 → b &&& 63 = 0 → b = 64 := by decide +kernel
theorem byte_eq_192 : ∀ b, b < 256 → b &&& 128 ≠ 0 → b &&& 64 ≠ 0 → b &&& 63 = 0 → b = 192 := by decide +kernel
theorem byte_flags_clear : ∀ b, b < 256 → b &&& 128 = 0 → b &&& 64 = 0 → b &&& 32 = 0 → b &&& 224 = 0 := by decide +kernel

theorem decode_checked_inf_bytes {inSub : Pt F → Bool} {comp : Bool} {bs : List UInt8}
    (h : decode o inSub comp true bs = some .inf) (hpos : 0 < bs.length) :
    bs = orFirst (List.replicate bs.length 0) (if comp then 192 else 64) := by
  unfold decode at h
  simp only [Bool.true_and] at h
  split at h
  · cases h
  · rename_i hc
    split at h
    · rename_i hi
      split at h
      · cases h
      · rename_i hz
        cases bs with
        | nil => simp at hpos
        | cons b rest =>
          simp only [List.headD_cons, flagCompressed, flagInfinity, List.drop_succ_cons, List.drop_zero,
            Bool.or_eq_true, not_or, bne_iff_ne, ne_eq, not_not, Bool.not_eq_true, List.any_eq_false,
            Nat.reduceSub] at hc hi hz
          have hrest : rest = List.replicate rest.length 0 :=
            List.eq_replicate_iff.mpr ⟨rfl, fun x hx => by simpa using hz.2 x hx⟩
          have hb : b.toNat = if comp = true then 192 else 64 := by
            cases comp
            · exact byte_eq_64 _ b.toNat_lt (by simpa using hc) hi hz.1
            · exact byte_eq_192 _ b.toNat_lt (by simpa using hc) hi hz.1
          rw [List.length_cons, List.replicate_succ]
          show b :: rest = UInt8.ofNat ((0 : UInt8).toNat ||| _) :: List.replicate rest.length 0
          rw [← hrest, ← hb]
          congr 1
          show b = UInt8.ofNat (0 ||| b.toNat)
          rw [Nat.zero_or, UInt8.ofNat_toNat]
    · exfalso
      cases comp
      · simp only [Bool.false_eq_true, if_false, if_true] at h
        repeat' split at h
        all_goals cases h
      · simp only [if_true] at h
        repeat' split at h
        all_goals cases h


theorem decodeChecked_some_inf {inSub : Pt F → Bool} {comp : Bool} {bs : List UInt8}
    (h : decodeChecked o inSub comp bs = some .inf) : decode o inSub comp true bs = some .inf := by
  unfold decodeChecked at h
  split at h
  · cases h
  · assumption
  · split at h <;> cases h

theorem decodeChecked_some_aff {inSub : Pt F → Bool} {comp : Bool} {bs : List UInt8} {x y : F}
    (h : decodeChecked o inSub comp bs = some (.aff x y)) :
    decode o inSub comp true bs = some (.aff x y) ∧ coordCanonical o x (bs.take o.size) 224 = true ∧
      (comp = true ∨ coordCanonical o y ((bs.drop o.size).take o.size) 0 = true) := by
  unfold decodeChecked at h
  split at h
  · cases h
  · cases h
  · rename_i x' y' hd
    split at h
    · rename_i hc
      injection h with h; injection h with h1 h2; subst h1; subst h2
      simp only [Bool.and_eq_true, Bool.or_eq_true] at hc
      exact ⟨hd, hc.1, hc.2⟩
    · cases h

theorem encode_inf_comp (ok : EncOK o) :
    encode o true .inf = orFirst (List.replicate o.size 0) 192 := by
  obtain ⟨n, hn⟩ : ∃ n, o.size = n + 1 := ⟨o.size - 1, by have := ok.size_pos; omega⟩
  simp only [encode, if_true, hn, List.replicate_succ, orFirst]
  rfl

/-- validating decode returns the identity only on the identity's encoding. -/
theorem decodeChecked_inf_sound (ok : EncOK o) {inSub : Pt F → Bool} {comp : Bool} {bs : List UInt8}
    (h : decodeChecked o inSub comp bs = some .inf)
    (hl : bs.length = if comp then o.size else 2 * o.size) : encode o comp .inf = bs := by
  have hp := ok.size_pos
  have hb := decode_checked_inf_bytes (decodeChecked_some_inf h) (by rw [hl]; split <;> omega)
  rw [hb, hl]
  cases comp
  · rfl
  · exact encode_inf_comp ok

theorem decodeChecked_aff_sound_unc (ok : EncOK o) {inSub : Pt F → Bool} {bs : List UInt8} {x y : F}
    (h : decodeChecked o inSub false bs = some (.aff x y)) (hl : bs.length = 2 * o.size) :
    onCurve o x y = true ∧ inSub (.aff x y) = true ∧ encode o false (.aff x y) = bs := by
  have hp := ok.size_pos
  obtain ⟨hd, hcx, hcy⟩ := decodeChecked_some_aff h
  have hcy : coordCanonical o y ((bs.drop o.size).take o.size) 0 = true := by
    rcases hcy with h | h; cases h; exact h
  unfold decode at hd
  simp only [Bool.true_and, if_true, Bool.false_eq_true, if_false] at hd
  split at hd
  · cases hd
  · rename_i hc
    split at hd
    · split at hd <;> cases hd
    · rename_i hi
      split at hd
      · cases hd
      · rename_i hg
        split at hd
        · cases hd
        · rename_i hon
          split at hd
          · rename_i hsub
            injection hd with hd; injection hd with h1 h2
            rw [h1, h2] at hon hsub
            refine ⟨by simpa using hon, hsub, ?_⟩
            have hflags : (bs.headD 0).toNat &&& 224 = 0 :=
              byte_flags_clear _ (bs.headD 0).toNat_lt
                (by simpa [flagCompressed] using hc) (by simpa [flagInfinity] using hi)
                (by simpa [flagGreater] using hg)
            have hhead : (bs.take o.size).headD 0 = bs.headD 0 := by
              cases bs with
              | nil => simp
              | cons b rest =>
                obtain ⟨n, hn⟩ : ∃ n, o.size = n + 1 := ⟨o.size - 1, by omega⟩
                rw [hn]; rfl
            unfold coordCanonical at hcx hcy
            rw [hhead, hflags, orFirst_zero, beq_iff_eq] at hcx
            rw [Nat.and_zero, orFirst_zero, beq_iff_eq] at hcy
            simp only [encode, Bool.false_eq_true, if_false]
            rw [hcx, hcy, List.take_of_length_le (l := bs.drop o.size) (by rw [List.length_drop]; omega),
              List.take_append_drop]
          · cases hd

theorem decodeChecked_encode_inf (ok : EncOK o) (inSub : Pt F → Bool) (comp : Bool) :
    decodeChecked o inSub comp (encode o comp .inf) = some .inf := by
  have hp := ok.size_pos
  have hd : decode o inSub comp true (encode o comp .inf) = some .inf := by
    have h := firstByte_encode_inf ok comp
    unfold firstByte at h
    have hz : ((encode o comp .inf).drop 1).any (fun x => x != 0) = false := by
      have : (encode o comp .inf).drop 1 = List.replicate ((if comp then o.size else 2 * o.size) - 1) 0 := by
        cases comp
        · simp only [encode, Bool.false_eq_true, if_false]
          rw [drop_orFirst _ _ _ (by norm_num)]; simp
        · rw [encode_inf_comp ok, drop_orFirst _ _ _ (by norm_num)]; simp
      rw [this]; simp
    unfold decode
    simp only [h, hz]
    cases comp <;> simp [flagCompressed, flagInfinity]
  unfold decodeChecked
  rw [hd]

theorem decodeChecked_encode_aff_unc (ok : EncOK o) (inSub : Pt F → Bool) (x y : F)
    (hon : onCurve o x y = true) (hsub : inSub (.aff x y) = true) :
    decodeChecked o inSub false (encode o false (.aff x y)) = some (.aff x y) := by
  have hp := ok.size_pos
  have h := firstByte_encode_aff_unc ok x y
  have hlt := ok.head_lt x
  have hf := (flag_facts _ hlt).1
  unfold firstByte at h hlt hf
  have e : encode o false (.aff x y) = o.toBytes x ++ o.toBytes y := by
    simp only [encode, Bool.false_eq_true, if_false]
  have hd : decode o inSub false true (encode o false (.aff x y)) = some (.aff x y) := by
    unfold decode
    simp only [h]
    simp only [flagCompressed, flagInfinity, flagGreater, hf.1, hf.2.1, hf.2.2.1, bne_self_eq_false,
      Bool.and_false, Bool.false_eq_true, if_false, Bool.true_and, if_true]
    rw [e, List.take_left' (ok.len x), List.drop_left' (ok.len x), ← ok.len y, List.take_length,
      ok.roundtrip, ok.roundtrip]
    simp [hon, hsub]
  unfold decodeChecked
  rw [hd]
  have hcx : coordCanonical o x ((encode o false (.aff x y)).take o.size) 224 = true := by
    unfold coordCanonical
    rw [e, List.take_left' (ok.len x), hf.2.2.2, orFirst_zero]; simp
  have hcy : coordCanonical o y (((encode o false (.aff x y)).drop o.size).take o.size) 0 = true := by
    unfold coordCanonical
    rw [e, List.drop_left' (ok.len x), ← ok.len y, List.take_length, Nat.and_zero, orFirst_zero]; simp
  simp [hcx, hcy]

/-- On buffers of the right size, validating decode of the uncompressed form accepts exactly the
canonical encodings of points on the curve and in the subgroup, and returns the encoded point. -/
theorem decodeChecked_unc_eq_canonical (ok : EncOK o) (inSub : Pt F → Bool) (hinf : inSub .inf = true)
    (bs : List UInt8) (hl : bs.length = 2 * o.size) :
    decodeChecked o inSub false bs = decodeCanonical o inSub (onCurvePt o) false bs := by
  have key : ∀ p, decodeChecked o inSub false bs = some p ↔
      (onCurvePt o p = true ∧ inSub p = true ∧ encode o false p = bs) := by
    intro p
    constructor
    · intro h
      cases p with
      | inf => exact ⟨rfl, hinf, decodeChecked_inf_sound ok h (by simpa using hl)⟩
      | aff x y => exact decodeChecked_aff_sound_unc ok h hl
    · rintro ⟨hon, hsub, he⟩
      subst he
      cases p with
      | inf => exact decodeChecked_encode_inf ok inSub false
      | aff x y => exact decodeChecked_encode_aff_unc ok inSub x y hon hsub
  have key2 : ∀ p, decodeCanonical o inSub (onCurvePt o) false bs = some p ↔
      (onCurvePt o p = true ∧ inSub p = true ∧ encode o false p = bs) := by
    intro p
    constructor
    · exact decodeCanonical_sound
    · rintro ⟨hon, hsub, he⟩
      subst he
      refine decodeCanonical_of_decode ?_ hon hsub
      cases p with
      | inf => exact decode_unchecked_encode_inf ok _ false
      | aff x y => exact decode_unchecked_encode_aff_unc ok _ x y
  cases h1 : decodeChecked o inSub false bs with
  | some p => exact ((key2 p).mpr ((key p).mp h1)).symm
  | none =>
    cases h2 : decodeCanonical o inSub (onCurvePt o) false bs with
    | none => rfl
    | some p => rw [(key p).mpr ((key2 p).mp h2)] at h1; cases h1

end

end Jedi.Impl

/-! ### the sign rule: `Fq::compare` on Montgomery representatives is a strict total order -/

namespace Jedi.Impl

section
attribute [local instance] Fin.instCommRing

/-- R⁻¹ mod q for R = 2^384. -/
def montRinv : Fq := 0x14fec701e8fb0ce9ed5e64273c4f538b1797ab1458a88de9343ea97914956dc87fe11274d898fafbf4d38259380b4820

theorem montR_mul_inv : (Fin.ofNat q (2 ^ 384) : Fq) * montRinv = 1 := by decide +kernel

set_option exponentiation.threshold 400 in
/-- conversion to Montgomery form is injective, so `Fq::compare` separates distinct elements. -/
theorem montRep_injective {a b : Fq} (h : montRep a = montRep b) : a = b := by
  have h' : a * Fin.ofNat q (2 ^ 384) = b * Fin.ofNat q (2 ^ 384) := Fin.ext h
  have := congrArg (· * montRinv) h'
  simp only [mul_assoc, montR_mul_inv, mul_one] at this
  exact this

theorem cmpFq_self (a : Fq) : cmpFq a a = 0 := by simp [cmpFq]

theorem cmpFq_ne_zero {a b : Fq} (h : a ≠ b) : cmpFq a b ≠ 0 := by
  have : montRep a ≠ montRep b := fun e => h (montRep_injective e)
  unfold cmpFq
  simp only
  split
  · decide
  · split
    · decide
    · omega

theorem cmpFq_antisymm {a b : Fq} (h : a ≠ b) : (cmpFq a b == 1) = !(cmpFq b a == 1) := by
  have : montRep a ≠ montRep b := fun e => h (montRep_injective e)
  unfold cmpFq
  simp only
  rcases Nat.lt_or_gt_of_ne this with hlt | hgt
  · have h1 : ¬ montRep b < montRep a := by omega
    simp [hlt, h1]
  · have h1 : ¬ montRep a < montRep b := by omega
    simp [hgt, h1]

theorem cmpFq2_antisymm {a b : Fq2} (h : a ≠ b) : (cmpFq2 a b == 1) = !(cmpFq2 b a == 1) := by
  unfold cmpFq2
  simp only
  by_cases h1 : a.c1 = b.c1
  · have h0 : a.c0 ≠ b.c0 := fun e => h (Q2.ext e h1)
    rw [h1, cmpFq_self]
    simpa using cmpFq_antisymm h0
  · have n1 := cmpFq_ne_zero h1
    have n2 := cmpFq_ne_zero (Ne.symm h1)
    have e1 : (cmpFq a.c1 b.c1 == 0) = false := by simpa using n1
    have e2 : (cmpFq b.c1 a.c1 == 0) = false := by simpa using n2
    simp only [e1, e2, Bool.false_eq_true, if_false]
    exact cmpFq_antisymm h1

theorem opsFq_neg_neg (x : Fq) : opsFq.neg (opsFq.neg x) = x := neg_neg x

theorem opsFq2_neg_neg (x : Fq2) : opsFq2.neg (opsFq2.neg x) = x := by
  show - - x = x
  apply Q2.ext
  · exact neg_neg x.c0
  · exact neg_neg x.c1

end

set_option exponentiation.threshold 400 in
theorem opsFq_cmp_antisymm (a b : Fq) (h : a ≠ b) : (opsFq.cmp a b == 1) = !(opsFq.cmp b a == 1) := by
  show (cmpFq a b == 1) = !(cmpFq b a == 1)
  exact cmpFq_antisymm h

set_option exponentiation.threshold 400 in
theorem opsFq2_cmp_antisymm (a b : Fq2) (h : a ≠ b) : (opsFq2.cmp a b == 1) = !(opsFq2.cmp b a == 1) := by
  show (cmpFq2 a b == 1) = !(cmpFq2 b a == 1)
  exact cmpFq2_antisymm h

/-- compressed round trip, reduced to "y is ± the computed square root". -/
theorem decodeCanonical_encode_comp_of_root {F : Type} {o : FieldOps F} (ok : EncOK o)
    (hneg : ∀ a, o.neg (o.neg a) = a)
    (hcmp : ∀ a b : F, a ≠ b → ((o.cmp a b == 1) = !(o.cmp b a == 1)))
    (inSub onC : Pt F → Bool) (x y : F)
    (hy : y = o.sqrt (o.add (o.mul (o.mul x x) x) o.b) ∨ y = o.neg (o.sqrt (o.add (o.mul (o.mul x x) x) o.b)))
    (hc : onC (.aff x y) = true) (hs : inSub (.aff x y) = true) :
    decodeCanonical o inSub onC true (encode o true (.aff x y)) = some (.aff x y) :=
  decodeCanonical_of_decode
    (decode_unchecked_encode_aff_comp ok _ x y (fromX_selects x y (hneg _) hcmp hy)) hc hs

end Jedi.Impl

namespace Jedi.Impl

/-- the three flag bits of the first byte of an encoding say: compressed form / identity / sign of y. -/
theorem encode_flags {F : Type} {o : FieldOps F} (ok : EncOK o) (comp : Bool) (p : Pt F) :
    (((encode o comp p).headD 0).toNat &&& 128 ≠ 0 ↔ comp = true) ∧
    (((encode o comp p).headD 0).toNat &&& 64 ≠ 0 ↔ p = .inf) ∧
    (((encode o comp p).headD 0).toNat &&& 32 ≠ 0 ↔
      comp = true ∧ ∃ x y, p = .aff x y ∧ (o.cmp y (o.neg y) == 1) = true) := by
  show (firstByte _ &&& 128 ≠ 0 ↔ _) ∧ (firstByte _ &&& 64 ≠ 0 ↔ _) ∧ (firstByte _ &&& 32 ≠ 0 ↔ _)
  cases p with
  | inf =>
    rw [firstByte_encode_inf ok]
    cases comp <;> simp
  | aff x y =>
    obtain ⟨hA, hB, hC⟩ := flag_facts _ (ok.head_lt x)
    cases comp
    · rw [firstByte_encode_aff_unc ok]
      simp [hA.1, hA.2.1, hA.2.2.1]
    · rw [firstByte_encode_aff_comp ok]
      split
      · rename_i hg
        simp [hC.1, hC.2.1, hC.2.2.1]
        simpa using hg
      · rename_i hg
        simp [hB.1, hB.2.1, hB.2.2.1]
        simpa using hg

end Jedi.Impl

/-! ### instantiation data for G1 / G2 -/

namespace Jedi.Impl

theorem smul_inf {F : Type} [Add F] [Sub F] [Mul F] [Neg F] [Zero F] [One F] [Inv F] [DecidableEq F]
    (k : Nat) : Pt.smul k (Pt.inf : Pt F) = .inf := by
  induction k using Nat.strong_induction_on with
  | _ k ih =>
    cases k with
    | zero => rw [Pt.smul]
    | succ k =>
      rw [Pt.smul]
      simp only [ih ((k + 1) / 2) (by omega)]
      split <;> rfl

theorem inSubgroup_inf {F : Type} [Add F] [Sub F] [Mul F] [Neg F] [Zero F] [One F] [Inv F] [DecidableEq F] :
    inSubgroup (Pt.inf : Pt F) = true := by
  unfold inSubgroup; rw [smul_inf]; rfl

theorem onCurvePt_opsFq : onCurvePt opsFq = Pt.isOnCurve g1B := by
  funext p; cases p <;> rfl

theorem onCurvePt_opsFq2 : onCurvePt opsFq2 = Pt.isOnCurve g2B := by
  funext p; cases p <;> rfl

end Jedi.Impl
