/-
The fused `fpbase_384_multiply` of /repo/src/core/arch/aarch64/multiply.s (as regenerated into
`JediVerif/Gen/AsmA64.lean`, executed by the machine model of `JediVerif/Impl/A64.lean`): the full product in registers
(macro equations of `A64ProofsMul.lean`), the six Montgomery rounds and the twelve endings of the final comparison
(lemmas of `A64ProofsMont.lean`).  For every entry state satisfying AAPCS64, `inv·P ≡ −1 (mod 2^64)`, `2P ≤ 2^384` and
product `< P·2^384` the six result limbs are `< P` and `≡ product·2^{-384} (mod P)`.  `p` and `inv` are parked on the
stack during the multiplication.  All loads precede all stores: `res` may overlap the operands and `p` in any way.
This file: the twelve endings and the final theorem; the pieces of the common prefix and the arithmetic lemmas are in
`A64ProofsFpMulParts.lean`.
-/
import JediVerif.Proofs.A64ProofsFpMulParts

set_option linter.unusedSimpArgs false

namespace Jedi.A64
open Lean Meta Simp
open Jedi.Impl (val WF val_cons val_nil val_lt val_inj)
open Jedi.X86 (limbs limbs_six limbs_twelve limbs_length limbs_WF Hide Hide.mk Hide.out ea_toNat)
open Jedi.Gen.AsmA64

/-! ## the twelve endings -/

set_option maxHeartbeats 1600000 in
theorem fpmul_tail_hi5 (s : State) (pr pa pb pp inv : Word)
    (hr : Buf s pr 6 true) (ha : Buf s pa 6 false) (hb : Buf s pb 6 false) (hp : Buf s pp 6 false)
    (hstk : Stack s 6) (hrs : OffStack s 6 pr 6) (has : OffStack s 6 pa 6) (hbs : OffStack s 6 pb 6)
    (hps : OffStack s 6 pp 6) {a4 a5 p0 p1 p2 p3 p4 p5 l343 l367 : Word} {t240 t273 t306 t339 t342 t351 t356 t361 t365 t366 t371 t372 t374 t392 t393 t394 t395 t396 t397 : ArithRes}
    (ht375 : t375 = addWithCarry t374.val (~~~p5) true) (ht392 : t392 = addWithCarry t351.val (~~~p0) true)
    (ht393 : t393 = addWithCarry t356.val (~~~p1) t392.c) (ht394 : t394 = addWithCarry t361.val (~~~p2) t393.c)
    (ht395 : t395 = addWithCarry t366.val (~~~p3) t394.c) (ht396 : t396 = addWithCarry t371.val (~~~p4) t395.c)
    (ht397 : t397 = addWithCarry t374.val (~~~p5) t396.c) (hb376 : (t375.c && !t375.z) = true) :
    run embedded_pairing_core_arch_aarch64_fpbase_384_multiply ({ x0 := pr, x1 := t342.val, x2 := l343, x3 := inv, x4 := t365.val, x5 := l367, x6 := a4, x7 := a5, x8 := s.x8, x9 := p0, x10 := p1, x11 := p2, x12 := p3, x13 := p4, x14 := p5, x15 := t240.val, x16 := s.x16, x17 := s.x17, x18 := s.x18, x19 := t273.val, x20 := t306.val, x21 := t339.val, x22 := t372.val, x23 := t351.val, x24 := t356.val, x25 := t361.val, x26 := t366.val, x27 := t371.val, x28 := t374.val, x29 := s.x29, x30 := s.x30, sp := s.sp - 16#64 - 16#64 - 16#64 - 16#64 - 16#64, nf := some t374.n, zf := some t374.z, cf := some t374.c, vf := some t374.v, mem := setMem (setMem (setMem (setMem (setMem (setMem (setMem (setMem (setMem (setMem (setMem (setMem (s.mem) (s.sp.toNat - 16) s.x19) (s.sp.toNat - 16 + 8) s.x20) (s.sp.toNat - 16 - 16) s.x21) (s.sp.toNat - 16 - 16 + 8) s.x22) (s.sp.toNat - 16 - 16 - 16) s.x23) (s.sp.toNat - 16 - 16 - 16 + 8) s.x24) (s.sp.toNat - 16 - 16 - 16 - 16) s.x25) (s.sp.toNat - 16 - 16 - 16 - 16 + 8) s.x26) (s.sp.toNat - 16 - 16 - 16 - 16 - 16) s.x27) (s.sp.toNat - 16 - 16 - 16 - 16 - 16 + 8) s.x28) (s.sp.toNat - 16 - 16 - 16 - 16 - 16 - 16) pp) (s.sp.toNat - 16 - 16 - 16 - 16 - 16 - 16 + 8) inv, readable := s.readable, writable := s.writable, pc := 375, status := .running } : State) 17
      = ({ x0 := pr + 48#64, x1 := t342.val, x2 := l343, x3 := inv, x4 := t365.val, x5 := l367, x6 := a4, x7 := a5, x8 := s.x8, x9 := p0, x10 := p1, x11 := p2, x12 := p3, x13 := p4, x14 := p5, x15 := t240.val, x16 := s.x16, x17 := s.x17, x18 := s.x18, x19 := s.x19, x20 := s.x20, x21 := s.x21, x22 := s.x22, x23 := s.x23, x24 := s.x24, x25 := s.x25, x26 := s.x26, x27 := s.x27, x28 := s.x28, x29 := s.x29, x30 := s.x30, sp := s.sp, nf := some t397.n, zf := some t397.z, cf := some t397.c, vf := some t397.v, mem := setMem (setMem (setMem (setMem (setMem (setMem (setMem (setMem (setMem (setMem (setMem (setMem (setMem (setMem (setMem (setMem (setMem (setMem (s.mem) (s.sp.toNat - 16) s.x19) (s.sp.toNat - 16 + 8) s.x20) (s.sp.toNat - 16 - 16) s.x21) (s.sp.toNat - 16 - 16 + 8) s.x22) (s.sp.toNat - 16 - 16 - 16) s.x23) (s.sp.toNat - 16 - 16 - 16 + 8) s.x24) (s.sp.toNat - 16 - 16 - 16 - 16) s.x25) (s.sp.toNat - 16 - 16 - 16 - 16 + 8) s.x26) (s.sp.toNat - 16 - 16 - 16 - 16 - 16) s.x27) (s.sp.toNat - 16 - 16 - 16 - 16 - 16 + 8) s.x28) (s.sp.toNat - 16 - 16 - 16 - 16 - 16 - 16) pp) (s.sp.toNat - 16 - 16 - 16 - 16 - 16 - 16 + 8) inv) pr.toNat t392.val) (pr.toNat + 8) t393.val) (pr.toNat + 16) t394.val) (pr.toNat + 24) t395.val) (pr.toNat + 32) t396.val) (pr.toNat + 40) t397.val, readable := s.readable, writable := s.writable, pc := s.x30.toNat, status := .halted } : State) := by
  obtain ⟨ra0, ra1, ra2, ra3, ra4, ra5⟩ := ha.r6
  obtain ⟨⟨alra0, alra1, alra2, alra3, alra4, alra5⟩, fra1, fra2, fra3, fra4, fra5⟩ := ha.addr6
  obtain ⟨rb0, rb1, rb2, rb3, rb4, rb5⟩ := hb.r6
  obtain ⟨⟨alrb0, alrb1, alrb2, alrb3, alrb4, alrb5⟩, frb1, frb2, frb3, frb4, frb5⟩ := hb.addr6
  obtain ⟨rp0, rp1, rp2, rp3, rp4, rp5⟩ := hp.r6
  obtain ⟨⟨alrp0, alrp1, alrp2, alrp3, alrp4, alrp5⟩, frp1, frp2, frp3, frp4, frp5⟩ := hp.addr6
  obtain ⟨rr0, rr1, rr2, rr3, rr4, rr5⟩ := hr.r6
  obtain ⟨wr0, wr1, wr2, wr3, wr4, wr5⟩ := hr.w6
  obtain ⟨⟨alrr0, alrr1, alrr2, alrr3, alrr4, alrr5⟩, frr1, frr2, frr3, frr4, frr5⟩ := hr.addr6
  have als0 := hstk.aligned
  obtain ⟨room1, als1, alq1a, alq1b, sr1a, sr1b, sw1a, sw1b⟩ := hstk.f1 (by omega)
  obtain ⟨room2, als2, alq2a, alq2b, sr2a, sr2b, sw2a, sw2b⟩ := hstk.f2 (by omega)
  obtain ⟨room3, als3, alq3a, alq3b, sr3a, sr3b, sw3a, sw3b⟩ := hstk.f3 (by omega)
  obtain ⟨room4, als4, alq4a, alq4b, sr4a, sr4b, sw4a, sw4b⟩ := hstk.f4 (by omega)
  obtain ⟨room5, als5, alq5a, alq5b, sr5a, sr5b, sw5a, sw5b⟩ := hstk.f5 (by omega)
  obtain ⟨room6, als6, alq6a, alq6b, sr6a, sr6b, sw6a, sw6b⟩ := hstk.f6 (by omega)
  replace hrs := Hide.mk (And.intro room6 hrs); replace has := Hide.mk (And.intro room6 has)
  replace hbs := Hide.mk (And.intro room6 hbs); replace hps := Hide.mk (And.intro room6 hps)
  simp only [OffStack] at hrs has hbs hps
  clear ha hb hp hr hstk
  a64_sym [← ht375, ← ht392, ← ht393, ← ht394, ← ht395, ← ht396, ← ht397, hb376]

set_option maxHeartbeats 1600000 in
set_option exponentiation.threshold 800 in
theorem fpmul_end_hi5 (s : State) (pr pa pb pp inv : Word) {a4 a5 p0 p1 p2 p3 p4 p5 l343 l367 : Word} {t240 t273 t306 t339 t342 t351 t356 t361 t365 t366 t371 t372 t374 t392 t393 t394 t395 t396 t397 : ArithRes} {T U : Nat}
    (hr : Buf s pr 6 true) (ha : Buf s pa 6 false) (hb : Buf s pb 6 false) (hp : Buf s pp 6 false)
    (hstk : Stack s 6) (hrs : OffStack s 6 pr 6) (has : OffStack s 6 pa 6) (hbs : OffStack s 6 pb 6)
    (hps : OffStack s 6 pp 6)
    (ht375 : t375 = addWithCarry t374.val (~~~p5) true) (ht392 : t392 = addWithCarry t351.val (~~~p0) true)
    (ht393 : t393 = addWithCarry t356.val (~~~p1) t392.c) (ht394 : t394 = addWithCarry t361.val (~~~p2) t393.c)
    (ht395 : t395 = addWithCarry t366.val (~~~p3) t394.c) (ht396 : t396 = addWithCarry t371.val (~~~p4) t395.c)
    (ht397 : t397 = addWithCarry t374.val (~~~p5) t396.c) (hb376 : (t375.c && !t375.z) = true)
    (hR2 : val (2 ^ 64) [t351.val.toNat, t356.val.toNat, t361.val.toNat, t366.val.toNat, t371.val.toNat, t374.val.toNat] < 2 * val (2 ^ 64) [p0.toNat, p1.toNat, p2.toNat, p3.toNat, p4.toNat, p5.toNat])
    (hRe : 2 ^ 384 * val (2 ^ 64) [t351.val.toNat, t356.val.toNat, t361.val.toNat, t366.val.toNat, t371.val.toNat, t374.val.toNat] = T + U * val (2 ^ 64) [p0.toNat, p1.toNat, p2.toNat, p3.toNat, p4.toNat, p5.toNat]) :
    ∃ s', run embedded_pairing_core_arch_aarch64_fpbase_384_multiply ({ x0 := pr, x1 := t342.val, x2 := l343, x3 := inv, x4 := t365.val, x5 := l367, x6 := a4, x7 := a5, x8 := s.x8, x9 := p0, x10 := p1, x11 := p2, x12 := p3, x13 := p4, x14 := p5, x15 := t240.val, x16 := s.x16, x17 := s.x17, x18 := s.x18, x19 := t273.val, x20 := t306.val, x21 := t339.val, x22 := t372.val, x23 := t351.val, x24 := t356.val, x25 := t361.val, x26 := t366.val, x27 := t371.val, x28 := t374.val, x29 := s.x29, x30 := s.x30, sp := s.sp - 16#64 - 16#64 - 16#64 - 16#64 - 16#64, nf := some t374.n, zf := some t374.z, cf := some t374.c, vf := some t374.v, mem := setMem (setMem (setMem (setMem (setMem (setMem (setMem (setMem (setMem (setMem (setMem (setMem (s.mem) (s.sp.toNat - 16) s.x19) (s.sp.toNat - 16 + 8) s.x20) (s.sp.toNat - 16 - 16) s.x21) (s.sp.toNat - 16 - 16 + 8) s.x22) (s.sp.toNat - 16 - 16 - 16) s.x23) (s.sp.toNat - 16 - 16 - 16 + 8) s.x24) (s.sp.toNat - 16 - 16 - 16 - 16) s.x25) (s.sp.toNat - 16 - 16 - 16 - 16 + 8) s.x26) (s.sp.toNat - 16 - 16 - 16 - 16 - 16) s.x27) (s.sp.toNat - 16 - 16 - 16 - 16 - 16 + 8) s.x28) (s.sp.toNat - 16 - 16 - 16 - 16 - 16 - 16) pp) (s.sp.toNat - 16 - 16 - 16 - 16 - 16 - 16 + 8) inv, readable := s.readable, writable := s.writable, pc := 375, status := .running } : State) 17 = s' ∧ Returned s s' ∧
      val (2 ^ 64) [(s'.mem pr.toNat).toNat, (s'.mem (pr.toNat + 8)).toNat, (s'.mem (pr.toNat + 16)).toNat, (s'.mem (pr.toNat + 24)).toNat, (s'.mem (pr.toNat + 32)).toNat, (s'.mem (pr.toNat + 40)).toNat] < val (2 ^ 64) [p0.toNat, p1.toNat, p2.toNat, p3.toNat, p4.toNat, p5.toNat] ∧
      (val (2 ^ 64) [(s'.mem pr.toNat).toNat, (s'.mem (pr.toNat + 8)).toNat, (s'.mem (pr.toNat + 16)).toNat, (s'.mem (pr.toNat + 24)).toNat, (s'.mem (pr.toNat + 32)).toNat, (s'.mem (pr.toNat + 40)).toNat] * 2 ^ 384) % val (2 ^ 64) [p0.toNat, p1.toNat, p2.toNat, p3.toNat, p4.toNat, p5.toNat] = T % val (2 ^ 64) [p0.toNat, p1.toNat, p2.toNat, p3.toNat, p4.toNat, p5.toNat] ∧
      (∀ k, ¬(pr.toNat ≤ k ∧ k < pr.toNat + 48) → ¬(s.sp.toNat - 96 ≤ k ∧ k < s.sp.toNat) → s'.mem k = s.mem k) := by
  have ir0 := (t351.val).isLt; have ip0 := (p0).isLt
  have ir1 := (t356.val).isLt; have ip1 := (p1).isLt
  have ir2 := (t361.val).isLt; have ip2 := (p2).isLt
  have ir3 := (t366.val).isLt; have ip3 := (p3).isLt
  have ir4 := (t371.val).isLt; have ip4 := (p4).isLt
  have ir5 := (t374.val).isLt; have ip5 := (p5).isLt
  have c5 := cmp_hi ht375 hb376
  have hle : val (2 ^ 64) [p0.toNat, p1.toNat, p2.toNat, p3.toNat, p4.toNat, p5.toNat] ≤ val (2 ^ 64) [t351.val.toNat, t356.val.toNat, t361.val.toNat, t366.val.toNat, t371.val.toNat, t374.val.toNat] := by
    simp only [val_cons, val_nil]
    clear * - c5 ir0 ip0 ir1 ip1 ir2 ip2 ir3 ip3 ir4 ip4 ir5 ip5
    omega
  have hs := sub6_val ht392 ht393 ht394 ht395 ht396 ht397
  simp only [Bool.not_true, Bool.toNat_false, Nat.add_zero] at hs
  have hres := X86.mont_result hR2 hRe (Or.inr (sub_no_borrow hs hle (X86.val6_lt t392.val t393.val t394.val t395.val t396.val t397.val)))
  have hq := fpmul_tail_hi5 s pr pa pb pp inv hr ha hb hp hstk hrs has hbs hps (t240 := t240) (t273 := t273) (t306 := t306) (t339 := t339) (t342 := t342) (t351 := t351) (t356 := t356) (t361 := t361) (t365 := t365) (t366 := t366) (t371 := t371) (t372 := t372) (t374 := t374) (t392 := t392) (t393 := t393) (t394 := t394) (t395 := t395) (t396 := t396) (t397 := t397) (a4 := a4) (a5 := a5) (p0 := p0) (p1 := p1) (p2 := p2) (p3 := p3) (p4 := p4) (p5 := p5) (l343 := l343) (l367 := l367) ht375 ht392 ht393 ht394 ht395 ht396 ht397 hb376
  obtain ⟨rr0, rr1, rr2, rr3, rr4, rr5⟩ := hr.r6
  obtain ⟨⟨alrr0, alrr1, alrr2, alrr3, alrr4, alrr5⟩, frr1, frr2, frr3, frr4, frr5⟩ := hr.addr6
  have room6 := (hstk.f6 (by omega)).1
  replace hrs := Hide.mk (And.intro room6 hrs)
  simp only [OffStack] at hrs
  refine ⟨_, hq, ⟨rfl, rfl, rfl, rfl, rfl, rfl, rfl, rfl, rfl, rfl, rfl, rfl, rfl, rfl, rfl⟩, ?_, ?_, ?_⟩
  · simp only; a64_mem; exact hres.1
  · simp only; a64_mem; exact hres.2
  · intro k hk1 hk2
    simp (disch := (clear * - hk1 hk2 room6; omega)) only [setMem_ne]

set_option maxHeartbeats 1600000 in
theorem fpmul_tail_lo5 (s : State) (pr pa pb pp inv : Word)
    (hr : Buf s pr 6 true) (ha : Buf s pa 6 false) (hb : Buf s pb 6 false) (hp : Buf s pp 6 false)
    (hstk : Stack s 6) (hrs : OffStack s 6 pr 6) (has : OffStack s 6 pa 6) (hbs : OffStack s 6 pb 6)
    (hps : OffStack s 6 pp 6) {a4 a5 p0 p1 p2 p3 p4 p5 l343 l367 : Word} {t240 t273 t306 t339 t342 t351 t356 t361 t365 t366 t371 t372 t374 t375 : ArithRes}
    (ht375 : t375 = addWithCarry t374.val (~~~p5) true) (hb376 : (t375.c && !t375.z) = false) (hb377 : (!t375.c) = true) :
    run embedded_pairing_core_arch_aarch64_fpbase_384_multiply ({ x0 := pr, x1 := t342.val, x2 := l343, x3 := inv, x4 := t365.val, x5 := l367, x6 := a4, x7 := a5, x8 := s.x8, x9 := p0, x10 := p1, x11 := p2, x12 := p3, x13 := p4, x14 := p5, x15 := t240.val, x16 := s.x16, x17 := s.x17, x18 := s.x18, x19 := t273.val, x20 := t306.val, x21 := t339.val, x22 := t372.val, x23 := t351.val, x24 := t356.val, x25 := t361.val, x26 := t366.val, x27 := t371.val, x28 := t374.val, x29 := s.x29, x30 := s.x30, sp := s.sp - 16#64 - 16#64 - 16#64 - 16#64 - 16#64, nf := some t374.n, zf := some t374.z, cf := some t374.c, vf := some t374.v, mem := setMem (setMem (setMem (setMem (setMem (setMem (setMem (setMem (setMem (setMem (setMem (setMem (s.mem) (s.sp.toNat - 16) s.x19) (s.sp.toNat - 16 + 8) s.x20) (s.sp.toNat - 16 - 16) s.x21) (s.sp.toNat - 16 - 16 + 8) s.x22) (s.sp.toNat - 16 - 16 - 16) s.x23) (s.sp.toNat - 16 - 16 - 16 + 8) s.x24) (s.sp.toNat - 16 - 16 - 16 - 16) s.x25) (s.sp.toNat - 16 - 16 - 16 - 16 + 8) s.x26) (s.sp.toNat - 16 - 16 - 16 - 16 - 16) s.x27) (s.sp.toNat - 16 - 16 - 16 - 16 - 16 + 8) s.x28) (s.sp.toNat - 16 - 16 - 16 - 16 - 16 - 16) pp) (s.sp.toNat - 16 - 16 - 16 - 16 - 16 - 16 + 8) inv, readable := s.readable, writable := s.writable, pc := 375, status := .running } : State) 12
      = ({ x0 := pr + 48#64, x1 := t342.val, x2 := l343, x3 := inv, x4 := t365.val, x5 := l367, x6 := a4, x7 := a5, x8 := s.x8, x9 := p0, x10 := p1, x11 := p2, x12 := p3, x13 := p4, x14 := p5, x15 := t240.val, x16 := s.x16, x17 := s.x17, x18 := s.x18, x19 := s.x19, x20 := s.x20, x21 := s.x21, x22 := s.x22, x23 := s.x23, x24 := s.x24, x25 := s.x25, x26 := s.x26, x27 := s.x27, x28 := s.x28, x29 := s.x29, x30 := s.x30, sp := s.sp, nf := some t375.n, zf := some t375.z, cf := some t375.c, vf := some t375.v, mem := setMem (setMem (setMem (setMem (setMem (setMem (setMem (setMem (setMem (setMem (setMem (setMem (setMem (setMem (setMem (setMem (setMem (setMem (s.mem) (s.sp.toNat - 16) s.x19) (s.sp.toNat - 16 + 8) s.x20) (s.sp.toNat - 16 - 16) s.x21) (s.sp.toNat - 16 - 16 + 8) s.x22) (s.sp.toNat - 16 - 16 - 16) s.x23) (s.sp.toNat - 16 - 16 - 16 + 8) s.x24) (s.sp.toNat - 16 - 16 - 16 - 16) s.x25) (s.sp.toNat - 16 - 16 - 16 - 16 + 8) s.x26) (s.sp.toNat - 16 - 16 - 16 - 16 - 16) s.x27) (s.sp.toNat - 16 - 16 - 16 - 16 - 16 + 8) s.x28) (s.sp.toNat - 16 - 16 - 16 - 16 - 16 - 16) pp) (s.sp.toNat - 16 - 16 - 16 - 16 - 16 - 16 + 8) inv) pr.toNat t351.val) (pr.toNat + 8) t356.val) (pr.toNat + 16) t361.val) (pr.toNat + 24) t366.val) (pr.toNat + 32) t371.val) (pr.toNat + 40) t374.val, readable := s.readable, writable := s.writable, pc := s.x30.toNat, status := .halted } : State) := by
  obtain ⟨ra0, ra1, ra2, ra3, ra4, ra5⟩ := ha.r6
  obtain ⟨⟨alra0, alra1, alra2, alra3, alra4, alra5⟩, fra1, fra2, fra3, fra4, fra5⟩ := ha.addr6
  obtain ⟨rb0, rb1, rb2, rb3, rb4, rb5⟩ := hb.r6
  obtain ⟨⟨alrb0, alrb1, alrb2, alrb3, alrb4, alrb5⟩, frb1, frb2, frb3, frb4, frb5⟩ := hb.addr6
  obtain ⟨rp0, rp1, rp2, rp3, rp4, rp5⟩ := hp.r6
  obtain ⟨⟨alrp0, alrp1, alrp2, alrp3, alrp4, alrp5⟩, frp1, frp2, frp3, frp4, frp5⟩ := hp.addr6
  obtain ⟨rr0, rr1, rr2, rr3, rr4, rr5⟩ := hr.r6
  obtain ⟨wr0, wr1, wr2, wr3, wr4, wr5⟩ := hr.w6
  obtain ⟨⟨alrr0, alrr1, alrr2, alrr3, alrr4, alrr5⟩, frr1, frr2, frr3, frr4, frr5⟩ := hr.addr6
  have als0 := hstk.aligned
  obtain ⟨room1, als1, alq1a, alq1b, sr1a, sr1b, sw1a, sw1b⟩ := hstk.f1 (by omega)
  obtain ⟨room2, als2, alq2a, alq2b, sr2a, sr2b, sw2a, sw2b⟩ := hstk.f2 (by omega)
  obtain ⟨room3, als3, alq3a, alq3b, sr3a, sr3b, sw3a, sw3b⟩ := hstk.f3 (by omega)
  obtain ⟨room4, als4, alq4a, alq4b, sr4a, sr4b, sw4a, sw4b⟩ := hstk.f4 (by omega)
  obtain ⟨room5, als5, alq5a, alq5b, sr5a, sr5b, sw5a, sw5b⟩ := hstk.f5 (by omega)
  obtain ⟨room6, als6, alq6a, alq6b, sr6a, sr6b, sw6a, sw6b⟩ := hstk.f6 (by omega)
  replace hrs := Hide.mk (And.intro room6 hrs); replace has := Hide.mk (And.intro room6 has)
  replace hbs := Hide.mk (And.intro room6 hbs); replace hps := Hide.mk (And.intro room6 hps)
  simp only [OffStack] at hrs has hbs hps
  clear ha hb hp hr hstk
  a64_sym [← ht375, hb376, hb377]

set_option maxHeartbeats 1600000 in
set_option exponentiation.threshold 800 in
theorem fpmul_end_lo5 (s : State) (pr pa pb pp inv : Word) {a4 a5 p0 p1 p2 p3 p4 p5 l343 l367 : Word} {t240 t273 t306 t339 t342 t351 t356 t361 t365 t366 t371 t372 t374 t375 : ArithRes} {T U : Nat}
    (hr : Buf s pr 6 true) (ha : Buf s pa 6 false) (hb : Buf s pb 6 false) (hp : Buf s pp 6 false)
    (hstk : Stack s 6) (hrs : OffStack s 6 pr 6) (has : OffStack s 6 pa 6) (hbs : OffStack s 6 pb 6)
    (hps : OffStack s 6 pp 6)
    (ht375 : t375 = addWithCarry t374.val (~~~p5) true) (hb376 : (t375.c && !t375.z) = false) (hb377 : (!t375.c) = true)
    (hR2 : val (2 ^ 64) [t351.val.toNat, t356.val.toNat, t361.val.toNat, t366.val.toNat, t371.val.toNat, t374.val.toNat] < 2 * val (2 ^ 64) [p0.toNat, p1.toNat, p2.toNat, p3.toNat, p4.toNat, p5.toNat])
    (hRe : 2 ^ 384 * val (2 ^ 64) [t351.val.toNat, t356.val.toNat, t361.val.toNat, t366.val.toNat, t371.val.toNat, t374.val.toNat] = T + U * val (2 ^ 64) [p0.toNat, p1.toNat, p2.toNat, p3.toNat, p4.toNat, p5.toNat]) :
    ∃ s', run embedded_pairing_core_arch_aarch64_fpbase_384_multiply ({ x0 := pr, x1 := t342.val, x2 := l343, x3 := inv, x4 := t365.val, x5 := l367, x6 := a4, x7 := a5, x8 := s.x8, x9 := p0, x10 := p1, x11 := p2, x12 := p3, x13 := p4, x14 := p5, x15 := t240.val, x16 := s.x16, x17 := s.x17, x18 := s.x18, x19 := t273.val, x20 := t306.val, x21 := t339.val, x22 := t372.val, x23 := t351.val, x24 := t356.val, x25 := t361.val, x26 := t366.val, x27 := t371.val, x28 := t374.val, x29 := s.x29, x30 := s.x30, sp := s.sp - 16#64 - 16#64 - 16#64 - 16#64 - 16#64, nf := some t374.n, zf := some t374.z, cf := some t374.c, vf := some t374.v, mem := setMem (setMem (setMem (setMem (setMem (setMem (setMem (setMem (setMem (setMem (setMem (setMem (s.mem) (s.sp.toNat - 16) s.x19) (s.sp.toNat - 16 + 8) s.x20) (s.sp.toNat - 16 - 16) s.x21) (s.sp.toNat - 16 - 16 + 8) s.x22) (s.sp.toNat - 16 - 16 - 16) s.x23) (s.sp.toNat - 16 - 16 - 16 + 8) s.x24) (s.sp.toNat - 16 - 16 - 16 - 16) s.x25) (s.sp.toNat - 16 - 16 - 16 - 16 + 8) s.x26) (s.sp.toNat - 16 - 16 - 16 - 16 - 16) s.x27) (s.sp.toNat - 16 - 16 - 16 - 16 - 16 + 8) s.x28) (s.sp.toNat - 16 - 16 - 16 - 16 - 16 - 16) pp) (s.sp.toNat - 16 - 16 - 16 - 16 - 16 - 16 + 8) inv, readable := s.readable, writable := s.writable, pc := 375, status := .running } : State) 12 = s' ∧ Returned s s' ∧
      val (2 ^ 64) [(s'.mem pr.toNat).toNat, (s'.mem (pr.toNat + 8)).toNat, (s'.mem (pr.toNat + 16)).toNat, (s'.mem (pr.toNat + 24)).toNat, (s'.mem (pr.toNat + 32)).toNat, (s'.mem (pr.toNat + 40)).toNat] < val (2 ^ 64) [p0.toNat, p1.toNat, p2.toNat, p3.toNat, p4.toNat, p5.toNat] ∧
      (val (2 ^ 64) [(s'.mem pr.toNat).toNat, (s'.mem (pr.toNat + 8)).toNat, (s'.mem (pr.toNat + 16)).toNat, (s'.mem (pr.toNat + 24)).toNat, (s'.mem (pr.toNat + 32)).toNat, (s'.mem (pr.toNat + 40)).toNat] * 2 ^ 384) % val (2 ^ 64) [p0.toNat, p1.toNat, p2.toNat, p3.toNat, p4.toNat, p5.toNat] = T % val (2 ^ 64) [p0.toNat, p1.toNat, p2.toNat, p3.toNat, p4.toNat, p5.toNat] ∧
      (∀ k, ¬(pr.toNat ≤ k ∧ k < pr.toNat + 48) → ¬(s.sp.toNat - 96 ≤ k ∧ k < s.sp.toNat) → s'.mem k = s.mem k) := by
  have ir0 := (t351.val).isLt; have ip0 := (p0).isLt
  have ir1 := (t356.val).isLt; have ip1 := (p1).isLt
  have ir2 := (t361.val).isLt; have ip2 := (p2).isLt
  have ir3 := (t366.val).isLt; have ip3 := (p3).isLt
  have ir4 := (t371.val).isLt; have ip4 := (p4).isLt
  have ir5 := (t374.val).isLt; have ip5 := (p5).isLt
  have c5 := cmp_lo ht375 hb377
  have hlt : val (2 ^ 64) [t351.val.toNat, t356.val.toNat, t361.val.toNat, t366.val.toNat, t371.val.toNat, t374.val.toNat] < val (2 ^ 64) [p0.toNat, p1.toNat, p2.toNat, p3.toNat, p4.toNat, p5.toNat] := by
    simp only [val_cons, val_nil]
    clear * - c5 ir0 ip0 ir1 ip1 ir2 ip2 ir3 ip3 ir4 ip4 ir5 ip5
    omega
  have hres := X86.mont_result hR2 hRe (Or.inl ⟨rfl, hlt⟩)
  have hq := fpmul_tail_lo5 s pr pa pb pp inv hr ha hb hp hstk hrs has hbs hps (t240 := t240) (t273 := t273) (t306 := t306) (t339 := t339) (t342 := t342) (t351 := t351) (t356 := t356) (t361 := t361) (t365 := t365) (t366 := t366) (t371 := t371) (t372 := t372) (t374 := t374) (t375 := t375) (a4 := a4) (a5 := a5) (p0 := p0) (p1 := p1) (p2 := p2) (p3 := p3) (p4 := p4) (p5 := p5) (l343 := l343) (l367 := l367) ht375 hb376 hb377
  obtain ⟨rr0, rr1, rr2, rr3, rr4, rr5⟩ := hr.r6
  obtain ⟨⟨alrr0, alrr1, alrr2, alrr3, alrr4, alrr5⟩, frr1, frr2, frr3, frr4, frr5⟩ := hr.addr6
  have room6 := (hstk.f6 (by omega)).1
  replace hrs := Hide.mk (And.intro room6 hrs)
  simp only [OffStack] at hrs
  refine ⟨_, hq, ⟨rfl, rfl, rfl, rfl, rfl, rfl, rfl, rfl, rfl, rfl, rfl, rfl, rfl, rfl, rfl⟩, ?_, ?_, ?_⟩
  · simp only; a64_mem; exact hres.1
  · simp only; a64_mem; exact hres.2
  · intro k hk1 hk2
    simp (disch := (clear * - hk1 hk2 room6; omega)) only [setMem_ne]

set_option maxHeartbeats 1600000 in
theorem fpmul_tail_hi4 (s : State) (pr pa pb pp inv : Word)
    (hr : Buf s pr 6 true) (ha : Buf s pa 6 false) (hb : Buf s pb 6 false) (hp : Buf s pp 6 false)
    (hstk : Stack s 6) (hrs : OffStack s 6 pr 6) (has : OffStack s 6 pa 6) (hbs : OffStack s 6 pb 6)
    (hps : OffStack s 6 pp 6) {a4 a5 p0 p1 p2 p3 p4 p5 l343 l367 : Word} {t240 t273 t306 t339 t342 t351 t356 t361 t365 t366 t371 t372 t374 t392 t393 t394 t395 t396 t397 : ArithRes}
    (ht375 : t375 = addWithCarry t374.val (~~~p5) true) (ht378 : t378 = addWithCarry t371.val (~~~p4) true)
    (ht392 : t392 = addWithCarry t351.val (~~~p0) true) (ht393 : t393 = addWithCarry t356.val (~~~p1) t392.c)
    (ht394 : t394 = addWithCarry t361.val (~~~p2) t393.c) (ht395 : t395 = addWithCarry t366.val (~~~p3) t394.c)
    (ht396 : t396 = addWithCarry t371.val (~~~p4) t395.c) (ht397 : t397 = addWithCarry t374.val (~~~p5) t396.c)
    (hb376 : (t375.c && !t375.z) = false) (hb377 : (!t375.c) = false) (hb379 : (t378.c && !t378.z) = true) :
    run embedded_pairing_core_arch_aarch64_fpbase_384_multiply ({ x0 := pr, x1 := t342.val, x2 := l343, x3 := inv, x4 := t365.val, x5 := l367, x6 := a4, x7 := a5, x8 := s.x8, x9 := p0, x10 := p1, x11 := p2, x12 := p3, x13 := p4, x14 := p5, x15 := t240.val, x16 := s.x16, x17 := s.x17, x18 := s.x18, x19 := t273.val, x20 := t306.val, x21 := t339.val, x22 := t372.val, x23 := t351.val, x24 := t356.val, x25 := t361.val, x26 := t366.val, x27 := t371.val, x28 := t374.val, x29 := s.x29, x30 := s.x30, sp := s.sp - 16#64 - 16#64 - 16#64 - 16#64 - 16#64, nf := some t374.n, zf := some t374.z, cf := some t374.c, vf := some t374.v, mem := setMem (setMem (setMem (setMem (setMem (setMem (setMem (setMem (setMem (setMem (setMem (setMem (s.mem) (s.sp.toNat - 16) s.x19) (s.sp.toNat - 16 + 8) s.x20) (s.sp.toNat - 16 - 16) s.x21) (s.sp.toNat - 16 - 16 + 8) s.x22) (s.sp.toNat - 16 - 16 - 16) s.x23) (s.sp.toNat - 16 - 16 - 16 + 8) s.x24) (s.sp.toNat - 16 - 16 - 16 - 16) s.x25) (s.sp.toNat - 16 - 16 - 16 - 16 + 8) s.x26) (s.sp.toNat - 16 - 16 - 16 - 16 - 16) s.x27) (s.sp.toNat - 16 - 16 - 16 - 16 - 16 + 8) s.x28) (s.sp.toNat - 16 - 16 - 16 - 16 - 16 - 16) pp) (s.sp.toNat - 16 - 16 - 16 - 16 - 16 - 16 + 8) inv, readable := s.readable, writable := s.writable, pc := 375, status := .running } : State) 20
      = ({ x0 := pr + 48#64, x1 := t342.val, x2 := l343, x3 := inv, x4 := t365.val, x5 := l367, x6 := a4, x7 := a5, x8 := s.x8, x9 := p0, x10 := p1, x11 := p2, x12 := p3, x13 := p4, x14 := p5, x15 := t240.val, x16 := s.x16, x17 := s.x17, x18 := s.x18, x19 := s.x19, x20 := s.x20, x21 := s.x21, x22 := s.x22, x23 := s.x23, x24 := s.x24, x25 := s.x25, x26 := s.x26, x27 := s.x27, x28 := s.x28, x29 := s.x29, x30 := s.x30, sp := s.sp, nf := some t397.n, zf := some t397.z, cf := some t397.c, vf := some t397.v, mem := setMem (setMem (setMem (setMem (setMem (setMem (setMem (setMem (setMem (setMem (setMem (setMem (setMem (setMem (setMem (setMem (setMem (setMem (s.mem) (s.sp.toNat - 16) s.x19) (s.sp.toNat - 16 + 8) s.x20) (s.sp.toNat - 16 - 16) s.x21) (s.sp.toNat - 16 - 16 + 8) s.x22) (s.sp.toNat - 16 - 16 - 16) s.x23) (s.sp.toNat - 16 - 16 - 16 + 8) s.x24) (s.sp.toNat - 16 - 16 - 16 - 16) s.x25) (s.sp.toNat - 16 - 16 - 16 - 16 + 8) s.x26) (s.sp.toNat - 16 - 16 - 16 - 16 - 16) s.x27) (s.sp.toNat - 16 - 16 - 16 - 16 - 16 + 8) s.x28) (s.sp.toNat - 16 - 16 - 16 - 16 - 16 - 16) pp) (s.sp.toNat - 16 - 16 - 16 - 16 - 16 - 16 + 8) inv) pr.toNat t392.val) (pr.toNat + 8) t393.val) (pr.toNat + 16) t394.val) (pr.toNat + 24) t395.val) (pr.toNat + 32) t396.val) (pr.toNat + 40) t397.val, readable := s.readable, writable := s.writable, pc := s.x30.toNat, status := .halted } : State) := by
  obtain ⟨ra0, ra1, ra2, ra3, ra4, ra5⟩ := ha.r6
  obtain ⟨⟨alra0, alra1, alra2, alra3, alra4, alra5⟩, fra1, fra2, fra3, fra4, fra5⟩ := ha.addr6
  obtain ⟨rb0, rb1, rb2, rb3, rb4, rb5⟩ := hb.r6
  obtain ⟨⟨alrb0, alrb1, alrb2, alrb3, alrb4, alrb5⟩, frb1, frb2, frb3, frb4, frb5⟩ := hb.addr6
  obtain ⟨rp0, rp1, rp2, rp3, rp4, rp5⟩ := hp.r6
  obtain ⟨⟨alrp0, alrp1, alrp2, alrp3, alrp4, alrp5⟩, frp1, frp2, frp3, frp4, frp5⟩ := hp.addr6
  obtain ⟨rr0, rr1, rr2, rr3, rr4, rr5⟩ := hr.r6
  obtain ⟨wr0, wr1, wr2, wr3, wr4, wr5⟩ := hr.w6
  obtain ⟨⟨alrr0, alrr1, alrr2, alrr3, alrr4, alrr5⟩, frr1, frr2, frr3, frr4, frr5⟩ := hr.addr6
  have als0 := hstk.aligned
  obtain ⟨room1, als1, alq1a, alq1b, sr1a, sr1b, sw1a, sw1b⟩ := hstk.f1 (by omega)
  obtain ⟨room2, als2, alq2a, alq2b, sr2a, sr2b, sw2a, sw2b⟩ := hstk.f2 (by omega)
  obtain ⟨room3, als3, alq3a, alq3b, sr3a, sr3b, sw3a, sw3b⟩ := hstk.f3 (by omega)
  obtain ⟨room4, als4, alq4a, alq4b, sr4a, sr4b, sw4a, sw4b⟩ := hstk.f4 (by omega)
  obtain ⟨room5, als5, alq5a, alq5b, sr5a, sr5b, sw5a, sw5b⟩ := hstk.f5 (by omega)
  obtain ⟨room6, als6, alq6a, alq6b, sr6a, sr6b, sw6a, sw6b⟩ := hstk.f6 (by omega)
  replace hrs := Hide.mk (And.intro room6 hrs); replace has := Hide.mk (And.intro room6 has)
  replace hbs := Hide.mk (And.intro room6 hbs); replace hps := Hide.mk (And.intro room6 hps)
  simp only [OffStack] at hrs has hbs hps
  clear ha hb hp hr hstk
  a64_sym [← ht375, ← ht378, ← ht392, ← ht393, ← ht394, ← ht395, ← ht396, ← ht397, hb376, hb377, hb379]

set_option maxHeartbeats 1600000 in
set_option exponentiation.threshold 800 in
theorem fpmul_end_hi4 (s : State) (pr pa pb pp inv : Word) {a4 a5 p0 p1 p2 p3 p4 p5 l343 l367 : Word} {t240 t273 t306 t339 t342 t351 t356 t361 t365 t366 t371 t372 t374 t392 t393 t394 t395 t396 t397 : ArithRes} {T U : Nat}
    (hr : Buf s pr 6 true) (ha : Buf s pa 6 false) (hb : Buf s pb 6 false) (hp : Buf s pp 6 false)
    (hstk : Stack s 6) (hrs : OffStack s 6 pr 6) (has : OffStack s 6 pa 6) (hbs : OffStack s 6 pb 6)
    (hps : OffStack s 6 pp 6)
    (ht375 : t375 = addWithCarry t374.val (~~~p5) true) (ht378 : t378 = addWithCarry t371.val (~~~p4) true)
    (ht392 : t392 = addWithCarry t351.val (~~~p0) true) (ht393 : t393 = addWithCarry t356.val (~~~p1) t392.c)
    (ht394 : t394 = addWithCarry t361.val (~~~p2) t393.c) (ht395 : t395 = addWithCarry t366.val (~~~p3) t394.c)
    (ht396 : t396 = addWithCarry t371.val (~~~p4) t395.c) (ht397 : t397 = addWithCarry t374.val (~~~p5) t396.c)
    (hb376 : (t375.c && !t375.z) = false) (hb377 : (!t375.c) = false) (hb379 : (t378.c && !t378.z) = true)
    (hR2 : val (2 ^ 64) [t351.val.toNat, t356.val.toNat, t361.val.toNat, t366.val.toNat, t371.val.toNat, t374.val.toNat] < 2 * val (2 ^ 64) [p0.toNat, p1.toNat, p2.toNat, p3.toNat, p4.toNat, p5.toNat])
    (hRe : 2 ^ 384 * val (2 ^ 64) [t351.val.toNat, t356.val.toNat, t361.val.toNat, t366.val.toNat, t371.val.toNat, t374.val.toNat] = T + U * val (2 ^ 64) [p0.toNat, p1.toNat, p2.toNat, p3.toNat, p4.toNat, p5.toNat]) :
    ∃ s', run embedded_pairing_core_arch_aarch64_fpbase_384_multiply ({ x0 := pr, x1 := t342.val, x2 := l343, x3 := inv, x4 := t365.val, x5 := l367, x6 := a4, x7 := a5, x8 := s.x8, x9 := p0, x10 := p1, x11 := p2, x12 := p3, x13 := p4, x14 := p5, x15 := t240.val, x16 := s.x16, x17 := s.x17, x18 := s.x18, x19 := t273.val, x20 := t306.val, x21 := t339.val, x22 := t372.val, x23 := t351.val, x24 := t356.val, x25 := t361.val, x26 := t366.val, x27 := t371.val, x28 := t374.val, x29 := s.x29, x30 := s.x30, sp := s.sp - 16#64 - 16#64 - 16#64 - 16#64 - 16#64, nf := some t374.n, zf := some t374.z, cf := some t374.c, vf := some t374.v, mem := setMem (setMem (setMem (setMem (setMem (setMem (setMem (setMem (setMem (setMem (setMem (setMem (s.mem) (s.sp.toNat - 16) s.x19) (s.sp.toNat - 16 + 8) s.x20) (s.sp.toNat - 16 - 16) s.x21) (s.sp.toNat - 16 - 16 + 8) s.x22) (s.sp.toNat - 16 - 16 - 16) s.x23) (s.sp.toNat - 16 - 16 - 16 + 8) s.x24) (s.sp.toNat - 16 - 16 - 16 - 16) s.x25) (s.sp.toNat - 16 - 16 - 16 - 16 + 8) s.x26) (s.sp.toNat - 16 - 16 - 16 - 16 - 16) s.x27) (s.sp.toNat - 16 - 16 - 16 - 16 - 16 + 8) s.x28) (s.sp.toNat - 16 - 16 - 16 - 16 - 16 - 16) pp) (s.sp.toNat - 16 - 16 - 16 - 16 - 16 - 16 + 8) inv, readable := s.readable, writable := s.writable, pc := 375, status := .running } : State) 20 = s' ∧ Returned s s' ∧
      val (2 ^ 64) [(s'.mem pr.toNat).toNat, (s'.mem (pr.toNat + 8)).toNat, (s'.mem (pr.toNat + 16)).toNat, (s'.mem (pr.toNat + 24)).toNat, (s'.mem (pr.toNat + 32)).toNat, (s'.mem (pr.toNat + 40)).toNat] < val (2 ^ 64) [p0.toNat, p1.toNat, p2.toNat, p3.toNat, p4.toNat, p5.toNat] ∧
      (val (2 ^ 64) [(s'.mem pr.toNat).toNat, (s'.mem (pr.toNat + 8)).toNat, (s'.mem (pr.toNat + 16)).toNat, (s'.mem (pr.toNat + 24)).toNat, (s'.mem (pr.toNat + 32)).toNat, (s'.mem (pr.toNat + 40)).toNat] * 2 ^ 384) % val (2 ^ 64) [p0.toNat, p1.toNat, p2.toNat, p3.toNat, p4.toNat, p5.toNat] = T % val (2 ^ 64) [p0.toNat, p1.toNat, p2.toNat, p3.toNat, p4.toNat, p5.toNat] ∧
      (∀ k, ¬(pr.toNat ≤ k ∧ k < pr.toNat + 48) → ¬(s.sp.toNat - 96 ≤ k ∧ k < s.sp.toNat) → s'.mem k = s.mem k) := by
  have ir0 := (t351.val).isLt; have ip0 := (p0).isLt
  have ir1 := (t356.val).isLt; have ip1 := (p1).isLt
  have ir2 := (t361.val).isLt; have ip2 := (p2).isLt
  have ir3 := (t366.val).isLt; have ip3 := (p3).isLt
  have ir4 := (t371.val).isLt; have ip4 := (p4).isLt
  have ir5 := (t374.val).isLt; have ip5 := (p5).isLt
  have c5 := cmp_eq ht375 hb376 hb377
  have c4 := cmp_hi ht378 hb379
  have hle : val (2 ^ 64) [p0.toNat, p1.toNat, p2.toNat, p3.toNat, p4.toNat, p5.toNat] ≤ val (2 ^ 64) [t351.val.toNat, t356.val.toNat, t361.val.toNat, t366.val.toNat, t371.val.toNat, t374.val.toNat] := by
    simp only [val_cons, val_nil]
    clear * - c5 c4 ir0 ip0 ir1 ip1 ir2 ip2 ir3 ip3 ir4 ip4 ir5 ip5
    omega
  have hs := sub6_val ht392 ht393 ht394 ht395 ht396 ht397
  simp only [Bool.not_true, Bool.toNat_false, Nat.add_zero] at hs
  have hres := X86.mont_result hR2 hRe (Or.inr (sub_no_borrow hs hle (X86.val6_lt t392.val t393.val t394.val t395.val t396.val t397.val)))
  have hq := fpmul_tail_hi4 s pr pa pb pp inv hr ha hb hp hstk hrs has hbs hps (t240 := t240) (t273 := t273) (t306 := t306) (t339 := t339) (t342 := t342) (t351 := t351) (t356 := t356) (t361 := t361) (t365 := t365) (t366 := t366) (t371 := t371) (t372 := t372) (t374 := t374) (t392 := t392) (t393 := t393) (t394 := t394) (t395 := t395) (t396 := t396) (t397 := t397) (a4 := a4) (a5 := a5) (p0 := p0) (p1 := p1) (p2 := p2) (p3 := p3) (p4 := p4) (p5 := p5) (l343 := l343) (l367 := l367) ht375 ht378 ht392 ht393 ht394 ht395 ht396 ht397 hb376 hb377 hb379
  obtain ⟨rr0, rr1, rr2, rr3, rr4, rr5⟩ := hr.r6
  obtain ⟨⟨alrr0, alrr1, alrr2, alrr3, alrr4, alrr5⟩, frr1, frr2, frr3, frr4, frr5⟩ := hr.addr6
  have room6 := (hstk.f6 (by omega)).1
  replace hrs := Hide.mk (And.intro room6 hrs)
  simp only [OffStack] at hrs
  refine ⟨_, hq, ⟨rfl, rfl, rfl, rfl, rfl, rfl, rfl, rfl, rfl, rfl, rfl, rfl, rfl, rfl, rfl⟩, ?_, ?_, ?_⟩
  · simp only; a64_mem; exact hres.1
  · simp only; a64_mem; exact hres.2
  · intro k hk1 hk2
    simp (disch := (clear * - hk1 hk2 room6; omega)) only [setMem_ne]

set_option maxHeartbeats 1600000 in
theorem fpmul_tail_lo4 (s : State) (pr pa pb pp inv : Word)
    (hr : Buf s pr 6 true) (ha : Buf s pa 6 false) (hb : Buf s pb 6 false) (hp : Buf s pp 6 false)
    (hstk : Stack s 6) (hrs : OffStack s 6 pr 6) (has : OffStack s 6 pa 6) (hbs : OffStack s 6 pb 6)
    (hps : OffStack s 6 pp 6) {a4 a5 p0 p1 p2 p3 p4 p5 l343 l367 : Word} {t240 t273 t306 t339 t342 t351 t356 t361 t365 t366 t371 t372 t374 t378 : ArithRes}
    (ht375 : t375 = addWithCarry t374.val (~~~p5) true) (ht378 : t378 = addWithCarry t371.val (~~~p4) true)
    (hb376 : (t375.c && !t375.z) = false) (hb377 : (!t375.c) = false) (hb379 : (t378.c && !t378.z) = false)
    (hb380 : (!t378.c) = true) :
    run embedded_pairing_core_arch_aarch64_fpbase_384_multiply ({ x0 := pr, x1 := t342.val, x2 := l343, x3 := inv, x4 := t365.val, x5 := l367, x6 := a4, x7 := a5, x8 := s.x8, x9 := p0, x10 := p1, x11 := p2, x12 := p3, x13 := p4, x14 := p5, x15 := t240.val, x16 := s.x16, x17 := s.x17, x18 := s.x18, x19 := t273.val, x20 := t306.val, x21 := t339.val, x22 := t372.val, x23 := t351.val, x24 := t356.val, x25 := t361.val, x26 := t366.val, x27 := t371.val, x28 := t374.val, x29 := s.x29, x30 := s.x30, sp := s.sp - 16#64 - 16#64 - 16#64 - 16#64 - 16#64, nf := some t374.n, zf := some t374.z, cf := some t374.c, vf := some t374.v, mem := setMem (setMem (setMem (setMem (setMem (setMem (setMem (setMem (setMem (setMem (setMem (setMem (s.mem) (s.sp.toNat - 16) s.x19) (s.sp.toNat - 16 + 8) s.x20) (s.sp.toNat - 16 - 16) s.x21) (s.sp.toNat - 16 - 16 + 8) s.x22) (s.sp.toNat - 16 - 16 - 16) s.x23) (s.sp.toNat - 16 - 16 - 16 + 8) s.x24) (s.sp.toNat - 16 - 16 - 16 - 16) s.x25) (s.sp.toNat - 16 - 16 - 16 - 16 + 8) s.x26) (s.sp.toNat - 16 - 16 - 16 - 16 - 16) s.x27) (s.sp.toNat - 16 - 16 - 16 - 16 - 16 + 8) s.x28) (s.sp.toNat - 16 - 16 - 16 - 16 - 16 - 16) pp) (s.sp.toNat - 16 - 16 - 16 - 16 - 16 - 16 + 8) inv, readable := s.readable, writable := s.writable, pc := 375, status := .running } : State) 15
      = ({ x0 := pr + 48#64, x1 := t342.val, x2 := l343, x3 := inv, x4 := t365.val, x5 := l367, x6 := a4, x7 := a5, x8 := s.x8, x9 := p0, x10 := p1, x11 := p2, x12 := p3, x13 := p4, x14 := p5, x15 := t240.val, x16 := s.x16, x17 := s.x17, x18 := s.x18, x19 := s.x19, x20 := s.x20, x21 := s.x21, x22 := s.x22, x23 := s.x23, x24 := s.x24, x25 := s.x25, x26 := s.x26, x27 := s.x27, x28 := s.x28, x29 := s.x29, x30 := s.x30, sp := s.sp, nf := some t378.n, zf := some t378.z, cf := some t378.c, vf := some t378.v, mem := setMem (setMem (setMem (setMem (setMem (setMem (setMem (setMem (setMem (setMem (setMem (setMem (setMem (setMem (setMem (setMem (setMem (setMem (s.mem) (s.sp.toNat - 16) s.x19) (s.sp.toNat - 16 + 8) s.x20) (s.sp.toNat - 16 - 16) s.x21) (s.sp.toNat - 16 - 16 + 8) s.x22) (s.sp.toNat - 16 - 16 - 16) s.x23) (s.sp.toNat - 16 - 16 - 16 + 8) s.x24) (s.sp.toNat - 16 - 16 - 16 - 16) s.x25) (s.sp.toNat - 16 - 16 - 16 - 16 + 8) s.x26) (s.sp.toNat - 16 - 16 - 16 - 16 - 16) s.x27) (s.sp.toNat - 16 - 16 - 16 - 16 - 16 + 8) s.x28) (s.sp.toNat - 16 - 16 - 16 - 16 - 16 - 16) pp) (s.sp.toNat - 16 - 16 - 16 - 16 - 16 - 16 + 8) inv) pr.toNat t351.val) (pr.toNat + 8) t356.val) (pr.toNat + 16) t361.val) (pr.toNat + 24) t366.val) (pr.toNat + 32) t371.val) (pr.toNat + 40) t374.val, readable := s.readable, writable := s.writable, pc := s.x30.toNat, status := .halted } : State) := by
  obtain ⟨ra0, ra1, ra2, ra3, ra4, ra5⟩ := ha.r6
  obtain ⟨⟨alra0, alra1, alra2, alra3, alra4, alra5⟩, fra1, fra2, fra3, fra4, fra5⟩ := ha.addr6
  obtain ⟨rb0, rb1, rb2, rb3, rb4, rb5⟩ := hb.r6
  obtain ⟨⟨alrb0, alrb1, alrb2, alrb3, alrb4, alrb5⟩, frb1, frb2, frb3, frb4, frb5⟩ := hb.addr6
  obtain ⟨rp0, rp1, rp2, rp3, rp4, rp5⟩ := hp.r6
  obtain ⟨⟨alrp0, alrp1, alrp2, alrp3, alrp4, alrp5⟩, frp1, frp2, frp3, frp4, frp5⟩ := hp.addr6
  obtain ⟨rr0, rr1, rr2, rr3, rr4, rr5⟩ := hr.r6
  obtain ⟨wr0, wr1, wr2, wr3, wr4, wr5⟩ := hr.w6
  obtain ⟨⟨alrr0, alrr1, alrr2, alrr3, alrr4, alrr5⟩, frr1, frr2, frr3, frr4, frr5⟩ := hr.addr6
  have als0 := hstk.aligned
  obtain ⟨room1, als1, alq1a, alq1b, sr1a, sr1b, sw1a, sw1b⟩ := hstk.f1 (by omega)
  obtain ⟨room2, als2, alq2a, alq2b, sr2a, sr2b, sw2a, sw2b⟩ := hstk.f2 (by omega)
  obtain ⟨room3, als3, alq3a, alq3b, sr3a, sr3b, sw3a, sw3b⟩ := hstk.f3 (by omega)
  obtain ⟨room4, als4, alq4a, alq4b, sr4a, sr4b, sw4a, sw4b⟩ := hstk.f4 (by omega)
  obtain ⟨room5, als5, alq5a, alq5b, sr5a, sr5b, sw5a, sw5b⟩ := hstk.f5 (by omega)
  obtain ⟨room6, als6, alq6a, alq6b, sr6a, sr6b, sw6a, sw6b⟩ := hstk.f6 (by omega)
  replace hrs := Hide.mk (And.intro room6 hrs); replace has := Hide.mk (And.intro room6 has)
  replace hbs := Hide.mk (And.intro room6 hbs); replace hps := Hide.mk (And.intro room6 hps)
  simp only [OffStack] at hrs has hbs hps
  clear ha hb hp hr hstk
  a64_sym [← ht375, ← ht378, hb376, hb377, hb379, hb380]

set_option maxHeartbeats 1600000 in
set_option exponentiation.threshold 800 in
theorem fpmul_end_lo4 (s : State) (pr pa pb pp inv : Word) {a4 a5 p0 p1 p2 p3 p4 p5 l343 l367 : Word} {t240 t273 t306 t339 t342 t351 t356 t361 t365 t366 t371 t372 t374 t378 : ArithRes} {T U : Nat}
    (hr : Buf s pr 6 true) (ha : Buf s pa 6 false) (hb : Buf s pb 6 false) (hp : Buf s pp 6 false)
    (hstk : Stack s 6) (hrs : OffStack s 6 pr 6) (has : OffStack s 6 pa 6) (hbs : OffStack s 6 pb 6)
    (hps : OffStack s 6 pp 6)
    (ht375 : t375 = addWithCarry t374.val (~~~p5) true) (ht378 : t378 = addWithCarry t371.val (~~~p4) true)
    (hb376 : (t375.c && !t375.z) = false) (hb377 : (!t375.c) = false) (hb379 : (t378.c && !t378.z) = false)
    (hb380 : (!t378.c) = true)
    (hR2 : val (2 ^ 64) [t351.val.toNat, t356.val.toNat, t361.val.toNat, t366.val.toNat, t371.val.toNat, t374.val.toNat] < 2 * val (2 ^ 64) [p0.toNat, p1.toNat, p2.toNat, p3.toNat, p4.toNat, p5.toNat])
    (hRe : 2 ^ 384 * val (2 ^ 64) [t351.val.toNat, t356.val.toNat, t361.val.toNat, t366.val.toNat, t371.val.toNat, t374.val.toNat] = T + U * val (2 ^ 64) [p0.toNat, p1.toNat, p2.toNat, p3.toNat, p4.toNat, p5.toNat]) :
    ∃ s', run embedded_pairing_core_arch_aarch64_fpbase_384_multiply ({ x0 := pr, x1 := t342.val, x2 := l343, x3 := inv, x4 := t365.val, x5 := l367, x6 := a4, x7 := a5, x8 := s.x8, x9 := p0, x10 := p1, x11 := p2, x12 := p3, x13 := p4, x14 := p5, x15 := t240.val, x16 := s.x16, x17 := s.x17, x18 := s.x18, x19 := t273.val, x20 := t306.val, x21 := t339.val, x22 := t372.val, x23 := t351.val, x24 := t356.val, x25 := t361.val, x26 := t366.val, x27 := t371.val, x28 := t374.val, x29 := s.x29, x30 := s.x30, sp := s.sp - 16#64 - 16#64 - 16#64 - 16#64 - 16#64, nf := some t374.n, zf := some t374.z, cf := some t374.c, vf := some t374.v, mem := setMem (setMem (setMem (setMem (setMem (setMem (setMem (setMem (setMem (setMem (setMem (setMem (s.mem) (s.sp.toNat - 16) s.x19) (s.sp.toNat - 16 + 8) s.x20) (s.sp.toNat - 16 - 16) s.x21) (s.sp.toNat - 16 - 16 + 8) s.x22) (s.sp.toNat - 16 - 16 - 16) s.x23) (s.sp.toNat - 16 - 16 - 16 + 8) s.x24) (s.sp.toNat - 16 - 16 - 16 - 16) s.x25) (s.sp.toNat - 16 - 16 - 16 - 16 + 8) s.x26) (s.sp.toNat - 16 - 16 - 16 - 16 - 16) s.x27) (s.sp.toNat - 16 - 16 - 16 - 16 - 16 + 8) s.x28) (s.sp.toNat - 16 - 16 - 16 - 16 - 16 - 16) pp) (s.sp.toNat - 16 - 16 - 16 - 16 - 16 - 16 + 8) inv, readable := s.readable, writable := s.writable, pc := 375, status := .running } : State) 15 = s' ∧ Returned s s' ∧
      val (2 ^ 64) [(s'.mem pr.toNat).toNat, (s'.mem (pr.toNat + 8)).toNat, (s'.mem (pr.toNat + 16)).toNat, (s'.mem (pr.toNat + 24)).toNat, (s'.mem (pr.toNat + 32)).toNat, (s'.mem (pr.toNat + 40)).toNat] < val (2 ^ 64) [p0.toNat, p1.toNat, p2.toNat, p3.toNat, p4.toNat, p5.toNat] ∧
      (val (2 ^ 64) [(s'.mem pr.toNat).toNat, (s'.mem (pr.toNat + 8)).toNat, (s'.mem (pr.toNat + 16)).toNat, (s'.mem (pr.toNat + 24)).toNat, (s'.mem (pr.toNat + 32)).toNat, (s'.mem (pr.toNat + 40)).toNat] * 2 ^ 384) % val (2 ^ 64) [p0.toNat, p1.toNat, p2.toNat, p3.toNat, p4.toNat, p5.toNat] = T % val (2 ^ 64) [p0.toNat, p1.toNat, p2.toNat, p3.toNat, p4.toNat, p5.toNat] ∧
      (∀ k, ¬(pr.toNat ≤ k ∧ k < pr.toNat + 48) → ¬(s.sp.toNat - 96 ≤ k ∧ k < s.sp.toNat) → s'.mem k = s.mem k) := by
  have ir0 := (t351.val).isLt; have ip0 := (p0).isLt
  have ir1 := (t356.val).isLt; have ip1 := (p1).isLt
  have ir2 := (t361.val).isLt; have ip2 := (p2).isLt
  have ir3 := (t366.val).isLt; have ip3 := (p3).isLt
  have ir4 := (t371.val).isLt; have ip4 := (p4).isLt
  have ir5 := (t374.val).isLt; have ip5 := (p5).isLt
  have c5 := cmp_eq ht375 hb376 hb377
  have c4 := cmp_lo ht378 hb380
  have hlt : val (2 ^ 64) [t351.val.toNat, t356.val.toNat, t361.val.toNat, t366.val.toNat, t371.val.toNat, t374.val.toNat] < val (2 ^ 64) [p0.toNat, p1.toNat, p2.toNat, p3.toNat, p4.toNat, p5.toNat] := by
    simp only [val_cons, val_nil]
    clear * - c5 c4 ir0 ip0 ir1 ip1 ir2 ip2 ir3 ip3 ir4 ip4 ir5 ip5
    omega
  have hres := X86.mont_result hR2 hRe (Or.inl ⟨rfl, hlt⟩)
  have hq := fpmul_tail_lo4 s pr pa pb pp inv hr ha hb hp hstk hrs has hbs hps (t240 := t240) (t273 := t273) (t306 := t306) (t339 := t339) (t342 := t342) (t351 := t351) (t356 := t356) (t361 := t361) (t365 := t365) (t366 := t366) (t371 := t371) (t372 := t372) (t374 := t374) (t378 := t378) (a4 := a4) (a5 := a5) (p0 := p0) (p1 := p1) (p2 := p2) (p3 := p3) (p4 := p4) (p5 := p5) (l343 := l343) (l367 := l367) ht375 ht378 hb376 hb377 hb379 hb380
  obtain ⟨rr0, rr1, rr2, rr3, rr4, rr5⟩ := hr.r6
  obtain ⟨⟨alrr0, alrr1, alrr2, alrr3, alrr4, alrr5⟩, frr1, frr2, frr3, frr4, frr5⟩ := hr.addr6
  have room6 := (hstk.f6 (by omega)).1
  replace hrs := Hide.mk (And.intro room6 hrs)
  simp only [OffStack] at hrs
  refine ⟨_, hq, ⟨rfl, rfl, rfl, rfl, rfl, rfl, rfl, rfl, rfl, rfl, rfl, rfl, rfl, rfl, rfl⟩, ?_, ?_, ?_⟩
  · simp only; a64_mem; exact hres.1
  · simp only; a64_mem; exact hres.2
  · intro k hk1 hk2
    simp (disch := (clear * - hk1 hk2 room6; omega)) only [setMem_ne]

set_option maxHeartbeats 1600000 in
theorem fpmul_tail_hi3 (s : State) (pr pa pb pp inv : Word)
    (hr : Buf s pr 6 true) (ha : Buf s pa 6 false) (hb : Buf s pb 6 false) (hp : Buf s pp 6 false)
    (hstk : Stack s 6) (hrs : OffStack s 6 pr 6) (has : OffStack s 6 pa 6) (hbs : OffStack s 6 pb 6)
    (hps : OffStack s 6 pp 6) {a4 a5 p0 p1 p2 p3 p4 p5 l343 l367 : Word} {t240 t273 t306 t339 t342 t351 t356 t361 t365 t366 t371 t372 t374 t392 t393 t394 t395 t396 t397 : ArithRes}
    (ht375 : t375 = addWithCarry t374.val (~~~p5) true) (ht378 : t378 = addWithCarry t371.val (~~~p4) true)
    (ht381 : t381 = addWithCarry t366.val (~~~p3) true) (ht392 : t392 = addWithCarry t351.val (~~~p0) true)
    (ht393 : t393 = addWithCarry t356.val (~~~p1) t392.c) (ht394 : t394 = addWithCarry t361.val (~~~p2) t393.c)
    (ht395 : t395 = addWithCarry t366.val (~~~p3) t394.c) (ht396 : t396 = addWithCarry t371.val (~~~p4) t395.c)
    (ht397 : t397 = addWithCarry t374.val (~~~p5) t396.c) (hb376 : (t375.c && !t375.z) = false)
    (hb377 : (!t375.c) = false) (hb379 : (t378.c && !t378.z) = false) (hb380 : (!t378.c) = false)
    (hb382 : (t381.c && !t381.z) = true) :
    run embedded_pairing_core_arch_aarch64_fpbase_384_multiply ({ x0 := pr, x1 := t342.val, x2 := l343, x3 := inv, x4 := t365.val, x5 := l367, x6 := a4, x7 := a5, x8 := s.x8, x9 := p0, x10 := p1, x11 := p2, x12 := p3, x13 := p4, x14 := p5, x15 := t240.val, x16 := s.x16, x17 := s.x17, x18 := s.x18, x19 := t273.val, x20 := t306.val, x21 := t339.val, x22 := t372.val, x23 := t351.val, x24 := t356.val, x25 := t361.val, x26 := t366.val, x27 := t371.val, x28 := t374.val, x29 := s.x29, x30 := s.x30, sp := s.sp - 16#64 - 16#64 - 16#64 - 16#64 - 16#64, nf := some t374.n, zf := some t374.z, cf := some t374.c, vf := some t374.v, mem := setMem (setMem (setMem (setMem (setMem (setMem (setMem (setMem (setMem (setMem (setMem (setMem (s.mem) (s.sp.toNat - 16) s.x19) (s.sp.toNat - 16 + 8) s.x20) (s.sp.toNat - 16 - 16) s.x21) (s.sp.toNat - 16 - 16 + 8) s.x22) (s.sp.toNat - 16 - 16 - 16) s.x23) (s.sp.toNat - 16 - 16 - 16 + 8) s.x24) (s.sp.toNat - 16 - 16 - 16 - 16) s.x25) (s.sp.toNat - 16 - 16 - 16 - 16 + 8) s.x26) (s.sp.toNat - 16 - 16 - 16 - 16 - 16) s.x27) (s.sp.toNat - 16 - 16 - 16 - 16 - 16 + 8) s.x28) (s.sp.toNat - 16 - 16 - 16 - 16 - 16 - 16) pp) (s.sp.toNat - 16 - 16 - 16 - 16 - 16 - 16 + 8) inv, readable := s.readable, writable := s.writable, pc := 375, status := .running } : State) 23
      = ({ x0 := pr + 48#64, x1 := t342.val, x2 := l343, x3 := inv, x4 := t365.val, x5 := l367, x6 := a4, x7 := a5, x8 := s.x8, x9 := p0, x10 := p1, x11 := p2, x12 := p3, x13 := p4, x14 := p5, x15 := t240.val, x16 := s.x16, x17 := s.x17, x18 := s.x18, x19 := s.x19, x20 := s.x20, x21 := s.x21, x22 := s.x22, x23 := s.x23, x24 := s.x24, x25 := s.x25, x26 := s.x26, x27 := s.x27, x28 := s.x28, x29 := s.x29, x30 := s.x30, sp := s.sp, nf := some t397.n, zf := some t397.z, cf := some t397.c, vf := some t397.v, mem := setMem (setMem (setMem (setMem (setMem (setMem (setMem (setMem (setMem (setMem (setMem (setMem (setMem (setMem (setMem (setMem (setMem (setMem (s.mem) (s.sp.toNat - 16) s.x19) (s.sp.toNat - 16 + 8) s.x20) (s.sp.toNat - 16 - 16) s.x21) (s.sp.toNat - 16 - 16 + 8) s.x22) (s.sp.toNat - 16 - 16 - 16) s.x23) (s.sp.toNat - 16 - 16 - 16 + 8) s.x24) (s.sp.toNat - 16 - 16 - 16 - 16) s.x25) (s.sp.toNat - 16 - 16 - 16 - 16 + 8) s.x26) (s.sp.toNat - 16 - 16 - 16 - 16 - 16) s.x27) (s.sp.toNat - 16 - 16 - 16 - 16 - 16 + 8) s.x28) (s.sp.toNat - 16 - 16 - 16 - 16 - 16 - 16) pp) (s.sp.toNat - 16 - 16 - 16 - 16 - 16 - 16 + 8) inv) pr.toNat t392.val) (pr.toNat + 8) t393.val) (pr.toNat + 16) t394.val) (pr.toNat + 24) t395.val) (pr.toNat + 32) t396.val) (pr.toNat + 40) t397.val, readable := s.readable, writable := s.writable, pc := s.x30.toNat, status := .halted } : State) := by
  obtain ⟨ra0, ra1, ra2, ra3, ra4, ra5⟩ := ha.r6
  obtain ⟨⟨alra0, alra1, alra2, alra3, alra4, alra5⟩, fra1, fra2, fra3, fra4, fra5⟩ := ha.addr6
  obtain ⟨rb0, rb1, rb2, rb3, rb4, rb5⟩ := hb.r6
  obtain ⟨⟨alrb0, alrb1, alrb2, alrb3, alrb4, alrb5⟩, frb1, frb2, frb3, frb4, frb5⟩ := hb.addr6
  obtain ⟨rp0, rp1, rp2, rp3, rp4, rp5⟩ := hp.r6
  obtain ⟨⟨alrp0, alrp1, alrp2, alrp3, alrp4, alrp5⟩, frp1, frp2, frp3, frp4, frp5⟩ := hp.addr6
  obtain ⟨rr0, rr1, rr2, rr3, rr4, rr5⟩ := hr.r6
  obtain ⟨wr0, wr1, wr2, wr3, wr4, wr5⟩ := hr.w6
  obtain ⟨⟨alrr0, alrr1, alrr2, alrr3, alrr4, alrr5⟩, frr1, frr2, frr3, frr4, frr5⟩ := hr.addr6
  have als0 := hstk.aligned
  obtain ⟨room1, als1, alq1a, alq1b, sr1a, sr1b, sw1a, sw1b⟩ := hstk.f1 (by omega)
  obtain ⟨room2, als2, alq2a, alq2b, sr2a, sr2b, sw2a, sw2b⟩ := hstk.f2 (by omega)
  obtain ⟨room3, als3, alq3a, alq3b, sr3a, sr3b, sw3a, sw3b⟩ := hstk.f3 (by omega)
  obtain ⟨room4, als4, alq4a, alq4b, sr4a, sr4b, sw4a, sw4b⟩ := hstk.f4 (by omega)
  obtain ⟨room5, als5, alq5a, alq5b, sr5a, sr5b, sw5a, sw5b⟩ := hstk.f5 (by omega)
  obtain ⟨room6, als6, alq6a, alq6b, sr6a, sr6b, sw6a, sw6b⟩ := hstk.f6 (by omega)
  replace hrs := Hide.mk (And.intro room6 hrs); replace has := Hide.mk (And.intro room6 has)
  replace hbs := Hide.mk (And.intro room6 hbs); replace hps := Hide.mk (And.intro room6 hps)
  simp only [OffStack] at hrs has hbs hps
  clear ha hb hp hr hstk
  a64_sym [← ht375, ← ht378, ← ht381, ← ht392, ← ht393, ← ht394, ← ht395, ← ht396, ← ht397, hb376, hb377, hb379, hb380, hb382]

set_option maxHeartbeats 1600000 in
set_option exponentiation.threshold 800 in
theorem fpmul_end_hi3 (s : State) (pr pa pb pp inv : Word) {a4 a5 p0 p1 p2 p3 p4 p5 l343 l367 : Word} {t240 t273 t306 t339 t342 t351 t356 t361 t365 t366 t371 t372 t374 t392 t393 t394 t395 t396 t397 : ArithRes} {T U : Nat}
    (hr : Buf s pr 6 true) (ha : Buf s pa 6 false) (hb : Buf s pb 6 false) (hp : Buf s pp 6 false)
    (hstk : Stack s 6) (hrs : OffStack s 6 pr 6) (has : OffStack s 6 pa 6) (hbs : OffStack s 6 pb 6)
    (hps : OffStack s 6 pp 6)
    (ht375 : t375 = addWithCarry t374.val (~~~p5) true) (ht378 : t378 = addWithCarry t371.val (~~~p4) true)
    (ht381 : t381 = addWithCarry t366.val (~~~p3) true) (ht392 : t392 = addWithCarry t351.val (~~~p0) true)
    (ht393 : t393 = addWithCarry t356.val (~~~p1) t392.c) (ht394 : t394 = addWithCarry t361.val (~~~p2) t393.c)
    (ht395 : t395 = addWithCarry t366.val (~~~p3) t394.c) (ht396 : t396 = addWithCarry t371.val (~~~p4) t395.c)
    (ht397 : t397 = addWithCarry t374.val (~~~p5) t396.c) (hb376 : (t375.c && !t375.z) = false)
    (hb377 : (!t375.c) = false) (hb379 : (t378.c && !t378.z) = false) (hb380 : (!t378.c) = false)
    (hb382 : (t381.c && !t381.z) = true)
    (hR2 : val (2 ^ 64) [t351.val.toNat, t356.val.toNat, t361.val.toNat, t366.val.toNat, t371.val.toNat, t374.val.toNat] < 2 * val (2 ^ 64) [p0.toNat, p1.toNat, p2.toNat, p3.toNat, p4.toNat, p5.toNat])
    (hRe : 2 ^ 384 * val (2 ^ 64) [t351.val.toNat, t356.val.toNat, t361.val.toNat, t366.val.toNat, t371.val.toNat, t374.val.toNat] = T + U * val (2 ^ 64) [p0.toNat, p1.toNat, p2.toNat, p3.toNat, p4.toNat, p5.toNat]) :
    ∃ s', run embedded_pairing_core_arch_aarch64_fpbase_384_multiply ({ x0 := pr, x1 := t342.val, x2 := l343, x3 := inv, x4 := t365.val, x5 := l367, x6 := a4, x7 := a5, x8 := s.x8, x9 := p0, x10 := p1, x11 := p2, x12 := p3, x13 := p4, x14 := p5, x15 := t240.val, x16 := s.x16, x17 := s.x17, x18 := s.x18, x19 := t273.val, x20 := t306.val, x21 := t339.val, x22 := t372.val, x23 := t351.val, x24 := t356.val, x25 := t361.val, x26 := t366.val, x27 := t371.val, x28 := t374.val, x29 := s.x29, x30 := s.x30, sp := s.sp - 16#64 - 16#64 - 16#64 - 16#64 - 16#64, nf := some t374.n, zf := some t374.z, cf := some t374.c, vf := some t374.v, mem := setMem (setMem (setMem (setMem (setMem (setMem (setMem (setMem (setMem (setMem (setMem (setMem (s.mem) (s.sp.toNat - 16) s.x19) (s.sp.toNat - 16 + 8) s.x20) (s.sp.toNat - 16 - 16) s.x21) (s.sp.toNat - 16 - 16 + 8) s.x22) (s.sp.toNat - 16 - 16 - 16) s.x23) (s.sp.toNat - 16 - 16 - 16 + 8) s.x24) (s.sp.toNat - 16 - 16 - 16 - 16) s.x25) (s.sp.toNat - 16 - 16 - 16 - 16 + 8) s.x26) (s.sp.toNat - 16 - 16 - 16 - 16 - 16) s.x27) (s.sp.toNat - 16 - 16 - 16 - 16 - 16 + 8) s.x28) (s.sp.toNat - 16 - 16 - 16 - 16 - 16 - 16) pp) (s.sp.toNat - 16 - 16 - 16 - 16 - 16 - 16 + 8) inv, readable := s.readable, writable := s.writable, pc := 375, status := .running } : State) 23 = s' ∧ Returned s s' ∧
      val (2 ^ 64) [(s'.mem pr.toNat).toNat, (s'.mem (pr.toNat + 8)).toNat, (s'.mem (pr.toNat + 16)).toNat, (s'.mem (pr.toNat + 24)).toNat, (s'.mem (pr.toNat + 32)).toNat, (s'.mem (pr.toNat + 40)).toNat] < val (2 ^ 64) [p0.toNat, p1.toNat, p2.toNat, p3.toNat, p4.toNat, p5.toNat] ∧
      (val (2 ^ 64) [(s'.mem pr.toNat).toNat, (s'.mem (pr.toNat + 8)).toNat, (s'.mem (pr.toNat + 16)).toNat, (s'.mem (pr.toNat + 24)).toNat, (s'.mem (pr.toNat + 32)).toNat, (s'.mem (pr.toNat + 40)).toNat] * 2 ^ 384) % val (2 ^ 64) [p0.toNat, p1.toNat, p2.toNat, p3.toNat, p4.toNat, p5.toNat] = T % val (2 ^ 64) [p0.toNat, p1.toNat, p2.toNat, p3.toNat, p4.toNat, p5.toNat] ∧
      (∀ k, ¬(pr.toNat ≤ k ∧ k < pr.toNat + 48) → ¬(s.sp.toNat - 96 ≤ k ∧ k < s.sp.toNat) → s'.mem k = s.mem k) := by
  have ir0 := (t351.val).isLt; have ip0 := (p0).isLt
  have ir1 := (t356.val).isLt; have ip1 := (p1).isLt
  have ir2 := (t361.val).isLt; have ip2 := (p2).isLt
  have ir3 := (t366.val).isLt; have ip3 := (p3).isLt
  have ir4 := (t371.val).isLt; have ip4 := (p4).isLt
  have ir5 := (t374.val).isLt; have ip5 := (p5).isLt
  have c5 := cmp_eq ht375 hb376 hb377
  have c4 := cmp_eq ht378 hb379 hb380
  have c3 := cmp_hi ht381 hb382
  have hle : val (2 ^ 64) [p0.toNat, p1.toNat, p2.toNat, p3.toNat, p4.toNat, p5.toNat] ≤ val (2 ^ 64) [t351.val.toNat, t356.val.toNat, t361.val.toNat, t366.val.toNat, t371.val.toNat, t374.val.toNat] := by
    simp only [val_cons, val_nil]
    clear * - c5 c4 c3 ir0 ip0 ir1 ip1 ir2 ip2 ir3 ip3 ir4 ip4 ir5 ip5
    omega
  have hs := sub6_val ht392 ht393 ht394 ht395 ht396 ht397
  simp only [Bool.not_true, Bool.toNat_false, Nat.add_zero] at hs
  have hres := X86.mont_result hR2 hRe (Or.inr (sub_no_borrow hs hle (X86.val6_lt t392.val t393.val t394.val t395.val t396.val t397.val)))
  have hq := fpmul_tail_hi3 s pr pa pb pp inv hr ha hb hp hstk hrs has hbs hps (t240 := t240) (t273 := t273) (t306 := t306) (t339 := t339) (t342 := t342) (t351 := t351) (t356 := t356) (t361 := t361) (t365 := t365) (t366 := t366) (t371 := t371) (t372 := t372) (t374 := t374) (t392 := t392) (t393 := t393) (t394 := t394) (t395 := t395) (t396 := t396) (t397 := t397) (a4 := a4) (a5 := a5) (p0 := p0) (p1 := p1) (p2 := p2) (p3 := p3) (p4 := p4) (p5 := p5) (l343 := l343) (l367 := l367) ht375 ht378 ht381 ht392 ht393 ht394 ht395 ht396 ht397 hb376 hb377 hb379 hb380 hb382
  obtain ⟨rr0, rr1, rr2, rr3, rr4, rr5⟩ := hr.r6
  obtain ⟨⟨alrr0, alrr1, alrr2, alrr3, alrr4, alrr5⟩, frr1, frr2, frr3, frr4, frr5⟩ := hr.addr6
  have room6 := (hstk.f6 (by omega)).1
  replace hrs := Hide.mk (And.intro room6 hrs)
  simp only [OffStack] at hrs
  refine ⟨_, hq, ⟨rfl, rfl, rfl, rfl, rfl, rfl, rfl, rfl, rfl, rfl, rfl, rfl, rfl, rfl, rfl⟩, ?_, ?_, ?_⟩
  · simp only; a64_mem; exact hres.1
  · simp only; a64_mem; exact hres.2
  · intro k hk1 hk2
    simp (disch := (clear * - hk1 hk2 room6; omega)) only [setMem_ne]

set_option maxHeartbeats 1600000 in
theorem fpmul_tail_lo3 (s : State) (pr pa pb pp inv : Word)
    (hr : Buf s pr 6 true) (ha : Buf s pa 6 false) (hb : Buf s pb 6 false) (hp : Buf s pp 6 false)
    (hstk : Stack s 6) (hrs : OffStack s 6 pr 6) (has : OffStack s 6 pa 6) (hbs : OffStack s 6 pb 6)
    (hps : OffStack s 6 pp 6) {a4 a5 p0 p1 p2 p3 p4 p5 l343 l367 : Word} {t240 t273 t306 t339 t342 t351 t356 t361 t365 t366 t371 t372 t374 t381 : ArithRes}
    (ht375 : t375 = addWithCarry t374.val (~~~p5) true) (ht378 : t378 = addWithCarry t371.val (~~~p4) true)
    (ht381 : t381 = addWithCarry t366.val (~~~p3) true) (hb376 : (t375.c && !t375.z) = false) (hb377 : (!t375.c) = false)
    (hb379 : (t378.c && !t378.z) = false) (hb380 : (!t378.c) = false) (hb382 : (t381.c && !t381.z) = false)
    (hb383 : (!t381.c) = true) :
    run embedded_pairing_core_arch_aarch64_fpbase_384_multiply ({ x0 := pr, x1 := t342.val, x2 := l343, x3 := inv, x4 := t365.val, x5 := l367, x6 := a4, x7 := a5, x8 := s.x8, x9 := p0, x10 := p1, x11 := p2, x12 := p3, x13 := p4, x14 := p5, x15 := t240.val, x16 := s.x16, x17 := s.x17, x18 := s.x18, x19 := t273.val, x20 := t306.val, x21 := t339.val, x22 := t372.val, x23 := t351.val, x24 := t356.val, x25 := t361.val, x26 := t366.val, x27 := t371.val, x28 := t374.val, x29 := s.x29, x30 := s.x30, sp := s.sp - 16#64 - 16#64 - 16#64 - 16#64 - 16#64, nf := some t374.n, zf := some t374.z, cf := some t374.c, vf := some t374.v, mem := setMem (setMem (setMem (setMem (setMem (setMem (setMem (setMem (setMem (setMem (setMem (setMem (s.mem) (s.sp.toNat - 16) s.x19) (s.sp.toNat - 16 + 8) s.x20) (s.sp.toNat - 16 - 16) s.x21) (s.sp.toNat - 16 - 16 + 8) s.x22) (s.sp.toNat - 16 - 16 - 16) s.x23) (s.sp.toNat - 16 - 16 - 16 + 8) s.x24) (s.sp.toNat - 16 - 16 - 16 - 16) s.x25) (s.sp.toNat - 16 - 16 - 16 - 16 + 8) s.x26) (s.sp.toNat - 16 - 16 - 16 - 16 - 16) s.x27) (s.sp.toNat - 16 - 16 - 16 - 16 - 16 + 8) s.x28) (s.sp.toNat - 16 - 16 - 16 - 16 - 16 - 16) pp) (s.sp.toNat - 16 - 16 - 16 - 16 - 16 - 16 + 8) inv, readable := s.readable, writable := s.writable, pc := 375, status := .running } : State) 18
      = ({ x0 := pr + 48#64, x1 := t342.val, x2 := l343, x3 := inv, x4 := t365.val, x5 := l367, x6 := a4, x7 := a5, x8 := s.x8, x9 := p0, x10 := p1, x11 := p2, x12 := p3, x13 := p4, x14 := p5, x15 := t240.val, x16 := s.x16, x17 := s.x17, x18 := s.x18, x19 := s.x19, x20 := s.x20, x21 := s.x21, x22 := s.x22, x23 := s.x23, x24 := s.x24, x25 := s.x25, x26 := s.x26, x27 := s.x27, x28 := s.x28, x29 := s.x29, x30 := s.x30, sp := s.sp, nf := some t381.n, zf := some t381.z, cf := some t381.c, vf := some t381.v, mem := setMem (setMem (setMem (setMem (setMem (setMem (setMem (setMem (setMem (setMem (setMem (setMem (setMem (setMem (setMem (setMem (setMem (setMem (s.mem) (s.sp.toNat - 16) s.x19) (s.sp.toNat - 16 + 8) s.x20) (s.sp.toNat - 16 - 16) s.x21) (s.sp.toNat - 16 - 16 + 8) s.x22) (s.sp.toNat - 16 - 16 - 16) s.x23) (s.sp.toNat - 16 - 16 - 16 + 8) s.x24) (s.sp.toNat - 16 - 16 - 16 - 16) s.x25) (s.sp.toNat - 16 - 16 - 16 - 16 + 8) s.x26) (s.sp.toNat - 16 - 16 - 16 - 16 - 16) s.x27) (s.sp.toNat - 16 - 16 - 16 - 16 - 16 + 8) s.x28) (s.sp.toNat - 16 - 16 - 16 - 16 - 16 - 16) pp) (s.sp.toNat - 16 - 16 - 16 - 16 - 16 - 16 + 8) inv) pr.toNat t351.val) (pr.toNat + 8) t356.val) (pr.toNat + 16) t361.val) (pr.toNat + 24) t366.val) (pr.toNat + 32) t371.val) (pr.toNat + 40) t374.val, readable := s.readable, writable := s.writable, pc := s.x30.toNat, status := .halted } : State) := by
  obtain ⟨ra0, ra1, ra2, ra3, ra4, ra5⟩ := ha.r6
  obtain ⟨⟨alra0, alra1, alra2, alra3, alra4, alra5⟩, fra1, fra2, fra3, fra4, fra5⟩ := ha.addr6
  obtain ⟨rb0, rb1, rb2, rb3, rb4, rb5⟩ := hb.r6
  obtain ⟨⟨alrb0, alrb1, alrb2, alrb3, alrb4, alrb5⟩, frb1, frb2, frb3, frb4, frb5⟩ := hb.addr6
  obtain ⟨rp0, rp1, rp2, rp3, rp4, rp5⟩ := hp.r6
  obtain ⟨⟨alrp0, alrp1, alrp2, alrp3, alrp4, alrp5⟩, frp1, frp2, frp3, frp4, frp5⟩ := hp.addr6
  obtain ⟨rr0, rr1, rr2, rr3, rr4, rr5⟩ := hr.r6
  obtain ⟨wr0, wr1, wr2, wr3, wr4, wr5⟩ := hr.w6
  obtain ⟨⟨alrr0, alrr1, alrr2, alrr3, alrr4, alrr5⟩, frr1, frr2, frr3, frr4, frr5⟩ := hr.addr6
  have als0 := hstk.aligned
  obtain ⟨room1, als1, alq1a, alq1b, sr1a, sr1b, sw1a, sw1b⟩ := hstk.f1 (by omega)
  obtain ⟨room2, als2, alq2a, alq2b, sr2a, sr2b, sw2a, sw2b⟩ := hstk.f2 (by omega)
  obtain ⟨room3, als3, alq3a, alq3b, sr3a, sr3b, sw3a, sw3b⟩ := hstk.f3 (by omega)
  obtain ⟨room4, als4, alq4a, alq4b, sr4a, sr4b, sw4a, sw4b⟩ := hstk.f4 (by omega)
  obtain ⟨room5, als5, alq5a, alq5b, sr5a, sr5b, sw5a, sw5b⟩ := hstk.f5 (by omega)
  obtain ⟨room6, als6, alq6a, alq6b, sr6a, sr6b, sw6a, sw6b⟩ := hstk.f6 (by omega)
  replace hrs := Hide.mk (And.intro room6 hrs); replace has := Hide.mk (And.intro room6 has)
  replace hbs := Hide.mk (And.intro room6 hbs); replace hps := Hide.mk (And.intro room6 hps)
  simp only [OffStack] at hrs has hbs hps
  clear ha hb hp hr hstk
  a64_sym [← ht375, ← ht378, ← ht381, hb376, hb377, hb379, hb380, hb382, hb383]

set_option maxHeartbeats 1600000 in
set_option exponentiation.threshold 800 in
theorem fpmul_end_lo3 (s : State) (pr pa pb pp inv : Word) {a4 a5 p0 p1 p2 p3 p4 p5 l343 l367 : Word} {t240 t273 t306 t339 t342 t351 t356 t361 t365 t366 t371 t372 t374 t381 : ArithRes} {T U : Nat}
    (hr : Buf s pr 6 true) (ha : Buf s pa 6 false) (hb : Buf s pb 6 false) (hp : Buf s pp 6 false)
    (hstk : Stack s 6) (hrs : OffStack s 6 pr 6) (has : OffStack s 6 pa 6) (hbs : OffStack s 6 pb 6)
    (hps : OffStack s 6 pp 6)
    (ht375 : t375 = addWithCarry t374.val (~~~p5) true) (ht378 : t378 = addWithCarry t371.val (~~~p4) true)
    (ht381 : t381 = addWithCarry t366.val (~~~p3) true) (hb376 : (t375.c && !t375.z) = false) (hb377 : (!t375.c) = false)
    (hb379 : (t378.c && !t378.z) = false) (hb380 : (!t378.c) = false) (hb382 : (t381.c && !t381.z) = false)
    (hb383 : (!t381.c) = true)
    (hR2 : val (2 ^ 64) [t351.val.toNat, t356.val.toNat, t361.val.toNat, t366.val.toNat, t371.val.toNat, t374.val.toNat] < 2 * val (2 ^ 64) [p0.toNat, p1.toNat, p2.toNat, p3.toNat, p4.toNat, p5.toNat])
    (hRe : 2 ^ 384 * val (2 ^ 64) [t351.val.toNat, t356.val.toNat, t361.val.toNat, t366.val.toNat, t371.val.toNat, t374.val.toNat] = T + U * val (2 ^ 64) [p0.toNat, p1.toNat, p2.toNat, p3.toNat, p4.toNat, p5.toNat]) :
    ∃ s', run embedded_pairing_core_arch_aarch64_fpbase_384_multiply ({ x0 := pr, x1 := t342.val, x2 := l343, x3 := inv, x4 := t365.val, x5 := l367, x6 := a4, x7 := a5, x8 := s.x8, x9 := p0, x10 := p1, x11 := p2, x12 := p3, x13 := p4, x14 := p5, x15 := t240.val, x16 := s.x16, x17 := s.x17, x18 := s.x18, x19 := t273.val, x20 := t306.val, x21 := t339.val, x22 := t372.val, x23 := t351.val, x24 := t356.val, x25 := t361.val, x26 := t366.val, x27 := t371.val, x28 := t374.val, x29 := s.x29, x30 := s.x30, sp := s.sp - 16#64 - 16#64 - 16#64 - 16#64 - 16#64, nf := some t374.n, zf := some t374.z, cf := some t374.c, vf := some t374.v, mem := setMem (setMem (setMem (setMem (setMem (setMem (setMem (setMem (setMem (setMem (setMem (setMem (s.mem) (s.sp.toNat - 16) s.x19) (s.sp.toNat - 16 + 8) s.x20) (s.sp.toNat - 16 - 16) s.x21) (s.sp.toNat - 16 - 16 + 8) s.x22) (s.sp.toNat - 16 - 16 - 16) s.x23) (s.sp.toNat - 16 - 16 - 16 + 8) s.x24) (s.sp.toNat - 16 - 16 - 16 - 16) s.x25) (s.sp.toNat - 16 - 16 - 16 - 16 + 8) s.x26) (s.sp.toNat - 16 - 16 - 16 - 16 - 16) s.x27) (s.sp.toNat - 16 - 16 - 16 - 16 - 16 + 8) s.x28) (s.sp.toNat - 16 - 16 - 16 - 16 - 16 - 16) pp) (s.sp.toNat - 16 - 16 - 16 - 16 - 16 - 16 + 8) inv, readable := s.readable, writable := s.writable, pc := 375, status := .running } : State) 18 = s' ∧ Returned s s' ∧
      val (2 ^ 64) [(s'.mem pr.toNat).toNat, (s'.mem (pr.toNat + 8)).toNat, (s'.mem (pr.toNat + 16)).toNat, (s'.mem (pr.toNat + 24)).toNat, (s'.mem (pr.toNat + 32)).toNat, (s'.mem (pr.toNat + 40)).toNat] < val (2 ^ 64) [p0.toNat, p1.toNat, p2.toNat, p3.toNat, p4.toNat, p5.toNat] ∧
      (val (2 ^ 64) [(s'.mem pr.toNat).toNat, (s'.mem (pr.toNat + 8)).toNat, (s'.mem (pr.toNat + 16)).toNat, (s'.mem (pr.toNat + 24)).toNat, (s'.mem (pr.toNat + 32)).toNat, (s'.mem (pr.toNat + 40)).toNat] * 2 ^ 384) % val (2 ^ 64) [p0.toNat, p1.toNat, p2.toNat, p3.toNat, p4.toNat, p5.toNat] = T % val (2 ^ 64) [p0.toNat, p1.toNat, p2.toNat, p3.toNat, p4.toNat, p5.toNat] ∧
      (∀ k, ¬(pr.toNat ≤ k ∧ k < pr.toNat + 48) → ¬(s.sp.toNat - 96 ≤ k ∧ k < s.sp.toNat) → s'.mem k = s.mem k) := by
  have ir0 := (t351.val).isLt; have ip0 := (p0).isLt
  have ir1 := (t356.val).isLt; have ip1 := (p1).isLt
  have ir2 := (t361.val).isLt; have ip2 := (p2).isLt
  have ir3 := (t366.val).isLt; have ip3 := (p3).isLt
  have ir4 := (t371.val).isLt; have ip4 := (p4).isLt
  have ir5 := (t374.val).isLt; have ip5 := (p5).isLt
  have c5 := cmp_eq ht375 hb376 hb377
  have c4 := cmp_eq ht378 hb379 hb380
  have c3 := cmp_lo ht381 hb383
  have hlt : val (2 ^ 64) [t351.val.toNat, t356.val.toNat, t361.val.toNat, t366.val.toNat, t371.val.toNat, t374.val.toNat] < val (2 ^ 64) [p0.toNat, p1.toNat, p2.toNat, p3.toNat, p4.toNat, p5.toNat] := by
    simp only [val_cons, val_nil]
    clear * - c5 c4 c3 ir0 ip0 ir1 ip1 ir2 ip2 ir3 ip3 ir4 ip4 ir5 ip5
    omega
  have hres := X86.mont_result hR2 hRe (Or.inl ⟨rfl, hlt⟩)
  have hq := fpmul_tail_lo3 s pr pa pb pp inv hr ha hb hp hstk hrs has hbs hps (t240 := t240) (t273 := t273) (t306 := t306) (t339 := t339) (t342 := t342) (t351 := t351) (t356 := t356) (t361 := t361) (t365 := t365) (t366 := t366) (t371 := t371) (t372 := t372) (t374 := t374) (t381 := t381) (a4 := a4) (a5 := a5) (p0 := p0) (p1 := p1) (p2 := p2) (p3 := p3) (p4 := p4) (p5 := p5) (l343 := l343) (l367 := l367) ht375 ht378 ht381 hb376 hb377 hb379 hb380 hb382 hb383
  obtain ⟨rr0, rr1, rr2, rr3, rr4, rr5⟩ := hr.r6
  obtain ⟨⟨alrr0, alrr1, alrr2, alrr3, alrr4, alrr5⟩, frr1, frr2, frr3, frr4, frr5⟩ := hr.addr6
  have room6 := (hstk.f6 (by omega)).1
  replace hrs := Hide.mk (And.intro room6 hrs)
  simp only [OffStack] at hrs
  refine ⟨_, hq, ⟨rfl, rfl, rfl, rfl, rfl, rfl, rfl, rfl, rfl, rfl, rfl, rfl, rfl, rfl, rfl⟩, ?_, ?_, ?_⟩
  · simp only; a64_mem; exact hres.1
  · simp only; a64_mem; exact hres.2
  · intro k hk1 hk2
    simp (disch := (clear * - hk1 hk2 room6; omega)) only [setMem_ne]

set_option maxHeartbeats 1600000 in
theorem fpmul_tail_hi2 (s : State) (pr pa pb pp inv : Word)
    (hr : Buf s pr 6 true) (ha : Buf s pa 6 false) (hb : Buf s pb 6 false) (hp : Buf s pp 6 false)
    (hstk : Stack s 6) (hrs : OffStack s 6 pr 6) (has : OffStack s 6 pa 6) (hbs : OffStack s 6 pb 6)
    (hps : OffStack s 6 pp 6) {a4 a5 p0 p1 p2 p3 p4 p5 l343 l367 : Word} {t240 t273 t306 t339 t342 t351 t356 t361 t365 t366 t371 t372 t374 t392 t393 t394 t395 t396 t397 : ArithRes}
    (ht375 : t375 = addWithCarry t374.val (~~~p5) true) (ht378 : t378 = addWithCarry t371.val (~~~p4) true)
    (ht381 : t381 = addWithCarry t366.val (~~~p3) true) (ht384 : t384 = addWithCarry t361.val (~~~p2) true)
    (ht392 : t392 = addWithCarry t351.val (~~~p0) true) (ht393 : t393 = addWithCarry t356.val (~~~p1) t392.c)
    (ht394 : t394 = addWithCarry t361.val (~~~p2) t393.c) (ht395 : t395 = addWithCarry t366.val (~~~p3) t394.c)
    (ht396 : t396 = addWithCarry t371.val (~~~p4) t395.c) (ht397 : t397 = addWithCarry t374.val (~~~p5) t396.c)
    (hb376 : (t375.c && !t375.z) = false) (hb377 : (!t375.c) = false) (hb379 : (t378.c && !t378.z) = false)
    (hb380 : (!t378.c) = false) (hb382 : (t381.c && !t381.z) = false) (hb383 : (!t381.c) = false)
    (hb385 : (t384.c && !t384.z) = true) :
    run embedded_pairing_core_arch_aarch64_fpbase_384_multiply ({ x0 := pr, x1 := t342.val, x2 := l343, x3 := inv, x4 := t365.val, x5 := l367, x6 := a4, x7 := a5, x8 := s.x8, x9 := p0, x10 := p1, x11 := p2, x12 := p3, x13 := p4, x14 := p5, x15 := t240.val, x16 := s.x16, x17 := s.x17, x18 := s.x18, x19 := t273.val, x20 := t306.val, x21 := t339.val, x22 := t372.val, x23 := t351.val, x24 := t356.val, x25 := t361.val, x26 := t366.val, x27 := t371.val, x28 := t374.val, x29 := s.x29, x30 := s.x30, sp := s.sp - 16#64 - 16#64 - 16#64 - 16#64 - 16#64, nf := some t374.n, zf := some t374.z, cf := some t374.c, vf := some t374.v, mem := setMem (setMem (setMem (setMem (setMem (setMem (setMem (setMem (setMem (setMem (setMem (setMem (s.mem) (s.sp.toNat - 16) s.x19) (s.sp.toNat - 16 + 8) s.x20) (s.sp.toNat - 16 - 16) s.x21) (s.sp.toNat - 16 - 16 + 8) s.x22) (s.sp.toNat - 16 - 16 - 16) s.x23) (s.sp.toNat - 16 - 16 - 16 + 8) s.x24) (s.sp.toNat - 16 - 16 - 16 - 16) s.x25) (s.sp.toNat - 16 - 16 - 16 - 16 + 8) s.x26) (s.sp.toNat - 16 - 16 - 16 - 16 - 16) s.x27) (s.sp.toNat - 16 - 16 - 16 - 16 - 16 + 8) s.x28) (s.sp.toNat - 16 - 16 - 16 - 16 - 16 - 16) pp) (s.sp.toNat - 16 - 16 - 16 - 16 - 16 - 16 + 8) inv, readable := s.readable, writable := s.writable, pc := 375, status := .running } : State) 26
      = ({ x0 := pr + 48#64, x1 := t342.val, x2 := l343, x3 := inv, x4 := t365.val, x5 := l367, x6 := a4, x7 := a5, x8 := s.x8, x9 := p0, x10 := p1, x11 := p2, x12 := p3, x13 := p4, x14 := p5, x15 := t240.val, x16 := s.x16, x17 := s.x17, x18 := s.x18, x19 := s.x19, x20 := s.x20, x21 := s.x21, x22 := s.x22, x23 := s.x23, x24 := s.x24, x25 := s.x25, x26 := s.x26, x27 := s.x27, x28 := s.x28, x29 := s.x29, x30 := s.x30, sp := s.sp, nf := some t397.n, zf := some t397.z, cf := some t397.c, vf := some t397.v, mem := setMem (setMem (setMem (setMem (setMem (setMem (setMem (setMem (setMem (setMem (setMem (setMem (setMem (setMem (setMem (setMem (setMem (setMem (s.mem) (s.sp.toNat - 16) s.x19) (s.sp.toNat - 16 + 8) s.x20) (s.sp.toNat - 16 - 16) s.x21) (s.sp.toNat - 16 - 16 + 8) s.x22) (s.sp.toNat - 16 - 16 - 16) s.x23) (s.sp.toNat - 16 - 16 - 16 + 8) s.x24) (s.sp.toNat - 16 - 16 - 16 - 16) s.x25) (s.sp.toNat - 16 - 16 - 16 - 16 + 8) s.x26) (s.sp.toNat - 16 - 16 - 16 - 16 - 16) s.x27) (s.sp.toNat - 16 - 16 - 16 - 16 - 16 + 8) s.x28) (s.sp.toNat - 16 - 16 - 16 - 16 - 16 - 16) pp) (s.sp.toNat - 16 - 16 - 16 - 16 - 16 - 16 + 8) inv) pr.toNat t392.val) (pr.toNat + 8) t393.val) (pr.toNat + 16) t394.val) (pr.toNat + 24) t395.val) (pr.toNat + 32) t396.val) (pr.toNat + 40) t397.val, readable := s.readable, writable := s.writable, pc := s.x30.toNat, status := .halted } : State) := by
  obtain ⟨ra0, ra1, ra2, ra3, ra4, ra5⟩ := ha.r6
  obtain ⟨⟨alra0, alra1, alra2, alra3, alra4, alra5⟩, fra1, fra2, fra3, fra4, fra5⟩ := ha.addr6
  obtain ⟨rb0, rb1, rb2, rb3, rb4, rb5⟩ := hb.r6
  obtain ⟨⟨alrb0, alrb1, alrb2, alrb3, alrb4, alrb5⟩, frb1, frb2, frb3, frb4, frb5⟩ := hb.addr6
  obtain ⟨rp0, rp1, rp2, rp3, rp4, rp5⟩ := hp.r6
  obtain ⟨⟨alrp0, alrp1, alrp2, alrp3, alrp4, alrp5⟩, frp1, frp2, frp3, frp4, frp5⟩ := hp.addr6
  obtain ⟨rr0, rr1, rr2, rr3, rr4, rr5⟩ := hr.r6
  obtain ⟨wr0, wr1, wr2, wr3, wr4, wr5⟩ := hr.w6
  obtain ⟨⟨alrr0, alrr1, alrr2, alrr3, alrr4, alrr5⟩, frr1, frr2, frr3, frr4, frr5⟩ := hr.addr6
  have als0 := hstk.aligned
  obtain ⟨room1, als1, alq1a, alq1b, sr1a, sr1b, sw1a, sw1b⟩ := hstk.f1 (by omega)
  obtain ⟨room2, als2, alq2a, alq2b, sr2a, sr2b, sw2a, sw2b⟩ := hstk.f2 (by omega)
  obtain ⟨room3, als3, alq3a, alq3b, sr3a, sr3b, sw3a, sw3b⟩ := hstk.f3 (by omega)
  obtain ⟨room4, als4, alq4a, alq4b, sr4a, sr4b, sw4a, sw4b⟩ := hstk.f4 (by omega)
  obtain ⟨room5, als5, alq5a, alq5b, sr5a, sr5b, sw5a, sw5b⟩ := hstk.f5 (by omega)
  obtain ⟨room6, als6, alq6a, alq6b, sr6a, sr6b, sw6a, sw6b⟩ := hstk.f6 (by omega)
  replace hrs := Hide.mk (And.intro room6 hrs); replace has := Hide.mk (And.intro room6 has)
  replace hbs := Hide.mk (And.intro room6 hbs); replace hps := Hide.mk (And.intro room6 hps)
  simp only [OffStack] at hrs has hbs hps
  clear ha hb hp hr hstk
  a64_sym [← ht375, ← ht378, ← ht381, ← ht384, ← ht392, ← ht393, ← ht394, ← ht395, ← ht396, ← ht397, hb376, hb377, hb379, hb380, hb382, hb383, hb385]

set_option maxHeartbeats 1600000 in
set_option exponentiation.threshold 800 in
theorem fpmul_end_hi2 (s : State) (pr pa pb pp inv : Word) {a4 a5 p0 p1 p2 p3 p4 p5 l343 l367 : Word} {t240 t273 t306 t339 t342 t351 t356 t361 t365 t366 t371 t372 t374 t392 t393 t394 t395 t396 t397 : ArithRes} {T U : Nat}
    (hr : Buf s pr 6 true) (ha : Buf s pa 6 false) (hb : Buf s pb 6 false) (hp : Buf s pp 6 false)
    (hstk : Stack s 6) (hrs : OffStack s 6 pr 6) (has : OffStack s 6 pa 6) (hbs : OffStack s 6 pb 6)
    (hps : OffStack s 6 pp 6)
    (ht375 : t375 = addWithCarry t374.val (~~~p5) true) (ht378 : t378 = addWithCarry t371.val (~~~p4) true)
    (ht381 : t381 = addWithCarry t366.val (~~~p3) true) (ht384 : t384 = addWithCarry t361.val (~~~p2) true)
    (ht392 : t392 = addWithCarry t351.val (~~~p0) true) (ht393 : t393 = addWithCarry t356.val (~~~p1) t392.c)
    (ht394 : t394 = addWithCarry t361.val (~~~p2) t393.c) (ht395 : t395 = addWithCarry t366.val (~~~p3) t394.c)
    (ht396 : t396 = addWithCarry t371.val (~~~p4) t395.c) (ht397 : t397 = addWithCarry t374.val (~~~p5) t396.c)
    (hb376 : (t375.c && !t375.z) = false) (hb377 : (!t375.c) = false) (hb379 : (t378.c && !t378.z) = false)
    (hb380 : (!t378.c) = false) (hb382 : (t381.c && !t381.z) = false) (hb383 : (!t381.c) = false)
    (hb385 : (t384.c && !t384.z) = true)
    (hR2 : val (2 ^ 64) [t351.val.toNat, t356.val.toNat, t361.val.toNat, t366.val.toNat, t371.val.toNat, t374.val.toNat] < 2 * val (2 ^ 64) [p0.toNat, p1.toNat, p2.toNat, p3.toNat, p4.toNat, p5.toNat])
    (hRe : 2 ^ 384 * val (2 ^ 64) [t351.val.toNat, t356.val.toNat, t361.val.toNat, t366.val.toNat, t371.val.toNat, t374.val.toNat] = T + U * val (2 ^ 64) [p0.toNat, p1.toNat, p2.toNat, p3.toNat, p4.toNat, p5.toNat]) :
    ∃ s', run embedded_pairing_core_arch_aarch64_fpbase_384_multiply ({ x0 := pr, x1 := t342.val, x2 := l343, x3 := inv, x4 := t365.val, x5 := l367, x6 := a4, x7 := a5, x8 := s.x8, x9 := p0, x10 := p1, x11 := p2, x12 := p3, x13 := p4, x14 := p5, x15 := t240.val, x16 := s.x16, x17 := s.x17, x18 := s.x18, x19 := t273.val, x20 := t306.val, x21 := t339.val, x22 := t372.val, x23 := t351.val, x24 := t356.val, x25 := t361.val, x26 := t366.val, x27 := t371.val, x28 := t374.val, x29 := s.x29, x30 := s.x30, sp := s.sp - 16#64 - 16#64 - 16#64 - 16#64 - 16#64, nf := some t374.n, zf := some t374.z, cf := some t374.c, vf := some t374.v, mem := setMem (setMem (setMem (setMem (setMem (setMem (setMem (setMem (setMem (setMem (setMem (setMem (s.mem) (s.sp.toNat - 16) s.x19) (s.sp.toNat - 16 + 8) s.x20) (s.sp.toNat - 16 - 16) s.x21) (s.sp.toNat - 16 - 16 + 8) s.x22) (s.sp.toNat - 16 - 16 - 16) s.x23) (s.sp.toNat - 16 - 16 - 16 + 8) s.x24) (s.sp.toNat - 16 - 16 - 16 - 16) s.x25) (s.sp.toNat - 16 - 16 - 16 - 16 + 8) s.x26) (s.sp.toNat - 16 - 16 - 16 - 16 - 16) s.x27) (s.sp.toNat - 16 - 16 - 16 - 16 - 16 + 8) s.x28) (s.sp.toNat - 16 - 16 - 16 - 16 - 16 - 16) pp) (s.sp.toNat - 16 - 16 - 16 - 16 - 16 - 16 + 8) inv, readable := s.readable, writable := s.writable, pc := 375, status := .running } : State) 26 = s' ∧ Returned s s' ∧
      val (2 ^ 64) [(s'.mem pr.toNat).toNat, (s'.mem (pr.toNat + 8)).toNat, (s'.mem (pr.toNat + 16)).toNat, (s'.mem (pr.toNat + 24)).toNat, (s'.mem (pr.toNat + 32)).toNat, (s'.mem (pr.toNat + 40)).toNat] < val (2 ^ 64) [p0.toNat, p1.toNat, p2.toNat, p3.toNat, p4.toNat, p5.toNat] ∧
      (val (2 ^ 64) [(s'.mem pr.toNat).toNat, (s'.mem (pr.toNat + 8)).toNat, (s'.mem (pr.toNat + 16)).toNat, (s'.mem (pr.toNat + 24)).toNat, (s'.mem (pr.toNat + 32)).toNat, (s'.mem (pr.toNat + 40)).toNat] * 2 ^ 384) % val (2 ^ 64) [p0.toNat, p1.toNat, p2.toNat, p3.toNat, p4.toNat, p5.toNat] = T % val (2 ^ 64) [p0.toNat, p1.toNat, p2.toNat, p3.toNat, p4.toNat, p5.toNat] ∧
      (∀ k, ¬(pr.toNat ≤ k ∧ k < pr.toNat + 48) → ¬(s.sp.toNat - 96 ≤ k ∧ k < s.sp.toNat) → s'.mem k = s.mem k) := by
  have ir0 := (t351.val).isLt; have ip0 := (p0).isLt
  have ir1 := (t356.val).isLt; have ip1 := (p1).isLt
  have ir2 := (t361.val).isLt; have ip2 := (p2).isLt
  have ir3 := (t366.val).isLt; have ip3 := (p3).isLt
  have ir4 := (t371.val).isLt; have ip4 := (p4).isLt
  have ir5 := (t374.val).isLt; have ip5 := (p5).isLt
  have c5 := cmp_eq ht375 hb376 hb377
  have c4 := cmp_eq ht378 hb379 hb380
  have c3 := cmp_eq ht381 hb382 hb383
  have c2 := cmp_hi ht384 hb385
  have hle : val (2 ^ 64) [p0.toNat, p1.toNat, p2.toNat, p3.toNat, p4.toNat, p5.toNat] ≤ val (2 ^ 64) [t351.val.toNat, t356.val.toNat, t361.val.toNat, t366.val.toNat, t371.val.toNat, t374.val.toNat] := by
    simp only [val_cons, val_nil]
    clear * - c5 c4 c3 c2 ir0 ip0 ir1 ip1 ir2 ip2 ir3 ip3 ir4 ip4 ir5 ip5
    omega
  have hs := sub6_val ht392 ht393 ht394 ht395 ht396 ht397
  simp only [Bool.not_true, Bool.toNat_false, Nat.add_zero] at hs
  have hres := X86.mont_result hR2 hRe (Or.inr (sub_no_borrow hs hle (X86.val6_lt t392.val t393.val t394.val t395.val t396.val t397.val)))
  have hq := fpmul_tail_hi2 s pr pa pb pp inv hr ha hb hp hstk hrs has hbs hps (t240 := t240) (t273 := t273) (t306 := t306) (t339 := t339) (t342 := t342) (t351 := t351) (t356 := t356) (t361 := t361) (t365 := t365) (t366 := t366) (t371 := t371) (t372 := t372) (t374 := t374) (t392 := t392) (t393 := t393) (t394 := t394) (t395 := t395) (t396 := t396) (t397 := t397) (a4 := a4) (a5 := a5) (p0 := p0) (p1 := p1) (p2 := p2) (p3 := p3) (p4 := p4) (p5 := p5) (l343 := l343) (l367 := l367) ht375 ht378 ht381 ht384 ht392 ht393 ht394 ht395 ht396 ht397 hb376 hb377 hb379 hb380 hb382 hb383 hb385
  obtain ⟨rr0, rr1, rr2, rr3, rr4, rr5⟩ := hr.r6
  obtain ⟨⟨alrr0, alrr1, alrr2, alrr3, alrr4, alrr5⟩, frr1, frr2, frr3, frr4, frr5⟩ := hr.addr6
  have room6 := (hstk.f6 (by omega)).1
  replace hrs := Hide.mk (And.intro room6 hrs)
  simp only [OffStack] at hrs
  refine ⟨_, hq, ⟨rfl, rfl, rfl, rfl, rfl, rfl, rfl, rfl, rfl, rfl, rfl, rfl, rfl, rfl, rfl⟩, ?_, ?_, ?_⟩
  · simp only; a64_mem; exact hres.1
  · simp only; a64_mem; exact hres.2
  · intro k hk1 hk2
    simp (disch := (clear * - hk1 hk2 room6; omega)) only [setMem_ne]

set_option maxHeartbeats 1600000 in
theorem fpmul_tail_lo2 (s : State) (pr pa pb pp inv : Word)
    (hr : Buf s pr 6 true) (ha : Buf s pa 6 false) (hb : Buf s pb 6 false) (hp : Buf s pp 6 false)
    (hstk : Stack s 6) (hrs : OffStack s 6 pr 6) (has : OffStack s 6 pa 6) (hbs : OffStack s 6 pb 6)
    (hps : OffStack s 6 pp 6) {a4 a5 p0 p1 p2 p3 p4 p5 l343 l367 : Word} {t240 t273 t306 t339 t342 t351 t356 t361 t365 t366 t371 t372 t374 t384 : ArithRes}
    (ht375 : t375 = addWithCarry t374.val (~~~p5) true) (ht378 : t378 = addWithCarry t371.val (~~~p4) true)
    (ht381 : t381 = addWithCarry t366.val (~~~p3) true) (ht384 : t384 = addWithCarry t361.val (~~~p2) true)
    (hb376 : (t375.c && !t375.z) = false) (hb377 : (!t375.c) = false) (hb379 : (t378.c && !t378.z) = false)
    (hb380 : (!t378.c) = false) (hb382 : (t381.c && !t381.z) = false) (hb383 : (!t381.c) = false)
    (hb385 : (t384.c && !t384.z) = false) (hb386 : (!t384.c) = true) :
    run embedded_pairing_core_arch_aarch64_fpbase_384_multiply ({ x0 := pr, x1 := t342.val, x2 := l343, x3 := inv, x4 := t365.val, x5 := l367, x6 := a4, x7 := a5, x8 := s.x8, x9 := p0, x10 := p1, x11 := p2, x12 := p3, x13 := p4, x14 := p5, x15 := t240.val, x16 := s.x16, x17 := s.x17, x18 := s.x18, x19 := t273.val, x20 := t306.val, x21 := t339.val, x22 := t372.val, x23 := t351.val, x24 := t356.val, x25 := t361.val, x26 := t366.val, x27 := t371.val, x28 := t374.val, x29 := s.x29, x30 := s.x30, sp := s.sp - 16#64 - 16#64 - 16#64 - 16#64 - 16#64, nf := some t374.n, zf := some t374.z, cf := some t374.c, vf := some t374.v, mem := setMem (setMem (setMem (setMem (setMem (setMem (setMem (setMem (setMem (setMem (setMem (setMem (s.mem) (s.sp.toNat - 16) s.x19) (s.sp.toNat - 16 + 8) s.x20) (s.sp.toNat - 16 - 16) s.x21) (s.sp.toNat - 16 - 16 + 8) s.x22) (s.sp.toNat - 16 - 16 - 16) s.x23) (s.sp.toNat - 16 - 16 - 16 + 8) s.x24) (s.sp.toNat - 16 - 16 - 16 - 16) s.x25) (s.sp.toNat - 16 - 16 - 16 - 16 + 8) s.x26) (s.sp.toNat - 16 - 16 - 16 - 16 - 16) s.x27) (s.sp.toNat - 16 - 16 - 16 - 16 - 16 + 8) s.x28) (s.sp.toNat - 16 - 16 - 16 - 16 - 16 - 16) pp) (s.sp.toNat - 16 - 16 - 16 - 16 - 16 - 16 + 8) inv, readable := s.readable, writable := s.writable, pc := 375, status := .running } : State) 21
      = ({ x0 := pr + 48#64, x1 := t342.val, x2 := l343, x3 := inv, x4 := t365.val, x5 := l367, x6 := a4, x7 := a5, x8 := s.x8, x9 := p0, x10 := p1, x11 := p2, x12 := p3, x13 := p4, x14 := p5, x15 := t240.val, x16 := s.x16, x17 := s.x17, x18 := s.x18, x19 := s.x19, x20 := s.x20, x21 := s.x21, x22 := s.x22, x23 := s.x23, x24 := s.x24, x25 := s.x25, x26 := s.x26, x27 := s.x27, x28 := s.x28, x29 := s.x29, x30 := s.x30, sp := s.sp, nf := some t384.n, zf := some t384.z, cf := some t384.c, vf := some t384.v, mem := setMem (setMem (setMem (setMem (setMem (setMem (setMem (setMem (setMem (setMem (setMem (setMem (setMem (setMem (setMem (setMem (setMem (setMem (s.mem) (s.sp.toNat - 16) s.x19) (s.sp.toNat - 16 + 8) s.x20) (s.sp.toNat - 16 - 16) s.x21) (s.sp.toNat - 16 - 16 + 8) s.x22) (s.sp.toNat - 16 - 16 - 16) s.x23) (s.sp.toNat - 16 - 16 - 16 + 8) s.x24) (s.sp.toNat - 16 - 16 - 16 - 16) s.x25) (s.sp.toNat - 16 - 16 - 16 - 16 + 8) s.x26) (s.sp.toNat - 16 - 16 - 16 - 16 - 16) s.x27) (s.sp.toNat - 16 - 16 - 16 - 16 - 16 + 8) s.x28) (s.sp.toNat - 16 - 16 - 16 - 16 - 16 - 16) pp) (s.sp.toNat - 16 - 16 - 16 - 16 - 16 - 16 + 8) inv) pr.toNat t351.val) (pr.toNat + 8) t356.val) (pr.toNat + 16) t361.val) (pr.toNat + 24) t366.val) (pr.toNat + 32) t371.val) (pr.toNat + 40) t374.val, readable := s.readable, writable := s.writable, pc := s.x30.toNat, status := .halted } : State) := by
  obtain ⟨ra0, ra1, ra2, ra3, ra4, ra5⟩ := ha.r6
  obtain ⟨⟨alra0, alra1, alra2, alra3, alra4, alra5⟩, fra1, fra2, fra3, fra4, fra5⟩ := ha.addr6
  obtain ⟨rb0, rb1, rb2, rb3, rb4, rb5⟩ := hb.r6
  obtain ⟨⟨alrb0, alrb1, alrb2, alrb3, alrb4, alrb5⟩, frb1, frb2, frb3, frb4, frb5⟩ := hb.addr6
  obtain ⟨rp0, rp1, rp2, rp3, rp4, rp5⟩ := hp.r6
  obtain ⟨⟨alrp0, alrp1, alrp2, alrp3, alrp4, alrp5⟩, frp1, frp2, frp3, frp4, frp5⟩ := hp.addr6
  obtain ⟨rr0, rr1, rr2, rr3, rr4, rr5⟩ := hr.r6
  obtain ⟨wr0, wr1, wr2, wr3, wr4, wr5⟩ := hr.w6
  obtain ⟨⟨alrr0, alrr1, alrr2, alrr3, alrr4, alrr5⟩, frr1, frr2, frr3, frr4, frr5⟩ := hr.addr6
  have als0 := hstk.aligned
  obtain ⟨room1, als1, alq1a, alq1b, sr1a, sr1b, sw1a, sw1b⟩ := hstk.f1 (by omega)
  obtain ⟨room2, als2, alq2a, alq2b, sr2a, sr2b, sw2a, sw2b⟩ := hstk.f2 (by omega)
  obtain ⟨room3, als3, alq3a, alq3b, sr3a, sr3b, sw3a, sw3b⟩ := hstk.f3 (by omega)
  obtain ⟨room4, als4, alq4a, alq4b, sr4a, sr4b, sw4a, sw4b⟩ := hstk.f4 (by omega)
  obtain ⟨room5, als5, alq5a, alq5b, sr5a, sr5b, sw5a, sw5b⟩ := hstk.f5 (by omega)
  obtain ⟨room6, als6, alq6a, alq6b, sr6a, sr6b, sw6a, sw6b⟩ := hstk.f6 (by omega)
  replace hrs := Hide.mk (And.intro room6 hrs); replace has := Hide.mk (And.intro room6 has)
  replace hbs := Hide.mk (And.intro room6 hbs); replace hps := Hide.mk (And.intro room6 hps)
  simp only [OffStack] at hrs has hbs hps
  clear ha hb hp hr hstk
  a64_sym [← ht375, ← ht378, ← ht381, ← ht384, hb376, hb377, hb379, hb380, hb382, hb383, hb385, hb386]

set_option maxHeartbeats 1600000 in
set_option exponentiation.threshold 800 in
theorem fpmul_end_lo2 (s : State) (pr pa pb pp inv : Word) {a4 a5 p0 p1 p2 p3 p4 p5 l343 l367 : Word} {t240 t273 t306 t339 t342 t351 t356 t361 t365 t366 t371 t372 t374 t384 : ArithRes} {T U : Nat}
    (hr : Buf s pr 6 true) (ha : Buf s pa 6 false) (hb : Buf s pb 6 false) (hp : Buf s pp 6 false)
    (hstk : Stack s 6) (hrs : OffStack s 6 pr 6) (has : OffStack s 6 pa 6) (hbs : OffStack s 6 pb 6)
    (hps : OffStack s 6 pp 6)
    (ht375 : t375 = addWithCarry t374.val (~~~p5) true) (ht378 : t378 = addWithCarry t371.val (~~~p4) true)
    (ht381 : t381 = addWithCarry t366.val (~~~p3) true) (ht384 : t384 = addWithCarry t361.val (~~~p2) true)
    (hb376 : (t375.c && !t375.z) = false) (hb377 : (!t375.c) = false) (hb379 : (t378.c && !t378.z) = false)
    (hb380 : (!t378.c) = false) (hb382 : (t381.c && !t381.z) = false) (hb383 : (!t381.c) = false)
    (hb385 : (t384.c && !t384.z) = false) (hb386 : (!t384.c) = true)
    (hR2 : val (2 ^ 64) [t351.val.toNat, t356.val.toNat, t361.val.toNat, t366.val.toNat, t371.val.toNat, t374.val.toNat] < 2 * val (2 ^ 64) [p0.toNat, p1.toNat, p2.toNat, p3.toNat, p4.toNat, p5.toNat])
    (hRe : 2 ^ 384 * val (2 ^ 64) [t351.val.toNat, t356.val.toNat, t361.val.toNat, t366.val.toNat, t371.val.toNat, t374.val.toNat] = T + U * val (2 ^ 64) [p0.toNat, p1.toNat, p2.toNat, p3.toNat, p4.toNat, p5.toNat]) :
    ∃ s', run embedded_pairing_core_arch_aarch64_fpbase_384_multiply ({ x0 := pr, x1 := t342.val, x2 := l343, x3 := inv, x4 := t365.val, x5 := l367, x6 := a4, x7 := a5, x8 := s.x8, x9 := p0, x10 := p1, x11 := p2, x12 := p3, x13 := p4, x14 := p5, x15 := t240.val, x16 := s.x16, x17 := s.x17, x18 := s.x18, x19 := t273.val, x20 := t306.val, x21 := t339.val, x22 := t372.val, x23 := t351.val, x24 := t356.val, x25 := t361.val, x26 := t366.val, x27 := t371.val, x28 := t374.val, x29 := s.x29, x30 := s.x30, sp := s.sp - 16#64 - 16#64 - 16#64 - 16#64 - 16#64, nf := some t374.n, zf := some t374.z, cf := some t374.c, vf := some t374.v, mem := setMem (setMem (setMem (setMem (setMem (setMem (setMem (setMem (setMem (setMem (setMem (setMem (s.mem) (s.sp.toNat - 16) s.x19) (s.sp.toNat - 16 + 8) s.x20) (s.sp.toNat - 16 - 16) s.x21) (s.sp.toNat - 16 - 16 + 8) s.x22) (s.sp.toNat - 16 - 16 - 16) s.x23) (s.sp.toNat - 16 - 16 - 16 + 8) s.x24) (s.sp.toNat - 16 - 16 - 16 - 16) s.x25) (s.sp.toNat - 16 - 16 - 16 - 16 + 8) s.x26) (s.sp.toNat - 16 - 16 - 16 - 16 - 16) s.x27) (s.sp.toNat - 16 - 16 - 16 - 16 - 16 + 8) s.x28) (s.sp.toNat - 16 - 16 - 16 - 16 - 16 - 16) pp) (s.sp.toNat - 16 - 16 - 16 - 16 - 16 - 16 + 8) inv, readable := s.readable, writable := s.writable, pc := 375, status := .running } : State) 21 = s' ∧ Returned s s' ∧
      val (2 ^ 64) [(s'.mem pr.toNat).toNat, (s'.mem (pr.toNat + 8)).toNat, (s'.mem (pr.toNat + 16)).toNat, (s'.mem (pr.toNat + 24)).toNat, (s'.mem (pr.toNat + 32)).toNat, (s'.mem (pr.toNat + 40)).toNat] < val (2 ^ 64) [p0.toNat, p1.toNat, p2.toNat, p3.toNat, p4.toNat, p5.toNat] ∧
      (val (2 ^ 64) [(s'.mem pr.toNat).toNat, (s'.mem (pr.toNat + 8)).toNat, (s'.mem (pr.toNat + 16)).toNat, (s'.mem (pr.toNat + 24)).toNat, (s'.mem (pr.toNat + 32)).toNat, (s'.mem (pr.toNat + 40)).toNat] * 2 ^ 384) % val (2 ^ 64) [p0.toNat, p1.toNat, p2.toNat, p3.toNat, p4.toNat, p5.toNat] = T % val (2 ^ 64) [p0.toNat, p1.toNat, p2.toNat, p3.toNat, p4.toNat, p5.toNat] ∧
      (∀ k, ¬(pr.toNat ≤ k ∧ k < pr.toNat + 48) → ¬(s.sp.toNat - 96 ≤ k ∧ k < s.sp.toNat) → s'.mem k = s.mem k) := by
  have ir0 := (t351.val).isLt; have ip0 := (p0).isLt
  have ir1 := (t356.val).isLt; have ip1 := (p1).isLt
  have ir2 := (t361.val).isLt; have ip2 := (p2).isLt
  have ir3 := (t366.val).isLt; have ip3 := (p3).isLt
  have ir4 := (t371.val).isLt; have ip4 := (p4).isLt
  have ir5 := (t374.val).isLt; have ip5 := (p5).isLt
  have c5 := cmp_eq ht375 hb376 hb377
  have c4 := cmp_eq ht378 hb379 hb380
  have c3 := cmp_eq ht381 hb382 hb383
  have c2 := cmp_lo ht384 hb386
  have hlt : val (2 ^ 64) [t351.val.toNat, t356.val.toNat, t361.val.toNat, t366.val.toNat, t371.val.toNat, t374.val.toNat] < val (2 ^ 64) [p0.toNat, p1.toNat, p2.toNat, p3.toNat, p4.toNat, p5.toNat] := by
    simp only [val_cons, val_nil]
    clear * - c5 c4 c3 c2 ir0 ip0 ir1 ip1 ir2 ip2 ir3 ip3 ir4 ip4 ir5 ip5
    omega
  have hres := X86.mont_result hR2 hRe (Or.inl ⟨rfl, hlt⟩)
  have hq := fpmul_tail_lo2 s pr pa pb pp inv hr ha hb hp hstk hrs has hbs hps (t240 := t240) (t273 := t273) (t306 := t306) (t339 := t339) (t342 := t342) (t351 := t351) (t356 := t356) (t361 := t361) (t365 := t365) (t366 := t366) (t371 := t371) (t372 := t372) (t374 := t374) (t384 := t384) (a4 := a4) (a5 := a5) (p0 := p0) (p1 := p1) (p2 := p2) (p3 := p3) (p4 := p4) (p5 := p5) (l343 := l343) (l367 := l367) ht375 ht378 ht381 ht384 hb376 hb377 hb379 hb380 hb382 hb383 hb385 hb386
  obtain ⟨rr0, rr1, rr2, rr3, rr4, rr5⟩ := hr.r6
  obtain ⟨⟨alrr0, alrr1, alrr2, alrr3, alrr4, alrr5⟩, frr1, frr2, frr3, frr4, frr5⟩ := hr.addr6
  have room6 := (hstk.f6 (by omega)).1
  replace hrs := Hide.mk (And.intro room6 hrs)
  simp only [OffStack] at hrs
  refine ⟨_, hq, ⟨rfl, rfl, rfl, rfl, rfl, rfl, rfl, rfl, rfl, rfl, rfl, rfl, rfl, rfl, rfl⟩, ?_, ?_, ?_⟩
  · simp only; a64_mem; exact hres.1
  · simp only; a64_mem; exact hres.2
  · intro k hk1 hk2
    simp (disch := (clear * - hk1 hk2 room6; omega)) only [setMem_ne]

set_option maxHeartbeats 1600000 in
theorem fpmul_tail_hi1 (s : State) (pr pa pb pp inv : Word)
    (hr : Buf s pr 6 true) (ha : Buf s pa 6 false) (hb : Buf s pb 6 false) (hp : Buf s pp 6 false)
    (hstk : Stack s 6) (hrs : OffStack s 6 pr 6) (has : OffStack s 6 pa 6) (hbs : OffStack s 6 pb 6)
    (hps : OffStack s 6 pp 6) {a4 a5 p0 p1 p2 p3 p4 p5 l343 l367 : Word} {t240 t273 t306 t339 t342 t351 t356 t361 t365 t366 t371 t372 t374 t392 t393 t394 t395 t396 t397 : ArithRes}
    (ht375 : t375 = addWithCarry t374.val (~~~p5) true) (ht378 : t378 = addWithCarry t371.val (~~~p4) true)
    (ht381 : t381 = addWithCarry t366.val (~~~p3) true) (ht384 : t384 = addWithCarry t361.val (~~~p2) true)
    (ht387 : t387 = addWithCarry t356.val (~~~p1) true) (ht392 : t392 = addWithCarry t351.val (~~~p0) true)
    (ht393 : t393 = addWithCarry t356.val (~~~p1) t392.c) (ht394 : t394 = addWithCarry t361.val (~~~p2) t393.c)
    (ht395 : t395 = addWithCarry t366.val (~~~p3) t394.c) (ht396 : t396 = addWithCarry t371.val (~~~p4) t395.c)
    (ht397 : t397 = addWithCarry t374.val (~~~p5) t396.c) (hb376 : (t375.c && !t375.z) = false)
    (hb377 : (!t375.c) = false) (hb379 : (t378.c && !t378.z) = false) (hb380 : (!t378.c) = false)
    (hb382 : (t381.c && !t381.z) = false) (hb383 : (!t381.c) = false) (hb385 : (t384.c && !t384.z) = false)
    (hb386 : (!t384.c) = false) (hb388 : (t387.c && !t387.z) = true) :
    run embedded_pairing_core_arch_aarch64_fpbase_384_multiply ({ x0 := pr, x1 := t342.val, x2 := l343, x3 := inv, x4 := t365.val, x5 := l367, x6 := a4, x7 := a5, x8 := s.x8, x9 := p0, x10 := p1, x11 := p2, x12 := p3, x13 := p4, x14 := p5, x15 := t240.val, x16 := s.x16, x17 := s.x17, x18 := s.x18, x19 := t273.val, x20 := t306.val, x21 := t339.val, x22 := t372.val, x23 := t351.val, x24 := t356.val, x25 := t361.val, x26 := t366.val, x27 := t371.val, x28 := t374.val, x29 := s.x29, x30 := s.x30, sp := s.sp - 16#64 - 16#64 - 16#64 - 16#64 - 16#64, nf := some t374.n, zf := some t374.z, cf := some t374.c, vf := some t374.v, mem := setMem (setMem (setMem (setMem (setMem (setMem (setMem (setMem (setMem (setMem (setMem (setMem (s.mem) (s.sp.toNat - 16) s.x19) (s.sp.toNat - 16 + 8) s.x20) (s.sp.toNat - 16 - 16) s.x21) (s.sp.toNat - 16 - 16 + 8) s.x22) (s.sp.toNat - 16 - 16 - 16) s.x23) (s.sp.toNat - 16 - 16 - 16 + 8) s.x24) (s.sp.toNat - 16 - 16 - 16 - 16) s.x25) (s.sp.toNat - 16 - 16 - 16 - 16 + 8) s.x26) (s.sp.toNat - 16 - 16 - 16 - 16 - 16) s.x27) (s.sp.toNat - 16 - 16 - 16 - 16 - 16 + 8) s.x28) (s.sp.toNat - 16 - 16 - 16 - 16 - 16 - 16) pp) (s.sp.toNat - 16 - 16 - 16 - 16 - 16 - 16 + 8) inv, readable := s.readable, writable := s.writable, pc := 375, status := .running } : State) 29
      = ({ x0 := pr + 48#64, x1 := t342.val, x2 := l343, x3 := inv, x4 := t365.val, x5 := l367, x6 := a4, x7 := a5, x8 := s.x8, x9 := p0, x10 := p1, x11 := p2, x12 := p3, x13 := p4, x14 := p5, x15 := t240.val, x16 := s.x16, x17 := s.x17, x18 := s.x18, x19 := s.x19, x20 := s.x20, x21 := s.x21, x22 := s.x22, x23 := s.x23, x24 := s.x24, x25 := s.x25, x26 := s.x26, x27 := s.x27, x28 := s.x28, x29 := s.x29, x30 := s.x30, sp := s.sp, nf := some t397.n, zf := some t397.z, cf := some t397.c, vf := some t397.v, mem := setMem (setMem (setMem (setMem (setMem (setMem (setMem (setMem (setMem (setMem (setMem (setMem (setMem (setMem (setMem (setMem (setMem (setMem (s.mem) (s.sp.toNat - 16) s.x19) (s.sp.toNat - 16 + 8) s.x20) (s.sp.toNat - 16 - 16) s.x21) (s.sp.toNat - 16 - 16 + 8) s.x22) (s.sp.toNat - 16 - 16 - 16) s.x23) (s.sp.toNat - 16 - 16 - 16 + 8) s.x24) (s.sp.toNat - 16 - 16 - 16 - 16) s.x25) (s.sp.toNat - 16 - 16 - 16 - 16 + 8) s.x26) (s.sp.toNat - 16 - 16 - 16 - 16 - 16) s.x27) (s.sp.toNat - 16 - 16 - 16 - 16 - 16 + 8) s.x28) (s.sp.toNat - 16 - 16 - 16 - 16 - 16 - 16) pp) (s.sp.toNat - 16 - 16 - 16 - 16 - 16 - 16 + 8) inv) pr.toNat t392.val) (pr.toNat + 8) t393.val) (pr.toNat + 16) t394.val) (pr.toNat + 24) t395.val) (pr.toNat + 32) t396.val) (pr.toNat + 40) t397.val, readable := s.readable, writable := s.writable, pc := s.x30.toNat, status := .halted } : State) := by
  obtain ⟨ra0, ra1, ra2, ra3, ra4, ra5⟩ := ha.r6
  obtain ⟨⟨alra0, alra1, alra2, alra3, alra4, alra5⟩, fra1, fra2, fra3, fra4, fra5⟩ := ha.addr6
  obtain ⟨rb0, rb1, rb2, rb3, rb4, rb5⟩ := hb.r6
  obtain ⟨⟨alrb0, alrb1, alrb2, alrb3, alrb4, alrb5⟩, frb1, frb2, frb3, frb4, frb5⟩ := hb.addr6
  obtain ⟨rp0, rp1, rp2, rp3, rp4, rp5⟩ := hp.r6
  obtain ⟨⟨alrp0, alrp1, alrp2, alrp3, alrp4, alrp5⟩, frp1, frp2, frp3, frp4, frp5⟩ := hp.addr6
  obtain ⟨rr0, rr1, rr2, rr3, rr4, rr5⟩ := hr.r6
  obtain ⟨wr0, wr1, wr2, wr3, wr4, wr5⟩ := hr.w6
  obtain ⟨⟨alrr0, alrr1, alrr2, alrr3, alrr4, alrr5⟩, frr1, frr2, frr3, frr4, frr5⟩ := hr.addr6
  have als0 := hstk.aligned
  obtain ⟨room1, als1, alq1a, alq1b, sr1a, sr1b, sw1a, sw1b⟩ := hstk.f1 (by omega)
  obtain ⟨room2, als2, alq2a, alq2b, sr2a, sr2b, sw2a, sw2b⟩ := hstk.f2 (by omega)
  obtain ⟨room3, als3, alq3a, alq3b, sr3a, sr3b, sw3a, sw3b⟩ := hstk.f3 (by omega)
  obtain ⟨room4, als4, alq4a, alq4b, sr4a, sr4b, sw4a, sw4b⟩ := hstk.f4 (by omega)
  obtain ⟨room5, als5, alq5a, alq5b, sr5a, sr5b, sw5a, sw5b⟩ := hstk.f5 (by omega)
  obtain ⟨room6, als6, alq6a, alq6b, sr6a, sr6b, sw6a, sw6b⟩ := hstk.f6 (by omega)
  replace hrs := Hide.mk (And.intro room6 hrs); replace has := Hide.mk (And.intro room6 has)
  replace hbs := Hide.mk (And.intro room6 hbs); replace hps := Hide.mk (And.intro room6 hps)
  simp only [OffStack] at hrs has hbs hps
  clear ha hb hp hr hstk
  a64_sym [← ht375, ← ht378, ← ht381, ← ht384, ← ht387, ← ht392, ← ht393, ← ht394, ← ht395, ← ht396, ← ht397, hb376, hb377, hb379, hb380, hb382, hb383, hb385, hb386, hb388]

set_option maxHeartbeats 1600000 in
set_option exponentiation.threshold 800 in
theorem fpmul_end_hi1 (s : State) (pr pa pb pp inv : Word) {a4 a5 p0 p1 p2 p3 p4 p5 l343 l367 : Word} {t240 t273 t306 t339 t342 t351 t356 t361 t365 t366 t371 t372 t374 t392 t393 t394 t395 t396 t397 : ArithRes} {T U : Nat}
    (hr : Buf s pr 6 true) (ha : Buf s pa 6 false) (hb : Buf s pb 6 false) (hp : Buf s pp 6 false)
    (hstk : Stack s 6) (hrs : OffStack s 6 pr 6) (has : OffStack s 6 pa 6) (hbs : OffStack s 6 pb 6)
    (hps : OffStack s 6 pp 6)
    (ht375 : t375 = addWithCarry t374.val (~~~p5) true) (ht378 : t378 = addWithCarry t371.val (~~~p4) true)
    (ht381 : t381 = addWithCarry t366.val (~~~p3) true) (ht384 : t384 = addWithCarry t361.val (~~~p2) true)
    (ht387 : t387 = addWithCarry t356.val (~~~p1) true) (ht392 : t392 = addWithCarry t351.val (~~~p0) true)
    (ht393 : t393 = addWithCarry t356.val (~~~p1) t392.c) (ht394 : t394 = addWithCarry t361.val (~~~p2) t393.c)
    (ht395 : t395 = addWithCarry t366.val (~~~p3) t394.c) (ht396 : t396 = addWithCarry t371.val (~~~p4) t395.c)
    (ht397 : t397 = addWithCarry t374.val (~~~p5) t396.c) (hb376 : (t375.c && !t375.z) = false)
    (hb377 : (!t375.c) = false) (hb379 : (t378.c && !t378.z) = false) (hb380 : (!t378.c) = false)
    (hb382 : (t381.c && !t381.z) = false) (hb383 : (!t381.c) = false) (hb385 : (t384.c && !t384.z) = false)
    (hb386 : (!t384.c) = false) (hb388 : (t387.c && !t387.z) = true)
    (hR2 : val (2 ^ 64) [t351.val.toNat, t356.val.toNat, t361.val.toNat, t366.val.toNat, t371.val.toNat, t374.val.toNat] < 2 * val (2 ^ 64) [p0.toNat, p1.toNat, p2.toNat, p3.toNat, p4.toNat, p5.toNat])
    (hRe : 2 ^ 384 * val (2 ^ 64) [t351.val.toNat, t356.val.toNat, t361.val.toNat, t366.val.toNat, t371.val.toNat, t374.val.toNat] = T + U * val (2 ^ 64) [p0.toNat, p1.toNat, p2.toNat, p3.toNat, p4.toNat, p5.toNat]) :
    ∃ s', run embedded_pairing_core_arch_aarch64_fpbase_384_multiply ({ x0 := pr, x1 := t342.val, x2 := l343, x3 := inv, x4 := t365.val, x5 := l367, x6 := a4, x7 := a5, x8 := s.x8, x9 := p0, x10 := p1, x11 := p2, x12 := p3, x13 := p4, x14 := p5, x15 := t240.val, x16 := s.x16, x17 := s.x17, x18 := s.x18, x19 := t273.val, x20 := t306.val, x21 := t339.val, x22 := t372.val, x23 := t351.val, x24 := t356.val, x25 := t361.val, x26 := t366.val, x27 := t371.val, x28 := t374.val, x29 := s.x29, x30 := s.x30, sp := s.sp - 16#64 - 16#64 - 16#64 - 16#64 - 16#64, nf := some t374.n, zf := some t374.z, cf := some t374.c, vf := some t374.v, mem := setMem (setMem (setMem (setMem (setMem (setMem (setMem (setMem (setMem (setMem (setMem (setMem (s.mem) (s.sp.toNat - 16) s.x19) (s.sp.toNat - 16 + 8) s.x20) (s.sp.toNat - 16 - 16) s.x21) (s.sp.toNat - 16 - 16 + 8) s.x22) (s.sp.toNat - 16 - 16 - 16) s.x23) (s.sp.toNat - 16 - 16 - 16 + 8) s.x24) (s.sp.toNat - 16 - 16 - 16 - 16) s.x25) (s.sp.toNat - 16 - 16 - 16 - 16 + 8) s.x26) (s.sp.toNat - 16 - 16 - 16 - 16 - 16) s.x27) (s.sp.toNat - 16 - 16 - 16 - 16 - 16 + 8) s.x28) (s.sp.toNat - 16 - 16 - 16 - 16 - 16 - 16) pp) (s.sp.toNat - 16 - 16 - 16 - 16 - 16 - 16 + 8) inv, readable := s.readable, writable := s.writable, pc := 375, status := .running } : State) 29 = s' ∧ Returned s s' ∧
      val (2 ^ 64) [(s'.mem pr.toNat).toNat, (s'.mem (pr.toNat + 8)).toNat, (s'.mem (pr.toNat + 16)).toNat, (s'.mem (pr.toNat + 24)).toNat, (s'.mem (pr.toNat + 32)).toNat, (s'.mem (pr.toNat + 40)).toNat] < val (2 ^ 64) [p0.toNat, p1.toNat, p2.toNat, p3.toNat, p4.toNat, p5.toNat] ∧
      (val (2 ^ 64) [(s'.mem pr.toNat).toNat, (s'.mem (pr.toNat + 8)).toNat, (s'.mem (pr.toNat + 16)).toNat, (s'.mem (pr.toNat + 24)).toNat, (s'.mem (pr.toNat + 32)).toNat, (s'.mem (pr.toNat + 40)).toNat] * 2 ^ 384) % val (2 ^ 64) [p0.toNat, p1.toNat, p2.toNat, p3.toNat, p4.toNat, p5.toNat] = T % val (2 ^ 64) [p0.toNat, p1.toNat, p2.toNat, p3.toNat, p4.toNat, p5.toNat] ∧
      (∀ k, ¬(pr.toNat ≤ k ∧ k < pr.toNat + 48) → ¬(s.sp.toNat - 96 ≤ k ∧ k < s.sp.toNat) → s'.mem k = s.mem k) := by
  have ir0 := (t351.val).isLt; have ip0 := (p0).isLt
  have ir1 := (t356.val).isLt; have ip1 := (p1).isLt
  have ir2 := (t361.val).isLt; have ip2 := (p2).isLt
  have ir3 := (t366.val).isLt; have ip3 := (p3).isLt
  have ir4 := (t371.val).isLt; have ip4 := (p4).isLt
  have ir5 := (t374.val).isLt; have ip5 := (p5).isLt
  have c5 := cmp_eq ht375 hb376 hb377
  have c4 := cmp_eq ht378 hb379 hb380
  have c3 := cmp_eq ht381 hb382 hb383
  have c2 := cmp_eq ht384 hb385 hb386
  have c1 := cmp_hi ht387 hb388
  have hle : val (2 ^ 64) [p0.toNat, p1.toNat, p2.toNat, p3.toNat, p4.toNat, p5.toNat] ≤ val (2 ^ 64) [t351.val.toNat, t356.val.toNat, t361.val.toNat, t366.val.toNat, t371.val.toNat, t374.val.toNat] := by
    simp only [val_cons, val_nil]
    clear * - c5 c4 c3 c2 c1 ir0 ip0 ir1 ip1 ir2 ip2 ir3 ip3 ir4 ip4 ir5 ip5
    omega
  have hs := sub6_val ht392 ht393 ht394 ht395 ht396 ht397
  simp only [Bool.not_true, Bool.toNat_false, Nat.add_zero] at hs
  have hres := X86.mont_result hR2 hRe (Or.inr (sub_no_borrow hs hle (X86.val6_lt t392.val t393.val t394.val t395.val t396.val t397.val)))
  have hq := fpmul_tail_hi1 s pr pa pb pp inv hr ha hb hp hstk hrs has hbs hps (t240 := t240) (t273 := t273) (t306 := t306) (t339 := t339) (t342 := t342) (t351 := t351) (t356 := t356) (t361 := t361) (t365 := t365) (t366 := t366) (t371 := t371) (t372 := t372) (t374 := t374) (t392 := t392) (t393 := t393) (t394 := t394) (t395 := t395) (t396 := t396) (t397 := t397) (a4 := a4) (a5 := a5) (p0 := p0) (p1 := p1) (p2 := p2) (p3 := p3) (p4 := p4) (p5 := p5) (l343 := l343) (l367 := l367) ht375 ht378 ht381 ht384 ht387 ht392 ht393 ht394 ht395 ht396 ht397 hb376 hb377 hb379 hb380 hb382 hb383 hb385 hb386 hb388
  obtain ⟨rr0, rr1, rr2, rr3, rr4, rr5⟩ := hr.r6
  obtain ⟨⟨alrr0, alrr1, alrr2, alrr3, alrr4, alrr5⟩, frr1, frr2, frr3, frr4, frr5⟩ := hr.addr6
  have room6 := (hstk.f6 (by omega)).1
  replace hrs := Hide.mk (And.intro room6 hrs)
  simp only [OffStack] at hrs
  refine ⟨_, hq, ⟨rfl, rfl, rfl, rfl, rfl, rfl, rfl, rfl, rfl, rfl, rfl, rfl, rfl, rfl, rfl⟩, ?_, ?_, ?_⟩
  · simp only; a64_mem; exact hres.1
  · simp only; a64_mem; exact hres.2
  · intro k hk1 hk2
    simp (disch := (clear * - hk1 hk2 room6; omega)) only [setMem_ne]

set_option maxHeartbeats 1600000 in
theorem fpmul_tail_lo1 (s : State) (pr pa pb pp inv : Word)
    (hr : Buf s pr 6 true) (ha : Buf s pa 6 false) (hb : Buf s pb 6 false) (hp : Buf s pp 6 false)
    (hstk : Stack s 6) (hrs : OffStack s 6 pr 6) (has : OffStack s 6 pa 6) (hbs : OffStack s 6 pb 6)
    (hps : OffStack s 6 pp 6) {a4 a5 p0 p1 p2 p3 p4 p5 l343 l367 : Word} {t240 t273 t306 t339 t342 t351 t356 t361 t365 t366 t371 t372 t374 t387 : ArithRes}
    (ht375 : t375 = addWithCarry t374.val (~~~p5) true) (ht378 : t378 = addWithCarry t371.val (~~~p4) true)
    (ht381 : t381 = addWithCarry t366.val (~~~p3) true) (ht384 : t384 = addWithCarry t361.val (~~~p2) true)
    (ht387 : t387 = addWithCarry t356.val (~~~p1) true) (hb376 : (t375.c && !t375.z) = false) (hb377 : (!t375.c) = false)
    (hb379 : (t378.c && !t378.z) = false) (hb380 : (!t378.c) = false) (hb382 : (t381.c && !t381.z) = false)
    (hb383 : (!t381.c) = false) (hb385 : (t384.c && !t384.z) = false) (hb386 : (!t384.c) = false)
    (hb388 : (t387.c && !t387.z) = false) (hb389 : (!t387.c) = true) :
    run embedded_pairing_core_arch_aarch64_fpbase_384_multiply ({ x0 := pr, x1 := t342.val, x2 := l343, x3 := inv, x4 := t365.val, x5 := l367, x6 := a4, x7 := a5, x8 := s.x8, x9 := p0, x10 := p1, x11 := p2, x12 := p3, x13 := p4, x14 := p5, x15 := t240.val, x16 := s.x16, x17 := s.x17, x18 := s.x18, x19 := t273.val, x20 := t306.val, x21 := t339.val, x22 := t372.val, x23 := t351.val, x24 := t356.val, x25 := t361.val, x26 := t366.val, x27 := t371.val, x28 := t374.val, x29 := s.x29, x30 := s.x30, sp := s.sp - 16#64 - 16#64 - 16#64 - 16#64 - 16#64, nf := some t374.n, zf := some t374.z, cf := some t374.c, vf := some t374.v, mem := setMem (setMem (setMem (setMem (setMem (setMem (setMem (setMem (setMem (setMem (setMem (setMem (s.mem) (s.sp.toNat - 16) s.x19) (s.sp.toNat - 16 + 8) s.x20) (s.sp.toNat - 16 - 16) s.x21) (s.sp.toNat - 16 - 16 + 8) s.x22) (s.sp.toNat - 16 - 16 - 16) s.x23) (s.sp.toNat - 16 - 16 - 16 + 8) s.x24) (s.sp.toNat - 16 - 16 - 16 - 16) s.x25) (s.sp.toNat - 16 - 16 - 16 - 16 + 8) s.x26) (s.sp.toNat - 16 - 16 - 16 - 16 - 16) s.x27) (s.sp.toNat - 16 - 16 - 16 - 16 - 16 + 8) s.x28) (s.sp.toNat - 16 - 16 - 16 - 16 - 16 - 16) pp) (s.sp.toNat - 16 - 16 - 16 - 16 - 16 - 16 + 8) inv, readable := s.readable, writable := s.writable, pc := 375, status := .running } : State) 24
      = ({ x0 := pr + 48#64, x1 := t342.val, x2 := l343, x3 := inv, x4 := t365.val, x5 := l367, x6 := a4, x7 := a5, x8 := s.x8, x9 := p0, x10 := p1, x11 := p2, x12 := p3, x13 := p4, x14 := p5, x15 := t240.val, x16 := s.x16, x17 := s.x17, x18 := s.x18, x19 := s.x19, x20 := s.x20, x21 := s.x21, x22 := s.x22, x23 := s.x23, x24 := s.x24, x25 := s.x25, x26 := s.x26, x27 := s.x27, x28 := s.x28, x29 := s.x29, x30 := s.x30, sp := s.sp, nf := some t387.n, zf := some t387.z, cf := some t387.c, vf := some t387.v, mem := setMem (setMem (setMem (setMem (setMem (setMem (setMem (setMem (setMem (setMem (setMem (setMem (setMem (setMem (setMem (setMem (setMem (setMem (s.mem) (s.sp.toNat - 16) s.x19) (s.sp.toNat - 16 + 8) s.x20) (s.sp.toNat - 16 - 16) s.x21) (s.sp.toNat - 16 - 16 + 8) s.x22) (s.sp.toNat - 16 - 16 - 16) s.x23) (s.sp.toNat - 16 - 16 - 16 + 8) s.x24) (s.sp.toNat - 16 - 16 - 16 - 16) s.x25) (s.sp.toNat - 16 - 16 - 16 - 16 + 8) s.x26) (s.sp.toNat - 16 - 16 - 16 - 16 - 16) s.x27) (s.sp.toNat - 16 - 16 - 16 - 16 - 16 + 8) s.x28) (s.sp.toNat - 16 - 16 - 16 - 16 - 16 - 16) pp) (s.sp.toNat - 16 - 16 - 16 - 16 - 16 - 16 + 8) inv) pr.toNat t351.val) (pr.toNat + 8) t356.val) (pr.toNat + 16) t361.val) (pr.toNat + 24) t366.val) (pr.toNat + 32) t371.val) (pr.toNat + 40) t374.val, readable := s.readable, writable := s.writable, pc := s.x30.toNat, status := .halted } : State) := by
  obtain ⟨ra0, ra1, ra2, ra3, ra4, ra5⟩ := ha.r6
  obtain ⟨⟨alra0, alra1, alra2, alra3, alra4, alra5⟩, fra1, fra2, fra3, fra4, fra5⟩ := ha.addr6
  obtain ⟨rb0, rb1, rb2, rb3, rb4, rb5⟩ := hb.r6
  obtain ⟨⟨alrb0, alrb1, alrb2, alrb3, alrb4, alrb5⟩, frb1, frb2, frb3, frb4, frb5⟩ := hb.addr6
  obtain ⟨rp0, rp1, rp2, rp3, rp4, rp5⟩ := hp.r6
  obtain ⟨⟨alrp0, alrp1, alrp2, alrp3, alrp4, alrp5⟩, frp1, frp2, frp3, frp4, frp5⟩ := hp.addr6
  obtain ⟨rr0, rr1, rr2, rr3, rr4, rr5⟩ := hr.r6
  obtain ⟨wr0, wr1, wr2, wr3, wr4, wr5⟩ := hr.w6
  obtain ⟨⟨alrr0, alrr1, alrr2, alrr3, alrr4, alrr5⟩, frr1, frr2, frr3, frr4, frr5⟩ := hr.addr6
  have als0 := hstk.aligned
  obtain ⟨room1, als1, alq1a, alq1b, sr1a, sr1b, sw1a, sw1b⟩ := hstk.f1 (by omega)
  obtain ⟨room2, als2, alq2a, alq2b, sr2a, sr2b, sw2a, sw2b⟩ := hstk.f2 (by omega)
  obtain ⟨room3, als3, alq3a, alq3b, sr3a, sr3b, sw3a, sw3b⟩ := hstk.f3 (by omega)
  obtain ⟨room4, als4, alq4a, alq4b, sr4a, sr4b, sw4a, sw4b⟩ := hstk.f4 (by omega)
  obtain ⟨room5, als5, alq5a, alq5b, sr5a, sr5b, sw5a, sw5b⟩ := hstk.f5 (by omega)
  obtain ⟨room6, als6, alq6a, alq6b, sr6a, sr6b, sw6a, sw6b⟩ := hstk.f6 (by omega)
  replace hrs := Hide.mk (And.intro room6 hrs); replace has := Hide.mk (And.intro room6 has)
  replace hbs := Hide.mk (And.intro room6 hbs); replace hps := Hide.mk (And.intro room6 hps)
  simp only [OffStack] at hrs has hbs hps
  clear ha hb hp hr hstk
  a64_sym [← ht375, ← ht378, ← ht381, ← ht384, ← ht387, hb376, hb377, hb379, hb380, hb382, hb383, hb385, hb386, hb388, hb389]

set_option maxHeartbeats 1600000 in
set_option exponentiation.threshold 800 in
theorem fpmul_end_lo1 (s : State) (pr pa pb pp inv : Word) {a4 a5 p0 p1 p2 p3 p4 p5 l343 l367 : Word} {t240 t273 t306 t339 t342 t351 t356 t361 t365 t366 t371 t372 t374 t387 : ArithRes} {T U : Nat}
    (hr : Buf s pr 6 true) (ha : Buf s pa 6 false) (hb : Buf s pb 6 false) (hp : Buf s pp 6 false)
    (hstk : Stack s 6) (hrs : OffStack s 6 pr 6) (has : OffStack s 6 pa 6) (hbs : OffStack s 6 pb 6)
    (hps : OffStack s 6 pp 6)
    (ht375 : t375 = addWithCarry t374.val (~~~p5) true) (ht378 : t378 = addWithCarry t371.val (~~~p4) true)
    (ht381 : t381 = addWithCarry t366.val (~~~p3) true) (ht384 : t384 = addWithCarry t361.val (~~~p2) true)
    (ht387 : t387 = addWithCarry t356.val (~~~p1) true) (hb376 : (t375.c && !t375.z) = false) (hb377 : (!t375.c) = false)
    (hb379 : (t378.c && !t378.z) = false) (hb380 : (!t378.c) = false) (hb382 : (t381.c && !t381.z) = false)
    (hb383 : (!t381.c) = false) (hb385 : (t384.c && !t384.z) = false) (hb386 : (!t384.c) = false)
    (hb388 : (t387.c && !t387.z) = false) (hb389 : (!t387.c) = true)
    (hR2 : val (2 ^ 64) [t351.val.toNat, t356.val.toNat, t361.val.toNat, t366.val.toNat, t371.val.toNat, t374.val.toNat] < 2 * val (2 ^ 64) [p0.toNat, p1.toNat, p2.toNat, p3.toNat, p4.toNat, p5.toNat])
    (hRe : 2 ^ 384 * val (2 ^ 64) [t351.val.toNat, t356.val.toNat, t361.val.toNat, t366.val.toNat, t371.val.toNat, t374.val.toNat] = T + U * val (2 ^ 64) [p0.toNat, p1.toNat, p2.toNat, p3.toNat, p4.toNat, p5.toNat]) :
    ∃ s', run embedded_pairing_core_arch_aarch64_fpbase_384_multiply ({ x0 := pr, x1 := t342.val, x2 := l343, x3 := inv, x4 := t365.val, x5 := l367, x6 := a4, x7 := a5, x8 := s.x8, x9 := p0, x10 := p1, x11 := p2, x12 := p3, x13 := p4, x14 := p5, x15 := t240.val, x16 := s.x16, x17 := s.x17, x18 := s.x18, x19 := t273.val, x20 := t306.val, x21 := t339.val, x22 := t372.val, x23 := t351.val, x24 := t356.val, x25 := t361.val, x26 := t366.val, x27 := t371.val, x28 := t374.val, x29 := s.x29, x30 := s.x30, sp := s.sp - 16#64 - 16#64 - 16#64 - 16#64 - 16#64, nf := some t374.n, zf := some t374.z, cf := some t374.c, vf := some t374.v, mem := setMem (setMem (setMem (setMem (setMem (setMem (setMem (setMem (setMem (setMem (setMem (setMem (s.mem) (s.sp.toNat - 16) s.x19) (s.sp.toNat - 16 + 8) s.x20) (s.sp.toNat - 16 - 16) s.x21) (s.sp.toNat - 16 - 16 + 8) s.x22) (s.sp.toNat - 16 - 16 - 16) s.x23) (s.sp.toNat - 16 - 16 - 16 + 8) s.x24) (s.sp.toNat - 16 - 16 - 16 - 16) s.x25) (s.sp.toNat - 16 - 16 - 16 - 16 + 8) s.x26) (s.sp.toNat - 16 - 16 - 16 - 16 - 16) s.x27) (s.sp.toNat - 16 - 16 - 16 - 16 - 16 + 8) s.x28) (s.sp.toNat - 16 - 16 - 16 - 16 - 16 - 16) pp) (s.sp.toNat - 16 - 16 - 16 - 16 - 16 - 16 + 8) inv, readable := s.readable, writable := s.writable, pc := 375, status := .running } : State) 24 = s' ∧ Returned s s' ∧
      val (2 ^ 64) [(s'.mem pr.toNat).toNat, (s'.mem (pr.toNat + 8)).toNat, (s'.mem (pr.toNat + 16)).toNat, (s'.mem (pr.toNat + 24)).toNat, (s'.mem (pr.toNat + 32)).toNat, (s'.mem (pr.toNat + 40)).toNat] < val (2 ^ 64) [p0.toNat, p1.toNat, p2.toNat, p3.toNat, p4.toNat, p5.toNat] ∧
      (val (2 ^ 64) [(s'.mem pr.toNat).toNat, (s'.mem (pr.toNat + 8)).toNat, (s'.mem (pr.toNat + 16)).toNat, (s'.mem (pr.toNat + 24)).toNat, (s'.mem (pr.toNat + 32)).toNat, (s'.mem (pr.toNat + 40)).toNat] * 2 ^ 384) % val (2 ^ 64) [p0.toNat, p1.toNat, p2.toNat, p3.toNat, p4.toNat, p5.toNat] = T % val (2 ^ 64) [p0.toNat, p1.toNat, p2.toNat, p3.toNat, p4.toNat, p5.toNat] ∧
      (∀ k, ¬(pr.toNat ≤ k ∧ k < pr.toNat + 48) → ¬(s.sp.toNat - 96 ≤ k ∧ k < s.sp.toNat) → s'.mem k = s.mem k) := by
  have ir0 := (t351.val).isLt; have ip0 := (p0).isLt
  have ir1 := (t356.val).isLt; have ip1 := (p1).isLt
  have ir2 := (t361.val).isLt; have ip2 := (p2).isLt
  have ir3 := (t366.val).isLt; have ip3 := (p3).isLt
  have ir4 := (t371.val).isLt; have ip4 := (p4).isLt
  have ir5 := (t374.val).isLt; have ip5 := (p5).isLt
  have c5 := cmp_eq ht375 hb376 hb377
  have c4 := cmp_eq ht378 hb379 hb380
  have c3 := cmp_eq ht381 hb382 hb383
  have c2 := cmp_eq ht384 hb385 hb386
  have c1 := cmp_lo ht387 hb389
  have hlt : val (2 ^ 64) [t351.val.toNat, t356.val.toNat, t361.val.toNat, t366.val.toNat, t371.val.toNat, t374.val.toNat] < val (2 ^ 64) [p0.toNat, p1.toNat, p2.toNat, p3.toNat, p4.toNat, p5.toNat] := by
    simp only [val_cons, val_nil]
    clear * - c5 c4 c3 c2 c1 ir0 ip0 ir1 ip1 ir2 ip2 ir3 ip3 ir4 ip4 ir5 ip5
    omega
  have hres := X86.mont_result hR2 hRe (Or.inl ⟨rfl, hlt⟩)
  have hq := fpmul_tail_lo1 s pr pa pb pp inv hr ha hb hp hstk hrs has hbs hps (t240 := t240) (t273 := t273) (t306 := t306) (t339 := t339) (t342 := t342) (t351 := t351) (t356 := t356) (t361 := t361) (t365 := t365) (t366 := t366) (t371 := t371) (t372 := t372) (t374 := t374) (t387 := t387) (a4 := a4) (a5 := a5) (p0 := p0) (p1 := p1) (p2 := p2) (p3 := p3) (p4 := p4) (p5 := p5) (l343 := l343) (l367 := l367) ht375 ht378 ht381 ht384 ht387 hb376 hb377 hb379 hb380 hb382 hb383 hb385 hb386 hb388 hb389
  obtain ⟨rr0, rr1, rr2, rr3, rr4, rr5⟩ := hr.r6
  obtain ⟨⟨alrr0, alrr1, alrr2, alrr3, alrr4, alrr5⟩, frr1, frr2, frr3, frr4, frr5⟩ := hr.addr6
  have room6 := (hstk.f6 (by omega)).1
  replace hrs := Hide.mk (And.intro room6 hrs)
  simp only [OffStack] at hrs
  refine ⟨_, hq, ⟨rfl, rfl, rfl, rfl, rfl, rfl, rfl, rfl, rfl, rfl, rfl, rfl, rfl, rfl, rfl⟩, ?_, ?_, ?_⟩
  · simp only; a64_mem; exact hres.1
  · simp only; a64_mem; exact hres.2
  · intro k hk1 hk2
    simp (disch := (clear * - hk1 hk2 room6; omega)) only [setMem_ne]

set_option maxHeartbeats 1600000 in
theorem fpmul_tail_lo0 (s : State) (pr pa pb pp inv : Word)
    (hr : Buf s pr 6 true) (ha : Buf s pa 6 false) (hb : Buf s pb 6 false) (hp : Buf s pp 6 false)
    (hstk : Stack s 6) (hrs : OffStack s 6 pr 6) (has : OffStack s 6 pa 6) (hbs : OffStack s 6 pb 6)
    (hps : OffStack s 6 pp 6) {a4 a5 p0 p1 p2 p3 p4 p5 l343 l367 : Word} {t240 t273 t306 t339 t342 t351 t356 t361 t365 t366 t371 t372 t374 t390 : ArithRes}
    (ht375 : t375 = addWithCarry t374.val (~~~p5) true) (ht378 : t378 = addWithCarry t371.val (~~~p4) true)
    (ht381 : t381 = addWithCarry t366.val (~~~p3) true) (ht384 : t384 = addWithCarry t361.val (~~~p2) true)
    (ht387 : t387 = addWithCarry t356.val (~~~p1) true) (ht390 : t390 = addWithCarry t351.val (~~~p0) true)
    (hb376 : (t375.c && !t375.z) = false) (hb377 : (!t375.c) = false) (hb379 : (t378.c && !t378.z) = false)
    (hb380 : (!t378.c) = false) (hb382 : (t381.c && !t381.z) = false) (hb383 : (!t381.c) = false)
    (hb385 : (t384.c && !t384.z) = false) (hb386 : (!t384.c) = false) (hb388 : (t387.c && !t387.z) = false)
    (hb389 : (!t387.c) = false) (hb391 : (!t390.c) = true) :
    run embedded_pairing_core_arch_aarch64_fpbase_384_multiply ({ x0 := pr, x1 := t342.val, x2 := l343, x3 := inv, x4 := t365.val, x5 := l367, x6 := a4, x7 := a5, x8 := s.x8, x9 := p0, x10 := p1, x11 := p2, x12 := p3, x13 := p4, x14 := p5, x15 := t240.val, x16 := s.x16, x17 := s.x17, x18 := s.x18, x19 := t273.val, x20 := t306.val, x21 := t339.val, x22 := t372.val, x23 := t351.val, x24 := t356.val, x25 := t361.val, x26 := t366.val, x27 := t371.val, x28 := t374.val, x29 := s.x29, x30 := s.x30, sp := s.sp - 16#64 - 16#64 - 16#64 - 16#64 - 16#64, nf := some t374.n, zf := some t374.z, cf := some t374.c, vf := some t374.v, mem := setMem (setMem (setMem (setMem (setMem (setMem (setMem (setMem (setMem (setMem (setMem (setMem (s.mem) (s.sp.toNat - 16) s.x19) (s.sp.toNat - 16 + 8) s.x20) (s.sp.toNat - 16 - 16) s.x21) (s.sp.toNat - 16 - 16 + 8) s.x22) (s.sp.toNat - 16 - 16 - 16) s.x23) (s.sp.toNat - 16 - 16 - 16 + 8) s.x24) (s.sp.toNat - 16 - 16 - 16 - 16) s.x25) (s.sp.toNat - 16 - 16 - 16 - 16 + 8) s.x26) (s.sp.toNat - 16 - 16 - 16 - 16 - 16) s.x27) (s.sp.toNat - 16 - 16 - 16 - 16 - 16 + 8) s.x28) (s.sp.toNat - 16 - 16 - 16 - 16 - 16 - 16) pp) (s.sp.toNat - 16 - 16 - 16 - 16 - 16 - 16 + 8) inv, readable := s.readable, writable := s.writable, pc := 375, status := .running } : State) 26
      = ({ x0 := pr + 48#64, x1 := t342.val, x2 := l343, x3 := inv, x4 := t365.val, x5 := l367, x6 := a4, x7 := a5, x8 := s.x8, x9 := p0, x10 := p1, x11 := p2, x12 := p3, x13 := p4, x14 := p5, x15 := t240.val, x16 := s.x16, x17 := s.x17, x18 := s.x18, x19 := s.x19, x20 := s.x20, x21 := s.x21, x22 := s.x22, x23 := s.x23, x24 := s.x24, x25 := s.x25, x26 := s.x26, x27 := s.x27, x28 := s.x28, x29 := s.x29, x30 := s.x30, sp := s.sp, nf := some t390.n, zf := some t390.z, cf := some t390.c, vf := some t390.v, mem := setMem (setMem (setMem (setMem (setMem (setMem (setMem (setMem (setMem (setMem (setMem (setMem (setMem (setMem (setMem (setMem (setMem (setMem (s.mem) (s.sp.toNat - 16) s.x19) (s.sp.toNat - 16 + 8) s.x20) (s.sp.toNat - 16 - 16) s.x21) (s.sp.toNat - 16 - 16 + 8) s.x22) (s.sp.toNat - 16 - 16 - 16) s.x23) (s.sp.toNat - 16 - 16 - 16 + 8) s.x24) (s.sp.toNat - 16 - 16 - 16 - 16) s.x25) (s.sp.toNat - 16 - 16 - 16 - 16 + 8) s.x26) (s.sp.toNat - 16 - 16 - 16 - 16 - 16) s.x27) (s.sp.toNat - 16 - 16 - 16 - 16 - 16 + 8) s.x28) (s.sp.toNat - 16 - 16 - 16 - 16 - 16 - 16) pp) (s.sp.toNat - 16 - 16 - 16 - 16 - 16 - 16 + 8) inv) pr.toNat t351.val) (pr.toNat + 8) t356.val) (pr.toNat + 16) t361.val) (pr.toNat + 24) t366.val) (pr.toNat + 32) t371.val) (pr.toNat + 40) t374.val, readable := s.readable, writable := s.writable, pc := s.x30.toNat, status := .halted } : State) := by
  obtain ⟨ra0, ra1, ra2, ra3, ra4, ra5⟩ := ha.r6
  obtain ⟨⟨alra0, alra1, alra2, alra3, alra4, alra5⟩, fra1, fra2, fra3, fra4, fra5⟩ := ha.addr6
  obtain ⟨rb0, rb1, rb2, rb3, rb4, rb5⟩ := hb.r6
  obtain ⟨⟨alrb0, alrb1, alrb2, alrb3, alrb4, alrb5⟩, frb1, frb2, frb3, frb4, frb5⟩ := hb.addr6
  obtain ⟨rp0, rp1, rp2, rp3, rp4, rp5⟩ := hp.r6
  obtain ⟨⟨alrp0, alrp1, alrp2, alrp3, alrp4, alrp5⟩, frp1, frp2, frp3, frp4, frp5⟩ := hp.addr6
  obtain ⟨rr0, rr1, rr2, rr3, rr4, rr5⟩ := hr.r6
  obtain ⟨wr0, wr1, wr2, wr3, wr4, wr5⟩ := hr.w6
  obtain ⟨⟨alrr0, alrr1, alrr2, alrr3, alrr4, alrr5⟩, frr1, frr2, frr3, frr4, frr5⟩ := hr.addr6
  have als0 := hstk.aligned
  obtain ⟨room1, als1, alq1a, alq1b, sr1a, sr1b, sw1a, sw1b⟩ := hstk.f1 (by omega)
  obtain ⟨room2, als2, alq2a, alq2b, sr2a, sr2b, sw2a, sw2b⟩ := hstk.f2 (by omega)
  obtain ⟨room3, als3, alq3a, alq3b, sr3a, sr3b, sw3a, sw3b⟩ := hstk.f3 (by omega)
  obtain ⟨room4, als4, alq4a, alq4b, sr4a, sr4b, sw4a, sw4b⟩ := hstk.f4 (by omega)
  obtain ⟨room5, als5, alq5a, alq5b, sr5a, sr5b, sw5a, sw5b⟩ := hstk.f5 (by omega)
  obtain ⟨room6, als6, alq6a, alq6b, sr6a, sr6b, sw6a, sw6b⟩ := hstk.f6 (by omega)
  replace hrs := Hide.mk (And.intro room6 hrs); replace has := Hide.mk (And.intro room6 has)
  replace hbs := Hide.mk (And.intro room6 hbs); replace hps := Hide.mk (And.intro room6 hps)
  simp only [OffStack] at hrs has hbs hps
  clear ha hb hp hr hstk
  a64_sym [← ht375, ← ht378, ← ht381, ← ht384, ← ht387, ← ht390, hb376, hb377, hb379, hb380, hb382, hb383, hb385, hb386, hb388, hb389, hb391]

set_option maxHeartbeats 1600000 in
set_option exponentiation.threshold 800 in
theorem fpmul_end_lo0 (s : State) (pr pa pb pp inv : Word) {a4 a5 p0 p1 p2 p3 p4 p5 l343 l367 : Word} {t240 t273 t306 t339 t342 t351 t356 t361 t365 t366 t371 t372 t374 t390 : ArithRes} {T U : Nat}
    (hr : Buf s pr 6 true) (ha : Buf s pa 6 false) (hb : Buf s pb 6 false) (hp : Buf s pp 6 false)
    (hstk : Stack s 6) (hrs : OffStack s 6 pr 6) (has : OffStack s 6 pa 6) (hbs : OffStack s 6 pb 6)
    (hps : OffStack s 6 pp 6)
    (ht375 : t375 = addWithCarry t374.val (~~~p5) true) (ht378 : t378 = addWithCarry t371.val (~~~p4) true)
    (ht381 : t381 = addWithCarry t366.val (~~~p3) true) (ht384 : t384 = addWithCarry t361.val (~~~p2) true)
    (ht387 : t387 = addWithCarry t356.val (~~~p1) true) (ht390 : t390 = addWithCarry t351.val (~~~p0) true)
    (hb376 : (t375.c && !t375.z) = false) (hb377 : (!t375.c) = false) (hb379 : (t378.c && !t378.z) = false)
    (hb380 : (!t378.c) = false) (hb382 : (t381.c && !t381.z) = false) (hb383 : (!t381.c) = false)
    (hb385 : (t384.c && !t384.z) = false) (hb386 : (!t384.c) = false) (hb388 : (t387.c && !t387.z) = false)
    (hb389 : (!t387.c) = false) (hb391 : (!t390.c) = true)
    (hR2 : val (2 ^ 64) [t351.val.toNat, t356.val.toNat, t361.val.toNat, t366.val.toNat, t371.val.toNat, t374.val.toNat] < 2 * val (2 ^ 64) [p0.toNat, p1.toNat, p2.toNat, p3.toNat, p4.toNat, p5.toNat])
    (hRe : 2 ^ 384 * val (2 ^ 64) [t351.val.toNat, t356.val.toNat, t361.val.toNat, t366.val.toNat, t371.val.toNat, t374.val.toNat] = T + U * val (2 ^ 64) [p0.toNat, p1.toNat, p2.toNat, p3.toNat, p4.toNat, p5.toNat]) :
    ∃ s', run embedded_pairing_core_arch_aarch64_fpbase_384_multiply ({ x0 := pr, x1 := t342.val, x2 := l343, x3 := inv, x4 := t365.val, x5 := l367, x6 := a4, x7 := a5, x8 := s.x8, x9 := p0, x10 := p1, x11 := p2, x12 := p3, x13 := p4, x14 := p5, x15 := t240.val, x16 := s.x16, x17 := s.x17, x18 := s.x18, x19 := t273.val, x20 := t306.val, x21 := t339.val, x22 := t372.val, x23 := t351.val, x24 := t356.val, x25 := t361.val, x26 := t366.val, x27 := t371.val, x28 := t374.val, x29 := s.x29, x30 := s.x30, sp := s.sp - 16#64 - 16#64 - 16#64 - 16#64 - 16#64, nf := some t374.n, zf := some t374.z, cf := some t374.c, vf := some t374.v, mem := setMem (setMem (setMem (setMem (setMem (setMem (setMem (setMem (setMem (setMem (setMem (setMem (s.mem) (s.sp.toNat - 16) s.x19) (s.sp.toNat - 16 + 8) s.x20) (s.sp.toNat - 16 - 16) s.x21) (s.sp.toNat - 16 - 16 + 8) s.x22) (s.sp.toNat - 16 - 16 - 16) s.x23) (s.sp.toNat - 16 - 16 - 16 + 8) s.x24) (s.sp.toNat - 16 - 16 - 16 - 16) s.x25) (s.sp.toNat - 16 - 16 - 16 - 16 + 8) s.x26) (s.sp.toNat - 16 - 16 - 16 - 16 - 16) s.x27) (s.sp.toNat - 16 - 16 - 16 - 16 - 16 + 8) s.x28) (s.sp.toNat - 16 - 16 - 16 - 16 - 16 - 16) pp) (s.sp.toNat - 16 - 16 - 16 - 16 - 16 - 16 + 8) inv, readable := s.readable, writable := s.writable, pc := 375, status := .running } : State) 26 = s' ∧ Returned s s' ∧
      val (2 ^ 64) [(s'.mem pr.toNat).toNat, (s'.mem (pr.toNat + 8)).toNat, (s'.mem (pr.toNat + 16)).toNat, (s'.mem (pr.toNat + 24)).toNat, (s'.mem (pr.toNat + 32)).toNat, (s'.mem (pr.toNat + 40)).toNat] < val (2 ^ 64) [p0.toNat, p1.toNat, p2.toNat, p3.toNat, p4.toNat, p5.toNat] ∧
      (val (2 ^ 64) [(s'.mem pr.toNat).toNat, (s'.mem (pr.toNat + 8)).toNat, (s'.mem (pr.toNat + 16)).toNat, (s'.mem (pr.toNat + 24)).toNat, (s'.mem (pr.toNat + 32)).toNat, (s'.mem (pr.toNat + 40)).toNat] * 2 ^ 384) % val (2 ^ 64) [p0.toNat, p1.toNat, p2.toNat, p3.toNat, p4.toNat, p5.toNat] = T % val (2 ^ 64) [p0.toNat, p1.toNat, p2.toNat, p3.toNat, p4.toNat, p5.toNat] ∧
      (∀ k, ¬(pr.toNat ≤ k ∧ k < pr.toNat + 48) → ¬(s.sp.toNat - 96 ≤ k ∧ k < s.sp.toNat) → s'.mem k = s.mem k) := by
  have ir0 := (t351.val).isLt; have ip0 := (p0).isLt
  have ir1 := (t356.val).isLt; have ip1 := (p1).isLt
  have ir2 := (t361.val).isLt; have ip2 := (p2).isLt
  have ir3 := (t366.val).isLt; have ip3 := (p3).isLt
  have ir4 := (t371.val).isLt; have ip4 := (p4).isLt
  have ir5 := (t374.val).isLt; have ip5 := (p5).isLt
  have c5 := cmp_eq ht375 hb376 hb377
  have c4 := cmp_eq ht378 hb379 hb380
  have c3 := cmp_eq ht381 hb382 hb383
  have c2 := cmp_eq ht384 hb385 hb386
  have c1 := cmp_eq ht387 hb388 hb389
  have c0 := cmp_lo ht390 hb391
  have hlt : val (2 ^ 64) [t351.val.toNat, t356.val.toNat, t361.val.toNat, t366.val.toNat, t371.val.toNat, t374.val.toNat] < val (2 ^ 64) [p0.toNat, p1.toNat, p2.toNat, p3.toNat, p4.toNat, p5.toNat] := by
    simp only [val_cons, val_nil]
    clear * - c5 c4 c3 c2 c1 c0 ir0 ip0 ir1 ip1 ir2 ip2 ir3 ip3 ir4 ip4 ir5 ip5
    omega
  have hres := X86.mont_result hR2 hRe (Or.inl ⟨rfl, hlt⟩)
  have hq := fpmul_tail_lo0 s pr pa pb pp inv hr ha hb hp hstk hrs has hbs hps (t240 := t240) (t273 := t273) (t306 := t306) (t339 := t339) (t342 := t342) (t351 := t351) (t356 := t356) (t361 := t361) (t365 := t365) (t366 := t366) (t371 := t371) (t372 := t372) (t374 := t374) (t390 := t390) (a4 := a4) (a5 := a5) (p0 := p0) (p1 := p1) (p2 := p2) (p3 := p3) (p4 := p4) (p5 := p5) (l343 := l343) (l367 := l367) ht375 ht378 ht381 ht384 ht387 ht390 hb376 hb377 hb379 hb380 hb382 hb383 hb385 hb386 hb388 hb389 hb391
  obtain ⟨rr0, rr1, rr2, rr3, rr4, rr5⟩ := hr.r6
  obtain ⟨⟨alrr0, alrr1, alrr2, alrr3, alrr4, alrr5⟩, frr1, frr2, frr3, frr4, frr5⟩ := hr.addr6
  have room6 := (hstk.f6 (by omega)).1
  replace hrs := Hide.mk (And.intro room6 hrs)
  simp only [OffStack] at hrs
  refine ⟨_, hq, ⟨rfl, rfl, rfl, rfl, rfl, rfl, rfl, rfl, rfl, rfl, rfl, rfl, rfl, rfl, rfl⟩, ?_, ?_, ?_⟩
  · simp only; a64_mem; exact hres.1
  · simp only; a64_mem; exact hres.2
  · intro k hk1 hk2
    simp (disch := (clear * - hk1 hk2 room6; omega)) only [setMem_ne]

set_option maxHeartbeats 1600000 in
theorem fpmul_tail_hs0 (s : State) (pr pa pb pp inv : Word)
    (hr : Buf s pr 6 true) (ha : Buf s pa 6 false) (hb : Buf s pb 6 false) (hp : Buf s pp 6 false)
    (hstk : Stack s 6) (hrs : OffStack s 6 pr 6) (has : OffStack s 6 pa 6) (hbs : OffStack s 6 pb 6)
    (hps : OffStack s 6 pp 6) {a4 a5 p0 p1 p2 p3 p4 p5 l343 l367 : Word} {t240 t273 t306 t339 t342 t351 t356 t361 t365 t366 t371 t372 t374 t390 t393e t394e t395e t396e t397e : ArithRes}
    (ht375 : t375 = addWithCarry t374.val (~~~p5) true) (ht378 : t378 = addWithCarry t371.val (~~~p4) true)
    (ht381 : t381 = addWithCarry t366.val (~~~p3) true) (ht384 : t384 = addWithCarry t361.val (~~~p2) true)
    (ht387 : t387 = addWithCarry t356.val (~~~p1) true) (ht390 : t390 = addWithCarry t351.val (~~~p0) true)
    (ht393e : t393e = addWithCarry t356.val (~~~p1) t390.c) (ht394e : t394e = addWithCarry t361.val (~~~p2) t393e.c)
    (ht395e : t395e = addWithCarry t366.val (~~~p3) t394e.c) (ht396e : t396e = addWithCarry t371.val (~~~p4) t395e.c)
    (ht397e : t397e = addWithCarry t374.val (~~~p5) t396e.c) (hb376 : (t375.c && !t375.z) = false)
    (hb377 : (!t375.c) = false) (hb379 : (t378.c && !t378.z) = false) (hb380 : (!t378.c) = false)
    (hb382 : (t381.c && !t381.z) = false) (hb383 : (!t381.c) = false) (hb385 : (t384.c && !t384.z) = false)
    (hb386 : (!t384.c) = false) (hb388 : (t387.c && !t387.z) = false) (hb389 : (!t387.c) = false)
    (hb391 : (!t390.c) = false) :
    run embedded_pairing_core_arch_aarch64_fpbase_384_multiply ({ x0 := pr, x1 := t342.val, x2 := l343, x3 := inv, x4 := t365.val, x5 := l367, x6 := a4, x7 := a5, x8 := s.x8, x9 := p0, x10 := p1, x11 := p2, x12 := p3, x13 := p4, x14 := p5, x15 := t240.val, x16 := s.x16, x17 := s.x17, x18 := s.x18, x19 := t273.val, x20 := t306.val, x21 := t339.val, x22 := t372.val, x23 := t351.val, x24 := t356.val, x25 := t361.val, x26 := t366.val, x27 := t371.val, x28 := t374.val, x29 := s.x29, x30 := s.x30, sp := s.sp - 16#64 - 16#64 - 16#64 - 16#64 - 16#64, nf := some t374.n, zf := some t374.z, cf := some t374.c, vf := some t374.v, mem := setMem (setMem (setMem (setMem (setMem (setMem (setMem (setMem (setMem (setMem (setMem (setMem (s.mem) (s.sp.toNat - 16) s.x19) (s.sp.toNat - 16 + 8) s.x20) (s.sp.toNat - 16 - 16) s.x21) (s.sp.toNat - 16 - 16 + 8) s.x22) (s.sp.toNat - 16 - 16 - 16) s.x23) (s.sp.toNat - 16 - 16 - 16 + 8) s.x24) (s.sp.toNat - 16 - 16 - 16 - 16) s.x25) (s.sp.toNat - 16 - 16 - 16 - 16 + 8) s.x26) (s.sp.toNat - 16 - 16 - 16 - 16 - 16) s.x27) (s.sp.toNat - 16 - 16 - 16 - 16 - 16 + 8) s.x28) (s.sp.toNat - 16 - 16 - 16 - 16 - 16 - 16) pp) (s.sp.toNat - 16 - 16 - 16 - 16 - 16 - 16 + 8) inv, readable := s.readable, writable := s.writable, pc := 375, status := .running } : State) 32
      = ({ x0 := pr + 48#64, x1 := t342.val, x2 := l343, x3 := inv, x4 := t365.val, x5 := l367, x6 := a4, x7 := a5, x8 := s.x8, x9 := p0, x10 := p1, x11 := p2, x12 := p3, x13 := p4, x14 := p5, x15 := t240.val, x16 := s.x16, x17 := s.x17, x18 := s.x18, x19 := s.x19, x20 := s.x20, x21 := s.x21, x22 := s.x22, x23 := s.x23, x24 := s.x24, x25 := s.x25, x26 := s.x26, x27 := s.x27, x28 := s.x28, x29 := s.x29, x30 := s.x30, sp := s.sp, nf := some t397e.n, zf := some t397e.z, cf := some t397e.c, vf := some t397e.v, mem := setMem (setMem (setMem (setMem (setMem (setMem (setMem (setMem (setMem (setMem (setMem (setMem (setMem (setMem (setMem (setMem (setMem (setMem (s.mem) (s.sp.toNat - 16) s.x19) (s.sp.toNat - 16 + 8) s.x20) (s.sp.toNat - 16 - 16) s.x21) (s.sp.toNat - 16 - 16 + 8) s.x22) (s.sp.toNat - 16 - 16 - 16) s.x23) (s.sp.toNat - 16 - 16 - 16 + 8) s.x24) (s.sp.toNat - 16 - 16 - 16 - 16) s.x25) (s.sp.toNat - 16 - 16 - 16 - 16 + 8) s.x26) (s.sp.toNat - 16 - 16 - 16 - 16 - 16) s.x27) (s.sp.toNat - 16 - 16 - 16 - 16 - 16 + 8) s.x28) (s.sp.toNat - 16 - 16 - 16 - 16 - 16 - 16) pp) (s.sp.toNat - 16 - 16 - 16 - 16 - 16 - 16 + 8) inv) pr.toNat t390.val) (pr.toNat + 8) t393e.val) (pr.toNat + 16) t394e.val) (pr.toNat + 24) t395e.val) (pr.toNat + 32) t396e.val) (pr.toNat + 40) t397e.val, readable := s.readable, writable := s.writable, pc := s.x30.toNat, status := .halted } : State) := by
  obtain ⟨ra0, ra1, ra2, ra3, ra4, ra5⟩ := ha.r6
  obtain ⟨⟨alra0, alra1, alra2, alra3, alra4, alra5⟩, fra1, fra2, fra3, fra4, fra5⟩ := ha.addr6
  obtain ⟨rb0, rb1, rb2, rb3, rb4, rb5⟩ := hb.r6
  obtain ⟨⟨alrb0, alrb1, alrb2, alrb3, alrb4, alrb5⟩, frb1, frb2, frb3, frb4, frb5⟩ := hb.addr6
  obtain ⟨rp0, rp1, rp2, rp3, rp4, rp5⟩ := hp.r6
  obtain ⟨⟨alrp0, alrp1, alrp2, alrp3, alrp4, alrp5⟩, frp1, frp2, frp3, frp4, frp5⟩ := hp.addr6
  obtain ⟨rr0, rr1, rr2, rr3, rr4, rr5⟩ := hr.r6
  obtain ⟨wr0, wr1, wr2, wr3, wr4, wr5⟩ := hr.w6
  obtain ⟨⟨alrr0, alrr1, alrr2, alrr3, alrr4, alrr5⟩, frr1, frr2, frr3, frr4, frr5⟩ := hr.addr6
  have als0 := hstk.aligned
  obtain ⟨room1, als1, alq1a, alq1b, sr1a, sr1b, sw1a, sw1b⟩ := hstk.f1 (by omega)
  obtain ⟨room2, als2, alq2a, alq2b, sr2a, sr2b, sw2a, sw2b⟩ := hstk.f2 (by omega)
  obtain ⟨room3, als3, alq3a, alq3b, sr3a, sr3b, sw3a, sw3b⟩ := hstk.f3 (by omega)
  obtain ⟨room4, als4, alq4a, alq4b, sr4a, sr4b, sw4a, sw4b⟩ := hstk.f4 (by omega)
  obtain ⟨room5, als5, alq5a, alq5b, sr5a, sr5b, sw5a, sw5b⟩ := hstk.f5 (by omega)
  obtain ⟨room6, als6, alq6a, alq6b, sr6a, sr6b, sw6a, sw6b⟩ := hstk.f6 (by omega)
  replace hrs := Hide.mk (And.intro room6 hrs); replace has := Hide.mk (And.intro room6 has)
  replace hbs := Hide.mk (And.intro room6 hbs); replace hps := Hide.mk (And.intro room6 hps)
  simp only [OffStack] at hrs has hbs hps
  clear ha hb hp hr hstk
  a64_sym [← ht375, ← ht378, ← ht381, ← ht384, ← ht387, ← ht390, ← ht393e, ← ht394e, ← ht395e, ← ht396e, ← ht397e, hb376, hb377, hb379, hb380, hb382, hb383, hb385, hb386, hb388, hb389, hb391]

set_option maxHeartbeats 1600000 in
set_option exponentiation.threshold 800 in
theorem fpmul_end_hs0 (s : State) (pr pa pb pp inv : Word) {a4 a5 p0 p1 p2 p3 p4 p5 l343 l367 : Word} {t240 t273 t306 t339 t342 t351 t356 t361 t365 t366 t371 t372 t374 t390 t393e t394e t395e t396e t397e : ArithRes} {T U : Nat}
    (hr : Buf s pr 6 true) (ha : Buf s pa 6 false) (hb : Buf s pb 6 false) (hp : Buf s pp 6 false)
    (hstk : Stack s 6) (hrs : OffStack s 6 pr 6) (has : OffStack s 6 pa 6) (hbs : OffStack s 6 pb 6)
    (hps : OffStack s 6 pp 6)
    (ht375 : t375 = addWithCarry t374.val (~~~p5) true) (ht378 : t378 = addWithCarry t371.val (~~~p4) true)
    (ht381 : t381 = addWithCarry t366.val (~~~p3) true) (ht384 : t384 = addWithCarry t361.val (~~~p2) true)
    (ht387 : t387 = addWithCarry t356.val (~~~p1) true) (ht390 : t390 = addWithCarry t351.val (~~~p0) true)
    (ht393e : t393e = addWithCarry t356.val (~~~p1) t390.c) (ht394e : t394e = addWithCarry t361.val (~~~p2) t393e.c)
    (ht395e : t395e = addWithCarry t366.val (~~~p3) t394e.c) (ht396e : t396e = addWithCarry t371.val (~~~p4) t395e.c)
    (ht397e : t397e = addWithCarry t374.val (~~~p5) t396e.c) (hb376 : (t375.c && !t375.z) = false)
    (hb377 : (!t375.c) = false) (hb379 : (t378.c && !t378.z) = false) (hb380 : (!t378.c) = false)
    (hb382 : (t381.c && !t381.z) = false) (hb383 : (!t381.c) = false) (hb385 : (t384.c && !t384.z) = false)
    (hb386 : (!t384.c) = false) (hb388 : (t387.c && !t387.z) = false) (hb389 : (!t387.c) = false)
    (hb391 : (!t390.c) = false)
    (hR2 : val (2 ^ 64) [t351.val.toNat, t356.val.toNat, t361.val.toNat, t366.val.toNat, t371.val.toNat, t374.val.toNat] < 2 * val (2 ^ 64) [p0.toNat, p1.toNat, p2.toNat, p3.toNat, p4.toNat, p5.toNat])
    (hRe : 2 ^ 384 * val (2 ^ 64) [t351.val.toNat, t356.val.toNat, t361.val.toNat, t366.val.toNat, t371.val.toNat, t374.val.toNat] = T + U * val (2 ^ 64) [p0.toNat, p1.toNat, p2.toNat, p3.toNat, p4.toNat, p5.toNat]) :
    ∃ s', run embedded_pairing_core_arch_aarch64_fpbase_384_multiply ({ x0 := pr, x1 := t342.val, x2 := l343, x3 := inv, x4 := t365.val, x5 := l367, x6 := a4, x7 := a5, x8 := s.x8, x9 := p0, x10 := p1, x11 := p2, x12 := p3, x13 := p4, x14 := p5, x15 := t240.val, x16 := s.x16, x17 := s.x17, x18 := s.x18, x19 := t273.val, x20 := t306.val, x21 := t339.val, x22 := t372.val, x23 := t351.val, x24 := t356.val, x25 := t361.val, x26 := t366.val, x27 := t371.val, x28 := t374.val, x29 := s.x29, x30 := s.x30, sp := s.sp - 16#64 - 16#64 - 16#64 - 16#64 - 16#64, nf := some t374.n, zf := some t374.z, cf := some t374.c, vf := some t374.v, mem := setMem (setMem (setMem (setMem (setMem (setMem (setMem (setMem (setMem (setMem (setMem (setMem (s.mem) (s.sp.toNat - 16) s.x19) (s.sp.toNat - 16 + 8) s.x20) (s.sp.toNat - 16 - 16) s.x21) (s.sp.toNat - 16 - 16 + 8) s.x22) (s.sp.toNat - 16 - 16 - 16) s.x23) (s.sp.toNat - 16 - 16 - 16 + 8) s.x24) (s.sp.toNat - 16 - 16 - 16 - 16) s.x25) (s.sp.toNat - 16 - 16 - 16 - 16 + 8) s.x26) (s.sp.toNat - 16 - 16 - 16 - 16 - 16) s.x27) (s.sp.toNat - 16 - 16 - 16 - 16 - 16 + 8) s.x28) (s.sp.toNat - 16 - 16 - 16 - 16 - 16 - 16) pp) (s.sp.toNat - 16 - 16 - 16 - 16 - 16 - 16 + 8) inv, readable := s.readable, writable := s.writable, pc := 375, status := .running } : State) 32 = s' ∧ Returned s s' ∧
      val (2 ^ 64) [(s'.mem pr.toNat).toNat, (s'.mem (pr.toNat + 8)).toNat, (s'.mem (pr.toNat + 16)).toNat, (s'.mem (pr.toNat + 24)).toNat, (s'.mem (pr.toNat + 32)).toNat, (s'.mem (pr.toNat + 40)).toNat] < val (2 ^ 64) [p0.toNat, p1.toNat, p2.toNat, p3.toNat, p4.toNat, p5.toNat] ∧
      (val (2 ^ 64) [(s'.mem pr.toNat).toNat, (s'.mem (pr.toNat + 8)).toNat, (s'.mem (pr.toNat + 16)).toNat, (s'.mem (pr.toNat + 24)).toNat, (s'.mem (pr.toNat + 32)).toNat, (s'.mem (pr.toNat + 40)).toNat] * 2 ^ 384) % val (2 ^ 64) [p0.toNat, p1.toNat, p2.toNat, p3.toNat, p4.toNat, p5.toNat] = T % val (2 ^ 64) [p0.toNat, p1.toNat, p2.toNat, p3.toNat, p4.toNat, p5.toNat] ∧
      (∀ k, ¬(pr.toNat ≤ k ∧ k < pr.toNat + 48) → ¬(s.sp.toNat - 96 ≤ k ∧ k < s.sp.toNat) → s'.mem k = s.mem k) := by
  have ir0 := (t351.val).isLt; have ip0 := (p0).isLt
  have ir1 := (t356.val).isLt; have ip1 := (p1).isLt
  have ir2 := (t361.val).isLt; have ip2 := (p2).isLt
  have ir3 := (t366.val).isLt; have ip3 := (p3).isLt
  have ir4 := (t371.val).isLt; have ip4 := (p4).isLt
  have ir5 := (t374.val).isLt; have ip5 := (p5).isLt
  have c5 := cmp_eq ht375 hb376 hb377
  have c4 := cmp_eq ht378 hb379 hb380
  have c3 := cmp_eq ht381 hb382 hb383
  have c2 := cmp_eq ht384 hb385 hb386
  have c1 := cmp_eq ht387 hb388 hb389
  have c0 := cmp_hs ht390 hb391
  have hle : val (2 ^ 64) [p0.toNat, p1.toNat, p2.toNat, p3.toNat, p4.toNat, p5.toNat] ≤ val (2 ^ 64) [t351.val.toNat, t356.val.toNat, t361.val.toNat, t366.val.toNat, t371.val.toNat, t374.val.toNat] := by
    simp only [val_cons, val_nil]
    clear * - c5 c4 c3 c2 c1 c0 ir0 ip0 ir1 ip1 ir2 ip2 ir3 ip3 ir4 ip4 ir5 ip5
    omega
  have hs := sub6_val ht390 ht393e ht394e ht395e ht396e ht397e
  simp only [Bool.not_true, Bool.toNat_false, Nat.add_zero] at hs
  have hres := X86.mont_result hR2 hRe (Or.inr (sub_no_borrow hs hle (X86.val6_lt t390.val t393e.val t394e.val t395e.val t396e.val t397e.val)))
  have hq := fpmul_tail_hs0 s pr pa pb pp inv hr ha hb hp hstk hrs has hbs hps (t240 := t240) (t273 := t273) (t306 := t306) (t339 := t339) (t342 := t342) (t351 := t351) (t356 := t356) (t361 := t361) (t365 := t365) (t366 := t366) (t371 := t371) (t372 := t372) (t374 := t374) (t390 := t390) (t393e := t393e) (t394e := t394e) (t395e := t395e) (t396e := t396e) (t397e := t397e) (a4 := a4) (a5 := a5) (p0 := p0) (p1 := p1) (p2 := p2) (p3 := p3) (p4 := p4) (p5 := p5) (l343 := l343) (l367 := l367) ht375 ht378 ht381 ht384 ht387 ht390 ht393e ht394e ht395e ht396e ht397e hb376 hb377 hb379 hb380 hb382 hb383 hb385 hb386 hb388 hb389 hb391
  obtain ⟨rr0, rr1, rr2, rr3, rr4, rr5⟩ := hr.r6
  obtain ⟨⟨alrr0, alrr1, alrr2, alrr3, alrr4, alrr5⟩, frr1, frr2, frr3, frr4, frr5⟩ := hr.addr6
  have room6 := (hstk.f6 (by omega)).1
  replace hrs := Hide.mk (And.intro room6 hrs)
  simp only [OffStack] at hrs
  refine ⟨_, hq, ⟨rfl, rfl, rfl, rfl, rfl, rfl, rfl, rfl, rfl, rfl, rfl, rfl, rfl, rfl, rfl⟩, ?_, ?_, ?_⟩
  · simp only; a64_mem; exact hres.1
  · simp only; a64_mem; exact hres.2
  · intro k hk1 hk2
    simp (disch := (clear * - hk1 hk2 room6; omega)) only [setMem_ne]


set_option maxHeartbeats 1600000 in
set_option exponentiation.threshold 800 in
/-- `void fpbase_384_multiply(res, a, b, p, inv)` (multiply768 fused with montgomeryreduce384): `res < P` and
`res · 2^384 ≡ a · b (mod P)` -/
theorem fpbase_384_multiply_run (s : State) (pr pa pb pp inv : Word)
    (hst : s.status = .running) (hpc : s.pc = 0) (h0 : s.x0 = pr) (h1 : s.x1 = pa) (h2 : s.x2 = pb) (h3 : s.x3 = pp)
    (h4 : s.x4 = inv)
    (hr : Buf s pr 6 true) (ha : Buf s pa 6 false) (hb : Buf s pb 6 false) (hp : Buf s pp 6 false)
    (hstk : Stack s 6) (hrs : OffStack s 6 pr 6) (has : OffStack s 6 pa 6) (hbs : OffStack s 6 pb 6)
    (hps : OffStack s 6 pp 6)
    (hinv : (inv.toNat * val (2 ^ 64) (limbs s.mem pp.toNat 6) + 1) % 2 ^ 64 = 0)
    (hAB : val (2 ^ 64) (limbs s.mem pa.toNat 6) * val (2 ^ 64) (limbs s.mem pb.toNat 6) < val (2 ^ 64) (limbs s.mem pp.toNat 6) * 2 ^ 384)
    (h2P : 2 * val (2 ^ 64) (limbs s.mem pp.toNat 6) ≤ 2 ^ 384) :
    ∃ s', run embedded_pairing_core_arch_aarch64_fpbase_384_multiply s 407 = s' ∧ Returned s s' ∧
      val (2 ^ 64) (limbs s'.mem pr.toNat 6) < val (2 ^ 64) (limbs s.mem pp.toNat 6) ∧
      (val (2 ^ 64) (limbs s'.mem pr.toNat 6) * 2 ^ 384) % val (2 ^ 64) (limbs s.mem pp.toNat 6)
        = (val (2 ^ 64) (limbs s.mem pa.toNat 6) * val (2 ^ 64) (limbs s.mem pb.toNat 6)) % val (2 ^ 64) (limbs s.mem pp.toNat 6) ∧
      (∀ k, ¬(pr.toNat ≤ k ∧ k < pr.toNat + 48) → ¬(s.sp.toNat - 96 ≤ k ∧ k < s.sp.toNat) → s'.mem k = s.mem k) := by
  simp only [limbs_six, limbs_twelve, Nat.add_zero] at hinv hAB h2P ⊢
  obtain ⟨a0, ha0⟩ : ∃ x, x = s.mem pa.toNat := ⟨_, rfl⟩
  obtain ⟨a1, ha1⟩ : ∃ x, x = s.mem (pa.toNat + 8) := ⟨_, rfl⟩
  obtain ⟨a2, ha2⟩ : ∃ x, x = s.mem (pa.toNat + 16) := ⟨_, rfl⟩
  obtain ⟨a3, ha3⟩ : ∃ x, x = s.mem (pa.toNat + 24) := ⟨_, rfl⟩
  obtain ⟨a4, ha4⟩ : ∃ x, x = s.mem (pa.toNat + 32) := ⟨_, rfl⟩
  obtain ⟨a5, ha5⟩ : ∃ x, x = s.mem (pa.toNat + 40) := ⟨_, rfl⟩
  obtain ⟨b0, hb0⟩ : ∃ x, x = s.mem pb.toNat := ⟨_, rfl⟩
  obtain ⟨b1, hb1⟩ : ∃ x, x = s.mem (pb.toNat + 8) := ⟨_, rfl⟩
  obtain ⟨b2, hb2⟩ : ∃ x, x = s.mem (pb.toNat + 16) := ⟨_, rfl⟩
  obtain ⟨b3, hb3⟩ : ∃ x, x = s.mem (pb.toNat + 24) := ⟨_, rfl⟩
  obtain ⟨b4, hb4⟩ : ∃ x, x = s.mem (pb.toNat + 32) := ⟨_, rfl⟩
  obtain ⟨b5, hb5⟩ : ∃ x, x = s.mem (pb.toNat + 40) := ⟨_, rfl⟩
  obtain ⟨p0, hp0⟩ : ∃ x, x = s.mem pp.toNat := ⟨_, rfl⟩
  obtain ⟨p1, hp1⟩ : ∃ x, x = s.mem (pp.toNat + 8) := ⟨_, rfl⟩
  obtain ⟨p2, hp2⟩ : ∃ x, x = s.mem (pp.toNat + 16) := ⟨_, rfl⟩
  obtain ⟨p3, hp3⟩ : ∃ x, x = s.mem (pp.toNat + 24) := ⟨_, rfl⟩
  obtain ⟨p4, hp4⟩ : ∃ x, x = s.mem (pp.toNat + 32) := ⟨_, rfl⟩
  obtain ⟨p5, hp5⟩ : ∃ x, x = s.mem (pp.toNat + 40) := ⟨_, rfl⟩
  simp only [← ha0, ← ha1, ← ha2, ← ha3, ← ha4, ← ha5, ← hb0, ← hb1, ← hb2, ← hb3, ← hb4, ← hb5, ← hp0, ← hp1, ← hp2, ← hp3, ← hp4, ← hp5] at hinv hAB h2P ⊢
  obtain ⟨t12, ht12⟩ : ∃ x, x = addWithCarry (0 : Word) (0 : Word) false := ⟨_, rfl⟩
  obtain ⟨h13, hh13⟩ : ∃ x, x = mulHi a0 b0 := ⟨_, rfl⟩
  obtain ⟨l14, hl14⟩ : ∃ x, x = mulLo a0 b0 := ⟨_, rfl⟩
  obtain ⟨l15, hl15⟩ : ∃ x, x = mulLo a0 b1 := ⟨_, rfl⟩
  obtain ⟨h16, hh16⟩ : ∃ x, x = mulHi a0 b1 := ⟨_, rfl⟩
  obtain ⟨t17, ht17⟩ : ∃ x, x = addWithCarry l15 h13 t12.c := ⟨_, rfl⟩
  obtain ⟨l18, hl18⟩ : ∃ x, x = mulLo a0 b2 := ⟨_, rfl⟩
  obtain ⟨h19, hh19⟩ : ∃ x, x = mulHi a0 b2 := ⟨_, rfl⟩
  obtain ⟨t20, ht20⟩ : ∃ x, x = addWithCarry l18 h16 t17.c := ⟨_, rfl⟩
  obtain ⟨l21, hl21⟩ : ∃ x, x = mulLo a0 b3 := ⟨_, rfl⟩
  obtain ⟨h22, hh22⟩ : ∃ x, x = mulHi a0 b3 := ⟨_, rfl⟩
  obtain ⟨t23, ht23⟩ : ∃ x, x = addWithCarry l21 h19 t20.c := ⟨_, rfl⟩
  obtain ⟨l24, hl24⟩ : ∃ x, x = mulLo a0 b4 := ⟨_, rfl⟩
  obtain ⟨h25, hh25⟩ : ∃ x, x = mulHi a0 b4 := ⟨_, rfl⟩
  obtain ⟨t26, ht26⟩ : ∃ x, x = addWithCarry l24 h22 t23.c := ⟨_, rfl⟩
  obtain ⟨l27, hl27⟩ : ∃ x, x = mulLo a0 b5 := ⟨_, rfl⟩
  obtain ⟨h28, hh28⟩ : ∃ x, x = mulHi a0 b5 := ⟨_, rfl⟩
  obtain ⟨t29, ht29⟩ : ∃ x, x = addWithCarry l27 h25 t26.c := ⟨_, rfl⟩
  obtain ⟨t30, ht30⟩ : ∃ x, x = addWithCarry h28 (0 : Word) t29.c := ⟨_, rfl⟩
  obtain ⟨l31, hl31⟩ : ∃ x, x = mulLo a1 b0 := ⟨_, rfl⟩
  obtain ⟨h32, hh32⟩ : ∃ x, x = mulHi a1 b0 := ⟨_, rfl⟩
  obtain ⟨t33, ht33⟩ : ∃ x, x = addWithCarry t17.val l31 false := ⟨_, rfl⟩
  obtain ⟨l34, hl34⟩ : ∃ x, x = mulLo a1 b1 := ⟨_, rfl⟩
  obtain ⟨h35, hh35⟩ : ∃ x, x = mulHi a1 b1 := ⟨_, rfl⟩
  obtain ⟨t36, ht36⟩ : ∃ x, x = addWithCarry t20.val l34 t33.c := ⟨_, rfl⟩
  obtain ⟨t37, ht37⟩ : ∃ x, x = addWithCarry h35 (0 : Word) t36.c := ⟨_, rfl⟩
  obtain ⟨t38, ht38⟩ : ∃ x, x = addWithCarry t36.val h32 false := ⟨_, rfl⟩
  obtain ⟨l39, hl39⟩ : ∃ x, x = mulLo a1 b2 := ⟨_, rfl⟩
  obtain ⟨h40, hh40⟩ : ∃ x, x = mulHi a1 b2 := ⟨_, rfl⟩
  obtain ⟨t41, ht41⟩ : ∃ x, x = addWithCarry t23.val l39 t38.c := ⟨_, rfl⟩
  obtain ⟨t42, ht42⟩ : ∃ x, x = addWithCarry h40 (0 : Word) t41.c := ⟨_, rfl⟩
  obtain ⟨t43, ht43⟩ : ∃ x, x = addWithCarry t41.val t37.val false := ⟨_, rfl⟩
  obtain ⟨l44, hl44⟩ : ∃ x, x = mulLo a1 b3 := ⟨_, rfl⟩
  obtain ⟨h45, hh45⟩ : ∃ x, x = mulHi a1 b3 := ⟨_, rfl⟩
  obtain ⟨t46, ht46⟩ : ∃ x, x = addWithCarry t26.val l44 t43.c := ⟨_, rfl⟩
  obtain ⟨t47, ht47⟩ : ∃ x, x = addWithCarry h45 (0 : Word) t46.c := ⟨_, rfl⟩
  obtain ⟨t48, ht48⟩ : ∃ x, x = addWithCarry t46.val t42.val false := ⟨_, rfl⟩
  obtain ⟨l49, hl49⟩ : ∃ x, x = mulLo a1 b4 := ⟨_, rfl⟩
  obtain ⟨h50, hh50⟩ : ∃ x, x = mulHi a1 b4 := ⟨_, rfl⟩
  obtain ⟨t51, ht51⟩ : ∃ x, x = addWithCarry t29.val l49 t48.c := ⟨_, rfl⟩
  obtain ⟨t52, ht52⟩ : ∃ x, x = addWithCarry h50 (0 : Word) t51.c := ⟨_, rfl⟩
  obtain ⟨t53, ht53⟩ : ∃ x, x = addWithCarry t51.val t47.val false := ⟨_, rfl⟩
  obtain ⟨l54, hl54⟩ : ∃ x, x = mulLo a1 b5 := ⟨_, rfl⟩
  obtain ⟨h55, hh55⟩ : ∃ x, x = mulHi a1 b5 := ⟨_, rfl⟩
  obtain ⟨t56, ht56⟩ : ∃ x, x = addWithCarry t30.val l54 t53.c := ⟨_, rfl⟩
  obtain ⟨t57, ht57⟩ : ∃ x, x = addWithCarry h55 (0 : Word) t56.c := ⟨_, rfl⟩
  obtain ⟨t58, ht58⟩ : ∃ x, x = addWithCarry t56.val t52.val false := ⟨_, rfl⟩
  obtain ⟨t59, ht59⟩ : ∃ x, x = addWithCarry t57.val (0 : Word) t58.c := ⟨_, rfl⟩
  obtain ⟨l60, hl60⟩ : ∃ x, x = mulLo a2 b0 := ⟨_, rfl⟩
  obtain ⟨h61, hh61⟩ : ∃ x, x = mulHi a2 b0 := ⟨_, rfl⟩
  obtain ⟨t62, ht62⟩ : ∃ x, x = addWithCarry t38.val l60 false := ⟨_, rfl⟩
  obtain ⟨l63, hl63⟩ : ∃ x, x = mulLo a2 b1 := ⟨_, rfl⟩
  obtain ⟨h64, hh64⟩ : ∃ x, x = mulHi a2 b1 := ⟨_, rfl⟩
  obtain ⟨t65, ht65⟩ : ∃ x, x = addWithCarry t43.val l63 t62.c := ⟨_, rfl⟩
  obtain ⟨t66, ht66⟩ : ∃ x, x = addWithCarry h64 (0 : Word) t65.c := ⟨_, rfl⟩
  obtain ⟨t67, ht67⟩ : ∃ x, x = addWithCarry t65.val h61 false := ⟨_, rfl⟩
  obtain ⟨l68, hl68⟩ : ∃ x, x = mulLo a2 b2 := ⟨_, rfl⟩
  obtain ⟨h69, hh69⟩ : ∃ x, x = mulHi a2 b2 := ⟨_, rfl⟩
  obtain ⟨t70, ht70⟩ : ∃ x, x = addWithCarry t48.val l68 t67.c := ⟨_, rfl⟩
  obtain ⟨t71, ht71⟩ : ∃ x, x = addWithCarry h69 (0 : Word) t70.c := ⟨_, rfl⟩
  obtain ⟨t72, ht72⟩ : ∃ x, x = addWithCarry t70.val t66.val false := ⟨_, rfl⟩
  obtain ⟨l73, hl73⟩ : ∃ x, x = mulLo a2 b3 := ⟨_, rfl⟩
  obtain ⟨h74, hh74⟩ : ∃ x, x = mulHi a2 b3 := ⟨_, rfl⟩
  obtain ⟨t75, ht75⟩ : ∃ x, x = addWithCarry t53.val l73 t72.c := ⟨_, rfl⟩
  obtain ⟨t76, ht76⟩ : ∃ x, x = addWithCarry h74 (0 : Word) t75.c := ⟨_, rfl⟩
  obtain ⟨t77, ht77⟩ : ∃ x, x = addWithCarry t75.val t71.val false := ⟨_, rfl⟩
  obtain ⟨l78, hl78⟩ : ∃ x, x = mulLo a2 b4 := ⟨_, rfl⟩
  obtain ⟨h79, hh79⟩ : ∃ x, x = mulHi a2 b4 := ⟨_, rfl⟩
  obtain ⟨t80, ht80⟩ : ∃ x, x = addWithCarry t58.val l78 t77.c := ⟨_, rfl⟩
  obtain ⟨t81, ht81⟩ : ∃ x, x = addWithCarry h79 (0 : Word) t80.c := ⟨_, rfl⟩
  obtain ⟨t82, ht82⟩ : ∃ x, x = addWithCarry t80.val t76.val false := ⟨_, rfl⟩
  obtain ⟨l83, hl83⟩ : ∃ x, x = mulLo a2 b5 := ⟨_, rfl⟩
  obtain ⟨h84, hh84⟩ : ∃ x, x = mulHi a2 b5 := ⟨_, rfl⟩
  obtain ⟨t85, ht85⟩ : ∃ x, x = addWithCarry t59.val l83 t82.c := ⟨_, rfl⟩
  obtain ⟨t86, ht86⟩ : ∃ x, x = addWithCarry h84 (0 : Word) t85.c := ⟨_, rfl⟩
  obtain ⟨t87, ht87⟩ : ∃ x, x = addWithCarry t85.val t81.val false := ⟨_, rfl⟩
  obtain ⟨t88, ht88⟩ : ∃ x, x = addWithCarry t86.val (0 : Word) t87.c := ⟨_, rfl⟩
  obtain ⟨l89, hl89⟩ : ∃ x, x = mulLo a3 b0 := ⟨_, rfl⟩
  obtain ⟨h90, hh90⟩ : ∃ x, x = mulHi a3 b0 := ⟨_, rfl⟩
  obtain ⟨t91, ht91⟩ : ∃ x, x = addWithCarry t67.val l89 false := ⟨_, rfl⟩
  obtain ⟨l92, hl92⟩ : ∃ x, x = mulLo a3 b1 := ⟨_, rfl⟩
  obtain ⟨h93, hh93⟩ : ∃ x, x = mulHi a3 b1 := ⟨_, rfl⟩
  obtain ⟨t94, ht94⟩ : ∃ x, x = addWithCarry t72.val l92 t91.c := ⟨_, rfl⟩
  obtain ⟨t95, ht95⟩ : ∃ x, x = addWithCarry h93 (0 : Word) t94.c := ⟨_, rfl⟩
  obtain ⟨t96, ht96⟩ : ∃ x, x = addWithCarry t94.val h90 false := ⟨_, rfl⟩
  obtain ⟨l97, hl97⟩ : ∃ x, x = mulLo a3 b2 := ⟨_, rfl⟩
  obtain ⟨h98, hh98⟩ : ∃ x, x = mulHi a3 b2 := ⟨_, rfl⟩
  obtain ⟨t99, ht99⟩ : ∃ x, x = addWithCarry t77.val l97 t96.c := ⟨_, rfl⟩
  obtain ⟨t100, ht100⟩ : ∃ x, x = addWithCarry h98 (0 : Word) t99.c := ⟨_, rfl⟩
  obtain ⟨t101, ht101⟩ : ∃ x, x = addWithCarry t99.val t95.val false := ⟨_, rfl⟩
  obtain ⟨l102, hl102⟩ : ∃ x, x = mulLo a3 b3 := ⟨_, rfl⟩
  obtain ⟨h103, hh103⟩ : ∃ x, x = mulHi a3 b3 := ⟨_, rfl⟩
  obtain ⟨t104, ht104⟩ : ∃ x, x = addWithCarry t82.val l102 t101.c := ⟨_, rfl⟩
  obtain ⟨t105, ht105⟩ : ∃ x, x = addWithCarry h103 (0 : Word) t104.c := ⟨_, rfl⟩
  obtain ⟨t106, ht106⟩ : ∃ x, x = addWithCarry t104.val t100.val false := ⟨_, rfl⟩
  obtain ⟨l107, hl107⟩ : ∃ x, x = mulLo a3 b4 := ⟨_, rfl⟩
  obtain ⟨h108, hh108⟩ : ∃ x, x = mulHi a3 b4 := ⟨_, rfl⟩
  obtain ⟨t109, ht109⟩ : ∃ x, x = addWithCarry t87.val l107 t106.c := ⟨_, rfl⟩
  obtain ⟨t110, ht110⟩ : ∃ x, x = addWithCarry h108 (0 : Word) t109.c := ⟨_, rfl⟩
  obtain ⟨t111, ht111⟩ : ∃ x, x = addWithCarry t109.val t105.val false := ⟨_, rfl⟩
  obtain ⟨l112, hl112⟩ : ∃ x, x = mulLo a3 b5 := ⟨_, rfl⟩
  obtain ⟨h113, hh113⟩ : ∃ x, x = mulHi a3 b5 := ⟨_, rfl⟩
  obtain ⟨t114, ht114⟩ : ∃ x, x = addWithCarry t88.val l112 t111.c := ⟨_, rfl⟩
  obtain ⟨t115, ht115⟩ : ∃ x, x = addWithCarry h113 (0 : Word) t114.c := ⟨_, rfl⟩
  obtain ⟨t116, ht116⟩ : ∃ x, x = addWithCarry t114.val t110.val false := ⟨_, rfl⟩
  obtain ⟨t117, ht117⟩ : ∃ x, x = addWithCarry t115.val (0 : Word) t116.c := ⟨_, rfl⟩
  obtain ⟨l118, hl118⟩ : ∃ x, x = mulLo a4 b0 := ⟨_, rfl⟩
  obtain ⟨h119, hh119⟩ : ∃ x, x = mulHi a4 b0 := ⟨_, rfl⟩
  obtain ⟨t120, ht120⟩ : ∃ x, x = addWithCarry t96.val l118 false := ⟨_, rfl⟩
  obtain ⟨l121, hl121⟩ : ∃ x, x = mulLo a4 b1 := ⟨_, rfl⟩
  obtain ⟨h122, hh122⟩ : ∃ x, x = mulHi a4 b1 := ⟨_, rfl⟩
  obtain ⟨t123, ht123⟩ : ∃ x, x = addWithCarry t101.val l121 t120.c := ⟨_, rfl⟩
  obtain ⟨t124, ht124⟩ : ∃ x, x = addWithCarry h122 (0 : Word) t123.c := ⟨_, rfl⟩
  obtain ⟨t125, ht125⟩ : ∃ x, x = addWithCarry t123.val h119 false := ⟨_, rfl⟩
  obtain ⟨l126, hl126⟩ : ∃ x, x = mulLo a4 b2 := ⟨_, rfl⟩
  obtain ⟨h127, hh127⟩ : ∃ x, x = mulHi a4 b2 := ⟨_, rfl⟩
  obtain ⟨t128, ht128⟩ : ∃ x, x = addWithCarry t106.val l126 t125.c := ⟨_, rfl⟩
  obtain ⟨t129, ht129⟩ : ∃ x, x = addWithCarry h127 (0 : Word) t128.c := ⟨_, rfl⟩
  obtain ⟨t130, ht130⟩ : ∃ x, x = addWithCarry t128.val t124.val false := ⟨_, rfl⟩
  obtain ⟨l131, hl131⟩ : ∃ x, x = mulLo a4 b3 := ⟨_, rfl⟩
  obtain ⟨h132, hh132⟩ : ∃ x, x = mulHi a4 b3 := ⟨_, rfl⟩
  obtain ⟨t133, ht133⟩ : ∃ x, x = addWithCarry t111.val l131 t130.c := ⟨_, rfl⟩
  obtain ⟨t134, ht134⟩ : ∃ x, x = addWithCarry h132 (0 : Word) t133.c := ⟨_, rfl⟩
  obtain ⟨t135, ht135⟩ : ∃ x, x = addWithCarry t133.val t129.val false := ⟨_, rfl⟩
  obtain ⟨l136, hl136⟩ : ∃ x, x = mulLo a4 b4 := ⟨_, rfl⟩
  obtain ⟨h137, hh137⟩ : ∃ x, x = mulHi a4 b4 := ⟨_, rfl⟩
  obtain ⟨t138, ht138⟩ : ∃ x, x = addWithCarry t116.val l136 t135.c := ⟨_, rfl⟩
  obtain ⟨t139, ht139⟩ : ∃ x, x = addWithCarry h137 (0 : Word) t138.c := ⟨_, rfl⟩
  obtain ⟨t140, ht140⟩ : ∃ x, x = addWithCarry t138.val t134.val false := ⟨_, rfl⟩
  obtain ⟨l141, hl141⟩ : ∃ x, x = mulLo a4 b5 := ⟨_, rfl⟩
  obtain ⟨h142, hh142⟩ : ∃ x, x = mulHi a4 b5 := ⟨_, rfl⟩
  obtain ⟨t143, ht143⟩ : ∃ x, x = addWithCarry t117.val l141 t140.c := ⟨_, rfl⟩
  obtain ⟨t144, ht144⟩ : ∃ x, x = addWithCarry h142 (0 : Word) t143.c := ⟨_, rfl⟩
  obtain ⟨t145, ht145⟩ : ∃ x, x = addWithCarry t143.val t139.val false := ⟨_, rfl⟩
  obtain ⟨t146, ht146⟩ : ∃ x, x = addWithCarry t144.val (0 : Word) t145.c := ⟨_, rfl⟩
  obtain ⟨l147, hl147⟩ : ∃ x, x = mulLo a5 b0 := ⟨_, rfl⟩
  obtain ⟨h148, hh148⟩ : ∃ x, x = mulHi a5 b0 := ⟨_, rfl⟩
  obtain ⟨t149, ht149⟩ : ∃ x, x = addWithCarry t125.val l147 false := ⟨_, rfl⟩
  obtain ⟨l150, hl150⟩ : ∃ x, x = mulLo a5 b1 := ⟨_, rfl⟩
  obtain ⟨h151, hh151⟩ : ∃ x, x = mulHi a5 b1 := ⟨_, rfl⟩
  obtain ⟨t152, ht152⟩ : ∃ x, x = addWithCarry t130.val l150 t149.c := ⟨_, rfl⟩
  obtain ⟨t153, ht153⟩ : ∃ x, x = addWithCarry h151 (0 : Word) t152.c := ⟨_, rfl⟩
  obtain ⟨t154, ht154⟩ : ∃ x, x = addWithCarry t152.val h148 false := ⟨_, rfl⟩
  obtain ⟨l155, hl155⟩ : ∃ x, x = mulLo a5 b2 := ⟨_, rfl⟩
  obtain ⟨h156, hh156⟩ : ∃ x, x = mulHi a5 b2 := ⟨_, rfl⟩
  obtain ⟨t157, ht157⟩ : ∃ x, x = addWithCarry t135.val l155 t154.c := ⟨_, rfl⟩
  obtain ⟨t158, ht158⟩ : ∃ x, x = addWithCarry h156 (0 : Word) t157.c := ⟨_, rfl⟩
  obtain ⟨t159, ht159⟩ : ∃ x, x = addWithCarry t157.val t153.val false := ⟨_, rfl⟩
  obtain ⟨l160, hl160⟩ : ∃ x, x = mulLo a5 b3 := ⟨_, rfl⟩
  obtain ⟨h161, hh161⟩ : ∃ x, x = mulHi a5 b3 := ⟨_, rfl⟩
  obtain ⟨t162, ht162⟩ : ∃ x, x = addWithCarry t140.val l160 t159.c := ⟨_, rfl⟩
  obtain ⟨t163, ht163⟩ : ∃ x, x = addWithCarry h161 (0 : Word) t162.c := ⟨_, rfl⟩
  obtain ⟨t164, ht164⟩ : ∃ x, x = addWithCarry t162.val t158.val false := ⟨_, rfl⟩
  obtain ⟨l165, hl165⟩ : ∃ x, x = mulLo a5 b4 := ⟨_, rfl⟩
  obtain ⟨h166, hh166⟩ : ∃ x, x = mulHi a5 b4 := ⟨_, rfl⟩
  obtain ⟨t167, ht167⟩ : ∃ x, x = addWithCarry t145.val l165 t164.c := ⟨_, rfl⟩
  obtain ⟨t168, ht168⟩ : ∃ x, x = addWithCarry h166 (0 : Word) t167.c := ⟨_, rfl⟩
  obtain ⟨t169, ht169⟩ : ∃ x, x = addWithCarry t167.val t163.val false := ⟨_, rfl⟩
  obtain ⟨l170, hl170⟩ : ∃ x, x = mulLo a5 b5 := ⟨_, rfl⟩
  obtain ⟨h171, hh171⟩ : ∃ x, x = mulHi a5 b5 := ⟨_, rfl⟩
  obtain ⟨t172, ht172⟩ : ∃ x, x = addWithCarry t146.val l170 t169.c := ⟨_, rfl⟩
  obtain ⟨t173, ht173⟩ : ∃ x, x = addWithCarry h171 (0 : Word) t172.c := ⟨_, rfl⟩
  obtain ⟨t174, ht174⟩ : ∃ x, x = addWithCarry t172.val t168.val false := ⟨_, rfl⟩
  obtain ⟨t175, ht175⟩ : ∃ x, x = addWithCarry t173.val (0 : Word) t174.c := ⟨_, rfl⟩
  obtain ⟨l180, hl180⟩ : ∃ x, x = mulLo l14 inv := ⟨_, rfl⟩
  obtain ⟨l181, hl181⟩ : ∃ x, x = mulLo l180 p0 := ⟨_, rfl⟩
  obtain ⟨h182, hh182⟩ : ∃ x, x = mulHi l180 p0 := ⟨_, rfl⟩
  obtain ⟨t183, ht183⟩ : ∃ x, x = addWithCarry l14 l181 false := ⟨_, rfl⟩
  obtain ⟨l184, hl184⟩ : ∃ x, x = mulLo l180 p1 := ⟨_, rfl⟩
  obtain ⟨h185, hh185⟩ : ∃ x, x = mulHi l180 p1 := ⟨_, rfl⟩
  obtain ⟨t186, ht186⟩ : ∃ x, x = addWithCarry t33.val l184 t183.c := ⟨_, rfl⟩
  obtain ⟨t187, ht187⟩ : ∃ x, x = addWithCarry h185 (0 : Word) t186.c := ⟨_, rfl⟩
  obtain ⟨t188, ht188⟩ : ∃ x, x = addWithCarry t186.val h182 false := ⟨_, rfl⟩
  obtain ⟨l189, hl189⟩ : ∃ x, x = mulLo l180 p2 := ⟨_, rfl⟩
  obtain ⟨h190, hh190⟩ : ∃ x, x = mulHi l180 p2 := ⟨_, rfl⟩
  obtain ⟨t191, ht191⟩ : ∃ x, x = addWithCarry t62.val l189 t188.c := ⟨_, rfl⟩
  obtain ⟨t192, ht192⟩ : ∃ x, x = addWithCarry h190 (0 : Word) t191.c := ⟨_, rfl⟩
  obtain ⟨t193, ht193⟩ : ∃ x, x = addWithCarry t191.val t187.val false := ⟨_, rfl⟩
  obtain ⟨l194, hl194⟩ : ∃ x, x = mulLo l180 p3 := ⟨_, rfl⟩
  obtain ⟨h195, hh195⟩ : ∃ x, x = mulHi l180 p3 := ⟨_, rfl⟩
  obtain ⟨t196, ht196⟩ : ∃ x, x = addWithCarry t91.val l194 t193.c := ⟨_, rfl⟩
  obtain ⟨t197, ht197⟩ : ∃ x, x = addWithCarry h195 (0 : Word) t196.c := ⟨_, rfl⟩
  obtain ⟨t198, ht198⟩ : ∃ x, x = addWithCarry t196.val t192.val false := ⟨_, rfl⟩
  obtain ⟨l199, hl199⟩ : ∃ x, x = mulLo l180 p4 := ⟨_, rfl⟩
  obtain ⟨h200, hh200⟩ : ∃ x, x = mulHi l180 p4 := ⟨_, rfl⟩
  obtain ⟨t201, ht201⟩ : ∃ x, x = addWithCarry t120.val l199 t198.c := ⟨_, rfl⟩
  obtain ⟨t202, ht202⟩ : ∃ x, x = addWithCarry h200 (0 : Word) t201.c := ⟨_, rfl⟩
  obtain ⟨t203, ht203⟩ : ∃ x, x = addWithCarry t201.val t197.val false := ⟨_, rfl⟩
  obtain ⟨l204, hl204⟩ : ∃ x, x = mulLo l180 p5 := ⟨_, rfl⟩
  obtain ⟨h205, hh205⟩ : ∃ x, x = mulHi l180 p5 := ⟨_, rfl⟩
  obtain ⟨t206, ht206⟩ : ∃ x, x = addWithCarry t149.val l204 t203.c := ⟨_, rfl⟩
  obtain ⟨t207, ht207⟩ : ∃ x, x = addWithCarry h205 (0 : Word) t206.c := ⟨_, rfl⟩
  obtain ⟨t208, ht208⟩ : ∃ x, x = addWithCarry t206.val t202.val false := ⟨_, rfl⟩
  obtain ⟨t209, ht209⟩ : ∃ x, x = addWithCarry t154.val t207.val t208.c := ⟨_, rfl⟩
  obtain ⟨t210, ht210⟩ : ∃ x, x = addWithCarry (0 : Word) (0 : Word) t209.c := ⟨_, rfl⟩
  obtain ⟨l211, hl211⟩ : ∃ x, x = mulLo t188.val inv := ⟨_, rfl⟩
  obtain ⟨l212, hl212⟩ : ∃ x, x = mulLo l211 p0 := ⟨_, rfl⟩
  obtain ⟨h213, hh213⟩ : ∃ x, x = mulHi l211 p0 := ⟨_, rfl⟩
  obtain ⟨t214, ht214⟩ : ∃ x, x = addWithCarry t188.val l212 false := ⟨_, rfl⟩
  obtain ⟨l215, hl215⟩ : ∃ x, x = mulLo l211 p1 := ⟨_, rfl⟩
  obtain ⟨h216, hh216⟩ : ∃ x, x = mulHi l211 p1 := ⟨_, rfl⟩
  obtain ⟨t217, ht217⟩ : ∃ x, x = addWithCarry t193.val l215 t214.c := ⟨_, rfl⟩
  obtain ⟨t218, ht218⟩ : ∃ x, x = addWithCarry h216 (0 : Word) t217.c := ⟨_, rfl⟩
  obtain ⟨t219, ht219⟩ : ∃ x, x = addWithCarry t217.val h213 false := ⟨_, rfl⟩
  obtain ⟨l220, hl220⟩ : ∃ x, x = mulLo l211 p2 := ⟨_, rfl⟩
  obtain ⟨h221, hh221⟩ : ∃ x, x = mulHi l211 p2 := ⟨_, rfl⟩
  obtain ⟨t222, ht222⟩ : ∃ x, x = addWithCarry t198.val l220 t219.c := ⟨_, rfl⟩
  obtain ⟨t223, ht223⟩ : ∃ x, x = addWithCarry h221 (0 : Word) t222.c := ⟨_, rfl⟩
  obtain ⟨t224, ht224⟩ : ∃ x, x = addWithCarry t222.val t218.val false := ⟨_, rfl⟩
  obtain ⟨l225, hl225⟩ : ∃ x, x = mulLo l211 p3 := ⟨_, rfl⟩
  obtain ⟨h226, hh226⟩ : ∃ x, x = mulHi l211 p3 := ⟨_, rfl⟩
  obtain ⟨t227, ht227⟩ : ∃ x, x = addWithCarry t203.val l225 t224.c := ⟨_, rfl⟩
  obtain ⟨t228, ht228⟩ : ∃ x, x = addWithCarry h226 (0 : Word) t227.c := ⟨_, rfl⟩
  obtain ⟨t229, ht229⟩ : ∃ x, x = addWithCarry t227.val t223.val false := ⟨_, rfl⟩
  obtain ⟨l230, hl230⟩ : ∃ x, x = mulLo l211 p4 := ⟨_, rfl⟩
  obtain ⟨h231, hh231⟩ : ∃ x, x = mulHi l211 p4 := ⟨_, rfl⟩
  obtain ⟨t232, ht232⟩ : ∃ x, x = addWithCarry t208.val l230 t229.c := ⟨_, rfl⟩
  obtain ⟨t233, ht233⟩ : ∃ x, x = addWithCarry h231 (0 : Word) t232.c := ⟨_, rfl⟩
  obtain ⟨t234, ht234⟩ : ∃ x, x = addWithCarry t232.val t228.val false := ⟨_, rfl⟩
  obtain ⟨l235, hl235⟩ : ∃ x, x = mulLo l211 p5 := ⟨_, rfl⟩
  obtain ⟨h236, hh236⟩ : ∃ x, x = mulHi l211 p5 := ⟨_, rfl⟩
  obtain ⟨t237, ht237⟩ : ∃ x, x = addWithCarry t209.val l235 t234.c := ⟨_, rfl⟩
  obtain ⟨t238, ht238⟩ : ∃ x, x = addWithCarry h236 (0 : Word) t237.c := ⟨_, rfl⟩
  obtain ⟨t239, ht239⟩ : ∃ x, x = addWithCarry t237.val t233.val false := ⟨_, rfl⟩
  obtain ⟨t240, ht240⟩ : ∃ x, x = addWithCarry t238.val (0 : Word) t239.c := ⟨_, rfl⟩
  obtain ⟨t241, ht241⟩ : ∃ x, x = addWithCarry t210.val (~~~1#64) true := ⟨_, rfl⟩
  obtain ⟨t242, ht242⟩ : ∃ x, x = addWithCarry t159.val t240.val t241.c := ⟨_, rfl⟩
  obtain ⟨t243, ht243⟩ : ∃ x, x = addWithCarry (0 : Word) (0 : Word) t242.c := ⟨_, rfl⟩
  obtain ⟨l244, hl244⟩ : ∃ x, x = mulLo t219.val inv := ⟨_, rfl⟩
  obtain ⟨l245, hl245⟩ : ∃ x, x = mulLo l244 p0 := ⟨_, rfl⟩
  obtain ⟨h246, hh246⟩ : ∃ x, x = mulHi l244 p0 := ⟨_, rfl⟩
  obtain ⟨t247, ht247⟩ : ∃ x, x = addWithCarry t219.val l245 false := ⟨_, rfl⟩
  obtain ⟨l248, hl248⟩ : ∃ x, x = mulLo l244 p1 := ⟨_, rfl⟩
  obtain ⟨h249, hh249⟩ : ∃ x, x = mulHi l244 p1 := ⟨_, rfl⟩
  obtain ⟨t250, ht250⟩ : ∃ x, x = addWithCarry t224.val l248 t247.c := ⟨_, rfl⟩
  obtain ⟨t251, ht251⟩ : ∃ x, x = addWithCarry h249 (0 : Word) t250.c := ⟨_, rfl⟩
  obtain ⟨t252, ht252⟩ : ∃ x, x = addWithCarry t250.val h246 false := ⟨_, rfl⟩
  obtain ⟨l253, hl253⟩ : ∃ x, x = mulLo l244 p2 := ⟨_, rfl⟩
  obtain ⟨h254, hh254⟩ : ∃ x, x = mulHi l244 p2 := ⟨_, rfl⟩
  obtain ⟨t255, ht255⟩ : ∃ x, x = addWithCarry t229.val l253 t252.c := ⟨_, rfl⟩
  obtain ⟨t256, ht256⟩ : ∃ x, x = addWithCarry h254 (0 : Word) t255.c := ⟨_, rfl⟩
  obtain ⟨t257, ht257⟩ : ∃ x, x = addWithCarry t255.val t251.val false := ⟨_, rfl⟩
  obtain ⟨l258, hl258⟩ : ∃ x, x = mulLo l244 p3 := ⟨_, rfl⟩
  obtain ⟨h259, hh259⟩ : ∃ x, x = mulHi l244 p3 := ⟨_, rfl⟩
  obtain ⟨t260, ht260⟩ : ∃ x, x = addWithCarry t234.val l258 t257.c := ⟨_, rfl⟩
  obtain ⟨t261, ht261⟩ : ∃ x, x = addWithCarry h259 (0 : Word) t260.c := ⟨_, rfl⟩
  obtain ⟨t262, ht262⟩ : ∃ x, x = addWithCarry t260.val t256.val false := ⟨_, rfl⟩
  obtain ⟨l263, hl263⟩ : ∃ x, x = mulLo l244 p4 := ⟨_, rfl⟩
  obtain ⟨h264, hh264⟩ : ∃ x, x = mulHi l244 p4 := ⟨_, rfl⟩
  obtain ⟨t265, ht265⟩ : ∃ x, x = addWithCarry t239.val l263 t262.c := ⟨_, rfl⟩
  obtain ⟨t266, ht266⟩ : ∃ x, x = addWithCarry h264 (0 : Word) t265.c := ⟨_, rfl⟩
  obtain ⟨t267, ht267⟩ : ∃ x, x = addWithCarry t265.val t261.val false := ⟨_, rfl⟩
  obtain ⟨l268, hl268⟩ : ∃ x, x = mulLo l244 p5 := ⟨_, rfl⟩
  obtain ⟨h269, hh269⟩ : ∃ x, x = mulHi l244 p5 := ⟨_, rfl⟩
  obtain ⟨t270, ht270⟩ : ∃ x, x = addWithCarry t242.val l268 t267.c := ⟨_, rfl⟩
  obtain ⟨t271, ht271⟩ : ∃ x, x = addWithCarry h269 (0 : Word) t270.c := ⟨_, rfl⟩
  obtain ⟨t272, ht272⟩ : ∃ x, x = addWithCarry t270.val t266.val false := ⟨_, rfl⟩
  obtain ⟨t273, ht273⟩ : ∃ x, x = addWithCarry t271.val (0 : Word) t272.c := ⟨_, rfl⟩
  obtain ⟨t274, ht274⟩ : ∃ x, x = addWithCarry t243.val (~~~1#64) true := ⟨_, rfl⟩
  obtain ⟨t275, ht275⟩ : ∃ x, x = addWithCarry t164.val t273.val t274.c := ⟨_, rfl⟩
  obtain ⟨t276, ht276⟩ : ∃ x, x = addWithCarry (0 : Word) (0 : Word) t275.c := ⟨_, rfl⟩
  obtain ⟨l277, hl277⟩ : ∃ x, x = mulLo t252.val inv := ⟨_, rfl⟩
  obtain ⟨l278, hl278⟩ : ∃ x, x = mulLo l277 p0 := ⟨_, rfl⟩
  obtain ⟨h279, hh279⟩ : ∃ x, x = mulHi l277 p0 := ⟨_, rfl⟩
  obtain ⟨t280, ht280⟩ : ∃ x, x = addWithCarry t252.val l278 false := ⟨_, rfl⟩
  obtain ⟨l281, hl281⟩ : ∃ x, x = mulLo l277 p1 := ⟨_, rfl⟩
  obtain ⟨h282, hh282⟩ : ∃ x, x = mulHi l277 p1 := ⟨_, rfl⟩
  obtain ⟨t283, ht283⟩ : ∃ x, x = addWithCarry t257.val l281 t280.c := ⟨_, rfl⟩
  obtain ⟨t284, ht284⟩ : ∃ x, x = addWithCarry h282 (0 : Word) t283.c := ⟨_, rfl⟩
  obtain ⟨t285, ht285⟩ : ∃ x, x = addWithCarry t283.val h279 false := ⟨_, rfl⟩
  obtain ⟨l286, hl286⟩ : ∃ x, x = mulLo l277 p2 := ⟨_, rfl⟩
  obtain ⟨h287, hh287⟩ : ∃ x, x = mulHi l277 p2 := ⟨_, rfl⟩
  obtain ⟨t288, ht288⟩ : ∃ x, x = addWithCarry t262.val l286 t285.c := ⟨_, rfl⟩
  obtain ⟨t289, ht289⟩ : ∃ x, x = addWithCarry h287 (0 : Word) t288.c := ⟨_, rfl⟩
  obtain ⟨t290, ht290⟩ : ∃ x, x = addWithCarry t288.val t284.val false := ⟨_, rfl⟩
  obtain ⟨l291, hl291⟩ : ∃ x, x = mulLo l277 p3 := ⟨_, rfl⟩
  obtain ⟨h292, hh292⟩ : ∃ x, x = mulHi l277 p3 := ⟨_, rfl⟩
  obtain ⟨t293, ht293⟩ : ∃ x, x = addWithCarry t267.val l291 t290.c := ⟨_, rfl⟩
  obtain ⟨t294, ht294⟩ : ∃ x, x = addWithCarry h292 (0 : Word) t293.c := ⟨_, rfl⟩
  obtain ⟨t295, ht295⟩ : ∃ x, x = addWithCarry t293.val t289.val false := ⟨_, rfl⟩
  obtain ⟨l296, hl296⟩ : ∃ x, x = mulLo l277 p4 := ⟨_, rfl⟩
  obtain ⟨h297, hh297⟩ : ∃ x, x = mulHi l277 p4 := ⟨_, rfl⟩
  obtain ⟨t298, ht298⟩ : ∃ x, x = addWithCarry t272.val l296 t295.c := ⟨_, rfl⟩
  obtain ⟨t299, ht299⟩ : ∃ x, x = addWithCarry h297 (0 : Word) t298.c := ⟨_, rfl⟩
  obtain ⟨t300, ht300⟩ : ∃ x, x = addWithCarry t298.val t294.val false := ⟨_, rfl⟩
  obtain ⟨l301, hl301⟩ : ∃ x, x = mulLo l277 p5 := ⟨_, rfl⟩
  obtain ⟨h302, hh302⟩ : ∃ x, x = mulHi l277 p5 := ⟨_, rfl⟩
  obtain ⟨t303, ht303⟩ : ∃ x, x = addWithCarry t275.val l301 t300.c := ⟨_, rfl⟩
  obtain ⟨t304, ht304⟩ : ∃ x, x = addWithCarry h302 (0 : Word) t303.c := ⟨_, rfl⟩
  obtain ⟨t305, ht305⟩ : ∃ x, x = addWithCarry t303.val t299.val false := ⟨_, rfl⟩
  obtain ⟨t306, ht306⟩ : ∃ x, x = addWithCarry t304.val (0 : Word) t305.c := ⟨_, rfl⟩
  obtain ⟨t307, ht307⟩ : ∃ x, x = addWithCarry t276.val (~~~1#64) true := ⟨_, rfl⟩
  obtain ⟨t308, ht308⟩ : ∃ x, x = addWithCarry t169.val t306.val t307.c := ⟨_, rfl⟩
  obtain ⟨t309, ht309⟩ : ∃ x, x = addWithCarry (0 : Word) (0 : Word) t308.c := ⟨_, rfl⟩
  obtain ⟨l310, hl310⟩ : ∃ x, x = mulLo t285.val inv := ⟨_, rfl⟩
  obtain ⟨l311, hl311⟩ : ∃ x, x = mulLo l310 p0 := ⟨_, rfl⟩
  obtain ⟨h312, hh312⟩ : ∃ x, x = mulHi l310 p0 := ⟨_, rfl⟩
  obtain ⟨t313, ht313⟩ : ∃ x, x = addWithCarry t285.val l311 false := ⟨_, rfl⟩
  obtain ⟨l314, hl314⟩ : ∃ x, x = mulLo l310 p1 := ⟨_, rfl⟩
  obtain ⟨h315, hh315⟩ : ∃ x, x = mulHi l310 p1 := ⟨_, rfl⟩
  obtain ⟨t316, ht316⟩ : ∃ x, x = addWithCarry t290.val l314 t313.c := ⟨_, rfl⟩
  obtain ⟨t317, ht317⟩ : ∃ x, x = addWithCarry h315 (0 : Word) t316.c := ⟨_, rfl⟩
  obtain ⟨t318, ht318⟩ : ∃ x, x = addWithCarry t316.val h312 false := ⟨_, rfl⟩
  obtain ⟨l319, hl319⟩ : ∃ x, x = mulLo l310 p2 := ⟨_, rfl⟩
  obtain ⟨h320, hh320⟩ : ∃ x, x = mulHi l310 p2 := ⟨_, rfl⟩
  obtain ⟨t321, ht321⟩ : ∃ x, x = addWithCarry t295.val l319 t318.c := ⟨_, rfl⟩
  obtain ⟨t322, ht322⟩ : ∃ x, x = addWithCarry h320 (0 : Word) t321.c := ⟨_, rfl⟩
  obtain ⟨t323, ht323⟩ : ∃ x, x = addWithCarry t321.val t317.val false := ⟨_, rfl⟩
  obtain ⟨l324, hl324⟩ : ∃ x, x = mulLo l310 p3 := ⟨_, rfl⟩
  obtain ⟨h325, hh325⟩ : ∃ x, x = mulHi l310 p3 := ⟨_, rfl⟩
  obtain ⟨t326, ht326⟩ : ∃ x, x = addWithCarry t300.val l324 t323.c := ⟨_, rfl⟩
  obtain ⟨t327, ht327⟩ : ∃ x, x = addWithCarry h325 (0 : Word) t326.c := ⟨_, rfl⟩
  obtain ⟨t328, ht328⟩ : ∃ x, x = addWithCarry t326.val t322.val false := ⟨_, rfl⟩
  obtain ⟨l329, hl329⟩ : ∃ x, x = mulLo l310 p4 := ⟨_, rfl⟩
  obtain ⟨h330, hh330⟩ : ∃ x, x = mulHi l310 p4 := ⟨_, rfl⟩
  obtain ⟨t331, ht331⟩ : ∃ x, x = addWithCarry t305.val l329 t328.c := ⟨_, rfl⟩
  obtain ⟨t332, ht332⟩ : ∃ x, x = addWithCarry h330 (0 : Word) t331.c := ⟨_, rfl⟩
  obtain ⟨t333, ht333⟩ : ∃ x, x = addWithCarry t331.val t327.val false := ⟨_, rfl⟩
  obtain ⟨l334, hl334⟩ : ∃ x, x = mulLo l310 p5 := ⟨_, rfl⟩
  obtain ⟨h335, hh335⟩ : ∃ x, x = mulHi l310 p5 := ⟨_, rfl⟩
  obtain ⟨t336, ht336⟩ : ∃ x, x = addWithCarry t308.val l334 t333.c := ⟨_, rfl⟩
  obtain ⟨t337, ht337⟩ : ∃ x, x = addWithCarry h335 (0 : Word) t336.c := ⟨_, rfl⟩
  obtain ⟨t338, ht338⟩ : ∃ x, x = addWithCarry t336.val t332.val false := ⟨_, rfl⟩
  obtain ⟨t339, ht339⟩ : ∃ x, x = addWithCarry t337.val (0 : Word) t338.c := ⟨_, rfl⟩
  obtain ⟨t340, ht340⟩ : ∃ x, x = addWithCarry t309.val (~~~1#64) true := ⟨_, rfl⟩
  obtain ⟨t341, ht341⟩ : ∃ x, x = addWithCarry t174.val t339.val t340.c := ⟨_, rfl⟩
  obtain ⟨t342, ht342⟩ : ∃ x, x = addWithCarry (0 : Word) (0 : Word) t341.c := ⟨_, rfl⟩
  obtain ⟨l343, hl343⟩ : ∃ x, x = mulLo t318.val inv := ⟨_, rfl⟩
  obtain ⟨l344, hl344⟩ : ∃ x, x = mulLo l343 p0 := ⟨_, rfl⟩
  obtain ⟨h345, hh345⟩ : ∃ x, x = mulHi l343 p0 := ⟨_, rfl⟩
  obtain ⟨t346, ht346⟩ : ∃ x, x = addWithCarry t318.val l344 false := ⟨_, rfl⟩
  obtain ⟨l347, hl347⟩ : ∃ x, x = mulLo l343 p1 := ⟨_, rfl⟩
  obtain ⟨h348, hh348⟩ : ∃ x, x = mulHi l343 p1 := ⟨_, rfl⟩
  obtain ⟨t349, ht349⟩ : ∃ x, x = addWithCarry t323.val l347 t346.c := ⟨_, rfl⟩
  obtain ⟨t350, ht350⟩ : ∃ x, x = addWithCarry h348 (0 : Word) t349.c := ⟨_, rfl⟩
  obtain ⟨t351, ht351⟩ : ∃ x, x = addWithCarry t349.val h345 false := ⟨_, rfl⟩
  obtain ⟨l352, hl352⟩ : ∃ x, x = mulLo l343 p2 := ⟨_, rfl⟩
  obtain ⟨h353, hh353⟩ : ∃ x, x = mulHi l343 p2 := ⟨_, rfl⟩
  obtain ⟨t354, ht354⟩ : ∃ x, x = addWithCarry t328.val l352 t351.c := ⟨_, rfl⟩
  obtain ⟨t355, ht355⟩ : ∃ x, x = addWithCarry h353 (0 : Word) t354.c := ⟨_, rfl⟩
  obtain ⟨t356, ht356⟩ : ∃ x, x = addWithCarry t354.val t350.val false := ⟨_, rfl⟩
  obtain ⟨l357, hl357⟩ : ∃ x, x = mulLo l343 p3 := ⟨_, rfl⟩
  obtain ⟨h358, hh358⟩ : ∃ x, x = mulHi l343 p3 := ⟨_, rfl⟩
  obtain ⟨t359, ht359⟩ : ∃ x, x = addWithCarry t333.val l357 t356.c := ⟨_, rfl⟩
  obtain ⟨t360, ht360⟩ : ∃ x, x = addWithCarry h358 (0 : Word) t359.c := ⟨_, rfl⟩
  obtain ⟨t361, ht361⟩ : ∃ x, x = addWithCarry t359.val t355.val false := ⟨_, rfl⟩
  obtain ⟨l362, hl362⟩ : ∃ x, x = mulLo l343 p4 := ⟨_, rfl⟩
  obtain ⟨h363, hh363⟩ : ∃ x, x = mulHi l343 p4 := ⟨_, rfl⟩
  obtain ⟨t364, ht364⟩ : ∃ x, x = addWithCarry t338.val l362 t361.c := ⟨_, rfl⟩
  obtain ⟨t365, ht365⟩ : ∃ x, x = addWithCarry h363 (0 : Word) t364.c := ⟨_, rfl⟩
  obtain ⟨t366, ht366⟩ : ∃ x, x = addWithCarry t364.val t360.val false := ⟨_, rfl⟩
  obtain ⟨l367, hl367⟩ : ∃ x, x = mulLo l343 p5 := ⟨_, rfl⟩
  obtain ⟨h368, hh368⟩ : ∃ x, x = mulHi l343 p5 := ⟨_, rfl⟩
  obtain ⟨t369, ht369⟩ : ∃ x, x = addWithCarry t341.val l367 t366.c := ⟨_, rfl⟩
  obtain ⟨t370, ht370⟩ : ∃ x, x = addWithCarry h368 (0 : Word) t369.c := ⟨_, rfl⟩
  obtain ⟨t371, ht371⟩ : ∃ x, x = addWithCarry t369.val t365.val false := ⟨_, rfl⟩
  obtain ⟨t372, ht372⟩ : ∃ x, x = addWithCarry t370.val (0 : Word) t371.c := ⟨_, rfl⟩
  obtain ⟨t373, ht373⟩ : ∃ x, x = addWithCarry t342.val (~~~1#64) true := ⟨_, rfl⟩
  obtain ⟨t374, ht374⟩ : ∃ x, x = addWithCarry t175.val t372.val t373.c := ⟨_, rfl⟩
  obtain ⟨t375, ht375⟩ : ∃ x, x = addWithCarry t374.val (~~~p5) true := ⟨_, rfl⟩
  obtain ⟨t392, ht392⟩ : ∃ x, x = addWithCarry t351.val (~~~p0) true := ⟨_, rfl⟩
  obtain ⟨t393, ht393⟩ : ∃ x, x = addWithCarry t356.val (~~~p1) t392.c := ⟨_, rfl⟩
  obtain ⟨t394, ht394⟩ : ∃ x, x = addWithCarry t361.val (~~~p2) t393.c := ⟨_, rfl⟩
  obtain ⟨t395, ht395⟩ : ∃ x, x = addWithCarry t366.val (~~~p3) t394.c := ⟨_, rfl⟩
  obtain ⟨t396, ht396⟩ : ∃ x, x = addWithCarry t371.val (~~~p4) t395.c := ⟨_, rfl⟩
  obtain ⟨t397, ht397⟩ : ∃ x, x = addWithCarry t374.val (~~~p5) t396.c := ⟨_, rfl⟩
  obtain ⟨t378, ht378⟩ : ∃ x, x = addWithCarry t371.val (~~~p4) true := ⟨_, rfl⟩
  obtain ⟨t381, ht381⟩ : ∃ x, x = addWithCarry t366.val (~~~p3) true := ⟨_, rfl⟩
  obtain ⟨t384, ht384⟩ : ∃ x, x = addWithCarry t361.val (~~~p2) true := ⟨_, rfl⟩
  obtain ⟨t387, ht387⟩ : ∃ x, x = addWithCarry t356.val (~~~p1) true := ⟨_, rfl⟩
  obtain ⟨t390, ht390⟩ : ∃ x, x = addWithCarry t351.val (~~~p0) true := ⟨_, rfl⟩
  obtain ⟨t393e, ht393e⟩ : ∃ x, x = addWithCarry t356.val (~~~p1) t390.c := ⟨_, rfl⟩
  obtain ⟨t394e, ht394e⟩ : ∃ x, x = addWithCarry t361.val (~~~p2) t393e.c := ⟨_, rfl⟩
  obtain ⟨t395e, ht395e⟩ : ∃ x, x = addWithCarry t366.val (~~~p3) t394e.c := ⟨_, rfl⟩
  obtain ⟨t396e, ht396e⟩ : ∃ x, x = addWithCarry t371.val (~~~p4) t395e.c := ⟨_, rfl⟩
  obtain ⟨t397e, ht397e⟩ : ∃ x, x = addWithCarry t374.val (~~~p5) t396e.c := ⟨_, rfl⟩
  have hq0 := fpmul_part0 s pr pa pb pp inv hr ha hb hp hstk hrs has hbs hps hst hpc h0 h1 h2 h3 h4 (t12 := t12) (t17 := t17) (t20 := t20) (t23 := t23) (t26 := t26) (t29 := t29) (t30 := t30) (a0 := a0) (a1 := a1) (a2 := a2) (a3 := a3) (a4 := a4) (a5 := a5) (b0 := b0) (b1 := b1) (b2 := b2) (b3 := b3) (b4 := b4) (b5 := b5) (h13 := h13) (h16 := h16) (h19 := h19) (h22 := h22) (h25 := h25) (h28 := h28) (l14 := l14) (l15 := l15) (l18 := l18) (l21 := l21) (l24 := l24) (l27 := l27) ha0 ha1 ha2 ha3 ha4 ha5 hb0 hb1 hb2 hb3 hb4 hb5 ht12 hh13 hl14 hl15 hh16 ht17 hl18 hh19 ht20 hl21 hh22 ht23 hl24 hh25 ht26 hl27 hh28 ht29 ht30
  have hq1 := fpmul_part1 s pr pa pb pp inv hr ha hb hp hstk hrs has hbs hps (t17 := t17) (t20 := t20) (t23 := t23) (t26 := t26) (t29 := t29) (t30 := t30) (t33 := t33) (t36 := t36) (t37 := t37) (t38 := t38) (t41 := t41) (t42 := t42) (t43 := t43) (t46 := t46) (t47 := t47) (t48 := t48) (t51 := t51) (t52 := t52) (t53 := t53) (t56 := t56) (t57 := t57) (t58 := t58) (t59 := t59) (a0 := a0) (a1 := a1) (a2 := a2) (a3 := a3) (a4 := a4) (a5 := a5) (b0 := b0) (b1 := b1) (b2 := b2) (b3 := b3) (b4 := b4) (b5 := b5) (h25 := h25) (h32 := h32) (h35 := h35) (h40 := h40) (h45 := h45) (h50 := h50) (h55 := h55) (l14 := l14) (l31 := l31) (l34 := l34) (l39 := l39) (l44 := l44) (l49 := l49) (l54 := l54) hl31 hh32 ht33 hl34 hh35 ht36 ht37 ht38 hl39 hh40 ht41 ht42 ht43 hl44 hh45 ht46 ht47 ht48 hl49 hh50 ht51 ht52 ht53 hl54 hh55 ht56 ht57 ht58 ht59
  have hq2 := fpmul_part2 s pr pa pb pp inv hr ha hb hp hstk hrs has hbs hps (t33 := t33) (t38 := t38) (t43 := t43) (t48 := t48) (t52 := t52) (t53 := t53) (t58 := t58) (t59 := t59) (t62 := t62) (t65 := t65) (t66 := t66) (t67 := t67) (t70 := t70) (t71 := t71) (t72 := t72) (t75 := t75) (t76 := t76) (t77 := t77) (t80 := t80) (t81 := t81) (t82 := t82) (t85 := t85) (t86 := t86) (t87 := t87) (t88 := t88) (a1 := a1) (a2 := a2) (a3 := a3) (a4 := a4) (a5 := a5) (b0 := b0) (b1 := b1) (b2 := b2) (b3 := b3) (b4 := b4) (b5 := b5) (h61 := h61) (h64 := h64) (h69 := h69) (h74 := h74) (h79 := h79) (h84 := h84) (l14 := l14) (l54 := l54) (l60 := l60) (l63 := l63) (l68 := l68) (l73 := l73) (l78 := l78) (l83 := l83) hl60 hh61 ht62 hl63 hh64 ht65 ht66 ht67 hl68 hh69 ht70 ht71 ht72 hl73 hh74 ht75 ht76 ht77 hl78 hh79 ht80 ht81 ht82 hl83 hh84 ht85 ht86 ht87 ht88
  have hq3 := fpmul_part3 s pr pa pb pp inv hr ha hb hp hstk hrs has hbs hps (t33 := t33) (t52 := t52) (t62 := t62) (t67 := t67) (t72 := t72) (t77 := t77) (t81 := t81) (t82 := t82) (t87 := t87) (t88 := t88) (t91 := t91) (t94 := t94) (t95 := t95) (t96 := t96) (t99 := t99) (t100 := t100) (t101 := t101) (t104 := t104) (t105 := t105) (t106 := t106) (t109 := t109) (t110 := t110) (t111 := t111) (t114 := t114) (t115 := t115) (t116 := t116) (t117 := t117) (a2 := a2) (a3 := a3) (a4 := a4) (a5 := a5) (b0 := b0) (b1 := b1) (b2 := b2) (b3 := b3) (b4 := b4) (b5 := b5) (h90 := h90) (h93 := h93) (h98 := h98) (l14 := l14) (l83 := l83) (l89 := l89) (l92 := l92) (l97 := l97) (h103 := h103) (h108 := h108) (h113 := h113) (l102 := l102) (l107 := l107) (l112 := l112) hl89 hh90 ht91 hl92 hh93 ht94 ht95 ht96 hl97 hh98 ht99 ht100 ht101 hl102 hh103 ht104 ht105 ht106 hl107 hh108 ht109 ht110 ht111 hl112 hh113 ht114 ht115 ht116 ht117
  have hq4 := fpmul_part4 s pr pa pb pp inv hr ha hb hp hstk hrs has hbs hps (t33 := t33) (t52 := t52) (t62 := t62) (t91 := t91) (t96 := t96) (t101 := t101) (t106 := t106) (t110 := t110) (t111 := t111) (t116 := t116) (t117 := t117) (t120 := t120) (t123 := t123) (t124 := t124) (t125 := t125) (t128 := t128) (t129 := t129) (t130 := t130) (t133 := t133) (t134 := t134) (t135 := t135) (t138 := t138) (t139 := t139) (t140 := t140) (t143 := t143) (t144 := t144) (t145 := t145) (t146 := t146) (a2 := a2) (a3 := a3) (a4 := a4) (a5 := a5) (b0 := b0) (b1 := b1) (b2 := b2) (b3 := b3) (b4 := b4) (b5 := b5) (l14 := l14) (h119 := h119) (h122 := h122) (h127 := h127) (h132 := h132) (h137 := h137) (h142 := h142) (l112 := l112) (l118 := l118) (l121 := l121) (l126 := l126) (l131 := l131) (l136 := l136) (l141 := l141) hl118 hh119 ht120 hl121 hh122 ht123 ht124 ht125 hl126 hh127 ht128 ht129 ht130 hl131 hh132 ht133 ht134 ht135 hl136 hh137 ht138 ht139 ht140 hl141 hh142 ht143 ht144 ht145 ht146
  have hq5 := fpmul_part5 s pr pa pb pp inv hr ha hb hp hstk hrs has hbs hps (t33 := t33) (t52 := t52) (t62 := t62) (t91 := t91) (t120 := t120) (t125 := t125) (t130 := t130) (t135 := t135) (t139 := t139) (t140 := t140) (t145 := t145) (t146 := t146) (t149 := t149) (t152 := t152) (t153 := t153) (t154 := t154) (t157 := t157) (t158 := t158) (t159 := t159) (t162 := t162) (t163 := t163) (t164 := t164) (t167 := t167) (t168 := t168) (t169 := t169) (t172 := t172) (t173 := t173) (t174 := t174) (t175 := t175) (a2 := a2) (a3 := a3) (a4 := a4) (a5 := a5) (b0 := b0) (b1 := b1) (b2 := b2) (b3 := b3) (b4 := b4) (b5 := b5) (l14 := l14) (h148 := h148) (h151 := h151) (h156 := h156) (h161 := h161) (h166 := h166) (h171 := h171) (l141 := l141) (l147 := l147) (l150 := l150) (l155 := l155) (l160 := l160) (l165 := l165) (l170 := l170) hl147 hh148 ht149 hl150 hh151 ht152 ht153 ht154 hl155 hh156 ht157 ht158 ht159 hl160 hh161 ht162 ht163 ht164 hl165 hh166 ht167 ht168 ht169 hl170 hh171 ht172 ht173 ht174 ht175
  have hq6 := fpmul_part6 s pr pa pb pp inv hr ha hb hp hstk hrs has hbs hps (t33 := t33) (t62 := t62) (t91 := t91) (t120 := t120) (t149 := t149) (t154 := t154) (t159 := t159) (t164 := t164) (t168 := t168) (t169 := t169) (t174 := t174) (t175 := t175) (t183 := t183) (t186 := t186) (t187 := t187) (t188 := t188) (t191 := t191) (t192 := t192) (t193 := t193) (t196 := t196) (t197 := t197) (t198 := t198) (t201 := t201) (t202 := t202) (t203 := t203) (t206 := t206) (t207 := t207) (t208 := t208) (t209 := t209) (t210 := t210) (a2 := a2) (a3 := a3) (a4 := a4) (a5 := a5) (b0 := b0) (b1 := b1) (b2 := b2) (b3 := b3) (b4 := b4) (b5 := b5) (p0 := p0) (p1 := p1) (p2 := p2) (p3 := p3) (p4 := p4) (p5 := p5) (l14 := l14) (h182 := h182) (h185 := h185) (h190 := h190) (h195 := h195) (h200 := h200) (h205 := h205) (l170 := l170) (l180 := l180) (l181 := l181) (l184 := l184) (l189 := l189) (l194 := l194) (l199 := l199) (l204 := l204) hp0 hp1 hp2 hp3 hp4 hp5 hl180 hl181 hh182 ht183 hl184 hh185 ht186 ht187 ht188 hl189 hh190 ht191 ht192 ht193 hl194 hh195 ht196 ht197 ht198 hl199 hh200 ht201 ht202 ht203 hl204 hh205 ht206 ht207 ht208 ht209 ht210
  have hq7 := fpmul_part7 s pr pa pb pp inv hr ha hb hp hstk hrs has hbs hps (t159 := t159) (t164 := t164) (t169 := t169) (t174 := t174) (t175 := t175) (t188 := t188) (t193 := t193) (t198 := t198) (t202 := t202) (t203 := t203) (t208 := t208) (t209 := t209) (t210 := t210) (t214 := t214) (t217 := t217) (t218 := t218) (t219 := t219) (t222 := t222) (t223 := t223) (t224 := t224) (t227 := t227) (t228 := t228) (t229 := t229) (t232 := t232) (t233 := t233) (t234 := t234) (t237 := t237) (t238 := t238) (t239 := t239) (t240 := t240) (t241 := t241) (t242 := t242) (t243 := t243) (a4 := a4) (a5 := a5) (p0 := p0) (p1 := p1) (p2 := p2) (p3 := p3) (p4 := p4) (p5 := p5) (h213 := h213) (h216 := h216) (h221 := h221) (h226 := h226) (h231 := h231) (h236 := h236) (l180 := l180) (l204 := l204) (l211 := l211) (l212 := l212) (l215 := l215) (l220 := l220) (l225 := l225) (l230 := l230) (l235 := l235) hl211 hl212 hh213 ht214 hl215 hh216 ht217 ht218 ht219 hl220 hh221 ht222 ht223 ht224 hl225 hh226 ht227 ht228 ht229 hl230 hh231 ht232 ht233 ht234 hl235 hh236 ht237 ht238 ht239 ht240 ht241 ht242 ht243
  have hq8 := fpmul_part8 s pr pa pb pp inv hr ha hb hp hstk hrs has hbs hps (t164 := t164) (t169 := t169) (t174 := t174) (t175 := t175) (t219 := t219) (t224 := t224) (t229 := t229) (t233 := t233) (t234 := t234) (t239 := t239) (t240 := t240) (t242 := t242) (t243 := t243) (t247 := t247) (t250 := t250) (t251 := t251) (t252 := t252) (t255 := t255) (t256 := t256) (t257 := t257) (t260 := t260) (t261 := t261) (t262 := t262) (t265 := t265) (t266 := t266) (t267 := t267) (t270 := t270) (t271 := t271) (t272 := t272) (t273 := t273) (t274 := t274) (t275 := t275) (t276 := t276) (a4 := a4) (a5 := a5) (p0 := p0) (p1 := p1) (p2 := p2) (p3 := p3) (p4 := p4) (p5 := p5) (h246 := h246) (h249 := h249) (h254 := h254) (h259 := h259) (h264 := h264) (h269 := h269) (l211 := l211) (l235 := l235) (l244 := l244) (l245 := l245) (l248 := l248) (l253 := l253) (l258 := l258) (l263 := l263) (l268 := l268) hl244 hl245 hh246 ht247 hl248 hh249 ht250 ht251 ht252 hl253 hh254 ht255 ht256 ht257 hl258 hh259 ht260 ht261 ht262 hl263 hh264 ht265 ht266 ht267 hl268 hh269 ht270 ht271 ht272 ht273 ht274 ht275 ht276
  have hq9 := fpmul_part9 s pr pa pb pp inv hr ha hb hp hstk hrs has hbs hps (t169 := t169) (t174 := t174) (t175 := t175) (t240 := t240) (t252 := t252) (t257 := t257) (t262 := t262) (t266 := t266) (t267 := t267) (t272 := t272) (t273 := t273) (t275 := t275) (t276 := t276) (t280 := t280) (t283 := t283) (t284 := t284) (t285 := t285) (t288 := t288) (t289 := t289) (t290 := t290) (t293 := t293) (t294 := t294) (t295 := t295) (t298 := t298) (t299 := t299) (t300 := t300) (t303 := t303) (t304 := t304) (t305 := t305) (t306 := t306) (t307 := t307) (t308 := t308) (t309 := t309) (a4 := a4) (a5 := a5) (p0 := p0) (p1 := p1) (p2 := p2) (p3 := p3) (p4 := p4) (p5 := p5) (h279 := h279) (h282 := h282) (h287 := h287) (h292 := h292) (h297 := h297) (h302 := h302) (l244 := l244) (l268 := l268) (l277 := l277) (l278 := l278) (l281 := l281) (l286 := l286) (l291 := l291) (l296 := l296) (l301 := l301) hl277 hl278 hh279 ht280 hl281 hh282 ht283 ht284 ht285 hl286 hh287 ht288 ht289 ht290 hl291 hh292 ht293 ht294 ht295 hl296 hh297 ht298 ht299 ht300 hl301 hh302 ht303 ht304 ht305 ht306 ht307 ht308 ht309
  have hq10 := fpmul_part10 s pr pa pb pp inv hr ha hb hp hstk hrs has hbs hps (t174 := t174) (t175 := t175) (t240 := t240) (t273 := t273) (t285 := t285) (t290 := t290) (t295 := t295) (t299 := t299) (t300 := t300) (t305 := t305) (t306 := t306) (t308 := t308) (t309 := t309) (t313 := t313) (t316 := t316) (t317 := t317) (t318 := t318) (t321 := t321) (t322 := t322) (t323 := t323) (t326 := t326) (t327 := t327) (t328 := t328) (t331 := t331) (t332 := t332) (t333 := t333) (t336 := t336) (t337 := t337) (t338 := t338) (t339 := t339) (t340 := t340) (t341 := t341) (t342 := t342) (a4 := a4) (a5 := a5) (p0 := p0) (p1 := p1) (p2 := p2) (p3 := p3) (p4 := p4) (p5 := p5) (h312 := h312) (h315 := h315) (h320 := h320) (h325 := h325) (h330 := h330) (h335 := h335) (l277 := l277) (l301 := l301) (l310 := l310) (l311 := l311) (l314 := l314) (l319 := l319) (l324 := l324) (l329 := l329) (l334 := l334) hl310 hl311 hh312 ht313 hl314 hh315 ht316 ht317 ht318 hl319 hh320 ht321 ht322 ht323 hl324 hh325 ht326 ht327 ht328 hl329 hh330 ht331 ht332 ht333 hl334 hh335 ht336 ht337 ht338 ht339 ht340 ht341 ht342
  have hq11 := fpmul_part11 s pr pa pb pp inv hr ha hb hp hstk hrs has hbs hps (t175 := t175) (t240 := t240) (t273 := t273) (t306 := t306) (t318 := t318) (t323 := t323) (t328 := t328) (t332 := t332) (t333 := t333) (t338 := t338) (t339 := t339) (t341 := t341) (t342 := t342) (t346 := t346) (t349 := t349) (t350 := t350) (t351 := t351) (t354 := t354) (t355 := t355) (t356 := t356) (t359 := t359) (t360 := t360) (t361 := t361) (t364 := t364) (t365 := t365) (t366 := t366) (t369 := t369) (t370 := t370) (t371 := t371) (t372 := t372) (t373 := t373) (t374 := t374) (a4 := a4) (a5 := a5) (p0 := p0) (p1 := p1) (p2 := p2) (p3 := p3) (p4 := p4) (p5 := p5) (h345 := h345) (h348 := h348) (h353 := h353) (h358 := h358) (h363 := h363) (h368 := h368) (l310 := l310) (l334 := l334) (l343 := l343) (l344 := l344) (l347 := l347) (l352 := l352) (l357 := l357) (l362 := l362) (l367 := l367) hl343 hl344 hh345 ht346 hl347 hh348 ht349 ht350 ht351 hl352 hh353 ht354 ht355 ht356 hl357 hh358 ht359 ht360 ht361 hl362 hh363 ht364 ht365 ht366 hl367 hh368 ht369 ht370 ht371 ht372 ht373 ht374
  have hpre : run embedded_pairing_core_arch_aarch64_fpbase_384_multiply s 375 = _ := show run embedded_pairing_core_arch_aarch64_fpbase_384_multiply s (31 + (29 + (29 + (29 + (29 + (29 + (35 + (33 + (33 + (33 + (33 + (32)))))))))))) = _ from run_chain hq0 (run_chain hq1 (run_chain hq2 (run_chain hq3 (run_chain hq4 (run_chain hq5 (run_chain hq6 (run_chain hq7 (run_chain hq8 (run_chain hq9 (run_chain hq10 (hq11)))))))))))
  clear hq0 hq1 hq2 hq3 hq4 hq5 hq6 hq7 hq8 hq9 hq10 hq11
  have hprod := fpmul_prod (t12 := t12) (t17 := t17) (t20 := t20) (t23 := t23) (t26 := t26) (t29 := t29) (t30 := t30) (t33 := t33) (t36 := t36) (t37 := t37) (t38 := t38) (t41 := t41) (t42 := t42) (t43 := t43) (t46 := t46) (t47 := t47) (t48 := t48) (t51 := t51) (t52 := t52) (t53 := t53) (t56 := t56) (t57 := t57) (t58 := t58) (t59 := t59) (t62 := t62) (t65 := t65) (t66 := t66) (t67 := t67) (t70 := t70) (t71 := t71) (t72 := t72) (t75 := t75) (t76 := t76) (t77 := t77) (t80 := t80) (t81 := t81) (t82 := t82) (t85 := t85) (t86 := t86) (t87 := t87) (t88 := t88) (t91 := t91) (t94 := t94) (t95 := t95) (t96 := t96) (t99 := t99) (t100 := t100) (t101 := t101) (t104 := t104) (t105 := t105) (t106 := t106) (t109 := t109) (t110 := t110) (t111 := t111) (t114 := t114) (t115 := t115) (t116 := t116) (t117 := t117) (t120 := t120) (t123 := t123) (t124 := t124) (t125 := t125) (t128 := t128) (t129 := t129) (t130 := t130) (t133 := t133) (t134 := t134) (t135 := t135) (t138 := t138) (t139 := t139) (t140 := t140) (t143 := t143) (t144 := t144) (t145 := t145) (t146 := t146) (t149 := t149) (t152 := t152) (t153 := t153) (t154 := t154) (t157 := t157) (t158 := t158) (t159 := t159) (t162 := t162) (t163 := t163) (t164 := t164) (t167 := t167) (t168 := t168) (t169 := t169) (t172 := t172) (t173 := t173) (t174 := t174) (t175 := t175) (a0 := a0) (a1 := a1) (a2 := a2) (a3 := a3) (a4 := a4) (a5 := a5) (b0 := b0) (b1 := b1) (b2 := b2) (b3 := b3) (b4 := b4) (b5 := b5) (h13 := h13) (h16 := h16) (h19 := h19) (h22 := h22) (h25 := h25) (h28 := h28) (h32 := h32) (h35 := h35) (h40 := h40) (h45 := h45) (h50 := h50) (h55 := h55) (h61 := h61) (h64 := h64) (h69 := h69) (h74 := h74) (h79 := h79) (h84 := h84) (h90 := h90) (h93 := h93) (h98 := h98) (l14 := l14) (l15 := l15) (l18 := l18) (l21 := l21) (l24 := l24) (l27 := l27) (l31 := l31) (l34 := l34) (l39 := l39) (l44 := l44) (l49 := l49) (l54 := l54) (l60 := l60) (l63 := l63) (l68 := l68) (l73 := l73) (l78 := l78) (l83 := l83) (l89 := l89) (l92 := l92) (l97 := l97) (h103 := h103) (h108 := h108) (h113 := h113) (h119 := h119) (h122 := h122) (h127 := h127) (h132 := h132) (h137 := h137) (h142 := h142) (h148 := h148) (h151 := h151) (h156 := h156) (h161 := h161) (h166 := h166) (h171 := h171) (l102 := l102) (l107 := l107) (l112 := l112) (l118 := l118) (l121 := l121) (l126 := l126) (l131 := l131) (l136 := l136) (l141 := l141) (l147 := l147) (l150 := l150) (l155 := l155) (l160 := l160) (l165 := l165) (l170 := l170) ht12 hh13 hl14 hl15 hh16 ht17 hl18 hh19 ht20 hl21 hh22 ht23 hl24 hh25 ht26 hl27 hh28 ht29 ht30 hl31 hh32 ht33 hl34 hh35 ht36 ht37 ht38 hl39 hh40 ht41 ht42 ht43 hl44 hh45 ht46 ht47 ht48 hl49 hh50 ht51 ht52 ht53 hl54 hh55 ht56 ht57 ht58 ht59 hl60 hh61 ht62 hl63 hh64 ht65 ht66 ht67 hl68 hh69 ht70 ht71 ht72 hl73 hh74 ht75 ht76 ht77 hl78 hh79 ht80 ht81 ht82 hl83 hh84 ht85 ht86 ht87 ht88 hl89 hh90 ht91 hl92 hh93 ht94 ht95 ht96 hl97 hh98 ht99 ht100 ht101 hl102 hh103 ht104 ht105 ht106 hl107 hh108 ht109 ht110 ht111 hl112 hh113 ht114 ht115 ht116 ht117 hl118 hh119 ht120 hl121 hh122 ht123 ht124 ht125 hl126 hh127 ht128 ht129 ht130 hl131 hh132 ht133 ht134 ht135 hl136 hh137 ht138 ht139 ht140 hl141 hh142 ht143 ht144 ht145 ht146 hl147 hh148 ht149 hl150 hh151 ht152 ht153 ht154 hl155 hh156 ht157 ht158 ht159 hl160 hh161 ht162 ht163 ht164 hl165 hh166 ht167 ht168 ht169 hl170 hh171 ht172 ht173 ht174 ht175
  obtain ⟨hR2, hRe⟩ := fpmul_mont (t33 := t33) (t62 := t62) (t91 := t91) (t120 := t120) (t149 := t149) (t154 := t154) (t159 := t159) (t164 := t164) (t169 := t169) (t174 := t174) (t175 := t175) (t183 := t183) (t186 := t186) (t187 := t187) (t188 := t188) (t191 := t191) (t192 := t192) (t193 := t193) (t196 := t196) (t197 := t197) (t198 := t198) (t201 := t201) (t202 := t202) (t203 := t203) (t206 := t206) (t207 := t207) (t208 := t208) (t209 := t209) (t210 := t210) (t214 := t214) (t217 := t217) (t218 := t218) (t219 := t219) (t222 := t222) (t223 := t223) (t224 := t224) (t227 := t227) (t228 := t228) (t229 := t229) (t232 := t232) (t233 := t233) (t234 := t234) (t237 := t237) (t238 := t238) (t239 := t239) (t240 := t240) (t241 := t241) (t242 := t242) (t243 := t243) (t247 := t247) (t250 := t250) (t251 := t251) (t252 := t252) (t255 := t255) (t256 := t256) (t257 := t257) (t260 := t260) (t261 := t261) (t262 := t262) (t265 := t265) (t266 := t266) (t267 := t267) (t270 := t270) (t271 := t271) (t272 := t272) (t273 := t273) (t274 := t274) (t275 := t275) (t276 := t276) (t280 := t280) (t283 := t283) (t284 := t284) (t285 := t285) (t288 := t288) (t289 := t289) (t290 := t290) (t293 := t293) (t294 := t294) (t295 := t295) (t298 := t298) (t299 := t299) (t300 := t300) (t303 := t303) (t304 := t304) (t305 := t305) (t306 := t306) (t307 := t307) (t308 := t308) (t309 := t309) (t313 := t313) (t316 := t316) (t317 := t317) (t318 := t318) (t321 := t321) (t322 := t322) (t323 := t323) (t326 := t326) (t327 := t327) (t328 := t328) (t331 := t331) (t332 := t332) (t333 := t333) (t336 := t336) (t337 := t337) (t338 := t338) (t339 := t339) (t340 := t340) (t341 := t341) (t342 := t342) (t346 := t346) (t349 := t349) (t350 := t350) (t351 := t351) (t354 := t354) (t355 := t355) (t356 := t356) (t359 := t359) (t360 := t360) (t361 := t361) (t364 := t364) (t365 := t365) (t366 := t366) (t369 := t369) (t370 := t370) (t371 := t371) (t372 := t372) (t373 := t373) (t374 := t374) (p0 := p0) (p1 := p1) (p2 := p2) (p3 := p3) (p4 := p4) (p5 := p5) (inv := inv) (l14 := l14) (h182 := h182) (h185 := h185) (h190 := h190) (h195 := h195) (h200 := h200) (h205 := h205) (h213 := h213) (h216 := h216) (h221 := h221) (h226 := h226) (h231 := h231) (h236 := h236) (h246 := h246) (h249 := h249) (h254 := h254) (h259 := h259) (h264 := h264) (h269 := h269) (h279 := h279) (h282 := h282) (h287 := h287) (h292 := h292) (h297 := h297) (h302 := h302) (h312 := h312) (h315 := h315) (h320 := h320) (h325 := h325) (h330 := h330) (h335 := h335) (h345 := h345) (h348 := h348) (h353 := h353) (h358 := h358) (h363 := h363) (h368 := h368) (l180 := l180) (l181 := l181) (l184 := l184) (l189 := l189) (l194 := l194) (l199 := l199) (l204 := l204) (l211 := l211) (l212 := l212) (l215 := l215) (l220 := l220) (l225 := l225) (l230 := l230) (l235 := l235) (l244 := l244) (l245 := l245) (l248 := l248) (l253 := l253) (l258 := l258) (l263 := l263) (l268 := l268) (l277 := l277) (l278 := l278) (l281 := l281) (l286 := l286) (l291 := l291) (l296 := l296) (l301 := l301) (l310 := l310) (l311 := l311) (l314 := l314) (l319 := l319) (l324 := l324) (l329 := l329) (l334 := l334) (l343 := l343) (l344 := l344) (l347 := l347) (l352 := l352) (l357 := l357) (l362 := l362) (l367 := l367) hl180 hl181 hh182 ht183 hl184 hh185 ht186 ht187 ht188 hl189 hh190 ht191 ht192 ht193 hl194 hh195 ht196 ht197 ht198 hl199 hh200 ht201 ht202 ht203 hl204 hh205 ht206 ht207 ht208 ht209 ht210 hl211 hl212 hh213 ht214 hl215 hh216 ht217 ht218 ht219 hl220 hh221 ht222 ht223 ht224 hl225 hh226 ht227 ht228 ht229 hl230 hh231 ht232 ht233 ht234 hl235 hh236 ht237 ht238 ht239 ht240 ht241 ht242 ht243 hl244 hl245 hh246 ht247 hl248 hh249 ht250 ht251 ht252 hl253 hh254 ht255 ht256 ht257 hl258 hh259 ht260 ht261 ht262 hl263 hh264 ht265 ht266 ht267 hl268 hh269 ht270 ht271 ht272 ht273 ht274 ht275 ht276 hl277 hl278 hh279 ht280 hl281 hh282 ht283 ht284 ht285 hl286 hh287 ht288 ht289 ht290 hl291 hh292 ht293 ht294 ht295 hl296 hh297 ht298 ht299 ht300 hl301 hh302 ht303 ht304 ht305 ht306 ht307 ht308 ht309 hl310 hl311 hh312 ht313 hl314 hh315 ht316 ht317 ht318 hl319 hh320 ht321 ht322 ht323 hl324 hh325 ht326 ht327 ht328 hl329 hh330 ht331 ht332 ht333 hl334 hh335 ht336 ht337 ht338 ht339 ht340 ht341 ht342 hl343 hl344 hh345 ht346 hl347 hh348 ht349 ht350 ht351 hl352 hh353 ht354 ht355 ht356 hl357 hh358 ht359 ht360 ht361 hl362 hh363 ht364 ht365 ht366 hl367 hh368 ht369 ht370 ht371 ht372 ht373 ht374 hinv (by rw [hprod]; exact hAB) h2P
  rw [hprod] at hRe
  cases hb376 : (t375.c && !t375.z) with
  | true =>
    obtain ⟨s', e1, e2, e3, e4, e5⟩ := fpmul_end_hi5 s pr pa pb pp inv hr ha hb hp hstk hrs has hbs hps (t240 := t240) (t273 := t273) (t306 := t306) (t339 := t339) (t342 := t342) (t351 := t351) (t356 := t356) (t361 := t361) (t365 := t365) (t366 := t366) (t371 := t371) (t372 := t372) (t374 := t374) (t392 := t392) (t393 := t393) (t394 := t394) (t395 := t395) (t396 := t396) (t397 := t397) (a4 := a4) (a5 := a5) (p0 := p0) (p1 := p1) (p2 := p2) (p3 := p3) (p4 := p4) (p5 := p5) (l343 := l343) (l367 := l367) ht375 ht392 ht393 ht394 ht395 ht396 ht397 hb376 hR2 hRe
    exact ⟨s', run_fuel (run_chain hpre e1) e2.halted 407 (by decide), e2, e3, e4, e5⟩
  | false =>
    cases hb377 : (!t375.c) with
    | true =>
      obtain ⟨s', e1, e2, e3, e4, e5⟩ := fpmul_end_lo5 s pr pa pb pp inv hr ha hb hp hstk hrs has hbs hps (t240 := t240) (t273 := t273) (t306 := t306) (t339 := t339) (t342 := t342) (t351 := t351) (t356 := t356) (t361 := t361) (t365 := t365) (t366 := t366) (t371 := t371) (t372 := t372) (t374 := t374) (t375 := t375) (a4 := a4) (a5 := a5) (p0 := p0) (p1 := p1) (p2 := p2) (p3 := p3) (p4 := p4) (p5 := p5) (l343 := l343) (l367 := l367) ht375 hb376 hb377 hR2 hRe
      exact ⟨s', run_fuel (run_chain hpre e1) e2.halted 407 (by decide), e2, e3, e4, e5⟩
    | false =>
      cases hb379 : (t378.c && !t378.z) with
      | true =>
        obtain ⟨s', e1, e2, e3, e4, e5⟩ := fpmul_end_hi4 s pr pa pb pp inv hr ha hb hp hstk hrs has hbs hps (t240 := t240) (t273 := t273) (t306 := t306) (t339 := t339) (t342 := t342) (t351 := t351) (t356 := t356) (t361 := t361) (t365 := t365) (t366 := t366) (t371 := t371) (t372 := t372) (t374 := t374) (t392 := t392) (t393 := t393) (t394 := t394) (t395 := t395) (t396 := t396) (t397 := t397) (a4 := a4) (a5 := a5) (p0 := p0) (p1 := p1) (p2 := p2) (p3 := p3) (p4 := p4) (p5 := p5) (l343 := l343) (l367 := l367) ht375 ht378 ht392 ht393 ht394 ht395 ht396 ht397 hb376 hb377 hb379 hR2 hRe
        exact ⟨s', run_fuel (run_chain hpre e1) e2.halted 407 (by decide), e2, e3, e4, e5⟩
      | false =>
        cases hb380 : (!t378.c) with
        | true =>
          obtain ⟨s', e1, e2, e3, e4, e5⟩ := fpmul_end_lo4 s pr pa pb pp inv hr ha hb hp hstk hrs has hbs hps (t240 := t240) (t273 := t273) (t306 := t306) (t339 := t339) (t342 := t342) (t351 := t351) (t356 := t356) (t361 := t361) (t365 := t365) (t366 := t366) (t371 := t371) (t372 := t372) (t374 := t374) (t378 := t378) (a4 := a4) (a5 := a5) (p0 := p0) (p1 := p1) (p2 := p2) (p3 := p3) (p4 := p4) (p5 := p5) (l343 := l343) (l367 := l367) ht375 ht378 hb376 hb377 hb379 hb380 hR2 hRe
          exact ⟨s', run_fuel (run_chain hpre e1) e2.halted 407 (by decide), e2, e3, e4, e5⟩
        | false =>
          cases hb382 : (t381.c && !t381.z) with
          | true =>
            obtain ⟨s', e1, e2, e3, e4, e5⟩ := fpmul_end_hi3 s pr pa pb pp inv hr ha hb hp hstk hrs has hbs hps (t240 := t240) (t273 := t273) (t306 := t306) (t339 := t339) (t342 := t342) (t351 := t351) (t356 := t356) (t361 := t361) (t365 := t365) (t366 := t366) (t371 := t371) (t372 := t372) (t374 := t374) (t392 := t392) (t393 := t393) (t394 := t394) (t395 := t395) (t396 := t396) (t397 := t397) (a4 := a4) (a5 := a5) (p0 := p0) (p1 := p1) (p2 := p2) (p3 := p3) (p4 := p4) (p5 := p5) (l343 := l343) (l367 := l367) ht375 ht378 ht381 ht392 ht393 ht394 ht395 ht396 ht397 hb376 hb377 hb379 hb380 hb382 hR2 hRe
            exact ⟨s', run_fuel (run_chain hpre e1) e2.halted 407 (by decide), e2, e3, e4, e5⟩
          | false =>
            cases hb383 : (!t381.c) with
            | true =>
              obtain ⟨s', e1, e2, e3, e4, e5⟩ := fpmul_end_lo3 s pr pa pb pp inv hr ha hb hp hstk hrs has hbs hps (t240 := t240) (t273 := t273) (t306 := t306) (t339 := t339) (t342 := t342) (t351 := t351) (t356 := t356) (t361 := t361) (t365 := t365) (t366 := t366) (t371 := t371) (t372 := t372) (t374 := t374) (t381 := t381) (a4 := a4) (a5 := a5) (p0 := p0) (p1 := p1) (p2 := p2) (p3 := p3) (p4 := p4) (p5 := p5) (l343 := l343) (l367 := l367) ht375 ht378 ht381 hb376 hb377 hb379 hb380 hb382 hb383 hR2 hRe
              exact ⟨s', run_fuel (run_chain hpre e1) e2.halted 407 (by decide), e2, e3, e4, e5⟩
            | false =>
              cases hb385 : (t384.c && !t384.z) with
              | true =>
                obtain ⟨s', e1, e2, e3, e4, e5⟩ := fpmul_end_hi2 s pr pa pb pp inv hr ha hb hp hstk hrs has hbs hps (t240 := t240) (t273 := t273) (t306 := t306) (t339 := t339) (t342 := t342) (t351 := t351) (t356 := t356) (t361 := t361) (t365 := t365) (t366 := t366) (t371 := t371) (t372 := t372) (t374 := t374) (t392 := t392) (t393 := t393) (t394 := t394) (t395 := t395) (t396 := t396) (t397 := t397) (a4 := a4) (a5 := a5) (p0 := p0) (p1 := p1) (p2 := p2) (p3 := p3) (p4 := p4) (p5 := p5) (l343 := l343) (l367 := l367) ht375 ht378 ht381 ht384 ht392 ht393 ht394 ht395 ht396 ht397 hb376 hb377 hb379 hb380 hb382 hb383 hb385 hR2 hRe
                exact ⟨s', run_fuel (run_chain hpre e1) e2.halted 407 (by decide), e2, e3, e4, e5⟩
              | false =>
                cases hb386 : (!t384.c) with
                | true =>
                  obtain ⟨s', e1, e2, e3, e4, e5⟩ := fpmul_end_lo2 s pr pa pb pp inv hr ha hb hp hstk hrs has hbs hps (t240 := t240) (t273 := t273) (t306 := t306) (t339 := t339) (t342 := t342) (t351 := t351) (t356 := t356) (t361 := t361) (t365 := t365) (t366 := t366) (t371 := t371) (t372 := t372) (t374 := t374) (t384 := t384) (a4 := a4) (a5 := a5) (p0 := p0) (p1 := p1) (p2 := p2) (p3 := p3) (p4 := p4) (p5 := p5) (l343 := l343) (l367 := l367) ht375 ht378 ht381 ht384 hb376 hb377 hb379 hb380 hb382 hb383 hb385 hb386 hR2 hRe
                  exact ⟨s', run_fuel (run_chain hpre e1) e2.halted 407 (by decide), e2, e3, e4, e5⟩
                | false =>
                  cases hb388 : (t387.c && !t387.z) with
                  | true =>
                    obtain ⟨s', e1, e2, e3, e4, e5⟩ := fpmul_end_hi1 s pr pa pb pp inv hr ha hb hp hstk hrs has hbs hps (t240 := t240) (t273 := t273) (t306 := t306) (t339 := t339) (t342 := t342) (t351 := t351) (t356 := t356) (t361 := t361) (t365 := t365) (t366 := t366) (t371 := t371) (t372 := t372) (t374 := t374) (t392 := t392) (t393 := t393) (t394 := t394) (t395 := t395) (t396 := t396) (t397 := t397) (a4 := a4) (a5 := a5) (p0 := p0) (p1 := p1) (p2 := p2) (p3 := p3) (p4 := p4) (p5 := p5) (l343 := l343) (l367 := l367) ht375 ht378 ht381 ht384 ht387 ht392 ht393 ht394 ht395 ht396 ht397 hb376 hb377 hb379 hb380 hb382 hb383 hb385 hb386 hb388 hR2 hRe
                    exact ⟨s', run_fuel (run_chain hpre e1) e2.halted 407 (by decide), e2, e3, e4, e5⟩
                  | false =>
                    cases hb389 : (!t387.c) with
                    | true =>
                      obtain ⟨s', e1, e2, e3, e4, e5⟩ := fpmul_end_lo1 s pr pa pb pp inv hr ha hb hp hstk hrs has hbs hps (t240 := t240) (t273 := t273) (t306 := t306) (t339 := t339) (t342 := t342) (t351 := t351) (t356 := t356) (t361 := t361) (t365 := t365) (t366 := t366) (t371 := t371) (t372 := t372) (t374 := t374) (t387 := t387) (a4 := a4) (a5 := a5) (p0 := p0) (p1 := p1) (p2 := p2) (p3 := p3) (p4 := p4) (p5 := p5) (l343 := l343) (l367 := l367) ht375 ht378 ht381 ht384 ht387 hb376 hb377 hb379 hb380 hb382 hb383 hb385 hb386 hb388 hb389 hR2 hRe
                      exact ⟨s', run_fuel (run_chain hpre e1) e2.halted 407 (by decide), e2, e3, e4, e5⟩
                    | false =>
                      cases hb391 : (!t390.c) with
                      | true =>
                        obtain ⟨s', e1, e2, e3, e4, e5⟩ := fpmul_end_lo0 s pr pa pb pp inv hr ha hb hp hstk hrs has hbs hps (t240 := t240) (t273 := t273) (t306 := t306) (t339 := t339) (t342 := t342) (t351 := t351) (t356 := t356) (t361 := t361) (t365 := t365) (t366 := t366) (t371 := t371) (t372 := t372) (t374 := t374) (t390 := t390) (a4 := a4) (a5 := a5) (p0 := p0) (p1 := p1) (p2 := p2) (p3 := p3) (p4 := p4) (p5 := p5) (l343 := l343) (l367 := l367) ht375 ht378 ht381 ht384 ht387 ht390 hb376 hb377 hb379 hb380 hb382 hb383 hb385 hb386 hb388 hb389 hb391 hR2 hRe
                        exact ⟨s', run_fuel (run_chain hpre e1) e2.halted 407 (by decide), e2, e3, e4, e5⟩
                      | false =>
                        obtain ⟨s', e1, e2, e3, e4, e5⟩ := fpmul_end_hs0 s pr pa pb pp inv hr ha hb hp hstk hrs has hbs hps (t240 := t240) (t273 := t273) (t306 := t306) (t339 := t339) (t342 := t342) (t351 := t351) (t356 := t356) (t361 := t361) (t365 := t365) (t366 := t366) (t371 := t371) (t372 := t372) (t374 := t374) (t390 := t390) (t393e := t393e) (t394e := t394e) (t395e := t395e) (t396e := t396e) (t397e := t397e) (a4 := a4) (a5 := a5) (p0 := p0) (p1 := p1) (p2 := p2) (p3 := p3) (p4 := p4) (p5 := p5) (l343 := l343) (l367 := l367) ht375 ht378 ht381 ht384 ht387 ht390 ht393e ht394e ht395e ht396e ht397e hb376 hb377 hb379 hb380 hb382 hb383 hb385 hb386 hb388 hb389 hb391 hR2 hRe
                        exact ⟨s', run_fuel (run_chain hpre e1) e2.halted 407 (by decide), e2, e3, e4, e5⟩

end Jedi.A64
