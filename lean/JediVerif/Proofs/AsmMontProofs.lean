/-
`fpbase_384_montgomery_reduce` (baseline family, /repo/src/core/arch/x86_64/multiply.s): for every entry
state satisfying the calling convention, `T < P·2^384`, `inv·P ≡ −1 (mod 2^64)` and `2P ≤ 2^384` the six
result limbs are `< P` and `≡ T·2^{-384} (mod P)` — the contract `C02.montgomery_reduce` proves for the
portable model.  (`2P ≤ 2^384` is needed for the same reason as in the C++: the last round drops its
carries, `mont_finish`.)  The result object may overlap the 12-limb input in any way (the input has been
consumed when the first result word is written); it must be disjoint from the modulus and the stack.

Six rounds (`mont_raw_spec`: window + u·P = 2^64 · shifted window, the low word vanishes by the choice of
`u`), the hand-over of the next input word and the meta-carry (`mont_top_*`), then the four-way ending:
top word below that of `P` (copy), above (subtract), equal (store, subtract, keep or overwrite).
Symbolic execution in pieces as in `AsmMulProofs.lean`; the four endings are separate last pieces.
-/
import JediVerif.Proofs.AsmMulProofs
import Mathlib.Tactic.Positivity

set_option linter.unusedSimpArgs false
set_option exponentiation.threshold 800

namespace Jedi.X86
open Jedi.Impl (val WF val_cons val_nil val_lt val_inj)

/-! ## one Montgomery round at the Nat level -/

theorem imul_fold (x y : Word) : BitVec.ofInt 64 (sval x * sval y) = x * y := by
  simp only [sval]
  rw [← BitVec.toInt_inj, BitVec.toInt_ofInt, BitVec.toInt_mul]

/-- `u = inv·w0 mod 2^64` with `inv·P ≡ −1 (mod 2^64)` makes the low word of `w0 + u·p0` vanish -/
theorem mont_low {inv w0 p0 u lo : Word} {t : ArithRes} {P' : Nat}
    (hinv : (inv.toNat * (p0.toNat + 2 ^ 64 * P') + 1) % 2 ^ 64 = 0)
    (hu : u = inv * w0) (hlo : lo = mulLo u p0) (ht : t = addc .q w0 lo false) : t.val.toNat = 0 := by
  have hinv' : (inv.toNat * p0.toNat + 1) % 2 ^ 64 = 0 := by
    have : inv.toNat * (p0.toNat + 2 ^ 64 * P') + 1 = inv.toNat * p0.toNat + 1 + 2 ^ 64 * (inv.toNat * P') := by ring
    rw [this, Nat.add_mul_mod_self_left] at hinv; exact hinv
  have key := Jedi.Impl.mont_low_word (t0 := w0.toNat) hinv'
  subst hu hlo ht
  simp only [addc, mulLo, Width.bits, Bool.toNat_false, Nat.add_zero, BitVec.toNat_ofNat, BitVec.toNat_mul, Nat.mod_mod]
  rw [Nat.mul_comm inv.toNat w0.toNat, Nat.add_comm, Nat.mod_add_mod]
  exact key

section round
variable {inv u w0 w1 w2 w3 w4 w5 p0 p1 p2 p3 p4 p5 l0 l1 l2 l3 l4 l5 h0 h1 h2 h3 h4 h5 : Word}
variable {t0 c0 ta1 ua1 tb1 ub1 ta2 ua2 tb2 ub2 ta3 ua3 tb3 ub3 ta4 ua4 tb4 ub4 ta5 ua5 tb5 ub5 : ArithRes}

set_option maxHeartbeats 1000000 in
set_option exponentiation.threshold 800 in
/-- `montgomeryreduceloopiterationraw`: `window + u·P = 2^64 · (new low five words, carry word)` -/
theorem mont_raw_spec
    (hinv : (inv.toNat * val (2 ^ 64) [p0.toNat, p1.toNat, p2.toNat, p3.toNat, p4.toNat, p5.toNat] + 1) % 2 ^ 64 = 0)
    (hu : u = inv * w0)
    (hl0 : l0 = mulLo u p0) (hh0 : h0 = mulHi u p0) (ht0 : t0 = addc .q w0 l0 false) (hc0 : c0 = addc .q h0 (0#64) t0.cf)
    (hl1 : l1 = mulLo u p1) (hh1 : h1 = mulHi u p1) (hta1 : ta1 = addc .q l1 c0.val false)
    (hua1 : ua1 = addc .q h1 (0#64) ta1.cf) (htb1 : tb1 = addc .q w1 ta1.val false) (hub1 : ub1 = addc .q ua1.val (0#64) tb1.cf)
    (hl2 : l2 = mulLo u p2) (hh2 : h2 = mulHi u p2) (hta2 : ta2 = addc .q l2 ub1.val false)
    (hua2 : ua2 = addc .q h2 (0#64) ta2.cf) (htb2 : tb2 = addc .q w2 ta2.val false) (hub2 : ub2 = addc .q ua2.val (0#64) tb2.cf)
    (hl3 : l3 = mulLo u p3) (hh3 : h3 = mulHi u p3) (hta3 : ta3 = addc .q l3 ub2.val false)
    (hua3 : ua3 = addc .q h3 (0#64) ta3.cf) (htb3 : tb3 = addc .q w3 ta3.val false) (hub3 : ub3 = addc .q ua3.val (0#64) tb3.cf)
    (hl4 : l4 = mulLo u p4) (hh4 : h4 = mulHi u p4) (hta4 : ta4 = addc .q l4 ub3.val false)
    (hua4 : ua4 = addc .q h4 (0#64) ta4.cf) (htb4 : tb4 = addc .q w4 ta4.val false) (hub4 : ub4 = addc .q ua4.val (0#64) tb4.cf)
    (hl5 : l5 = mulLo u p5) (hh5 : h5 = mulHi u p5) (hta5 : ta5 = addc .q l5 ub4.val false)
    (hua5 : ua5 = addc .q h5 (0#64) ta5.cf) (htb5 : tb5 = addc .q w5 ta5.val false) (hub5 : ub5 = addc .q ua5.val (0#64) tb5.cf) :
    2 ^ 64 * val (2 ^ 64) [tb1.val.toNat, tb2.val.toNat, tb3.val.toNat, tb4.val.toNat, tb5.val.toNat, ub5.val.toNat]
      = val (2 ^ 64) [w0.toNat, w1.toNat, w2.toNat, w3.toNat, w4.toNat, w5.toNat]
        + u.toNat * val (2 ^ 64) [p0.toNat, p1.toNat, p2.toNat, p3.toNat, p4.toNat, p5.toNat] := by
  have z : t0.val.toNat = 0 := by
    simp only [val_cons] at hinv
    exact mont_low hinv hu hl0 ht0
  have e0 := muladd64_spec hl0 hh0 ht0 hc0
  have e1 := muladdcarry64_spec hl1 hh1 hta1 hua1 htb1 hub1
  have e2 := muladdcarry64_spec hl2 hh2 hta2 hua2 htb2 hub2
  have e3 := muladdcarry64_spec hl3 hh3 hta3 hua3 htb3 hub3
  have e4 := muladdcarry64_spec hl4 hh4 hta4 hua4 htb4 hub4
  have e5 := muladdcarry64_spec hl5 hh5 hta5 hua5 htb5 hub5
  rw [z] at e0
  simp only [val_cons, val_nil]
  linear_combination e0 + 2 ^ 64 * e1 + 2 ^ 128 * e2 + 2 ^ 192 * e3 + 2 ^ 256 * e4 + 2 ^ 320 * e5

end round

/-- first round: the word entering the window and the meta-carry -/
theorem mont_top_first {x c : Word} {t m : ArithRes} (ht : t = addc .q x c false) (hm : m = addc .q (0#64) (0#64) t.cf) :
    t.val.toNat + 2 ^ 64 * m.val.toNat = x.toNat + c.toNat := by
  have e1 := addc_spec x c false; rw [← ht] at e1
  have e2 := addc_spec (0#64) (0#64) t.cf; rw [← hm] at e2
  have := Bool.toNat_le t.cf; have := Bool.toNat_le m.cf
  simp only [Bool.toNat_false, BitVec.toNat_ofNat, Nat.zero_mod] at e1 e2
  omega

/-- middle rounds: `add %rbx, %rdx; mov $0, %rbx; adc %rbx, %rbx; add %rdx, dst; adc $0, %rbx` -/
theorem mont_top_mid {x c mc : Word} {t1 m1 t2 m2 : ArithRes} (ht1 : t1 = addc .q c mc false)
    (hm1 : m1 = addc .q (0#64) (0#64) t1.cf) (ht2 : t2 = addc .q x t1.val false) (hm2 : m2 = addc .q m1.val (0#64) t2.cf) :
    t2.val.toNat + 2 ^ 64 * m2.val.toNat = x.toNat + c.toNat + mc.toNat := by
  have e1 := addc_spec c mc false; rw [← ht1] at e1
  have e2 := addc_spec (0#64) (0#64) t1.cf; rw [← hm1] at e2
  have e3 := addc_spec x t1.val false; rw [← ht2] at e3
  have e4 := addc_spec m1.val (0#64) t2.cf; rw [← hm2] at e4
  have := Bool.toNat_le t1.cf; have := Bool.toNat_le m1.cf; have := Bool.toNat_le t2.cf; have := Bool.toNat_le m2.cf
  simp only [Bool.toNat_false, BitVec.toNat_ofNat, Nat.zero_mod] at e1 e2 e3 e4
  omega

/-- last round: `add %rbx, %rdx; add 88(%rsi), %rdx` (the two carries are dropped by the code) -/
theorem mont_top_last {x c mc : Word} {t1 t2 : ArithRes} (ht1 : t1 = addc .q c mc false) (ht2 : t2 = addc .q t1.val x false) :
    t2.val.toNat + 2 ^ 64 * (t1.cf.toNat + t2.cf.toNat) = x.toNat + c.toNat + mc.toNat := by
  have e1 := addc_spec c mc false; rw [← ht1] at e1
  have e2 := addc_spec t1.val x false; rw [← ht2] at e2
  simp only [Bool.toNat_false] at e1 e2
  omega

/-- after six rounds: the window is below `2P`, hence no carry was dropped, and it represents `T·2^{-384}` -/
theorem mont_finish {R T U P k : Nat} (h : 2 ^ 384 * (R + 2 ^ 384 * k) = T + U * P) (hU : U < 2 ^ 384)
    (hT : T < P * 2 ^ 384) (h2P : 2 * P ≤ 2 ^ 384) :
    k = 0 ∧ R < 2 * P ∧ 2 ^ 384 * R = T + U * P := by
  have h1 : U * P ≤ (2 ^ 384 - 1) * P := Nat.mul_le_mul_right P (by omega)
  have h3 : R + 2 ^ 384 * k < 2 * P := by
    have : 2 ^ 384 * (R + 2 ^ 384 * k) < 2 ^ 384 * (2 * P) := by
      rw [h]
      have e : (2 ^ 384 - 1) * P + P = 2 ^ 384 * P := by
        rw [Nat.sub_mul, Nat.one_mul]; exact Nat.sub_add_cancel (Nat.le_mul_of_pos_left P (by positivity))
      have : 2 ^ 384 * (2 * P) = 2 * (2 ^ 384 * P) := by ring
      rw [Nat.mul_comm P (2 ^ 384)] at hT
      omega
    exact Nat.lt_of_mul_lt_mul_left this
  have hk : k = 0 := by
    rcases Nat.eq_zero_or_pos k with h0 | h0
    · exact h0
    · have : 2 ^ 384 * 1 ≤ 2 ^ 384 * k := Nat.mul_le_mul_left _ h0
      omega
  subst hk
  simp only [Nat.mul_zero, Nat.add_zero] at h h3
  exact ⟨rfl, h3, h⟩

/-- the conditional subtraction of `P` gives the canonical residue -/
theorem mont_result {R T U P res : Nat} (hR : R < 2 * P) (h : 2 ^ 384 * R = T + U * P)
    (hres : (res = R ∧ R < P) ∨ (res + P = R)) :
    res < P ∧ (res * 2 ^ 384) % P = T % P := by
  rcases hres with ⟨rfl, hlt⟩ | hsub
  · refine ⟨hlt, ?_⟩
    rw [Nat.mul_comm, h, Nat.add_mul_mod_self_right]
  · refine ⟨by omega, ?_⟩
    have : res * 2 ^ 384 + 2 ^ 384 * P = T + U * P := by rw [← h, ← hsub]; ring
    have h2 : (res * 2 ^ 384 + 2 ^ 384 * P) % P = (T + U * P) % P := by rw [this]
    rw [Nat.add_mul_mod_self_right, Nat.add_mul_mod_self_right] at h2
    exact h2

open Jedi.Gen.AsmX86

/-! ## symbolic execution, cut into pieces -/

set_option maxHeartbeats 1600000 in
theorem mont_part0 (s : State) (pr pt pp inv : Word)
    (hr : Buf s pr 6 true) (ht : Buf s pt 12 false) (hp : Buf s pp 6 false)
    (hrp : X86.Disjoint pr 6 pp 6) (hstk : Stack s 6)
    (hrs : OffStack s 6 pr 6) (hts : OffStack s 6 pt 12) (hps : OffStack s 6 pp 6) {p0 p1 p2 p3 p4 p5 x0 x1 x2 x3 x4 x5 x6 u15 m17h m17l m22h m22l m29h m29l m36h m36l m43h m43l m50h m50l : Word} {t18 t19 t23 t24 t25 t26 t30 t31 t32 t33 t37 t38 t39 t40 t44 t45 t46 t47 t51 t52 t53 t54 t56 t57 : ArithRes}
    (hst : s.status = .running) (hpc : s.pc = 0) (hdi : s.rdi = pr) (hsi : s.rsi = pt) (hdx : s.rdx = pp) (hcx : s.rcx = inv) (hp0 : p0 = s.mem (pp.toNat + 0)) (hp1 : p1 = s.mem (pp.toNat + 8)) (hp2 : p2 = s.mem (pp.toNat + 16))
    (hp3 : p3 = s.mem (pp.toNat + 24)) (hp4 : p4 = s.mem (pp.toNat + 32)) (hp5 : p5 = s.mem (pp.toNat + 40))
    (hx0 : x0 = s.mem (pt.toNat + 0)) (hx1 : x1 = s.mem (pt.toNat + 8)) (hx2 : x2 = s.mem (pt.toNat + 16))
    (hx3 : x3 = s.mem (pt.toNat + 24)) (hx4 : x4 = s.mem (pt.toNat + 32)) (hx5 : x5 = s.mem (pt.toNat + 40))
    (hx6 : x6 = s.mem (pt.toNat + 48)) (hu15 : u15 = inv * x0) (hm17l : m17l = mulLo u15 p0) (hm17h : m17h = mulHi u15 p0)
    (ht18 : t18 = addc .q x0 m17l false) (ht19 : t19 = addc .q m17h (0#64) t18.cf) (hm22l : m22l = mulLo u15 p1)
    (hm22h : m22h = mulHi u15 p1) (ht23 : t23 = addc .q m22l t19.val false) (ht24 : t24 = addc .q m22h (0#64) t23.cf)
    (ht25 : t25 = addc .q x1 t23.val false) (ht26 : t26 = addc .q t24.val (0#64) t25.cf) (hm29l : m29l = mulLo u15 p2)
    (hm29h : m29h = mulHi u15 p2) (ht30 : t30 = addc .q m29l t26.val false) (ht31 : t31 = addc .q m29h (0#64) t30.cf)
    (ht32 : t32 = addc .q x2 t30.val false) (ht33 : t33 = addc .q t31.val (0#64) t32.cf) (hm36l : m36l = mulLo u15 p3)
    (hm36h : m36h = mulHi u15 p3) (ht37 : t37 = addc .q m36l t33.val false) (ht38 : t38 = addc .q m36h (0#64) t37.cf)
    (ht39 : t39 = addc .q x3 t37.val false) (ht40 : t40 = addc .q t38.val (0#64) t39.cf) (hm43l : m43l = mulLo u15 p4)
    (hm43h : m43h = mulHi u15 p4) (ht44 : t44 = addc .q m43l t40.val false) (ht45 : t45 = addc .q m43h (0#64) t44.cf)
    (ht46 : t46 = addc .q x4 t44.val false) (ht47 : t47 = addc .q t45.val (0#64) t46.cf) (hm50l : m50l = mulLo u15 p5)
    (hm50h : m50h = mulHi u15 p5) (ht51 : t51 = addc .q m50l t47.val false) (ht52 : t52 = addc .q m50h (0#64) t51.cf)
    (ht53 : t53 = addc .q x5 t51.val false) (ht54 : t54 = addc .q t52.val (0#64) t53.cf)
    (ht56 : t56 = addc .q x6 t54.val false) (ht57 : t57 = addc .q (0#64) (0#64) t56.cf) :
    run embedded_pairing_core_arch_x86_64_fpbase_384_montgomery_reduce s 58
      = ({ rax := t51.val, rcx := inv, rdx := t54.val, rbx := t57.val, rsp := s.rsp - 8 - 8 - 8 - 8 - 8 - 8, rbp := s.rbp, rsi := pt, rdi := pr, r8 := pp, r9 := u15, r10 := t56.val, r11 := t25.val, r12 := t32.val, r13 := t39.val, r14 := t46.val, r15 := t53.val, cf := some t57.cf, zf := some t57.zf, sf := some t57.sf, of := some t57.of, mem := setMem (setMem (setMem (setMem (setMem (setMem (s.mem) (s.rsp.toNat - 8) s.rbp) (s.rsp.toNat - 8 - 8) s.rbx) (s.rsp.toNat - 8 - 8 - 8) s.r12) (s.rsp.toNat - 8 - 8 - 8 - 8) s.r13) (s.rsp.toNat - 8 - 8 - 8 - 8 - 8) s.r14) (s.rsp.toNat - 8 - 8 - 8 - 8 - 8 - 8) s.r15, readable := s.readable, writable := s.writable, cpuidFn := s.cpuidFn, pc := 58, status := .running } : State) := by
  obtain ⟨rt0, rt1, rt2, rt3, rt4, rt5, rt6, rt7, rt8, rt9, rt10, rt11⟩ := ht.r12
  obtain ⟨⟨alrt0, alrt1, alrt2, alrt3, alrt4, alrt5, alrt6, alrt7, alrt8, alrt9, alrt10, alrt11⟩, frt0, frt1, frt2, frt3, frt4, frt5, frt6, frt7, frt8, frt9, frt10, frt11⟩ := ht.addr12
  obtain ⟨rp0, rp1, rp2, rp3, rp4, rp5⟩ := hp.r6
  obtain ⟨⟨alrp0, alrp1, alrp2, alrp3, alrp4, alrp5⟩, frp0, frp1, frp2, frp3, frp4, frp5⟩ := hp.addr6
  obtain ⟨rr0, rr1, rr2, rr3, rr4, rr5⟩ := hr.r6
  obtain ⟨wr0, wr1, wr2, wr3, wr4, wr5⟩ := hr.w6
  obtain ⟨⟨alrr0, alrr1, alrr2, alrr3, alrr4, alrr5⟩, frr0, frr1, frr2, frr3, frr4, frr5⟩ := hr.addr6
  obtain ⟨als0, rs0⟩ := hstk.f0
  obtain ⟨room1, als1, sr1, sw1⟩ := hstk.f1 (by omega)
  obtain ⟨room2, als2, sr2, sw2⟩ := hstk.f2 (by omega)
  obtain ⟨room3, als3, sr3, sw3⟩ := hstk.f3 (by omega)
  obtain ⟨room4, als4, sr4, sw4⟩ := hstk.f4 (by omega)
  obtain ⟨room5, als5, sr5, sw5⟩ := hstk.f5 (by omega)
  obtain ⟨room6, als6, sr6, sw6⟩ := hstk.f6 (by omega)
  replace hrp := Hide.mk hrp; replace hrs := Hide.mk hrs; replace hts := Hide.mk hts; replace hps := Hide.mk hps
  simp only [X86.Disjoint, OffStack] at hrp hrs hts hps
  clear ht hp hr hstk
  rw [State.eta s]
  x86_sym [hst, hpc, hdi, hsi, hdx, hcx, sub8x3_toNat, sub8x4_toNat, sub8x5_toNat, sub8x6_toNat, mulLo_fold, mulHi_fold, imul_fold, logic, BitVec.xor_self, ← hp0, ← hp1, ← hp2, ← hp3, ← hp4, ← hp5, ← hx0, ← hx1, ← hx2, ← hx3, ← hx4, ← hx5, ← hx6, ← hu15, ← hm17l, ← hm17h, ← ht18, ← ht19, ← hm22l, ← hm22h, ← ht23, ← ht24, ← ht25, ← ht26, ← hm29l, ← hm29h, ← ht30, ← ht31, ← ht32, ← ht33, ← hm36l, ← hm36h, ← ht37, ← ht38, ← ht39, ← ht40, ← hm43l, ← hm43h, ← ht44, ← ht45, ← ht46, ← ht47, ← hm50l, ← hm50h, ← ht51, ← ht52, ← ht53, ← ht54, ← ht56, ← ht57]

set_option maxHeartbeats 1600000 in
theorem mont_part1 (s : State) (pr pt pp inv : Word)
    (hr : Buf s pr 6 true) (ht : Buf s pt 12 false) (hp : Buf s pp 6 false)
    (hrp : X86.Disjoint pr 6 pp 6) (hstk : Stack s 6)
    (hrs : OffStack s 6 pr 6) (hts : OffStack s 6 pt 12) (hps : OffStack s 6 pp 6) {p0 p1 p2 p3 p4 p5 x7 u15 u59 m61h m61l m66h m66l m73h m73l m80h m80l m87h m87l m94h m94l : Word} {t25 t32 t39 t46 t51 t53 t54 t56 t57 t62 t63 t67 t68 t69 t70 t74 t75 t76 t77 t81 t82 t83 t84 t88 t89 t90 t91 t95 t96 t97 t98 t99 t101 t103 t104 : ArithRes}
    (hp0 : p0 = s.mem (pp.toNat + 0)) (hp1 : p1 = s.mem (pp.toNat + 8)) (hp2 : p2 = s.mem (pp.toNat + 16))
    (hp3 : p3 = s.mem (pp.toNat + 24)) (hp4 : p4 = s.mem (pp.toNat + 32)) (hp5 : p5 = s.mem (pp.toNat + 40))
    (hx7 : x7 = s.mem (pt.toNat + 56)) (hu59 : u59 = inv * t25.val) (hm61l : m61l = mulLo u59 p0)
    (hm61h : m61h = mulHi u59 p0) (ht62 : t62 = addc .q t25.val m61l false) (ht63 : t63 = addc .q m61h (0#64) t62.cf)
    (hm66l : m66l = mulLo u59 p1) (hm66h : m66h = mulHi u59 p1) (ht67 : t67 = addc .q m66l t63.val false)
    (ht68 : t68 = addc .q m66h (0#64) t67.cf) (ht69 : t69 = addc .q t32.val t67.val false)
    (ht70 : t70 = addc .q t68.val (0#64) t69.cf) (hm73l : m73l = mulLo u59 p2) (hm73h : m73h = mulHi u59 p2)
    (ht74 : t74 = addc .q m73l t70.val false) (ht75 : t75 = addc .q m73h (0#64) t74.cf)
    (ht76 : t76 = addc .q t39.val t74.val false) (ht77 : t77 = addc .q t75.val (0#64) t76.cf)
    (hm80l : m80l = mulLo u59 p3) (hm80h : m80h = mulHi u59 p3) (ht81 : t81 = addc .q m80l t77.val false)
    (ht82 : t82 = addc .q m80h (0#64) t81.cf) (ht83 : t83 = addc .q t46.val t81.val false)
    (ht84 : t84 = addc .q t82.val (0#64) t83.cf) (hm87l : m87l = mulLo u59 p4) (hm87h : m87h = mulHi u59 p4)
    (ht88 : t88 = addc .q m87l t84.val false) (ht89 : t89 = addc .q m87h (0#64) t88.cf)
    (ht90 : t90 = addc .q t53.val t88.val false) (ht91 : t91 = addc .q t89.val (0#64) t90.cf)
    (hm94l : m94l = mulLo u59 p5) (hm94h : m94h = mulHi u59 p5) (ht95 : t95 = addc .q m94l t91.val false)
    (ht96 : t96 = addc .q m94h (0#64) t95.cf) (ht97 : t97 = addc .q t56.val t95.val false)
    (ht98 : t98 = addc .q t96.val (0#64) t97.cf) (ht99 : t99 = addc .q t98.val t57.val false)
    (ht101 : t101 = addc .q (0#64) (0#64) t99.cf) (ht103 : t103 = addc .q x7 t99.val false)
    (ht104 : t104 = addc .q t101.val (0#64) t103.cf) :
    run embedded_pairing_core_arch_x86_64_fpbase_384_montgomery_reduce ({ rax := t51.val, rcx := inv, rdx := t54.val, rbx := t57.val, rsp := s.rsp - 8 - 8 - 8 - 8 - 8 - 8, rbp := s.rbp, rsi := pt, rdi := pr, r8 := pp, r9 := u15, r10 := t56.val, r11 := t25.val, r12 := t32.val, r13 := t39.val, r14 := t46.val, r15 := t53.val, cf := some t57.cf, zf := some t57.zf, sf := some t57.sf, of := some t57.of, mem := setMem (setMem (setMem (setMem (setMem (setMem (s.mem) (s.rsp.toNat - 8) s.rbp) (s.rsp.toNat - 8 - 8) s.rbx) (s.rsp.toNat - 8 - 8 - 8) s.r12) (s.rsp.toNat - 8 - 8 - 8 - 8) s.r13) (s.rsp.toNat - 8 - 8 - 8 - 8 - 8) s.r14) (s.rsp.toNat - 8 - 8 - 8 - 8 - 8 - 8) s.r15, readable := s.readable, writable := s.writable, cpuidFn := s.cpuidFn, pc := 58, status := .running } : State) 47
      = ({ rax := t95.val, rcx := inv, rdx := t99.val, rbx := t104.val, rsp := s.rsp - 8 - 8 - 8 - 8 - 8 - 8, rbp := s.rbp, rsi := pt, rdi := pr, r8 := pp, r9 := u59, r10 := t97.val, r11 := t103.val, r12 := t69.val, r13 := t76.val, r14 := t83.val, r15 := t90.val, cf := some t104.cf, zf := some t104.zf, sf := some t104.sf, of := some t104.of, mem := setMem (setMem (setMem (setMem (setMem (setMem (s.mem) (s.rsp.toNat - 8) s.rbp) (s.rsp.toNat - 8 - 8) s.rbx) (s.rsp.toNat - 8 - 8 - 8) s.r12) (s.rsp.toNat - 8 - 8 - 8 - 8) s.r13) (s.rsp.toNat - 8 - 8 - 8 - 8 - 8) s.r14) (s.rsp.toNat - 8 - 8 - 8 - 8 - 8 - 8) s.r15, readable := s.readable, writable := s.writable, cpuidFn := s.cpuidFn, pc := 105, status := .running } : State) := by
  obtain ⟨rt0, rt1, rt2, rt3, rt4, rt5, rt6, rt7, rt8, rt9, rt10, rt11⟩ := ht.r12
  obtain ⟨⟨alrt0, alrt1, alrt2, alrt3, alrt4, alrt5, alrt6, alrt7, alrt8, alrt9, alrt10, alrt11⟩, frt0, frt1, frt2, frt3, frt4, frt5, frt6, frt7, frt8, frt9, frt10, frt11⟩ := ht.addr12
  obtain ⟨rp0, rp1, rp2, rp3, rp4, rp5⟩ := hp.r6
  obtain ⟨⟨alrp0, alrp1, alrp2, alrp3, alrp4, alrp5⟩, frp0, frp1, frp2, frp3, frp4, frp5⟩ := hp.addr6
  obtain ⟨rr0, rr1, rr2, rr3, rr4, rr5⟩ := hr.r6
  obtain ⟨wr0, wr1, wr2, wr3, wr4, wr5⟩ := hr.w6
  obtain ⟨⟨alrr0, alrr1, alrr2, alrr3, alrr4, alrr5⟩, frr0, frr1, frr2, frr3, frr4, frr5⟩ := hr.addr6
  obtain ⟨als0, rs0⟩ := hstk.f0
  obtain ⟨room1, als1, sr1, sw1⟩ := hstk.f1 (by omega)
  obtain ⟨room2, als2, sr2, sw2⟩ := hstk.f2 (by omega)
  obtain ⟨room3, als3, sr3, sw3⟩ := hstk.f3 (by omega)
  obtain ⟨room4, als4, sr4, sw4⟩ := hstk.f4 (by omega)
  obtain ⟨room5, als5, sr5, sw5⟩ := hstk.f5 (by omega)
  obtain ⟨room6, als6, sr6, sw6⟩ := hstk.f6 (by omega)
  replace hrp := Hide.mk hrp; replace hrs := Hide.mk hrs; replace hts := Hide.mk hts; replace hps := Hide.mk hps
  simp only [X86.Disjoint, OffStack] at hrp hrs hts hps
  clear ht hp hr hstk
  x86_sym [sub8x3_toNat, sub8x4_toNat, sub8x5_toNat, sub8x6_toNat, mulLo_fold, mulHi_fold, imul_fold, logic, BitVec.xor_self, ← hp0, ← hp1, ← hp2, ← hp3, ← hp4, ← hp5, ← hx7, ← hu59, ← hm61l, ← hm61h, ← ht62, ← ht63, ← hm66l, ← hm66h, ← ht67, ← ht68, ← ht69, ← ht70, ← hm73l, ← hm73h, ← ht74, ← ht75, ← ht76, ← ht77, ← hm80l, ← hm80h, ← ht81, ← ht82, ← ht83, ← ht84, ← hm87l, ← hm87h, ← ht88, ← ht89, ← ht90, ← ht91, ← hm94l, ← hm94h, ← ht95, ← ht96, ← ht97, ← ht98, ← ht99, ← ht101, ← ht103, ← ht104]

set_option maxHeartbeats 1600000 in
theorem mont_part2 (s : State) (pr pt pp inv : Word)
    (hr : Buf s pr 6 true) (ht : Buf s pt 12 false) (hp : Buf s pp 6 false)
    (hrp : X86.Disjoint pr 6 pp 6) (hstk : Stack s 6)
    (hrs : OffStack s 6 pr 6) (hts : OffStack s 6 pt 12) (hps : OffStack s 6 pp 6) {p0 p1 p2 p3 p4 p5 x8 u59 u106 m108h m108l m113h m113l m120h m120l m127h m127l m134h m134l m141h m141l : Word} {t69 t76 t83 t90 t95 t97 t99 t103 t104 t109 t110 t114 t115 t116 t117 t121 t122 t123 t124 t128 t129 t130 t131 t135 t136 t137 t138 t142 t143 t144 t145 t146 t148 t150 t151 : ArithRes}
    (hp0 : p0 = s.mem (pp.toNat + 0)) (hp1 : p1 = s.mem (pp.toNat + 8)) (hp2 : p2 = s.mem (pp.toNat + 16))
    (hp3 : p3 = s.mem (pp.toNat + 24)) (hp4 : p4 = s.mem (pp.toNat + 32)) (hp5 : p5 = s.mem (pp.toNat + 40))
    (hx8 : x8 = s.mem (pt.toNat + 64)) (hu106 : u106 = inv * t69.val) (hm108l : m108l = mulLo u106 p0)
    (hm108h : m108h = mulHi u106 p0) (ht109 : t109 = addc .q t69.val m108l false)
    (ht110 : t110 = addc .q m108h (0#64) t109.cf) (hm113l : m113l = mulLo u106 p1) (hm113h : m113h = mulHi u106 p1)
    (ht114 : t114 = addc .q m113l t110.val false) (ht115 : t115 = addc .q m113h (0#64) t114.cf)
    (ht116 : t116 = addc .q t76.val t114.val false) (ht117 : t117 = addc .q t115.val (0#64) t116.cf)
    (hm120l : m120l = mulLo u106 p2) (hm120h : m120h = mulHi u106 p2) (ht121 : t121 = addc .q m120l t117.val false)
    (ht122 : t122 = addc .q m120h (0#64) t121.cf) (ht123 : t123 = addc .q t83.val t121.val false)
    (ht124 : t124 = addc .q t122.val (0#64) t123.cf) (hm127l : m127l = mulLo u106 p3) (hm127h : m127h = mulHi u106 p3)
    (ht128 : t128 = addc .q m127l t124.val false) (ht129 : t129 = addc .q m127h (0#64) t128.cf)
    (ht130 : t130 = addc .q t90.val t128.val false) (ht131 : t131 = addc .q t129.val (0#64) t130.cf)
    (hm134l : m134l = mulLo u106 p4) (hm134h : m134h = mulHi u106 p4) (ht135 : t135 = addc .q m134l t131.val false)
    (ht136 : t136 = addc .q m134h (0#64) t135.cf) (ht137 : t137 = addc .q t97.val t135.val false)
    (ht138 : t138 = addc .q t136.val (0#64) t137.cf) (hm141l : m141l = mulLo u106 p5) (hm141h : m141h = mulHi u106 p5)
    (ht142 : t142 = addc .q m141l t138.val false) (ht143 : t143 = addc .q m141h (0#64) t142.cf)
    (ht144 : t144 = addc .q t103.val t142.val false) (ht145 : t145 = addc .q t143.val (0#64) t144.cf)
    (ht146 : t146 = addc .q t145.val t104.val false) (ht148 : t148 = addc .q (0#64) (0#64) t146.cf)
    (ht150 : t150 = addc .q x8 t146.val false) (ht151 : t151 = addc .q t148.val (0#64) t150.cf) :
    run embedded_pairing_core_arch_x86_64_fpbase_384_montgomery_reduce ({ rax := t95.val, rcx := inv, rdx := t99.val, rbx := t104.val, rsp := s.rsp - 8 - 8 - 8 - 8 - 8 - 8, rbp := s.rbp, rsi := pt, rdi := pr, r8 := pp, r9 := u59, r10 := t97.val, r11 := t103.val, r12 := t69.val, r13 := t76.val, r14 := t83.val, r15 := t90.val, cf := some t104.cf, zf := some t104.zf, sf := some t104.sf, of := some t104.of, mem := setMem (setMem (setMem (setMem (setMem (setMem (s.mem) (s.rsp.toNat - 8) s.rbp) (s.rsp.toNat - 8 - 8) s.rbx) (s.rsp.toNat - 8 - 8 - 8) s.r12) (s.rsp.toNat - 8 - 8 - 8 - 8) s.r13) (s.rsp.toNat - 8 - 8 - 8 - 8 - 8) s.r14) (s.rsp.toNat - 8 - 8 - 8 - 8 - 8 - 8) s.r15, readable := s.readable, writable := s.writable, cpuidFn := s.cpuidFn, pc := 105, status := .running } : State) 47
      = ({ rax := t142.val, rcx := inv, rdx := t146.val, rbx := t151.val, rsp := s.rsp - 8 - 8 - 8 - 8 - 8 - 8, rbp := s.rbp, rsi := pt, rdi := pr, r8 := pp, r9 := u106, r10 := t137.val, r11 := t144.val, r12 := t150.val, r13 := t116.val, r14 := t123.val, r15 := t130.val, cf := some t151.cf, zf := some t151.zf, sf := some t151.sf, of := some t151.of, mem := setMem (setMem (setMem (setMem (setMem (setMem (s.mem) (s.rsp.toNat - 8) s.rbp) (s.rsp.toNat - 8 - 8) s.rbx) (s.rsp.toNat - 8 - 8 - 8) s.r12) (s.rsp.toNat - 8 - 8 - 8 - 8) s.r13) (s.rsp.toNat - 8 - 8 - 8 - 8 - 8) s.r14) (s.rsp.toNat - 8 - 8 - 8 - 8 - 8 - 8) s.r15, readable := s.readable, writable := s.writable, cpuidFn := s.cpuidFn, pc := 152, status := .running } : State) := by
  obtain ⟨rt0, rt1, rt2, rt3, rt4, rt5, rt6, rt7, rt8, rt9, rt10, rt11⟩ := ht.r12
  obtain ⟨⟨alrt0, alrt1, alrt2, alrt3, alrt4, alrt5, alrt6, alrt7, alrt8, alrt9, alrt10, alrt11⟩, frt0, frt1, frt2, frt3, frt4, frt5, frt6, frt7, frt8, frt9, frt10, frt11⟩ := ht.addr12
  obtain ⟨rp0, rp1, rp2, rp3, rp4, rp5⟩ := hp.r6
  obtain ⟨⟨alrp0, alrp1, alrp2, alrp3, alrp4, alrp5⟩, frp0, frp1, frp2, frp3, frp4, frp5⟩ := hp.addr6
  obtain ⟨rr0, rr1, rr2, rr3, rr4, rr5⟩ := hr.r6
  obtain ⟨wr0, wr1, wr2, wr3, wr4, wr5⟩ := hr.w6
  obtain ⟨⟨alrr0, alrr1, alrr2, alrr3, alrr4, alrr5⟩, frr0, frr1, frr2, frr3, frr4, frr5⟩ := hr.addr6
  obtain ⟨als0, rs0⟩ := hstk.f0
  obtain ⟨room1, als1, sr1, sw1⟩ := hstk.f1 (by omega)
  obtain ⟨room2, als2, sr2, sw2⟩ := hstk.f2 (by omega)
  obtain ⟨room3, als3, sr3, sw3⟩ := hstk.f3 (by omega)
  obtain ⟨room4, als4, sr4, sw4⟩ := hstk.f4 (by omega)
  obtain ⟨room5, als5, sr5, sw5⟩ := hstk.f5 (by omega)
  obtain ⟨room6, als6, sr6, sw6⟩ := hstk.f6 (by omega)
  replace hrp := Hide.mk hrp; replace hrs := Hide.mk hrs; replace hts := Hide.mk hts; replace hps := Hide.mk hps
  simp only [X86.Disjoint, OffStack] at hrp hrs hts hps
  clear ht hp hr hstk
  x86_sym [sub8x3_toNat, sub8x4_toNat, sub8x5_toNat, sub8x6_toNat, mulLo_fold, mulHi_fold, imul_fold, logic, BitVec.xor_self, ← hp0, ← hp1, ← hp2, ← hp3, ← hp4, ← hp5, ← hx8, ← hu106, ← hm108l, ← hm108h, ← ht109, ← ht110, ← hm113l, ← hm113h, ← ht114, ← ht115, ← ht116, ← ht117, ← hm120l, ← hm120h, ← ht121, ← ht122, ← ht123, ← ht124, ← hm127l, ← hm127h, ← ht128, ← ht129, ← ht130, ← ht131, ← hm134l, ← hm134h, ← ht135, ← ht136, ← ht137, ← ht138, ← hm141l, ← hm141h, ← ht142, ← ht143, ← ht144, ← ht145, ← ht146, ← ht148, ← ht150, ← ht151]

set_option maxHeartbeats 1600000 in
theorem mont_part3 (s : State) (pr pt pp inv : Word)
    (hr : Buf s pr 6 true) (ht : Buf s pt 12 false) (hp : Buf s pp 6 false)
    (hrp : X86.Disjoint pr 6 pp 6) (hstk : Stack s 6)
    (hrs : OffStack s 6 pr 6) (hts : OffStack s 6 pt 12) (hps : OffStack s 6 pp 6) {p0 p1 p2 p3 p4 p5 x9 u106 u153 m155h m155l m160h m160l m167h m167l m174h m174l m181h m181l m188h m188l : Word} {t116 t123 t130 t137 t142 t144 t146 t150 t151 t156 t157 t161 t162 t163 t164 t168 t169 t170 t171 t175 t176 t177 t178 t182 t183 t184 t185 t189 t190 t191 t192 t193 t195 t197 t198 : ArithRes}
    (hp0 : p0 = s.mem (pp.toNat + 0)) (hp1 : p1 = s.mem (pp.toNat + 8)) (hp2 : p2 = s.mem (pp.toNat + 16))
    (hp3 : p3 = s.mem (pp.toNat + 24)) (hp4 : p4 = s.mem (pp.toNat + 32)) (hp5 : p5 = s.mem (pp.toNat + 40))
    (hx9 : x9 = s.mem (pt.toNat + 72)) (hu153 : u153 = inv * t116.val) (hm155l : m155l = mulLo u153 p0)
    (hm155h : m155h = mulHi u153 p0) (ht156 : t156 = addc .q t116.val m155l false)
    (ht157 : t157 = addc .q m155h (0#64) t156.cf) (hm160l : m160l = mulLo u153 p1) (hm160h : m160h = mulHi u153 p1)
    (ht161 : t161 = addc .q m160l t157.val false) (ht162 : t162 = addc .q m160h (0#64) t161.cf)
    (ht163 : t163 = addc .q t123.val t161.val false) (ht164 : t164 = addc .q t162.val (0#64) t163.cf)
    (hm167l : m167l = mulLo u153 p2) (hm167h : m167h = mulHi u153 p2) (ht168 : t168 = addc .q m167l t164.val false)
    (ht169 : t169 = addc .q m167h (0#64) t168.cf) (ht170 : t170 = addc .q t130.val t168.val false)
    (ht171 : t171 = addc .q t169.val (0#64) t170.cf) (hm174l : m174l = mulLo u153 p3) (hm174h : m174h = mulHi u153 p3)
    (ht175 : t175 = addc .q m174l t171.val false) (ht176 : t176 = addc .q m174h (0#64) t175.cf)
    (ht177 : t177 = addc .q t137.val t175.val false) (ht178 : t178 = addc .q t176.val (0#64) t177.cf)
    (hm181l : m181l = mulLo u153 p4) (hm181h : m181h = mulHi u153 p4) (ht182 : t182 = addc .q m181l t178.val false)
    (ht183 : t183 = addc .q m181h (0#64) t182.cf) (ht184 : t184 = addc .q t144.val t182.val false)
    (ht185 : t185 = addc .q t183.val (0#64) t184.cf) (hm188l : m188l = mulLo u153 p5) (hm188h : m188h = mulHi u153 p5)
    (ht189 : t189 = addc .q m188l t185.val false) (ht190 : t190 = addc .q m188h (0#64) t189.cf)
    (ht191 : t191 = addc .q t150.val t189.val false) (ht192 : t192 = addc .q t190.val (0#64) t191.cf)
    (ht193 : t193 = addc .q t192.val t151.val false) (ht195 : t195 = addc .q (0#64) (0#64) t193.cf)
    (ht197 : t197 = addc .q x9 t193.val false) (ht198 : t198 = addc .q t195.val (0#64) t197.cf) :
    run embedded_pairing_core_arch_x86_64_fpbase_384_montgomery_reduce ({ rax := t142.val, rcx := inv, rdx := t146.val, rbx := t151.val, rsp := s.rsp - 8 - 8 - 8 - 8 - 8 - 8, rbp := s.rbp, rsi := pt, rdi := pr, r8 := pp, r9 := u106, r10 := t137.val, r11 := t144.val, r12 := t150.val, r13 := t116.val, r14 := t123.val, r15 := t130.val, cf := some t151.cf, zf := some t151.zf, sf := some t151.sf, of := some t151.of, mem := setMem (setMem (setMem (setMem (setMem (setMem (s.mem) (s.rsp.toNat - 8) s.rbp) (s.rsp.toNat - 8 - 8) s.rbx) (s.rsp.toNat - 8 - 8 - 8) s.r12) (s.rsp.toNat - 8 - 8 - 8 - 8) s.r13) (s.rsp.toNat - 8 - 8 - 8 - 8 - 8) s.r14) (s.rsp.toNat - 8 - 8 - 8 - 8 - 8 - 8) s.r15, readable := s.readable, writable := s.writable, cpuidFn := s.cpuidFn, pc := 152, status := .running } : State) 47
      = ({ rax := t189.val, rcx := inv, rdx := t193.val, rbx := t198.val, rsp := s.rsp - 8 - 8 - 8 - 8 - 8 - 8, rbp := s.rbp, rsi := pt, rdi := pr, r8 := pp, r9 := u153, r10 := t177.val, r11 := t184.val, r12 := t191.val, r13 := t197.val, r14 := t163.val, r15 := t170.val, cf := some t198.cf, zf := some t198.zf, sf := some t198.sf, of := some t198.of, mem := setMem (setMem (setMem (setMem (setMem (setMem (s.mem) (s.rsp.toNat - 8) s.rbp) (s.rsp.toNat - 8 - 8) s.rbx) (s.rsp.toNat - 8 - 8 - 8) s.r12) (s.rsp.toNat - 8 - 8 - 8 - 8) s.r13) (s.rsp.toNat - 8 - 8 - 8 - 8 - 8) s.r14) (s.rsp.toNat - 8 - 8 - 8 - 8 - 8 - 8) s.r15, readable := s.readable, writable := s.writable, cpuidFn := s.cpuidFn, pc := 199, status := .running } : State) := by
  obtain ⟨rt0, rt1, rt2, rt3, rt4, rt5, rt6, rt7, rt8, rt9, rt10, rt11⟩ := ht.r12
  obtain ⟨⟨alrt0, alrt1, alrt2, alrt3, alrt4, alrt5, alrt6, alrt7, alrt8, alrt9, alrt10, alrt11⟩, frt0, frt1, frt2, frt3, frt4, frt5, frt6, frt7, frt8, frt9, frt10, frt11⟩ := ht.addr12
  obtain ⟨rp0, rp1, rp2, rp3, rp4, rp5⟩ := hp.r6
  obtain ⟨⟨alrp0, alrp1, alrp2, alrp3, alrp4, alrp5⟩, frp0, frp1, frp2, frp3, frp4, frp5⟩ := hp.addr6
  obtain ⟨rr0, rr1, rr2, rr3, rr4, rr5⟩ := hr.r6
  obtain ⟨wr0, wr1, wr2, wr3, wr4, wr5⟩ := hr.w6
  obtain ⟨⟨alrr0, alrr1, alrr2, alrr3, alrr4, alrr5⟩, frr0, frr1, frr2, frr3, frr4, frr5⟩ := hr.addr6
  obtain ⟨als0, rs0⟩ := hstk.f0
  obtain ⟨room1, als1, sr1, sw1⟩ := hstk.f1 (by omega)
  obtain ⟨room2, als2, sr2, sw2⟩ := hstk.f2 (by omega)
  obtain ⟨room3, als3, sr3, sw3⟩ := hstk.f3 (by omega)
  obtain ⟨room4, als4, sr4, sw4⟩ := hstk.f4 (by omega)
  obtain ⟨room5, als5, sr5, sw5⟩ := hstk.f5 (by omega)
  obtain ⟨room6, als6, sr6, sw6⟩ := hstk.f6 (by omega)
  replace hrp := Hide.mk hrp; replace hrs := Hide.mk hrs; replace hts := Hide.mk hts; replace hps := Hide.mk hps
  simp only [X86.Disjoint, OffStack] at hrp hrs hts hps
  clear ht hp hr hstk
  x86_sym [sub8x3_toNat, sub8x4_toNat, sub8x5_toNat, sub8x6_toNat, mulLo_fold, mulHi_fold, imul_fold, logic, BitVec.xor_self, ← hp0, ← hp1, ← hp2, ← hp3, ← hp4, ← hp5, ← hx9, ← hu153, ← hm155l, ← hm155h, ← ht156, ← ht157, ← hm160l, ← hm160h, ← ht161, ← ht162, ← ht163, ← ht164, ← hm167l, ← hm167h, ← ht168, ← ht169, ← ht170, ← ht171, ← hm174l, ← hm174h, ← ht175, ← ht176, ← ht177, ← ht178, ← hm181l, ← hm181h, ← ht182, ← ht183, ← ht184, ← ht185, ← hm188l, ← hm188h, ← ht189, ← ht190, ← ht191, ← ht192, ← ht193, ← ht195, ← ht197, ← ht198]

set_option maxHeartbeats 1600000 in
theorem mont_part4 (s : State) (pr pt pp inv : Word)
    (hr : Buf s pr 6 true) (ht : Buf s pt 12 false) (hp : Buf s pp 6 false)
    (hrp : X86.Disjoint pr 6 pp 6) (hstk : Stack s 6)
    (hrs : OffStack s 6 pr 6) (hts : OffStack s 6 pt 12) (hps : OffStack s 6 pp 6) {p0 p1 p2 p3 p4 p5 x10 u153 u200 m202h m202l m207h m207l m214h m214l m221h m221l m228h m228l m235h m235l : Word} {t163 t170 t177 t184 t189 t191 t193 t197 t198 t203 t204 t208 t209 t210 t211 t215 t216 t217 t218 t222 t223 t224 t225 t229 t230 t231 t232 t236 t237 t238 t239 t240 t242 t244 t245 : ArithRes}
    (hp0 : p0 = s.mem (pp.toNat + 0)) (hp1 : p1 = s.mem (pp.toNat + 8)) (hp2 : p2 = s.mem (pp.toNat + 16))
    (hp3 : p3 = s.mem (pp.toNat + 24)) (hp4 : p4 = s.mem (pp.toNat + 32)) (hp5 : p5 = s.mem (pp.toNat + 40))
    (hx10 : x10 = s.mem (pt.toNat + 80)) (hu200 : u200 = inv * t163.val) (hm202l : m202l = mulLo u200 p0)
    (hm202h : m202h = mulHi u200 p0) (ht203 : t203 = addc .q t163.val m202l false)
    (ht204 : t204 = addc .q m202h (0#64) t203.cf) (hm207l : m207l = mulLo u200 p1) (hm207h : m207h = mulHi u200 p1)
    (ht208 : t208 = addc .q m207l t204.val false) (ht209 : t209 = addc .q m207h (0#64) t208.cf)
    (ht210 : t210 = addc .q t170.val t208.val false) (ht211 : t211 = addc .q t209.val (0#64) t210.cf)
    (hm214l : m214l = mulLo u200 p2) (hm214h : m214h = mulHi u200 p2) (ht215 : t215 = addc .q m214l t211.val false)
    (ht216 : t216 = addc .q m214h (0#64) t215.cf) (ht217 : t217 = addc .q t177.val t215.val false)
    (ht218 : t218 = addc .q t216.val (0#64) t217.cf) (hm221l : m221l = mulLo u200 p3) (hm221h : m221h = mulHi u200 p3)
    (ht222 : t222 = addc .q m221l t218.val false) (ht223 : t223 = addc .q m221h (0#64) t222.cf)
    (ht224 : t224 = addc .q t184.val t222.val false) (ht225 : t225 = addc .q t223.val (0#64) t224.cf)
    (hm228l : m228l = mulLo u200 p4) (hm228h : m228h = mulHi u200 p4) (ht229 : t229 = addc .q m228l t225.val false)
    (ht230 : t230 = addc .q m228h (0#64) t229.cf) (ht231 : t231 = addc .q t191.val t229.val false)
    (ht232 : t232 = addc .q t230.val (0#64) t231.cf) (hm235l : m235l = mulLo u200 p5) (hm235h : m235h = mulHi u200 p5)
    (ht236 : t236 = addc .q m235l t232.val false) (ht237 : t237 = addc .q m235h (0#64) t236.cf)
    (ht238 : t238 = addc .q t197.val t236.val false) (ht239 : t239 = addc .q t237.val (0#64) t238.cf)
    (ht240 : t240 = addc .q t239.val t198.val false) (ht242 : t242 = addc .q (0#64) (0#64) t240.cf)
    (ht244 : t244 = addc .q x10 t240.val false) (ht245 : t245 = addc .q t242.val (0#64) t244.cf) :
    run embedded_pairing_core_arch_x86_64_fpbase_384_montgomery_reduce ({ rax := t189.val, rcx := inv, rdx := t193.val, rbx := t198.val, rsp := s.rsp - 8 - 8 - 8 - 8 - 8 - 8, rbp := s.rbp, rsi := pt, rdi := pr, r8 := pp, r9 := u153, r10 := t177.val, r11 := t184.val, r12 := t191.val, r13 := t197.val, r14 := t163.val, r15 := t170.val, cf := some t198.cf, zf := some t198.zf, sf := some t198.sf, of := some t198.of, mem := setMem (setMem (setMem (setMem (setMem (setMem (s.mem) (s.rsp.toNat - 8) s.rbp) (s.rsp.toNat - 8 - 8) s.rbx) (s.rsp.toNat - 8 - 8 - 8) s.r12) (s.rsp.toNat - 8 - 8 - 8 - 8) s.r13) (s.rsp.toNat - 8 - 8 - 8 - 8 - 8) s.r14) (s.rsp.toNat - 8 - 8 - 8 - 8 - 8 - 8) s.r15, readable := s.readable, writable := s.writable, cpuidFn := s.cpuidFn, pc := 199, status := .running } : State) 47
      = ({ rax := t236.val, rcx := inv, rdx := t240.val, rbx := t245.val, rsp := s.rsp - 8 - 8 - 8 - 8 - 8 - 8, rbp := s.rbp, rsi := pt, rdi := pr, r8 := pp, r9 := u200, r10 := t217.val, r11 := t224.val, r12 := t231.val, r13 := t238.val, r14 := t244.val, r15 := t210.val, cf := some t245.cf, zf := some t245.zf, sf := some t245.sf, of := some t245.of, mem := setMem (setMem (setMem (setMem (setMem (setMem (s.mem) (s.rsp.toNat - 8) s.rbp) (s.rsp.toNat - 8 - 8) s.rbx) (s.rsp.toNat - 8 - 8 - 8) s.r12) (s.rsp.toNat - 8 - 8 - 8 - 8) s.r13) (s.rsp.toNat - 8 - 8 - 8 - 8 - 8) s.r14) (s.rsp.toNat - 8 - 8 - 8 - 8 - 8 - 8) s.r15, readable := s.readable, writable := s.writable, cpuidFn := s.cpuidFn, pc := 246, status := .running } : State) := by
  obtain ⟨rt0, rt1, rt2, rt3, rt4, rt5, rt6, rt7, rt8, rt9, rt10, rt11⟩ := ht.r12
  obtain ⟨⟨alrt0, alrt1, alrt2, alrt3, alrt4, alrt5, alrt6, alrt7, alrt8, alrt9, alrt10, alrt11⟩, frt0, frt1, frt2, frt3, frt4, frt5, frt6, frt7, frt8, frt9, frt10, frt11⟩ := ht.addr12
  obtain ⟨rp0, rp1, rp2, rp3, rp4, rp5⟩ := hp.r6
  obtain ⟨⟨alrp0, alrp1, alrp2, alrp3, alrp4, alrp5⟩, frp0, frp1, frp2, frp3, frp4, frp5⟩ := hp.addr6
  obtain ⟨rr0, rr1, rr2, rr3, rr4, rr5⟩ := hr.r6
  obtain ⟨wr0, wr1, wr2, wr3, wr4, wr5⟩ := hr.w6
  obtain ⟨⟨alrr0, alrr1, alrr2, alrr3, alrr4, alrr5⟩, frr0, frr1, frr2, frr3, frr4, frr5⟩ := hr.addr6
  obtain ⟨als0, rs0⟩ := hstk.f0
  obtain ⟨room1, als1, sr1, sw1⟩ := hstk.f1 (by omega)
  obtain ⟨room2, als2, sr2, sw2⟩ := hstk.f2 (by omega)
  obtain ⟨room3, als3, sr3, sw3⟩ := hstk.f3 (by omega)
  obtain ⟨room4, als4, sr4, sw4⟩ := hstk.f4 (by omega)
  obtain ⟨room5, als5, sr5, sw5⟩ := hstk.f5 (by omega)
  obtain ⟨room6, als6, sr6, sw6⟩ := hstk.f6 (by omega)
  replace hrp := Hide.mk hrp; replace hrs := Hide.mk hrs; replace hts := Hide.mk hts; replace hps := Hide.mk hps
  simp only [X86.Disjoint, OffStack] at hrp hrs hts hps
  clear ht hp hr hstk
  x86_sym [sub8x3_toNat, sub8x4_toNat, sub8x5_toNat, sub8x6_toNat, mulLo_fold, mulHi_fold, imul_fold, logic, BitVec.xor_self, ← hp0, ← hp1, ← hp2, ← hp3, ← hp4, ← hp5, ← hx10, ← hu200, ← hm202l, ← hm202h, ← ht203, ← ht204, ← hm207l, ← hm207h, ← ht208, ← ht209, ← ht210, ← ht211, ← hm214l, ← hm214h, ← ht215, ← ht216, ← ht217, ← ht218, ← hm221l, ← hm221h, ← ht222, ← ht223, ← ht224, ← ht225, ← hm228l, ← hm228h, ← ht229, ← ht230, ← ht231, ← ht232, ← hm235l, ← hm235h, ← ht236, ← ht237, ← ht238, ← ht239, ← ht240, ← ht242, ← ht244, ← ht245]

set_option maxHeartbeats 1600000 in
theorem mont_part5 (s : State) (pr pt pp inv : Word)
    (hr : Buf s pr 6 true) (ht : Buf s pt 12 false) (hp : Buf s pp 6 false)
    (hrp : X86.Disjoint pr 6 pp 6) (hstk : Stack s 6)
    (hrs : OffStack s 6 pr 6) (hts : OffStack s 6 pt 12) (hps : OffStack s 6 pp 6) {p0 p1 p2 p3 p4 p5 x11 u200 u247 m249h m249l m254h m254l m261h m261l m268h m268l m275h m275l m282h m282l : Word} {t210 t217 t224 t231 t236 t238 t240 t244 t245 t250 t251 t255 t256 t257 t258 t262 t263 t264 t265 t269 t270 t271 t272 t276 t277 t278 t279 t283 t284 t285 t286 t287 t288 : ArithRes}
    (hp0 : p0 = s.mem (pp.toNat + 0)) (hp1 : p1 = s.mem (pp.toNat + 8)) (hp2 : p2 = s.mem (pp.toNat + 16))
    (hp3 : p3 = s.mem (pp.toNat + 24)) (hp4 : p4 = s.mem (pp.toNat + 32)) (hp5 : p5 = s.mem (pp.toNat + 40))
    (hx11 : x11 = s.mem (pt.toNat + 88)) (hu247 : u247 = inv * t210.val) (hm249l : m249l = mulLo u247 p0)
    (hm249h : m249h = mulHi u247 p0) (ht250 : t250 = addc .q t210.val m249l false)
    (ht251 : t251 = addc .q m249h (0#64) t250.cf) (hm254l : m254l = mulLo u247 p1) (hm254h : m254h = mulHi u247 p1)
    (ht255 : t255 = addc .q m254l t251.val false) (ht256 : t256 = addc .q m254h (0#64) t255.cf)
    (ht257 : t257 = addc .q t217.val t255.val false) (ht258 : t258 = addc .q t256.val (0#64) t257.cf)
    (hm261l : m261l = mulLo u247 p2) (hm261h : m261h = mulHi u247 p2) (ht262 : t262 = addc .q m261l t258.val false)
    (ht263 : t263 = addc .q m261h (0#64) t262.cf) (ht264 : t264 = addc .q t224.val t262.val false)
    (ht265 : t265 = addc .q t263.val (0#64) t264.cf) (hm268l : m268l = mulLo u247 p3) (hm268h : m268h = mulHi u247 p3)
    (ht269 : t269 = addc .q m268l t265.val false) (ht270 : t270 = addc .q m268h (0#64) t269.cf)
    (ht271 : t271 = addc .q t231.val t269.val false) (ht272 : t272 = addc .q t270.val (0#64) t271.cf)
    (hm275l : m275l = mulLo u247 p4) (hm275h : m275h = mulHi u247 p4) (ht276 : t276 = addc .q m275l t272.val false)
    (ht277 : t277 = addc .q m275h (0#64) t276.cf) (ht278 : t278 = addc .q t238.val t276.val false)
    (ht279 : t279 = addc .q t277.val (0#64) t278.cf) (hm282l : m282l = mulLo u247 p5) (hm282h : m282h = mulHi u247 p5)
    (ht283 : t283 = addc .q m282l t279.val false) (ht284 : t284 = addc .q m282h (0#64) t283.cf)
    (ht285 : t285 = addc .q t244.val t283.val false) (ht286 : t286 = addc .q t284.val (0#64) t285.cf)
    (ht287 : t287 = addc .q t286.val t245.val false) (ht288 : t288 = addc .q t287.val x11 false) :
    run embedded_pairing_core_arch_x86_64_fpbase_384_montgomery_reduce ({ rax := t236.val, rcx := inv, rdx := t240.val, rbx := t245.val, rsp := s.rsp - 8 - 8 - 8 - 8 - 8 - 8, rbp := s.rbp, rsi := pt, rdi := pr, r8 := pp, r9 := u200, r10 := t217.val, r11 := t224.val, r12 := t231.val, r13 := t238.val, r14 := t244.val, r15 := t210.val, cf := some t245.cf, zf := some t245.zf, sf := some t245.sf, of := some t245.of, mem := setMem (setMem (setMem (setMem (setMem (setMem (s.mem) (s.rsp.toNat - 8) s.rbp) (s.rsp.toNat - 8 - 8) s.rbx) (s.rsp.toNat - 8 - 8 - 8) s.r12) (s.rsp.toNat - 8 - 8 - 8 - 8) s.r13) (s.rsp.toNat - 8 - 8 - 8 - 8 - 8) s.r14) (s.rsp.toNat - 8 - 8 - 8 - 8 - 8 - 8) s.r15, readable := s.readable, writable := s.writable, cpuidFn := s.cpuidFn, pc := 246, status := .running } : State) 44
      = ({ rax := t283.val, rcx := inv, rdx := t288.val, rbx := t245.val, rsp := s.rsp - 8 - 8 - 8 - 8 - 8 - 8, rbp := s.rbp, rsi := pt, rdi := pr, r8 := pp, r9 := u247, r10 := t257.val, r11 := t264.val, r12 := t271.val, r13 := t278.val, r14 := t285.val, r15 := t288.val, cf := some t288.cf, zf := some t288.zf, sf := some t288.sf, of := some t288.of, mem := setMem (setMem (setMem (setMem (setMem (setMem (s.mem) (s.rsp.toNat - 8) s.rbp) (s.rsp.toNat - 8 - 8) s.rbx) (s.rsp.toNat - 8 - 8 - 8) s.r12) (s.rsp.toNat - 8 - 8 - 8 - 8) s.r13) (s.rsp.toNat - 8 - 8 - 8 - 8 - 8) s.r14) (s.rsp.toNat - 8 - 8 - 8 - 8 - 8 - 8) s.r15, readable := s.readable, writable := s.writable, cpuidFn := s.cpuidFn, pc := 290, status := .running } : State) := by
  obtain ⟨rt0, rt1, rt2, rt3, rt4, rt5, rt6, rt7, rt8, rt9, rt10, rt11⟩ := ht.r12
  obtain ⟨⟨alrt0, alrt1, alrt2, alrt3, alrt4, alrt5, alrt6, alrt7, alrt8, alrt9, alrt10, alrt11⟩, frt0, frt1, frt2, frt3, frt4, frt5, frt6, frt7, frt8, frt9, frt10, frt11⟩ := ht.addr12
  obtain ⟨rp0, rp1, rp2, rp3, rp4, rp5⟩ := hp.r6
  obtain ⟨⟨alrp0, alrp1, alrp2, alrp3, alrp4, alrp5⟩, frp0, frp1, frp2, frp3, frp4, frp5⟩ := hp.addr6
  obtain ⟨rr0, rr1, rr2, rr3, rr4, rr5⟩ := hr.r6
  obtain ⟨wr0, wr1, wr2, wr3, wr4, wr5⟩ := hr.w6
  obtain ⟨⟨alrr0, alrr1, alrr2, alrr3, alrr4, alrr5⟩, frr0, frr1, frr2, frr3, frr4, frr5⟩ := hr.addr6
  obtain ⟨als0, rs0⟩ := hstk.f0
  obtain ⟨room1, als1, sr1, sw1⟩ := hstk.f1 (by omega)
  obtain ⟨room2, als2, sr2, sw2⟩ := hstk.f2 (by omega)
  obtain ⟨room3, als3, sr3, sw3⟩ := hstk.f3 (by omega)
  obtain ⟨room4, als4, sr4, sw4⟩ := hstk.f4 (by omega)
  obtain ⟨room5, als5, sr5, sw5⟩ := hstk.f5 (by omega)
  obtain ⟨room6, als6, sr6, sw6⟩ := hstk.f6 (by omega)
  replace hrp := Hide.mk hrp; replace hrs := Hide.mk hrs; replace hts := Hide.mk hts; replace hps := Hide.mk hps
  simp only [X86.Disjoint, OffStack] at hrp hrs hts hps
  clear ht hp hr hstk
  x86_sym [sub8x3_toNat, sub8x4_toNat, sub8x5_toNat, sub8x6_toNat, mulLo_fold, mulHi_fold, imul_fold, logic, BitVec.xor_self, ← hp0, ← hp1, ← hp2, ← hp3, ← hp4, ← hp5, ← hx11, ← hu247, ← hm249l, ← hm249h, ← ht250, ← ht251, ← hm254l, ← hm254h, ← ht255, ← ht256, ← ht257, ← ht258, ← hm261l, ← hm261h, ← ht262, ← ht263, ← ht264, ← ht265, ← hm268l, ← hm268h, ← ht269, ← ht270, ← ht271, ← ht272, ← hm275l, ← hm275h, ← ht276, ← ht277, ← ht278, ← ht279, ← hm282l, ← hm282h, ← ht283, ← ht284, ← ht285, ← ht286, ← ht287, ← ht288]

set_option maxHeartbeats 1600000 in
theorem mont_tail_lt (s : State) (pr pt pp inv : Word)
    (hr : Buf s pr 6 true) (ht : Buf s pt 12 false) (hp : Buf s pp 6 false)
    (hrp : X86.Disjoint pr 6 pp 6) (hstk : Stack s 6)
    (hrs : OffStack s 6 pr 6) (hts : OffStack s 6 pt 12) (hps : OffStack s 6 pp 6) {p5 u247 : Word} {t245 t257 t264 t271 t278 t283 t285 t288 t290 : ArithRes}
    (hp5 : p5 = s.mem (pp.toNat + 40)) (ht290 : t290 = subb .q t288.val p5 false) (hlt : t290.cf = true) :
    run embedded_pairing_core_arch_x86_64_fpbase_384_montgomery_reduce ({ rax := t283.val, rcx := inv, rdx := t288.val, rbx := t245.val, rsp := s.rsp - 8 - 8 - 8 - 8 - 8 - 8, rbp := s.rbp, rsi := pt, rdi := pr, r8 := pp, r9 := u247, r10 := t257.val, r11 := t264.val, r12 := t271.val, r13 := t278.val, r14 := t285.val, r15 := t288.val, cf := some t288.cf, zf := some t288.zf, sf := some t288.sf, of := some t288.of, mem := setMem (setMem (setMem (setMem (setMem (setMem (s.mem) (s.rsp.toNat - 8) s.rbp) (s.rsp.toNat - 8 - 8) s.rbx) (s.rsp.toNat - 8 - 8 - 8) s.r12) (s.rsp.toNat - 8 - 8 - 8 - 8) s.r13) (s.rsp.toNat - 8 - 8 - 8 - 8 - 8) s.r14) (s.rsp.toNat - 8 - 8 - 8 - 8 - 8 - 8) s.r15, readable := s.readable, writable := s.writable, cpuidFn := s.cpuidFn, pc := 290, status := .running } : State) 15
      = ({ rax := t283.val, rcx := inv, rdx := t288.val, rbx := s.rbx, rsp := s.rsp + 8, rbp := s.rbp, rsi := pt, rdi := pr, r8 := pp, r9 := u247, r10 := t257.val, r11 := t264.val, r12 := s.r12, r13 := s.r13, r14 := s.r14, r15 := s.r15, cf := some t290.cf, zf := some t290.zf, sf := some t290.sf, of := some t290.of, mem := setMem (setMem (setMem (setMem (setMem (setMem (setMem (setMem (setMem (setMem (setMem (setMem (s.mem) (s.rsp.toNat - 8) s.rbp) (s.rsp.toNat - 8 - 8) s.rbx) (s.rsp.toNat - 8 - 8 - 8) s.r12) (s.rsp.toNat - 8 - 8 - 8 - 8) s.r13) (s.rsp.toNat - 8 - 8 - 8 - 8 - 8) s.r14) (s.rsp.toNat - 8 - 8 - 8 - 8 - 8 - 8) s.r15) (pr.toNat + 0) t257.val) (pr.toNat + 8) t264.val) (pr.toNat + 16) t271.val) (pr.toNat + 24) t278.val) (pr.toNat + 32) t285.val) (pr.toNat + 40) t288.val, readable := s.readable, writable := s.writable, cpuidFn := s.cpuidFn, pc := (s.mem s.rsp.toNat).toNat, status := .halted } : State) := by
  obtain ⟨rt0, rt1, rt2, rt3, rt4, rt5, rt6, rt7, rt8, rt9, rt10, rt11⟩ := ht.r12
  obtain ⟨⟨alrt0, alrt1, alrt2, alrt3, alrt4, alrt5, alrt6, alrt7, alrt8, alrt9, alrt10, alrt11⟩, frt0, frt1, frt2, frt3, frt4, frt5, frt6, frt7, frt8, frt9, frt10, frt11⟩ := ht.addr12
  obtain ⟨rp0, rp1, rp2, rp3, rp4, rp5⟩ := hp.r6
  obtain ⟨⟨alrp0, alrp1, alrp2, alrp3, alrp4, alrp5⟩, frp0, frp1, frp2, frp3, frp4, frp5⟩ := hp.addr6
  obtain ⟨rr0, rr1, rr2, rr3, rr4, rr5⟩ := hr.r6
  obtain ⟨wr0, wr1, wr2, wr3, wr4, wr5⟩ := hr.w6
  obtain ⟨⟨alrr0, alrr1, alrr2, alrr3, alrr4, alrr5⟩, frr0, frr1, frr2, frr3, frr4, frr5⟩ := hr.addr6
  obtain ⟨als0, rs0⟩ := hstk.f0
  obtain ⟨room1, als1, sr1, sw1⟩ := hstk.f1 (by omega)
  obtain ⟨room2, als2, sr2, sw2⟩ := hstk.f2 (by omega)
  obtain ⟨room3, als3, sr3, sw3⟩ := hstk.f3 (by omega)
  obtain ⟨room4, als4, sr4, sw4⟩ := hstk.f4 (by omega)
  obtain ⟨room5, als5, sr5, sw5⟩ := hstk.f5 (by omega)
  obtain ⟨room6, als6, sr6, sw6⟩ := hstk.f6 (by omega)
  replace hrp := Hide.mk hrp; replace hrs := Hide.mk hrs; replace hts := Hide.mk hts; replace hps := Hide.mk hps
  simp only [X86.Disjoint, OffStack] at hrp hrs hts hps
  clear ht hp hr hstk
  x86_sym [sub8x3_toNat, sub8x4_toNat, sub8x5_toNat, sub8x6_toNat, mulLo_fold, mulHi_fold, imul_fold, logic, BitVec.xor_self, ← hp5, ← ht290, hlt]

set_option maxHeartbeats 1600000 in
theorem mont_tail_gt (s : State) (pr pt pp inv : Word)
    (hr : Buf s pr 6 true) (ht : Buf s pt 12 false) (hp : Buf s pp 6 false)
    (hrp : X86.Disjoint pr 6 pp 6) (hstk : Stack s 6)
    (hrs : OffStack s 6 pr 6) (hts : OffStack s 6 pt 12) (hps : OffStack s 6 pp 6) {p0 p1 p2 p3 p4 p5 u247 : Word} {t245 t257 t264 t271 t278 t283 t285 t288 t293 t295 t297 t299 t301 t303 : ArithRes}
    (hp0 : p0 = s.mem (pp.toNat + 0)) (hp1 : p1 = s.mem (pp.toNat + 8)) (hp2 : p2 = s.mem (pp.toNat + 16))
    (hp3 : p3 = s.mem (pp.toNat + 24)) (hp4 : p4 = s.mem (pp.toNat + 32)) (hp5 : p5 = s.mem (pp.toNat + 40))
    (ht290 : t290 = subb .q t288.val p5 false) (ht293 : t293 = subb .q t257.val p0 false)
    (ht295 : t295 = subb .q t264.val p1 t293.cf) (ht297 : t297 = subb .q t271.val p2 t295.cf)
    (ht299 : t299 = subb .q t278.val p3 t297.cf) (ht301 : t301 = subb .q t285.val p4 t299.cf)
    (ht303 : t303 = subb .q t288.val p5 t301.cf) (hlt : t290.cf = false) (hz : t290.zf = false) :
    run embedded_pairing_core_arch_x86_64_fpbase_384_montgomery_reduce ({ rax := t283.val, rcx := inv, rdx := t288.val, rbx := t245.val, rsp := s.rsp - 8 - 8 - 8 - 8 - 8 - 8, rbp := s.rbp, rsi := pt, rdi := pr, r8 := pp, r9 := u247, r10 := t257.val, r11 := t264.val, r12 := t271.val, r13 := t278.val, r14 := t285.val, r15 := t288.val, cf := some t288.cf, zf := some t288.zf, sf := some t288.sf, of := some t288.of, mem := setMem (setMem (setMem (setMem (setMem (setMem (s.mem) (s.rsp.toNat - 8) s.rbp) (s.rsp.toNat - 8 - 8) s.rbx) (s.rsp.toNat - 8 - 8 - 8) s.r12) (s.rsp.toNat - 8 - 8 - 8 - 8) s.r13) (s.rsp.toNat - 8 - 8 - 8 - 8 - 8) s.r14) (s.rsp.toNat - 8 - 8 - 8 - 8 - 8 - 8) s.r15, readable := s.readable, writable := s.writable, cpuidFn := s.cpuidFn, pc := 290, status := .running } : State) 22
      = ({ rax := t283.val, rcx := inv, rdx := t288.val, rbx := s.rbx, rsp := s.rsp + 8, rbp := s.rbp, rsi := pt, rdi := pr, r8 := pp, r9 := u247, r10 := t293.val, r11 := t295.val, r12 := s.r12, r13 := s.r13, r14 := s.r14, r15 := s.r15, cf := some t303.cf, zf := some t303.zf, sf := some t303.sf, of := some t303.of, mem := setMem (setMem (setMem (setMem (setMem (setMem (setMem (setMem (setMem (setMem (setMem (setMem (s.mem) (s.rsp.toNat - 8) s.rbp) (s.rsp.toNat - 8 - 8) s.rbx) (s.rsp.toNat - 8 - 8 - 8) s.r12) (s.rsp.toNat - 8 - 8 - 8 - 8) s.r13) (s.rsp.toNat - 8 - 8 - 8 - 8 - 8) s.r14) (s.rsp.toNat - 8 - 8 - 8 - 8 - 8 - 8) s.r15) (pr.toNat + 0) t293.val) (pr.toNat + 8) t295.val) (pr.toNat + 16) t297.val) (pr.toNat + 24) t299.val) (pr.toNat + 32) t301.val) (pr.toNat + 40) t303.val, readable := s.readable, writable := s.writable, cpuidFn := s.cpuidFn, pc := (s.mem s.rsp.toNat).toNat, status := .halted } : State) := by
  obtain ⟨rt0, rt1, rt2, rt3, rt4, rt5, rt6, rt7, rt8, rt9, rt10, rt11⟩ := ht.r12
  obtain ⟨⟨alrt0, alrt1, alrt2, alrt3, alrt4, alrt5, alrt6, alrt7, alrt8, alrt9, alrt10, alrt11⟩, frt0, frt1, frt2, frt3, frt4, frt5, frt6, frt7, frt8, frt9, frt10, frt11⟩ := ht.addr12
  obtain ⟨rp0, rp1, rp2, rp3, rp4, rp5⟩ := hp.r6
  obtain ⟨⟨alrp0, alrp1, alrp2, alrp3, alrp4, alrp5⟩, frp0, frp1, frp2, frp3, frp4, frp5⟩ := hp.addr6
  obtain ⟨rr0, rr1, rr2, rr3, rr4, rr5⟩ := hr.r6
  obtain ⟨wr0, wr1, wr2, wr3, wr4, wr5⟩ := hr.w6
  obtain ⟨⟨alrr0, alrr1, alrr2, alrr3, alrr4, alrr5⟩, frr0, frr1, frr2, frr3, frr4, frr5⟩ := hr.addr6
  obtain ⟨als0, rs0⟩ := hstk.f0
  obtain ⟨room1, als1, sr1, sw1⟩ := hstk.f1 (by omega)
  obtain ⟨room2, als2, sr2, sw2⟩ := hstk.f2 (by omega)
  obtain ⟨room3, als3, sr3, sw3⟩ := hstk.f3 (by omega)
  obtain ⟨room4, als4, sr4, sw4⟩ := hstk.f4 (by omega)
  obtain ⟨room5, als5, sr5, sw5⟩ := hstk.f5 (by omega)
  obtain ⟨room6, als6, sr6, sw6⟩ := hstk.f6 (by omega)
  replace hrp := Hide.mk hrp; replace hrs := Hide.mk hrs; replace hts := Hide.mk hts; replace hps := Hide.mk hps
  simp only [X86.Disjoint, OffStack] at hrp hrs hts hps
  clear ht hp hr hstk
  x86_sym [sub8x3_toNat, sub8x4_toNat, sub8x5_toNat, sub8x6_toNat, mulLo_fold, mulHi_fold, imul_fold, logic, BitVec.xor_self, ← hp0, ← hp1, ← hp2, ← hp3, ← hp4, ← hp5, ← ht290, ← ht293, ← ht295, ← ht297, ← ht299, ← ht301, ← ht303, hlt, hz]

set_option maxHeartbeats 1600000 in
theorem mont_tail_eqb (s : State) (pr pt pp inv : Word)
    (hr : Buf s pr 6 true) (ht : Buf s pt 12 false) (hp : Buf s pp 6 false)
    (hrp : X86.Disjoint pr 6 pp 6) (hstk : Stack s 6)
    (hrs : OffStack s 6 pr 6) (hts : OffStack s 6 pt 12) (hps : OffStack s 6 pp 6) {p0 p1 p2 p3 p4 p5 u247 : Word} {t245 t257 t264 t271 t278 t283 t285 t288 t313 t315 t317 t319 t321 t323 : ArithRes}
    (hp0 : p0 = s.mem (pp.toNat + 0)) (hp1 : p1 = s.mem (pp.toNat + 8)) (hp2 : p2 = s.mem (pp.toNat + 16))
    (hp3 : p3 = s.mem (pp.toNat + 24)) (hp4 : p4 = s.mem (pp.toNat + 32)) (hp5 : p5 = s.mem (pp.toNat + 40))
    (ht290 : t290 = subb .q t288.val p5 false) (ht313 : t313 = subb .q t257.val p0 false)
    (ht315 : t315 = subb .q t264.val p1 t313.cf) (ht317 : t317 = subb .q t271.val p2 t315.cf)
    (ht319 : t319 = subb .q t278.val p3 t317.cf) (ht321 : t321 = subb .q t285.val p4 t319.cf)
    (ht323 : t323 = subb .q t288.val p5 t321.cf) (hlt : t290.cf = false) (hz : t290.zf = true) (hbw : t323.cf = true) :
    run embedded_pairing_core_arch_x86_64_fpbase_384_montgomery_reduce ({ rax := t283.val, rcx := inv, rdx := t288.val, rbx := t245.val, rsp := s.rsp - 8 - 8 - 8 - 8 - 8 - 8, rbp := s.rbp, rsi := pt, rdi := pr, r8 := pp, r9 := u247, r10 := t257.val, r11 := t264.val, r12 := t271.val, r13 := t278.val, r14 := t285.val, r15 := t288.val, cf := some t288.cf, zf := some t288.zf, sf := some t288.sf, of := some t288.of, mem := setMem (setMem (setMem (setMem (setMem (setMem (s.mem) (s.rsp.toNat - 8) s.rbp) (s.rsp.toNat - 8 - 8) s.rbx) (s.rsp.toNat - 8 - 8 - 8) s.r12) (s.rsp.toNat - 8 - 8 - 8 - 8) s.r13) (s.rsp.toNat - 8 - 8 - 8 - 8 - 8) s.r14) (s.rsp.toNat - 8 - 8 - 8 - 8 - 8 - 8) s.r15, readable := s.readable, writable := s.writable, cpuidFn := s.cpuidFn, pc := 290, status := .running } : State) 23
      = ({ rax := t283.val, rcx := inv, rdx := t288.val, rbx := s.rbx, rsp := s.rsp + 8, rbp := s.rbp, rsi := pt, rdi := pr, r8 := pp, r9 := u247, r10 := t313.val, r11 := t315.val, r12 := s.r12, r13 := s.r13, r14 := s.r14, r15 := s.r15, cf := some t323.cf, zf := some t323.zf, sf := some t323.sf, of := some t323.of, mem := setMem (setMem (setMem (setMem (setMem (setMem (setMem (setMem (setMem (setMem (setMem (setMem (s.mem) (s.rsp.toNat - 8) s.rbp) (s.rsp.toNat - 8 - 8) s.rbx) (s.rsp.toNat - 8 - 8 - 8) s.r12) (s.rsp.toNat - 8 - 8 - 8 - 8) s.r13) (s.rsp.toNat - 8 - 8 - 8 - 8 - 8) s.r14) (s.rsp.toNat - 8 - 8 - 8 - 8 - 8 - 8) s.r15) (pr.toNat + 0) t257.val) (pr.toNat + 8) t264.val) (pr.toNat + 16) t271.val) (pr.toNat + 24) t278.val) (pr.toNat + 32) t285.val) (pr.toNat + 40) t288.val, readable := s.readable, writable := s.writable, cpuidFn := s.cpuidFn, pc := (s.mem s.rsp.toNat).toNat, status := .halted } : State) := by
  obtain ⟨rt0, rt1, rt2, rt3, rt4, rt5, rt6, rt7, rt8, rt9, rt10, rt11⟩ := ht.r12
  obtain ⟨⟨alrt0, alrt1, alrt2, alrt3, alrt4, alrt5, alrt6, alrt7, alrt8, alrt9, alrt10, alrt11⟩, frt0, frt1, frt2, frt3, frt4, frt5, frt6, frt7, frt8, frt9, frt10, frt11⟩ := ht.addr12
  obtain ⟨rp0, rp1, rp2, rp3, rp4, rp5⟩ := hp.r6
  obtain ⟨⟨alrp0, alrp1, alrp2, alrp3, alrp4, alrp5⟩, frp0, frp1, frp2, frp3, frp4, frp5⟩ := hp.addr6
  obtain ⟨rr0, rr1, rr2, rr3, rr4, rr5⟩ := hr.r6
  obtain ⟨wr0, wr1, wr2, wr3, wr4, wr5⟩ := hr.w6
  obtain ⟨⟨alrr0, alrr1, alrr2, alrr3, alrr4, alrr5⟩, frr0, frr1, frr2, frr3, frr4, frr5⟩ := hr.addr6
  obtain ⟨als0, rs0⟩ := hstk.f0
  obtain ⟨room1, als1, sr1, sw1⟩ := hstk.f1 (by omega)
  obtain ⟨room2, als2, sr2, sw2⟩ := hstk.f2 (by omega)
  obtain ⟨room3, als3, sr3, sw3⟩ := hstk.f3 (by omega)
  obtain ⟨room4, als4, sr4, sw4⟩ := hstk.f4 (by omega)
  obtain ⟨room5, als5, sr5, sw5⟩ := hstk.f5 (by omega)
  obtain ⟨room6, als6, sr6, sw6⟩ := hstk.f6 (by omega)
  replace hrp := Hide.mk hrp; replace hrs := Hide.mk hrs; replace hts := Hide.mk hts; replace hps := Hide.mk hps
  simp only [X86.Disjoint, OffStack] at hrp hrs hts hps
  clear ht hp hr hstk
  x86_sym [sub8x3_toNat, sub8x4_toNat, sub8x5_toNat, sub8x6_toNat, mulLo_fold, mulHi_fold, imul_fold, logic, BitVec.xor_self, ← hp0, ← hp1, ← hp2, ← hp3, ← hp4, ← hp5, ← ht290, ← ht313, ← ht315, ← ht317, ← ht319, ← ht321, ← ht323, hlt, hz, hbw]

set_option maxHeartbeats 1600000 in
theorem mont_tail_eqn (s : State) (pr pt pp inv : Word)
    (hr : Buf s pr 6 true) (ht : Buf s pt 12 false) (hp : Buf s pp 6 false)
    (hrp : X86.Disjoint pr 6 pp 6) (hstk : Stack s 6)
    (hrs : OffStack s 6 pr 6) (hts : OffStack s 6 pt 12) (hps : OffStack s 6 pp 6) {p0 p1 p2 p3 p4 p5 u247 : Word} {t245 t257 t264 t271 t278 t283 t285 t288 t313 t315 t317 t319 t321 t323 : ArithRes}
    (hp0 : p0 = s.mem (pp.toNat + 0)) (hp1 : p1 = s.mem (pp.toNat + 8)) (hp2 : p2 = s.mem (pp.toNat + 16))
    (hp3 : p3 = s.mem (pp.toNat + 24)) (hp4 : p4 = s.mem (pp.toNat + 32)) (hp5 : p5 = s.mem (pp.toNat + 40))
    (ht290 : t290 = subb .q t288.val p5 false) (ht313 : t313 = subb .q t257.val p0 false)
    (ht315 : t315 = subb .q t264.val p1 t313.cf) (ht317 : t317 = subb .q t271.val p2 t315.cf)
    (ht319 : t319 = subb .q t278.val p3 t317.cf) (ht321 : t321 = subb .q t285.val p4 t319.cf)
    (ht323 : t323 = subb .q t288.val p5 t321.cf) (hlt : t290.cf = false) (hz : t290.zf = true) (hbw : t323.cf = false) :
    run embedded_pairing_core_arch_x86_64_fpbase_384_montgomery_reduce ({ rax := t283.val, rcx := inv, rdx := t288.val, rbx := t245.val, rsp := s.rsp - 8 - 8 - 8 - 8 - 8 - 8, rbp := s.rbp, rsi := pt, rdi := pr, r8 := pp, r9 := u247, r10 := t257.val, r11 := t264.val, r12 := t271.val, r13 := t278.val, r14 := t285.val, r15 := t288.val, cf := some t288.cf, zf := some t288.zf, sf := some t288.sf, of := some t288.of, mem := setMem (setMem (setMem (setMem (setMem (setMem (s.mem) (s.rsp.toNat - 8) s.rbp) (s.rsp.toNat - 8 - 8) s.rbx) (s.rsp.toNat - 8 - 8 - 8) s.r12) (s.rsp.toNat - 8 - 8 - 8 - 8) s.r13) (s.rsp.toNat - 8 - 8 - 8 - 8 - 8) s.r14) (s.rsp.toNat - 8 - 8 - 8 - 8 - 8 - 8) s.r15, readable := s.readable, writable := s.writable, cpuidFn := s.cpuidFn, pc := 290, status := .running } : State) 29
      = ({ rax := t283.val, rcx := inv, rdx := t288.val, rbx := s.rbx, rsp := s.rsp + 8, rbp := s.rbp, rsi := pt, rdi := pr, r8 := pp, r9 := u247, r10 := t313.val, r11 := t315.val, r12 := s.r12, r13 := s.r13, r14 := s.r14, r15 := s.r15, cf := some t323.cf, zf := some t323.zf, sf := some t323.sf, of := some t323.of, mem := setMem (setMem (setMem (setMem (setMem (setMem (setMem (setMem (setMem (setMem (setMem (setMem (setMem (setMem (setMem (setMem (setMem (setMem (s.mem) (s.rsp.toNat - 8) s.rbp) (s.rsp.toNat - 8 - 8) s.rbx) (s.rsp.toNat - 8 - 8 - 8) s.r12) (s.rsp.toNat - 8 - 8 - 8 - 8) s.r13) (s.rsp.toNat - 8 - 8 - 8 - 8 - 8) s.r14) (s.rsp.toNat - 8 - 8 - 8 - 8 - 8 - 8) s.r15) (pr.toNat + 0) t257.val) (pr.toNat + 8) t264.val) (pr.toNat + 16) t271.val) (pr.toNat + 24) t278.val) (pr.toNat + 32) t285.val) (pr.toNat + 40) t288.val) (pr.toNat + 0) t313.val) (pr.toNat + 8) t315.val) (pr.toNat + 16) t317.val) (pr.toNat + 24) t319.val) (pr.toNat + 32) t321.val) (pr.toNat + 40) t323.val, readable := s.readable, writable := s.writable, cpuidFn := s.cpuidFn, pc := (s.mem s.rsp.toNat).toNat, status := .halted } : State) := by
  obtain ⟨rt0, rt1, rt2, rt3, rt4, rt5, rt6, rt7, rt8, rt9, rt10, rt11⟩ := ht.r12
  obtain ⟨⟨alrt0, alrt1, alrt2, alrt3, alrt4, alrt5, alrt6, alrt7, alrt8, alrt9, alrt10, alrt11⟩, frt0, frt1, frt2, frt3, frt4, frt5, frt6, frt7, frt8, frt9, frt10, frt11⟩ := ht.addr12
  obtain ⟨rp0, rp1, rp2, rp3, rp4, rp5⟩ := hp.r6
  obtain ⟨⟨alrp0, alrp1, alrp2, alrp3, alrp4, alrp5⟩, frp0, frp1, frp2, frp3, frp4, frp5⟩ := hp.addr6
  obtain ⟨rr0, rr1, rr2, rr3, rr4, rr5⟩ := hr.r6
  obtain ⟨wr0, wr1, wr2, wr3, wr4, wr5⟩ := hr.w6
  obtain ⟨⟨alrr0, alrr1, alrr2, alrr3, alrr4, alrr5⟩, frr0, frr1, frr2, frr3, frr4, frr5⟩ := hr.addr6
  obtain ⟨als0, rs0⟩ := hstk.f0
  obtain ⟨room1, als1, sr1, sw1⟩ := hstk.f1 (by omega)
  obtain ⟨room2, als2, sr2, sw2⟩ := hstk.f2 (by omega)
  obtain ⟨room3, als3, sr3, sw3⟩ := hstk.f3 (by omega)
  obtain ⟨room4, als4, sr4, sw4⟩ := hstk.f4 (by omega)
  obtain ⟨room5, als5, sr5, sw5⟩ := hstk.f5 (by omega)
  obtain ⟨room6, als6, sr6, sw6⟩ := hstk.f6 (by omega)
  replace hrp := Hide.mk hrp; replace hrs := Hide.mk hrs; replace hts := Hide.mk hts; replace hps := Hide.mk hps
  simp only [X86.Disjoint, OffStack] at hrp hrs hts hps
  clear ht hp hr hstk
  x86_sym [sub8x3_toNat, sub8x4_toNat, sub8x5_toNat, sub8x6_toNat, mulLo_fold, mulHi_fold, imul_fold, logic, BitVec.xor_self, ← hp0, ← hp1, ← hp2, ← hp3, ← hp4, ← hp5, ← ht290, ← ht313, ← ht315, ← ht317, ← ht319, ← ht321, ← ht323, hlt, hz, hbw]


/-! ## the theorem -/

set_option maxHeartbeats 1600000 in
/-- `void fpbase_384_montgomery_reduce(res, T, p, inv)`: `res < P` and `res·2^384 ≡ T (mod P)` -/
theorem fpbase_384_montgomery_reduce_run (s : State) (pr pt pp inv : Word)
    (hst : s.status = .running) (hpc : s.pc = 0) (hdi : s.rdi = pr) (hsi : s.rsi = pt) (hdx : s.rdx = pp) (hcx : s.rcx = inv)
    (hr : Buf s pr 6 true) (ht : Buf s pt 12 false) (hp : Buf s pp 6 false)
    (hrp : X86.Disjoint pr 6 pp 6) (hstk : Stack s 6)
    (hrs : OffStack s 6 pr 6) (hts : OffStack s 6 pt 12) (hps : OffStack s 6 pp 6)
    (hinv : (inv.toNat * val (2 ^ 64) (limbs s.mem pp.toNat 6) + 1) % 2 ^ 64 = 0)
    (hT : val (2 ^ 64) (limbs s.mem pt.toNat 12) < val (2 ^ 64) (limbs s.mem pp.toNat 6) * 2 ^ 384)
    (h2P : 2 * val (2 ^ 64) (limbs s.mem pp.toNat 6) ≤ 2 ^ 384) :
    ∃ s', run embedded_pairing_core_arch_x86_64_fpbase_384_montgomery_reduce s 338 = s' ∧ Returned s s' ∧
      val (2 ^ 64) (limbs s'.mem pr.toNat 6) < val (2 ^ 64) (limbs s.mem pp.toNat 6) ∧
      (val (2 ^ 64) (limbs s'.mem pr.toNat 6) * 2 ^ 384) % val (2 ^ 64) (limbs s.mem pp.toNat 6)
        = val (2 ^ 64) (limbs s.mem pt.toNat 12) % val (2 ^ 64) (limbs s.mem pp.toNat 6) ∧
      (∀ k, ¬(pr.toNat ≤ k ∧ k < pr.toNat + 48) → ¬(s.rsp.toNat - 48 ≤ k ∧ k < s.rsp.toNat) → s'.mem k = s.mem k) := by
  simp only [limbs_six, limbs_twelve] at hinv hT h2P ⊢
  obtain ⟨x0, hx0⟩ : ∃ x, x = s.mem (pt.toNat + 0) := ⟨_, rfl⟩
  obtain ⟨x1, hx1⟩ : ∃ x, x = s.mem (pt.toNat + 8) := ⟨_, rfl⟩
  obtain ⟨x2, hx2⟩ : ∃ x, x = s.mem (pt.toNat + 16) := ⟨_, rfl⟩
  obtain ⟨x3, hx3⟩ : ∃ x, x = s.mem (pt.toNat + 24) := ⟨_, rfl⟩
  obtain ⟨x4, hx4⟩ : ∃ x, x = s.mem (pt.toNat + 32) := ⟨_, rfl⟩
  obtain ⟨x5, hx5⟩ : ∃ x, x = s.mem (pt.toNat + 40) := ⟨_, rfl⟩
  obtain ⟨x6, hx6⟩ : ∃ x, x = s.mem (pt.toNat + 48) := ⟨_, rfl⟩
  obtain ⟨x7, hx7⟩ : ∃ x, x = s.mem (pt.toNat + 56) := ⟨_, rfl⟩
  obtain ⟨x8, hx8⟩ : ∃ x, x = s.mem (pt.toNat + 64) := ⟨_, rfl⟩
  obtain ⟨x9, hx9⟩ : ∃ x, x = s.mem (pt.toNat + 72) := ⟨_, rfl⟩
  obtain ⟨x10, hx10⟩ : ∃ x, x = s.mem (pt.toNat + 80) := ⟨_, rfl⟩
  obtain ⟨x11, hx11⟩ : ∃ x, x = s.mem (pt.toNat + 88) := ⟨_, rfl⟩
  obtain ⟨p0, hp0⟩ : ∃ x, x = s.mem (pp.toNat + 0) := ⟨_, rfl⟩
  obtain ⟨p1, hp1⟩ : ∃ x, x = s.mem (pp.toNat + 8) := ⟨_, rfl⟩
  obtain ⟨p2, hp2⟩ : ∃ x, x = s.mem (pp.toNat + 16) := ⟨_, rfl⟩
  obtain ⟨p3, hp3⟩ : ∃ x, x = s.mem (pp.toNat + 24) := ⟨_, rfl⟩
  obtain ⟨p4, hp4⟩ : ∃ x, x = s.mem (pp.toNat + 32) := ⟨_, rfl⟩
  obtain ⟨p5, hp5⟩ : ∃ x, x = s.mem (pp.toNat + 40) := ⟨_, rfl⟩
  simp only [← hx0, ← hx1, ← hx2, ← hx3, ← hx4, ← hx5, ← hx6, ← hx7, ← hx8, ← hx9, ← hx10, ← hx11, ← hp0, ← hp1, ← hp2, ← hp3, ← hp4, ← hp5] at hinv hT h2P ⊢
  obtain ⟨u15, hu15⟩ : ∃ x, x = inv * x0 := ⟨_, rfl⟩
  obtain ⟨m17l, hm17l⟩ : ∃ x, x = mulLo u15 p0 := ⟨_, rfl⟩
  obtain ⟨m17h, hm17h⟩ : ∃ x, x = mulHi u15 p0 := ⟨_, rfl⟩
  obtain ⟨t18, ht18⟩ : ∃ x, x = addc .q x0 m17l false := ⟨_, rfl⟩
  obtain ⟨t19, ht19⟩ : ∃ x, x = addc .q m17h (0#64) t18.cf := ⟨_, rfl⟩
  obtain ⟨m22l, hm22l⟩ : ∃ x, x = mulLo u15 p1 := ⟨_, rfl⟩
  obtain ⟨m22h, hm22h⟩ : ∃ x, x = mulHi u15 p1 := ⟨_, rfl⟩
  obtain ⟨t23, ht23⟩ : ∃ x, x = addc .q m22l t19.val false := ⟨_, rfl⟩
  obtain ⟨t24, ht24⟩ : ∃ x, x = addc .q m22h (0#64) t23.cf := ⟨_, rfl⟩
  obtain ⟨t25, ht25⟩ : ∃ x, x = addc .q x1 t23.val false := ⟨_, rfl⟩
  obtain ⟨t26, ht26⟩ : ∃ x, x = addc .q t24.val (0#64) t25.cf := ⟨_, rfl⟩
  obtain ⟨m29l, hm29l⟩ : ∃ x, x = mulLo u15 p2 := ⟨_, rfl⟩
  obtain ⟨m29h, hm29h⟩ : ∃ x, x = mulHi u15 p2 := ⟨_, rfl⟩
  obtain ⟨t30, ht30⟩ : ∃ x, x = addc .q m29l t26.val false := ⟨_, rfl⟩
  obtain ⟨t31, ht31⟩ : ∃ x, x = addc .q m29h (0#64) t30.cf := ⟨_, rfl⟩
  obtain ⟨t32, ht32⟩ : ∃ x, x = addc .q x2 t30.val false := ⟨_, rfl⟩
  obtain ⟨t33, ht33⟩ : ∃ x, x = addc .q t31.val (0#64) t32.cf := ⟨_, rfl⟩
  obtain ⟨m36l, hm36l⟩ : ∃ x, x = mulLo u15 p3 := ⟨_, rfl⟩
  obtain ⟨m36h, hm36h⟩ : ∃ x, x = mulHi u15 p3 := ⟨_, rfl⟩
  obtain ⟨t37, ht37⟩ : ∃ x, x = addc .q m36l t33.val false := ⟨_, rfl⟩
  obtain ⟨t38, ht38⟩ : ∃ x, x = addc .q m36h (0#64) t37.cf := ⟨_, rfl⟩
  obtain ⟨t39, ht39⟩ : ∃ x, x = addc .q x3 t37.val false := ⟨_, rfl⟩
  obtain ⟨t40, ht40⟩ : ∃ x, x = addc .q t38.val (0#64) t39.cf := ⟨_, rfl⟩
  obtain ⟨m43l, hm43l⟩ : ∃ x, x = mulLo u15 p4 := ⟨_, rfl⟩
  obtain ⟨m43h, hm43h⟩ : ∃ x, x = mulHi u15 p4 := ⟨_, rfl⟩
  obtain ⟨t44, ht44⟩ : ∃ x, x = addc .q m43l t40.val false := ⟨_, rfl⟩
  obtain ⟨t45, ht45⟩ : ∃ x, x = addc .q m43h (0#64) t44.cf := ⟨_, rfl⟩
  obtain ⟨t46, ht46⟩ : ∃ x, x = addc .q x4 t44.val false := ⟨_, rfl⟩
  obtain ⟨t47, ht47⟩ : ∃ x, x = addc .q t45.val (0#64) t46.cf := ⟨_, rfl⟩
  obtain ⟨m50l, hm50l⟩ : ∃ x, x = mulLo u15 p5 := ⟨_, rfl⟩
  obtain ⟨m50h, hm50h⟩ : ∃ x, x = mulHi u15 p5 := ⟨_, rfl⟩
  obtain ⟨t51, ht51⟩ : ∃ x, x = addc .q m50l t47.val false := ⟨_, rfl⟩
  obtain ⟨t52, ht52⟩ : ∃ x, x = addc .q m50h (0#64) t51.cf := ⟨_, rfl⟩
  obtain ⟨t53, ht53⟩ : ∃ x, x = addc .q x5 t51.val false := ⟨_, rfl⟩
  obtain ⟨t54, ht54⟩ : ∃ x, x = addc .q t52.val (0#64) t53.cf := ⟨_, rfl⟩
  obtain ⟨t56, ht56⟩ : ∃ x, x = addc .q x6 t54.val false := ⟨_, rfl⟩
  obtain ⟨t57, ht57⟩ : ∃ x, x = addc .q (0#64) (0#64) t56.cf := ⟨_, rfl⟩
  obtain ⟨u59, hu59⟩ : ∃ x, x = inv * t25.val := ⟨_, rfl⟩
  obtain ⟨m61l, hm61l⟩ : ∃ x, x = mulLo u59 p0 := ⟨_, rfl⟩
  obtain ⟨m61h, hm61h⟩ : ∃ x, x = mulHi u59 p0 := ⟨_, rfl⟩
  obtain ⟨t62, ht62⟩ : ∃ x, x = addc .q t25.val m61l false := ⟨_, rfl⟩
  obtain ⟨t63, ht63⟩ : ∃ x, x = addc .q m61h (0#64) t62.cf := ⟨_, rfl⟩
  obtain ⟨m66l, hm66l⟩ : ∃ x, x = mulLo u59 p1 := ⟨_, rfl⟩
  obtain ⟨m66h, hm66h⟩ : ∃ x, x = mulHi u59 p1 := ⟨_, rfl⟩
  obtain ⟨t67, ht67⟩ : ∃ x, x = addc .q m66l t63.val false := ⟨_, rfl⟩
  obtain ⟨t68, ht68⟩ : ∃ x, x = addc .q m66h (0#64) t67.cf := ⟨_, rfl⟩
  obtain ⟨t69, ht69⟩ : ∃ x, x = addc .q t32.val t67.val false := ⟨_, rfl⟩
  obtain ⟨t70, ht70⟩ : ∃ x, x = addc .q t68.val (0#64) t69.cf := ⟨_, rfl⟩
  obtain ⟨m73l, hm73l⟩ : ∃ x, x = mulLo u59 p2 := ⟨_, rfl⟩
  obtain ⟨m73h, hm73h⟩ : ∃ x, x = mulHi u59 p2 := ⟨_, rfl⟩
  obtain ⟨t74, ht74⟩ : ∃ x, x = addc .q m73l t70.val false := ⟨_, rfl⟩
  obtain ⟨t75, ht75⟩ : ∃ x, x = addc .q m73h (0#64) t74.cf := ⟨_, rfl⟩
  obtain ⟨t76, ht76⟩ : ∃ x, x = addc .q t39.val t74.val false := ⟨_, rfl⟩
  obtain ⟨t77, ht77⟩ : ∃ x, x = addc .q t75.val (0#64) t76.cf := ⟨_, rfl⟩
  obtain ⟨m80l, hm80l⟩ : ∃ x, x = mulLo u59 p3 := ⟨_, rfl⟩
  obtain ⟨m80h, hm80h⟩ : ∃ x, x = mulHi u59 p3 := ⟨_, rfl⟩
  obtain ⟨t81, ht81⟩ : ∃ x, x = addc .q m80l t77.val false := ⟨_, rfl⟩
  obtain ⟨t82, ht82⟩ : ∃ x, x = addc .q m80h (0#64) t81.cf := ⟨_, rfl⟩
  obtain ⟨t83, ht83⟩ : ∃ x, x = addc .q t46.val t81.val false := ⟨_, rfl⟩
  obtain ⟨t84, ht84⟩ : ∃ x, x = addc .q t82.val (0#64) t83.cf := ⟨_, rfl⟩
  obtain ⟨m87l, hm87l⟩ : ∃ x, x = mulLo u59 p4 := ⟨_, rfl⟩
  obtain ⟨m87h, hm87h⟩ : ∃ x, x = mulHi u59 p4 := ⟨_, rfl⟩
  obtain ⟨t88, ht88⟩ : ∃ x, x = addc .q m87l t84.val false := ⟨_, rfl⟩
  obtain ⟨t89, ht89⟩ : ∃ x, x = addc .q m87h (0#64) t88.cf := ⟨_, rfl⟩
  obtain ⟨t90, ht90⟩ : ∃ x, x = addc .q t53.val t88.val false := ⟨_, rfl⟩
  obtain ⟨t91, ht91⟩ : ∃ x, x = addc .q t89.val (0#64) t90.cf := ⟨_, rfl⟩
  obtain ⟨m94l, hm94l⟩ : ∃ x, x = mulLo u59 p5 := ⟨_, rfl⟩
  obtain ⟨m94h, hm94h⟩ : ∃ x, x = mulHi u59 p5 := ⟨_, rfl⟩
  obtain ⟨t95, ht95⟩ : ∃ x, x = addc .q m94l t91.val false := ⟨_, rfl⟩
  obtain ⟨t96, ht96⟩ : ∃ x, x = addc .q m94h (0#64) t95.cf := ⟨_, rfl⟩
  obtain ⟨t97, ht97⟩ : ∃ x, x = addc .q t56.val t95.val false := ⟨_, rfl⟩
  obtain ⟨t98, ht98⟩ : ∃ x, x = addc .q t96.val (0#64) t97.cf := ⟨_, rfl⟩
  obtain ⟨t99, ht99⟩ : ∃ x, x = addc .q t98.val t57.val false := ⟨_, rfl⟩
  obtain ⟨t101, ht101⟩ : ∃ x, x = addc .q (0#64) (0#64) t99.cf := ⟨_, rfl⟩
  obtain ⟨t103, ht103⟩ : ∃ x, x = addc .q x7 t99.val false := ⟨_, rfl⟩
  obtain ⟨t104, ht104⟩ : ∃ x, x = addc .q t101.val (0#64) t103.cf := ⟨_, rfl⟩
  obtain ⟨u106, hu106⟩ : ∃ x, x = inv * t69.val := ⟨_, rfl⟩
  obtain ⟨m108l, hm108l⟩ : ∃ x, x = mulLo u106 p0 := ⟨_, rfl⟩
  obtain ⟨m108h, hm108h⟩ : ∃ x, x = mulHi u106 p0 := ⟨_, rfl⟩
  obtain ⟨t109, ht109⟩ : ∃ x, x = addc .q t69.val m108l false := ⟨_, rfl⟩
  obtain ⟨t110, ht110⟩ : ∃ x, x = addc .q m108h (0#64) t109.cf := ⟨_, rfl⟩
  obtain ⟨m113l, hm113l⟩ : ∃ x, x = mulLo u106 p1 := ⟨_, rfl⟩
  obtain ⟨m113h, hm113h⟩ : ∃ x, x = mulHi u106 p1 := ⟨_, rfl⟩
  obtain ⟨t114, ht114⟩ : ∃ x, x = addc .q m113l t110.val false := ⟨_, rfl⟩
  obtain ⟨t115, ht115⟩ : ∃ x, x = addc .q m113h (0#64) t114.cf := ⟨_, rfl⟩
  obtain ⟨t116, ht116⟩ : ∃ x, x = addc .q t76.val t114.val false := ⟨_, rfl⟩
  obtain ⟨t117, ht117⟩ : ∃ x, x = addc .q t115.val (0#64) t116.cf := ⟨_, rfl⟩
  obtain ⟨m120l, hm120l⟩ : ∃ x, x = mulLo u106 p2 := ⟨_, rfl⟩
  obtain ⟨m120h, hm120h⟩ : ∃ x, x = mulHi u106 p2 := ⟨_, rfl⟩
  obtain ⟨t121, ht121⟩ : ∃ x, x = addc .q m120l t117.val false := ⟨_, rfl⟩
  obtain ⟨t122, ht122⟩ : ∃ x, x = addc .q m120h (0#64) t121.cf := ⟨_, rfl⟩
  obtain ⟨t123, ht123⟩ : ∃ x, x = addc .q t83.val t121.val false := ⟨_, rfl⟩
  obtain ⟨t124, ht124⟩ : ∃ x, x = addc .q t122.val (0#64) t123.cf := ⟨_, rfl⟩
  obtain ⟨m127l, hm127l⟩ : ∃ x, x = mulLo u106 p3 := ⟨_, rfl⟩
  obtain ⟨m127h, hm127h⟩ : ∃ x, x = mulHi u106 p3 := ⟨_, rfl⟩
  obtain ⟨t128, ht128⟩ : ∃ x, x = addc .q m127l t124.val false := ⟨_, rfl⟩
  obtain ⟨t129, ht129⟩ : ∃ x, x = addc .q m127h (0#64) t128.cf := ⟨_, rfl⟩
  obtain ⟨t130, ht130⟩ : ∃ x, x = addc .q t90.val t128.val false := ⟨_, rfl⟩
  obtain ⟨t131, ht131⟩ : ∃ x, x = addc .q t129.val (0#64) t130.cf := ⟨_, rfl⟩
  obtain ⟨m134l, hm134l⟩ : ∃ x, x = mulLo u106 p4 := ⟨_, rfl⟩
  obtain ⟨m134h, hm134h⟩ : ∃ x, x = mulHi u106 p4 := ⟨_, rfl⟩
  obtain ⟨t135, ht135⟩ : ∃ x, x = addc .q m134l t131.val false := ⟨_, rfl⟩
  obtain ⟨t136, ht136⟩ : ∃ x, x = addc .q m134h (0#64) t135.cf := ⟨_, rfl⟩
  obtain ⟨t137, ht137⟩ : ∃ x, x = addc .q t97.val t135.val false := ⟨_, rfl⟩
  obtain ⟨t138, ht138⟩ : ∃ x, x = addc .q t136.val (0#64) t137.cf := ⟨_, rfl⟩
  obtain ⟨m141l, hm141l⟩ : ∃ x, x = mulLo u106 p5 := ⟨_, rfl⟩
  obtain ⟨m141h, hm141h⟩ : ∃ x, x = mulHi u106 p5 := ⟨_, rfl⟩
  obtain ⟨t142, ht142⟩ : ∃ x, x = addc .q m141l t138.val false := ⟨_, rfl⟩
  obtain ⟨t143, ht143⟩ : ∃ x, x = addc .q m141h (0#64) t142.cf := ⟨_, rfl⟩
  obtain ⟨t144, ht144⟩ : ∃ x, x = addc .q t103.val t142.val false := ⟨_, rfl⟩
  obtain ⟨t145, ht145⟩ : ∃ x, x = addc .q t143.val (0#64) t144.cf := ⟨_, rfl⟩
  obtain ⟨t146, ht146⟩ : ∃ x, x = addc .q t145.val t104.val false := ⟨_, rfl⟩
  obtain ⟨t148, ht148⟩ : ∃ x, x = addc .q (0#64) (0#64) t146.cf := ⟨_, rfl⟩
  obtain ⟨t150, ht150⟩ : ∃ x, x = addc .q x8 t146.val false := ⟨_, rfl⟩
  obtain ⟨t151, ht151⟩ : ∃ x, x = addc .q t148.val (0#64) t150.cf := ⟨_, rfl⟩
  obtain ⟨u153, hu153⟩ : ∃ x, x = inv * t116.val := ⟨_, rfl⟩
  obtain ⟨m155l, hm155l⟩ : ∃ x, x = mulLo u153 p0 := ⟨_, rfl⟩
  obtain ⟨m155h, hm155h⟩ : ∃ x, x = mulHi u153 p0 := ⟨_, rfl⟩
  obtain ⟨t156, ht156⟩ : ∃ x, x = addc .q t116.val m155l false := ⟨_, rfl⟩
  obtain ⟨t157, ht157⟩ : ∃ x, x = addc .q m155h (0#64) t156.cf := ⟨_, rfl⟩
  obtain ⟨m160l, hm160l⟩ : ∃ x, x = mulLo u153 p1 := ⟨_, rfl⟩
  obtain ⟨m160h, hm160h⟩ : ∃ x, x = mulHi u153 p1 := ⟨_, rfl⟩
  obtain ⟨t161, ht161⟩ : ∃ x, x = addc .q m160l t157.val false := ⟨_, rfl⟩
  obtain ⟨t162, ht162⟩ : ∃ x, x = addc .q m160h (0#64) t161.cf := ⟨_, rfl⟩
  obtain ⟨t163, ht163⟩ : ∃ x, x = addc .q t123.val t161.val false := ⟨_, rfl⟩
  obtain ⟨t164, ht164⟩ : ∃ x, x = addc .q t162.val (0#64) t163.cf := ⟨_, rfl⟩
  obtain ⟨m167l, hm167l⟩ : ∃ x, x = mulLo u153 p2 := ⟨_, rfl⟩
  obtain ⟨m167h, hm167h⟩ : ∃ x, x = mulHi u153 p2 := ⟨_, rfl⟩
  obtain ⟨t168, ht168⟩ : ∃ x, x = addc .q m167l t164.val false := ⟨_, rfl⟩
  obtain ⟨t169, ht169⟩ : ∃ x, x = addc .q m167h (0#64) t168.cf := ⟨_, rfl⟩
  obtain ⟨t170, ht170⟩ : ∃ x, x = addc .q t130.val t168.val false := ⟨_, rfl⟩
  obtain ⟨t171, ht171⟩ : ∃ x, x = addc .q t169.val (0#64) t170.cf := ⟨_, rfl⟩
  obtain ⟨m174l, hm174l⟩ : ∃ x, x = mulLo u153 p3 := ⟨_, rfl⟩
  obtain ⟨m174h, hm174h⟩ : ∃ x, x = mulHi u153 p3 := ⟨_, rfl⟩
  obtain ⟨t175, ht175⟩ : ∃ x, x = addc .q m174l t171.val false := ⟨_, rfl⟩
  obtain ⟨t176, ht176⟩ : ∃ x, x = addc .q m174h (0#64) t175.cf := ⟨_, rfl⟩
  obtain ⟨t177, ht177⟩ : ∃ x, x = addc .q t137.val t175.val false := ⟨_, rfl⟩
  obtain ⟨t178, ht178⟩ : ∃ x, x = addc .q t176.val (0#64) t177.cf := ⟨_, rfl⟩
  obtain ⟨m181l, hm181l⟩ : ∃ x, x = mulLo u153 p4 := ⟨_, rfl⟩
  obtain ⟨m181h, hm181h⟩ : ∃ x, x = mulHi u153 p4 := ⟨_, rfl⟩
  obtain ⟨t182, ht182⟩ : ∃ x, x = addc .q m181l t178.val false := ⟨_, rfl⟩
  obtain ⟨t183, ht183⟩ : ∃ x, x = addc .q m181h (0#64) t182.cf := ⟨_, rfl⟩
  obtain ⟨t184, ht184⟩ : ∃ x, x = addc .q t144.val t182.val false := ⟨_, rfl⟩
  obtain ⟨t185, ht185⟩ : ∃ x, x = addc .q t183.val (0#64) t184.cf := ⟨_, rfl⟩
  obtain ⟨m188l, hm188l⟩ : ∃ x, x = mulLo u153 p5 := ⟨_, rfl⟩
  obtain ⟨m188h, hm188h⟩ : ∃ x, x = mulHi u153 p5 := ⟨_, rfl⟩
  obtain ⟨t189, ht189⟩ : ∃ x, x = addc .q m188l t185.val false := ⟨_, rfl⟩
  obtain ⟨t190, ht190⟩ : ∃ x, x = addc .q m188h (0#64) t189.cf := ⟨_, rfl⟩
  obtain ⟨t191, ht191⟩ : ∃ x, x = addc .q t150.val t189.val false := ⟨_, rfl⟩
  obtain ⟨t192, ht192⟩ : ∃ x, x = addc .q t190.val (0#64) t191.cf := ⟨_, rfl⟩
  obtain ⟨t193, ht193⟩ : ∃ x, x = addc .q t192.val t151.val false := ⟨_, rfl⟩
  obtain ⟨t195, ht195⟩ : ∃ x, x = addc .q (0#64) (0#64) t193.cf := ⟨_, rfl⟩
  obtain ⟨t197, ht197⟩ : ∃ x, x = addc .q x9 t193.val false := ⟨_, rfl⟩
  obtain ⟨t198, ht198⟩ : ∃ x, x = addc .q t195.val (0#64) t197.cf := ⟨_, rfl⟩
  obtain ⟨u200, hu200⟩ : ∃ x, x = inv * t163.val := ⟨_, rfl⟩
  obtain ⟨m202l, hm202l⟩ : ∃ x, x = mulLo u200 p0 := ⟨_, rfl⟩
  obtain ⟨m202h, hm202h⟩ : ∃ x, x = mulHi u200 p0 := ⟨_, rfl⟩
  obtain ⟨t203, ht203⟩ : ∃ x, x = addc .q t163.val m202l false := ⟨_, rfl⟩
  obtain ⟨t204, ht204⟩ : ∃ x, x = addc .q m202h (0#64) t203.cf := ⟨_, rfl⟩
  obtain ⟨m207l, hm207l⟩ : ∃ x, x = mulLo u200 p1 := ⟨_, rfl⟩
  obtain ⟨m207h, hm207h⟩ : ∃ x, x = mulHi u200 p1 := ⟨_, rfl⟩
  obtain ⟨t208, ht208⟩ : ∃ x, x = addc .q m207l t204.val false := ⟨_, rfl⟩
  obtain ⟨t209, ht209⟩ : ∃ x, x = addc .q m207h (0#64) t208.cf := ⟨_, rfl⟩
  obtain ⟨t210, ht210⟩ : ∃ x, x = addc .q t170.val t208.val false := ⟨_, rfl⟩
  obtain ⟨t211, ht211⟩ : ∃ x, x = addc .q t209.val (0#64) t210.cf := ⟨_, rfl⟩
  obtain ⟨m214l, hm214l⟩ : ∃ x, x = mulLo u200 p2 := ⟨_, rfl⟩
  obtain ⟨m214h, hm214h⟩ : ∃ x, x = mulHi u200 p2 := ⟨_, rfl⟩
  obtain ⟨t215, ht215⟩ : ∃ x, x = addc .q m214l t211.val false := ⟨_, rfl⟩
  obtain ⟨t216, ht216⟩ : ∃ x, x = addc .q m214h (0#64) t215.cf := ⟨_, rfl⟩
  obtain ⟨t217, ht217⟩ : ∃ x, x = addc .q t177.val t215.val false := ⟨_, rfl⟩
  obtain ⟨t218, ht218⟩ : ∃ x, x = addc .q t216.val (0#64) t217.cf := ⟨_, rfl⟩
  obtain ⟨m221l, hm221l⟩ : ∃ x, x = mulLo u200 p3 := ⟨_, rfl⟩
  obtain ⟨m221h, hm221h⟩ : ∃ x, x = mulHi u200 p3 := ⟨_, rfl⟩
  obtain ⟨t222, ht222⟩ : ∃ x, x = addc .q m221l t218.val false := ⟨_, rfl⟩
  obtain ⟨t223, ht223⟩ : ∃ x, x = addc .q m221h (0#64) t222.cf := ⟨_, rfl⟩
  obtain ⟨t224, ht224⟩ : ∃ x, x = addc .q t184.val t222.val false := ⟨_, rfl⟩
  obtain ⟨t225, ht225⟩ : ∃ x, x = addc .q t223.val (0#64) t224.cf := ⟨_, rfl⟩
  obtain ⟨m228l, hm228l⟩ : ∃ x, x = mulLo u200 p4 := ⟨_, rfl⟩
  obtain ⟨m228h, hm228h⟩ : ∃ x, x = mulHi u200 p4 := ⟨_, rfl⟩
  obtain ⟨t229, ht229⟩ : ∃ x, x = addc .q m228l t225.val false := ⟨_, rfl⟩
  obtain ⟨t230, ht230⟩ : ∃ x, x = addc .q m228h (0#64) t229.cf := ⟨_, rfl⟩
  obtain ⟨t231, ht231⟩ : ∃ x, x = addc .q t191.val t229.val false := ⟨_, rfl⟩
  obtain ⟨t232, ht232⟩ : ∃ x, x = addc .q t230.val (0#64) t231.cf := ⟨_, rfl⟩
  obtain ⟨m235l, hm235l⟩ : ∃ x, x = mulLo u200 p5 := ⟨_, rfl⟩
  obtain ⟨m235h, hm235h⟩ : ∃ x, x = mulHi u200 p5 := ⟨_, rfl⟩
  obtain ⟨t236, ht236⟩ : ∃ x, x = addc .q m235l t232.val false := ⟨_, rfl⟩
  obtain ⟨t237, ht237⟩ : ∃ x, x = addc .q m235h (0#64) t236.cf := ⟨_, rfl⟩
  obtain ⟨t238, ht238⟩ : ∃ x, x = addc .q t197.val t236.val false := ⟨_, rfl⟩
  obtain ⟨t239, ht239⟩ : ∃ x, x = addc .q t237.val (0#64) t238.cf := ⟨_, rfl⟩
  obtain ⟨t240, ht240⟩ : ∃ x, x = addc .q t239.val t198.val false := ⟨_, rfl⟩
  obtain ⟨t242, ht242⟩ : ∃ x, x = addc .q (0#64) (0#64) t240.cf := ⟨_, rfl⟩
  obtain ⟨t244, ht244⟩ : ∃ x, x = addc .q x10 t240.val false := ⟨_, rfl⟩
  obtain ⟨t245, ht245⟩ : ∃ x, x = addc .q t242.val (0#64) t244.cf := ⟨_, rfl⟩
  obtain ⟨u247, hu247⟩ : ∃ x, x = inv * t210.val := ⟨_, rfl⟩
  obtain ⟨m249l, hm249l⟩ : ∃ x, x = mulLo u247 p0 := ⟨_, rfl⟩
  obtain ⟨m249h, hm249h⟩ : ∃ x, x = mulHi u247 p0 := ⟨_, rfl⟩
  obtain ⟨t250, ht250⟩ : ∃ x, x = addc .q t210.val m249l false := ⟨_, rfl⟩
  obtain ⟨t251, ht251⟩ : ∃ x, x = addc .q m249h (0#64) t250.cf := ⟨_, rfl⟩
  obtain ⟨m254l, hm254l⟩ : ∃ x, x = mulLo u247 p1 := ⟨_, rfl⟩
  obtain ⟨m254h, hm254h⟩ : ∃ x, x = mulHi u247 p1 := ⟨_, rfl⟩
  obtain ⟨t255, ht255⟩ : ∃ x, x = addc .q m254l t251.val false := ⟨_, rfl⟩
  obtain ⟨t256, ht256⟩ : ∃ x, x = addc .q m254h (0#64) t255.cf := ⟨_, rfl⟩
  obtain ⟨t257, ht257⟩ : ∃ x, x = addc .q t217.val t255.val false := ⟨_, rfl⟩
  obtain ⟨t258, ht258⟩ : ∃ x, x = addc .q t256.val (0#64) t257.cf := ⟨_, rfl⟩
  obtain ⟨m261l, hm261l⟩ : ∃ x, x = mulLo u247 p2 := ⟨_, rfl⟩
  obtain ⟨m261h, hm261h⟩ : ∃ x, x = mulHi u247 p2 := ⟨_, rfl⟩
  obtain ⟨t262, ht262⟩ : ∃ x, x = addc .q m261l t258.val false := ⟨_, rfl⟩
  obtain ⟨t263, ht263⟩ : ∃ x, x = addc .q m261h (0#64) t262.cf := ⟨_, rfl⟩
  obtain ⟨t264, ht264⟩ : ∃ x, x = addc .q t224.val t262.val false := ⟨_, rfl⟩
  obtain ⟨t265, ht265⟩ : ∃ x, x = addc .q t263.val (0#64) t264.cf := ⟨_, rfl⟩
  obtain ⟨m268l, hm268l⟩ : ∃ x, x = mulLo u247 p3 := ⟨_, rfl⟩
  obtain ⟨m268h, hm268h⟩ : ∃ x, x = mulHi u247 p3 := ⟨_, rfl⟩
  obtain ⟨t269, ht269⟩ : ∃ x, x = addc .q m268l t265.val false := ⟨_, rfl⟩
  obtain ⟨t270, ht270⟩ : ∃ x, x = addc .q m268h (0#64) t269.cf := ⟨_, rfl⟩
  obtain ⟨t271, ht271⟩ : ∃ x, x = addc .q t231.val t269.val false := ⟨_, rfl⟩
  obtain ⟨t272, ht272⟩ : ∃ x, x = addc .q t270.val (0#64) t271.cf := ⟨_, rfl⟩
  obtain ⟨m275l, hm275l⟩ : ∃ x, x = mulLo u247 p4 := ⟨_, rfl⟩
  obtain ⟨m275h, hm275h⟩ : ∃ x, x = mulHi u247 p4 := ⟨_, rfl⟩
  obtain ⟨t276, ht276⟩ : ∃ x, x = addc .q m275l t272.val false := ⟨_, rfl⟩
  obtain ⟨t277, ht277⟩ : ∃ x, x = addc .q m275h (0#64) t276.cf := ⟨_, rfl⟩
  obtain ⟨t278, ht278⟩ : ∃ x, x = addc .q t238.val t276.val false := ⟨_, rfl⟩
  obtain ⟨t279, ht279⟩ : ∃ x, x = addc .q t277.val (0#64) t278.cf := ⟨_, rfl⟩
  obtain ⟨m282l, hm282l⟩ : ∃ x, x = mulLo u247 p5 := ⟨_, rfl⟩
  obtain ⟨m282h, hm282h⟩ : ∃ x, x = mulHi u247 p5 := ⟨_, rfl⟩
  obtain ⟨t283, ht283⟩ : ∃ x, x = addc .q m282l t279.val false := ⟨_, rfl⟩
  obtain ⟨t284, ht284⟩ : ∃ x, x = addc .q m282h (0#64) t283.cf := ⟨_, rfl⟩
  obtain ⟨t285, ht285⟩ : ∃ x, x = addc .q t244.val t283.val false := ⟨_, rfl⟩
  obtain ⟨t286, ht286⟩ : ∃ x, x = addc .q t284.val (0#64) t285.cf := ⟨_, rfl⟩
  obtain ⟨t287, ht287⟩ : ∃ x, x = addc .q t286.val t245.val false := ⟨_, rfl⟩
  obtain ⟨t288, ht288⟩ : ∃ x, x = addc .q t287.val x11 false := ⟨_, rfl⟩
  obtain ⟨t290, ht290⟩ : ∃ x, x = subb .q t288.val p5 false := ⟨_, rfl⟩
  obtain ⟨t293, ht293⟩ : ∃ x, x = subb .q t257.val p0 false := ⟨_, rfl⟩
  obtain ⟨t295, ht295⟩ : ∃ x, x = subb .q t264.val p1 t293.cf := ⟨_, rfl⟩
  obtain ⟨t297, ht297⟩ : ∃ x, x = subb .q t271.val p2 t295.cf := ⟨_, rfl⟩
  obtain ⟨t299, ht299⟩ : ∃ x, x = subb .q t278.val p3 t297.cf := ⟨_, rfl⟩
  obtain ⟨t301, ht301⟩ : ∃ x, x = subb .q t285.val p4 t299.cf := ⟨_, rfl⟩
  obtain ⟨t303, ht303⟩ : ∃ x, x = subb .q t288.val p5 t301.cf := ⟨_, rfl⟩
  obtain ⟨t313, ht313⟩ : ∃ x, x = subb .q t257.val p0 false := ⟨_, rfl⟩
  obtain ⟨t315, ht315⟩ : ∃ x, x = subb .q t264.val p1 t313.cf := ⟨_, rfl⟩
  obtain ⟨t317, ht317⟩ : ∃ x, x = subb .q t271.val p2 t315.cf := ⟨_, rfl⟩
  obtain ⟨t319, ht319⟩ : ∃ x, x = subb .q t278.val p3 t317.cf := ⟨_, rfl⟩
  obtain ⟨t321, ht321⟩ : ∃ x, x = subb .q t285.val p4 t319.cf := ⟨_, rfl⟩
  obtain ⟨t323, ht323⟩ : ∃ x, x = subb .q t288.val p5 t321.cf := ⟨_, rfl⟩
  have r0 := mont_raw_spec hinv hu15 hm17l hm17h ht18 ht19 hm22l hm22h ht23 ht24 ht25 ht26 hm29l hm29h ht30 ht31 ht32 ht33 hm36l hm36h ht37 ht38 ht39 ht40 hm43l hm43h ht44 ht45 ht46 ht47 hm50l hm50h ht51 ht52 ht53 ht54
  have k0 := mont_top_first ht56 ht57
  have r1 := mont_raw_spec hinv hu59 hm61l hm61h ht62 ht63 hm66l hm66h ht67 ht68 ht69 ht70 hm73l hm73h ht74 ht75 ht76 ht77 hm80l hm80h ht81 ht82 ht83 ht84 hm87l hm87h ht88 ht89 ht90 ht91 hm94l hm94h ht95 ht96 ht97 ht98
  have k1 := mont_top_mid ht99 ht101 ht103 ht104
  have r2 := mont_raw_spec hinv hu106 hm108l hm108h ht109 ht110 hm113l hm113h ht114 ht115 ht116 ht117 hm120l hm120h ht121 ht122 ht123 ht124 hm127l hm127h ht128 ht129 ht130 ht131 hm134l hm134h ht135 ht136 ht137 ht138 hm141l hm141h ht142 ht143 ht144 ht145
  have k2 := mont_top_mid ht146 ht148 ht150 ht151
  have r3 := mont_raw_spec hinv hu153 hm155l hm155h ht156 ht157 hm160l hm160h ht161 ht162 ht163 ht164 hm167l hm167h ht168 ht169 ht170 ht171 hm174l hm174h ht175 ht176 ht177 ht178 hm181l hm181h ht182 ht183 ht184 ht185 hm188l hm188h ht189 ht190 ht191 ht192
  have k3 := mont_top_mid ht193 ht195 ht197 ht198
  have r4 := mont_raw_spec hinv hu200 hm202l hm202h ht203 ht204 hm207l hm207h ht208 ht209 ht210 ht211 hm214l hm214h ht215 ht216 ht217 ht218 hm221l hm221h ht222 ht223 ht224 ht225 hm228l hm228h ht229 ht230 ht231 ht232 hm235l hm235h ht236 ht237 ht238 ht239
  have k4 := mont_top_mid ht240 ht242 ht244 ht245
  have r5 := mont_raw_spec hinv hu247 hm249l hm249h ht250 ht251 hm254l hm254h ht255 ht256 ht257 ht258 hm261l hm261h ht262 ht263 ht264 ht265 hm268l hm268h ht269 ht270 ht271 ht272 hm275l hm275h ht276 ht277 ht278 ht279 hm282l hm282h ht283 ht284 ht285 ht286
  have k5 := mont_top_last ht287 ht288
  have tot : 2 ^ 384 * (val (2 ^ 64) [t257.val.toNat, t264.val.toNat, t271.val.toNat, t278.val.toNat, t285.val.toNat, t288.val.toNat] + 2 ^ 384 * (t287.cf.toNat + t288.cf.toNat))
      = val (2 ^ 64) [x0.toNat, x1.toNat, x2.toNat, x3.toNat, x4.toNat, x5.toNat, x6.toNat, x7.toNat, x8.toNat, x9.toNat, x10.toNat, x11.toNat] + val (2 ^ 64) [u15.toNat, u59.toNat, u106.toNat, u153.toNat, u200.toNat, u247.toNat] * val (2 ^ 64) [p0.toNat, p1.toNat, p2.toNat, p3.toNat, p4.toNat, p5.toNat] := by
    simp only [val_cons, val_nil] at r0 r1 r2 r3 r4 r5 ⊢
    linear_combination r0 + 2 ^ 64 * r1 + 2 ^ 128 * r2 + 2 ^ 192 * r3 + 2 ^ 256 * r4 + 2 ^ 320 * r5 + 2 ^ 384 * k0 + 2 ^ 448 * k1 + 2 ^ 512 * k2 + 2 ^ 576 * k3 + 2 ^ 640 * k4 + 2 ^ 704 * k5
  obtain ⟨-, hR, hE⟩ := mont_finish tot (val6_lt u15 u59 u106 u153 u200 u247) hT h2P
  clear r0 r1 r2 r3 r4 r5 k0 k1 k2 k3 k4 k5 tot
  obtain ⟨room1, -⟩ := hstk.f1 (by omega)
  obtain ⟨room6, -⟩ := hstk.f6 (by omega)
  have hrs' := Hide.mk hrs
  simp only [OffStack] at hrs'
  cases hlt : t290.cf
  · cases hz : t290.zf
    · -- top word above the top word of P: subtract
      have hq0 := mont_part0 s pr pt pp inv hr ht hp hrp hstk hrs hts hps hst hpc hdi hsi hdx hcx (t18 := t18) (t19 := t19) (t23 := t23) (t24 := t24) (t25 := t25) (t26 := t26) (t30 := t30) (t31 := t31) (t32 := t32) (t33 := t33) (t37 := t37) (t38 := t38) (t39 := t39) (t40 := t40) (t44 := t44) (t45 := t45) (t46 := t46) (t47 := t47) (t51 := t51) (t52 := t52) (t53 := t53) (t54 := t54) (t56 := t56) (t57 := t57) (p0 := p0) (p1 := p1) (p2 := p2) (p3 := p3) (p4 := p4) (p5 := p5) (x0 := x0) (x1 := x1) (x2 := x2) (x3 := x3) (x4 := x4) (x5 := x5) (x6 := x6) (u15 := u15) (m17h := m17h) (m17l := m17l) (m22h := m22h) (m22l := m22l) (m29h := m29h) (m29l := m29l) (m36h := m36h) (m36l := m36l) (m43h := m43h) (m43l := m43l) (m50h := m50h) (m50l := m50l) hp0 hp1 hp2 hp3 hp4 hp5 hx0 hx1 hx2 hx3 hx4 hx5 hx6 hu15 hm17l hm17h ht18 ht19 hm22l hm22h ht23 ht24 ht25 ht26 hm29l hm29h ht30 ht31 ht32 ht33 hm36l hm36h ht37 ht38 ht39 ht40 hm43l hm43h ht44 ht45 ht46 ht47 hm50l hm50h ht51 ht52 ht53 ht54 ht56 ht57
      have hq1 := mont_part1 s pr pt pp inv hr ht hp hrp hstk hrs hts hps (t25 := t25) (t32 := t32) (t39 := t39) (t46 := t46) (t51 := t51) (t53 := t53) (t54 := t54) (t56 := t56) (t57 := t57) (t62 := t62) (t63 := t63) (t67 := t67) (t68 := t68) (t69 := t69) (t70 := t70) (t74 := t74) (t75 := t75) (t76 := t76) (t77 := t77) (t81 := t81) (t82 := t82) (t83 := t83) (t84 := t84) (t88 := t88) (t89 := t89) (t90 := t90) (t91 := t91) (t95 := t95) (t96 := t96) (t97 := t97) (t98 := t98) (t99 := t99) (t101 := t101) (t103 := t103) (t104 := t104) (p0 := p0) (p1 := p1) (p2 := p2) (p3 := p3) (p4 := p4) (p5 := p5) (x7 := x7) (u15 := u15) (u59 := u59) (m61h := m61h) (m61l := m61l) (m66h := m66h) (m66l := m66l) (m73h := m73h) (m73l := m73l) (m80h := m80h) (m80l := m80l) (m87h := m87h) (m87l := m87l) (m94h := m94h) (m94l := m94l) hp0 hp1 hp2 hp3 hp4 hp5 hx7 hu59 hm61l hm61h ht62 ht63 hm66l hm66h ht67 ht68 ht69 ht70 hm73l hm73h ht74 ht75 ht76 ht77 hm80l hm80h ht81 ht82 ht83 ht84 hm87l hm87h ht88 ht89 ht90 ht91 hm94l hm94h ht95 ht96 ht97 ht98 ht99 ht101 ht103 ht104
      have hq2 := mont_part2 s pr pt pp inv hr ht hp hrp hstk hrs hts hps (t69 := t69) (t76 := t76) (t83 := t83) (t90 := t90) (t95 := t95) (t97 := t97) (t99 := t99) (t103 := t103) (t104 := t104) (t109 := t109) (t110 := t110) (t114 := t114) (t115 := t115) (t116 := t116) (t117 := t117) (t121 := t121) (t122 := t122) (t123 := t123) (t124 := t124) (t128 := t128) (t129 := t129) (t130 := t130) (t131 := t131) (t135 := t135) (t136 := t136) (t137 := t137) (t138 := t138) (t142 := t142) (t143 := t143) (t144 := t144) (t145 := t145) (t146 := t146) (t148 := t148) (t150 := t150) (t151 := t151) (p0 := p0) (p1 := p1) (p2 := p2) (p3 := p3) (p4 := p4) (p5 := p5) (x8 := x8) (u59 := u59) (u106 := u106) (m108h := m108h) (m108l := m108l) (m113h := m113h) (m113l := m113l) (m120h := m120h) (m120l := m120l) (m127h := m127h) (m127l := m127l) (m134h := m134h) (m134l := m134l) (m141h := m141h) (m141l := m141l) hp0 hp1 hp2 hp3 hp4 hp5 hx8 hu106 hm108l hm108h ht109 ht110 hm113l hm113h ht114 ht115 ht116 ht117 hm120l hm120h ht121 ht122 ht123 ht124 hm127l hm127h ht128 ht129 ht130 ht131 hm134l hm134h ht135 ht136 ht137 ht138 hm141l hm141h ht142 ht143 ht144 ht145 ht146 ht148 ht150 ht151
      have hq3 := mont_part3 s pr pt pp inv hr ht hp hrp hstk hrs hts hps (t116 := t116) (t123 := t123) (t130 := t130) (t137 := t137) (t142 := t142) (t144 := t144) (t146 := t146) (t150 := t150) (t151 := t151) (t156 := t156) (t157 := t157) (t161 := t161) (t162 := t162) (t163 := t163) (t164 := t164) (t168 := t168) (t169 := t169) (t170 := t170) (t171 := t171) (t175 := t175) (t176 := t176) (t177 := t177) (t178 := t178) (t182 := t182) (t183 := t183) (t184 := t184) (t185 := t185) (t189 := t189) (t190 := t190) (t191 := t191) (t192 := t192) (t193 := t193) (t195 := t195) (t197 := t197) (t198 := t198) (p0 := p0) (p1 := p1) (p2 := p2) (p3 := p3) (p4 := p4) (p5 := p5) (x9 := x9) (u106 := u106) (u153 := u153) (m155h := m155h) (m155l := m155l) (m160h := m160h) (m160l := m160l) (m167h := m167h) (m167l := m167l) (m174h := m174h) (m174l := m174l) (m181h := m181h) (m181l := m181l) (m188h := m188h) (m188l := m188l) hp0 hp1 hp2 hp3 hp4 hp5 hx9 hu153 hm155l hm155h ht156 ht157 hm160l hm160h ht161 ht162 ht163 ht164 hm167l hm167h ht168 ht169 ht170 ht171 hm174l hm174h ht175 ht176 ht177 ht178 hm181l hm181h ht182 ht183 ht184 ht185 hm188l hm188h ht189 ht190 ht191 ht192 ht193 ht195 ht197 ht198
      have hq4 := mont_part4 s pr pt pp inv hr ht hp hrp hstk hrs hts hps (t163 := t163) (t170 := t170) (t177 := t177) (t184 := t184) (t189 := t189) (t191 := t191) (t193 := t193) (t197 := t197) (t198 := t198) (t203 := t203) (t204 := t204) (t208 := t208) (t209 := t209) (t210 := t210) (t211 := t211) (t215 := t215) (t216 := t216) (t217 := t217) (t218 := t218) (t222 := t222) (t223 := t223) (t224 := t224) (t225 := t225) (t229 := t229) (t230 := t230) (t231 := t231) (t232 := t232) (t236 := t236) (t237 := t237) (t238 := t238) (t239 := t239) (t240 := t240) (t242 := t242) (t244 := t244) (t245 := t245) (p0 := p0) (p1 := p1) (p2 := p2) (p3 := p3) (p4 := p4) (p5 := p5) (x10 := x10) (u153 := u153) (u200 := u200) (m202h := m202h) (m202l := m202l) (m207h := m207h) (m207l := m207l) (m214h := m214h) (m214l := m214l) (m221h := m221h) (m221l := m221l) (m228h := m228h) (m228l := m228l) (m235h := m235h) (m235l := m235l) hp0 hp1 hp2 hp3 hp4 hp5 hx10 hu200 hm202l hm202h ht203 ht204 hm207l hm207h ht208 ht209 ht210 ht211 hm214l hm214h ht215 ht216 ht217 ht218 hm221l hm221h ht222 ht223 ht224 ht225 hm228l hm228h ht229 ht230 ht231 ht232 hm235l hm235h ht236 ht237 ht238 ht239 ht240 ht242 ht244 ht245
      have hq5 := mont_part5 s pr pt pp inv hr ht hp hrp hstk hrs hts hps (t210 := t210) (t217 := t217) (t224 := t224) (t231 := t231) (t236 := t236) (t238 := t238) (t240 := t240) (t244 := t244) (t245 := t245) (t250 := t250) (t251 := t251) (t255 := t255) (t256 := t256) (t257 := t257) (t258 := t258) (t262 := t262) (t263 := t263) (t264 := t264) (t265 := t265) (t269 := t269) (t270 := t270) (t271 := t271) (t272 := t272) (t276 := t276) (t277 := t277) (t278 := t278) (t279 := t279) (t283 := t283) (t284 := t284) (t285 := t285) (t286 := t286) (t287 := t287) (t288 := t288) (p0 := p0) (p1 := p1) (p2 := p2) (p3 := p3) (p4 := p4) (p5 := p5) (x11 := x11) (u200 := u200) (u247 := u247) (m249h := m249h) (m249l := m249l) (m254h := m254h) (m254l := m254l) (m261h := m261h) (m261l := m261l) (m268h := m268h) (m268l := m268l) (m275h := m275h) (m275l := m275l) (m282h := m282h) (m282l := m282l) hp0 hp1 hp2 hp3 hp4 hp5 hx11 hu247 hm249l hm249h ht250 ht251 hm254l hm254h ht255 ht256 ht257 ht258 hm261l hm261h ht262 ht263 ht264 ht265 hm268l hm268h ht269 ht270 ht271 ht272 hm275l hm275h ht276 ht277 ht278 ht279 hm282l hm282h ht283 ht284 ht285 ht286 ht287 ht288
      have hq6 := mont_tail_gt s pr pt pp inv hr ht hp hrp hstk hrs hts hps (t245 := t245) (t257 := t257) (t264 := t264) (t271 := t271) (t278 := t278) (t283 := t283) (t285 := t285) (t288 := t288) (t293 := t293) (t295 := t295) (t297 := t297) (t299 := t299) (t301 := t301) (t303 := t303) (p0 := p0) (p1 := p1) (p2 := p2) (p3 := p3) (p4 := p4) (p5 := p5) (u247 := u247) hp0 hp1 hp2 hp3 hp4 hp5 ht290 ht293 ht295 ht297 ht299 ht301 ht303 hlt hz
      have hall : run embedded_pairing_core_arch_x86_64_fpbase_384_montgomery_reduce s 312 = _ := show run embedded_pairing_core_arch_x86_64_fpbase_384_montgomery_reduce s (58 + (47 + (47 + (47 + (47 + (44 + (22))))))) = _ from run_chain hq0 (run_chain hq1 (run_chain hq2 (run_chain hq3 (run_chain hq4 (run_chain hq5 (hq6))))))
      refine ⟨_, run_fuel hall rfl 338 (by omega), ?_⟩
      clear hq0 hq1 hq2 hq3 hq4 hq5 hq6 hall
      refine ⟨⟨rfl, ?_, ?_, ?_, ?_, ?_, ?_, ?_, ?_⟩, and_assoc.mp ⟨?_, ?_⟩⟩
      · rfl
      · rfl
      · rfl
      · rfl
      · rfl
      · rfl
      · rfl
      · rfl
      · x86_mem
        obtain ⟨loR, hloR, hRs, hRb⟩ := val6_split t257.val t264.val t271.val t278.val t285.val t288.val
        obtain ⟨loP, hloP, hPs, hPb⟩ := val6_split p0 p1 p2 p3 p4 p5
        have hlt' := subb_cf_iff t288.val p5; rw [← ht290] at hlt'
        have hz' := subb_zf_iff t288.val p5; rw [← ht290] at hz'
        have hD := sub6_val ht293 ht295 ht297 ht299 ht301 ht303
        obtain ⟨loD, hloD, hDs, hDb⟩ := val6_split t293.val t295.val t297.val t299.val t301.val t303.val
        have := Bool.toNat_le t303.cf
        simp only [hlt, hz, Bool.toNat_true, Bool.toNat_false, Bool.false_eq_true, false_iff, true_iff, Nat.not_lt, Nat.add_zero] at hlt' hz' hD
        refine mont_result hR hE (Or.inr ?_)
        omega
      · intro k hk1 hk2
        simp (disch := (clear * - hk1 hk2 room1 room6; omega)) only [setMem_ne]
    · cases hbw : t323.cf
      · -- tie, the subtraction does not borrow: the difference
        have hq0 := mont_part0 s pr pt pp inv hr ht hp hrp hstk hrs hts hps hst hpc hdi hsi hdx hcx (t18 := t18) (t19 := t19) (t23 := t23) (t24 := t24) (t25 := t25) (t26 := t26) (t30 := t30) (t31 := t31) (t32 := t32) (t33 := t33) (t37 := t37) (t38 := t38) (t39 := t39) (t40 := t40) (t44 := t44) (t45 := t45) (t46 := t46) (t47 := t47) (t51 := t51) (t52 := t52) (t53 := t53) (t54 := t54) (t56 := t56) (t57 := t57) (p0 := p0) (p1 := p1) (p2 := p2) (p3 := p3) (p4 := p4) (p5 := p5) (x0 := x0) (x1 := x1) (x2 := x2) (x3 := x3) (x4 := x4) (x5 := x5) (x6 := x6) (u15 := u15) (m17h := m17h) (m17l := m17l) (m22h := m22h) (m22l := m22l) (m29h := m29h) (m29l := m29l) (m36h := m36h) (m36l := m36l) (m43h := m43h) (m43l := m43l) (m50h := m50h) (m50l := m50l) hp0 hp1 hp2 hp3 hp4 hp5 hx0 hx1 hx2 hx3 hx4 hx5 hx6 hu15 hm17l hm17h ht18 ht19 hm22l hm22h ht23 ht24 ht25 ht26 hm29l hm29h ht30 ht31 ht32 ht33 hm36l hm36h ht37 ht38 ht39 ht40 hm43l hm43h ht44 ht45 ht46 ht47 hm50l hm50h ht51 ht52 ht53 ht54 ht56 ht57
        have hq1 := mont_part1 s pr pt pp inv hr ht hp hrp hstk hrs hts hps (t25 := t25) (t32 := t32) (t39 := t39) (t46 := t46) (t51 := t51) (t53 := t53) (t54 := t54) (t56 := t56) (t57 := t57) (t62 := t62) (t63 := t63) (t67 := t67) (t68 := t68) (t69 := t69) (t70 := t70) (t74 := t74) (t75 := t75) (t76 := t76) (t77 := t77) (t81 := t81) (t82 := t82) (t83 := t83) (t84 := t84) (t88 := t88) (t89 := t89) (t90 := t90) (t91 := t91) (t95 := t95) (t96 := t96) (t97 := t97) (t98 := t98) (t99 := t99) (t101 := t101) (t103 := t103) (t104 := t104) (p0 := p0) (p1 := p1) (p2 := p2) (p3 := p3) (p4 := p4) (p5 := p5) (x7 := x7) (u15 := u15) (u59 := u59) (m61h := m61h) (m61l := m61l) (m66h := m66h) (m66l := m66l) (m73h := m73h) (m73l := m73l) (m80h := m80h) (m80l := m80l) (m87h := m87h) (m87l := m87l) (m94h := m94h) (m94l := m94l) hp0 hp1 hp2 hp3 hp4 hp5 hx7 hu59 hm61l hm61h ht62 ht63 hm66l hm66h ht67 ht68 ht69 ht70 hm73l hm73h ht74 ht75 ht76 ht77 hm80l hm80h ht81 ht82 ht83 ht84 hm87l hm87h ht88 ht89 ht90 ht91 hm94l hm94h ht95 ht96 ht97 ht98 ht99 ht101 ht103 ht104
        have hq2 := mont_part2 s pr pt pp inv hr ht hp hrp hstk hrs hts hps (t69 := t69) (t76 := t76) (t83 := t83) (t90 := t90) (t95 := t95) (t97 := t97) (t99 := t99) (t103 := t103) (t104 := t104) (t109 := t109) (t110 := t110) (t114 := t114) (t115 := t115) (t116 := t116) (t117 := t117) (t121 := t121) (t122 := t122) (t123 := t123) (t124 := t124) (t128 := t128) (t129 := t129) (t130 := t130) (t131 := t131) (t135 := t135) (t136 := t136) (t137 := t137) (t138 := t138) (t142 := t142) (t143 := t143) (t144 := t144) (t145 := t145) (t146 := t146) (t148 := t148) (t150 := t150) (t151 := t151) (p0 := p0) (p1 := p1) (p2 := p2) (p3 := p3) (p4 := p4) (p5 := p5) (x8 := x8) (u59 := u59) (u106 := u106) (m108h := m108h) (m108l := m108l) (m113h := m113h) (m113l := m113l) (m120h := m120h) (m120l := m120l) (m127h := m127h) (m127l := m127l) (m134h := m134h) (m134l := m134l) (m141h := m141h) (m141l := m141l) hp0 hp1 hp2 hp3 hp4 hp5 hx8 hu106 hm108l hm108h ht109 ht110 hm113l hm113h ht114 ht115 ht116 ht117 hm120l hm120h ht121 ht122 ht123 ht124 hm127l hm127h ht128 ht129 ht130 ht131 hm134l hm134h ht135 ht136 ht137 ht138 hm141l hm141h ht142 ht143 ht144 ht145 ht146 ht148 ht150 ht151
        have hq3 := mont_part3 s pr pt pp inv hr ht hp hrp hstk hrs hts hps (t116 := t116) (t123 := t123) (t130 := t130) (t137 := t137) (t142 := t142) (t144 := t144) (t146 := t146) (t150 := t150) (t151 := t151) (t156 := t156) (t157 := t157) (t161 := t161) (t162 := t162) (t163 := t163) (t164 := t164) (t168 := t168) (t169 := t169) (t170 := t170) (t171 := t171) (t175 := t175) (t176 := t176) (t177 := t177) (t178 := t178) (t182 := t182) (t183 := t183) (t184 := t184) (t185 := t185) (t189 := t189) (t190 := t190) (t191 := t191) (t192 := t192) (t193 := t193) (t195 := t195) (t197 := t197) (t198 := t198) (p0 := p0) (p1 := p1) (p2 := p2) (p3 := p3) (p4 := p4) (p5 := p5) (x9 := x9) (u106 := u106) (u153 := u153) (m155h := m155h) (m155l := m155l) (m160h := m160h) (m160l := m160l) (m167h := m167h) (m167l := m167l) (m174h := m174h) (m174l := m174l) (m181h := m181h) (m181l := m181l) (m188h := m188h) (m188l := m188l) hp0 hp1 hp2 hp3 hp4 hp5 hx9 hu153 hm155l hm155h ht156 ht157 hm160l hm160h ht161 ht162 ht163 ht164 hm167l hm167h ht168 ht169 ht170 ht171 hm174l hm174h ht175 ht176 ht177 ht178 hm181l hm181h ht182 ht183 ht184 ht185 hm188l hm188h ht189 ht190 ht191 ht192 ht193 ht195 ht197 ht198
        have hq4 := mont_part4 s pr pt pp inv hr ht hp hrp hstk hrs hts hps (t163 := t163) (t170 := t170) (t177 := t177) (t184 := t184) (t189 := t189) (t191 := t191) (t193 := t193) (t197 := t197) (t198 := t198) (t203 := t203) (t204 := t204) (t208 := t208) (t209 := t209) (t210 := t210) (t211 := t211) (t215 := t215) (t216 := t216) (t217 := t217) (t218 := t218) (t222 := t222) (t223 := t223) (t224 := t224) (t225 := t225) (t229 := t229) (t230 := t230) (t231 := t231) (t232 := t232) (t236 := t236) (t237 := t237) (t238 := t238) (t239 := t239) (t240 := t240) (t242 := t242) (t244 := t244) (t245 := t245) (p0 := p0) (p1 := p1) (p2 := p2) (p3 := p3) (p4 := p4) (p5 := p5) (x10 := x10) (u153 := u153) (u200 := u200) (m202h := m202h) (m202l := m202l) (m207h := m207h) (m207l := m207l) (m214h := m214h) (m214l := m214l) (m221h := m221h) (m221l := m221l) (m228h := m228h) (m228l := m228l) (m235h := m235h) (m235l := m235l) hp0 hp1 hp2 hp3 hp4 hp5 hx10 hu200 hm202l hm202h ht203 ht204 hm207l hm207h ht208 ht209 ht210 ht211 hm214l hm214h ht215 ht216 ht217 ht218 hm221l hm221h ht222 ht223 ht224 ht225 hm228l hm228h ht229 ht230 ht231 ht232 hm235l hm235h ht236 ht237 ht238 ht239 ht240 ht242 ht244 ht245
        have hq5 := mont_part5 s pr pt pp inv hr ht hp hrp hstk hrs hts hps (t210 := t210) (t217 := t217) (t224 := t224) (t231 := t231) (t236 := t236) (t238 := t238) (t240 := t240) (t244 := t244) (t245 := t245) (t250 := t250) (t251 := t251) (t255 := t255) (t256 := t256) (t257 := t257) (t258 := t258) (t262 := t262) (t263 := t263) (t264 := t264) (t265 := t265) (t269 := t269) (t270 := t270) (t271 := t271) (t272 := t272) (t276 := t276) (t277 := t277) (t278 := t278) (t279 := t279) (t283 := t283) (t284 := t284) (t285 := t285) (t286 := t286) (t287 := t287) (t288 := t288) (p0 := p0) (p1 := p1) (p2 := p2) (p3 := p3) (p4 := p4) (p5 := p5) (x11 := x11) (u200 := u200) (u247 := u247) (m249h := m249h) (m249l := m249l) (m254h := m254h) (m254l := m254l) (m261h := m261h) (m261l := m261l) (m268h := m268h) (m268l := m268l) (m275h := m275h) (m275l := m275l) (m282h := m282h) (m282l := m282l) hp0 hp1 hp2 hp3 hp4 hp5 hx11 hu247 hm249l hm249h ht250 ht251 hm254l hm254h ht255 ht256 ht257 ht258 hm261l hm261h ht262 ht263 ht264 ht265 hm268l hm268h ht269 ht270 ht271 ht272 hm275l hm275h ht276 ht277 ht278 ht279 hm282l hm282h ht283 ht284 ht285 ht286 ht287 ht288
        have hq6 := mont_tail_eqn s pr pt pp inv hr ht hp hrp hstk hrs hts hps (t245 := t245) (t257 := t257) (t264 := t264) (t271 := t271) (t278 := t278) (t283 := t283) (t285 := t285) (t288 := t288) (t313 := t313) (t315 := t315) (t317 := t317) (t319 := t319) (t321 := t321) (t323 := t323) (p0 := p0) (p1 := p1) (p2 := p2) (p3 := p3) (p4 := p4) (p5 := p5) (u247 := u247) hp0 hp1 hp2 hp3 hp4 hp5 ht290 ht313 ht315 ht317 ht319 ht321 ht323 hlt hz hbw
        have hall : run embedded_pairing_core_arch_x86_64_fpbase_384_montgomery_reduce s 319 = _ := show run embedded_pairing_core_arch_x86_64_fpbase_384_montgomery_reduce s (58 + (47 + (47 + (47 + (47 + (44 + (29))))))) = _ from run_chain hq0 (run_chain hq1 (run_chain hq2 (run_chain hq3 (run_chain hq4 (run_chain hq5 (hq6))))))
        refine ⟨_, run_fuel hall rfl 338 (by omega), ?_⟩
        clear hq0 hq1 hq2 hq3 hq4 hq5 hq6 hall
        refine ⟨⟨rfl, ?_, ?_, ?_, ?_, ?_, ?_, ?_, ?_⟩, and_assoc.mp ⟨?_, ?_⟩⟩
        · rfl
        · rfl
        · rfl
        · rfl
        · rfl
        · rfl
        · rfl
        · rfl
        · x86_mem
          obtain ⟨loR, hloR, hRs, hRb⟩ := val6_split t257.val t264.val t271.val t278.val t285.val t288.val
          obtain ⟨loP, hloP, hPs, hPb⟩ := val6_split p0 p1 p2 p3 p4 p5
          have hlt' := subb_cf_iff t288.val p5; rw [← ht290] at hlt'
          have hz' := subb_zf_iff t288.val p5; rw [← ht290] at hz'
          have hD := sub6_val ht313 ht315 ht317 ht319 ht321 ht323
          obtain ⟨loD, hloD, hDs, hDb⟩ := val6_split t313.val t315.val t317.val t319.val t321.val t323.val
          have := Bool.toNat_le t323.cf
          simp only [hlt, hz, hbw, Bool.toNat_true, Bool.toNat_false, Bool.false_eq_true, false_iff, true_iff, Nat.not_lt, Nat.add_zero] at hlt' hz' hD
          refine mont_result hR hE (Or.inr ?_)
          omega
        · intro k hk1 hk2
          simp (disch := (clear * - hk1 hk2 room1 room6; omega)) only [setMem_ne]
      · -- tie, the subtraction borrows: the stored window stays
        have hq0 := mont_part0 s pr pt pp inv hr ht hp hrp hstk hrs hts hps hst hpc hdi hsi hdx hcx (t18 := t18) (t19 := t19) (t23 := t23) (t24 := t24) (t25 := t25) (t26 := t26) (t30 := t30) (t31 := t31) (t32 := t32) (t33 := t33) (t37 := t37) (t38 := t38) (t39 := t39) (t40 := t40) (t44 := t44) (t45 := t45) (t46 := t46) (t47 := t47) (t51 := t51) (t52 := t52) (t53 := t53) (t54 := t54) (t56 := t56) (t57 := t57) (p0 := p0) (p1 := p1) (p2 := p2) (p3 := p3) (p4 := p4) (p5 := p5) (x0 := x0) (x1 := x1) (x2 := x2) (x3 := x3) (x4 := x4) (x5 := x5) (x6 := x6) (u15 := u15) (m17h := m17h) (m17l := m17l) (m22h := m22h) (m22l := m22l) (m29h := m29h) (m29l := m29l) (m36h := m36h) (m36l := m36l) (m43h := m43h) (m43l := m43l) (m50h := m50h) (m50l := m50l) hp0 hp1 hp2 hp3 hp4 hp5 hx0 hx1 hx2 hx3 hx4 hx5 hx6 hu15 hm17l hm17h ht18 ht19 hm22l hm22h ht23 ht24 ht25 ht26 hm29l hm29h ht30 ht31 ht32 ht33 hm36l hm36h ht37 ht38 ht39 ht40 hm43l hm43h ht44 ht45 ht46 ht47 hm50l hm50h ht51 ht52 ht53 ht54 ht56 ht57
        have hq1 := mont_part1 s pr pt pp inv hr ht hp hrp hstk hrs hts hps (t25 := t25) (t32 := t32) (t39 := t39) (t46 := t46) (t51 := t51) (t53 := t53) (t54 := t54) (t56 := t56) (t57 := t57) (t62 := t62) (t63 := t63) (t67 := t67) (t68 := t68) (t69 := t69) (t70 := t70) (t74 := t74) (t75 := t75) (t76 := t76) (t77 := t77) (t81 := t81) (t82 := t82) (t83 := t83) (t84 := t84) (t88 := t88) (t89 := t89) (t90 := t90) (t91 := t91) (t95 := t95) (t96 := t96) (t97 := t97) (t98 := t98) (t99 := t99) (t101 := t101) (t103 := t103) (t104 := t104) (p0 := p0) (p1 := p1) (p2 := p2) (p3 := p3) (p4 := p4) (p5 := p5) (x7 := x7) (u15 := u15) (u59 := u59) (m61h := m61h) (m61l := m61l) (m66h := m66h) (m66l := m66l) (m73h := m73h) (m73l := m73l) (m80h := m80h) (m80l := m80l) (m87h := m87h) (m87l := m87l) (m94h := m94h) (m94l := m94l) hp0 hp1 hp2 hp3 hp4 hp5 hx7 hu59 hm61l hm61h ht62 ht63 hm66l hm66h ht67 ht68 ht69 ht70 hm73l hm73h ht74 ht75 ht76 ht77 hm80l hm80h ht81 ht82 ht83 ht84 hm87l hm87h ht88 ht89 ht90 ht91 hm94l hm94h ht95 ht96 ht97 ht98 ht99 ht101 ht103 ht104
        have hq2 := mont_part2 s pr pt pp inv hr ht hp hrp hstk hrs hts hps (t69 := t69) (t76 := t76) (t83 := t83) (t90 := t90) (t95 := t95) (t97 := t97) (t99 := t99) (t103 := t103) (t104 := t104) (t109 := t109) (t110 := t110) (t114 := t114) (t115 := t115) (t116 := t116) (t117 := t117) (t121 := t121) (t122 := t122) (t123 := t123) (t124 := t124) (t128 := t128) (t129 := t129) (t130 := t130) (t131 := t131) (t135 := t135) (t136 := t136) (t137 := t137) (t138 := t138) (t142 := t142) (t143 := t143) (t144 := t144) (t145 := t145) (t146 := t146) (t148 := t148) (t150 := t150) (t151 := t151) (p0 := p0) (p1 := p1) (p2 := p2) (p3 := p3) (p4 := p4) (p5 := p5) (x8 := x8) (u59 := u59) (u106 := u106) (m108h := m108h) (m108l := m108l) (m113h := m113h) (m113l := m113l) (m120h := m120h) (m120l := m120l) (m127h := m127h) (m127l := m127l) (m134h := m134h) (m134l := m134l) (m141h := m141h) (m141l := m141l) hp0 hp1 hp2 hp3 hp4 hp5 hx8 hu106 hm108l hm108h ht109 ht110 hm113l hm113h ht114 ht115 ht116 ht117 hm120l hm120h ht121 ht122 ht123 ht124 hm127l hm127h ht128 ht129 ht130 ht131 hm134l hm134h ht135 ht136 ht137 ht138 hm141l hm141h ht142 ht143 ht144 ht145 ht146 ht148 ht150 ht151
        have hq3 := mont_part3 s pr pt pp inv hr ht hp hrp hstk hrs hts hps (t116 := t116) (t123 := t123) (t130 := t130) (t137 := t137) (t142 := t142) (t144 := t144) (t146 := t146) (t150 := t150) (t151 := t151) (t156 := t156) (t157 := t157) (t161 := t161) (t162 := t162) (t163 := t163) (t164 := t164) (t168 := t168) (t169 := t169) (t170 := t170) (t171 := t171) (t175 := t175) (t176 := t176) (t177 := t177) (t178 := t178) (t182 := t182) (t183 := t183) (t184 := t184) (t185 := t185) (t189 := t189) (t190 := t190) (t191 := t191) (t192 := t192) (t193 := t193) (t195 := t195) (t197 := t197) (t198 := t198) (p0 := p0) (p1 := p1) (p2 := p2) (p3 := p3) (p4 := p4) (p5 := p5) (x9 := x9) (u106 := u106) (u153 := u153) (m155h := m155h) (m155l := m155l) (m160h := m160h) (m160l := m160l) (m167h := m167h) (m167l := m167l) (m174h := m174h) (m174l := m174l) (m181h := m181h) (m181l := m181l) (m188h := m188h) (m188l := m188l) hp0 hp1 hp2 hp3 hp4 hp5 hx9 hu153 hm155l hm155h ht156 ht157 hm160l hm160h ht161 ht162 ht163 ht164 hm167l hm167h ht168 ht169 ht170 ht171 hm174l hm174h ht175 ht176 ht177 ht178 hm181l hm181h ht182 ht183 ht184 ht185 hm188l hm188h ht189 ht190 ht191 ht192 ht193 ht195 ht197 ht198
        have hq4 := mont_part4 s pr pt pp inv hr ht hp hrp hstk hrs hts hps (t163 := t163) (t170 := t170) (t177 := t177) (t184 := t184) (t189 := t189) (t191 := t191) (t193 := t193) (t197 := t197) (t198 := t198) (t203 := t203) (t204 := t204) (t208 := t208) (t209 := t209) (t210 := t210) (t211 := t211) (t215 := t215) (t216 := t216) (t217 := t217) (t218 := t218) (t222 := t222) (t223 := t223) (t224 := t224) (t225 := t225) (t229 := t229) (t230 := t230) (t231 := t231) (t232 := t232) (t236 := t236) (t237 := t237) (t238 := t238) (t239 := t239) (t240 := t240) (t242 := t242) (t244 := t244) (t245 := t245) (p0 := p0) (p1 := p1) (p2 := p2) (p3 := p3) (p4 := p4) (p5 := p5) (x10 := x10) (u153 := u153) (u200 := u200) (m202h := m202h) (m202l := m202l) (m207h := m207h) (m207l := m207l) (m214h := m214h) (m214l := m214l) (m221h := m221h) (m221l := m221l) (m228h := m228h) (m228l := m228l) (m235h := m235h) (m235l := m235l) hp0 hp1 hp2 hp3 hp4 hp5 hx10 hu200 hm202l hm202h ht203 ht204 hm207l hm207h ht208 ht209 ht210 ht211 hm214l hm214h ht215 ht216 ht217 ht218 hm221l hm221h ht222 ht223 ht224 ht225 hm228l hm228h ht229 ht230 ht231 ht232 hm235l hm235h ht236 ht237 ht238 ht239 ht240 ht242 ht244 ht245
        have hq5 := mont_part5 s pr pt pp inv hr ht hp hrp hstk hrs hts hps (t210 := t210) (t217 := t217) (t224 := t224) (t231 := t231) (t236 := t236) (t238 := t238) (t240 := t240) (t244 := t244) (t245 := t245) (t250 := t250) (t251 := t251) (t255 := t255) (t256 := t256) (t257 := t257) (t258 := t258) (t262 := t262) (t263 := t263) (t264 := t264) (t265 := t265) (t269 := t269) (t270 := t270) (t271 := t271) (t272 := t272) (t276 := t276) (t277 := t277) (t278 := t278) (t279 := t279) (t283 := t283) (t284 := t284) (t285 := t285) (t286 := t286) (t287 := t287) (t288 := t288) (p0 := p0) (p1 := p1) (p2 := p2) (p3 := p3) (p4 := p4) (p5 := p5) (x11 := x11) (u200 := u200) (u247 := u247) (m249h := m249h) (m249l := m249l) (m254h := m254h) (m254l := m254l) (m261h := m261h) (m261l := m261l) (m268h := m268h) (m268l := m268l) (m275h := m275h) (m275l := m275l) (m282h := m282h) (m282l := m282l) hp0 hp1 hp2 hp3 hp4 hp5 hx11 hu247 hm249l hm249h ht250 ht251 hm254l hm254h ht255 ht256 ht257 ht258 hm261l hm261h ht262 ht263 ht264 ht265 hm268l hm268h ht269 ht270 ht271 ht272 hm275l hm275h ht276 ht277 ht278 ht279 hm282l hm282h ht283 ht284 ht285 ht286 ht287 ht288
        have hq6 := mont_tail_eqb s pr pt pp inv hr ht hp hrp hstk hrs hts hps (t245 := t245) (t257 := t257) (t264 := t264) (t271 := t271) (t278 := t278) (t283 := t283) (t285 := t285) (t288 := t288) (t313 := t313) (t315 := t315) (t317 := t317) (t319 := t319) (t321 := t321) (t323 := t323) (p0 := p0) (p1 := p1) (p2 := p2) (p3 := p3) (p4 := p4) (p5 := p5) (u247 := u247) hp0 hp1 hp2 hp3 hp4 hp5 ht290 ht313 ht315 ht317 ht319 ht321 ht323 hlt hz hbw
        have hall : run embedded_pairing_core_arch_x86_64_fpbase_384_montgomery_reduce s 313 = _ := show run embedded_pairing_core_arch_x86_64_fpbase_384_montgomery_reduce s (58 + (47 + (47 + (47 + (47 + (44 + (23))))))) = _ from run_chain hq0 (run_chain hq1 (run_chain hq2 (run_chain hq3 (run_chain hq4 (run_chain hq5 (hq6))))))
        refine ⟨_, run_fuel hall rfl 338 (by omega), ?_⟩
        clear hq0 hq1 hq2 hq3 hq4 hq5 hq6 hall
        refine ⟨⟨rfl, ?_, ?_, ?_, ?_, ?_, ?_, ?_, ?_⟩, and_assoc.mp ⟨?_, ?_⟩⟩
        · rfl
        · rfl
        · rfl
        · rfl
        · rfl
        · rfl
        · rfl
        · rfl
        · x86_mem
          obtain ⟨loR, hloR, hRs, hRb⟩ := val6_split t257.val t264.val t271.val t278.val t285.val t288.val
          obtain ⟨loP, hloP, hPs, hPb⟩ := val6_split p0 p1 p2 p3 p4 p5
          have hlt' := subb_cf_iff t288.val p5; rw [← ht290] at hlt'
          have hz' := subb_zf_iff t288.val p5; rw [← ht290] at hz'
          have hD := sub6_val ht313 ht315 ht317 ht319 ht321 ht323
          obtain ⟨loD, hloD, hDs, hDb⟩ := val6_split t313.val t315.val t317.val t319.val t321.val t323.val
          have := Bool.toNat_le t323.cf
          simp only [hlt, hz, hbw, Bool.toNat_true, Bool.toNat_false, Bool.false_eq_true, false_iff, true_iff, Nat.not_lt, Nat.add_zero] at hlt' hz' hD
          refine mont_result hR hE (Or.inl ⟨rfl, ?_⟩)
          omega
        · intro k hk1 hk2
          simp (disch := (clear * - hk1 hk2 room1 room6; omega)) only [setMem_ne]
  · -- top word below the top word of P: copy
    have hq0 := mont_part0 s pr pt pp inv hr ht hp hrp hstk hrs hts hps hst hpc hdi hsi hdx hcx (t18 := t18) (t19 := t19) (t23 := t23) (t24 := t24) (t25 := t25) (t26 := t26) (t30 := t30) (t31 := t31) (t32 := t32) (t33 := t33) (t37 := t37) (t38 := t38) (t39 := t39) (t40 := t40) (t44 := t44) (t45 := t45) (t46 := t46) (t47 := t47) (t51 := t51) (t52 := t52) (t53 := t53) (t54 := t54) (t56 := t56) (t57 := t57) (p0 := p0) (p1 := p1) (p2 := p2) (p3 := p3) (p4 := p4) (p5 := p5) (x0 := x0) (x1 := x1) (x2 := x2) (x3 := x3) (x4 := x4) (x5 := x5) (x6 := x6) (u15 := u15) (m17h := m17h) (m17l := m17l) (m22h := m22h) (m22l := m22l) (m29h := m29h) (m29l := m29l) (m36h := m36h) (m36l := m36l) (m43h := m43h) (m43l := m43l) (m50h := m50h) (m50l := m50l) hp0 hp1 hp2 hp3 hp4 hp5 hx0 hx1 hx2 hx3 hx4 hx5 hx6 hu15 hm17l hm17h ht18 ht19 hm22l hm22h ht23 ht24 ht25 ht26 hm29l hm29h ht30 ht31 ht32 ht33 hm36l hm36h ht37 ht38 ht39 ht40 hm43l hm43h ht44 ht45 ht46 ht47 hm50l hm50h ht51 ht52 ht53 ht54 ht56 ht57
    have hq1 := mont_part1 s pr pt pp inv hr ht hp hrp hstk hrs hts hps (t25 := t25) (t32 := t32) (t39 := t39) (t46 := t46) (t51 := t51) (t53 := t53) (t54 := t54) (t56 := t56) (t57 := t57) (t62 := t62) (t63 := t63) (t67 := t67) (t68 := t68) (t69 := t69) (t70 := t70) (t74 := t74) (t75 := t75) (t76 := t76) (t77 := t77) (t81 := t81) (t82 := t82) (t83 := t83) (t84 := t84) (t88 := t88) (t89 := t89) (t90 := t90) (t91 := t91) (t95 := t95) (t96 := t96) (t97 := t97) (t98 := t98) (t99 := t99) (t101 := t101) (t103 := t103) (t104 := t104) (p0 := p0) (p1 := p1) (p2 := p2) (p3 := p3) (p4 := p4) (p5 := p5) (x7 := x7) (u15 := u15) (u59 := u59) (m61h := m61h) (m61l := m61l) (m66h := m66h) (m66l := m66l) (m73h := m73h) (m73l := m73l) (m80h := m80h) (m80l := m80l) (m87h := m87h) (m87l := m87l) (m94h := m94h) (m94l := m94l) hp0 hp1 hp2 hp3 hp4 hp5 hx7 hu59 hm61l hm61h ht62 ht63 hm66l hm66h ht67 ht68 ht69 ht70 hm73l hm73h ht74 ht75 ht76 ht77 hm80l hm80h ht81 ht82 ht83 ht84 hm87l hm87h ht88 ht89 ht90 ht91 hm94l hm94h ht95 ht96 ht97 ht98 ht99 ht101 ht103 ht104
    have hq2 := mont_part2 s pr pt pp inv hr ht hp hrp hstk hrs hts hps (t69 := t69) (t76 := t76) (t83 := t83) (t90 := t90) (t95 := t95) (t97 := t97) (t99 := t99) (t103 := t103) (t104 := t104) (t109 := t109) (t110 := t110) (t114 := t114) (t115 := t115) (t116 := t116) (t117 := t117) (t121 := t121) (t122 := t122) (t123 := t123) (t124 := t124) (t128 := t128) (t129 := t129) (t130 := t130) (t131 := t131) (t135 := t135) (t136 := t136) (t137 := t137) (t138 := t138) (t142 := t142) (t143 := t143) (t144 := t144) (t145 := t145) (t146 := t146) (t148 := t148) (t150 := t150) (t151 := t151) (p0 := p0) (p1 := p1) (p2 := p2) (p3 := p3) (p4 := p4) (p5 := p5) (x8 := x8) (u59 := u59) (u106 := u106) (m108h := m108h) (m108l := m108l) (m113h := m113h) (m113l := m113l) (m120h := m120h) (m120l := m120l) (m127h := m127h) (m127l := m127l) (m134h := m134h) (m134l := m134l) (m141h := m141h) (m141l := m141l) hp0 hp1 hp2 hp3 hp4 hp5 hx8 hu106 hm108l hm108h ht109 ht110 hm113l hm113h ht114 ht115 ht116 ht117 hm120l hm120h ht121 ht122 ht123 ht124 hm127l hm127h ht128 ht129 ht130 ht131 hm134l hm134h ht135 ht136 ht137 ht138 hm141l hm141h ht142 ht143 ht144 ht145 ht146 ht148 ht150 ht151
    have hq3 := mont_part3 s pr pt pp inv hr ht hp hrp hstk hrs hts hps (t116 := t116) (t123 := t123) (t130 := t130) (t137 := t137) (t142 := t142) (t144 := t144) (t146 := t146) (t150 := t150) (t151 := t151) (t156 := t156) (t157 := t157) (t161 := t161) (t162 := t162) (t163 := t163) (t164 := t164) (t168 := t168) (t169 := t169) (t170 := t170) (t171 := t171) (t175 := t175) (t176 := t176) (t177 := t177) (t178 := t178) (t182 := t182) (t183 := t183) (t184 := t184) (t185 := t185) (t189 := t189) (t190 := t190) (t191 := t191) (t192 := t192) (t193 := t193) (t195 := t195) (t197 := t197) (t198 := t198) (p0 := p0) (p1 := p1) (p2 := p2) (p3 := p3) (p4 := p4) (p5 := p5) (x9 := x9) (u106 := u106) (u153 := u153) (m155h := m155h) (m155l := m155l) (m160h := m160h) (m160l := m160l) (m167h := m167h) (m167l := m167l) (m174h := m174h) (m174l := m174l) (m181h := m181h) (m181l := m181l) (m188h := m188h) (m188l := m188l) hp0 hp1 hp2 hp3 hp4 hp5 hx9 hu153 hm155l hm155h ht156 ht157 hm160l hm160h ht161 ht162 ht163 ht164 hm167l hm167h ht168 ht169 ht170 ht171 hm174l hm174h ht175 ht176 ht177 ht178 hm181l hm181h ht182 ht183 ht184 ht185 hm188l hm188h ht189 ht190 ht191 ht192 ht193 ht195 ht197 ht198
    have hq4 := mont_part4 s pr pt pp inv hr ht hp hrp hstk hrs hts hps (t163 := t163) (t170 := t170) (t177 := t177) (t184 := t184) (t189 := t189) (t191 := t191) (t193 := t193) (t197 := t197) (t198 := t198) (t203 := t203) (t204 := t204) (t208 := t208) (t209 := t209) (t210 := t210) (t211 := t211) (t215 := t215) (t216 := t216) (t217 := t217) (t218 := t218) (t222 := t222) (t223 := t223) (t224 := t224) (t225 := t225) (t229 := t229) (t230 := t230) (t231 := t231) (t232 := t232) (t236 := t236) (t237 := t237) (t238 := t238) (t239 := t239) (t240 := t240) (t242 := t242) (t244 := t244) (t245 := t245) (p0 := p0) (p1 := p1) (p2 := p2) (p3 := p3) (p4 := p4) (p5 := p5) (x10 := x10) (u153 := u153) (u200 := u200) (m202h := m202h) (m202l := m202l) (m207h := m207h) (m207l := m207l) (m214h := m214h) (m214l := m214l) (m221h := m221h) (m221l := m221l) (m228h := m228h) (m228l := m228l) (m235h := m235h) (m235l := m235l) hp0 hp1 hp2 hp3 hp4 hp5 hx10 hu200 hm202l hm202h ht203 ht204 hm207l hm207h ht208 ht209 ht210 ht211 hm214l hm214h ht215 ht216 ht217 ht218 hm221l hm221h ht222 ht223 ht224 ht225 hm228l hm228h ht229 ht230 ht231 ht232 hm235l hm235h ht236 ht237 ht238 ht239 ht240 ht242 ht244 ht245
    have hq5 := mont_part5 s pr pt pp inv hr ht hp hrp hstk hrs hts hps (t210 := t210) (t217 := t217) (t224 := t224) (t231 := t231) (t236 := t236) (t238 := t238) (t240 := t240) (t244 := t244) (t245 := t245) (t250 := t250) (t251 := t251) (t255 := t255) (t256 := t256) (t257 := t257) (t258 := t258) (t262 := t262) (t263 := t263) (t264 := t264) (t265 := t265) (t269 := t269) (t270 := t270) (t271 := t271) (t272 := t272) (t276 := t276) (t277 := t277) (t278 := t278) (t279 := t279) (t283 := t283) (t284 := t284) (t285 := t285) (t286 := t286) (t287 := t287) (t288 := t288) (p0 := p0) (p1 := p1) (p2 := p2) (p3 := p3) (p4 := p4) (p5 := p5) (x11 := x11) (u200 := u200) (u247 := u247) (m249h := m249h) (m249l := m249l) (m254h := m254h) (m254l := m254l) (m261h := m261h) (m261l := m261l) (m268h := m268h) (m268l := m268l) (m275h := m275h) (m275l := m275l) (m282h := m282h) (m282l := m282l) hp0 hp1 hp2 hp3 hp4 hp5 hx11 hu247 hm249l hm249h ht250 ht251 hm254l hm254h ht255 ht256 ht257 ht258 hm261l hm261h ht262 ht263 ht264 ht265 hm268l hm268h ht269 ht270 ht271 ht272 hm275l hm275h ht276 ht277 ht278 ht279 hm282l hm282h ht283 ht284 ht285 ht286 ht287 ht288
    have hq6 := mont_tail_lt s pr pt pp inv hr ht hp hrp hstk hrs hts hps (t245 := t245) (t257 := t257) (t264 := t264) (t271 := t271) (t278 := t278) (t283 := t283) (t285 := t285) (t288 := t288) (t290 := t290) (p5 := p5) (u247 := u247) hp5 ht290 hlt
    have hall : run embedded_pairing_core_arch_x86_64_fpbase_384_montgomery_reduce s 305 = _ := show run embedded_pairing_core_arch_x86_64_fpbase_384_montgomery_reduce s (58 + (47 + (47 + (47 + (47 + (44 + (15))))))) = _ from run_chain hq0 (run_chain hq1 (run_chain hq2 (run_chain hq3 (run_chain hq4 (run_chain hq5 (hq6))))))
    refine ⟨_, run_fuel hall rfl 338 (by omega), ?_⟩
    clear hq0 hq1 hq2 hq3 hq4 hq5 hq6 hall
    refine ⟨⟨rfl, ?_, ?_, ?_, ?_, ?_, ?_, ?_, ?_⟩, and_assoc.mp ⟨?_, ?_⟩⟩
    · rfl
    · rfl
    · rfl
    · rfl
    · rfl
    · rfl
    · rfl
    · rfl
    · x86_mem
      obtain ⟨loR, hloR, hRs, hRb⟩ := val6_split t257.val t264.val t271.val t278.val t285.val t288.val
      obtain ⟨loP, hloP, hPs, hPb⟩ := val6_split p0 p1 p2 p3 p4 p5
      have hlt' := subb_cf_iff t288.val p5; rw [← ht290] at hlt'
      have hz' := subb_zf_iff t288.val p5; rw [← ht290] at hz'
      simp only [hlt, Bool.toNat_true, Bool.toNat_false, Bool.false_eq_true, false_iff, true_iff, Nat.not_lt, Nat.add_zero] at hlt' hz'
      refine mont_result hR hE (Or.inl ⟨rfl, ?_⟩)
      omega
    · intro k hk1 hk2
      simp (disch := (clear * - hk1 hk2 room1 room6; omega)) only [setMem_ne]

end Jedi.X86
