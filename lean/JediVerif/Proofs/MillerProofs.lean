/-
Structure of the Miller loop of src/bls12_381/pairing.cpp (model: Impl/Miller.lean over the generated steps):
* `G2Prepared::prepare` stores exactly the line coefficients the affine path of `miller_loop` computes on the fly,
  in the order the prepared path consumes them, and exactly `num_coeffs` of them;
* hence a pairing with a prepared second argument equals the plain pairing — for every input and any coefficient
  type (no algebra is used: the two paths perform literally the same operations).
-/
import JediVerif.Impl.Miller

set_option linter.unusedSectionVars false
namespace Jedi.Impl
open Jedi.Gen

section
variable {F : Type} [Add F] [Sub F] [Mul F] [Neg F] [Zero F] [One F] [Inv F] [DecidableEq F] [TowerConsts F]

/-- the line coefficients produced from running point `r` over the loop bits `bits`, followed by the final doubling. -/
def coeffSeq (g2 : Aff (Q2 F)) : Jac (Q2 F) → List Bool → List (MT F)
  | r, [] => [(miller_doubling_step r).1]
  | r, b :: bs =>
    if b then
      (miller_doubling_step r).1 :: (miller_addition_step (miller_doubling_step r).2 g2).1 ::
        coeffSeq g2 (miller_addition_step (miller_doubling_step r).2 g2).2 bs
    else (miller_doubling_step r).1 :: coeffSeq g2 (miller_doubling_step r).2 bs

theorem prepare_unfold (g2 : Aff (Q2 F)) :
    (prepare g2).coeffs =
      ((miller_doubling_step (millerBits.foldl (prepStep g2) (Proj2.from_affine g2, [])).1).1 ::
        (millerBits.foldl (prepStep g2) (Proj2.from_affine g2, [])).2).reverse := rfl

theorem prepFold (g2 : Aff (Q2 F)) : ∀ (bits : List Bool) (r : Jac (Q2 F)) (acc : List (MT F)),
    ((miller_doubling_step (bits.foldl (prepStep g2) (r, acc)).1).1 :: (bits.foldl (prepStep g2) (r, acc)).2).reverse
      = acc.reverse ++ coeffSeq g2 r bits := by
  intro bits
  induction bits with
  | nil => intro r acc; simp [coeffSeq]
  | cons b bs ih =>
    intro r acc
    rw [List.foldl_cons]
    cases b with
    | true =>
      have : prepStep g2 (r, acc) true =
          ((miller_addition_step (miller_doubling_step r).2 g2).2,
            (miller_addition_step (miller_doubling_step r).2 g2).1 :: (miller_doubling_step r).1 :: acc) := rfl
      rw [this, ih]; simp [coeffSeq]
    | false =>
      have : prepStep g2 (r, acc) false = ((miller_doubling_step r).2, (miller_doubling_step r).1 :: acc) := rfl
      rw [this, ih]; simp [coeffSeq]

/-- `prepare` stores the coefficient sequence of the on-the-fly loop. -/
theorem prepare_coeffs (g2 : Aff (Q2 F)) :
    (prepare g2).coeffs = coeffSeq g2 (Proj2.from_affine g2) millerBits := by
  rw [prepare_unfold, prepFold]; simp

theorem prepare_infinity (g2 : Aff (Q2 F)) : (prepare g2).infinity = g2.infinity := rfl

theorem coeffSeq_length (g2 : Aff (Q2 F)) : ∀ (bits : List Bool) (r : Jac (Q2 F)),
    (coeffSeq g2 r bits).length = bits.length + (bits.filter id).length + 1 := by
  intro bits
  induction bits with
  | nil => intro r; simp [coeffSeq]
  | cons b bs ih =>
    intro r
    cases b with
    | true => simp [coeffSeq, ih]; omega
    | false => simp [coeffSeq, ih]; omega

/-- the precomputation always fills exactly `num_coeffs` (= 68 = `coeffs[68]` of the C header) entries. -/
theorem prepare_length (g2 : Aff (Q2 F)) : (prepare g2).coeffs.length = Consts.num_coeffs := by
  rw [prepare_coeffs, coeffSeq_length]; decide

theorem getD_of_drop {α : Type} (l : List α) (i : Nat) (c : α) (t : List α) (d : α) (h : l.drop i = c :: t) :
    l.getD i d = c ∧ l.drop (i + 1) = t := by
  constructor
  · rw [List.getD_eq_getElem?_getD, ← List.head?_drop, h]; rfl
  · rw [← List.drop_drop, h]; rfl

/-- one-pair states of the two paths -/
def aState (g1 : Aff F) (g2 : Aff (Q2 F)) (r : Jac (Q2 F)) : APair F := { g1 := g1, g2 := g2, r := r }
def pState (g1 : Aff F) (P : Prepared F) (i : Nat) : PPair F := { g1 := g1, g2 := P, idx := i }

theorem roundAffine_single_active (addition : Bool) (res : Q12 F) (g1 : Aff F) (g2 : Aff (Q2 F)) (r : Jac (Q2 F))
    (h : (!g1.infinity && !g2.infinity) = true) :
    roundAffine addition res [aState g1 g2 r] =
      (ell res (if addition then miller_addition_step r g2 else miller_doubling_step r).1 g1,
        [aState g1 g2 (if addition then miller_addition_step r g2 else miller_doubling_step r).2]) := by
  cases addition <;> simp [roundAffine, aState, h]

theorem roundAffine_single_inactive (addition : Bool) (res : Q12 F) (g1 : Aff F) (g2 : Aff (Q2 F)) (r : Jac (Q2 F))
    (h : (!g1.infinity && !g2.infinity) = false) :
    roundAffine addition res [aState g1 g2 r] = (res, [aState g1 g2 r]) := by
  simp [roundAffine, aState, h]

theorem roundPrepared_single_active (res : Q12 F) (g1 : Aff F) (P : Prepared F) (i : Nat)
    (h : (!g1.infinity && !P.infinity) = true) :
    roundPrepared res [pState g1 P i] = (ell res (P.coeffs.getD i zeroMT) g1, [pState g1 P (i + 1)]) := by
  simp [roundPrepared, pState, h]

theorem roundPrepared_single_inactive (res : Q12 F) (g1 : Aff F) (P : Prepared F) (i : Nat)
    (h : (!g1.infinity && !P.infinity) = false) :
    roundPrepared res [pState g1 P i] = (res, [pState g1 P i]) := by
  simp [roundPrepared, pState, h]

@[simp] theorem roundAffine_nil (addition : Bool) (res : Q12 F) : roundAffine addition res [] = (res, []) := rfl
@[simp] theorem roundPrepared_nil (res : Q12 F) : roundPrepared res [] = (res, ([] : List (PPair F))) := rfl

/-- main loop: with an active pair, the prepared path (cursor at `i`, stored coefficients from `i` on equal to the
sequence the affine path will produce from `r`) and the affine path compute the same accumulator. -/
theorem loops_agree_active (g1 : Aff F) (g2 : Aff (Q2 F)) (P : Prepared F)
    (hinf : P.infinity = g2.infinity) (h : (!g1.infinity && !g2.infinity) = true) :
    ∀ (bits : List Bool) (res : Q12 F) (r : Jac (Q2 F)) (i : Nat), P.coeffs.drop i = coeffSeq g2 r bits →
      ∃ r' i', bits.foldl (fun st b => millerIter b st) (res, [aState g1 g2 r], []) =
                ((bits.foldl (fun st b => millerIter b st) (res, [], [pState g1 P i])).1, [aState g1 g2 r'], []) ∧
              (bits.foldl (fun st b => millerIter b st) (res, [], [pState g1 P i])).2 = ([], [pState g1 P i']) ∧
              P.coeffs.drop i' = [(miller_doubling_step r').1] := by
  have hP : (!g1.infinity && !P.infinity) = true := by rw [hinf]; exact h
  intro bits
  induction bits with
  | nil => intro res r i hd; exact ⟨r, i, rfl, rfl, by simpa [coeffSeq] using hd⟩
  | cons b bs ih =>
    intro res r i hd
    rw [List.foldl_cons, List.foldl_cons]
    cases b with
    | true =>
      simp only [coeffSeq, if_true] at hd
      obtain ⟨e1, hd1⟩ := getD_of_drop _ _ _ _ zeroMT hd
      obtain ⟨e2, hd2⟩ := getD_of_drop _ _ _ _ zeroMT hd1
      have sA : millerIter true (res, [aState g1 g2 r], ([] : List (PPair F))) =
          (Fq12.square_oa (ell (ell res (miller_doubling_step r).1 g1) (miller_addition_step (miller_doubling_step r).2 g2).1 g1),
            [aState g1 g2 (miller_addition_step (miller_doubling_step r).2 g2).2], []) := by
        simp [millerIter, roundAffine_single_active _ _ _ _ _ h]
      have sP : millerIter true (res, ([] : List (APair F)), [pState g1 P i]) =
          (Fq12.square_oa (ell (ell res (P.coeffs.getD i zeroMT) g1) (P.coeffs.getD (i + 1) zeroMT) g1),
            [], [pState g1 P (i + 1 + 1)]) := by
        simp [millerIter, roundPrepared_single_active _ _ _ _ hP]
      rw [sA, sP, e1, e2]
      exact ih _ _ _ hd2
    | false =>
      simp only [coeffSeq] at hd
      obtain ⟨e1, hd1⟩ := getD_of_drop _ _ _ _ zeroMT hd
      have sA : millerIter false (res, [aState g1 g2 r], ([] : List (PPair F))) =
          (Fq12.square_oa (ell res (miller_doubling_step r).1 g1), [aState g1 g2 (miller_doubling_step r).2], []) := by
        simp [millerIter, roundAffine_single_active _ _ _ _ _ h]
      have sP : millerIter false (res, ([] : List (APair F)), [pState g1 P i]) =
          (Fq12.square_oa (ell res (P.coeffs.getD i zeroMT) g1), [], [pState g1 P (i + 1)]) := by
        simp [millerIter, roundPrepared_single_active _ _ _ _ hP]
      rw [sA, sP, e1]
      exact ih _ _ _ hd1

/-- with an inactive pair (either member the identity) both paths only square the accumulator. -/
theorem loops_agree_inactive (g1 : Aff F) (g2 : Aff (Q2 F)) (P : Prepared F)
    (hinf : P.infinity = g2.infinity) (h : (!g1.infinity && !g2.infinity) = false) :
    ∀ (bits : List Bool) (res : Q12 F) (r : Jac (Q2 F)) (i : Nat),
      bits.foldl (fun st b => millerIter b st) (res, [aState g1 g2 r], []) =
        ((bits.foldl (fun st b => millerIter b st) (res, [], [pState g1 P i])).1, [aState g1 g2 r], []) ∧
      (bits.foldl (fun st b => millerIter b st) (res, [], [pState g1 P i])).2 = ([], [pState g1 P i]) := by
  have hP : (!g1.infinity && !P.infinity) = false := by rw [hinf]; exact h
  intro bits
  induction bits with
  | nil => intro res r i; exact ⟨rfl, rfl⟩
  | cons b bs ih =>
    intro res r i
    rw [List.foldl_cons, List.foldl_cons]
    have sA : millerIter b (res, [aState g1 g2 r], ([] : List (PPair F))) = (Fq12.square_oa res, [aState g1 g2 r], []) := by
      cases b <;> simp [millerIter, roundAffine_single_inactive _ _ _ _ _ h]
    have sP : millerIter b (res, ([] : List (APair F)), [pState g1 P i]) = (Fq12.square_oa res, [], [pState g1 P i]) := by
      cases b <;> simp [millerIter, roundPrepared_single_inactive _ _ _ _ hP]
    rw [sA, sP]; exact ih _ _ _

/-- **C08**: the Miller loop over one prepared pair equals the Miller loop over the plain pair, for every `g1`, `g2`
(identity members included). -/
theorem millerLoop_prepared_eq (g1 : Aff F) (g2 : Aff (Q2 F)) :
    millerLoop [] [(g1, prepare g2)] = millerLoop [(g1, g2)] [] := by
  unfold millerLoop
  simp only [List.map_cons, List.map_nil]
  have eA : initA (g1, g2) = aState g1 g2 (Proj2.from_affine g2) := rfl
  have eP : initP (g1, prepare g2) = pState g1 (prepare g2) 0 := rfl
  rw [eA, eP]
  by_cases h : (!g1.infinity && !g2.infinity) = true
  · obtain ⟨r', i', hA, hP, hd⟩ := loops_agree_active g1 g2 (prepare g2) (prepare_infinity g2) h millerBits 1
      (Proj2.from_affine g2) 0 (by rw [List.drop_zero, prepare_coeffs])
    have hP' : (!g1.infinity && !(prepare g2).infinity) = true := by rw [prepare_infinity]; exact h
    obtain ⟨e1, _⟩ := getD_of_drop _ _ _ _ zeroMT hd
    generalize millerBits.foldl (fun st b => millerIter b st) ((1 : Q12 F), [], [pState g1 (prepare g2) 0]) = sp at hA hP
    rw [hA]
    obtain ⟨res, as, ps⟩ := sp
    simp only at hP; cases hP
    rw [List.getD_eq_getElem?_getD] at e1
    simp [finishLoop, roundAffine_single_active _ _ _ _ _ h, roundPrepared_single_active _ _ _ _ hP', e1]
  · have h : (!g1.infinity && !g2.infinity) = false := by simpa using h
    obtain ⟨hA, hP⟩ := loops_agree_inactive g1 g2 (prepare g2) (prepare_infinity g2) h millerBits 1 (Proj2.from_affine g2) 0
    have hP' : (!g1.infinity && !(prepare g2).infinity) = false := by rw [prepare_infinity]; exact h
    generalize millerBits.foldl (fun st b => millerIter b st) ((1 : Q12 F), [], [pState g1 (prepare g2) 0]) = sp at hA hP
    rw [hA]
    obtain ⟨res, as, ps⟩ := sp
    simp only at hP; cases hP
    simp [finishLoop, roundAffine_single_inactive _ _ _ _ _ h, roundPrepared_single_inactive _ _ _ _ hP']

/-- **C08**: a pairing evaluated with a precomputed second argument equals the plain pairing. -/
theorem pairingPrepared_eq (g1 : Aff F) (g2 : Aff (Q2 F)) : pairingPrepared g1 (prepare g2) = pairing g1 g2 := by
  unfold pairingPrepared pairing; rw [millerLoop_prepared_eq]

end
end Jedi.Impl
