/-
C04 (fourth part) — "… exponentiation, and byte I/O" of the extension fields Fq2 / Fq6 / Fq12, plus `Fq2::norm`,
`Fq2::legendre` and `Fq2::square_root` as coded.

Property theorems only.  Models: `JediVerif/Impl/TowerIO.lean` (statement-by-statement mirrors of
`Fq2/Fq6/Fq12::write_big_endian`, `read_big_endian` (fq2.cpp l.179, fq6.cpp l.306, fq12.cpp l.203), of the template
`core::exponentiate` (fp_utils.hpp l.89) instantiated for the three fields, and of `Fq2::norm / legendre / square_root`
(fq2.cpp l.132-167), all on top of the C02b models `fqWriteBE`, `fqReadBE`, `fpExponentiate`, `fqLegendre`).  The judge
(`Driver/Judge2.lean`) runs the models next to the real routines on every `f2_/f6_/f12_ be` and `rdbe` line and on every
`f2_norm`, `f2_leg`, `f2_sqrt` line and demands identical output.  (There is no op line that calls `exponentiate` on a tower
element directly; the instantiation the library itself uses — `exponentiate<Fq2, BigInt<384>>`, twice inside
`Fq2::square_root` — is exercised by `f2_sqrt`, where the judge now demands the model's exact value.)
Proofs: `JediVerif/Proofs/TowerIOProofs.lean`.

`Fq2 = Q2 Fq`, `Fq6 = Q6 Fq`, `Fq12 = Q12 Fq` carry the field structures of `Proofs/FqTower.lean` (ring operations = the
Spec's schoolbook operations, which C04 proves the C++ `multiply` / `square` compute); `x ^ n` is their monoid power and
`npow` the Spec's literal square-and-multiply power.

Wire format (most significant coefficient FIRST, each coefficient 48 bytes big-endian, canonical):
  Fq2  : c1 ‖ c0                                   (96 bytes)
  Fq6  : c2 ‖ c1 ‖ c0        (each an Fq2)         (288 bytes)
  Fq12 : c1 ‖ c0             (each an Fq6)         (576 bytes)
A `uint8_t*` is modelled by the list of bytes from the pointer on.  `beChunk buffer i` is the `i`-th 48-byte chunk read as
`Fq::read_big_endian` reads it; `Canonical n bs` says `bs` consists of exactly `n` chunks, each an integer below `q`.

Status: everything below is proved (axioms: propext, Classical.choice, Quot.sound).
-/
import JediVerif.Proofs.TowerIOProofs

namespace Jedi.C04
open Jedi Jedi.Impl Jedi.Gen

/-! ## `write_big_endian` -/

/-- `Fq2::write_big_endian` produces 96 bytes: the 48-byte big-endian canonical integer of `c1`, then that of `c0`. -/
theorem fq2_write_be (x : Fq2) : fq2WriteBE x = toBytesBE 48 x.c1.val ++ toBytesBE 48 x.c0.val := fq2WriteBE_bytes x
theorem fq2_write_be_fq (x : Fq2) : fq2WriteBE x = fqWriteBE x.c1 ++ fqWriteBE x.c0 := fq2WriteBE_eq x
theorem fq2_write_be_length (x : Fq2) : (fq2WriteBE x).length = 96 := fq2WriteBE_length x

/-- `Fq6::write_big_endian` produces 288 bytes: the encodings of `c2`, `c1`, `c0` in this order, i.e. the six integers
`c2.c1, c2.c0, c1.c1, c1.c0, c0.c1, c0.c0`. -/
theorem fq6_write_be (x : Fq6) :
    fq6WriteBE x = toBytesBE 48 x.c2.c1.val ++ toBytesBE 48 x.c2.c0.val ++ toBytesBE 48 x.c1.c1.val ++
      toBytesBE 48 x.c1.c0.val ++ toBytesBE 48 x.c0.c1.val ++ toBytesBE 48 x.c0.c0.val := fq6WriteBE_bytes x
theorem fq6_write_be_fq2 (x : Fq6) : fq6WriteBE x = fq2WriteBE x.c2 ++ fq2WriteBE x.c1 ++ fq2WriteBE x.c0 :=
  fq6WriteBE_eq x
theorem fq6_write_be_length (x : Fq6) : (fq6WriteBE x).length = 288 := fq6WriteBE_length x

/-- `Fq12::write_big_endian` produces 576 bytes: the encoding of `c1`, then that of `c0`. -/
theorem fq12_write_be (x : Fq12) :
    fq12WriteBE x =
      toBytesBE 48 x.c1.c2.c1.val ++ toBytesBE 48 x.c1.c2.c0.val ++ toBytesBE 48 x.c1.c1.c1.val ++
      toBytesBE 48 x.c1.c1.c0.val ++ toBytesBE 48 x.c1.c0.c1.val ++ toBytesBE 48 x.c1.c0.c0.val ++
      toBytesBE 48 x.c0.c2.c1.val ++ toBytesBE 48 x.c0.c2.c0.val ++ toBytesBE 48 x.c0.c1.c1.val ++
      toBytesBE 48 x.c0.c1.c0.val ++ toBytesBE 48 x.c0.c0.c1.val ++ toBytesBE 48 x.c0.c0.c0.val := fq12WriteBE_bytes x
theorem fq12_write_be_fq6 (x : Fq12) : fq12WriteBE x = fq6WriteBE x.c1 ++ fq6WriteBE x.c0 := fq12WriteBE_eq x
theorem fq12_write_be_length (x : Fq12) : (fq12WriteBE x).length = 576 := fq12WriteBE_length x

/-- As memory updates: on ANY buffer of at least `sizeof(T)` bytes the writers overwrite exactly the first `sizeof(T)`
bytes (with the bytes above, whatever the buffer held) and leave the rest untouched. -/
theorem fq2_write_be_in_place (x : Fq2) {buffer : List UInt8} (h : 96 ≤ buffer.length) :
    fq2WriteTo x buffer = fq2WriteBE x ++ buffer.drop 96 := fq2WriteTo_eq x h
theorem fq6_write_be_in_place (x : Fq6) {buffer : List UInt8} (h : 288 ≤ buffer.length) :
    fq6WriteTo x buffer = fq6WriteBE x ++ buffer.drop 288 := fq6WriteTo_eq x h
theorem fq12_write_be_in_place (x : Fq12) {buffer : List UInt8} (h : 576 ≤ buffer.length) :
    fq12WriteTo x buffer = fq12WriteBE x ++ buffer.drop 576 := fq12WriteTo_eq x h

/-! ## `read_big_endian` -/

/-- each 48-byte chunk that lies inside the buffer is read as `Fq::read_big_endian` reads it: big-endian integer, top
three bits cleared, reduced modulo `q` (no range check, no error). -/
theorem be_chunk {buffer : List UInt8} {i : Nat} (h : 48 * i + 48 ≤ buffer.length) :
    beChunk buffer i = Fin.ofNat q (ofBytesBE ((buffer.drop (48 * i)).take 48) % 2 ^ 381) := beChunk_eq h
theorem be_chunk_def (buffer : List UInt8) (i : Nat) : beChunk buffer i = fqReadBE ((buffer.drop (48 * i)).take 48) :=
  rfl

/-- `Fq2::read_big_endian` (any buffer): `c1` from the first chunk, `c0` from the second. -/
theorem fq2_read_be (buffer : List UInt8) : fq2ReadBE buffer = ⟨beChunk buffer 1, beChunk buffer 0⟩ :=
  fq2ReadBE_chunks buffer
/-- `Fq6::read_big_endian` (any buffer): chunks 0 … 5 are `c2.c1, c2.c0, c1.c1, c1.c0, c0.c1, c0.c0`. -/
theorem fq6_read_be (buffer : List UInt8) :
    fq6ReadBE buffer = ⟨⟨beChunk buffer 5, beChunk buffer 4⟩, ⟨beChunk buffer 3, beChunk buffer 2⟩,
      ⟨beChunk buffer 1, beChunk buffer 0⟩⟩ := fq6ReadBE_chunks buffer
/-- `Fq12::read_big_endian` (any buffer): chunks 0 … 5 are `c1`, chunks 6 … 11 are `c0`, each in `Fq6` wire order. -/
theorem fq12_read_be (buffer : List UInt8) :
    fq12ReadBE buffer =
      ⟨⟨⟨beChunk buffer 11, beChunk buffer 10⟩, ⟨beChunk buffer 9, beChunk buffer 8⟩,
        ⟨beChunk buffer 7, beChunk buffer 6⟩⟩,
       ⟨⟨beChunk buffer 5, beChunk buffer 4⟩, ⟨beChunk buffer 3, beChunk buffer 2⟩,
        ⟨beChunk buffer 1, beChunk buffer 0⟩⟩⟩ := fq12ReadBE_chunks buffer

/-- the same, level by level: a buffer that starts with sub-encodings is read part by part by the level below. -/
theorem fq2_read_be_concat {a b : List UInt8} (rest : List UInt8) (ha : a.length = 48) (hb : b.length = 48) :
    fq2ReadBE (a ++ b ++ rest) = ⟨fqReadBE b, fqReadBE a⟩ := fq2ReadBE_concat rest ha hb
theorem fq6_read_be_concat {a b c : List UInt8} (rest : List UInt8) (ha : a.length = 96) (hb : b.length = 96)
    (hc : c.length = 96) : fq6ReadBE (a ++ b ++ c ++ rest) = ⟨fq2ReadBE c, fq2ReadBE b, fq2ReadBE a⟩ :=
  fq6ReadBE_concat rest ha hb hc
theorem fq12_read_be_concat {a b : List UInt8} (rest : List UInt8) (ha : a.length = 288) (hb : b.length = 288) :
    fq12ReadBE (a ++ b ++ rest) = ⟨fq6ReadBE b, fq6ReadBE a⟩ := fq12ReadBE_concat rest ha hb

/-! ## round trips -/

/-- **`read_big_endian (write_big_endian x) = x`** (also when more bytes follow), so the encodings are injective. -/
theorem fq2_read_write (x : Fq2) : fq2ReadBE (fq2WriteBE x) = x := fq2ReadBE_fq2WriteBE x
theorem fq6_read_write (x : Fq6) : fq6ReadBE (fq6WriteBE x) = x := fq6ReadBE_fq6WriteBE x
theorem fq12_read_write (x : Fq12) : fq12ReadBE (fq12WriteBE x) = x := fq12ReadBE_fq12WriteBE x
theorem fq2_read_write_append (x : Fq2) (rest : List UInt8) : fq2ReadBE (fq2WriteBE x ++ rest) = x :=
  fq2ReadBE_fq2WriteBE_append x rest
theorem fq6_read_write_append (x : Fq6) (rest : List UInt8) : fq6ReadBE (fq6WriteBE x ++ rest) = x :=
  fq6ReadBE_fq6WriteBE_append x rest
theorem fq12_read_write_append (x : Fq12) (rest : List UInt8) : fq12ReadBE (fq12WriteBE x ++ rest) = x :=
  fq12ReadBE_fq12WriteBE_append x rest
theorem fq2_write_be_injective : Function.Injective fq2WriteBE := fq2WriteBE_injective
theorem fq6_write_be_injective : Function.Injective fq6WriteBE := fq6WriteBE_injective
theorem fq12_write_be_injective : Function.Injective fq12WriteBE := fq12WriteBE_injective

/-- **`write_big_endian (read_big_endian bs) = bs` exactly when `bs` is canonical** (the right length and every 48-byte
chunk an integer below `q`): the canonical buffers are the writers' range; every other buffer is accepted by the readers
as an alias of a canonical one (the readers never fail) — e.g. the 48 bytes of `q` itself read as `0`. -/
theorem canonical_def (n : Nat) (bs : List UInt8) :
    Canonical n bs ↔ bs.length = 48 * n ∧ ∀ i, i < n → ofBytesBE ((bs.drop (48 * i)).take 48) < q := Iff.rfl
theorem fq2_write_read_iff (bs : List UInt8) : fq2WriteBE (fq2ReadBE bs) = bs ↔ Canonical 2 bs :=
  fq2WriteBE_fq2ReadBE_iff bs
theorem fq6_write_read_iff (bs : List UInt8) : fq6WriteBE (fq6ReadBE bs) = bs ↔ Canonical 6 bs :=
  fq6WriteBE_fq6ReadBE_iff bs
theorem fq12_write_read_iff (bs : List UInt8) : fq12WriteBE (fq12ReadBE bs) = bs ↔ Canonical 12 bs :=
  fq12WriteBE_fq12ReadBE_iff bs
theorem fq_read_be_modulus : fqReadBE (toBytesBE 48 q) = 0 := fqReadBE_modulus

/-! ## `exponentiate` (fp_utils.hpp l.89) on Fq2 / Fq6 / Fq12 -/

/-- square-and-multiply over the `bits` bits of a `BigInt<bits>` exponent (both build variants): the power by the
exponent, which is `a ^ e` whenever `e` fits the exponent type … -/
theorem fq2_exponentiate (bits : Nat) (a : Fq2) (e : Nat) : fq2Exponentiate bits a e = a ^ (e % 2 ^ bits) :=
  fq2Exponentiate_eq bits a e
theorem fq6_exponentiate (bits : Nat) (a : Fq6) (e : Nat) : fq6Exponentiate bits a e = a ^ (e % 2 ^ bits) :=
  fq6Exponentiate_eq bits a e
theorem fq12_exponentiate (bits : Nat) (a : Fq12) (e : Nat) : fq12Exponentiate bits a e = a ^ (e % 2 ^ bits) :=
  fq12Exponentiate_eq bits a e
theorem fq2_exponentiate_pow {bits : Nat} (a : Fq2) {e : Nat} (he : e < 2 ^ bits) :
    fq2Exponentiate bits a e = a ^ e := fq2Exponentiate_eq_pow a he
theorem fq6_exponentiate_pow {bits : Nat} (a : Fq6) {e : Nat} (he : e < 2 ^ bits) :
    fq6Exponentiate bits a e = a ^ e := fq6Exponentiate_eq_pow a he
theorem fq12_exponentiate_pow {bits : Nat} (a : Fq12) {e : Nat} (he : e < 2 ^ bits) :
    fq12Exponentiate bits a e = a ^ e := fq12Exponentiate_eq_pow a he
theorem fq2_exponentiate_ct (bits : Nat) (a : Fq2) (e : Nat) : fq2ExponentiateCT bits a e = fq2Exponentiate bits a e :=
  fq2ExponentiateCT_eq bits a e
theorem fq6_exponentiate_ct (bits : Nat) (a : Fq6) (e : Nat) : fq6ExponentiateCT bits a e = fq6Exponentiate bits a e :=
  fq6ExponentiateCT_eq bits a e
theorem fq12_exponentiate_ct (bits : Nat) (a : Fq12) (e : Nat) :
    fq12ExponentiateCT bits a e = fq12Exponentiate bits a e := fq12ExponentiateCT_eq bits a e

/-- … equal to the Spec's literal power `npow` (what `frobSpec` and the judge are made of); in particular
`exponentiate(a, q^k)` is the Spec Frobenius `frobSpec a k` (= `Fq12::frobenius_map(a, k)` by `fq12_frobenius_spec`). -/
theorem fq2_exponentiate_spec {bits : Nat} (a : Fq2) {e : Nat} (he : e < 2 ^ bits) :
    fq2Exponentiate bits a e = npow a e := fq2Exponentiate_eq_npow a he
theorem fq6_exponentiate_spec {bits : Nat} (a : Fq6) {e : Nat} (he : e < 2 ^ bits) :
    fq6Exponentiate bits a e = npow a e := fq6Exponentiate_eq_npow a he
theorem fq12_exponentiate_spec {bits : Nat} (a : Fq12) {e : Nat} (he : e < 2 ^ bits) :
    fq12Exponentiate bits a e = npow a e := fq12Exponentiate_eq_npow a he
theorem fq12_exponentiate_frobSpec {bits : Nat} (a : Fq12) {k : Nat} (hk : q ^ k < 2 ^ bits) :
    fq12Exponentiate bits a (q ^ k) = frobSpec a k := fq12Exponentiate_frobSpec a hk

/-! ## `Fq2::norm`, `Fq2::legendre`, `Fq2::square_root` as coded -/

/-- `Fq2::norm` as coded is the Spec norm `c0² + c1²` (= the generated `Fq2.norm`; `= a·ā = a^(q+1)`: `fq2_norm`,
`fq2_norm_pow` of C04b). -/
theorem fq2_norm_model (a : Fq2) : fq2Norm a = Q2.norm a := fq2Norm_eq a
theorem fq2_norm_model_gen (a : Fq2) (r : Fq) : fq2Norm a = Gen.Fq2.norm a r := fq2Norm_eq_gen a r

/-- `Fq2::legendre` as coded (norm, then `Fq::legendre` = the exponentiation loop by `(q−1)/2`) is the Spec's
`Fq2.legendre`, the Legendre symbol of the norm … -/
theorem fq2_legendre_model (a : Fq2) : fq2Legendre a = Fq2.legendre a := fq2Legendre_eq a
theorem fq2_legendre_norm (a : Fq2) : fq2Legendre a = fqLegendre (Q2.norm a) := rfl
/-- … and it is the quadratic character of Fq2: 0 exactly on 0, 1 exactly on the non-zero squares, −1 exactly on the
non-squares. -/
theorem fq2_legendre_range (a : Fq2) : fq2Legendre a = 0 ∨ fq2Legendre a = 1 ∨ fq2Legendre a = -1 :=
  fq2Legendre_range a
theorem fq2_legendre_zero (a : Fq2) : fq2Legendre a = 0 ↔ a = 0 := fq2Legendre_eq_zero_iff a
theorem fq2_legendre_one (a : Fq2) : fq2Legendre a = 1 ↔ a ≠ 0 ∧ IsSquare a := fq2Legendre_eq_one_iff a
theorem fq2_legendre_neg_one (a : Fq2) : fq2Legendre a = -1 ↔ ¬ IsSquare a := fq2Legendre_eq_neg_one_iff a

/-- the exponents of `Fq2::square_root` are what their names say and fit `BigInt<384>` -/
theorem fq2_sqrt_exponents :
    Consts.fq2_qminusthreeoverfour = (q - 3) / 4 ∧ Consts.fq2_qminusoneovertwo = (q - 1) / 2 :=
  ⟨fq2_qminusthreeoverfour_eq, fq2_qminusoneovertwo_eq⟩

/-- `Fq2::square_root` as coded, with its two runs of `exponentiate<Fq2, BigInt<384>>`, equals the model `fq2Sqrt`
(Spec powers) used by the point decoders of C09 … -/
theorem fq2_square_root_model (a : Fq2) : fq2SquareRoot a = fq2Sqrt a := fq2SquareRoot_eq a
/-- … so it returns a square root of every square, its output squares to the input exactly for the squares, and on a
non-square it returns `a^((q+1)/4)·(α+1)^((q−1)/2)` with `α = a^((q−1)/2)`. -/
theorem fq2_square_root {a : Fq2} (h : IsSquare a) : fq2SquareRoot a * fq2SquareRoot a = a := by
  rw [fq2SquareRoot_eq]; exact fq2Sqrt_mul_self h
theorem fq2_square_root_iff (a : Fq2) : fq2SquareRoot a ^ 2 = a ↔ IsSquare a := by
  rw [fq2SquareRoot_eq]; exact fq2Sqrt_sq_iff a
theorem fq2_square_root_zero : fq2SquareRoot 0 = 0 := by rw [fq2SquareRoot_eq]; exact fq2Sqrt_zero
theorem fq2_square_root_nonsquare {a : Fq2} (h : ¬ IsSquare a) :
    fq2SquareRoot a = a ^ ((q + 1) / 4) * (a ^ ((q - 1) / 2) + 1) ^ ((q - 1) / 2) := by
  rw [fq2SquareRoot_eq]; exact (fq2Sqrt_nonsquare h).1

/-! ## non-vacuity: concrete values, evaluated by the kernel -/

/-- (2 + 3u)³ = −46 + 9u through the 384-iteration loop -/
example : fq2Exponentiate 384 (⟨2, 3⟩ : Fq2) 3 = ⟨-46, 9⟩ := by decide +kernel
/-- the first byte on the wire belongs to `c1`, the last one to `c0` -/
example : (fq2WriteBE (⟨2, 3⟩ : Fq2)).getLast? = some 2 ∧ (fq2WriteBE (⟨2, 3⟩ : Fq2))[47]? = some 3 := by
  decide +kernel
/-- `ξ = 1 + u` is a non-square of Fq2 (its norm 2 is a non-residue mod q), `−1 = u²` is a square -/
example : fq2Legendre (⟨1, 1⟩ : Fq2) = -1 ∧ fq2Legendre (⟨-1, 0⟩ : Fq2) = 1 := by decide +kernel
/-- a 96-byte buffer that is not canonical (all bytes `0xff`) is still read, as `((2^381 − 1) mod q)` twice -/
example : ¬ Canonical 2 (List.replicate 96 255) := by
  intro h
  have := h.2 0 (by decide)
  revert this
  decide +kernel

end Jedi.C04
