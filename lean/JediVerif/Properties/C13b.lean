/-
C13 on the concrete BLS12-381 groups — signatures verify exactly for the signed message and attribute list (real curve
operations, real pairing).

Raw-level versions of Properties/C13.lean: `signPrecomputed` run with `Driver.g1Ops`/`g2Ops` on raw points, and the
verification equation as the judge evaluates it (`verifyRaw`: e(a0, g) = e(g2, g1) · e(prod + msg·hsig, a1) with `ateSpec`,
`Pt.add`, `Pt.smulFast`).  Remaining hypotheses: membership (`ParamsIn`/`GensIn`, `InTors`), `SetupOkRaw`, `HBilinearFull` for
the verification theorems; the named non-degeneracy hypothesis `C12b.HNonDegenerate` for "only".
-/
import JediVerif.Proofs.ConcreteGroups
import JediVerif.Properties.C13
import JediVerif.Properties.C12b

namespace Jedi.C13b
open Jedi Jedi.Wk Jedi.Driver

variable {pp : RawParams} {g2alpha : G1Pt} {α : Nat}

/-- the canonical signature over the groups, on the underlying points, in the judge's operations. -/
theorem sig_val (a x hsg : G1c) (gg : G2c) (k msg : Nat) :
    ((a + k • (x + msg • hsg)).1, (k • gg).1)
      = (Pt.add a.1 (Pt.smulFast k (Pt.add x.1 (Pt.smulFast msg hsg.1))), Pt.smulFast k gg.1) := by
  rw [smulFast_eq' curveHyp_g1.two hsg.2.1, smulFast_eq' curveHyp_g2.two gg.2.1,
    smulFast_eq' curveHyp_g1.two (x.2.add curveHyp_g1 (hsg.2.smul curveHyp_g1 msg)).1]
  rfl

/-- `sign_precomputed` with a canonical key (real operations) returns the canonical signature: exactly the pair the judge
expects (`canonSig` of Driver/Judge5.lean, there with the scalar reduced mod r). -/
theorem sign_canon (hin : ParamsIn pp) (hm : InTors g1B r g2alpha) (π : List Slot) (ρ : Nat) (al : AttrList)
    (msg s : Nat) (hsig : pp.signatures = true) (hext : extendsOnFree π al = true) :
    signPrecomputed g1Ops g2Ops pp (canon g1Ops g2Ops pp g2alpha π ρ) (some al) (precompute g1Ops pp al) msg s
      = (Pt.add g2alpha (Pt.smulFast (ρ + s) (Pt.add (listProduct g1Ops pp al) (Pt.smulFast msg pp.hsig))),
         Pt.smulFast (ρ + s) pp.g) := by
  have h := C13.sign_canon g1OpsC_lawful g2OpsC_lawful G1c.expR hin.lift ⟨g2alpha, hm⟩ π ρ al msg s hsig hext
  rw [canon_val hin ⟨g2alpha, hm⟩, precompute_val hin, signPrecomputed_val hin, h, listProduct_val hin]
  exact sig_val ⟨g2alpha, hm⟩ _ hin.lift.hsig hin.lift.g (ρ + s) msg

/-- the scalar may be reduced mod r (the form the judge compares with). -/
theorem sign_canon_mod (hin : ParamsIn pp) (hm : InTors g1B r g2alpha) (π : List Slot) (ρ : Nat) (al : AttrList)
    (msg s : Nat) (hsig : pp.signatures = true) (hext : extendsOnFree π al = true) :
    signPrecomputed g1Ops g2Ops pp (canon g1Ops g2Ops pp g2alpha π ρ) (some al) (precompute g1Ops pp al) msg s
      = (Pt.add g2alpha (Pt.smulFast ((ρ + s) % r) (Pt.add (listProduct g1Ops pp al) (Pt.smulFast msg pp.hsig))),
         Pt.smulFast ((ρ + s) % r) pp.g) := by
  rw [sign_canon hin hm π ρ al msg s hsig hext]
  have hh : InTors g1B r pp.hsig := hin.hsig
  have hl : InTors g1B r (listProduct g1Ops pp al) := by rw [listProduct_val hin]; exact (listProduct g1OpsC hin.lift al).2
  have hx := hl.add curveHyp_g1 (hh.smulFast curveHyp_g1 msg)
  have e1 := congrArg Subtype.val (mod_smul G1c.expR (ρ + s) (⟨_, hx⟩ : G1c))
  have e2 := congrArg Subtype.val (mod_smul G2c.expR (ρ + s) (⟨pp.g, hin.g⟩ : G2c))
  simp only [G1c.nsmul_val, G2c.nsmul_val] at e1 e2
  rw [smulFast_eq' curveHyp_g1.two hx.1, smulFast_eq' curveHyp_g1.two hx.1, smulFast_eq' curveHyp_g2.two hin.g.1,
    smulFast_eq' curveHyp_g2.two hin.g.1, e1, e2]

/-- signing without a list: canonical signature on the key's own product. -/
theorem sign_canon_none (hin : ParamsIn pp) (hm : InTors g1B r g2alpha) (π : List Slot) (ρ : Nat) (pre : G1Pt)
    (msg s : Nat) (hsig : pp.signatures = true) (hpre : pre = patternProduct g1Ops pp π) :
    signPrecomputed g1Ops g2Ops pp (canon g1Ops g2Ops pp g2alpha π ρ) none pre msg s
      = (Pt.add g2alpha (Pt.smulFast (ρ + s) (Pt.add pre (Pt.smulFast msg pp.hsig))), Pt.smulFast (ρ + s) pp.g) := by
  subst hpre
  have h := C13.sign_canon_none g1OpsC_lawful g2OpsC_lawful hin.lift ⟨g2alpha, hm⟩ π ρ _ msg s hsig rfl
  rw [canon_val hin ⟨g2alpha, hm⟩, patternProduct_val hin, signPrecomputed_val hin, h]
  exact sig_val ⟨g2alpha, hm⟩ _ hin.lift.hsig hin.lift.g (ρ + s) msg

/-- the verification equation of the judge is the image of the abstract `verify`. -/
theorem verify_val (hin : ParamsIn pp) (prod : G1c) (sig : G1c × G2c) (msg : Nat) :
    verify eC hin.lift prod sig msg ↔ verifyRaw pp prod.1 (sig.1.1, sig.2.1) msg := by
  have hh : InTors g1B r pp.hsig := hin.hsig
  unfold verify verifyRaw
  rw [smulFast_eq' curveHyp_g1.two hh.1]
  constructor
  · intro h; exact congrArg Subtype.val h
  · intro h; exact GTc.ext h

/-- the signature produced by `sign_precomputed` (real operations) verifies (real pairing) for the signed message and
list. -/
theorem verify_sign (H : HBilinearFull) (hg : GensIn pp) (hs : SetupOkRaw pp g2alpha α) (π : List Slot) (ρ : Nat)
    (al : AttrList) (msg s : Nat) (hsig : pp.signatures = true) (hext : extendsOnFree π al = true) :
    verifyRaw pp (precompute g1Ops pp al)
      (signPrecomputed g1Ops g2Ops pp (canon g1Ops g2Ops pp g2alpha π ρ) (some al) (precompute g1Ops pp al) msg s)
      msg := by
  have hin := ParamsIn.of_setup hg hs
  have hm := hs.msk_in hg
  have h := C13.verify_sign g1OpsC_lawful g2OpsC_lawful G1c.expR (eC_bilinear H) hin.lift ⟨g2alpha, hm⟩ α
    (setupOk_lift hin hs hm) π ρ al msg s hsig hext
  rw [verify_val hin] at h
  rw [canon_val hin ⟨g2alpha, hm⟩, precompute_val hin, signPrecomputed_val hin]
  exact h

/-- "exactly": the canonical signature on (prod, msg) verifies for (prod', msg') iff the pairing of the difference of the
two bound elements is trivial — no assumption relating the two. -/
theorem verify_exact (H : HBilinearFull) (hg : GensIn pp) (hs : SetupOkRaw pp g2alpha α) (prod prod' : G1Pt)
    (hp : InTors g1B r prod) (hp' : InTors g1B r prod') (msg msg' k : Nat) :
    verifyRaw pp prod' (Pt.add g2alpha (Pt.smulFast k (Pt.add prod (Pt.smulFast msg pp.hsig))), Pt.smulFast k pp.g) msg'
      ↔ ateSpec (Pt.add (Pt.add prod (Pt.smulFast msg pp.hsig))
            (Pt.neg (Pt.add prod' (Pt.smulFast msg' pp.hsig)))) pp.g ^ k = 1 := by
  have hin := ParamsIn.of_setup hg hs
  have hm := hs.msk_in hg
  have hh : InTors g1B r pp.hsig := hin.hsig
  have h := C13.verify_exact (eC_bilinear H) hin.lift ⟨g2alpha, hm⟩ α (setupOk_lift hin hs hm) ⟨prod, hp⟩ ⟨prod', hp'⟩
    msg msg' k
  rw [verify_val hin] at h
  simp only [G1c.add_val, G1c.nsmul_val, G2c.nsmul_val, ParamsIn.lift] at h
  rw [smulFast_eq' curveHyp_g1.two hh.1, smulFast_eq' curveHyp_g1.two hh.1, smulFast_eq' curveHyp_g2.two hin.g.1,
    smulFast_eq' curveHyp_g1.two (hp.add curveHyp_g1 (hh.smul curveHyp_g1 msg)).1, h]
  constructor
  · intro h; exact congrArg Subtype.val h
  · intro h; exact GTc.ext h

/-- hence with a non-degenerate pairing (g ≠ ∞, r ∤ k) it verifies only for the same bound element. -/
theorem verify_only_signed (H : HBilinearFull) (N : C12b.HNonDegenerate) (hg : GensIn pp)
    (hs : SetupOkRaw pp g2alpha α) (hg0 : pp.g ≠ .inf) (prod prod' : G1Pt)
    (hp : InTors g1B r prod) (hp' : InTors g1B r prod') (msg msg' k : Nat) (hk : ¬ r ∣ k) :
    verifyRaw pp prod' (Pt.add g2alpha (Pt.smulFast k (Pt.add prod (Pt.smulFast msg pp.hsig))), Pt.smulFast k pp.g) msg'
      ↔ Pt.add prod (Pt.smulFast msg pp.hsig) = Pt.add prod' (Pt.smulFast msg' pp.hsig) := by
  rw [verify_exact H hg hs prod prod' hp hp' msg msg' k]
  have hx := hp.add curveHyp_g1 (hg.hsig.smulFast curveHyp_g1 msg)
  have hx' := hp'.add curveHyp_g1 (hg.hsig.smulFast curveHyp_g1 msg')
  constructor
  · intro h
    have h2 := C12b.hnd_of_nonDegenerate N hg.g hg0 hk _ (hx.add curveHyp_g1 (hx'.neg curveHyp_g1)) h
    have h3 : (⟨_, hx⟩ : G1c) - ⟨_, hx'⟩ = 0 := G1c.ext h2
    exact congrArg Subtype.val (sub_eq_zero.1 h3)
  · intro h
    rw [h, Pt.add_neg_self, ateSpec_inf_left, one_pow]

/-! ### Non-vacuity: for any parameters produced by setup with signature support -/
example (H : HBilinearFull) {pp : RawParams} {g2alpha : G1Pt} {α : Nat} (hg : GensIn pp) (hs : SetupOkRaw pp g2alpha α)
    (hsig : pp.signatures = true) (ρ s msg : Nat) :
    verifyRaw pp (precompute g1Ops pp Wk.Ex.alC)
      (signPrecomputed g1Ops g2Ops pp (canon g1Ops g2Ops pp g2alpha [.fixed 42, .free, .hidden] ρ) (some Wk.Ex.alC)
        (precompute g1Ops pp Wk.Ex.alC) msg s) msg :=
  verify_sign H hg hs _ ρ Wk.Ex.alC msg s hsig (by decide)

end Jedi.C13b
