/-
C18 — results do not depend on whether the output object aliases an input.

The statements are generated (Gen/TowerThms.lean, `*_alias`): for every translated method and every
alias pattern its signature permits, the model of the method translated *with the objects unified*
equals the all-distinct model on the same operands.  This module re-exports them; the check lists
and audits each one from Gen/tower_theorems.json.
-/
import JediVerif.Gen.TowerThms

namespace Jedi.C18
open Jedi Jedi.Gen
variable {R : Type} [CommRing R]

/-- representative instances, restated by hand. -/
theorem fq2_multiply_out_eq_a (a b : Q2 R) : Fq2.multiply_oa a b = Fq2.multiply a b := Fq2.multiply_oa_alias a b
theorem fq2_multiply_out_eq_b (a b : Q2 R) : Fq2.multiply_ob a b = Fq2.multiply a b := Fq2.multiply_ob_alias a b
theorem fq2_multiply_out_eq_a_eq_b (a : Q2 R) : Fq2.multiply_oab a = Fq2.multiply a a := Fq2.multiply_oab_alias a
theorem fq12_multiply_out_eq_a (a b : Q12 R) : Fq12.multiply_oa a b = Fq12.multiply a b := Fq12.multiply_oa_alias a b

end Jedi.C18
