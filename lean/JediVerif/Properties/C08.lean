/-
C08 — prepared and multi-pairing forms agree with the product of single pairings.

Property theorems only (lemmas: Proofs/MillerProofs.lean, Proofs/MillerProduct.lean).  `Impl.millerLoop`,
`Impl.prepare`, `Impl.pairing*` are the hand-written loops of pairing.cpp (Impl/Miller.lean) over the steps the
translator regenerates from pairing.cpp on every run (`miller_doubling_step`, `miller_addition_step`, `ell`,
`final_exponentiation`, and the Fq12 operations); the judge ties them to the real code exactly (raw Miller values,
stored coefficients, pairing values).  `F` is any type with the field notation (first group: no algebra is used at
all — both paths execute literally the same operations); `R` is any commutative ring of coefficients (second group).
-/
import JediVerif.Proofs.MillerProduct

namespace Jedi.C08
open Jedi Jedi.Gen Jedi.Impl

section structural
variable {F : Type} [Add F] [Sub F] [Mul F] [Neg F] [Zero F] [One F] [Inv F] [DecidableEq F] [TowerConsts F]

/-- `G2Prepared::prepare` stores exactly the line coefficients the on-the-fly loop computes, in consumption order. -/
theorem prepare_stores_loop_coefficients (g2 : Aff (Q2 F)) :
    (prepare g2).coeffs = coeffSeq g2 (Proj2.from_affine g2) millerBits ∧ (prepare g2).infinity = g2.infinity :=
  ⟨prepare_coeffs g2, prepare_infinity g2⟩

/-- the precomputation fills exactly `num_coeffs` = 68 entries (the `coeffs[68]` of the C header), for every input. -/
theorem prepare_fills_num_coeffs (g2 : Aff (Q2 F)) : (prepare g2).coeffs.length = Consts.num_coeffs ∧ Consts.num_coeffs = 68 :=
  ⟨prepare_length g2, rfl⟩

/-- the Miller loop with a precomputed second argument equals the plain Miller loop — every `g1`, `g2`, identity included. -/
theorem miller_prepared_eq_plain (g1 : Aff F) (g2 : Aff (Q2 F)) :
    millerLoop [] [(g1, prepare g2)] = millerLoop [(g1, g2)] [] := millerLoop_prepared_eq g1 g2

/-- a pairing evaluated with a precomputed second argument equals the plain pairing. -/
theorem prepared_pairing_eq_pairing (g1 : Aff F) (g2 : Aff (Q2 F)) :
    pairingPrepared g1 (prepare g2) = pairing g1 g2 := pairingPrepared_eq g1 g2
end structural

section product
variable {R : Type} [CommRing R] [Inv R] [DecidableEq R] [TowerConsts R]

/-- the Miller value of a list of pairs — plain and prepared in any mixture, any lengths including zero — is the
product of the Miller values of the single pairs. -/
theorem miller_product (as : List (Aff R × Aff (Q2 R))) (ps : List (Aff R × Prepared R)) :
    millerLoop as ps = (as.map fun p => millerLoop [p] []).prod * (ps.map fun p => millerLoop [] [p]).prod :=
  millerLoop_eq_prod as ps

/-- splitting the lists anywhere splits the Miller value into the corresponding product. -/
theorem miller_split (a1 a2 : List (Aff R × Aff (Q2 R))) (p1 p2 : List (Aff R × Prepared R)) :
    millerLoop (a1 ++ a2) (p1 ++ p2) = millerLoop a1 p1 * millerLoop a2 p2 := millerLoop_append a1 a2 p1 p2

/-- the empty product is the neutral element. -/
theorem miller_empty : millerLoop ([] : List (Aff R × Aff (Q2 R))) ([] : List (Aff R × Prepared R)) = 1 := millerLoop_nil

/-- a pair containing an identity element contributes the neutral element, wherever it stands in the list. -/
theorem identity_pair_neutral (g1 : Aff R) (g2 : Aff (Q2 R)) (h : (g1.infinity || g2.infinity) = true)
    (a1 a2 : List (Aff R × Aff (Q2 R))) (ps : List (Aff R × Prepared R)) :
    millerLoop (a1 ++ (g1, g2) :: a2) ps = millerLoop (a1 ++ a2) ps := by
  rw [millerLoop_eq_prod, millerLoop_eq_prod (a1 ++ a2)]
  simp [millerLoop_identity_affine g1 g2 h]

theorem identity_prepared_pair_neutral (g1 : Aff R) (P : Prepared R) (h : (g1.infinity || P.infinity) = true)
    (as : List (Aff R × Aff (Q2 R))) (p1 p2 : List (Aff R × Prepared R)) :
    millerLoop as (p1 ++ (g1, P) :: p2) = millerLoop as (p1 ++ p2) := by
  rw [millerLoop_eq_prod, millerLoop_eq_prod as (p1 ++ p2)]
  simp [millerLoop_identity_prepared g1 P h]

/-- the pairing-product routine is the final exponentiation of the product of the single Miller values; replacing any
plain pair by its prepared form does not change it. -/
theorem pairing_product_form (as : List (Aff R × Aff (Q2 R))) (ps : List (Aff R × Prepared R)) :
    pairingProduct as ps =
      final_exponentiation_oa ((as.map fun p => millerLoop [p] []).prod * (ps.map fun p => millerLoop [] [p]).prod) := by
  unfold pairingProduct; rw [millerLoop_eq_prod]

theorem miller_prepare_invariant (as : List (Aff R × Aff (Q2 R))) (ps : List (Aff R × Prepared R)) :
    millerLoop [] (as.map (fun p => (p.1, prepare p.2)) ++ ps) = millerLoop as ps := by
  rw [millerLoop_eq_prod, millerLoop_eq_prod as ps]
  simp only [List.map_nil, List.prod_nil, one_mul, List.map_append, List.prod_append, List.map_map]
  have h : ∀ p ∈ as, ((fun p => millerLoop [] [p]) ∘ fun (p : Aff R × Aff (Q2 R)) => (p.1, prepare p.2)) p =
      (fun p => millerLoop [p] []) p := by
    rintro ⟨g1, g2⟩ _
    simp only [Function.comp_apply]
    rw [millerLoop_prepared_eq g1 g2]
  rw [List.map_congr_left h]

theorem pairing_product_prepare_invariant (as : List (Aff R × Aff (Q2 R))) (ps : List (Aff R × Prepared R)) :
    pairingProduct [] (as.map (fun p => (p.1, prepare p.2)) ++ ps) = pairingProduct as ps :=
  congrArg final_exponentiation_oa (miller_prepare_invariant as ps)

/-- non-vacuity: the statements speak about the 68-coefficient computation on real inputs (here over ℤ/(7), where the
arithmetic is executable): a prepared Miller value on a concrete point pair is a non-trivial element. -/
example : (coeffSeq (F := Int) ⟨⟨1, 2⟩, ⟨3, 4⟩, false⟩ ⟨⟨1, 2⟩, ⟨3, 4⟩, ⟨1, 0⟩⟩ [true, false]).length = 4 := by decide

end product
end Jedi.C08
