/-
C03 (continued) — the AArch64 assembly routines of /repo/src/core/arch/aarch64/{bigint.s, multiply.s}.

Instruction-level, for ALL inputs.  The programs are the ones regenerated from the sources on every check
(`JediVerif/Gen/AsmA64.lean`, produced by translate/arm2lean.py and cross-checked against llvm-mc), executed by the
machine model of `JediVerif/Impl/A64.lean`.  For each of

    embedded_pairing_core_arch_aarch64_bigint_384_add              (bool f(res, a, b))
    embedded_pairing_core_arch_aarch64_bigint_384_subtract         (bool f(res, a, b))
    embedded_pairing_core_arch_aarch64_bigint_384_multiply2        (u64  f(res, a))
    embedded_pairing_core_arch_aarch64_bigint_768_multiply         (void f(res, a, b))
    embedded_pairing_core_arch_aarch64_bigint_768_square           (void f(res, a))
    embedded_pairing_core_arch_aarch64_fpbase_384_montgomery_reduce (void f(res, T, p, inv))
    embedded_pairing_core_arch_aarch64_fpbase_384_multiply         (void f(res, a, b, p, inv))
    embedded_pairing_core_arch_aarch64_fpbase_384_square           (void f(res, a, p, inv))

and every state `s` that satisfies AAPCS64 at entry (arguments in X0…, any pointer values, any memory contents, any
values in the other registers, the flags N Z C V unknown; the objects 8-byte aligned, inside the address space,
readable / writable as the C signature says; SP 16-byte aligned with room for the register pairs the routine saves),
running the program with any fuel ≥ its length
  (1) returns properly (`A64.Returned`: halted by `ret` to the address in X30, SP as at entry, X19–X28, the frame
      pointer X29 and the platform register X18 intact; no fault of any kind on the way: no unaligned or unpermitted
      access, no SP misalignment, no use of an unknown flag),
  (2) leaves in `res` (and X0) the Nat-level contract — the one `Properties/C02.lean` proves for the portable models
      and `Properties/C03.lean`, `C03b.lean` prove for the x86-64 routines,
  (3) and therefore the SAME limbs (and carry / borrow) as the portable model (`…_eq_portable`) and as the x86-64
      routine (`…_agrees_x86`: started from states with the same operand limbs, whatever else differs),
  (4) writes nothing but `res` and the save area below SP (frame condition).

Aliasing.  add / subtract / multiply2 interleave loads and stores pair by pair: `res` may be the same object as `a`
and/or `b`, or disjoint from them (`SameOrDisjoint`).  The other five routines load all their operands (and the
modulus) into registers before the first store to `res`: `res` may overlap the operands and `p` in ANY way — no
disjointness hypothesis at all (the x86-64 multiply/square need `res` disjoint from the operands); only the save
area below SP must be disjoint from every object (`OffStack`).  The three leaf routines do not touch the stack and have
no stack hypothesis.

Side conditions of the Montgomery routines: `inv·P ≡ −1 (mod 2^64)`; `2P ≤ 2^384` (genuine, as for the C++ and the
x86-64 code: the last round drops the carry out of the top word, `adcs \dst11, \dst11, \dst5`, and the final
comparison subtracts `P` at most once); `T < P·2^384` resp. `a·b < P·2^384`, `a² < P·2^384` (implied by operands
`< P`; the `_eq_portable` corollaries assume operands `< P` because `C02.fp_multiply` does).

ARMv6-M (Thumb-1): the three BigInt<384> routines of bigint.s are at the end of this file (`armv6m_…`).  What is NOT
here: the Thumb-1 multiplication / squaring / Montgomery routines of armv6_m/multiply.s (3.6k–5.6k straight-line instructions each, 21k in
total; model `Impl/Thumb1.lean`, judge only).

Proofs: `JediVerif/Proofs/A64Proofs{,Mul,Sqr,Mont,FpMulParts,FpMul,FpSqrParts,FpSqr}.lean`, `JediVerif/Proofs/Thumb1Proofs.lean`.
-/
import JediVerif.Proofs.A64ProofsFpMul
import JediVerif.Proofs.A64ProofsFpSqr
import JediVerif.Proofs.Thumb1Proofs
import JediVerif.Properties.C03
import JediVerif.Properties.C03b

set_option exponentiation.threshold 800

namespace Jedi.C03
open Jedi Jedi.Impl Jedi.A64 Jedi.Gen.AsmA64
open Jedi.X86 (limbs limbs_WF limbs_length limbs_carry_unique)
open Jedi.Gen.AsmX86

private theorem pow64_6' : ((2 : ℕ) ^ 64) ^ 6 = 2 ^ 384 := by rw [← Nat.pow_mul]

private theorem limbs6_lt (m : Nat → A64.Word) (p : Nat) : val (2 ^ 64) (limbs m p 6) < 2 ^ 384 := by
  have := val_lt (limbs_WF m p 6); rwa [limbs_length, pow64_6'] at this

/-! ## BigInt<384> -/

/-- `bigint_384_add`: `res + 2^384·X0 = a + b`, `X0 ≤ 1`. -/
theorem aarch64_bigint_384_add (s : State) (pr pa pb : Word) (fuel : Nat) (hfuel : 17 ≤ fuel)
    (hst : s.status = .running) (hpc : s.pc = 0) (h0 : s.x0 = pr) (h1 : s.x1 = pa) (h2 : s.x2 = pb)
    (hr : Buf s pr 6 true) (ha : Buf s pa 6 false) (hb : Buf s pb 6 false)
    (hra : SameOrDisjoint pr pa 6) (hrb : SameOrDisjoint pr pb 6) :
    Returned s (run embedded_pairing_core_arch_aarch64_bigint_384_add s fuel) ∧
    val (2 ^ 64) (limbs (run embedded_pairing_core_arch_aarch64_bigint_384_add s fuel).mem pr.toNat 6) + 2 ^ 384 * (run embedded_pairing_core_arch_aarch64_bigint_384_add s fuel).x0.toNat
      = val (2 ^ 64) (limbs s.mem pa.toNat 6) + val (2 ^ 64) (limbs s.mem pb.toNat 6) ∧
    (run embedded_pairing_core_arch_aarch64_bigint_384_add s fuel).x0.toNat ≤ 1 ∧
    (∀ k, ¬(pr.toNat ≤ k ∧ k < pr.toNat + 48) → (run embedded_pairing_core_arch_aarch64_bigint_384_add s fuel).mem k = s.mem k) := by
  obtain ⟨s', h, hret, rest⟩ := bigint_384_add_run s pr pa pb hst hpc h0 h1 h2 hr ha hb hra hrb
  rw [run_fuel h hret.halted fuel hfuel]
  exact ⟨hret, rest⟩

/-- … hence the limbs and the carry of the portable `BigInt::add` (model `addLoop`, contract `C02.bigint_add`). -/
theorem aarch64_bigint_384_add_eq_portable (s : State) (pr pa pb : Word) (fuel : Nat) (hfuel : 17 ≤ fuel)
    (hst : s.status = .running) (hpc : s.pc = 0) (h0 : s.x0 = pr) (h1 : s.x1 = pa) (h2 : s.x2 = pb)
    (hr : Buf s pr 6 true) (ha : Buf s pa 6 false) (hb : Buf s pb 6 false)
    (hra : SameOrDisjoint pr pa 6) (hrb : SameOrDisjoint pr pb 6) :
    limbs (run embedded_pairing_core_arch_aarch64_bigint_384_add s fuel).mem pr.toNat 6 = (addLoop (2 ^ 64) (limbs s.mem pa.toNat 6) (limbs s.mem pb.toNat 6) 0).1 ∧
    (run embedded_pairing_core_arch_aarch64_bigint_384_add s fuel).x0.toNat = (addLoop (2 ^ 64) (limbs s.mem pa.toNat 6) (limbs s.mem pb.toNat 6) 0).2 := by
  obtain ⟨-, hv, hc, -⟩ := aarch64_bigint_384_add s pr pa pb fuel hfuel hst hpc h0 h1 h2 hr ha hb hra hrb
  obtain ⟨w, l, c, v⟩ := C02.bigint_add (c := 0) (limbs_WF s.mem pa.toNat 6) (limbs_WF s.mem pb.toNat 6)
    (by simp [limbs_length]) (by omega)
  rw [limbs_length] at l v
  rw [pow64_6'] at v
  exact limbs_carry_unique (n := 6) (limbs_WF _ _ _) w (limbs_length _ _ _) l hc c (by rw [pow64_6']; omega)

/-- … and of the x86-64 routine (`C03.bigint_384_add`), on states with the same operand limbs: same result limbs, same
returned carry (rax resp. X0). -/
theorem aarch64_bigint_384_add_agrees_x86 (s₁ : X86.State) (s₂ : State) (pr₁ pa₁ pb₁ pr₂ pa₂ pb₂ : Word) (f₁ f₂ : Nat) (hf₁ : 21 ≤ f₁) (hf₂ : 17 ≤ f₂)
    (hst₁ : s₁.status = .running) (hpc₁ : s₁.pc = 0) (hdi₁ : s₁.rdi = pr₁) (hsi₁ : s₁.rsi = pa₁) (hdx₁ : s₁.rdx = pb₁)
    (hr₁ : X86.Buf s₁ pr₁ 6 true) (ha₁ : X86.Buf s₁ pa₁ 6 false) (hb₁ : X86.Buf s₁ pb₁ 6 false)
    (hra₁ : X86.SameOrDisjoint pr₁ pa₁ 6) (hrb₁ : X86.SameOrDisjoint pr₁ pb₁ 6)
    (hstk₁ : X86.Stack s₁ 0) (hrs₁ : X86.OffStack s₁ 0 pr₁ 6)
    (hst₂ : s₂.status = .running) (hpc₂ : s₂.pc = 0) (h0₂ : s₂.x0 = pr₂) (h1₂ : s₂.x1 = pa₂) (h2₂ : s₂.x2 = pb₂)
    (hr₂ : Buf s₂ pr₂ 6 true) (ha₂ : Buf s₂ pa₂ 6 false) (hb₂ : Buf s₂ pb₂ 6 false)
    (hra₂ : SameOrDisjoint pr₂ pa₂ 6) (hrb₂ : SameOrDisjoint pr₂ pb₂ 6)
    (hA : limbs s₁.mem pa₁.toNat 6 = limbs s₂.mem pa₂.toNat 6)
    (hB : limbs s₁.mem pb₁.toNat 6 = limbs s₂.mem pb₂.toNat 6) :
    limbs (X86.run embedded_pairing_core_arch_x86_64_bigint_384_add s₁ f₁).mem pr₁.toNat 6 = limbs (run embedded_pairing_core_arch_aarch64_bigint_384_add s₂ f₂).mem pr₂.toNat 6 ∧
    (X86.run embedded_pairing_core_arch_x86_64_bigint_384_add s₁ f₁).rax.toNat = (run embedded_pairing_core_arch_aarch64_bigint_384_add s₂ f₂).x0.toNat := by
  obtain ⟨e1, e2⟩ := bigint_384_add_eq_portable s₁ pr₁ pa₁ pb₁ f₁ hf₁ hst₁ hpc₁ hdi₁ hsi₁ hdx₁ hr₁ ha₁ hb₁ hra₁ hrb₁ hstk₁ hrs₁
  obtain ⟨e3, e4⟩ := aarch64_bigint_384_add_eq_portable s₂ pr₂ pa₂ pb₂ f₂ hf₂ hst₂ hpc₂ h0₂ h1₂ h2₂ hr₂ ha₂ hb₂ hra₂ hrb₂
  rw [e1, e2, e3, e4, hA, hB]
  exact ⟨rfl, rfl⟩

/-- `bigint_384_subtract`: `res + b = a + 2^384·X0`, `X0 ≤ 1` (X0 = borrow = inverted carry flag: `cset x0, cc`). -/
theorem aarch64_bigint_384_subtract (s : State) (pr pa pb : Word) (fuel : Nat) (hfuel : 17 ≤ fuel)
    (hst : s.status = .running) (hpc : s.pc = 0) (h0 : s.x0 = pr) (h1 : s.x1 = pa) (h2 : s.x2 = pb)
    (hr : Buf s pr 6 true) (ha : Buf s pa 6 false) (hb : Buf s pb 6 false)
    (hra : SameOrDisjoint pr pa 6) (hrb : SameOrDisjoint pr pb 6) :
    Returned s (run embedded_pairing_core_arch_aarch64_bigint_384_subtract s fuel) ∧
    val (2 ^ 64) (limbs (run embedded_pairing_core_arch_aarch64_bigint_384_subtract s fuel).mem pr.toNat 6) + val (2 ^ 64) (limbs s.mem pb.toNat 6)
      = val (2 ^ 64) (limbs s.mem pa.toNat 6) + 2 ^ 384 * (run embedded_pairing_core_arch_aarch64_bigint_384_subtract s fuel).x0.toNat ∧
    (run embedded_pairing_core_arch_aarch64_bigint_384_subtract s fuel).x0.toNat ≤ 1 ∧
    (∀ k, ¬(pr.toNat ≤ k ∧ k < pr.toNat + 48) → (run embedded_pairing_core_arch_aarch64_bigint_384_subtract s fuel).mem k = s.mem k) := by
  obtain ⟨s', h, hret, rest⟩ := bigint_384_subtract_run s pr pa pb hst hpc h0 h1 h2 hr ha hb hra hrb
  rw [run_fuel h hret.halted fuel hfuel]
  exact ⟨hret, rest⟩

/-- … hence the limbs and the borrow of the portable `BigInt::subtract` (`subLoop`, `C02.bigint_subtract`). -/
theorem aarch64_bigint_384_subtract_eq_portable (s : State) (pr pa pb : Word) (fuel : Nat) (hfuel : 17 ≤ fuel)
    (hst : s.status = .running) (hpc : s.pc = 0) (h0 : s.x0 = pr) (h1 : s.x1 = pa) (h2 : s.x2 = pb)
    (hr : Buf s pr 6 true) (ha : Buf s pa 6 false) (hb : Buf s pb 6 false)
    (hra : SameOrDisjoint pr pa 6) (hrb : SameOrDisjoint pr pb 6) :
    limbs (run embedded_pairing_core_arch_aarch64_bigint_384_subtract s fuel).mem pr.toNat 6 = (subLoop (2 ^ 64) (limbs s.mem pa.toNat 6) (limbs s.mem pb.toNat 6) 0).1 ∧
    (run embedded_pairing_core_arch_aarch64_bigint_384_subtract s fuel).x0.toNat = (subLoop (2 ^ 64) (limbs s.mem pa.toNat 6) (limbs s.mem pb.toNat 6) 0).2 := by
  obtain ⟨-, hv, hc, -⟩ := aarch64_bigint_384_subtract s pr pa pb fuel hfuel hst hpc h0 h1 h2 hr ha hb hra hrb
  obtain ⟨w, l, c, v⟩ := C02.bigint_subtract (c := 0) (limbs_WF s.mem pa.toNat 6) (limbs_WF s.mem pb.toNat 6)
    (by simp [limbs_length]) (by omega)
  rw [limbs_length] at l v
  rw [pow64_6'] at v
  have key := limbs_carry_unique (n := 6) (limbs_WF (run embedded_pairing_core_arch_aarch64_bigint_384_subtract s fuel).mem pr.toNat 6) w (limbs_length _ _ _) l c hc
    (by rw [pow64_6']; omega)
  exact ⟨key.1, key.2.symm⟩

/-- … and of the x86-64 routine (`C03.bigint_384_subtract`), on states with the same operand limbs: same result limbs, same
returned carry (rax resp. X0). -/
theorem aarch64_bigint_384_subtract_agrees_x86 (s₁ : X86.State) (s₂ : State) (pr₁ pa₁ pb₁ pr₂ pa₂ pb₂ : Word) (f₁ f₂ : Nat) (hf₁ : 21 ≤ f₁) (hf₂ : 17 ≤ f₂)
    (hst₁ : s₁.status = .running) (hpc₁ : s₁.pc = 0) (hdi₁ : s₁.rdi = pr₁) (hsi₁ : s₁.rsi = pa₁) (hdx₁ : s₁.rdx = pb₁)
    (hr₁ : X86.Buf s₁ pr₁ 6 true) (ha₁ : X86.Buf s₁ pa₁ 6 false) (hb₁ : X86.Buf s₁ pb₁ 6 false)
    (hra₁ : X86.SameOrDisjoint pr₁ pa₁ 6) (hrb₁ : X86.SameOrDisjoint pr₁ pb₁ 6)
    (hstk₁ : X86.Stack s₁ 0) (hrs₁ : X86.OffStack s₁ 0 pr₁ 6)
    (hst₂ : s₂.status = .running) (hpc₂ : s₂.pc = 0) (h0₂ : s₂.x0 = pr₂) (h1₂ : s₂.x1 = pa₂) (h2₂ : s₂.x2 = pb₂)
    (hr₂ : Buf s₂ pr₂ 6 true) (ha₂ : Buf s₂ pa₂ 6 false) (hb₂ : Buf s₂ pb₂ 6 false)
    (hra₂ : SameOrDisjoint pr₂ pa₂ 6) (hrb₂ : SameOrDisjoint pr₂ pb₂ 6)
    (hA : limbs s₁.mem pa₁.toNat 6 = limbs s₂.mem pa₂.toNat 6)
    (hB : limbs s₁.mem pb₁.toNat 6 = limbs s₂.mem pb₂.toNat 6) :
    limbs (X86.run embedded_pairing_core_arch_x86_64_bigint_384_subtract s₁ f₁).mem pr₁.toNat 6 = limbs (run embedded_pairing_core_arch_aarch64_bigint_384_subtract s₂ f₂).mem pr₂.toNat 6 ∧
    (X86.run embedded_pairing_core_arch_x86_64_bigint_384_subtract s₁ f₁).rax.toNat = (run embedded_pairing_core_arch_aarch64_bigint_384_subtract s₂ f₂).x0.toNat := by
  obtain ⟨e1, e2⟩ := bigint_384_subtract_eq_portable s₁ pr₁ pa₁ pb₁ f₁ hf₁ hst₁ hpc₁ hdi₁ hsi₁ hdx₁ hr₁ ha₁ hb₁ hra₁ hrb₁ hstk₁ hrs₁
  obtain ⟨e3, e4⟩ := aarch64_bigint_384_subtract_eq_portable s₂ pr₂ pa₂ pb₂ f₂ hf₂ hst₂ hpc₂ h0₂ h1₂ h2₂ hr₂ ha₂ hb₂ hra₂ hrb₂
  rw [e1, e2, e3, e4, hA, hB]
  exact ⟨rfl, rfl⟩

/-- `bigint_384_multiply2` (= `shift_left_in_word<1>`): `res + 2^384·X0 = 2·a`, `X0 ≤ 1`. -/
theorem aarch64_bigint_384_multiply2 (s : State) (pr pa : Word) (fuel : Nat) (hfuel : 14 ≤ fuel)
    (hst : s.status = .running) (hpc : s.pc = 0) (h0 : s.x0 = pr) (h1 : s.x1 = pa)
    (hr : Buf s pr 6 true) (ha : Buf s pa 6 false)
    (hra : SameOrDisjoint pr pa 6) :
    Returned s (run embedded_pairing_core_arch_aarch64_bigint_384_multiply2 s fuel) ∧
    val (2 ^ 64) (limbs (run embedded_pairing_core_arch_aarch64_bigint_384_multiply2 s fuel).mem pr.toNat 6) + 2 ^ 384 * (run embedded_pairing_core_arch_aarch64_bigint_384_multiply2 s fuel).x0.toNat = 2 * val (2 ^ 64) (limbs s.mem pa.toNat 6) ∧
    (run embedded_pairing_core_arch_aarch64_bigint_384_multiply2 s fuel).x0.toNat ≤ 1 ∧
    (∀ k, ¬(pr.toNat ≤ k ∧ k < pr.toNat + 48) → (run embedded_pairing_core_arch_aarch64_bigint_384_multiply2 s fuel).mem k = s.mem k) := by
  obtain ⟨s', h, hret, rest⟩ := bigint_384_multiply2_run s pr pa hst hpc h0 h1 hr ha hra
  rw [run_fuel h hret.halted fuel hfuel]
  exact ⟨hret, rest⟩

/-- … hence the limbs and the shifted-out word of the portable `shift_left_in_word<1>` (`shl1`, `C02.bigint_shl1`). -/
theorem aarch64_bigint_384_multiply2_eq_portable (s : State) (pr pa : Word) (fuel : Nat) (hfuel : 14 ≤ fuel)
    (hst : s.status = .running) (hpc : s.pc = 0) (h0 : s.x0 = pr) (h1 : s.x1 = pa)
    (hr : Buf s pr 6 true) (ha : Buf s pa 6 false)
    (hra : SameOrDisjoint pr pa 6) :
    limbs (run embedded_pairing_core_arch_aarch64_bigint_384_multiply2 s fuel).mem pr.toNat 6 = (shl1 (2 ^ 64) (limbs s.mem pa.toNat 6)).1 ∧
    (run embedded_pairing_core_arch_aarch64_bigint_384_multiply2 s fuel).x0.toNat = (shl1 (2 ^ 64) (limbs s.mem pa.toNat 6)).2 := by
  obtain ⟨-, hv, hc, -⟩ := aarch64_bigint_384_multiply2 s pr pa fuel hfuel hst hpc h0 h1 hr ha hra
  obtain ⟨w, l, c, v⟩ := C02.bigint_shl1 (B := 2 ^ 64) (by norm_num) (limbs_WF s.mem pa.toNat 6)
  rw [limbs_length] at l v
  rw [pow64_6'] at v
  exact limbs_carry_unique (n := 6) (limbs_WF _ _ _) w (limbs_length _ _ _) l hc c (by rw [pow64_6']; omega)

/-- … and of the x86-64 routine (`C03.bigint_384_multiply2`), on states with the same operand limbs: same result limbs, same
returned carry (rax resp. X0). -/
theorem aarch64_bigint_384_multiply2_agrees_x86 (s₁ : X86.State) (s₂ : State) (pr₁ pa₁ pr₂ pa₂ : Word) (f₁ f₂ : Nat) (hf₁ : 21 ≤ f₁) (hf₂ : 14 ≤ f₂)
    (hst₁ : s₁.status = .running) (hpc₁ : s₁.pc = 0) (hdi₁ : s₁.rdi = pr₁) (hsi₁ : s₁.rsi = pa₁)
    (hr₁ : X86.Buf s₁ pr₁ 6 true) (ha₁ : X86.Buf s₁ pa₁ 6 false)
    (hra₁ : X86.SameOrDisjoint pr₁ pa₁ 6)
    (hstk₁ : X86.Stack s₁ 0) (hrs₁ : X86.OffStack s₁ 0 pr₁ 6)
    (hst₂ : s₂.status = .running) (hpc₂ : s₂.pc = 0) (h0₂ : s₂.x0 = pr₂) (h1₂ : s₂.x1 = pa₂)
    (hr₂ : Buf s₂ pr₂ 6 true) (ha₂ : Buf s₂ pa₂ 6 false)
    (hra₂ : SameOrDisjoint pr₂ pa₂ 6)
    (hA : limbs s₁.mem pa₁.toNat 6 = limbs s₂.mem pa₂.toNat 6) :
    limbs (X86.run embedded_pairing_core_arch_x86_64_bigint_384_multiply2 s₁ f₁).mem pr₁.toNat 6 = limbs (run embedded_pairing_core_arch_aarch64_bigint_384_multiply2 s₂ f₂).mem pr₂.toNat 6 ∧
    (X86.run embedded_pairing_core_arch_x86_64_bigint_384_multiply2 s₁ f₁).rax.toNat = (run embedded_pairing_core_arch_aarch64_bigint_384_multiply2 s₂ f₂).x0.toNat := by
  obtain ⟨e1, e2⟩ := bigint_384_multiply2_eq_portable s₁ pr₁ pa₁ f₁ hf₁ hst₁ hpc₁ hdi₁ hsi₁ hr₁ ha₁ hra₁ hstk₁ hrs₁
  obtain ⟨e3, e4⟩ := aarch64_bigint_384_multiply2_eq_portable s₂ pr₂ pa₂ f₂ hf₂ hst₂ hpc₂ h0₂ h1₂ hr₂ ha₂ hra₂
  rw [e1, e2, e3, e4, hA]
  exact ⟨rfl, rfl⟩

/-! ## BigInt<768> = BigInt<384> × BigInt<384>, BigInt<384>² -/

/-- `bigint_768_multiply`: `res = a · b` (twelve limbs); `res` may overlap `a`, `b` in any way. -/
theorem aarch64_bigint_768_multiply (s : State) (pr pa pb : Word) (fuel : Nat) (hfuel : 187 ≤ fuel)
    (hst : s.status = .running) (hpc : s.pc = 0) (h0 : s.x0 = pr) (h1 : s.x1 = pa) (h2 : s.x2 = pb)
    (hr : Buf s pr 12 true) (ha : Buf s pa 6 false) (hb : Buf s pb 6 false)
    (hstk : Stack s 5) (hrs : OffStack s 5 pr 12) (has : OffStack s 5 pa 6) (hbs : OffStack s 5 pb 6) :
    Returned s (run embedded_pairing_core_arch_aarch64_bigint_768_multiply s fuel) ∧
    val (2 ^ 64) (limbs (run embedded_pairing_core_arch_aarch64_bigint_768_multiply s fuel).mem pr.toNat 12) = val (2 ^ 64) (limbs s.mem pa.toNat 6) * val (2 ^ 64) (limbs s.mem pb.toNat 6) ∧
    (∀ k, ¬(pr.toNat ≤ k ∧ k < pr.toNat + 96) → ¬(s.sp.toNat - 80 ≤ k ∧ k < s.sp.toNat) →
      (run embedded_pairing_core_arch_aarch64_bigint_768_multiply s fuel).mem k = s.mem k) := by
  obtain ⟨s', h, hret, rest⟩ := bigint_768_multiply_run s pr pa pb hst hpc h0 h1 h2 hr ha hb hstk hrs has hbs
  rw [run_fuel h hret.halted fuel hfuel]
  exact ⟨hret, rest⟩

/-- … hence the limbs of the portable `BigInt::multiply` (model `mulLoop`, contract `C02.bigint_multiply`). -/
theorem aarch64_bigint_768_multiply_eq_portable (s : State) (pr pa pb : Word) (fuel : Nat) (hfuel : 187 ≤ fuel)
    (hst : s.status = .running) (hpc : s.pc = 0) (h0 : s.x0 = pr) (h1 : s.x1 = pa) (h2 : s.x2 = pb)
    (hr : Buf s pr 12 true) (ha : Buf s pa 6 false) (hb : Buf s pb 6 false)
    (hstk : Stack s 5) (hrs : OffStack s 5 pr 12) (has : OffStack s 5 pa 6) (hbs : OffStack s 5 pb 6) :
    limbs (run embedded_pairing_core_arch_aarch64_bigint_768_multiply s fuel).mem pr.toNat 12 = mulLoop (2 ^ 64) (limbs s.mem pa.toNat 6) (limbs s.mem pb.toNat 6) := by
  obtain ⟨-, hv, -⟩ := aarch64_bigint_768_multiply s pr pa pb fuel hfuel hst hpc h0 h1 h2 hr ha hb hstk hrs has hbs
  obtain ⟨w, l, v⟩ := C02.bigint_multiply (B := 2 ^ 64) (by norm_num) (limbs_WF s.mem pa.toNat 6)
    (limbs_WF s.mem pb.toNat 6)
  exact val_inj (limbs_WF _ _ _) w (by rw [l, limbs_length, limbs_length, limbs_length]) (by rw [hv, v])

/-- … and of the x86-64 routine (`C03.bigint_768_multiply`, baseline family; hence also the BMI2/ADX one), on states with the same
operand limbs. -/
theorem aarch64_bigint_768_multiply_agrees_x86 (s₁ : X86.State) (s₂ : State) (pr₁ pa₁ pb₁ pr₂ pa₂ pb₂ : Word) (f₁ f₂ : Nat) (hf₁ : 260 ≤ f₁) (hf₂ : 187 ≤ f₂)
    (hst₁ : s₁.status = .running) (hpc₁ : s₁.pc = 0) (hdi₁ : s₁.rdi = pr₁) (hsi₁ : s₁.rsi = pa₁) (hdx₁ : s₁.rdx = pb₁)
    (hr₁ : X86.Buf s₁ pr₁ 12 true) (ha₁ : X86.Buf s₁ pa₁ 6 false) (hb₁ : X86.Buf s₁ pb₁ 6 false)
    (hra₁ : X86.Disjoint pr₁ 12 pa₁ 6) (hrb₁ : X86.Disjoint pr₁ 12 pb₁ 6)
    (hstk₁ : X86.Stack s₁ 4) (hrs₁ : X86.OffStack s₁ 4 pr₁ 12) (has₁ : X86.OffStack s₁ 4 pa₁ 6) (hbs₁ : X86.OffStack s₁ 4 pb₁ 6)
    (hst₂ : s₂.status = .running) (hpc₂ : s₂.pc = 0) (h0₂ : s₂.x0 = pr₂) (h1₂ : s₂.x1 = pa₂) (h2₂ : s₂.x2 = pb₂)
    (hr₂ : Buf s₂ pr₂ 12 true) (ha₂ : Buf s₂ pa₂ 6 false) (hb₂ : Buf s₂ pb₂ 6 false)
    (hstk₂ : Stack s₂ 5) (hrs₂ : OffStack s₂ 5 pr₂ 12) (has₂ : OffStack s₂ 5 pa₂ 6) (hbs₂ : OffStack s₂ 5 pb₂ 6)
    (hA : limbs s₁.mem pa₁.toNat 6 = limbs s₂.mem pa₂.toNat 6)
    (hB : limbs s₁.mem pb₁.toNat 6 = limbs s₂.mem pb₂.toNat 6) :
    limbs (X86.run embedded_pairing_core_arch_x86_64_bigint_768_multiply s₁ f₁).mem pr₁.toNat 12 = limbs (run embedded_pairing_core_arch_aarch64_bigint_768_multiply s₂ f₂).mem pr₂.toNat 12 := by
  rw [bigint_768_multiply_eq_portable s₁ pr₁ pa₁ pb₁ f₁ hf₁ hst₁ hpc₁ hdi₁ hsi₁ hdx₁ hr₁ ha₁ hb₁ hra₁ hrb₁ hstk₁ hrs₁ has₁ hbs₁,
    aarch64_bigint_768_multiply_eq_portable s₂ pr₂ pa₂ pb₂ f₂ hf₂ hst₂ hpc₂ h0₂ h1₂ h2₂ hr₂ ha₂ hb₂ hstk₂ hrs₂ has₂ hbs₂, hA, hB]

/-- `bigint_768_square`: `res = a²` (twelve limbs); `res` may overlap `a` in any way. -/
theorem aarch64_bigint_768_square (s : State) (pr pa : Word) (fuel : Nat) (hfuel : 110 ≤ fuel)
    (hst : s.status = .running) (hpc : s.pc = 0) (h0 : s.x0 = pr) (h1 : s.x1 = pa)
    (hr : Buf s pr 12 true) (ha : Buf s pa 6 false)
    (hstk : Stack s 2) (hrs : OffStack s 2 pr 12) (has : OffStack s 2 pa 6) :
    Returned s (run embedded_pairing_core_arch_aarch64_bigint_768_square s fuel) ∧
    val (2 ^ 64) (limbs (run embedded_pairing_core_arch_aarch64_bigint_768_square s fuel).mem pr.toNat 12) = val (2 ^ 64) (limbs s.mem pa.toNat 6) * val (2 ^ 64) (limbs s.mem pa.toNat 6) ∧
    (∀ k, ¬(pr.toNat ≤ k ∧ k < pr.toNat + 96) → ¬(s.sp.toNat - 32 ≤ k ∧ k < s.sp.toNat) →
      (run embedded_pairing_core_arch_aarch64_bigint_768_square s fuel).mem k = s.mem k) := by
  obtain ⟨s', h, hret, rest⟩ := bigint_768_square_run s pr pa hst hpc h0 h1 hr ha hstk hrs has
  rw [run_fuel h hret.halted fuel hfuel]
  exact ⟨hret, rest⟩

/-- … hence the limbs of the portable `BigInt::square` (model `sqrLoop`, contract `C02.bigint_square`) — and of
`multiply(a, a)` (`C02.bigint_square_eq_multiply`). -/
theorem aarch64_bigint_768_square_eq_portable (s : State) (pr pa : Word) (fuel : Nat) (hfuel : 110 ≤ fuel)
    (hst : s.status = .running) (hpc : s.pc = 0) (h0 : s.x0 = pr) (h1 : s.x1 = pa)
    (hr : Buf s pr 12 true) (ha : Buf s pa 6 false)
    (hstk : Stack s 2) (hrs : OffStack s 2 pr 12) (has : OffStack s 2 pa 6) :
    limbs (run embedded_pairing_core_arch_aarch64_bigint_768_square s fuel).mem pr.toNat 12 = sqrLoop (2 ^ 64) (limbs s.mem pa.toNat 6) := by
  obtain ⟨-, hv, -⟩ := aarch64_bigint_768_square s pr pa fuel hfuel hst hpc h0 h1 hr ha hstk hrs has
  obtain ⟨w, l, v⟩ := C02.bigint_square (B := 2 ^ 64) (by norm_num) (limbs_WF s.mem pa.toNat 6)
    (by rw [limbs_length]; omega)
  exact val_inj (limbs_WF _ _ _) w (by rw [l, limbs_length, limbs_length]) (by rw [hv, v])

/-- … and of the x86-64 routine (`C03.bigint_768_square`, baseline family; hence also the BMI2/ADX one), on states with the same
operand limbs. -/
theorem aarch64_bigint_768_square_agrees_x86 (s₁ : X86.State) (s₂ : State) (pr₁ pa₁ pr₂ pa₂ : Word) (f₁ f₂ : Nat) (hf₁ : 177 ≤ f₁) (hf₂ : 110 ≤ f₂)
    (hst₁ : s₁.status = .running) (hpc₁ : s₁.pc = 0) (hdi₁ : s₁.rdi = pr₁) (hsi₁ : s₁.rsi = pa₁)
    (hr₁ : X86.Buf s₁ pr₁ 12 true) (ha₁ : X86.Buf s₁ pa₁ 6 false)
    (hra₁ : X86.Disjoint pr₁ 12 pa₁ 6)
    (hstk₁ : X86.Stack s₁ 7) (hrs₁ : X86.OffStack s₁ 7 pr₁ 12) (has₁ : X86.OffStack s₁ 7 pa₁ 6)
    (hst₂ : s₂.status = .running) (hpc₂ : s₂.pc = 0) (h0₂ : s₂.x0 = pr₂) (h1₂ : s₂.x1 = pa₂)
    (hr₂ : Buf s₂ pr₂ 12 true) (ha₂ : Buf s₂ pa₂ 6 false)
    (hstk₂ : Stack s₂ 2) (hrs₂ : OffStack s₂ 2 pr₂ 12) (has₂ : OffStack s₂ 2 pa₂ 6)
    (hA : limbs s₁.mem pa₁.toNat 6 = limbs s₂.mem pa₂.toNat 6) :
    limbs (X86.run embedded_pairing_core_arch_x86_64_bigint_768_square s₁ f₁).mem pr₁.toNat 12 = limbs (run embedded_pairing_core_arch_aarch64_bigint_768_square s₂ f₂).mem pr₂.toNat 12 := by
  rw [bigint_768_square_eq_portable s₁ pr₁ pa₁ f₁ hf₁ hst₁ hpc₁ hdi₁ hsi₁ hr₁ ha₁ hra₁ hstk₁ hrs₁ has₁,
    aarch64_bigint_768_square_eq_portable s₂ pr₂ pa₂ f₂ hf₂ hst₂ hpc₂ h0₂ h1₂ hr₂ ha₂ hstk₂ hrs₂ has₂, hA]

/-! ## FpBase<384>::montgomery_reduce -/

/-- `fpbase_384_montgomery_reduce`: `res < P` and `res · 2^384 ≡ T (mod P)`; `res` may overlap `T` and `p` in any way.
Every one of the twelve endings of the word-by-word comparison with `P` is followed. -/
theorem aarch64_fpbase_384_montgomery_reduce (s : State) (pr pt pp inv : Word) (fuel : Nat) (hfuel : 239 ≤ fuel)
    (hst : s.status = .running) (hpc : s.pc = 0) (h0 : s.x0 = pr) (h1 : s.x1 = pt) (h2 : s.x2 = pp) (h3 : s.x3 = inv)
    (hr : Buf s pr 6 true) (ht : Buf s pt 12 false) (hp : Buf s pp 6 false)
    (hstk : Stack s 4) (hrs : OffStack s 4 pr 6) (hts : OffStack s 4 pt 12) (hps : OffStack s 4 pp 6)
    (hinv : (inv.toNat * val (2 ^ 64) (limbs s.mem pp.toNat 6) + 1) % 2 ^ 64 = 0)
    (hT : val (2 ^ 64) (limbs s.mem pt.toNat 12) < val (2 ^ 64) (limbs s.mem pp.toNat 6) * 2 ^ 384)
    (h2P : 2 * val (2 ^ 64) (limbs s.mem pp.toNat 6) ≤ 2 ^ 384) :
    Returned s (run embedded_pairing_core_arch_aarch64_fpbase_384_montgomery_reduce s fuel) ∧
    val (2 ^ 64) (limbs (run embedded_pairing_core_arch_aarch64_fpbase_384_montgomery_reduce s fuel).mem pr.toNat 6) < val (2 ^ 64) (limbs s.mem pp.toNat 6) ∧
    (val (2 ^ 64) (limbs (run embedded_pairing_core_arch_aarch64_fpbase_384_montgomery_reduce s fuel).mem pr.toNat 6) * 2 ^ 384) % val (2 ^ 64) (limbs s.mem pp.toNat 6) = val (2 ^ 64) (limbs s.mem pt.toNat 12) % val (2 ^ 64) (limbs s.mem pp.toNat 6) ∧
    (∀ k, ¬(pr.toNat ≤ k ∧ k < pr.toNat + 48) → ¬(s.sp.toNat - 64 ≤ k ∧ k < s.sp.toNat) →
      (run embedded_pairing_core_arch_aarch64_fpbase_384_montgomery_reduce s fuel).mem k = s.mem k) := by
  obtain ⟨s', h, hret, rest⟩ := fpbase_384_montgomery_reduce_run s pr pt pp inv hst hpc h0 h1 h2 h3 hr ht hp hstk hrs hts hps hinv hT h2P
  rw [run_fuel h hret.halted fuel hfuel]
  exact ⟨hret, rest⟩

/-- … hence the limbs of the portable `FpBase::montgomery_reduce` (model `montReduce`, contract `C02.montgomery_reduce`): both
are the residue `< P` of `T · 2^{-384}`, and `2^384` is invertible modulo `P`. -/
theorem aarch64_fpbase_384_montgomery_reduce_eq_portable (s : State) (pr pt pp inv : Word) (fuel : Nat) (hfuel : 239 ≤ fuel)
    (hst : s.status = .running) (hpc : s.pc = 0) (h0 : s.x0 = pr) (h1 : s.x1 = pt) (h2 : s.x2 = pp) (h3 : s.x3 = inv)
    (hr : Buf s pr 6 true) (ht : Buf s pt 12 false) (hp : Buf s pp 6 false)
    (hstk : Stack s 4) (hrs : OffStack s 4 pr 6) (hts : OffStack s 4 pt 12) (hps : OffStack s 4 pp 6)
    (hinv : (inv.toNat * val (2 ^ 64) (limbs s.mem pp.toNat 6) + 1) % 2 ^ 64 = 0)
    (hT : val (2 ^ 64) (limbs s.mem pt.toNat 12) < val (2 ^ 64) (limbs s.mem pp.toNat 6) * 2 ^ 384)
    (h2P : 2 * val (2 ^ 64) (limbs s.mem pp.toNat 6) ≤ 2 ^ 384) :
    limbs (run embedded_pairing_core_arch_aarch64_fpbase_384_montgomery_reduce s fuel).mem pr.toNat 6
      = montReduce (2 ^ 64) 6 (limbs s.mem pt.toNat 12) (limbs s.mem pp.toNat 6) inv.toNat := by
  obtain ⟨-, hlt, hmod, -⟩ := aarch64_fpbase_384_montgomery_reduce s pr pt pp inv fuel hfuel hst hpc h0 h1 h2 h3 hr ht hp hstk hrs hts hps hinv hT h2P
  obtain ⟨w, l, plt, pmod⟩ := C02.montgomery_reduce (B := 2 ^ 64) (n := 6) (inv := inv.toNat)
    (limbs_WF s.mem pt.toNat 12) (limbs_WF s.mem pp.toNat 6) (limbs_length _ _ _) (by omega) (limbs_length _ _ _) hinv
    (by rw [pow64_6']; exact hT) (by rw [pow64_6']; exact h2P)
  rw [pow64_6'] at pmod
  have hc : Nat.gcd (val (2 ^ 64) (limbs s.mem pp.toNat 6)) (2 ^ 384) = 1 := by
    have := coprime_of_inv hinv 6; rwa [pow64_6'] at this
  have hx := eq_mod_of_mul_R hc hlt (hmod.trans pmod.symm)
  rw [Nat.mod_eq_of_lt plt] at hx
  exact val_inj (limbs_WF _ _ _) w (by rw [l, limbs_length]) hx

/-- … and of the x86-64 routine (`C03.fpbase_384_montgomery_reduce`, baseline family; hence also the BMI2/ADX one), on states
with the same `T`, `P` limbs and the same `inv`. -/
theorem aarch64_fpbase_384_montgomery_reduce_agrees_x86 (s₁ : X86.State) (s₂ : State) (pr₁ pt₁ pp₁ pr₂ pt₂ pp₂ inv : Word) (f₁ f₂ : Nat) (hf₁ : 338 ≤ f₁) (hf₂ : 239 ≤ f₂)
    (hst₁ : s₁.status = .running) (hpc₁ : s₁.pc = 0)
    (hdi₁ : s₁.rdi = pr₁) (hsi₁ : s₁.rsi = pt₁) (hdx₁ : s₁.rdx = pp₁) (hcx₁ : s₁.rcx = inv)
    (hr₁ : X86.Buf s₁ pr₁ 6 true) (ht₁ : X86.Buf s₁ pt₁ 12 false) (hp₁ : X86.Buf s₁ pp₁ 6 false)
    (hrp₁ : X86.Disjoint pr₁ 6 pp₁ 6) (hstk₁ : X86.Stack s₁ 6)
    (hrs₁ : X86.OffStack s₁ 6 pr₁ 6) (hts₁ : X86.OffStack s₁ 6 pt₁ 12) (hps₁ : X86.OffStack s₁ 6 pp₁ 6)
    (hst₂ : s₂.status = .running) (hpc₂ : s₂.pc = 0) (h0₂ : s₂.x0 = pr₂) (h1₂ : s₂.x1 = pt₂) (h2₂ : s₂.x2 = pp₂) (h3₂ : s₂.x3 = inv)
    (hr₂ : Buf s₂ pr₂ 6 true) (ht₂ : Buf s₂ pt₂ 12 false) (hp₂ : Buf s₂ pp₂ 6 false)
    (hstk₂ : Stack s₂ 4) (hrs₂ : OffStack s₂ 4 pr₂ 6) (hts₂ : OffStack s₂ 4 pt₂ 12) (hps₂ : OffStack s₂ 4 pp₂ 6)
    (hTe : limbs s₁.mem pt₁.toNat 12 = limbs s₂.mem pt₂.toNat 12)
    (hPe : limbs s₁.mem pp₁.toNat 6 = limbs s₂.mem pp₂.toNat 6)
    (hinv : (inv.toNat * val (2 ^ 64) (limbs s₂.mem pp₂.toNat 6) + 1) % 2 ^ 64 = 0)
    (hT : val (2 ^ 64) (limbs s₂.mem pt₂.toNat 12) < val (2 ^ 64) (limbs s₂.mem pp₂.toNat 6) * 2 ^ 384)
    (h2P : 2 * val (2 ^ 64) (limbs s₂.mem pp₂.toNat 6) ≤ 2 ^ 384) :
    limbs (X86.run embedded_pairing_core_arch_x86_64_fpbase_384_montgomery_reduce s₁ f₁).mem pr₁.toNat 6
      = limbs (run embedded_pairing_core_arch_aarch64_fpbase_384_montgomery_reduce s₂ f₂).mem pr₂.toNat 6 := by
  rw [fpbase_384_montgomery_reduce_eq_portable s₁ pr₁ pt₁ pp₁ inv f₁ hf₁ hst₁ hpc₁ hdi₁ hsi₁ hdx₁ hcx₁ hr₁ ht₁ hp₁ hrp₁ hstk₁
      hrs₁ hts₁ hps₁ (by rw [hPe]; exact hinv) (by rw [hTe, hPe]; exact hT) (by rw [hPe]; exact h2P),
    aarch64_fpbase_384_montgomery_reduce_eq_portable s₂ pr₂ pt₂ pp₂ inv f₂ hf₂ hst₂ hpc₂ h0₂ h1₂ h2₂ h3₂ hr₂ ht₂ hp₂ hstk₂
      hrs₂ hts₂ hps₂ hinv hT h2P, hTe, hPe]

/-! ## the fused FpBase<384>::multiply / square (multiplication and Montgomery reduction in registers) -/

/-- `fpbase_384_multiply`: `res < P` and `res · 2^384 ≡ a · b (mod P)`; `res` may overlap `a`, `b`, `p` in any way. -/
theorem aarch64_fpbase_384_multiply (s : State) (pr pa pb pp inv : Word) (fuel : Nat) (hfuel : 407 ≤ fuel)
    (hst : s.status = .running) (hpc : s.pc = 0) (h0 : s.x0 = pr) (h1 : s.x1 = pa) (h2 : s.x2 = pb) (h3 : s.x3 = pp) (h4 : s.x4 = inv)
    (hr : Buf s pr 6 true) (ha : Buf s pa 6 false) (hb : Buf s pb 6 false) (hp : Buf s pp 6 false)
    (hstk : Stack s 6) (hrs : OffStack s 6 pr 6) (has : OffStack s 6 pa 6) (hbs : OffStack s 6 pb 6) (hps : OffStack s 6 pp 6)
    (hinv : (inv.toNat * val (2 ^ 64) (limbs s.mem pp.toNat 6) + 1) % 2 ^ 64 = 0)
    (hAB : val (2 ^ 64) (limbs s.mem pa.toNat 6) * val (2 ^ 64) (limbs s.mem pb.toNat 6) < val (2 ^ 64) (limbs s.mem pp.toNat 6) * 2 ^ 384)
    (h2P : 2 * val (2 ^ 64) (limbs s.mem pp.toNat 6) ≤ 2 ^ 384) :
    Returned s (run embedded_pairing_core_arch_aarch64_fpbase_384_multiply s fuel) ∧
    val (2 ^ 64) (limbs (run embedded_pairing_core_arch_aarch64_fpbase_384_multiply s fuel).mem pr.toNat 6) < val (2 ^ 64) (limbs s.mem pp.toNat 6) ∧
    (val (2 ^ 64) (limbs (run embedded_pairing_core_arch_aarch64_fpbase_384_multiply s fuel).mem pr.toNat 6) * 2 ^ 384) % val (2 ^ 64) (limbs s.mem pp.toNat 6)
      = (val (2 ^ 64) (limbs s.mem pa.toNat 6) * val (2 ^ 64) (limbs s.mem pb.toNat 6)) % val (2 ^ 64) (limbs s.mem pp.toNat 6) ∧
    (∀ k, ¬(pr.toNat ≤ k ∧ k < pr.toNat + 48) → ¬(s.sp.toNat - 96 ≤ k ∧ k < s.sp.toNat) →
      (run embedded_pairing_core_arch_aarch64_fpbase_384_multiply s fuel).mem k = s.mem k) := by
  obtain ⟨s', h, hret, rest⟩ := fpbase_384_multiply_run s pr pa pb pp inv hst hpc h0 h1 h2 h3 h4 hr ha hb hp hstk hrs has hbs hps hinv hAB h2P
  rw [run_fuel h hret.halted fuel hfuel]
  exact ⟨hret, rest⟩

/-- … hence, for operands `< P`, the limbs of the portable `FpBase::multiply` (model `fpMul` = `mulLoop` then `montReduce`, contract
`C02.fp_multiply`) — i.e. of the x86-64 `bigint_768_multiply` followed by `fpbase_384_montgomery_reduce`. -/
theorem aarch64_fpbase_384_multiply_eq_portable (s : State) (pr pa pb pp inv : Word) (fuel : Nat) (hfuel : 407 ≤ fuel)
    (hst : s.status = .running) (hpc : s.pc = 0) (h0 : s.x0 = pr) (h1 : s.x1 = pa) (h2 : s.x2 = pb) (h3 : s.x3 = pp) (h4 : s.x4 = inv)
    (hr : Buf s pr 6 true) (ha : Buf s pa 6 false) (hb : Buf s pb 6 false) (hp : Buf s pp 6 false)
    (hstk : Stack s 6) (hrs : OffStack s 6 pr 6) (has : OffStack s 6 pa 6) (hbs : OffStack s 6 pb 6) (hps : OffStack s 6 pp 6)
    (hinv : (inv.toNat * val (2 ^ 64) (limbs s.mem pp.toNat 6) + 1) % 2 ^ 64 = 0)
    (hA : val (2 ^ 64) (limbs s.mem pa.toNat 6) < val (2 ^ 64) (limbs s.mem pp.toNat 6))
    (hB : val (2 ^ 64) (limbs s.mem pb.toNat 6) < val (2 ^ 64) (limbs s.mem pp.toNat 6))
    (h2P : 2 * val (2 ^ 64) (limbs s.mem pp.toNat 6) ≤ 2 ^ 384) :
    limbs (run embedded_pairing_core_arch_aarch64_fpbase_384_multiply s fuel).mem pr.toNat 6
      = fpMul (2 ^ 64) 6 (limbs s.mem pa.toNat 6) (limbs s.mem pb.toNat 6) (limbs s.mem pp.toNat 6) inv.toNat := by
  have hAB : val (2 ^ 64) (limbs s.mem pa.toNat 6) * val (2 ^ 64) (limbs s.mem pb.toNat 6) < val (2 ^ 64) (limbs s.mem pp.toNat 6) * 2 ^ 384 :=
    Nat.mul_lt_mul'' hA (limbs6_lt s.mem pb.toNat)
  obtain ⟨-, hlt, hmod, -⟩ := aarch64_fpbase_384_multiply s pr pa pb pp inv fuel hfuel hst hpc h0 h1 h2 h3 h4 hr ha hb hp hstk hrs has hbs hps hinv hAB h2P
  obtain ⟨w, l, plt, pmod⟩ := C02.fp_multiply (B := 2 ^ 64) (n := 6) (inv := inv.toNat) (limbs_WF s.mem pa.toNat 6)
    (limbs_WF s.mem pb.toNat 6) (limbs_WF s.mem pp.toNat 6) (limbs_length _ _ _) (by omega) (limbs_length _ _ _)
    (limbs_length _ _ _) hinv hA hB (by rw [pow64_6']; exact h2P)
  rw [pow64_6'] at pmod
  have hc : Nat.gcd (val (2 ^ 64) (limbs s.mem pp.toNat 6)) (2 ^ 384) = 1 := by
    have := coprime_of_inv hinv 6; rwa [pow64_6'] at this
  have hx := eq_mod_of_mul_R hc hlt (hmod.trans pmod.symm)
  rw [Nat.mod_eq_of_lt plt] at hx
  exact val_inj (limbs_WF _ _ _) w (by rw [l, limbs_length]) hx

/-- `fpbase_384_square`: `res < P` and `res · 2^384 ≡ a² (mod P)`; `res` may overlap `a`, `p` in any way. -/
theorem aarch64_fpbase_384_square (s : State) (pr pa pp inv : Word) (fuel : Nat) (hfuel : 334 ≤ fuel)
    (hst : s.status = .running) (hpc : s.pc = 0) (h0 : s.x0 = pr) (h1 : s.x1 = pa) (h2 : s.x2 = pp) (h3 : s.x3 = inv)
    (hr : Buf s pr 6 true) (ha : Buf s pa 6 false) (hp : Buf s pp 6 false)
    (hstk : Stack s 5) (hrs : OffStack s 5 pr 6) (has : OffStack s 5 pa 6) (hps : OffStack s 5 pp 6)
    (hinv : (inv.toNat * val (2 ^ 64) (limbs s.mem pp.toNat 6) + 1) % 2 ^ 64 = 0)
    (hAB : val (2 ^ 64) (limbs s.mem pa.toNat 6) * val (2 ^ 64) (limbs s.mem pa.toNat 6) < val (2 ^ 64) (limbs s.mem pp.toNat 6) * 2 ^ 384)
    (h2P : 2 * val (2 ^ 64) (limbs s.mem pp.toNat 6) ≤ 2 ^ 384) :
    Returned s (run embedded_pairing_core_arch_aarch64_fpbase_384_square s fuel) ∧
    val (2 ^ 64) (limbs (run embedded_pairing_core_arch_aarch64_fpbase_384_square s fuel).mem pr.toNat 6) < val (2 ^ 64) (limbs s.mem pp.toNat 6) ∧
    (val (2 ^ 64) (limbs (run embedded_pairing_core_arch_aarch64_fpbase_384_square s fuel).mem pr.toNat 6) * 2 ^ 384) % val (2 ^ 64) (limbs s.mem pp.toNat 6)
      = (val (2 ^ 64) (limbs s.mem pa.toNat 6) * val (2 ^ 64) (limbs s.mem pa.toNat 6)) % val (2 ^ 64) (limbs s.mem pp.toNat 6) ∧
    (∀ k, ¬(pr.toNat ≤ k ∧ k < pr.toNat + 48) → ¬(s.sp.toNat - 80 ≤ k ∧ k < s.sp.toNat) →
      (run embedded_pairing_core_arch_aarch64_fpbase_384_square s fuel).mem k = s.mem k) := by
  obtain ⟨s', h, hret, rest⟩ := fpbase_384_square_run s pr pa pp inv hst hpc h0 h1 h2 h3 hr ha hp hstk hrs has hps hinv hAB h2P
  rw [run_fuel h hret.halted fuel hfuel]
  exact ⟨hret, rest⟩

/-- … hence, for `a < P`, the limbs of the portable `FpBase::square` (model `fpSqr` = `sqrLoop` then `montReduce`, contract
`C02.fp_square`) — and of `multiply(a, a)` (`C02.fp_square_eq_multiply`). -/
theorem aarch64_fpbase_384_square_eq_portable (s : State) (pr pa pp inv : Word) (fuel : Nat) (hfuel : 334 ≤ fuel)
    (hst : s.status = .running) (hpc : s.pc = 0) (h0 : s.x0 = pr) (h1 : s.x1 = pa) (h2 : s.x2 = pp) (h3 : s.x3 = inv)
    (hr : Buf s pr 6 true) (ha : Buf s pa 6 false) (hp : Buf s pp 6 false)
    (hstk : Stack s 5) (hrs : OffStack s 5 pr 6) (has : OffStack s 5 pa 6) (hps : OffStack s 5 pp 6)
    (hinv : (inv.toNat * val (2 ^ 64) (limbs s.mem pp.toNat 6) + 1) % 2 ^ 64 = 0)
    (hA : val (2 ^ 64) (limbs s.mem pa.toNat 6) < val (2 ^ 64) (limbs s.mem pp.toNat 6))
    (h2P : 2 * val (2 ^ 64) (limbs s.mem pp.toNat 6) ≤ 2 ^ 384) :
    limbs (run embedded_pairing_core_arch_aarch64_fpbase_384_square s fuel).mem pr.toNat 6
      = fpSqr (2 ^ 64) 6 (limbs s.mem pa.toNat 6) (limbs s.mem pp.toNat 6) inv.toNat := by
  have hAB : val (2 ^ 64) (limbs s.mem pa.toNat 6) * val (2 ^ 64) (limbs s.mem pa.toNat 6) < val (2 ^ 64) (limbs s.mem pp.toNat 6) * 2 ^ 384 :=
    Nat.mul_lt_mul'' hA (limbs6_lt s.mem pa.toNat)
  obtain ⟨-, hlt, hmod, -⟩ := aarch64_fpbase_384_square s pr pa pp inv fuel hfuel hst hpc h0 h1 h2 h3 hr ha hp hstk hrs has hps hinv hAB h2P
  obtain ⟨w, l, plt, pmod⟩ := C02.fp_square (B := 2 ^ 64) (n := 6) (inv := inv.toNat) (by norm_num) (limbs_WF s.mem pa.toNat 6)
    (limbs_WF s.mem pp.toNat 6) (limbs_length _ _ _) (by omega) (limbs_length _ _ _) hinv hA
    (by rw [pow64_6']; exact h2P)
  rw [pow64_6'] at pmod
  have hc : Nat.gcd (val (2 ^ 64) (limbs s.mem pp.toNat 6)) (2 ^ 384) = 1 := by
    have := coprime_of_inv hinv 6; rwa [pow64_6'] at this
  have hx := eq_mod_of_mul_R hc hlt (hmod.trans pmod.symm)
  rw [Nat.mod_eq_of_lt plt] at hx
  exact val_inj (limbs_WF _ _ _) w (by rw [l, limbs_length]) hx

/-! ## Non-vacuity: concrete entry states satisfy all hypotheses

The states are the ones the judge builds (`A64.entryState`): arguments in X0…, the other registers poisoned, flags
unknown, a 64-qword stack below SP.  Every hypothesis of the theorems is discharged by evaluation, and the conclusion
is evaluated too.  Operands `q − 1` and `q − 2` (BLS12-381 base-field modulus `q`), `inv` = the low word of the
library's constant `fq_inv`; the result object is aliased with an operand wherever the theorem allows it. -/

section Examples
private def exA64 : Nat := Gen.Consts.fq_modulus - 1
private def exB64 : Nat := Gen.Consts.fq_modulus - 2
private def exInv64 : Nat := Gen.Consts.fq_inv % 2 ^ 64

private theorem a64buf_of (s : State) (p n : Nat) (w : Bool) (h1 : p + 8 * n ≤ 2 ^ 64) (h2 : p % 8 = 0) (h3 : p < 2 ^ 64)
    (hr : ∀ i, i < n → s.readable (p + 8 * i) = true)
    (hw : w = true → ∀ i, i < n → s.writable (p + 8 * i) = true) : Buf s (BitVec.ofNat 64 p) n w := by
  have e : (BitVec.ofNat 64 p).toNat = p := by rw [BitVec.toNat_ofNat]; exact Nat.mod_eq_of_lt h3
  exact ⟨by rw [e]; exact h1, by rw [e]; exact h2, by rw [e]; exact hr, by rw [e]; exact hw⟩

private theorem a64stack_of (s : State) (n : Nat) (h2 : s.sp.toNat % 16 = 0) (h3 : 16 * n ≤ s.sp.toNat)
    (h5 : ∀ i, i < 2 * n → s.readable (s.sp.toNat - 8 * (i + 1)) = true ∧ s.writable (s.sp.toNat - 8 * (i + 1)) = true) :
    Stack s n :=
  ⟨h2, h3, fun i hi1 hi2 => by
    have := h5 (i - 1) (by omega)
    rwa [show i - 1 + 1 = i by omega] at this⟩

/-- add / subtract: `res` is the same object as `a` -/
private def exAdd : State :=
  entryState ([0x20000, 0x20000, 0x21000].map (BitVec.ofNat 64))
    [{ base := 0x20000, words := wordsOfNat 6 exA64, writable := true },
     { base := 0x21000, words := wordsOfNat 6 exB64, writable := false }] 0x7FFF00001000 64

example :
    val (2 ^ 64) (limbs (run embedded_pairing_core_arch_aarch64_bigint_384_add exAdd 100).mem 0x20000 6)
      + 2 ^ 384 * (run embedded_pairing_core_arch_aarch64_bigint_384_add exAdd 100).x0.toNat = exA64 + exB64 ∧
    val (2 ^ 64) (limbs (run embedded_pairing_core_arch_aarch64_bigint_384_subtract exAdd 100).mem 0x20000 6) + exB64
      = exA64 + 2 ^ 384 * (run embedded_pairing_core_arch_aarch64_bigint_384_subtract exAdd 100).x0.toNat := by
  have h1 := (aarch64_bigint_384_add exAdd (BitVec.ofNat 64 0x20000) (BitVec.ofNat 64 0x20000) (BitVec.ofNat 64 0x21000) 100 (by decide) rfl rfl rfl rfl rfl
    (a64buf_of _ _ _ _ (by decide) (by decide) (by decide) (by decide) (fun _ => by decide)) (a64buf_of _ _ _ _ (by decide) (by decide) (by decide) (by decide) (by decide)) (a64buf_of _ _ _ _ (by decide) (by decide) (by decide) (by decide) (by decide))
    (Or.inl rfl) (Or.inr (by unfold A64.Disjoint; decide))).2.1
  have h2 := (aarch64_bigint_384_subtract exAdd (BitVec.ofNat 64 0x20000) (BitVec.ofNat 64 0x20000) (BitVec.ofNat 64 0x21000) 100 (by decide) rfl rfl rfl rfl rfl
    (a64buf_of _ _ _ _ (by decide) (by decide) (by decide) (by decide) (fun _ => by decide)) (a64buf_of _ _ _ _ (by decide) (by decide) (by decide) (by decide) (by decide)) (a64buf_of _ _ _ _ (by decide) (by decide) (by decide) (by decide) (by decide))
    (Or.inl rfl) (Or.inr (by unfold A64.Disjoint; decide))).2.1
  rw [show (BitVec.ofNat 64 0x20000).toNat = 0x20000 by decide] at h1 h2
  rw [show (BitVec.ofNat 64 0x21000).toNat = 0x21000 by decide] at h1 h2
  have ea : val (2 ^ 64) (limbs exAdd.mem 0x20000 6) = exA64 := by decide
  have eb : val (2 ^ 64) (limbs exAdd.mem 0x21000 6) = exB64 := by decide
  rw [ea, eb] at h1 h2
  exact ⟨h1, h2⟩

/-- multiply / square: `res` (twelve limbs) starts where `a` starts — an overlap the x86-64 routines do not allow -/
private def exMul : State :=
  entryState ([0x20000, 0x20000, 0x21000].map (BitVec.ofNat 64))
    [{ base := 0x20000, words := wordsOfNat 12 exA64, writable := true },
     { base := 0x21000, words := wordsOfNat 6 exB64, writable := false }] 0x7FFF00001000 64

example :
    val (2 ^ 64) (limbs (run embedded_pairing_core_arch_aarch64_bigint_768_multiply exMul 200).mem 0x20000 12) = exA64 * exB64 ∧
    val (2 ^ 64) (limbs (run embedded_pairing_core_arch_aarch64_bigint_768_square exMul 200).mem 0x20000 12) = exA64 * exA64 := by
  have h1 := (aarch64_bigint_768_multiply exMul (BitVec.ofNat 64 0x20000) (BitVec.ofNat 64 0x20000) (BitVec.ofNat 64 0x21000) 200 (by decide) rfl rfl rfl rfl rfl
    (a64buf_of _ _ _ _ (by decide) (by decide) (by decide) (by decide) (fun _ => by decide)) (a64buf_of _ _ _ _ (by decide) (by decide) (by decide) (by decide) (by decide)) (a64buf_of _ _ _ _ (by decide) (by decide) (by decide) (by decide) (by decide))
    (a64stack_of _ _ (by decide) (by decide) (by decide)) (by unfold A64.OffStack; decide) (by unfold A64.OffStack; decide) (by unfold A64.OffStack; decide)).2.1
  have h2 := (aarch64_bigint_768_square exMul (BitVec.ofNat 64 0x20000) (BitVec.ofNat 64 0x20000) 200 (by decide) rfl rfl rfl rfl
    (a64buf_of _ _ _ _ (by decide) (by decide) (by decide) (by decide) (fun _ => by decide)) (a64buf_of _ _ _ _ (by decide) (by decide) (by decide) (by decide) (by decide))
    (a64stack_of _ _ (by decide) (by decide) (by decide)) (by unfold A64.OffStack; decide) (by unfold A64.OffStack; decide)).2.1
  rw [show (BitVec.ofNat 64 0x20000).toNat = 0x20000 by decide] at h1 h2
  rw [show (BitVec.ofNat 64 0x21000).toNat = 0x21000 by decide] at h1
  have ea : val (2 ^ 64) (limbs exMul.mem 0x20000 6) = exA64 := by decide
  have eb : val (2 ^ 64) (limbs exMul.mem 0x21000 6) = exB64 := by decide
  rw [ea, eb] at h1
  rw [ea] at h2
  exact ⟨h1, h2⟩

/-- montgomery_reduce: `res` is the low half of the 12-limb object holding `T`, the modulus a separate read-only
object, `inv` in X3 -/
private def exRed : State :=
  entryState ([0x20000, 0x20000, 0x30000].map (BitVec.ofNat 64) ++ [BitVec.ofNat 64 exInv64])
    [{ base := 0x20000, words := wordsOfNat 12 (exA64 * exB64), writable := true },
     { base := 0x30000, words := wordsOfNat 6 Gen.Consts.fq_modulus, writable := false }] 0x7FFF00001000 64

example :
    val (2 ^ 64) (limbs (run embedded_pairing_core_arch_aarch64_fpbase_384_montgomery_reduce exRed 300).mem 0x20000 6)
      < Gen.Consts.fq_modulus ∧
    (val (2 ^ 64) (limbs (run embedded_pairing_core_arch_aarch64_fpbase_384_montgomery_reduce exRed 300).mem 0x20000 6)
      * 2 ^ 384) % Gen.Consts.fq_modulus = (exA64 * exB64) % Gen.Consts.fq_modulus := by
  have h1 := aarch64_fpbase_384_montgomery_reduce exRed (BitVec.ofNat 64 0x20000) (BitVec.ofNat 64 0x20000) (BitVec.ofNat 64 0x30000) (BitVec.ofNat 64 exInv64) 300 (by decide)
    rfl rfl rfl rfl rfl rfl
    (a64buf_of _ _ _ _ (by decide) (by decide) (by decide) (by decide) (fun _ => by decide)) (a64buf_of _ _ _ _ (by decide) (by decide) (by decide) (by decide) (by decide)) (a64buf_of _ _ _ _ (by decide) (by decide) (by decide) (by decide) (by decide))
    (a64stack_of _ _ (by decide) (by decide) (by decide)) (by unfold A64.OffStack; decide) (by unfold A64.OffStack; decide) (by unfold A64.OffStack; decide)
    (by decide) (by decide) (by decide)
  have hP : val (2 ^ 64) (limbs exRed.mem (BitVec.ofNat 64 0x30000).toNat 6) = Gen.Consts.fq_modulus := by decide
  have hTv : val (2 ^ 64) (limbs exRed.mem (BitVec.ofNat 64 0x20000).toNat 12) = exA64 * exB64 := by decide
  rw [hP, hTv] at h1
  rw [show (BitVec.ofNat 64 0x20000).toNat = 0x20000 by decide] at h1
  exact ⟨h1.2.1, h1.2.2.1⟩

/-- the fused multiply / square: `res` is the same object as `a`; `p` a read-only object, `inv` in X4 resp. X3 -/
private def exFpMul : State :=
  entryState ([0x20000, 0x20000, 0x21000, 0x30000].map (BitVec.ofNat 64) ++ [BitVec.ofNat 64 exInv64])
    [{ base := 0x20000, words := wordsOfNat 6 exA64, writable := true },
     { base := 0x21000, words := wordsOfNat 6 exB64, writable := false },
     { base := 0x30000, words := wordsOfNat 6 Gen.Consts.fq_modulus, writable := false }] 0x7FFF00001000 64

private def exFpSqr : State :=
  entryState ([0x20000, 0x20000, 0x30000].map (BitVec.ofNat 64) ++ [BitVec.ofNat 64 exInv64])
    [{ base := 0x20000, words := wordsOfNat 6 exA64, writable := true },
     { base := 0x30000, words := wordsOfNat 6 Gen.Consts.fq_modulus, writable := false }] 0x7FFF00001000 64

example :
    (val (2 ^ 64) (limbs (run embedded_pairing_core_arch_aarch64_fpbase_384_multiply exFpMul 500).mem 0x20000 6)
      < Gen.Consts.fq_modulus ∧
     (val (2 ^ 64) (limbs (run embedded_pairing_core_arch_aarch64_fpbase_384_multiply exFpMul 500).mem 0x20000 6)
      * 2 ^ 384) % Gen.Consts.fq_modulus = (exA64 * exB64) % Gen.Consts.fq_modulus) ∧
    (val (2 ^ 64) (limbs (run embedded_pairing_core_arch_aarch64_fpbase_384_square exFpSqr 500).mem 0x20000 6)
      < Gen.Consts.fq_modulus ∧
     (val (2 ^ 64) (limbs (run embedded_pairing_core_arch_aarch64_fpbase_384_square exFpSqr 500).mem 0x20000 6)
      * 2 ^ 384) % Gen.Consts.fq_modulus = (exA64 * exA64) % Gen.Consts.fq_modulus) := by
  have h1 := aarch64_fpbase_384_multiply exFpMul (BitVec.ofNat 64 0x20000) (BitVec.ofNat 64 0x20000) (BitVec.ofNat 64 0x21000) (BitVec.ofNat 64 0x30000) (BitVec.ofNat 64 exInv64) 500 (by decide)
    rfl rfl rfl rfl rfl rfl rfl
    (a64buf_of _ _ _ _ (by decide) (by decide) (by decide) (by decide) (fun _ => by decide)) (a64buf_of _ _ _ _ (by decide) (by decide) (by decide) (by decide) (by decide)) (a64buf_of _ _ _ _ (by decide) (by decide) (by decide) (by decide) (by decide)) (a64buf_of _ _ _ _ (by decide) (by decide) (by decide) (by decide) (by decide))
    (a64stack_of _ _ (by decide) (by decide) (by decide)) (by unfold A64.OffStack; decide) (by unfold A64.OffStack; decide) (by unfold A64.OffStack; decide) (by unfold A64.OffStack; decide)
    (by decide) (by decide) (by decide)
  have h2 := aarch64_fpbase_384_square exFpSqr (BitVec.ofNat 64 0x20000) (BitVec.ofNat 64 0x20000) (BitVec.ofNat 64 0x30000) (BitVec.ofNat 64 exInv64) 500 (by decide)
    rfl rfl rfl rfl rfl rfl
    (a64buf_of _ _ _ _ (by decide) (by decide) (by decide) (by decide) (fun _ => by decide)) (a64buf_of _ _ _ _ (by decide) (by decide) (by decide) (by decide) (by decide)) (a64buf_of _ _ _ _ (by decide) (by decide) (by decide) (by decide) (by decide))
    (a64stack_of _ _ (by decide) (by decide) (by decide)) (by unfold A64.OffStack; decide) (by unfold A64.OffStack; decide) (by unfold A64.OffStack; decide)
    (by decide) (by decide) (by decide)
  have hP1 : val (2 ^ 64) (limbs exFpMul.mem (BitVec.ofNat 64 0x30000).toNat 6) = Gen.Consts.fq_modulus := by decide
  have hA1 : val (2 ^ 64) (limbs exFpMul.mem (BitVec.ofNat 64 0x20000).toNat 6) = exA64 := by decide
  have hB1 : val (2 ^ 64) (limbs exFpMul.mem (BitVec.ofNat 64 0x21000).toNat 6) = exB64 := by decide
  have hP2 : val (2 ^ 64) (limbs exFpSqr.mem (BitVec.ofNat 64 0x30000).toNat 6) = Gen.Consts.fq_modulus := by decide
  have hA2 : val (2 ^ 64) (limbs exFpSqr.mem (BitVec.ofNat 64 0x20000).toNat 6) = exA64 := by decide
  rw [hP1, hA1, hB1] at h1
  rw [hP2, hA2] at h2
  rw [show (BitVec.ofNat 64 0x20000).toNat = 0x20000 by decide] at h1 h2
  exact ⟨⟨h1.2.1, h1.2.2.1⟩, ⟨h2.2.1, h2.2.2.1⟩⟩
end Examples

/-! ## ARMv6-M (Thumb-1): BigInt<384> with 32-bit limbs

`bigint_384_add`, `bigint_384_subtract`, `bigint_384_multiply2` of /repo/src/core/arch/armv6_m/bigint.s (programs of
`JediVerif/Gen/AsmV6M.lean`, machine model `JediVerif/Impl/Thumb1.lean`, proofs `JediVerif/Proofs/Thumb1Proofs.lean`):
twelve 32-bit words per operand, `ldm`/`stm` with write-back, the callee-saved R4–R6 pushed first (so the operands, too,
must not overlap the pushed words), return by `bx lr` (LR must be a Thumb address: bit 0 set, otherwise ARMv6-M
faults).  Same contract as above; `…_eq_portable` is the portable model at base `2^32` (the 32-bit-word configuration
of the C++), `…_agrees_aarch64` compares the 384-bit values and the returned carry with the AArch64 routine.  The
Thumb-1 multiplication, squaring and Montgomery routines (21k straight-line instructions) are in `Properties/C03d.lean`. -/

private theorem pow32_12 : ((2 : ℕ) ^ 32) ^ 12 = 2 ^ 384 := by rw [← Nat.pow_mul]

private theorem limbs32_lt (m : Nat → Thumb1.Word) (p : Nat) : val (2 ^ 32) (Thumb1.limbs32 m p 12) < 2 ^ 384 := by
  have := val_lt (Thumb1.limbs32_WF m p 12); rwa [Thumb1.limbs32_length, pow32_12] at this

private theorem limbs32_carry_unique {x y : List Nat} {cx cy : Nat} (hx : WF (2 ^ 32) x) (hy : WF (2 ^ 32) y)
    (lx : x.length = 12) (ly : y.length = 12) (hcx : cx ≤ 1) (hcy : cy ≤ 1)
    (h : val (2 ^ 32) x + 2 ^ 384 * cx = val (2 ^ 32) y + 2 ^ 384 * cy) : x = y ∧ cx = cy := by
  have bx := val_lt hx; have bY := val_lt hy
  rw [lx, pow32_12] at bx; rw [ly, pow32_12] at bY
  have hc : cx = cy := by
    rcases Nat.le_one_iff_eq_zero_or_eq_one.1 hcx with rfl | rfl <;>
    rcases Nat.le_one_iff_eq_zero_or_eq_one.1 hcy with rfl | rfl <;> omega
  subst hc
  exact ⟨val_inj hx hy (lx.trans ly.symm) (by omega), rfl⟩

/-- ARMv6-M `bigint_384_add`: `res + 2^384·R0 = a + b`, `R0 ≤ 1`. -/
theorem armv6m_bigint_384_add (s : Thumb1.State) (pr pa pb : Thumb1.Word) (fuel : Nat) (hfuel : 35 ≤ fuel)
    (hst : s.status = .running) (hpc : s.pc = 0) (h0 : s.r0 = pr) (h1 : s.r1 = pa) (h2 : s.r2 = pb) (hlr : s.lr.toNat % 2 = 1)
    (hr : Thumb1.Buf s pr 12 true) (ha : Thumb1.Buf s pa 12 false) (hb : Thumb1.Buf s pb 12 false)
    (hra : Thumb1.SameOrDisjoint pr pa 12) (hrb : Thumb1.SameOrDisjoint pr pb 12)
    (hstk : Thumb1.Stack s 3) (hrs : Thumb1.OffStack s 3 pr 12) (has : Thumb1.OffStack s 3 pa 12) (hbs : Thumb1.OffStack s 3 pb 12) :
    Thumb1.Returned s (Thumb1.run Gen.AsmV6M.embedded_pairing_core_arch_armv6_m_bigint_384_add s fuel) ∧
    val (2 ^ 32) (Thumb1.limbs32 (Thumb1.run Gen.AsmV6M.embedded_pairing_core_arch_armv6_m_bigint_384_add s fuel).mem pr.toNat 12) + 2 ^ 384 * (Thumb1.run Gen.AsmV6M.embedded_pairing_core_arch_armv6_m_bigint_384_add s fuel).r0.toNat
      = val (2 ^ 32) (Thumb1.limbs32 s.mem pa.toNat 12) + val (2 ^ 32) (Thumb1.limbs32 s.mem pb.toNat 12) ∧
    (Thumb1.run Gen.AsmV6M.embedded_pairing_core_arch_armv6_m_bigint_384_add s fuel).r0.toNat ≤ 1 ∧
    (∀ k, ¬(pr.toNat ≤ k ∧ k < pr.toNat + 48) → ¬(s.sp.toNat - 12 ≤ k ∧ k < s.sp.toNat) →
      (Thumb1.run Gen.AsmV6M.embedded_pairing_core_arch_armv6_m_bigint_384_add s fuel).mem k = s.mem k) := by
  obtain ⟨s', h, hret, rest⟩ := Thumb1.bigint_384_add_run s pr pa pb hst hpc h0 h1 h2 hlr hr ha hb hra hrb hstk hrs has hbs
  rw [Thumb1.run_fuel h hret.halted fuel hfuel]
  exact ⟨hret, rest⟩

/-- … hence the limbs and the carry of the portable `BigInt::add` on 32-bit words (`addLoop`, `C02.bigint_add`). -/
theorem armv6m_bigint_384_add_eq_portable (s : Thumb1.State) (pr pa pb : Thumb1.Word) (fuel : Nat) (hfuel : 35 ≤ fuel)
    (hst : s.status = .running) (hpc : s.pc = 0) (h0 : s.r0 = pr) (h1 : s.r1 = pa) (h2 : s.r2 = pb) (hlr : s.lr.toNat % 2 = 1)
    (hr : Thumb1.Buf s pr 12 true) (ha : Thumb1.Buf s pa 12 false) (hb : Thumb1.Buf s pb 12 false)
    (hra : Thumb1.SameOrDisjoint pr pa 12) (hrb : Thumb1.SameOrDisjoint pr pb 12)
    (hstk : Thumb1.Stack s 3) (hrs : Thumb1.OffStack s 3 pr 12) (has : Thumb1.OffStack s 3 pa 12) (hbs : Thumb1.OffStack s 3 pb 12) :
    Thumb1.limbs32 (Thumb1.run Gen.AsmV6M.embedded_pairing_core_arch_armv6_m_bigint_384_add s fuel).mem pr.toNat 12 = (addLoop (2 ^ 32) (Thumb1.limbs32 s.mem pa.toNat 12) (Thumb1.limbs32 s.mem pb.toNat 12) 0).1 ∧
    (Thumb1.run Gen.AsmV6M.embedded_pairing_core_arch_armv6_m_bigint_384_add s fuel).r0.toNat = (addLoop (2 ^ 32) (Thumb1.limbs32 s.mem pa.toNat 12) (Thumb1.limbs32 s.mem pb.toNat 12) 0).2 := by
  obtain ⟨-, hv, hc, -⟩ := armv6m_bigint_384_add s pr pa pb fuel hfuel hst hpc h0 h1 h2 hlr hr ha hb hra hrb hstk hrs has hbs
  obtain ⟨w, l, c, v⟩ := C02.bigint_add (B := 2 ^ 32) (c := 0) (Thumb1.limbs32_WF s.mem pa.toNat 12)
    (Thumb1.limbs32_WF s.mem pb.toNat 12) (by simp [Thumb1.limbs32_length]) (by omega)
  rw [Thumb1.limbs32_length] at l v
  rw [pow32_12] at v
  exact limbs32_carry_unique (Thumb1.limbs32_WF _ _ _) w (Thumb1.limbs32_length _ _ _) l hc c (by omega)

/-- … and the same 384-bit number and the same returned carry as the AArch64 routine (`aarch64_bigint_384_add`; hence as the x86-64 one),
on states whose operands denote the same numbers (twelve 32-bit limbs there, six 64-bit limbs here). -/
theorem armv6m_bigint_384_add_agrees_aarch64 (s₁ : Thumb1.State) (s₂ : State) (pr₁ pa₁ pb₁ : Thumb1.Word) (pr₂ pa₂ pb₂ : Word) (f₁ f₂ : Nat) (hf₁ : 35 ≤ f₁) (hf₂ : 17 ≤ f₂)
    (hst₁ : s₁.status = .running) (hpc₁ : s₁.pc = 0) (h0₁ : s₁.r0 = pr₁) (h1₁ : s₁.r1 = pa₁) (h2₁ : s₁.r2 = pb₁) (hlr₁ : s₁.lr.toNat % 2 = 1)
    (hr₁ : Thumb1.Buf s₁ pr₁ 12 true) (ha₁ : Thumb1.Buf s₁ pa₁ 12 false) (hb₁ : Thumb1.Buf s₁ pb₁ 12 false)
    (hra₁ : Thumb1.SameOrDisjoint pr₁ pa₁ 12) (hrb₁ : Thumb1.SameOrDisjoint pr₁ pb₁ 12)
    (hstk₁ : Thumb1.Stack s₁ 3) (hrs₁ : Thumb1.OffStack s₁ 3 pr₁ 12) (has₁ : Thumb1.OffStack s₁ 3 pa₁ 12) (hbs₁ : Thumb1.OffStack s₁ 3 pb₁ 12)
    (hst₂ : s₂.status = .running) (hpc₂ : s₂.pc = 0) (h0₂ : s₂.x0 = pr₂) (h1₂ : s₂.x1 = pa₂) (h2₂ : s₂.x2 = pb₂)
    (hr₂ : Buf s₂ pr₂ 6 true) (ha₂ : Buf s₂ pa₂ 6 false) (hb₂ : Buf s₂ pb₂ 6 false)
    (hra₂ : SameOrDisjoint pr₂ pa₂ 6) (hrb₂ : SameOrDisjoint pr₂ pb₂ 6)
    (hA : val (2 ^ 32) (Thumb1.limbs32 s₁.mem pa₁.toNat 12) = val (2 ^ 64) (limbs s₂.mem pa₂.toNat 6))
    (hB : val (2 ^ 32) (Thumb1.limbs32 s₁.mem pb₁.toNat 12) = val (2 ^ 64) (limbs s₂.mem pb₂.toNat 6)) :
    val (2 ^ 32) (Thumb1.limbs32 (Thumb1.run Gen.AsmV6M.embedded_pairing_core_arch_armv6_m_bigint_384_add s₁ f₁).mem pr₁.toNat 12) = val (2 ^ 64) (limbs (run embedded_pairing_core_arch_aarch64_bigint_384_add s₂ f₂).mem pr₂.toNat 6) ∧
    (Thumb1.run Gen.AsmV6M.embedded_pairing_core_arch_armv6_m_bigint_384_add s₁ f₁).r0.toNat = (run embedded_pairing_core_arch_aarch64_bigint_384_add s₂ f₂).x0.toNat := by
  obtain ⟨-, v1, c1, -⟩ := armv6m_bigint_384_add s₁ pr₁ pa₁ pb₁ f₁ hf₁ hst₁ hpc₁ h0₁ h1₁ h2₁ hlr₁ hr₁ ha₁ hb₁ hra₁ hrb₁ hstk₁ hrs₁ has₁ hbs₁
  obtain ⟨-, v2, c2, -⟩ := aarch64_bigint_384_add s₂ pr₂ pa₂ pb₂ f₂ hf₂ hst₂ hpc₂ h0₂ h1₂ h2₂ hr₂ ha₂ hb₂ hra₂ hrb₂
  have b1 := limbs32_lt (Thumb1.run Gen.AsmV6M.embedded_pairing_core_arch_armv6_m_bigint_384_add s₁ f₁).mem pr₁.toNat
  have b2 := limbs6_lt (run embedded_pairing_core_arch_aarch64_bigint_384_add s₂ f₂).mem pr₂.toNat
  rw [hA, hB] at v1
  generalize (Thumb1.run Gen.AsmV6M.embedded_pairing_core_arch_armv6_m_bigint_384_add s₁ f₁).r0.toNat = k1 at *
  generalize (run embedded_pairing_core_arch_aarch64_bigint_384_add s₂ f₂).x0.toNat = k2 at *
  have hc : k1 = k2 := by
    rcases Nat.le_one_iff_eq_zero_or_eq_one.1 c1 with rfl | rfl <;>
    rcases Nat.le_one_iff_eq_zero_or_eq_one.1 c2 with rfl | rfl <;> omega
  subst hc
  exact ⟨by omega, rfl⟩

/-- ARMv6-M `bigint_384_subtract`: `res + b = a + 2^384·R0`, `R0 ≤ 1` (R0 = borrow: `sbc r0, r0, r0; neg r0, r0`). -/
theorem armv6m_bigint_384_subtract (s : Thumb1.State) (pr pa pb : Thumb1.Word) (fuel : Nat) (hfuel : 35 ≤ fuel)
    (hst : s.status = .running) (hpc : s.pc = 0) (h0 : s.r0 = pr) (h1 : s.r1 = pa) (h2 : s.r2 = pb) (hlr : s.lr.toNat % 2 = 1)
    (hr : Thumb1.Buf s pr 12 true) (ha : Thumb1.Buf s pa 12 false) (hb : Thumb1.Buf s pb 12 false)
    (hra : Thumb1.SameOrDisjoint pr pa 12) (hrb : Thumb1.SameOrDisjoint pr pb 12)
    (hstk : Thumb1.Stack s 3) (hrs : Thumb1.OffStack s 3 pr 12) (has : Thumb1.OffStack s 3 pa 12) (hbs : Thumb1.OffStack s 3 pb 12) :
    Thumb1.Returned s (Thumb1.run Gen.AsmV6M.embedded_pairing_core_arch_armv6_m_bigint_384_subtract s fuel) ∧
    val (2 ^ 32) (Thumb1.limbs32 (Thumb1.run Gen.AsmV6M.embedded_pairing_core_arch_armv6_m_bigint_384_subtract s fuel).mem pr.toNat 12) + val (2 ^ 32) (Thumb1.limbs32 s.mem pb.toNat 12)
      = val (2 ^ 32) (Thumb1.limbs32 s.mem pa.toNat 12) + 2 ^ 384 * (Thumb1.run Gen.AsmV6M.embedded_pairing_core_arch_armv6_m_bigint_384_subtract s fuel).r0.toNat ∧
    (Thumb1.run Gen.AsmV6M.embedded_pairing_core_arch_armv6_m_bigint_384_subtract s fuel).r0.toNat ≤ 1 ∧
    (∀ k, ¬(pr.toNat ≤ k ∧ k < pr.toNat + 48) → ¬(s.sp.toNat - 12 ≤ k ∧ k < s.sp.toNat) →
      (Thumb1.run Gen.AsmV6M.embedded_pairing_core_arch_armv6_m_bigint_384_subtract s fuel).mem k = s.mem k) := by
  obtain ⟨s', h, hret, rest⟩ := Thumb1.bigint_384_subtract_run s pr pa pb hst hpc h0 h1 h2 hlr hr ha hb hra hrb hstk hrs has hbs
  rw [Thumb1.run_fuel h hret.halted fuel hfuel]
  exact ⟨hret, rest⟩

/-- … hence the limbs and the borrow of the portable `BigInt::subtract` on 32-bit words (`subLoop`, `C02.bigint_subtract`). -/
theorem armv6m_bigint_384_subtract_eq_portable (s : Thumb1.State) (pr pa pb : Thumb1.Word) (fuel : Nat) (hfuel : 35 ≤ fuel)
    (hst : s.status = .running) (hpc : s.pc = 0) (h0 : s.r0 = pr) (h1 : s.r1 = pa) (h2 : s.r2 = pb) (hlr : s.lr.toNat % 2 = 1)
    (hr : Thumb1.Buf s pr 12 true) (ha : Thumb1.Buf s pa 12 false) (hb : Thumb1.Buf s pb 12 false)
    (hra : Thumb1.SameOrDisjoint pr pa 12) (hrb : Thumb1.SameOrDisjoint pr pb 12)
    (hstk : Thumb1.Stack s 3) (hrs : Thumb1.OffStack s 3 pr 12) (has : Thumb1.OffStack s 3 pa 12) (hbs : Thumb1.OffStack s 3 pb 12) :
    Thumb1.limbs32 (Thumb1.run Gen.AsmV6M.embedded_pairing_core_arch_armv6_m_bigint_384_subtract s fuel).mem pr.toNat 12 = (subLoop (2 ^ 32) (Thumb1.limbs32 s.mem pa.toNat 12) (Thumb1.limbs32 s.mem pb.toNat 12) 0).1 ∧
    (Thumb1.run Gen.AsmV6M.embedded_pairing_core_arch_armv6_m_bigint_384_subtract s fuel).r0.toNat = (subLoop (2 ^ 32) (Thumb1.limbs32 s.mem pa.toNat 12) (Thumb1.limbs32 s.mem pb.toNat 12) 0).2 := by
  obtain ⟨-, hv, hc, -⟩ := armv6m_bigint_384_subtract s pr pa pb fuel hfuel hst hpc h0 h1 h2 hlr hr ha hb hra hrb hstk hrs has hbs
  obtain ⟨w, l, c, v⟩ := C02.bigint_subtract (B := 2 ^ 32) (c := 0) (Thumb1.limbs32_WF s.mem pa.toNat 12)
    (Thumb1.limbs32_WF s.mem pb.toNat 12) (by simp [Thumb1.limbs32_length]) (by omega)
  rw [Thumb1.limbs32_length] at l v
  rw [pow32_12] at v
  have key := limbs32_carry_unique (Thumb1.limbs32_WF (Thumb1.run Gen.AsmV6M.embedded_pairing_core_arch_armv6_m_bigint_384_subtract s fuel).mem pr.toNat 12) w
    (Thumb1.limbs32_length _ _ _) l c hc (by omega)
  exact ⟨key.1, key.2.symm⟩

/-- … and the same 384-bit number and the same returned carry as the AArch64 routine (`aarch64_bigint_384_subtract`; hence as the x86-64 one),
on states whose operands denote the same numbers (twelve 32-bit limbs there, six 64-bit limbs here). -/
theorem armv6m_bigint_384_subtract_agrees_aarch64 (s₁ : Thumb1.State) (s₂ : State) (pr₁ pa₁ pb₁ : Thumb1.Word) (pr₂ pa₂ pb₂ : Word) (f₁ f₂ : Nat) (hf₁ : 35 ≤ f₁) (hf₂ : 17 ≤ f₂)
    (hst₁ : s₁.status = .running) (hpc₁ : s₁.pc = 0) (h0₁ : s₁.r0 = pr₁) (h1₁ : s₁.r1 = pa₁) (h2₁ : s₁.r2 = pb₁) (hlr₁ : s₁.lr.toNat % 2 = 1)
    (hr₁ : Thumb1.Buf s₁ pr₁ 12 true) (ha₁ : Thumb1.Buf s₁ pa₁ 12 false) (hb₁ : Thumb1.Buf s₁ pb₁ 12 false)
    (hra₁ : Thumb1.SameOrDisjoint pr₁ pa₁ 12) (hrb₁ : Thumb1.SameOrDisjoint pr₁ pb₁ 12)
    (hstk₁ : Thumb1.Stack s₁ 3) (hrs₁ : Thumb1.OffStack s₁ 3 pr₁ 12) (has₁ : Thumb1.OffStack s₁ 3 pa₁ 12) (hbs₁ : Thumb1.OffStack s₁ 3 pb₁ 12)
    (hst₂ : s₂.status = .running) (hpc₂ : s₂.pc = 0) (h0₂ : s₂.x0 = pr₂) (h1₂ : s₂.x1 = pa₂) (h2₂ : s₂.x2 = pb₂)
    (hr₂ : Buf s₂ pr₂ 6 true) (ha₂ : Buf s₂ pa₂ 6 false) (hb₂ : Buf s₂ pb₂ 6 false)
    (hra₂ : SameOrDisjoint pr₂ pa₂ 6) (hrb₂ : SameOrDisjoint pr₂ pb₂ 6)
    (hA : val (2 ^ 32) (Thumb1.limbs32 s₁.mem pa₁.toNat 12) = val (2 ^ 64) (limbs s₂.mem pa₂.toNat 6))
    (hB : val (2 ^ 32) (Thumb1.limbs32 s₁.mem pb₁.toNat 12) = val (2 ^ 64) (limbs s₂.mem pb₂.toNat 6)) :
    val (2 ^ 32) (Thumb1.limbs32 (Thumb1.run Gen.AsmV6M.embedded_pairing_core_arch_armv6_m_bigint_384_subtract s₁ f₁).mem pr₁.toNat 12) = val (2 ^ 64) (limbs (run embedded_pairing_core_arch_aarch64_bigint_384_subtract s₂ f₂).mem pr₂.toNat 6) ∧
    (Thumb1.run Gen.AsmV6M.embedded_pairing_core_arch_armv6_m_bigint_384_subtract s₁ f₁).r0.toNat = (run embedded_pairing_core_arch_aarch64_bigint_384_subtract s₂ f₂).x0.toNat := by
  obtain ⟨-, v1, c1, -⟩ := armv6m_bigint_384_subtract s₁ pr₁ pa₁ pb₁ f₁ hf₁ hst₁ hpc₁ h0₁ h1₁ h2₁ hlr₁ hr₁ ha₁ hb₁ hra₁ hrb₁ hstk₁ hrs₁ has₁ hbs₁
  obtain ⟨-, v2, c2, -⟩ := aarch64_bigint_384_subtract s₂ pr₂ pa₂ pb₂ f₂ hf₂ hst₂ hpc₂ h0₂ h1₂ h2₂ hr₂ ha₂ hb₂ hra₂ hrb₂
  have b1 := limbs32_lt (Thumb1.run Gen.AsmV6M.embedded_pairing_core_arch_armv6_m_bigint_384_subtract s₁ f₁).mem pr₁.toNat
  have b2 := limbs6_lt (run embedded_pairing_core_arch_aarch64_bigint_384_subtract s₂ f₂).mem pr₂.toNat
  rw [hA, hB] at v1
  generalize (Thumb1.run Gen.AsmV6M.embedded_pairing_core_arch_armv6_m_bigint_384_subtract s₁ f₁).r0.toNat = k1 at *
  generalize (run embedded_pairing_core_arch_aarch64_bigint_384_subtract s₂ f₂).x0.toNat = k2 at *
  have hc : k1 = k2 := by
    rcases Nat.le_one_iff_eq_zero_or_eq_one.1 c1 with rfl | rfl <;>
    rcases Nat.le_one_iff_eq_zero_or_eq_one.1 c2 with rfl | rfl <;> omega
  subst hc
  exact ⟨by omega, rfl⟩

/-- ARMv6-M `bigint_384_multiply2`: `res + 2^384·R0 = 2·a`, `R0 ≤ 1`. -/
theorem armv6m_bigint_384_multiply2 (s : Thumb1.State) (pr pa : Thumb1.Word) (fuel : Nat) (hfuel : 23 ≤ fuel)
    (hst : s.status = .running) (hpc : s.pc = 0) (h0 : s.r0 = pr) (h1 : s.r1 = pa) (hlr : s.lr.toNat % 2 = 1)
    (hr : Thumb1.Buf s pr 12 true) (ha : Thumb1.Buf s pa 12 false)
    (hra : Thumb1.SameOrDisjoint pr pa 12)
    (hstk : Thumb1.Stack s 2) (hrs : Thumb1.OffStack s 2 pr 12) (has : Thumb1.OffStack s 2 pa 12) :
    Thumb1.Returned s (Thumb1.run Gen.AsmV6M.embedded_pairing_core_arch_armv6_m_bigint_384_multiply2 s fuel) ∧
    val (2 ^ 32) (Thumb1.limbs32 (Thumb1.run Gen.AsmV6M.embedded_pairing_core_arch_armv6_m_bigint_384_multiply2 s fuel).mem pr.toNat 12) + 2 ^ 384 * (Thumb1.run Gen.AsmV6M.embedded_pairing_core_arch_armv6_m_bigint_384_multiply2 s fuel).r0.toNat = 2 * val (2 ^ 32) (Thumb1.limbs32 s.mem pa.toNat 12) ∧
    (Thumb1.run Gen.AsmV6M.embedded_pairing_core_arch_armv6_m_bigint_384_multiply2 s fuel).r0.toNat ≤ 1 ∧
    (∀ k, ¬(pr.toNat ≤ k ∧ k < pr.toNat + 48) → ¬(s.sp.toNat - 8 ≤ k ∧ k < s.sp.toNat) →
      (Thumb1.run Gen.AsmV6M.embedded_pairing_core_arch_armv6_m_bigint_384_multiply2 s fuel).mem k = s.mem k) := by
  obtain ⟨s', h, hret, rest⟩ := Thumb1.bigint_384_multiply2_run s pr pa hst hpc h0 h1 hlr hr ha hra hstk hrs has
  rw [Thumb1.run_fuel h hret.halted fuel hfuel]
  exact ⟨hret, rest⟩

/-- … hence the limbs and the shifted-out bit of the portable `shift_left_in_word<1>` on 32-bit words (`shl1`, `C02.bigint_shl1`). -/
theorem armv6m_bigint_384_multiply2_eq_portable (s : Thumb1.State) (pr pa : Thumb1.Word) (fuel : Nat) (hfuel : 23 ≤ fuel)
    (hst : s.status = .running) (hpc : s.pc = 0) (h0 : s.r0 = pr) (h1 : s.r1 = pa) (hlr : s.lr.toNat % 2 = 1)
    (hr : Thumb1.Buf s pr 12 true) (ha : Thumb1.Buf s pa 12 false)
    (hra : Thumb1.SameOrDisjoint pr pa 12)
    (hstk : Thumb1.Stack s 2) (hrs : Thumb1.OffStack s 2 pr 12) (has : Thumb1.OffStack s 2 pa 12) :
    Thumb1.limbs32 (Thumb1.run Gen.AsmV6M.embedded_pairing_core_arch_armv6_m_bigint_384_multiply2 s fuel).mem pr.toNat 12 = (shl1 (2 ^ 32) (Thumb1.limbs32 s.mem pa.toNat 12)).1 ∧
    (Thumb1.run Gen.AsmV6M.embedded_pairing_core_arch_armv6_m_bigint_384_multiply2 s fuel).r0.toNat = (shl1 (2 ^ 32) (Thumb1.limbs32 s.mem pa.toNat 12)).2 := by
  obtain ⟨-, hv, hc, -⟩ := armv6m_bigint_384_multiply2 s pr pa fuel hfuel hst hpc h0 h1 hlr hr ha hra hstk hrs has
  obtain ⟨w, l, c, v⟩ := C02.bigint_shl1 (B := 2 ^ 32) (by norm_num) (Thumb1.limbs32_WF s.mem pa.toNat 12)
  rw [Thumb1.limbs32_length] at l v
  rw [pow32_12] at v
  exact limbs32_carry_unique (Thumb1.limbs32_WF _ _ _) w (Thumb1.limbs32_length _ _ _) l hc c (by omega)

/-- … and the same 384-bit number and the same returned carry as the AArch64 routine (`aarch64_bigint_384_multiply2`; hence as the x86-64 one),
on states whose operands denote the same numbers (twelve 32-bit limbs there, six 64-bit limbs here). -/
theorem armv6m_bigint_384_multiply2_agrees_aarch64 (s₁ : Thumb1.State) (s₂ : State) (pr₁ pa₁ : Thumb1.Word) (pr₂ pa₂ : Word) (f₁ f₂ : Nat) (hf₁ : 23 ≤ f₁) (hf₂ : 14 ≤ f₂)
    (hst₁ : s₁.status = .running) (hpc₁ : s₁.pc = 0) (h0₁ : s₁.r0 = pr₁) (h1₁ : s₁.r1 = pa₁) (hlr₁ : s₁.lr.toNat % 2 = 1)
    (hr₁ : Thumb1.Buf s₁ pr₁ 12 true) (ha₁ : Thumb1.Buf s₁ pa₁ 12 false)
    (hra₁ : Thumb1.SameOrDisjoint pr₁ pa₁ 12)
    (hstk₁ : Thumb1.Stack s₁ 2) (hrs₁ : Thumb1.OffStack s₁ 2 pr₁ 12) (has₁ : Thumb1.OffStack s₁ 2 pa₁ 12)
    (hst₂ : s₂.status = .running) (hpc₂ : s₂.pc = 0) (h0₂ : s₂.x0 = pr₂) (h1₂ : s₂.x1 = pa₂)
    (hr₂ : Buf s₂ pr₂ 6 true) (ha₂ : Buf s₂ pa₂ 6 false)
    (hra₂ : SameOrDisjoint pr₂ pa₂ 6)
    (hA : val (2 ^ 32) (Thumb1.limbs32 s₁.mem pa₁.toNat 12) = val (2 ^ 64) (limbs s₂.mem pa₂.toNat 6)) :
    val (2 ^ 32) (Thumb1.limbs32 (Thumb1.run Gen.AsmV6M.embedded_pairing_core_arch_armv6_m_bigint_384_multiply2 s₁ f₁).mem pr₁.toNat 12) = val (2 ^ 64) (limbs (run embedded_pairing_core_arch_aarch64_bigint_384_multiply2 s₂ f₂).mem pr₂.toNat 6) ∧
    (Thumb1.run Gen.AsmV6M.embedded_pairing_core_arch_armv6_m_bigint_384_multiply2 s₁ f₁).r0.toNat = (run embedded_pairing_core_arch_aarch64_bigint_384_multiply2 s₂ f₂).x0.toNat := by
  obtain ⟨-, v1, c1, -⟩ := armv6m_bigint_384_multiply2 s₁ pr₁ pa₁ f₁ hf₁ hst₁ hpc₁ h0₁ h1₁ hlr₁ hr₁ ha₁ hra₁ hstk₁ hrs₁ has₁
  obtain ⟨-, v2, c2, -⟩ := aarch64_bigint_384_multiply2 s₂ pr₂ pa₂ f₂ hf₂ hst₂ hpc₂ h0₂ h1₂ hr₂ ha₂ hra₂
  have b1 := limbs32_lt (Thumb1.run Gen.AsmV6M.embedded_pairing_core_arch_armv6_m_bigint_384_multiply2 s₁ f₁).mem pr₁.toNat
  have b2 := limbs6_lt (run embedded_pairing_core_arch_aarch64_bigint_384_multiply2 s₂ f₂).mem pr₂.toNat
  rw [hA] at v1
  generalize (Thumb1.run Gen.AsmV6M.embedded_pairing_core_arch_armv6_m_bigint_384_multiply2 s₁ f₁).r0.toNat = k1 at *
  generalize (run embedded_pairing_core_arch_aarch64_bigint_384_multiply2 s₂ f₂).x0.toNat = k2 at *
  have hc : k1 = k2 := by
    rcases Nat.le_one_iff_eq_zero_or_eq_one.1 c1 with rfl | rfl <;>
    rcases Nat.le_one_iff_eq_zero_or_eq_one.1 c2 with rfl | rfl <;> omega
  subst hc
  exact ⟨by omega, rfl⟩

section ExamplesThumb1
private def exA32 : Nat := Gen.Consts.fq_modulus - 1
private def exB32 : Nat := Gen.Consts.fq_modulus - 2

private theorem t1buf_of (s : Thumb1.State) (p n : Nat) (w : Bool) (h1 : p + 4 * n ≤ 2 ^ 32) (h2 : p % 4 = 0) (h3 : p < 2 ^ 32)
    (hr : ∀ i, i < n → s.readable (p + 4 * i) = true)
    (hw : w = true → ∀ i, i < n → s.writable (p + 4 * i) = true) : Thumb1.Buf s (BitVec.ofNat 32 p) n w := by
  have e : (BitVec.ofNat 32 p).toNat = p := by rw [BitVec.toNat_ofNat]; exact Nat.mod_eq_of_lt h3
  exact ⟨by rw [e]; exact h1, by rw [e]; exact h2, by rw [e]; exact hr, by rw [e]; exact hw⟩

private theorem t1stack_of (s : Thumb1.State) (n : Nat) (h2 : s.sp.toNat % 4 = 0) (h3 : 4 * n ≤ s.sp.toNat)
    (h5 : ∀ i, i < n → s.readable (s.sp.toNat - 4 * (i + 1)) = true ∧ s.writable (s.sp.toNat - 4 * (i + 1)) = true) :
    Thumb1.Stack s n :=
  ⟨h2, h3, fun i hi1 hi2 => by
    have := h5 (i - 1) (by omega)
    rwa [show i - 1 + 1 = i by omega] at this⟩

/-- ARMv6-M add / subtract on the judge's entry state (`Thumb1.entryState`): `res` is the same object as `a` -/
private def exT1 : Thumb1.State :=
  Thumb1.entryState ([0x20000, 0x20000, 0x21000].map (BitVec.ofNat 32))
    [{ base := 0x20000, words := Thumb1.wordsOfNat 12 exA32, writable := true },
     { base := 0x21000, words := Thumb1.wordsOfNat 12 exB32, writable := false }] 0x20004000 64 0

example :
    val (2 ^ 32) (Thumb1.limbs32 (Thumb1.run Gen.AsmV6M.embedded_pairing_core_arch_armv6_m_bigint_384_add exT1 100).mem 0x20000 12)
      + 2 ^ 384 * (Thumb1.run Gen.AsmV6M.embedded_pairing_core_arch_armv6_m_bigint_384_add exT1 100).r0.toNat = exA32 + exB32 ∧
    val (2 ^ 32) (Thumb1.limbs32 (Thumb1.run Gen.AsmV6M.embedded_pairing_core_arch_armv6_m_bigint_384_subtract exT1 100).mem 0x20000 12) + exB32
      = exA32 + 2 ^ 384 * (Thumb1.run Gen.AsmV6M.embedded_pairing_core_arch_armv6_m_bigint_384_subtract exT1 100).r0.toNat := by
  have hyp1 : Thumb1.Buf exT1 (BitVec.ofNat 32 0x20000) 12 true :=
    t1buf_of _ _ _ _ (by decide) (by decide) (by decide) (by decide) (fun _ => by decide)
  have hyp2 : Thumb1.Buf exT1 (BitVec.ofNat 32 0x20000) 12 false :=
    t1buf_of _ _ _ _ (by decide) (by decide) (by decide) (by decide) (by decide)
  have hyp3 : Thumb1.Buf exT1 (BitVec.ofNat 32 0x21000) 12 false :=
    t1buf_of _ _ _ _ (by decide) (by decide) (by decide) (by decide) (by decide)
  have h1 := (armv6m_bigint_384_add exT1 (BitVec.ofNat 32 0x20000) (BitVec.ofNat 32 0x20000) (BitVec.ofNat 32 0x21000) 100
    (by decide) rfl rfl rfl rfl rfl (by decide) hyp1 hyp2 hyp3
    (Or.inl rfl) (Or.inr (by unfold Thumb1.Disjoint; decide))
    (t1stack_of _ _ (by decide) (by decide) (by decide))
    (by unfold Thumb1.OffStack; decide) (by unfold Thumb1.OffStack; decide) (by unfold Thumb1.OffStack; decide)).2.1
  have h2 := (armv6m_bigint_384_subtract exT1 (BitVec.ofNat 32 0x20000) (BitVec.ofNat 32 0x20000) (BitVec.ofNat 32 0x21000) 100
    (by decide) rfl rfl rfl rfl rfl (by decide) hyp1 hyp2 hyp3
    (Or.inl rfl) (Or.inr (by unfold Thumb1.Disjoint; decide))
    (t1stack_of _ _ (by decide) (by decide) (by decide))
    (by unfold Thumb1.OffStack; decide) (by unfold Thumb1.OffStack; decide) (by unfold Thumb1.OffStack; decide)).2.1
  rw [show (BitVec.ofNat 32 0x20000).toNat = 0x20000 by decide] at h1 h2
  rw [show (BitVec.ofNat 32 0x21000).toNat = 0x21000 by decide] at h1 h2
  have ea : val (2 ^ 32) (Thumb1.limbs32 exT1.mem 0x20000 12) = exA32 := by decide
  have eb : val (2 ^ 32) (Thumb1.limbs32 exT1.mem 0x21000 12) = exB32 := by decide
  rw [ea, eb] at h1 h2
  exact ⟨h1, h2⟩
end ExamplesThumb1

end Jedi.C03
