/-
C15 — marshalling: the length accounting is exact.

Property theorems only (proofs in `Proofs/MarshalProofs.lean`).  The statements are about the
definitions of `Impl/Encode.lean` and `Impl/Marshal.lean` which the judge runs against
src/bls12_381/curve.cpp, src/wkdibe/marshal.cpp and include/wkdibe/api.hpp:
`encode`/`encG1`/`encG2` (point encoders), `marshalParams`/`marshalKey` (byte images of WKD-IBE
parameters and secret keys), `paramsLen`/`keyLen` (`getMarshalledLength`), `unLen`
(`unmarshalledLength`, `none` = −1), `g1Size`/`g2Size`.
-/
import JediVerif.Proofs.MarshalProofs

namespace Jedi.C15
open Jedi Jedi.Impl

/-- a big-endian field of width w has w bytes. -/
theorem toBytesBE_length (w v : Nat) : (toBytesBE w v).length = w := Impl.toBytesBE_length w v

/-- an encoded point occupies one coordinate (compressed) or two (uncompressed), whatever the point —
for every field record whose serialiser has constant width. -/
theorem encode_length {F : Type} (o : FieldOps F) (hlen : ∀ x, (o.toBytes x).length = o.size)
    (comp : Bool) (p : Pt F) :
    (encode o comp p).length = if comp then o.size else 2 * o.size := Impl.encode_length o hlen comp p

/-- the premise of `encode_length` for the two fields of the library: 48 and 96 bytes. -/
theorem opsFq_toBytes_length (x : Fq) : (opsFq.toBytes x).length = 48 := Impl.opsFq_toBytes_length x
theorem opsFq2_toBytes_length (x : Fq2) : (opsFq2.toBytes x).length = 96 := Impl.opsFq2_toBytes_length x

/-- G1 / G2 encodings have the advertised sizes 48|96 and 96|192. -/
theorem encG1_length (comp : Bool) (p : G1Pt) : (encG1 comp p).length = g1Size comp := Impl.encG1_length comp p
theorem encG2_length (comp : Bool) (p : G2Pt) : (encG2 comp p).length = g2Size comp := Impl.encG2_length comp p

/-- the marshalled parameters are exactly `getMarshalledLength` bytes long. -/
theorem marshalParams_length (comp : Bool) (pp : WParams) :
    (marshalParams comp pp).length = paramsLen comp pp.h.length pp.signatures :=
  Impl.marshalParams_length comp pp

/-- the marshalled secret key is exactly `getMarshalledLength` bytes long. -/
theorem marshalKey_length (comp : Bool) (k : WKey) :
    (marshalKey comp k).length = keyLen comp k.b.length k.signatures :=
  Impl.marshalKey_length comp k

/-- `unmarshalledLength` inverts `getMarshalledLength` (the first byte is 1 iff signatures). -/
theorem unLen_paramsLen (comp sig : Bool) (l : Nat) :
    unLen true comp (if sig then 1 else 0) (paramsLen comp l sig) = some l := Impl.unLen_paramsLen comp sig l

theorem unLen_keyLen (comp sig : Bool) (l : Nat) :
    unLen false comp (if sig then 1 else 0) (keyLen comp l sig) = some l := Impl.unLen_keyLen comp sig l

/-- the slot count recovered from a marshalled buffer (its first byte and its length) is the
object's slot count. -/
theorem unLen_marshalParams (comp : Bool) (pp : WParams) :
    unLen true comp ((marshalParams comp pp).headD 0).toNat (marshalParams comp pp).length = some pp.h.length :=
  Impl.unLen_marshalParams comp pp

theorem unLen_marshalKey (comp : Bool) (k : WKey) :
    unLen false comp ((marshalKey comp k).headD 0).toNat (marshalKey comp k).length = some k.b.length :=
  Impl.unLen_marshalKey comp k

/-- the 32-bit slot index written big-endian into a key is read back unchanged
(`swap32 ∘ swap32 = id` on the wire format); in general the value modulo the width. -/
theorem slot_index_roundtrip {i : Nat} (h : i < 2 ^ 32) : ofBytesBE (toBytesBE 4 i) = i :=
  Impl.ofBytesBE_toBytesBE_of_lt (by simpa using h)

theorem ofBytesBE_toBytesBE (w v : Nat) : ofBytesBE (toBytesBE w v) = v % 256 ^ w := Impl.ofBytesBE_toBytesBE w v

/-- and conversely every byte string is the fixed-width image of its value. -/
theorem toBytesBE_ofBytesBE (bs : List UInt8) : toBytesBE bs.length (ofBytesBE bs) = bs := Impl.toBytesBE_ofBytesBE bs

/-! non-vacuity -/
example : paramsLen true 3 true = 481 := by decide
example : paramsLen false 3 false = 1441 := by decide
example : keyLen true 3 true = 349 := by decide
example : unLen true true 1 481 = some 3 := by decide
example : unLen false true 1 349 = some 3 := by decide
example : (encG1 true .inf).length = 48 := by decide
example : toBytesBE 4 0x01020304 = [1, 2, 3, 4] := by decide
example : ofBytesBE [1, 2, 3, 4] = 0x01020304 := by decide

end Jedi.C15
