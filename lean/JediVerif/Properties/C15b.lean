/-
C15b — marshalling: the full round trip `unmarshal (marshal x) = x` for parameters, secret keys, ciphertexts,
signatures and master keys, in both wire forms.

Continues `Properties/C15.lean` (length accounting).  The marshalling side is `Impl/Marshal.lean`
(`marshalParams`, `marshalKey`, `marshalCt`, `marshalSig`, `marshalMsk`); the UNMARSHALLING side is modelled in the same
file (`unmarshalParams`, `unmarshalKey`, `unmarshalCt`, `unmarshalSig`, `unmarshalMsk`: `setLength` followed by
`…::unmarshal` of src/wkdibe/marshal.cpp) — these are the very definitions the differential judge executes against the
real code (Driver/Judge6.lean, with `canonicalDecoders`, proved equivalent to `checkedDecoders` in
Proofs/EncodeProofs.lean `unmarshal*_canonicalDecoders`) —, parameterised by a
record `Decoders` of point decoders and the pairing:
  * `libDecoders checked pair`  — `Encoding::decode(·, checked)` as modelled in `Impl/Encode.lean`;
  * `checkedDecoders pair`      — the repaired validating decode (`decodeChecked`, with `coordinate_is_canonical`).
`Decoders.Good D` says `D` decodes the encoding of every valid element (on the curve, `[r]P = 0`) to that element; it
is PROVED for both records (this is where C09b enters: compressed round trip of every curve point).
Facts of the C++ that the statements make explicit:
  * compressed parameters do not carry the pairing value; `unmarshal` recomputes `e(g2, g1)`, so the round trip needs
    `pp.pairing = e(g2, g1)` in compressed form (and nothing in uncompressed form);
  * `unmarshal` resets `hsig` / `bsig` to the identity when the signature flag is clear (as `setup`/`keygen` produce);
  * slot indices are 32-bit.
Property theorems only.  Open: canonicity at object level is proved for signatures and master keys only (parameters
and keys accept any non-zero first byte as "signatures", ciphertexts carry an unvalidated GT element: for those the
accepted set is strictly larger than the marshaller's range, by design of the format).
-/
import JediVerif.Proofs.EncodeProofs
import JediVerif.Proofs.OrderR

namespace Jedi.C15
open Jedi Jedi.Impl

/-- both decoder records of the library decode every valid element's encoding, in both forms, to the element. -/
theorem libDecoders_good (checked : Bool) (pair : G1Pt → G2Pt → Fq12) : (libDecoders checked pair).Good :=
  Impl.libDecoders_good checked pair
theorem checkedDecoders_good (pair : G1Pt → G2Pt → Fq12) : (checkedDecoders pair).Good :=
  Impl.checkedDecoders_good pair

/-- `Fq12::read_big_endian ∘ write_big_endian = id`. -/
theorem fq12OfBytes_fq12Bytes (a : Fq12) : fq12OfBytes (fq12Bytes a) = a := Impl.fq12OfBytes_fq12Bytes a

/-- **parameters**: `unmarshal (marshal pp) = pp`, both forms, for parameters made of valid elements
(`WParams.Valid`: g2, g3, hsig (if used), h[i] valid in G1; g, g1 valid in G2; hsig = 0 if unused). -/
theorem unmarshal_marshal_params {D : Decoders} (hD : D.Good) (comp : Bool) {pp : WParams} (hv : pp.Valid)
    (hpair : comp = true → pp.pairing = D.pair pp.g2 pp.g1) :
    unmarshalParams D comp (marshalParams comp pp) = some pp :=
  Impl.unmarshalParams_marshalParams_valid hD comp hv hpair

/-- the version with the decoders' behaviour on the object's own elements as hypotheses (any decoder record). -/
theorem unmarshal_marshal_params' (D : Decoders) (comp : Bool) (pp : WParams)
    (h1 : ∀ p ∈ WParams.g1Elems pp, D.dec1 comp (encG1 comp p) = some p)
    (h2 : ∀ p ∈ WParams.g2Elems pp, D.dec2 comp (encG2 comp p) = some p)
    (hpair : comp = true → pp.pairing = D.pair pp.g2 pp.g1)
    (hsig : pp.signatures = false → pp.hsig = Pt.inf) :
    unmarshalParams D comp (marshalParams comp pp) = some pp :=
  Impl.unmarshalParams_marshalParams D comp pp h1 h2 hpair hsig

/-- **secret keys** (`WKey.Valid`: a0, bsig (if used), every slot element valid in G1; a1 valid in G2; indices < 2³²;
bsig = 0 if unused). -/
theorem unmarshal_marshal_key {D : Decoders} (hD : D.Good) (comp : Bool) {k : WKey} (hv : k.Valid) :
    unmarshalKey D comp (marshalKey comp k) = some k :=
  Impl.unmarshalKey_marshalKey_valid hD comp hv

theorem unmarshal_marshal_key' (D : Decoders) (comp : Bool) (k : WKey)
    (h1 : ∀ p ∈ WKey.g1Elems k, D.dec1 comp (encG1 comp p) = some p)
    (h2 : D.dec2 comp (encG2 comp k.a1) = some k.a1)
    (hidx : ∀ s ∈ k.b, s.1 < 2 ^ 32)
    (hsig : k.signatures = false → k.bsig = Pt.inf) :
    unmarshalKey D comp (marshalKey comp k) = some k :=
  Impl.unmarshalKey_marshalKey D comp k h1 h2 hidx hsig

/-- **ciphertexts** (A ∈ Fq12 arbitrary — the library does not validate it —, B valid in G2, C valid in G1). -/
theorem unmarshal_marshal_ciphertext {D : Decoders} (hD : D.Good) (comp : Bool) {ct : WCiphertext}
    (hb : validG2 ct.b) (hc : validG1 ct.c) : unmarshalCt D comp (marshalCt comp ct) = some ct :=
  Impl.unmarshalCt_marshalCt_valid hD comp hb hc

/-- **signatures**. -/
theorem unmarshal_marshal_signature {D : Decoders} (hD : D.Good) (comp : Bool) {s : WSignature}
    (h0 : validG1 s.a0) (h1 : validG2 s.a1) : unmarshalSig D comp (marshalSig comp s) = some s :=
  Impl.unmarshalSig_marshalSig_valid hD comp h0 h1

/-- **master keys**. -/
theorem unmarshal_marshal_masterkey {D : Decoders} (hD : D.Good) (comp : Bool) {m : G1Pt} (h : validG1 m) :
    unmarshalMsk D comp (marshalMsk comp m) = some m :=
  Impl.unmarshalMsk_marshalMsk_valid hD comp h

/-- instances for the library's own decoders: validating (`checked = true`), non-validating, and repaired. -/
theorem unmarshal_marshal_params_lib (checked comp : Bool) (pair : G1Pt → G2Pt → Fq12) {pp : WParams} (hv : pp.Valid)
    (hpair : comp = true → pp.pairing = pair pp.g2 pp.g1) :
    unmarshalParams (libDecoders checked pair) comp (marshalParams comp pp) = some pp :=
  unmarshal_marshal_params (Impl.libDecoders_good checked pair) comp hv hpair
theorem unmarshal_marshal_key_lib (checked comp : Bool) (pair : G1Pt → G2Pt → Fq12) {k : WKey} (hv : k.Valid) :
    unmarshalKey (libDecoders checked pair) comp (marshalKey comp k) = some k :=
  unmarshal_marshal_key (Impl.libDecoders_good checked pair) comp hv
theorem unmarshal_marshal_params_checked (comp : Bool) (pair : G1Pt → G2Pt → Fq12) {pp : WParams} (hv : pp.Valid)
    (hpair : comp = true → pp.pairing = pair pp.g2 pp.g1) :
    unmarshalParams (checkedDecoders pair) comp (marshalParams comp pp) = some pp :=
  unmarshal_marshal_params (Impl.checkedDecoders_good pair) comp hv hpair
theorem unmarshal_marshal_key_checked (comp : Bool) (pair : G1Pt → G2Pt → Fq12) {k : WKey} (hv : k.Valid) :
    unmarshalKey (checkedDecoders pair) comp (marshalKey comp k) = some k :=
  unmarshal_marshal_key (Impl.checkedDecoders_good pair) comp hv

/-- the two wire forms carry the same object. -/
theorem unmarshal_params_compressed_eq_uncompressed {D : Decoders} (hD : D.Good) {pp : WParams} (hv : pp.Valid)
    (hpair : pp.pairing = D.pair pp.g2 pp.g1) :
    unmarshalParams D true (marshalParams true pp) = unmarshalParams D false (marshalParams false pp) :=
  Impl.unmarshalParams_compressed_eq_uncompressed hD hv hpair
theorem unmarshal_key_compressed_eq_uncompressed {D : Decoders} (hD : D.Good) {k : WKey} (hv : k.Valid) :
    unmarshalKey D true (marshalKey true k) = unmarshalKey D false (marshalKey false k) :=
  Impl.unmarshalKey_compressed_eq_uncompressed hD hv

/-- lengths of the fixed-size objects (ciphertext 576+96+48 | 576+192+96, signature 48+96 | 96+192). -/
theorem marshalCt_length (comp : Bool) (ct : WCiphertext) :
    (marshalCt comp ct).length = 576 + g2Size comp + g1Size comp := Impl.marshalCt_length comp ct
theorem marshalSig_length (comp : Bool) (s : WSignature) :
    (marshalSig comp s).length = g1Size comp + g2Size comp := Impl.marshalSig_length comp s

/-- object-level canonicity where the format allows it: the repaired validating unmarshal accepts a signature / master
key buffer of the right size iff it is the marshalled image of an object made of valid elements. -/
theorem unmarshalSig_checked_iff (pair : G1Pt → G2Pt → Fq12) (comp : Bool) (bs : List UInt8)
    (hl : bs.length = g1Size comp + g2Size comp) (s : WSignature) :
    unmarshalSig (checkedDecoders pair) comp bs = some s ↔ (validG1 s.a0 ∧ validG2 s.a1 ∧ marshalSig comp s = bs) :=
  Impl.unmarshalSig_checked_iff pair comp bs hl s
theorem unmarshalMsk_checked_iff (pair : G1Pt → G2Pt → Fq12) (comp : Bool) (bs : List UInt8)
    (hl : bs.length = g1Size comp) (m : G1Pt) :
    unmarshalMsk (checkedDecoders pair) comp bs = some m ↔ (validG1 m ∧ marshalMsk comp m = bs) :=
  Impl.unmarshalMsk_checked_iff pair comp bs hl m

/-! ### non-vacuity: objects built from the published generators are valid -/
theorem validG1_g1Gen : validG1 g1Gen :=
  ⟨g1Gen_isOnCurve, by unfold inSubgroup; rw [g1Gen_smul_r]; rfl⟩
theorem validG2_g2Gen : validG2 g2Gen :=
  ⟨g2Gen_isOnCurve, by unfold inSubgroup; rw [g2Gen_smul_r]; rfl⟩
theorem validG1_inf : validG1 .inf := ⟨rfl, Impl.inSubgroup_inf⟩

/-- a parameter object with signatures and two slots, and a key with one free slot -/
def exParams : WParams :=
  { g := g2Gen, g1 := g2Gen, g2 := g1Gen, g3 := g1Gen, pairing := 1, hsig := g1Gen, signatures := true, h := [g1Gen, .inf] }
def exKey : WKey := { a0 := g1Gen, a1 := g2Gen, signatures := false, bsig := .inf, b := [(1, g1Gen)] }

theorem exParams_valid : exParams.Valid where
  g1 p hp := by
    simp only [WParams.g1Elems, exParams, if_true, List.mem_cons, List.mem_append, List.not_mem_nil, or_false] at hp
    rcases hp with h | h | h | h | h <;> subst h <;> first | exact validG1_g1Gen | exact validG1_inf
  g2 p hp := by
    simp only [WParams.g2Elems, exParams, List.mem_cons, List.not_mem_nil, or_false] at hp
    rcases hp with h | h <;> subst h <;> exact validG2_g2Gen
  hsig h := by cases h

theorem exKey_valid : exKey.Valid where
  g1 p hp := by
    simp only [WKey.g1Elems, exKey, Bool.false_eq_true, if_false, List.nil_append, List.map_cons, List.map_nil,
      List.mem_cons, List.not_mem_nil, or_false] at hp
    rcases hp with h | h <;> subst h <;> exact validG1_g1Gen
  a1 := validG2_g2Gen
  idx s hs := by
    simp only [exKey, List.mem_cons, List.not_mem_nil, or_false] at hs
    subst hs; decide
  bsig _ := rfl

example : unmarshalParams (checkedDecoders fun _ _ => 1) true (marshalParams true exParams) = some exParams :=
  unmarshal_marshal_params_checked true _ exParams_valid (fun _ => rfl)
example : unmarshalKey (libDecoders true fun _ _ => 1) false (marshalKey false exKey) = some exKey :=
  unmarshal_marshal_key_lib true false _ exKey_valid
example : (marshalKey true exKey).length = 197 := by rw [Impl.marshalKey_length]; decide
/-- an element off the curve is refused by the validating unmarshal (x = 1 has no point above it on E(Fq)) -/
example : unmarshalMsk (libDecoders true fun _ _ => 1) true (orFirst (toBytesBE 48 1) 128) = none := by decide +kernel

end Jedi.C15
