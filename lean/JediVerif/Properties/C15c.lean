/-
C15c — marshalling of the LQ-IBE objects (src/lqibe/marshal.cpp, include/lqibe/api.hpp): parameters, identities,
master keys, secret keys, ciphertexts.

Continues `Properties/C15.lean` (lengths) and `Properties/C15b.lean` (WKD-IBE round trips).  The models are the last
section of `Impl/Marshal.lean`, one definition per C++ method:

  | C++ (`embedded_pairing::lqibe`)                    | model                                   | object            |
  |----------------------------------------------------|-----------------------------------------|-------------------|
  | `Params::marshal / unmarshal / marshalledLength`     | `lqMarshalParams / lqUnmarshalParams / lqParamsLen` | `LParams = Lq.Params G2Pt` (P, sP) |
  | `ID::…`                                              | `lqMarshalId / lqUnmarshalId / lqIdLen`   | the point Q (G1)  |
  | `MasterKey::…` (`memcpy` of the `BigInt<256>`)       | `lqMarshalMsk / lqUnmarshalMsk / lqMskLen` | the value of s    |
  | `SecretKey::…`                                       | `lqMarshalSk / lqUnmarshalSk / lqSkLen`   | the point sQ (G1) |
  | `Ciphertext::…`                                      | `lqMarshalCt / lqUnmarshalCt / lqCtLen`   | the point rP (G2) |

These are the definitions the differential judge executes against the real code: `Driver/Judge6.lean`, case `lq_m`
(bytes and length of every kind of object, both forms, exact equality), case `lq_um` (params / id / sk / ct: valid
buffers, single-bit corruptions of every region; with the judge's decoders `Driver.umD = canonicalDecoders ateSpec`,
proved below to give the same result as the repaired validating decode on EVERY buffer), case `lq_msk`
(`MasterKey::unmarshal`, incl. scalars ≥ r).  The unmarshallers are parameterised by a record `Decoders` (as in C15b):
`libDecoders checked pair` = `Encoding::decode(·, checked)`, `checkedDecoders pair` = the repaired validating decode.
`validG1` / `validG2`: on the curve / twist and of order dividing r — proved equivalent to `InTors` (the membership
predicate of the C16b theorems), so everything `setup`, `keygen`, `encrypt` produce from valid inputs round-trips.

Facts of the C++ made explicit by the statements:
  * the readers look at a prefix only (`unmarshal` gets no length): `…_prefix` forms; with the length fixed to
    `marshalledLength`, the validating unmarshal accepts EXACTLY the marshaller's range on valid objects;
  * `MasterKey::unmarshal` validates nothing and ignores `checked` and `compressed`: every 32-byte string is accepted,
    the scalar is not reduced (it may be ≥ r; `keygen` multiplies by it as it is);
  * nothing relates sP to P: parameters are two independent G2 elements for the format.
Property theorems only (proofs: `Proofs/LqMarshalProofs.lean`).
-/
import JediVerif.Proofs.LqMarshalProofs
import JediVerif.Proofs.ConcreteGroups
import JediVerif.Properties.C15b
import JediVerif.Driver.Judge6

namespace Jedi.C15
open Jedi Jedi.Impl

/-! ### lengths: what `marshal` writes is `marshalledLength<compressed>` bytes -/

/-- `Params::marshalledLength = 2 · |G2 encoding|` (192 compressed, 384 uncompressed). -/
theorem lq_marshalParams_length (comp : Bool) (pp : LParams) : (lqMarshalParams comp pp).length = lqParamsLen comp :=
  Impl.lqMarshalParams_length comp pp
/-- `ID::marshalledLength = |G1 encoding|` (48 | 96). -/
theorem lq_marshalId_length (comp : Bool) (q : G1Pt) : (lqMarshalId comp q).length = lqIdLen comp :=
  Impl.lqMarshalId_length comp q
/-- `MasterKey::marshalledLength = sizeof(Scalar) = 32`, in both forms. -/
theorem lq_marshalMsk_length (comp : Bool) (s : Nat) : (lqMarshalMsk comp s).length = lqMskLen comp :=
  Impl.lqMarshalMsk_length comp s
/-- `SecretKey::marshalledLength = |G1 encoding|` (48 | 96). -/
theorem lq_marshalSk_length (comp : Bool) (sq : G1Pt) : (lqMarshalSk comp sq).length = lqSkLen comp :=
  Impl.lqMarshalSk_length comp sq
/-- `Ciphertext::marshalledLength = |G2 encoding|` (96 | 192). -/
theorem lq_marshalCt_length (comp : Bool) (rp : G2Pt) : (lqMarshalCt comp rp).length = lqCtLen comp :=
  Impl.lqMarshalCt_length comp rp
/-- the numbers. -/
theorem lq_length_values :
    lqParamsLen true = 192 ∧ lqParamsLen false = 384 ∧ lqIdLen true = 48 ∧ lqIdLen false = 96 ∧
    lqMskLen true = 32 ∧ lqMskLen false = 32 ∧ lqSkLen true = 48 ∧ lqSkLen false = 96 ∧
    lqCtLen true = 96 ∧ lqCtLen false = 192 := Impl.lqLen_values

/-! ### round trips `unmarshal (marshal x) = x`, both forms, every `Good` decoder record -/

/-- **parameters** (P and sP valid elements of G2). -/
theorem lq_unmarshal_marshal_params {D : Decoders} (hD : D.Good) (comp : Bool) {pp : LParams}
    (hp : validG2 pp.p) (hsp : validG2 pp.sp) : lqUnmarshalParams D comp (lqMarshalParams comp pp) = some pp :=
  Impl.lqUnmarshalParams_valid hD comp hp hsp
/-- **identities** (Q a valid element of G1). -/
theorem lq_unmarshal_marshal_id {D : Decoders} (hD : D.Good) (comp : Bool) {q : G1Pt} (h : validG1 q) :
    lqUnmarshalId D comp (lqMarshalId comp q) = some q := Impl.lqUnmarshalId_valid hD comp h
/-- **secret keys**. -/
theorem lq_unmarshal_marshal_secretkey {D : Decoders} (hD : D.Good) (comp : Bool) {sq : G1Pt} (h : validG1 sq) :
    lqUnmarshalSk D comp (lqMarshalSk comp sq) = some sq := Impl.lqUnmarshalSk_valid hD comp h
/-- **ciphertexts**. -/
theorem lq_unmarshal_marshal_ciphertext {D : Decoders} (hD : D.Good) (comp : Bool) {rp : G2Pt} (h : validG2 rp) :
    lqUnmarshalCt D comp (lqMarshalCt comp rp) = some rp := Impl.lqUnmarshalCt_valid hD comp h
/-- **master keys**: every value a `BigInt<256>` holds, whatever the two `compressed` flags. -/
theorem lq_unmarshal_marshal_masterkey (comp comp' : Bool) {s : Nat} (h : s < 2 ^ 256) :
    lqUnmarshalMsk comp' (lqMarshalMsk comp s) = some s := Impl.lqUnmarshalMsk_lqMarshalMsk comp comp' h

/-- the versions with the decoders' behaviour on the object's own elements as hypotheses (any record), trailing bytes
allowed (the readers consume a prefix). -/
theorem lq_unmarshal_marshal_params' (D : Decoders) (comp : Bool) (pp : LParams)
    (hp : D.dec2 comp (encG2 comp pp.p) = some pp.p) (hsp : D.dec2 comp (encG2 comp pp.sp) = some pp.sp)
    (rest : List UInt8) : lqUnmarshalParams D comp (lqMarshalParams comp pp ++ rest) = some pp :=
  Impl.lqUnmarshalParams_append D comp pp hp hsp rest
theorem lq_unmarshal_marshal_id' (D : Decoders) (comp : Bool) (q : G1Pt) (h : D.dec1 comp (encG1 comp q) = some q)
    (rest : List UInt8) : lqUnmarshalId D comp (lqMarshalId comp q ++ rest) = some q :=
  Impl.lqUnmarshalId_append D comp q h rest
theorem lq_unmarshal_marshal_secretkey' (D : Decoders) (comp : Bool) (sq : G1Pt)
    (h : D.dec1 comp (encG1 comp sq) = some sq) (rest : List UInt8) :
    lqUnmarshalSk D comp (lqMarshalSk comp sq ++ rest) = some sq := Impl.lqUnmarshalSk_append D comp sq h rest
theorem lq_unmarshal_marshal_ciphertext' (D : Decoders) (comp : Bool) (rp : G2Pt)
    (h : D.dec2 comp (encG2 comp rp) = some rp) (rest : List UInt8) :
    lqUnmarshalCt D comp (lqMarshalCt comp rp ++ rest) = some rp := Impl.lqUnmarshalCt_append D comp rp h rest
/-- a scalar that does not fit is cut to its low 256 bits (cannot happen in the C++: `Scalar` is 256 bits wide). -/
theorem lq_unmarshal_marshal_masterkey' (comp comp' : Bool) (s : Nat) (rest : List UInt8) :
    lqUnmarshalMsk comp' (lqMarshalMsk comp s ++ rest) = some (s % 2 ^ 256) :=
  Impl.lqUnmarshalMsk_append comp comp' s rest

/-- instances for the library's decoders: `unmarshal(·, checked)` as modelled in `Impl/Encode.lean`, with `checked`
set or clear, and the repaired validating decode. -/
theorem lq_unmarshal_marshal_params_lib (checked comp : Bool) (pair : G1Pt → G2Pt → Fq12) {pp : LParams}
    (hp : validG2 pp.p) (hsp : validG2 pp.sp) :
    lqUnmarshalParams (libDecoders checked pair) comp (lqMarshalParams comp pp) = some pp :=
  lq_unmarshal_marshal_params (Impl.libDecoders_good checked pair) comp hp hsp
theorem lq_unmarshal_marshal_params_checked (comp : Bool) (pair : G1Pt → G2Pt → Fq12) {pp : LParams}
    (hp : validG2 pp.p) (hsp : validG2 pp.sp) :
    lqUnmarshalParams (checkedDecoders pair) comp (lqMarshalParams comp pp) = some pp :=
  lq_unmarshal_marshal_params (Impl.checkedDecoders_good pair) comp hp hsp
theorem lq_unmarshal_marshal_id_lib (checked comp : Bool) (pair : G1Pt → G2Pt → Fq12) {q : G1Pt} (h : validG1 q) :
    lqUnmarshalId (libDecoders checked pair) comp (lqMarshalId comp q) = some q :=
  lq_unmarshal_marshal_id (Impl.libDecoders_good checked pair) comp h
theorem lq_unmarshal_marshal_secretkey_lib (checked comp : Bool) (pair : G1Pt → G2Pt → Fq12) {sq : G1Pt}
    (h : validG1 sq) : lqUnmarshalSk (libDecoders checked pair) comp (lqMarshalSk comp sq) = some sq :=
  lq_unmarshal_marshal_secretkey (Impl.libDecoders_good checked pair) comp h
theorem lq_unmarshal_marshal_ciphertext_lib (checked comp : Bool) (pair : G1Pt → G2Pt → Fq12) {rp : G2Pt}
    (h : validG2 rp) : lqUnmarshalCt (libDecoders checked pair) comp (lqMarshalCt comp rp) = some rp :=
  lq_unmarshal_marshal_ciphertext (Impl.libDecoders_good checked pair) comp h

/-- the two wire forms carry the same object. -/
theorem lq_unmarshal_params_compressed_eq_uncompressed {D : Decoders} (hD : D.Good) {pp : LParams}
    (hp : validG2 pp.p) (hsp : validG2 pp.sp) :
    lqUnmarshalParams D true (lqMarshalParams true pp) = lqUnmarshalParams D false (lqMarshalParams false pp) :=
  Impl.lqUnmarshalParams_compressed_eq_uncompressed hD hp hsp

/-- marshalling is injective on valid objects (each form). -/
theorem lq_marshalParams_injective (comp : Bool) {pp pp' : LParams} (hp : validG2 pp.p) (hsp : validG2 pp.sp)
    (hp' : validG2 pp'.p) (hsp' : validG2 pp'.sp) (h : lqMarshalParams comp pp = lqMarshalParams comp pp') : pp = pp' :=
  Impl.lqMarshalParams_injective comp hp hsp hp' hsp' h
theorem lq_marshalId_injective (comp : Bool) {q q' : G1Pt} (hq : validG1 q) (hq' : validG1 q')
    (h : lqMarshalId comp q = lqMarshalId comp q') : q = q' := Impl.lqMarshalId_injective comp hq hq' h
theorem lq_marshalCt_injective (comp : Bool) {p p' : G2Pt} (hp : validG2 p) (hp' : validG2 p')
    (h : lqMarshalCt comp p = lqMarshalCt comp p') : p = p' := Impl.lqMarshalCt_injective comp hp hp' h
theorem lq_marshalMsk_injective (comp : Bool) {s s' : Nat} (hs : s < 2 ^ 256) (hs' : s' < 2 ^ 256)
    (h : lqMarshalMsk comp s = lqMarshalMsk comp s') : s = s' := Impl.lqMarshalMsk_injective comp hs hs' h

/-! ### the validating unmarshal accepts exactly the marshaller's range, and returns the preimage -/

/-- **parameters**: a buffer of `marshalledLength` bytes is accepted, with result `pp`, iff `pp` is made of valid
elements and the buffer is its marshalled image. -/
theorem lq_unmarshalParams_checked_iff (pair : G1Pt → G2Pt → Fq12) (comp : Bool) (bs : List UInt8)
    (hl : bs.length = lqParamsLen comp) (pp : LParams) :
    lqUnmarshalParams (checkedDecoders pair) comp bs = some pp ↔
      (validG2 pp.p ∧ validG2 pp.sp ∧ lqMarshalParams comp pp = bs) :=
  Impl.lqUnmarshalParams_checked_iff pair comp bs hl pp
theorem lq_unmarshalId_checked_iff (pair : G1Pt → G2Pt → Fq12) (comp : Bool) (bs : List UInt8)
    (hl : bs.length = lqIdLen comp) (q : G1Pt) :
    lqUnmarshalId (checkedDecoders pair) comp bs = some q ↔ (validG1 q ∧ lqMarshalId comp q = bs) :=
  Impl.lqUnmarshalId_checked_iff pair comp bs hl q
theorem lq_unmarshalSk_checked_iff (pair : G1Pt → G2Pt → Fq12) (comp : Bool) (bs : List UInt8)
    (hl : bs.length = lqSkLen comp) (sq : G1Pt) :
    lqUnmarshalSk (checkedDecoders pair) comp bs = some sq ↔ (validG1 sq ∧ lqMarshalSk comp sq = bs) :=
  Impl.lqUnmarshalSk_checked_iff pair comp bs hl sq
theorem lq_unmarshalCt_checked_iff (pair : G1Pt → G2Pt → Fq12) (comp : Bool) (bs : List UInt8)
    (hl : bs.length = lqCtLen comp) (rp : G2Pt) :
    lqUnmarshalCt (checkedDecoders pair) comp bs = some rp ↔ (validG2 rp ∧ lqMarshalCt comp rp = bs) :=
  Impl.lqUnmarshalCt_checked_iff pair comp bs hl rp

/-- without any assumption on the length: accepted iff the buffer STARTS with the image of a valid object. -/
theorem lq_unmarshalParams_checked_iff_prefix (pair : G1Pt → G2Pt → Fq12) (comp : Bool) (bs : List UInt8) (pp : LParams) :
    lqUnmarshalParams (checkedDecoders pair) comp bs = some pp ↔
      (validG2 pp.p ∧ validG2 pp.sp ∧ ∃ rest, bs = lqMarshalParams comp pp ++ rest) :=
  Impl.lqUnmarshalParams_checked_iff_prefix pair comp bs pp
theorem lq_unmarshalId_checked_iff_prefix (pair : G1Pt → G2Pt → Fq12) (comp : Bool) (bs : List UInt8) (q : G1Pt) :
    lqUnmarshalId (checkedDecoders pair) comp bs = some q ↔ (validG1 q ∧ ∃ rest, bs = lqMarshalId comp q ++ rest) :=
  Impl.lqUnmarshalId_checked_iff_prefix pair comp bs q
theorem lq_unmarshalSk_checked_iff_prefix (pair : G1Pt → G2Pt → Fq12) (comp : Bool) (bs : List UInt8) (sq : G1Pt) :
    lqUnmarshalSk (checkedDecoders pair) comp bs = some sq ↔ (validG1 sq ∧ ∃ rest, bs = lqMarshalSk comp sq ++ rest) :=
  Impl.lqUnmarshalSk_checked_iff_prefix pair comp bs sq
theorem lq_unmarshalCt_checked_iff_prefix (pair : G1Pt → G2Pt → Fq12) (comp : Bool) (bs : List UInt8) (rp : G2Pt) :
    lqUnmarshalCt (checkedDecoders pair) comp bs = some rp ↔ (validG2 rp ∧ ∃ rest, bs = lqMarshalCt comp rp ++ rest) :=
  Impl.lqUnmarshalCt_checked_iff_prefix pair comp bs rp

/-- rejection: a buffer of the right size is refused iff it is not the image of a valid object. -/
theorem lq_unmarshalParams_checked_none_iff (pair : G1Pt → G2Pt → Fq12) (comp : Bool) (bs : List UInt8)
    (hl : bs.length = lqParamsLen comp) :
    lqUnmarshalParams (checkedDecoders pair) comp bs = none ↔
      ¬ ∃ pp : LParams, validG2 pp.p ∧ validG2 pp.sp ∧ lqMarshalParams comp pp = bs :=
  Impl.lqUnmarshalParams_checked_none_iff pair comp bs hl
theorem lq_unmarshalId_checked_none_iff (pair : G1Pt → G2Pt → Fq12) (comp : Bool) (bs : List UInt8)
    (hl : bs.length = lqIdLen comp) :
    lqUnmarshalId (checkedDecoders pair) comp bs = none ↔ ¬ ∃ q : G1Pt, validG1 q ∧ lqMarshalId comp q = bs :=
  Impl.lqUnmarshalId_checked_none_iff pair comp bs hl
theorem lq_unmarshalSk_checked_none_iff (pair : G1Pt → G2Pt → Fq12) (comp : Bool) (bs : List UInt8)
    (hl : bs.length = lqSkLen comp) :
    lqUnmarshalSk (checkedDecoders pair) comp bs = none ↔ ¬ ∃ sq : G1Pt, validG1 sq ∧ lqMarshalSk comp sq = bs :=
  Impl.lqUnmarshalSk_checked_none_iff pair comp bs hl
theorem lq_unmarshalCt_checked_none_iff (pair : G1Pt → G2Pt → Fq12) (comp : Bool) (bs : List UInt8)
    (hl : bs.length = lqCtLen comp) :
    lqUnmarshalCt (checkedDecoders pair) comp bs = none ↔ ¬ ∃ rp : G2Pt, validG2 rp ∧ lqMarshalCt comp rp = bs :=
  Impl.lqUnmarshalCt_checked_none_iff pair comp bs hl

/-- **master keys**: `unmarshal` accepts every buffer of 32 bytes (or more) … -/
theorem lq_unmarshalMsk_accepts (comp : Bool) {bs : List UInt8} (h : lqMskLen comp ≤ bs.length) :
    (lqUnmarshalMsk comp bs).isSome = true := Impl.lqUnmarshalMsk_isSome comp h
/-- … and 32-byte strings correspond one to one to the scalars below 2²⁵⁶ (no reduction modulo r anywhere). -/
theorem lq_unmarshalMsk_iff (comp : Bool) (bs : List UInt8) (hl : bs.length = lqMskLen comp) (s : Nat) :
    lqUnmarshalMsk comp bs = some s ↔ (s < 2 ^ 256 ∧ lqMarshalMsk comp s = bs) := Impl.lqUnmarshalMsk_iff comp bs hl s

/-- what the validating unmarshal accepts, the non-validating one (and every other `Good` record) reads the same. -/
theorem lq_unmarshalParams_of_checked {D : Decoders} (hD : D.Good) (pair) (comp : Bool) {bs : List UInt8} {pp : LParams}
    (h : lqUnmarshalParams (checkedDecoders pair) comp bs = some pp) : lqUnmarshalParams D comp bs = some pp :=
  Impl.lqUnmarshalParams_of_checked hD pair comp h
theorem lq_unmarshalId_of_checked {D : Decoders} (hD : D.Good) (pair) (comp : Bool) {bs : List UInt8} {q : G1Pt}
    (h : lqUnmarshalId (checkedDecoders pair) comp bs = some q) : lqUnmarshalId D comp bs = some q :=
  Impl.lqUnmarshalId_of_checked hD pair comp h
theorem lq_unmarshalSk_of_checked {D : Decoders} (hD : D.Good) (pair) (comp : Bool) {bs : List UInt8} {sq : G1Pt}
    (h : lqUnmarshalSk (checkedDecoders pair) comp bs = some sq) : lqUnmarshalSk D comp bs = some sq :=
  Impl.lqUnmarshalSk_of_checked hD pair comp h
theorem lq_unmarshalCt_of_checked {D : Decoders} (hD : D.Good) (pair) (comp : Bool) {bs : List UInt8} {rp : G2Pt}
    (h : lqUnmarshalCt (checkedDecoders pair) comp bs = some rp) : lqUnmarshalCt D comp bs = some rp :=
  Impl.lqUnmarshalCt_of_checked hD pair comp h

/-! ### what the judge executes on the `lq_um` lines IS the object of the theorems above -/

/-- `Driver.umD` (= `canonicalDecoders ateSpec`: canonical encoding of a point of order dividing r, order test by the
Jacobian ladder) gives, on every buffer, what the repaired validating decode gives. -/
theorem lq_unmarshalParams_judge (comp : Bool) (bs : List UInt8) :
    lqUnmarshalParams Driver.umD comp bs = lqUnmarshalParams (checkedDecoders ateSpec) comp bs :=
  Impl.lqUnmarshalParams_canonicalDecoders ateSpec comp bs
theorem lq_unmarshalId_judge (comp : Bool) (bs : List UInt8) :
    lqUnmarshalId Driver.umD comp bs = lqUnmarshalId (checkedDecoders ateSpec) comp bs :=
  Impl.lqUnmarshalId_canonicalDecoders ateSpec comp bs
theorem lq_unmarshalSk_judge (comp : Bool) (bs : List UInt8) :
    lqUnmarshalSk Driver.umD comp bs = lqUnmarshalSk (checkedDecoders ateSpec) comp bs :=
  Impl.lqUnmarshalSk_canonicalDecoders ateSpec comp bs
theorem lq_unmarshalCt_judge (comp : Bool) (bs : List UInt8) :
    lqUnmarshalCt Driver.umD comp bs = lqUnmarshalCt (checkedDecoders ateSpec) comp bs :=
  Impl.lqUnmarshalCt_canonicalDecoders ateSpec comp bs

/-! ### the objects LQ-IBE produces are valid: `setup`, `keygen`, `encrypt` outputs round-trip

`validG1` / `validG2` are the membership predicates `InTors g1B r` / `InTors g2B r` of C16b. -/

theorem validG1_iff_inTors (p : G1Pt) : validG1 p ↔ InTors g1B r p := by
  unfold validG1 InTors inSubgroup
  rw [beq_iff_eq]
theorem validG2_iff_inTors (p : G2Pt) : validG2 p ↔ InTors g2B r p := by
  unfold validG2 InTors inSubgroup
  rw [beq_iff_eq]

/-- parameters made by `setup` from a generator P ∈ G2 and ANY master scalar: `unmarshal (marshal ·)` is the identity,
both forms, checked or not. -/
theorem lq_setup_params_roundtrip {D : Decoders} (hD : D.Good) (comp : Bool) {p : G2Pt} (hp : InTors g2B r p) (s : Nat) :
    lqUnmarshalParams D comp (lqMarshalParams comp (Lq.setup Driver.g2Ops p s)) = some (Lq.setup Driver.g2Ops p s) :=
  lq_unmarshal_marshal_params hD comp ((validG2_iff_inTors _).mpr hp)
    ((validG2_iff_inTors _).mpr (hp.smulFast curveHyp_g2 s))

/-- secret keys made by `keygen` from an identity point Q ∈ G1 and ANY master scalar. -/
theorem lq_keygen_secretkey_roundtrip {D : Decoders} (hD : D.Good) (comp : Bool) {qid : G1Pt} (hq : InTors g1B r qid)
    (s : Nat) :
    lqUnmarshalSk D comp (lqMarshalSk comp (Lq.keygen Driver.g1Ops s qid)) = some (Lq.keygen Driver.g1Ops s qid) :=
  lq_unmarshal_marshal_secretkey hD comp ((validG1_iff_inTors _).mpr (hq.smulFast curveHyp_g1 s))

/-- ciphertexts made by `encrypt` under parameters with P ∈ G2. -/
theorem lq_encrypt_ciphertext_roundtrip {D : Decoders} (hD : D.Good) (comp : Bool) {pp : LParams}
    (hp : InTors g2B r pp.p) (qid : G1Pt) (rr : Nat) :
    lqUnmarshalCt D comp (lqMarshalCt comp (Lq.encryptBuf Driver.g2Ops Driver.lqEnv pp qid rr).1) =
      some (Lq.encryptBuf Driver.g2Ops Driver.lqEnv pp qid rr).1 :=
  lq_unmarshal_marshal_ciphertext hD comp ((validG2_iff_inTors _).mpr (hp.smulFast curveHyp_g2 rr))

/-- and a master key made by `setup`/`unmarshal` (any 256-bit value) survives `marshal` then `unmarshal`, after which
`keygen` gives the same secret key. -/
theorem lq_keygen_after_masterkey_roundtrip (comp comp' : Bool) {s : Nat} (h : s < 2 ^ 256) (qid : G1Pt) :
    (lqUnmarshalMsk comp' (lqMarshalMsk comp s)).map (fun s' => Lq.keygen Driver.g1Ops s' qid) =
      some (Lq.keygen Driver.g1Ops s qid) := by
  rw [lq_unmarshal_marshal_masterkey comp comp' h]; rfl

/-! ### non-vacuity -/

/-- the parameters (G2 generator, 5·generator) -/
def exLqParams : LParams := Lq.setup Driver.g2Ops g2Gen 5

theorem g2Gen_inTors : InTors g2B r g2Gen := (validG2_iff_inTors _).mp validG2_g2Gen
theorem g1Gen_inTors : InTors g1B r g1Gen := (validG1_iff_inTors _).mp validG1_g1Gen

example : lqUnmarshalParams (checkedDecoders ateSpec) true (lqMarshalParams true exLqParams) = some exLqParams :=
  lq_setup_params_roundtrip (Impl.checkedDecoders_good _) true g2Gen_inTors 5
example : lqUnmarshalParams (libDecoders false ateSpec) false (lqMarshalParams false exLqParams) = some exLqParams :=
  lq_setup_params_roundtrip (Impl.libDecoders_good false _) false g2Gen_inTors 5
example : lqUnmarshalParams Driver.umD true (lqMarshalParams true exLqParams) = some exLqParams :=
  lq_setup_params_roundtrip (Impl.canonicalDecoders_good _) true g2Gen_inTors 5
example : lqUnmarshalSk (libDecoders true ateSpec) true (lqMarshalSk true (Lq.keygen Driver.g1Ops 7 g1Gen)) =
    some (Lq.keygen Driver.g1Ops 7 g1Gen) :=
  lq_keygen_secretkey_roundtrip (Impl.libDecoders_good true _) true g1Gen_inTors 7
example : (lqMarshalParams true exLqParams).length = 192 := by rw [lq_marshalParams_length]; decide
example : lqMarshalMsk true 0x0102 = [2, 1] ++ List.replicate 30 0 := by decide
example : lqUnmarshalMsk false ([2, 1] ++ List.replicate 30 0) = some 0x0102 := by decide
/-- the group order itself is a legal master-key image (nothing is reduced or refused) -/
example : lqUnmarshalMsk true (lqMarshalMsk true r) = some r := lq_unmarshal_marshal_masterkey true true (by decide)
/-- a buffer whose first element is off the curve (x = 1) is refused by the validating unmarshal -/
example : lqUnmarshalId (libDecoders true fun _ _ => 1) true (orFirst (toBytesBE 48 1) 128) = none := by decide +kernel
/-- a truncated buffer is refused -/
example : lqUnmarshalCt (checkedDecoders fun _ _ => 1) true (List.replicate 95 0) = none := by decide

end Jedi.C15
