/-
Mirror obligation of C19 (see Properties/Mirrors.lean for the explanation): the C++ functions that the hand-written models of C19
mirror have, on the current tree, the typed syntax trees the models were written against.  Decided by the kernel on closed terms.
-/
import JediVerif.Gen.Mirrors
import JediVerif.Impl.MirrorsExpected

namespace Jedi.Mirrors
theorem mirror_C19 : Jedi.Gen.Mirrors.c19 = Jedi.Impl.MirrorsExpected.c19 := rfl
end Jedi.Mirrors
