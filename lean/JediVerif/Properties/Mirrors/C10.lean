/-
Mirror obligation of C10 (see Properties/Mirrors.lean for the explanation): the C++ functions that the hand-written models of C10
mirror have, on the current tree, the typed syntax trees the models were written against.  Decided by the kernel on closed terms.
-/
import JediVerif.Gen.Mirrors
import JediVerif.Impl.MirrorsExpected

namespace Jedi.Mirrors
theorem mirror_C10 : Jedi.Gen.Mirrors.c10 = Jedi.Impl.MirrorsExpected.c10 := rfl
end Jedi.Mirrors
