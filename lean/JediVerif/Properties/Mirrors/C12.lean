/-
Mirror obligation of C12 (see Properties/Mirrors.lean for the explanation): the C++ functions that the hand-written models of C12
mirror have, on the current tree, the typed syntax trees the models were written against.  Decided by the kernel on closed terms.
-/
import JediVerif.Gen.Mirrors
import JediVerif.Impl.MirrorsExpected

namespace Jedi.Mirrors
theorem mirror_C12 : Jedi.Gen.Mirrors.c12 = Jedi.Impl.MirrorsExpected.c12 := rfl
end Jedi.Mirrors
