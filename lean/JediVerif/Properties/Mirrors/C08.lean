/-
Mirror obligation of C08 (see Properties/Mirrors.lean for the explanation): the C++ functions that the hand-written models of C08
mirror have, on the current tree, the typed syntax trees the models were written against.  Decided by the kernel on closed terms.
-/
import JediVerif.Gen.Mirrors
import JediVerif.Impl.MirrorsExpected

namespace Jedi.Mirrors
theorem mirror_C08 : Jedi.Gen.Mirrors.c08 = Jedi.Impl.MirrorsExpected.c08 := rfl
end Jedi.Mirrors
