/-
Mirror obligation of C03 (see Properties/Mirrors.lean for the explanation): the C++ functions that the hand-written models of C03
mirror have, on the current tree, the typed syntax trees the models were written against.  Decided by the kernel on closed terms.
-/
import JediVerif.Gen.Mirrors
import JediVerif.Impl.MirrorsExpected

namespace Jedi.Mirrors
theorem mirror_C03 : Jedi.Gen.Mirrors.c03 = Jedi.Impl.MirrorsExpected.c03 := rfl
end Jedi.Mirrors
