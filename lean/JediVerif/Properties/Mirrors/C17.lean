/-
Mirror obligation of C17 (see Properties/Mirrors.lean for the explanation): the C++ functions that the hand-written models of C17
mirror have, on the current tree, the typed syntax trees the models were written against.  Decided by the kernel on closed terms.
-/
import JediVerif.Gen.Mirrors
import JediVerif.Impl.MirrorsExpected

namespace Jedi.Mirrors
theorem mirror_C17 : Jedi.Gen.Mirrors.c17 = Jedi.Impl.MirrorsExpected.c17 := rfl
end Jedi.Mirrors
