/-
C13 — signatures verify exactly for the signed message and attribute list.

Property theorems only (proofs in Proofs/WkdibeProofs.lean).
`verify e pp prod sig msg` is `verify_precomputed` written division-free:
e(sig.a0, g) = e(g2, g1) · e(prod + msg·hsig, sig.a1).
-/
import JediVerif.Proofs.WkdibeProofs

namespace Jedi.C13
open Jedi Jedi.Wk

variable {G1 G2 GT : Type} [AddCommGroup G1] [AddCommGroup G2]
variable {o1 : GroupOps G1} {o2 : GroupOps G2}

/-- `sign_precomputed` with a canonical key (signature support on) and a list that extends the
key's pattern on its free slots returns the canonical signature for that list and message. -/
theorem sign_canon (L1 : Lawful o1) (L2 : Lawful o2) (hr : ExpR G1) (pp : Params G1 G2 GT)
    (g2alpha : G1) (π : List Slot) (ρ : Nat) (al : AttrList) (msg s : Nat)
    (hsig : pp.signatures = true) (hext : extendsOnFree π al = true) :
    signPrecomputed o1 o2 pp (canon o1 o2 pp g2alpha π ρ) (some al) (precompute o1 pp al) msg s
      = (g2alpha + (ρ + s) • (listProduct o1 pp al + msg • pp.hsig), (ρ + s) • pp.g) :=
  Wk.sign_canon L1 L2 hr pp g2alpha π ρ al msg s hsig hext

/-- signing without a list (`attrs = nullptr`): canonical signature on the key's own product. -/
theorem sign_canon_none (L1 : Lawful o1) (L2 : Lawful o2) (pp : Params G1 G2 GT)
    (g2alpha : G1) (π : List Slot) (ρ : Nat) (pre : G1) (msg s : Nat)
    (hsig : pp.signatures = true) (hpre : pre = patternProduct o1 pp π) :
    signPrecomputed o1 o2 pp (canon o1 o2 pp g2alpha π ρ) none pre msg s
      = (g2alpha + (ρ + s) • (pre + msg • pp.hsig), (ρ + s) • pp.g) :=
  Wk.sign_canon_none L1 L2 pp g2alpha π ρ pre msg s hsig hpre

section verify
variable [CommGroup GT] {e : G1 → G2 → GT}

/-- the signature produced by `sign_precomputed` verifies for the signed message and list. -/
theorem verify_sign (L1 : Lawful o1) (L2 : Lawful o2) (hr : ExpR G1) (he : Bilinear e)
    (pp : Params G1 G2 GT) (g2alpha : G1) (α : Nat) (hs : SetupOk e pp g2alpha α)
    (π : List Slot) (ρ : Nat) (al : AttrList) (msg s : Nat)
    (hsig : pp.signatures = true) (hext : extendsOnFree π al = true) :
    verify e pp (precompute o1 pp al)
      (signPrecomputed o1 o2 pp (canon o1 o2 pp g2alpha π ρ) (some al) (precompute o1 pp al) msg s)
      msg := by
  rw [Wk.sign_canon L1 L2 hr pp g2alpha π ρ al msg s hsig hext]
  exact Wk.verify_canonical he pp g2alpha α hs _ msg (ρ + s)

/-- "exactly": the signature on (prod, msg) verifies for (prod', msg') iff the pairing of the
difference of the two bound elements is trivial — no assumption relating the two. -/
theorem verify_exact (he : Bilinear e) (pp : Params G1 G2 GT) (g2alpha : G1)
    (α : Nat) (hs : SetupOk e pp g2alpha α) (prod prod' : G1) (msg msg' k : Nat) :
    verify e pp prod' (g2alpha + k • (prod + msg • pp.hsig), k • pp.g) msg'
      ↔ e ((prod + msg • pp.hsig) - (prod' + msg' • pp.hsig)) pp.g ^ k = 1 :=
  Wk.verify_exact he pp g2alpha α hs prod prod' msg msg' k

/-- hence with a non-degenerate pairing it verifies only for the same bound element. -/
theorem verify_only_signed (he : Bilinear e) (pp : Params G1 G2 GT) (g2alpha : G1)
    (α : Nat) (hs : SetupOk e pp g2alpha α) (prod prod' : G1) (msg msg' k : Nat)
    (hnd : ∀ x : G1, e x pp.g ^ k = 1 → x = 0) :
    verify e pp prod' (g2alpha + k • (prod + msg • pp.hsig), k • pp.g) msg'
      ↔ prod + msg • pp.hsig = prod' + msg' • pp.hsig := by
  rw [Wk.verify_exact he pp g2alpha α hs]
  constructor
  · intro h; exact sub_eq_zero.1 (hnd _ h)
  · intro h; rw [h, sub_self, he.zero_left, one_pow]

/-- The limit of "exactly": a signature whose total exponent `k = ρ + s` kills the generator (`k • g = 0`, i.e. the signing exponent
cancels the key's own randomness modulo the group order) is `(g2alpha + k•(…), 0)` and verifies for EVERY message and attribute
product.  This is the scheme, not the code; with honest randomness it has probability 1/r (observation (x) of DESIGN.md, exercised by the
stream through a scripted randomness callback). -/
theorem verify_degenerate (he : Bilinear e) (pp : Params G1 G2 GT) (g2alpha : G1)
    (α : Nat) (hs : SetupOk e pp g2alpha α) (prod prod' : G1) (msg msg' k : Nat) (hk : k • pp.g = 0) :
    verify e pp prod' (g2alpha + k • (prod + msg • pp.hsig), k • pp.g) msg' := by
  rw [Wk.verify_exact he pp g2alpha α hs, ← he.nsmul_right, hk, he.zero_right]

end verify

/-! ### Non-vacuity -/

open Wk.Ex in
example : extendsOnFree [.fixed 42, .free, .hidden] alC = true := by decide

open Wk.Ex in
example (ρ s msg : Nat) :
    verify e pp (precompute ops pp alC)
      (signPrecomputed ops ops pp (canon ops ops pp g2alpha [.fixed 42, .free, .hidden] ρ) (some alC)
        (precompute ops pp alC) msg s) msg :=
  verify_sign lawful lawful expR bilinear pp g2alpha 5 setupOk _ ρ alC msg s rfl (by decide)

end Jedi.C13
