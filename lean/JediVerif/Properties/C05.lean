/-
C05 — G1/G2 point arithmetic is the group law.

Subject: the GENERATED models of `/repo/include/bls12_381/curve.hpp` (Gen/CurveGen.lean):
`Proj.add`, `Proj.addA` (mixed), `Proj.multiply2`, `Proj.negate`, `Proj.equal`, `Proj.is_zero`,
`Proj.from_affine`, `Affn.from_projective`, `Affn.negate`, `Affn.is_on_curve`, `Affn.equal`,
their output-aliased variants, and the second instantiation `Proj2.*`/`Affn2.*` over Fq2.
Specification: the textbook affine chord-and-tangent law `Pt.add`/`Pt.dbl`/`Pt.neg` of
Spec/Curve.lean on y² = x³ + b, read through `Pt.ofJac : (X:Y:Z) ↦ (X/Z², Y/Z³)`, Z = 0 ↦ ∞.

Generic part: any field `K` with decidable equality and 2 ≠ 0, any coefficient `b` (so b = 4 over
Fq and b = 4(1+u) over Fq2 are instances).  `OnCurveJ b p` is `p.z = 0 ∨ Y² = X³ + b·Z⁶`: the
identity is allowed in every representation (z = 0, x and y arbitrary), as in the C++.
No hypothesis excludes an exceptional case: identity operands, equal operands given to `add`,
opposite operands, equal x with different representatives, z = 1 are all covered by the
universally quantified statements (and singled out in the corollaries at the end of the section).

Fq2 part: (a) `proj2_*_eq`: the Fq2 instantiation is literally the generic code at `F := Q2 R`
with the Spec's own `Q2` operations, over any commutative ring `R`; (b) `fq2_*`: the correctness
statements for `Proj2.*`, phrased with the Spec operations on `Q2 R` only, for any field `R` in
which x² + y² = 0 forces x = y = 0 (true for Fq: q ≡ 3 mod 4) and 2 ≠ 0.

All proofs are in Proofs/CurveProofs.lean.
-/
import JediVerif.Proofs.CurveProofs
import Mathlib.Tactic.NormNum.Basic
import Mathlib.Algebra.Field.Rat
import Mathlib.Algebra.Order.Ring.Rat
import Mathlib.Algebra.Order.Ring.Unbundled.Basic

namespace Jedi.C05
open Jedi Jedi.Gen

section Generic
variable {K : Type} [Field K] [DecidableEq K]

/-- The Jacobian curve predicate is the Spec's `isOnCurve` of the represented point. -/
theorem onCurveJ_iff (b : K) (p : Jac K) :
    OnCurveJ b p ↔ Pt.isOnCurve b (Pt.ofJac p) = true := Jedi.onCurveJ_iff b p

/-! #### (1) doubling — for every triple, on the curve or not; covers z = 0 and y = 0 -/
theorem dbl_correct (h2 : (2 : K) ≠ 0) (p : Jac K) :
    Pt.ofJac (Proj.multiply2 p) = Pt.dbl (Pt.ofJac p) := dbl_correct' h2 p

/-! #### (2) addition of two Jacobian points, all five branches of the code -/
theorem add_correct (h2 : (2 : K) ≠ 0) {b : K} {p q : Jac K}
    (hp : OnCurveJ b p) (hq : OnCurveJ b q) :
    Pt.ofJac (Proj.add p q) = Pt.add (Pt.ofJac p) (Pt.ofJac q) := add_correct' h2 hp hq

/-! #### (3) mixed addition, negation, conversions, equality, membership -/
theorem addA_correct (h2 : (2 : K) ≠ 0) {b : K} {p : Jac K} {a : Aff K}
    (hp : OnCurveJ b p) (ha : Pt.isOnCurve b a.toPt = true) :
    Pt.ofJac (Proj.addA p a) = Pt.add (Pt.ofJac p) a.toPt :=
  addA_correct' h2 hp ((Aff.isOnCurve_toPt_iff b a).mp ha)

/-- mixed addition is the general addition with the affine operand lifted to z = 1. -/
theorem addA_eq_add {p : Jac K} {a : Aff K} (h : a.infinity = false) :
    Proj.addA p a = Proj.add p ⟨a.x, a.y, 1⟩ := Proj.addA_eq_add h

theorem neg_correct (p : Jac K) : Pt.ofJac (Proj.negate p) = Pt.neg (Pt.ofJac p) := neg_correct' p

omit [DecidableEq K] in
theorem aff_neg_correct (a : Aff K) : (Affn.negate a).toPt = Pt.neg a.toPt := Aff.neg_correct a

theorem from_affine_correct (a : Aff K) : Pt.ofJac (Proj.from_affine a) = a.toPt :=
  from_affine_correct' a

theorem from_projective_correct (p : Jac K) : (Affn.from_projective p).toPt = Pt.ofJac p :=
  from_projective_correct' p

/-- the two shortcuts of `from_projective`, with the exact fields the C++ writes. -/
theorem from_projective_identity {p : Jac K} (hz : p.z = 0) :
    Affn.from_projective p = ⟨0, 1, true⟩ := from_projective_z0 hz
theorem from_projective_normalized {p : Jac K} (hz : p.z = 1) :
    Affn.from_projective p = ⟨p.x, p.y, false⟩ := from_projective_z1 hz

/-- equality is representation-independent (no curve hypothesis; z = 0 with arbitrary x, y). -/
theorem equal_iff (p q : Jac K) : Proj.equal p q = true ↔ Pt.ofJac p = Pt.ofJac q := equal_iff' p q

omit [Field K] in
theorem aff_equal_iff (a c : Aff K) : Affn.equal a c = true ↔ a.toPt = c.toPt := Aff.equal_iff a c

theorem is_zero_iff (p : Jac K) : Proj.is_zero p = true ↔ Pt.ofJac p = Pt.inf := is_zero_iff' p

omit [Field K] [DecidableEq K] in
theorem aff_is_zero_iff (a : Aff K) : Affn.is_zero a = true ↔ a.toPt = Pt.inf := Aff.is_zero_iff a

/-- `is_on_curve` tests y² = x³ + b on the stored coordinates (it does not look at the infinity
flag, exactly as the C++); for a finite point this is the Spec predicate. -/
theorem is_on_curve_iff (b : K) (a : Aff K) :
    Affn.is_on_curve b a = true ↔ a.y ^ 2 = a.x ^ 3 + b := is_on_curve_iff' b a

theorem is_on_curve_iff_spec (b : K) (a : Aff K) (h : a.infinity = false) :
    Affn.is_on_curve b a = true ↔ Pt.isOnCurve b a.toPt = true := by
  rw [is_on_curve_iff' b a, Aff.isOnCurve_toPt_iff b a]; simp [h]

/-- observation (faithful to the C++, which never reads the flag in `is_on_curve`): on the canonical
affine identity (0, 1, infinity) written by `from_projective`, `is_on_curve` answers `b = 1`, i.e.
`false` for both BLS12-381 curves; callers must test `is_zero` first. -/
theorem is_on_curve_identity (b : K) : Affn.is_on_curve b ⟨0, 1, true⟩ = true ↔ b = 1 := by
  rw [is_on_curve_iff']
  constructor <;> intro h <;> linear_combination -h

/-! #### (4) results stay on the curve -/
theorem on_curve_multiply2 (h2 : (2 : K) ≠ 0) {b : K} {p : Jac K} (hp : OnCurveJ b p) :
    OnCurveJ b (Proj.multiply2 p) := onCurve_multiply2 h2 hp

theorem on_curve_add (h2 : (2 : K) ≠ 0) {b : K} {p q : Jac K}
    (hp : OnCurveJ b p) (hq : OnCurveJ b q) : OnCurveJ b (Proj.add p q) := onCurve_add h2 hp hq

theorem on_curve_addA (h2 : (2 : K) ≠ 0) {b : K} {p : Jac K} {a : Aff K}
    (hp : OnCurveJ b p) (ha : Pt.isOnCurve b a.toPt = true) : OnCurveJ b (Proj.addA p a) :=
  onCurve_addA h2 hp ((Aff.isOnCurve_toPt_iff b a).mp ha)

theorem on_curve_negate {b : K} {p : Jac K} (hp : OnCurveJ b p) : OnCurveJ b (Proj.negate p) :=
  onCurve_negate hp

theorem on_curve_from_affine {b : K} {a : Aff K} (ha : Pt.isOnCurve b a.toPt = true) :
    OnCurveJ b (Proj.from_affine a) := by
  rw [Jedi.onCurveJ_iff, from_affine_correct']; exact ha

theorem on_curve_from_projective {b : K} {p : Jac K} (hp : OnCurveJ b p) :
    Pt.isOnCurve b (Affn.from_projective p).toPt = true := by
  rw [from_projective_correct']; exact (Jedi.onCurveJ_iff b p).mp hp

theorem on_curve_preserved (h2 : (2 : K) ≠ 0) {b : K} {p q : Jac K} {a : Aff K}
    (hp : OnCurveJ b p) (hq : OnCurveJ b q) (ha : Pt.isOnCurve b a.toPt = true) :
    OnCurveJ b (Proj.multiply2 p) ∧ OnCurveJ b (Proj.add p q) ∧ OnCurveJ b (Proj.addA p a) ∧
      OnCurveJ b (Proj.negate p) :=
  ⟨on_curve_multiply2 h2 hp, on_curve_add h2 hp hq, on_curve_addA h2 hp ha, on_curve_negate hp⟩

/-- the Spec operations themselves stay on the curve. -/
theorem spec_on_curve (h2 : (2 : K) ≠ 0) {b : K} {P Q : Pt K}
    (hP : Pt.isOnCurve b P = true) (hQ : Pt.isOnCurve b Q = true) :
    Pt.isOnCurve b (Pt.add P Q) = true ∧ Pt.isOnCurve b (Pt.dbl P) = true ∧
      Pt.isOnCurve b (Pt.neg P) = true :=
  ⟨Pt.add_isOnCurve h2 hP hQ, Pt.dbl_isOnCurve h2 hP, Pt.neg_isOnCurve hP⟩

/-! #### exceptional cases, singled out -/

/-- right operand the identity in any representation: the left operand is returned unchanged. -/
theorem add_identity_right {p q : Jac K} (hq : q.z = 0) : Proj.add p q = p := Proj.add_qz0 hq
/-- left operand the identity (right one not): the right operand is returned unchanged. -/
theorem add_identity_left {p q : Jac K} (hp : p.z = 0) (hq : q.z ≠ 0) : Proj.add p q = q :=
  Proj.add_pz0 hq hp
/-- equal operands (any two representatives of the same point) given to `add`: doubling. -/
theorem add_same_point (h2 : (2 : K) ≠ 0) {b : K} {p q : Jac K} (hp : OnCurveJ b p)
    (hq : OnCurveJ b q) (h : Pt.ofJac p = Pt.ofJac q) :
    Pt.ofJac (Proj.add p q) = Pt.dbl (Pt.ofJac p) := by
  rw [add_correct' h2 hp hq, ← h, Pt.add_self]
/-- opposite operands: the identity. -/
theorem add_opposite (h2 : (2 : K) ≠ 0) {b : K} {p q : Jac K} (hp : OnCurveJ b p)
    (hq : OnCurveJ b q) (h : Pt.ofJac q = Pt.neg (Pt.ofJac p)) :
    Proj.is_zero (Proj.add p q) = true := by
  rw [is_zero_iff', add_correct' h2 hp hq, h, Pt.add_neg_self]

end Generic

/-! #### (5) alias variants (C18 for curve.hpp): output object = an input object -/
section Alias
variable {F : Type}
theorem add_out_eq_a [Add F] [Sub F] [Mul F] [Zero F] [DecidableEq F] (p q : Jac F) :
    Proj.add_oa p q = Proj.add p q := Proj.add_oa_eq p q
theorem addA_out_eq_a [Add F] [Sub F] [Mul F] [Zero F] [One F] [DecidableEq F]
    (p : Jac F) (a : Aff F) : Proj.addA_oa p a = Proj.addA p a := Proj.addA_oa_eq p a
theorem multiply2_out_eq_other [Add F] [Sub F] [Mul F] [Zero F] [DecidableEq F] (p : Jac F) :
    Proj.multiply2_oother p = Proj.multiply2 p := Proj.multiply2_oother_eq p
theorem negate_out_eq_a [Neg F] (p : Jac F) : Proj.negate_oa p = Proj.negate p :=
  Proj.negate_oa_eq p
theorem aff_negate_out_eq_a [Neg F] (a : Aff F) : Affn.negate_oa a = Affn.negate a :=
  Affn.negate_oa_eq a
theorem equal_aliases [Mul F] [Zero F] [DecidableEq F] (p q : Jac F) :
    Proj.equal_oa p q = Proj.equal p q ∧ Proj.equal_ob p q = Proj.equal p q ∧
      Proj.equal_oab p = Proj.equal p p := ⟨rfl, rfl, rfl⟩
theorem aff_equal_aliases [DecidableEq F] (a c : Aff F) :
    Affn.equal_oa a c = Affn.equal a c ∧ Affn.equal_ob a c = Affn.equal a c ∧
      Affn.equal_oab a = Affn.equal a a := ⟨rfl, rfl, rfl⟩
end Alias

/-! #### (6a) the Fq2 instantiation is the generic code (any commutative ring of coefficients);
the right-hand sides are the generic functions at `F := Q2 R` with the Spec instances. -/
section Inst2
variable {R : Type} [CommRing R] [DecidableEq R]
theorem proj2_is_zero_eq (p : Jac (Q2 R)) : Proj2.is_zero p = Proj.is_zero p := Proj2.is_zero_eq p
theorem proj2_is_normalized_eq (p : Jac (Q2 R)) :
    Proj2.is_normalized p = Proj.is_normalized p := Proj2.is_normalized_eq p
theorem proj2_equal_eq (p q : Jac (Q2 R)) : Proj2.equal p q = Proj.equal p q := Proj2.equal_eq p q
theorem proj2_multiply2_eq (p : Jac (Q2 R)) : Proj2.multiply2 p = Proj.multiply2 p :=
  Proj2.multiply2_eq p
theorem proj2_multiply2_oother_eq (p : Jac (Q2 R)) : Proj2.multiply2_oother p = Proj.multiply2 p :=
  Proj2.multiply2_oother_eq p
theorem proj2_add_eq (p q : Jac (Q2 R)) : Proj2.add p q = Proj.add p q := Proj2.add_eq p q
theorem proj2_add_oa_eq (p q : Jac (Q2 R)) : Proj2.add_oa p q = Proj.add p q := Proj2.add_oa_eq p q
theorem proj2_addA_eq (p : Jac (Q2 R)) (a : Aff (Q2 R)) : Proj2.addA p a = Proj.addA p a :=
  Proj2.addA_eq p a
theorem proj2_addA_oa_eq (p : Jac (Q2 R)) (a : Aff (Q2 R)) : Proj2.addA_oa p a = Proj.addA p a :=
  Proj2.addA_oa_eq p a
theorem proj2_negate_eq (p : Jac (Q2 R)) : Proj2.negate p = Proj.negate p := Proj2.negate_eq p
theorem proj2_negate_oa_eq (p : Jac (Q2 R)) : Proj2.negate_oa p = Proj.negate p :=
  Proj2.negate_oa_eq p
theorem proj2_from_affine_eq (a : Aff (Q2 R)) : Proj2.from_affine a = Proj.from_affine a :=
  Proj2.from_affine_eq a
theorem affn2_negate_eq (a : Aff (Q2 R)) : Affn2.negate a = Affn.negate a := Affn2.negate_eq a
theorem affn2_negate_oa_eq (a : Aff (Q2 R)) : Affn2.negate_oa a = Affn.negate a :=
  Affn2.negate_oa_eq a
theorem affn2_is_on_curve_eq (b : Q2 R) (a : Aff (Q2 R)) :
    Affn2.is_on_curve b a = Affn.is_on_curve b a := Affn2.is_on_curve_eq b a
theorem affn2_equal_eq (a c : Aff (Q2 R)) : Affn2.equal a c = Affn.equal a c := Affn2.equal_eq a c
/-- with the Spec inverse `Q2.inv` (built from any `Inv R`) as `⁻¹`. -/
theorem affn2_from_projective_eq [Inv R] (p : Jac (Q2 R)) :
    Affn2.from_projective p = Affn.from_projective p := Affn2.from_projective_eq p
end Inst2

/-! #### (6b) correctness of the Fq2 instantiation, in terms of the Spec operations on `Q2 R` -/
section Fq2
variable {R : Type} [Field R] [DecidableEq R]
variable (hnr : ∀ x y : R, x * x + y * y = 0 → x = 0 ∧ y = 0) (h2 : (2 : R) ≠ 0)
include hnr h2

theorem fq2_dbl_correct (p : Jac (Q2 R)) :
    Pt.ofJac (Proj2.multiply2 p) = Pt.dbl (Pt.ofJac p) := fq2_dbl_correct' hnr h2 p

theorem fq2_add_correct {b : Q2 R} {p q : Jac (Q2 R)}
    (hp : Pt.isOnCurve b (Pt.ofJac p) = true) (hq : Pt.isOnCurve b (Pt.ofJac q) = true) :
    Pt.ofJac (Proj2.add p q) = Pt.add (Pt.ofJac p) (Pt.ofJac q) := fq2_add_correct' hnr h2 hp hq

theorem fq2_addA_correct {b : Q2 R} {p : Jac (Q2 R)} {a : Aff (Q2 R)}
    (hp : Pt.isOnCurve b (Pt.ofJac p) = true) (ha : Pt.isOnCurve b a.toPt = true) :
    Pt.ofJac (Proj2.addA p a) = Pt.add (Pt.ofJac p) a.toPt := fq2_addA_correct' hnr h2 hp ha

theorem fq2_on_curve_preserved {b : Q2 R} {p q : Jac (Q2 R)} {a : Aff (Q2 R)}
    (hp : Pt.isOnCurve b (Pt.ofJac p) = true) (hq : Pt.isOnCurve b (Pt.ofJac q) = true)
    (ha : Pt.isOnCurve b a.toPt = true) :
    Pt.isOnCurve b (Pt.ofJac (Proj2.multiply2 p)) = true ∧
    Pt.isOnCurve b (Pt.ofJac (Proj2.add p q)) = true ∧
    Pt.isOnCurve b (Pt.ofJac (Proj2.addA p a)) = true ∧
    Pt.isOnCurve b (Pt.ofJac (Proj2.negate p)) = true :=
  ⟨fq2_onCurve_multiply2 hnr h2 hp, fq2_onCurve_add hnr h2 hp hq, fq2_onCurve_addA hnr h2 hp ha,
    fq2_onCurve_negate hnr hp⟩

omit h2
theorem fq2_neg_correct (p : Jac (Q2 R)) :
    Pt.ofJac (Proj2.negate p) = Pt.neg (Pt.ofJac p) := fq2_neg_correct' hnr p

theorem fq2_equal_iff (p q : Jac (Q2 R)) :
    Proj2.equal p q = true ↔ Pt.ofJac p = Pt.ofJac q := fq2_equal_iff' hnr p q

theorem fq2_from_affine_correct (a : Aff (Q2 R)) :
    Pt.ofJac (Proj2.from_affine a) = a.toPt := fq2_from_affine_correct' hnr a

theorem fq2_from_projective_correct (p : Jac (Q2 R)) :
    (Affn2.from_projective p).toPt = Pt.ofJac p := fq2_from_projective_correct' hnr p

theorem fq2_is_on_curve_iff (b : Q2 R) (a : Aff (Q2 R)) (h : a.infinity = false) :
    Affn2.is_on_curve b a = true ↔ Pt.isOnCurve b a.toPt = true :=
  fq2_is_on_curve_iff' hnr b a h

end Fq2

/-! #### (7) the judge's fast scalar multiplication is the definitional one -/
theorem smulFast_eq {K : Type} [Field K] [DecidableEq K] (h2 : (2 : K) ≠ 0) {b : K} {P : Pt K}
    (hP : Pt.isOnCurve b P = true) (k : Nat) : Pt.smulFast k P = Pt.smul k P :=
  smulFast_eq' h2 hP k

/-! #### non-vacuity: y² = x³ + 3 over ℚ, P = (1, 2), also represented as (4 : 16 : 2) -/
section NonVacuity
/-- a non-trivial Jacobian representative (z = 2) of (1, 2). -/
example : OnCurveJ (3 : ℚ) ⟨4, 16, 2⟩ := by right; norm_num
example : OnCurveJ (3 : ℚ) ⟨1, 2, 1⟩ := by right; norm_num
/-- the identity with arbitrary x, y. -/
example : OnCurveJ (3 : ℚ) ⟨5, 7, 0⟩ := Or.inl rfl
example : Pt.ofJac (⟨4, 16, 2⟩ : Jac ℚ) = Pt.aff 1 2 := by norm_num [Pt.ofJac]
/-- equal point, different representatives: `add` takes the doubling detour; 2P = (−23/16, −11/64). -/
example : Pt.ofJac (Proj.add (⟨4, 16, 2⟩ : Jac ℚ) ⟨1, 2, 1⟩) = Pt.aff (-23 / 16) (-11 / 64) := by
  norm_num [Proj.add, Proj.multiply2, Pt.ofJac]
example : Pt.dbl (Pt.aff (1 : ℚ) 2) = Pt.aff (-23 / 16) (-11 / 64) := by
  norm_num [Pt.dbl, Pt.tangentSlope]
/-- generic branch: P + 2P with 2P given as (−23 : −11 : 4). -/
example : OnCurveJ (3 : ℚ) ⟨-23, -11, 4⟩ := by right; norm_num
example : Pt.ofJac (Proj.add (⟨4, 16, 2⟩ : Jac ℚ) ⟨-23, -11, 4⟩) =
    Pt.add (Pt.aff 1 2) (Pt.aff (-23 / 16) (-11 / 64)) := by
  norm_num [Proj.add, Pt.ofJac, Pt.add, Pt.chordSlope]
/-- opposite operands in different representations: the result has z = 0. -/
example : Proj.is_zero (Proj.add (⟨4, 16, 2⟩ : Jac ℚ) ⟨1, -2, 1⟩) = true := by
  norm_num [Proj.add, Proj.is_zero]
/-- equality across representations. -/
example : Proj.equal (⟨4, 16, 2⟩ : Jac ℚ) ⟨1, 2, 1⟩ = true := by norm_num [Proj.equal]
example : Proj.equal (⟨5, 7, 0⟩ : Jac ℚ) ⟨0, 1, 0⟩ = true := by norm_num [Proj.equal]
/-- the hypothesis on `R` in the Fq2 part is satisfiable (ℚ), and `add_correct` fires. -/
example : ∀ x y : ℚ, x * x + y * y = 0 → x = 0 ∧ y = 0 :=
  fun _ _ h => mul_self_add_mul_self_eq_zero.mp h
example : Pt.ofJac (Proj.add (⟨4, 16, 2⟩ : Jac ℚ) ⟨1, 2, 1⟩) =
    Pt.add (Pt.ofJac ⟨4, 16, 2⟩) (Pt.ofJac ⟨1, 2, 1⟩) :=
  add_correct (by norm_num) (b := 3) (by right; norm_num) (by right; norm_num)
/-- the Fq2 part at `R = ℚ` (Gaussian rationals): curve y² = x³ + (1 + u), point (u, 1), also
represented with z = 2 as (4u : 8 : 2); hypotheses hold and the statement fires. -/
example : Pt.isOnCurve (⟨1, 1⟩ : Q2 ℚ) (Pt.ofJac ⟨⟨0, 4⟩, ⟨8, 0⟩, ⟨2, 0⟩⟩) = true := by
  decide +kernel
example : Pt.ofJac (Proj2.add (⟨⟨0, 4⟩, ⟨8, 0⟩, ⟨2, 0⟩⟩ : Jac (Q2 ℚ)) ⟨⟨0, 1⟩, ⟨1, 0⟩, ⟨1, 0⟩⟩) =
    Pt.add (Pt.ofJac ⟨⟨0, 4⟩, ⟨8, 0⟩, ⟨2, 0⟩⟩) (Pt.ofJac ⟨⟨0, 1⟩, ⟨1, 0⟩, ⟨1, 0⟩⟩) :=
  fq2_add_correct (fun _ _ h => mul_self_add_mul_self_eq_zero.mp h) (by norm_num)
    (b := ⟨1, 1⟩) (by decide +kernel) (by decide +kernel)
example : Pt.ofJac (Proj2.add (⟨⟨0, 4⟩, ⟨8, 0⟩, ⟨2, 0⟩⟩ : Jac (Q2 ℚ)) ⟨⟨0, 1⟩, ⟨1, 0⟩, ⟨1, 0⟩⟩) =
    Pt.dbl (Pt.aff ⟨0, 1⟩ ⟨1, 0⟩) := by decide +kernel
example : Pt.dbl (Pt.aff (⟨0, 1⟩ : Q2 ℚ) ⟨1, 0⟩) ≠ Pt.inf := by decide +kernel
end NonVacuity

end Jedi.C05
