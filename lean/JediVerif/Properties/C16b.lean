/-
C16 on the concrete BLS12-381 groups — LQ-IBE with the REAL curve operations, the REAL pairing and the REAL encoders.

The objects are exactly what the judge runs (Driver/Judge6.lean): `Lq.setup`, `Lq.keygen`, `Lq.encryptBuf`, `Lq.decryptBuf`
with `Driver.g1Ops` / `Driver.g2Ops` (`Pt.add`, Jacobian `Pt.smulFast`) and the environment
`Driver.lqEnv = { e := ateSpec, enc1 := encG1 true, enc2 := encG2 true, encT := fq12Bytes }` on raw points.

Hypotheses that remain:
* membership of P (public generator) and Q_id (identity point) in G2 / G1 (`InTors`);
* for `hash_input_eq`: ONLY the `smul` forms of bilinearity, `C01.HBilinear` (implied by `HBilinearFull`);
* for `binding`: NOTHING about the pairing — the encoders are injective on curve points (C09b round trips) and of fixed
  length (C15), `fq12Bytes` is injective (C15b).
-/
import JediVerif.Proofs.ConcreteGroups
import JediVerif.Proofs.EncodeProofs
import JediVerif.Properties.C16
import JediVerif.Driver.Judge6

namespace Jedi.C16b
open Jedi Jedi.Lq Jedi.Driver Jedi.Impl
open Jedi.Wk (GroupOps)

/-! ### the abstract theorem at G1c, G2c, GTc -/

/-- the judge's environment, over the groups. -/
def envC : Env G1c G2c GTc :=
  { e := eC, enc1 := fun a => encG1 true a.1, enc2 := fun c => encG2 true c.1, encT := fun t => fq12Bytes t.1 }

theorem g1OpsC_lawful16 : C16.Lawful g1OpsC := ⟨g1OpsC_lawful.add, g1OpsC_lawful.smul⟩
theorem g2OpsC_lawful16 : C16.Lawful g2OpsC := ⟨g2OpsC_lawful.add, g2OpsC_lawful.smul⟩
theorem envC_bilinear (H : HBilinearFull) : C16.Bilinear envC.e :=
  ⟨(eC_bilinear H).add_left, (eC_bilinear H).add_right⟩

/-- C16 `hash_input_eq` instantiated at the concrete groups (restricted real operations, real pairing, real encoders). -/
theorem hash_input_eq_groups (H : HBilinearFull) (p : G2c) (qid : G1c) (s rr : Nat) :
    let pp := setup g2OpsC p s
    let ct := encryptBuf g2OpsC envC pp qid rr
    decryptBuf envC ct.1 (keygen g1OpsC s qid) qid = ct.2 :=
  C16.hash_input_eq g1OpsC g2OpsC envC g1OpsC_lawful16 g2OpsC_lawful16 (envC_bilinear H) p qid s rr

/-! ### on raw points: the computation of the judge -/

theorem ateSpec_smulFast_smulFast (H : C01.HBilinear) {P : G1Pt} {Q : G2Pt} (hP : InTors g1B r P) (hQ : InTors g2B r Q)
    (a b : Nat) : ateSpec (Pt.smulFast a P) (Pt.smulFast b Q) = ateSpec P Q ^ (a * b) := by
  rw [smulFast_eq' curveHyp_g1.two hP.1, smulFast_eq' curveHyp_g2.two hQ.1]
  have hbQ := hQ.smul curveHyp_g2 b
  exact C01.textbook_bilinear H a b P Q hP.1 hP.2 hQ.1 hQ.2 hbQ.1 hbQ.2

/-- **The bytes hashed by decrypt are the bytes hashed by encrypt** — with the real operations, pairing and encoders, for
every P ∈ G2, every identity point Q ∈ G1, every master scalar s and encryption scalar r (no bounds). -/
theorem hash_input_eq (H : C01.HBilinear) (p : G2Pt) (qid : G1Pt) (hp : InTors g2B r p) (hq : InTors g1B r qid)
    (s rr : Nat) :
    let pp := setup g2Ops p s
    let ct := encryptBuf g2Ops lqEnv pp qid rr
    decryptBuf lqEnv ct.1 (keygen g1Ops s qid) qid = ct.2 := by
  simp only [setup, encryptBuf, decryptBuf, keygen, lqEnv, g1Ops, g2Ops]
  congr 2
  have hsp := hp.smulFast curveHyp_g2 s
  have h1 := ateSpec_smulFast_smulFast H hq hp s rr
  have h2 := ateSpec_smulFast_smulFast H hq hsp 1 rr
  have h3 := ateSpec_smulFast_smulFast H hq hp 1 s
  have e1 : Pt.smulFast 1 qid = qid := by rw [smulFast_eq' curveHyp_g1.two hq.1, Pt.smul_one' curveHyp_g1 hq.1]
  rw [e1] at h2 h3
  rw [h1, h2, h3, ← pow_mul]
  congr 1; ring

/-- the same under the full hypothesis. -/
theorem hash_input_eq' (H : HBilinearFull) (p : G2Pt) (qid : G1Pt) (hp : InTors g2B r p) (hq : InTors g1B r qid)
    (s rr : Nat) :
    decryptBuf lqEnv (encryptBuf g2Ops lqEnv (setup g2Ops p s) qid rr).1 (keygen g1Ops s qid) qid
      = (encryptBuf g2Ops lqEnv (setup g2Ops p s) qid rr).2 :=
  hash_input_eq H.toHBilinear p qid hp hq s rr

/-- hence the same symmetric key, for every caller-supplied hash function and every length. -/
theorem same_symmetric_key (H : C01.HBilinear) (p : G2Pt) (qid : G1Pt) (hp : InTors g2B r p) (hq : InTors g1B r qid)
    (s rr : Nat) (hash : List UInt8 → Nat → List UInt8) (len : Nat) :
    symmetricKey hash (decryptBuf lqEnv (encryptBuf g2Ops lqEnv (setup g2Ops p s) qid rr).1 (keygen g1Ops s qid) qid) len =
    symmetricKey hash (encryptBuf g2Ops lqEnv (setup g2Ops p s) qid rr).2 len := by
  have := hash_input_eq H p qid hp hq s rr
  simp only at this
  rw [this]

/-- the secret key is in G1 and the ciphertext in G2. -/
theorem keygen_in {qid : G1Pt} (hq : InTors g1B r qid) (s : Nat) : InTors g1B r (keygen g1Ops s qid) :=
  hq.smulFast curveHyp_g1 s
theorem ciphertext_in {p : G2Pt} (hp : InTors g2B r p) (s rr : Nat) (qid : G1Pt) :
    InTors g2B r (encryptBuf g2Ops lqEnv (setup g2Ops p s) qid rr).1 :=
  hp.smulFast curveHyp_g2 rr

/-! ### binding, with the concrete encoders -/

/-- the compressed encoders are injective on curve points (C09b: `decode ∘ encode = some`). -/
theorem encG1_injective {p p' : G1Pt} (hp : Pt.isOnCurve g1B p = true) (hp' : Pt.isOnCurve g1B p' = true)
    (h : encG1 true p = encG1 true p') : p = p' := by
  have a := Impl.decode_encode_G1 true false p hp (fun h => by cases h)
  have b := Impl.decode_encode_G1 true false p' hp' (fun h => by cases h)
  rw [h, b] at a
  exact (Option.some.inj a).symm

theorem encG2_injective {p p' : G2Pt} (hp : Pt.isOnCurve g2B p = true) (hp' : Pt.isOnCurve g2B p' = true)
    (h : encG2 true p = encG2 true p') : p = p' := by
  have a := Impl.decode_encode_G2 true false p hp (fun h => by cases h)
  have b := Impl.decode_encode_G2 true false p' hp' (fun h => by cases h)
  rw [h, b] at a
  exact (Option.some.inj a).symm

theorem fq12Bytes_injective {a b : Fq12} (h : fq12Bytes a = fq12Bytes b) : a = b := by
  rw [← Impl.fq12OfBytes_fq12Bytes a, h, Impl.fq12OfBytes_fq12Bytes]

/-- the hashed buffer has 48 + 96 + 576 = 720 bytes. -/
theorem decryptBuf_length (rp : G2Pt) (sq qid : G1Pt) : (decryptBuf lqEnv rp sq qid).length = 720 := by
  simp only [decryptBuf, lqEnv, List.length_append, Impl.encG1_length, Impl.encG2_length, Impl.fq12Bytes_length,
    g1Size, g2Size, if_true]

/-- **Binding**: equal hashed buffers force the SAME identity point, the SAME ciphertext and the SAME pairing value — for
points of the curves (no subgroup or pairing hypothesis). -/
theorem binding (rp rp' : G2Pt) (sq sq' qid qid' : G1Pt)
    (hq : Pt.isOnCurve g1B qid = true) (hq' : Pt.isOnCurve g1B qid' = true)
    (hr : Pt.isOnCurve g2B rp = true) (hr' : Pt.isOnCurve g2B rp' = true)
    (h : decryptBuf lqEnv rp sq qid = decryptBuf lqEnv rp' sq' qid') :
    qid = qid' ∧ rp = rp' ∧ ateSpec sq rp = ateSpec sq' rp' := by
  simp only [decryptBuf, lqEnv, List.append_assoc] at h
  have a := List.append_inj h (by rw [Impl.encG1_length, Impl.encG1_length])
  have b := List.append_inj a.2 (by rw [Impl.encG2_length, Impl.encG2_length])
  exact ⟨encG1_injective hq hq' a.1, encG2_injective hr hr' b.1, fq12Bytes_injective b.2⟩

/-- with the `smul` forms of bilinearity: decrypting the SAME ciphertext for the SAME identity with the key of another
master scalar s' gives the same bytes iff e(Q, rP)^s = e(Q, rP)^s'. -/
theorem binding_scalar (H : C01.HBilinear) (p : G2Pt) (qid : G1Pt) (hp : InTors g2B r p) (hq : InTors g1B r qid)
    (s s' rr : Nat) :
    decryptBuf lqEnv (Pt.smulFast rr p) (keygen g1Ops s qid) qid = decryptBuf lqEnv (Pt.smulFast rr p) (keygen g1Ops s' qid) qid
      ↔ ateSpec qid (Pt.smulFast rr p) ^ s = ateSpec qid (Pt.smulFast rr p) ^ s' := by
  have hrp := hp.smulFast curveHyp_g2 rr
  have e : ∀ k, ateSpec (keygen g1Ops k qid) (Pt.smulFast rr p) = ateSpec qid (Pt.smulFast rr p) ^ k := by
    intro k
    show ateSpec (Pt.smulFast k qid) _ = _
    rw [smulFast_eq' curveHyp_g1.two hq.1]
    exact H.smul_left k qid _ hq.1 hq.2 hrp.1 hrp.2
  constructor
  · intro h
    have := (binding _ _ _ _ _ _ hq.1 hq.1 hrp.1 hrp.1 h).2.2
    rwa [e, e] at this
  · intro h
    simp only [decryptBuf, lqEnv]
    show _ ++ fq12Bytes (ateSpec (keygen g1Ops s qid) _) = _ ++ fq12Bytes (ateSpec (keygen g1Ops s' qid) _)
    rw [e, e, h]

/-! ### Non-vacuity: the published generators -/

example (H : C01.HBilinear) (s rr : Nat) :
    decryptBuf lqEnv (encryptBuf g2Ops lqEnv (setup g2Ops g2Gen s) g1Gen rr).1 (keygen g1Ops s g1Gen) g1Gen
      = (encryptBuf g2Ops lqEnv (setup g2Ops g2Gen s) g1Gen rr).2 :=
  hash_input_eq H g2Gen g1Gen ⟨g2Gen_isOnCurve, g2Gen_smul_r⟩ ⟨g1Gen_isOnCurve, g1Gen_smul_r⟩ s rr

end Jedi.C16b
