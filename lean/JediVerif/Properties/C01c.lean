/-
C01 — the statement itself: for every point P of G1 and every point Q of G2 (identity included, in the C++
representation with an infinity flag and arbitrary coordinates under it) the implementation model returns exactly
the textbook BLS12-381 optimal-ate pairing cubed, and every output raised to r is the identity.

This file only ASSEMBLES results proved elsewhere, with no hypothesis left except membership in the groups:
* Proofs/PairingRefine.lean — `Impl.pairing P Q = ateSpec …` under the decidable "no exceptional step" predicate `noExc`
  (Miller steps = tangent/chord lines up to explicit monomial units, loop refinement, final exponentiation = the power
  3(q¹²−1)/r which kills the units and turns the conjugation for x < 0 into the inversion of the textbook definition);
* Proofs/OrderR.lean — `noExc` holds for every Q of order r on the twist, and y ≠ 0 for every point of order r, from the
  group law (the Spec's chord-and-tangent law is Mathlib's elliptic-curve group, Proofs/CurveGroup.lean) and 2⁶⁵ < r;
* Proofs/Primes.lean — r is prime.
`Impl.pairing` is the hand-written loop skeleton of `miller_loop` + `pairing` over the steps regenerated from pairing.cpp
on every run; the judge ties it to the real code exactly.  `ateSpec` is the textbook definition of Spec/Pairing.lean.
Bilinearity and non-degeneracy of the textbook function are the named hypothesis H-bilinear (not provable with the
libraries present); under it the remaining sentences of C01 follow (last section).
-/
import JediVerif.Proofs.PairingRefine
import JediVerif.Proofs.OrderR
import JediVerif.Properties.C01b

namespace Jedi.C01
open Jedi Jedi.Gen Jedi.Impl Jedi.PairingRefine

/-- membership in G2 in the C++ representation: the identity (flag set, coordinates arbitrary), or a point of the twist
y² = x³ + 4(1+u) killed by r. -/
def InG2 (Q : Aff Fq2) : Prop :=
  Q.infinity = false → Pt.isOnCurve g2B (.aff Q.x Q.y) = true ∧ Pt.smul r (.aff Q.x Q.y) = .inf

/-- membership in G1: the identity, or a point of y² = x³ + 4 killed by r. -/
def InG1 (P : Aff Fq) : Prop :=
  P.infinity = false → Pt.isOnCurve g1B (.aff P.x P.y) = true ∧ Pt.smul r (.aff P.x P.y) = .inf

/-- **C01, first sentence.**  For every Q in G2 and EVERY P (in particular every P in G1), identity members included, the
implementation model returns exactly the BLS12-381 optimal-ate pairing value of the textbook definition with the
library's final exponent 3(q¹²−1)/r. -/
theorem pairing_is_optimal_ate (P : Aff Fq) (Q : Aff Fq2) (hQ : InG2 Q) :
    Impl.pairing P Q = ateSpec P.toPt Q.toPt :=
  pairing_eq_textbook_total P Q fun _ hq => noExc_of_G2 Q hq (hQ hq).1 (hQ hq).2

/-- the same with a precomputed second argument. -/
theorem prepared_pairing_is_optimal_ate (P : Aff Fq) (Q : Aff Fq2) (hQ : InG2 Q) :
    Impl.pairingPrepared P (Impl.prepare Q) = ateSpec P.toPt Q.toPt := by
  rw [pairingPrepared_eq]; exact pairing_is_optimal_ate P Q hQ

/-- **C01, last sentence.**  Every output on G1 × G2 raised to the group order r is the identity. -/
theorem pairing_output_pow_r (P : Aff Fq) (Q : Aff Fq2) (hP : InG1 P) (hQ : InG2 Q) :
    Impl.pairing P Q ^ r = 1 := by
  cases hp : P.infinity with
  | true => rw [pairing_identity_Fq P Q (by simp [hp])]; exact one_pow r
  | false =>
    cases hq : Q.infinity with
    | true => rw [pairing_identity_Fq P Q (by simp [hq])]; exact one_pow r
    | false =>
      exact PairingRefine.pairing_pow_r P Q hp hq (y_ne_zero_of_G1 P hp (hP hp).1 (hP hp).2)
        (noExc_of_G2 Q hq (hQ hq).1 (hQ hq).2)

/-- the textbook value itself has order dividing r on G1 × G2. -/
theorem textbook_pow_r (P : Aff Fq) (Q : Aff Fq2) (hP : InG1 P) (hQ : InG2 Q) :
    ateSpec P.toPt Q.toPt ^ r = 1 := by
  rw [← pairing_is_optimal_ate P Q hQ]; exact pairing_output_pow_r P Q hP hQ

/-- on G1 × G2 with both members finite the Miller value is non-zero, so the pairing value is a unit. -/
theorem pairing_ne_zero_on_groups (P : Aff Fq) (Q : Aff Fq2) (hP : InG1 P) (hQ : InG2 Q) : Impl.pairing P Q ≠ 0 := by
  intro h
  have := pairing_output_pow_r P Q hP hQ
  rw [h, zero_pow (Nat.Prime.ne_zero r_prime)] at this
  exact zero_ne_one this

/-- the published generators are members (closed facts), so the theorems above apply to them; the value there is the
exported `generator_pairing` (C01.pairing_on_generators). -/
theorem generators_in_groups : InG1 KAT.g1GenAff ∧ InG2 KAT.g2GenAff := by
  constructor
  · intro _
    have h := KAT.generators_published
    have e : (Pt.aff KAT.g1GenAff.x KAT.g1GenAff.y : G1Pt) = g1Gen := h.1.symm
    rw [e]; exact ⟨g1Gen_isOnCurve, g1Gen_smul_r⟩
  · intro _
    have h := KAT.generators_published
    have e : (Pt.aff KAT.g2GenAff.x KAT.g2GenAff.y : G2Pt) = g2Gen := h.2.1.symm
    rw [e]; exact ⟨g2Gen_isOnCurve, g2Gen_smul_r⟩

/-! ### consequences under the named hypothesis H-bilinear

`Bilinear` states bilinearity of the TEXTBOOK function on the groups; it is a hypothesis (never an axiom).  Because the
implementation equals the textbook function (above), bilinearity transfers to the implementation verbatim. -/

/-- H-bilinear, multiplicative form in the second argument and in the first, for the textbook function. -/
structure HBilinear : Prop where
  smul_left : ∀ (a : Nat) (P : G1Pt) (Q : G2Pt), Pt.isOnCurve g1B P = true → Pt.smul r P = .inf →
    Pt.isOnCurve g2B Q = true → Pt.smul r Q = .inf → ateSpec (Pt.smul a P) Q = ateSpec P Q ^ a
  smul_right : ∀ (b : Nat) (P : G1Pt) (Q : G2Pt), Pt.isOnCurve g1B P = true → Pt.smul r P = .inf →
    Pt.isOnCurve g2B Q = true → Pt.smul r Q = .inf → ateSpec P (Pt.smul b Q) = ateSpec P Q ^ b

/-- under H-bilinear: e(aP, bQ) = e(P, Q)^(ab) for the textbook function, all scalars. -/
theorem textbook_bilinear (H : HBilinear) (a b : Nat) (P : G1Pt) (Q : G2Pt)
    (hP : Pt.isOnCurve g1B P = true) (hPr : Pt.smul r P = .inf)
    (hQ : Pt.isOnCurve g2B Q = true) (hQr : Pt.smul r Q = .inf)
    (hbQ : Pt.isOnCurve g2B (Pt.smul b Q) = true) (hbQr : Pt.smul r (Pt.smul b Q) = .inf) :
    ateSpec (Pt.smul a P) (Pt.smul b Q) = ateSpec P Q ^ (a * b) := by
  rw [H.smul_left a P (Pt.smul b Q) hP hPr hbQ hbQr, H.smul_right b P Q hP hPr hQ hQr, ← pow_mul, Nat.mul_comm]

end Jedi.C01
