/-
C11 on the concrete BLS12-381 groups — every key from any delegation history, computed with the REAL curve operations,
is the canonical key, and decrypts with the REAL pairing.

The theorems of Properties/C11.lean are stated over abstract groups with `Lawful` operation records and a `Bilinear` map.
Here they are instantiated at
  G1c = r-torsion of y² = x³ + 4 over Fq,  G2c = r-torsion of the twist over Fq2,  GTc = r-th roots of unity of Fq12
(Proofs/ConcreteGroups.lean) and then carried to the RAW computation the judge runs: the model functions applied to raw
points `G1Pt`/`G2Pt` with the records `Driver.g1Ops`/`Driver.g2Ops` (`Pt.add`, `Pt.neg`, `.inf`, Jacobian `Pt.smulFast`), the
textbook pairing `ateSpec` (= `Impl.pairing`, C01c), `npow` and `⁻¹` of Fq12.

Hypotheses that remain, always explicit:
* membership: the group elements of the public parameters / the master key are points of the curves killed by r
  (`GensIn`, `ParamsIn`, `InTors`) — what `setup` produces and what the checked decoders accept;
* `SetupOkRaw`: g1 = α·g, msk = α·g2, pairing = e(g2, g1), with the judge's operations;
* `HBilinearFull` (ONLY for the decryption theorems): `ateSpec` is additive in each argument on G1c × G2c.
`Lawful`, `ExpR`, `Bilinear` of C11 are discharged (`g1OpsC_lawful`, `g2OpsC_lawful`, `G1c.expR`, `eC_bilinear`).
-/
import JediVerif.Proofs.ConcreteGroups
import JediVerif.Properties.C11

namespace Jedi.C11b
open Jedi Jedi.Wk Jedi.Driver

/-! ### over the groups (direct instances of C11) -/

/-- C11 `history_decrypts` at G1c, G2c, GTc with the restricted real operations and the real pairing. -/
theorem history_decrypts_groups (H : HBilinearFull) (pp : Params G1c G2c GTc) (g2alpha : G1c) (α : Nat)
    (hs : SetupOk eC pp g2alpha α) (start : Start) (steps : List Step) (hstart : start.ok pp.h.length = true)
    (hsteps : stepsOk (start.run g1OpsC g2OpsC pp g2alpha pp.h.length).π steps = true)
    (al : AttrList) (m : GTc) (s : Nat) (hwf : al.wellFormed pp.h.length = true)
    (hop : opens (runSteps g1OpsC g2OpsC pp (start.run g1OpsC g2OpsC pp g2alpha pp.h.length) steps).π al = true) :
    decrypt eC (encrypt pp m (precompute g1OpsC pp al) s)
      (runSteps g1OpsC g2OpsC pp (start.run g1OpsC g2OpsC pp g2alpha pp.h.length) steps).sk = m :=
  C11.history_decrypts g1OpsC_lawful g2OpsC_lawful G1c.expR (eC_bilinear H) pp g2alpha α hs start steps hstart hsteps
    al m s hwf hop

/-! ### on raw points: the computation of the judge -/

section raw
variable {pp : RawParams} {g2alpha : G1Pt}

/-- `keygen` with the real operations returns the canonical key, for every admissible list. -/
theorem keygen_canon (hin : ParamsIn pp) (hm : InTors g1B r g2alpha) (al : AttrList) (ρ : Nat)
    (hadm : admissible (List.replicate pp.h.length .free) al = true) :
    keygen g1Ops g2Ops pp g2alpha al ρ
      = canon g1Ops g2Ops pp g2alpha (updatePattern (List.replicate pp.h.length .free) al) ρ := by
  rw [keygen_val hin ⟨g2alpha, hm⟩, canon_val hin ⟨g2alpha, hm⟩,
    C11.keygen_canon g1OpsC_lawful g2OpsC_lawful hin.lift _ al ρ pp.h.length hin.lift_h_length hadm]

/-- `nondelegable_keygen`. -/
theorem ndKeygen_canon (hin : ParamsIn pp) (hm : InTors g1B r g2alpha) (al : AttrList)
    (hadm : admissible (List.replicate pp.h.length .free) al = true) :
    ndKeygen g1Ops pp g2alpha al
      = canon g1Ops g2Ops pp g2alpha (updatePattern (List.replicate pp.h.length .free) al) 1 := by
  rw [ndKeygen_val hin ⟨g2alpha, hm⟩, canon_val hin ⟨g2alpha, hm⟩,
    C11.ndKeygen_canon g1OpsC_lawful g2OpsC_lawful hin.lift _ al pp.h.length hin.lift_h_length hadm]

/-- `qualifykey`. -/
theorem qualify_canon (hin : ParamsIn pp) (hm : InTors g1B r g2alpha) (π : List Slot) (ρ : Nat) (al : AttrList)
    (t : Nat) (hl : pp.h.length = π.length) (hadm : admissible π al = true) :
    qualifykey g1Ops g2Ops pp (canon g1Ops g2Ops pp g2alpha π ρ) al t
      = canon g1Ops g2Ops pp g2alpha (updatePattern π al) (ρ + t) := by
  rw [canon_val hin ⟨g2alpha, hm⟩, canon_val hin ⟨g2alpha, hm⟩, qualifykey_val hin,
    C11.qualify_canon g1OpsC_lawful g2OpsC_lawful G1c.expR hin.lift _ π ρ al t (hin.lift_h_length.trans hl) hadm]

/-- `nondelegable_qualifykey`. -/
theorem ndQualify_canon (hin : ParamsIn pp) (hm : InTors g1B r g2alpha) (π : List Slot) (ρ : Nat) (al : AttrList)
    (hadm : admissible π al = true) :
    ndQualifykey g1Ops π.length (canon g1Ops g2Ops pp g2alpha π ρ) al
      = canon g1Ops g2Ops pp g2alpha (updatePattern π al) ρ := by
  rw [canon_val hin ⟨g2alpha, hm⟩, canon_val hin ⟨g2alpha, hm⟩, ndQualifykey_val,
    C11.ndQualify_canon g1OpsC_lawful g2OpsC_lawful hin.lift _ π ρ al hadm]

/-- `resamplekey` with the precomputed product of the key's own pattern. -/
theorem resample_canon (hin : ParamsIn pp) (hm : InTors g1B r g2alpha) (π : List Slot) (ρ t : Nat) (pre : G1Pt)
    (hpre : pre = patternProduct g1Ops pp π) (further : Bool) :
    resamplekey g1Ops g2Ops pp pre (canon g1Ops g2Ops pp g2alpha π ρ) further t
      = canon g1Ops g2Ops pp g2alpha (if further then π else hideFree π) (ρ + t) := by
  subst hpre
  rw [canon_val hin ⟨g2alpha, hm⟩, canon_val hin ⟨g2alpha, hm⟩, patternProduct_val hin, resamplekey_val hin,
    C11.resample_canon g1OpsC_lawful g2OpsC_lawful hin.lift _ π ρ t _ rfl further]

/-- **Main statement, real operations.**  Start from the master key by `keygen` / `nondelegable_keygen` and apply any list of
steps, each admissible for the pattern accumulated so far; the key computed with `Pt.add` / `Pt.smulFast` is EQUAL to the
canonical key (computed with the same operations) for the accumulated pattern and the sum of the fresh scalars. -/
theorem history_canon (hin : ParamsIn pp) (hm : InTors g1B r g2alpha) (start : Start) (steps : List Step)
    (hstart : start.ok pp.h.length = true)
    (hsteps : stepsOk (start.run g1Ops g2Ops pp g2alpha pp.h.length).π steps = true) :
    let st := runSteps g1Ops g2Ops pp (start.run g1Ops g2Ops pp g2alpha pp.h.length) steps
    st.sk = canon g1Ops g2Ops pp g2alpha st.π st.ρ ∧ st.π.length = pp.h.length := by
  have hπ := start_run_val hin ⟨g2alpha, hm⟩ pp.h.length start
  have hv := history_val hin ⟨g2alpha, hm⟩ start steps
  simp only at hπ hv
  rw [hπ, KeyState.map_π, ← hin.lift_h_length] at hsteps
  obtain ⟨h1, h2⟩ := C11.history_canon g1OpsC_lawful g2OpsC_lawful G1c.expR hin.lift ⟨g2alpha, hm⟩ start steps
    (by rw [hin.lift_h_length]; exact hstart) hsteps
  intro st
  have e : st = _ := hv
  rw [e]
  refine ⟨?_, by rw [KeyState.map_π, h2, hin.lift_h_length]⟩
  rw [KeyState.map_sk, KeyState.map_π, KeyState.map_ρ, h1, canon_val hin ⟨g2alpha, hm⟩]

/-- a canonical key (real operations) lists exactly the still-free slots … -/
theorem canon_lists_free_slots (hin : ParamsIn pp) (hm : InTors g1B r g2alpha) (π : List Slot) (ρ : Nat) :
    (canon g1Ops g2Ops pp g2alpha π ρ).b.map (·.1)
      = (List.range π.length).filter (fun i => π.getD i .free == .free) := by
  rw [canon_val hin ⟨g2alpha, hm⟩, ← C11.canon_lists_free_slots g1OpsC_lawful g2OpsC_lawful hin.lift ⟨g2alpha, hm⟩ π ρ]
  simp only [SecretKey.map, mapB, List.map_map, Function.comp_def]

/-- … in strictly ascending order. -/
theorem canon_b_ascending (hin : ParamsIn pp) (hm : InTors g1B r g2alpha) (π : List Slot) (ρ : Nat) :
    (canon g1Ops g2Ops pp g2alpha π ρ).b.Pairwise (fun p q => p.1 < q.1) := by
  rw [canon_val hin ⟨g2alpha, hm⟩]
  simp only [SecretKey.map, mapB, List.pairwise_map]
  exact C11.canon_b_ascending g1OpsC_lawful g2OpsC_lawful hin.lift ⟨g2alpha, hm⟩ π ρ

/-- every key of an admissible history has all its components in the groups. -/
theorem history_keyIn (hin : ParamsIn pp) (hm : InTors g1B r g2alpha) (start : Start) (steps : List Step) :
    KeyIn (runSteps g1Ops g2Ops pp (start.run g1Ops g2Ops pp g2alpha pp.h.length) steps).sk := by
  have hv := history_val hin ⟨g2alpha, hm⟩ start steps
  simp only at hv
  rw [hv]; exact keyIn_map _

section decrypt
variable {α : Nat}

/-- the canonical key for π, computed with the real operations, decrypts with the real pairing every ciphertext
encrypted (as the judge / the library does) to a list that π opens — for EVERY message m ∈ Fq12. -/
theorem decrypt_canon (H : HBilinearFull) (hg : GensIn pp) (hs : SetupOkRaw pp g2alpha α)
    (π : List Slot) (ρ : Nat) (al : AttrList) (hwf : al.wellFormed π.length = true)
    (hop : opens π al = true) (m : Fq12) (s : Nat) :
    decryptRaw (encryptRaw pp m (precompute g1Ops pp al) s) (canon g1Ops g2Ops pp g2alpha π ρ) = m := by
  have hin := ParamsIn.of_setup hg hs
  have hm := hs.msk_in hg
  have h := C11.decrypt_canon g1OpsC_lawful g2OpsC_lawful G1c.expR (eC_bilinear H) hin.lift ⟨g2alpha, hm⟩ α
    (setupOk_lift hin hs hm) π ρ al hwf hop 1 s
  have h' := congrArg Subtype.val h
  rw [decrypt_val, encrypt_val hin, ← canon_val hin ⟨g2alpha, hm⟩, ← precompute_val hin] at h'
  simp only [GTc.one_val] at h'
  rw [decryptRaw_msg, h']; exact mul_one m

/-- the master key decrypts every ciphertext (any `prod` in G1, any message). -/
theorem decrypt_master (H : HBilinearFull) (hg : GensIn pp) (hs : SetupOkRaw pp g2alpha α)
    (m : Fq12) (prod : G1Pt) (hprod : InTors g1B r prod) (s : Nat) :
    decryptMasterRaw (encryptRaw pp m prod s) g2alpha = m := by
  have hin := ParamsIn.of_setup hg hs
  have hm := hs.msk_in hg
  have h := C11.decrypt_master (eC_bilinear H) hin.lift ⟨g2alpha, hm⟩ α (setupOk_lift hin hs hm) 1 ⟨prod, hprod⟩ s
  have h' := congrArg Subtype.val h
  rw [decryptMaster_val, encrypt_val hin] at h'
  simp only [GTc.one_val] at h'
  rw [decryptMasterRaw_msg, h']; exact mul_one m

/-- **every key reachable from setup by admissible steps, computed with the real curve operations, decrypts with the real
pairing every ciphertext its accumulated pattern opens — under `HBilinearFull` only.** -/
theorem history_decrypts (H : HBilinearFull) (hg : GensIn pp) (hs : SetupOkRaw pp g2alpha α)
    (start : Start) (steps : List Step) (hstart : start.ok pp.h.length = true)
    (hsteps : stepsOk (start.run g1Ops g2Ops pp g2alpha pp.h.length).π steps = true)
    (al : AttrList) (m : Fq12) (s : Nat) (hwf : al.wellFormed pp.h.length = true)
    (hop : opens (runSteps g1Ops g2Ops pp (start.run g1Ops g2Ops pp g2alpha pp.h.length) steps).π al = true) :
    decryptRaw (encryptRaw pp m (precompute g1Ops pp al) s)
      (runSteps g1Ops g2Ops pp (start.run g1Ops g2Ops pp g2alpha pp.h.length) steps).sk = m := by
  have hin := ParamsIn.of_setup hg hs
  have hm := hs.msk_in hg
  obtain ⟨hsk, hlen⟩ := history_canon hin hm start steps hstart hsteps
  rw [hsk]
  exact decrypt_canon H hg hs _ _ al (by rw [hlen]; exact hwf) hop m s

end decrypt
end raw

/-! ### Non-vacuity: parameters built from the published generators (α = 5, three slots) satisfy every hypothesis -/
namespace Ex

def pp : RawParams :=
  { g := g2Gen, g1 := Pt.smulFast 5 g2Gen, g2 := Pt.smulFast 7 g1Gen, g3 := Pt.smulFast 11 g1Gen,
    pairing := ateSpec (Pt.smulFast 7 g1Gen) (Pt.smulFast 5 g2Gen), hsig := Pt.smulFast 13 g1Gen, signatures := true,
    h := [Pt.smulFast 2 g1Gen, Pt.smulFast 3 g1Gen, g1Gen] }

def g2alpha : G1Pt := Pt.smulFast 5 (Pt.smulFast 7 g1Gen)

theorem g1In : InTors g1B r g1Gen := ⟨g1Gen_isOnCurve, g1Gen_smul_r⟩
theorem g2In : InTors g2B r g2Gen := ⟨g2Gen_isOnCurve, g2Gen_smul_r⟩

theorem gensIn : GensIn pp :=
  ⟨g2In, g1In.smulFast curveHyp_g1 7, g1In.smulFast curveHyp_g1 11, g1In.smulFast curveHyp_g1 13, by
    intro x hx
    simp only [pp, List.mem_cons, List.not_mem_nil, or_false] at hx
    rcases hx with rfl | rfl | rfl
    · exact g1In.smulFast curveHyp_g1 2
    · exact g1In.smulFast curveHyp_g1 3
    · exact g1In⟩

theorem setupOk : SetupOkRaw pp g2alpha 5 := ⟨rfl, rfl, rfl⟩

open Wk.Ex in
/-- a two-step history (keygen, qualify with an identifier ≥ r, resample) over the real curve, and a ciphertext it
decrypts — for every message and all scalars. -/
example (H : HBilinearFull) (ρ t u s : Nat) (m : Fq12) :
    decryptRaw (encryptRaw pp m (precompute g1Ops pp alC) s)
      (runSteps g1Ops g2Ops pp (Start.run g1Ops g2Ops pp g2alpha 3 (.keygen al0 ρ))
        [.qualify al1 t, .resample alC true u]).sk = m :=
  history_decrypts H gensIn setupOk (.keygen al0 ρ) [.qualify al1 t, .resample alC true u] (by rfl) (by rfl)
    alC m s (by rfl) (by rfl)

end Ex

end Jedi.C11b
