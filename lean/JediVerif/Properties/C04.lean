/-
C04 — the extension tower Fq2/Fq6/Fq12 implements the defining polynomial arithmetic.

Property theorems only.  `Gen.*` are the functions regenerated from fq2.cpp/fq6.cpp/fq12.cpp on
every run; `Q2/Q6/Q12` with `*`, `+`, … are the Spec (schoolbook arithmetic in
F[u]/(u²+1), Q2[v]/(v³−ξ), Q6[w]/(w²−v)).  `R` is an arbitrary commutative ring, so the
statements hold in particular for `R = Fin q` with the operations the driver executes.
-/
import JediVerif.Gen.TowerThms

namespace Jedi.C04
open Jedi Jedi.Gen

variable {R : Type} [CommRing R]

/-- Karatsuba product in Fq2 = product in R[u]/(u²+1). -/
theorem fq2_mul (a b : Q2 R) : Fq2.multiply a b = ⟨a.c0 * b.c0 - a.c1 * b.c1, a.c0 * b.c1 + a.c1 * b.c0⟩ := by
  rw [Fq2.multiply_spec]; rfl
/-- complex squaring. -/
theorem fq2_sqr (a : Q2 R) : Fq2.square a = a * a := Fq2.square_spec a
/-- multiplication by the sextic non-residue ξ = 1 + u. -/
theorem fq2_mulNonres (a : Q2 R) : Fq2.multiply_by_nonresidue a = (⟨1, 1⟩ : Q2 R) * a := by
  rw [Fq2.multiply_by_nonresidue_spec, Q2.mulXi_eq]; rfl
/-- Toom/Karatsuba product in Fq6 = schoolbook product modulo v³ = ξ. -/
theorem fq6_mul (a b : Q6 R) : Fq6.multiply a b = a * b := Fq6.multiply_spec a b
theorem fq6_sqr (a : Q6 R) : Fq6.square a = a * a := Fq6.square_spec a
/-- multiplication by v. -/
theorem fq6_mulNonres (a : Q6 R) : Fq6.multiply_by_nonresidue a = (⟨0, 1, 0⟩ : Q6 R) * a := by
  rw [Fq6.multiply_by_nonresidue_spec, Q6.mulV_eq]; rfl
/-- sparse products used by the Miller loop. -/
theorem fq6_mul_c1 (a : Q6 R) (c1 : Q2 R) : Fq6.multiply_by_c1 a c1 = a * ⟨0, c1, 0⟩ := Fq6.multiply_by_c1_spec a c1
theorem fq6_mul_c01 (a : Q6 R) (c0 c1 : Q2 R) : Fq6.multiply_by_c01 a c0 c1 = a * ⟨c0, c1, 0⟩ := Fq6.multiply_by_c01_spec a c0 c1
theorem fq12_mul (a b : Q12 R) : Fq12.multiply a b = a * b := Fq12.multiply_spec a b
theorem fq12_sqr (a : Q12 R) : Fq12.square a = a * a := Fq12.square_spec a
theorem fq12_mul_c014 (a : Q12 R) (c0 c1 c4 : Q2 R) :
    Fq12.multiply_by_c014 a c0 c1 c4 = a * ⟨⟨c0, c1, 0⟩, ⟨0, c4, 0⟩⟩ := Fq12.multiply_by_c014_spec a c0 c1 c4
theorem fq12_conj (a : Q12 R) : Fq12.conjugate a = ⟨a.c0, -a.c1⟩ := Fq12.conjugate_spec a

/-- non-vacuity: the statements are about non-trivial values (here over ℤ). -/
example : Fq2.multiply (⟨2, 3⟩ : Q2 ℤ) ⟨5, 7⟩ = ⟨-11, 29⟩ := by decide

end Jedi.C04
