/-
C10b — hashing to the curve (try-and-increment), identity derivation, generator sampling, hashing to Z_r.

Continues `Properties/C10.lean` (stream accounting, rejection samplers for scalars/field elements, hash-to-scalar).
Property theorems only; proofs in `Proofs/SampleProofs.lean`.  They are about these executable definitions, each compared
with the real routine by the judge on every run:

  Impl.tryAndIncrement, Impl.fromX      curve.hpp `try_and_increment` (l.151), `get_point_from_x`  (Impl/Encode.lean)
  Impl.fromHashG1, Impl.fromHashG2      curve.hpp `from_hash` (l.162): `read_big_endian`, `hash_reduce` ON THE STORED
                                        MONTGOMERY LIMBS (models of C02b), `try_and_increment`; proved equal to what the judge
                                        runs for ops g1_hash / g2_hash (`from_hash_is_judge_model`)
  Impl.idHash                           lqibe/api.cpp `compute_id_from_hash` (l.42)   = judge op id_hash
  Driver.genSample, sampleG1, sampleG2  curve.cpp `sample_random_generator` (l.44)    = judge ops g1_rand / g2_rand and every
                                        generator drawn by the WKD-IBE / LQ-IBE judges (the model LIVES IN THE DRIVER)
  Impl.zpFromHashImpl, scalarHashReduce `embedded_pairing_bls12_381_zp_from_hash`, `wkdibe::scalar_hash_reduce`
  Driver.xrandModel                     `PowersOfX::random` (C07)

What is PROVED unconditionally:
* try-and-increment returns the FIRST `x₀ + n`, n ≥ 0, with `x³ + b` a square, and the root `y` whose sign bit
  (`compare(y, −y) == 1`, on Montgomery limbs, as coded) is the flag; nothing else; the model's fuel is immaterial.
* `from_hash`: the flag is ALWAYS false (`hash_reduce` is a no-op there) and `x₀` = hash read big-endian, top three bits of
  each 48-byte half dropped, reduced mod q; result on the curve, never the identity.
* G1: TOTAL, with the explicit bound `n ≤ (−x₀).val ≤ q − 1` (the loop stops at the latest at `x = 0`: `(0, ±2) ∈ E(Fq)`).
* `compute_id_from_hash` = `[g1Cofactor]·from_hash`, on the curve, total.
* `sample_random_generator`: result = `[cofactor]·P` for the point drawn in the first pass whose multiple is not ∞; on the
  curve; ≠ ∞; stream position (bytes consumed per pass) accounted for.
* hash to Z_r: `(hash mod 2^255) mod r < r`.

What stays a HYPOTHESIS (explicit parameter of the theorem, never an axiom):
* `HCardG1` / `HCardG2` — `∀ P on the curve, [cofactor · r]P = ∞` (i.e. `#E(Fq) = h₁r`, `#E'(Fq2) = h₂r`): needed ONLY for
  "the result is killed by r" (`id_in_G1`, `g1_rand_in_subgroup`, `g2_rand_in_subgroup`).  The judge tests `[r]P = ∞` on
  every sampled / derived point.
* `HLine t` — "some `a ∈ Fq` has `(a + t·u)³ + 4(1+u)` a square in Fq2": needed ONLY for totality of G2 try-and-increment
  (`g2_hash_total_partial`); true by Hasse–Weil, not provable here.
* a bound such as the judge's fuel 512 on the number of increments cannot be proved by any known method (it would bound
  runs of consecutive non-squares of `x³ + b`); `g1_hash_total_512_partial` states the checkable condition.

What is FALSE and therefore not claimed: the generator sampler is not total — on an exhausted (all-zero) random source it
loops forever in both groups (`g1_rand_never_returns_on_zeros`, `g2_rand_never_returns_on_zeros`); all sampler statements are
"for every stream on which it returns".  Also noted: the all-zero hash derives the IDENTITY as LQ-IBE identity point
(`from_hash` lands on `(0, ±2)`, of order 3 ∣ cofactor) — inside the property (∞ ∈ G1), recorded as a non-vacuity example in
the proofs file.
-/
import JediVerif.Proofs.SampleProofs
import JediVerif.Proofs.GtExp

namespace Jedi.C10
open Jedi Jedi.Impl Jedi.Driver

/-! ### 1. try-and-increment (generic in the coordinate field; `opsFq_sqrtOK`, `opsFq2_sqrtOK` instantiate it) -/

/-- FIRST HIT (everything the loop can return, any fuel): `x = start + n`, there is no point above `start + j` for `j < n`,
`(x, y)` satisfies the curve equation, the sign bit of `y` is the flag, and `y` is what `get_point_from_x` computes at `x`. -/
theorem try_and_increment_first_hit {F : Type} {o : FieldOps F} (sq : SqrtOK o) {g : Bool} {fuel : Nat} {start x y : F}
    {n : Nat} (h : tryAndIncrement o start g fuel = some (x, y, n)) :
    n < fuel ∧ x = incr o start n ∧ (∀ j, j < n → ¬ HasPoint o (incr o start j)) ∧
      o.mul y y = x3b o x ∧ isGreater o y = g ∧ fromX o x g true = some (x, y) := tryAndIncrement_spec sq h

/-- conversely the first hit IS returned as soon as the fuel exceeds its index … -/
theorem try_and_increment_returns_first_hit {F : Type} {o : FieldOps F} (sq : SqrtOK o) (g : Bool) (n : Nat) (start : F)
    (fuel : Nat) (hn : n < fuel) (hrej : ∀ j, j < n → ¬ HasPoint o (incr o start j)) (hacc : HasPoint o (incr o start n)) :
    ∃ y, tryAndIncrement o start g fuel = some (incr o start n, y, n) ∧
      fromX o (incr o start n) g true = some (incr o start n, y) := tryAndIncrement_first_hit sq g n start fuel hn hrej hacc

/-- … so the loop fails to return within `fuel` passes exactly when none of the first `fuel` abscissae carries a point. -/
theorem try_and_increment_none_iff {F : Type} {o : FieldOps F} (sq : SqrtOK o) (g : Bool) (fuel : Nat) (start : F) :
    tryAndIncrement o start g fuel = none ↔ ∀ j, j < fuel → ¬ HasPoint o (incr o start j) :=
  tryAndIncrement_none_iff sq g fuel start

/-- TOTALITY under an explicit, checkable hypothesis (any field record, any fuel — e.g. the judge's 512). -/
theorem try_and_increment_total_partial {F : Type} {o : FieldOps F} (sq : SqrtOK o) (g : Bool) (start : F) (fuel : Nat)
    (h : ∃ n, n < fuel ∧ HasPoint o (incr o start n)) :
    ∃ n y, tryAndIncrement o start g fuel = some (incr o start n, y, n) ∧ n < fuel ∧
      (∀ j, j < n → ¬ HasPoint o (incr o start j)) ∧ o.mul y y = x3b o (incr o start n) ∧ isGreater o y = g :=
  tryAndIncrement_total_partial sq g start fuel h

/-- the ordinate is determined by abscissa and flag (the root with that sign bit is unique). -/
theorem root_unique {F : Type} {o : FieldOps F} (sq : SqrtOK o) {x y y' : F} (h : o.mul y y = x3b o x)
    (h' : o.mul y' y' = x3b o x) (hg : isGreater o y = isGreater o y') : y = y' := Impl.root_unique sq h h'  hg

/-- DETERMINISM: the result is a function of (start, flag) alone — two runs that return agree whatever their fuel, and more
fuel never changes a result.  (The models are pure functions of the input bytes; nothing depends on the platform: the limb
width / assembly back-ends only enter through the field operations, which C02–C04 show compute the same field elements.) -/
theorem try_and_increment_deterministic {F : Type} {o : FieldOps F} (sq : SqrtOK o) {g : Bool} {f₁ f₂ : Nat} {start : F}
    {r₁ r₂ : F × F × Nat} (h₁ : tryAndIncrement o start g f₁ = some r₁) (h₂ : tryAndIncrement o start g f₂ = some r₂) :
    r₁ = r₂ := tryAndIncrement_fuel_irrelevant sq h₁ h₂
theorem try_and_increment_fuel_mono {F : Type} {o : FieldOps F} (sq : SqrtOK o) {g : Bool} {f₁ f₂ : Nat} (hf : f₁ ≤ f₂)
    {start : F} {r₁ : F × F × Nat} (h₁ : tryAndIncrement o start g f₁ = some r₁) :
    tryAndIncrement o start g f₂ = some r₁ := tryAndIncrement_mono sq hf h₁

/-- the loop variable after `n` passes, in the two fields: `x₀ + n`, resp. only `c0` moves. -/
theorem incr_Fq (x : Fq) (n : Nat) : incr opsFq x n = x + (n : Fq) := incr_opsFq x n
theorem incr_Fq2 (x : Fq2) (n : Nat) : incr opsFq2 x n = ⟨x.c0 + (n : Fq), x.c1⟩ := incr_opsFq2 x n
theorem hasPoint_Fq_iff (x : Fq) : HasPoint opsFq x ↔ ∃ y : Fq, y * y = x * x * x + g1B := Iff.rfl
theorem hasPoint_Fq2_iff (x : Fq2) : HasPoint opsFq2 x ↔ ∃ y : Fq2, y * y = x * x * x + g2B := Iff.rfl

/-- **G1 TOTALITY with an explicit bound**: for every start value and flag the loop stops after `n ≤ (−x₀).val ≤ q − 1`
increments; with fuel above `(−x₀).val` the model returns the first hit. -/
theorem g1_try_and_increment_total (x₀ : Fq) (g : Bool) (fuel : Nat) (hf : (-x₀).val < fuel) :
    ∃ (n : Nat) (y : Fq), tryAndIncrement opsFq x₀ g fuel = some (x₀ + (n : Fq), y, n) ∧ n ≤ (-x₀).val ∧
      (∀ j, j < n → ¬ ∃ y' : Fq, y' * y' = (x₀ + (j : Fq)) * (x₀ + (j : Fq)) * (x₀ + (j : Fq)) + g1B) ∧
      y * y = (x₀ + (n : Fq)) * (x₀ + (n : Fq)) * (x₀ + (n : Fq)) + g1B ∧ isGreater opsFq y = g :=
  g1_tryAndIncrement_total x₀ g fuel hf
theorem g1_try_and_increment_total_q (x₀ : Fq) (g : Bool) : (tryAndIncrement opsFq x₀ g q).isSome = true :=
  g1_tryAndIncrement_total_q x₀ g

/-- **G2 totality, PARTIAL** — under `HLine x₀.c1` (witness `a`); full statement wanted:
`∀ x₀ g, (tryAndIncrement opsFq2 x₀ g q).isSome`, i.e. `∀ t, HLine t`. -/
theorem g2_try_and_increment_total_partial (x₀ : Fq2) (g : Bool) (fuel : Nat) (a : Fq)
    (ha : HasPoint opsFq2 ⟨a, x₀.c1⟩) (hf : (a - x₀.c0).val < fuel) :
    ∃ (n : Nat) (y : Fq2), tryAndIncrement opsFq2 x₀ g fuel = some (⟨x₀.c0 + (n : Fq), x₀.c1⟩, y, n) ∧
      n ≤ (a - x₀.c0).val ∧ (∀ j, j < n → ¬ HasPoint opsFq2 ⟨x₀.c0 + (j : Fq), x₀.c1⟩) ∧
      y * y = (⟨x₀.c0 + (n : Fq), x₀.c1⟩ : Fq2) * ⟨x₀.c0 + (n : Fq), x₀.c1⟩ * ⟨x₀.c0 + (n : Fq), x₀.c1⟩ + g2B ∧
      isGreater opsFq2 y = g := g2_tryAndIncrement_total_partial x₀ g fuel a ha hf
theorem g2_try_and_increment_total_q_partial (x₀ : Fq2) (g : Bool) (h : HLine x₀.c1) :
    (tryAndIncrement opsFq2 x₀ g q).isSome = true := g2_tryAndIncrement_total_q_partial x₀ g h

/-! ### 2. `from_hash` -/

/-- inside `from_hash`, `hash_reduce` acts on limbs already below `q`: it changes nothing and returns `false`. -/
theorem from_hash_hash_reduce_noop (x : Fq) : fqHashReduce (montRep x) = (false, montRep x) := fqHashReduce_montRep x

/-- start value and flag of `from_hash` (G1: 48-byte hash; G2: 96-byte hash, c1 first). -/
theorem from_hash_start_g1 {hash : List UInt8} (h : hash.length = 48) :
    fromHashStartFq hash = (false, Fin.ofNat q (ofBytesBE hash % 2 ^ 381)) := fromHashStartFq_eq h
theorem from_hash_start_g2 {hash : List UInt8} (h : hash.length = 96) :
    fromHashStartFq2 hash = (false, ⟨Fin.ofNat q (ofBytesBE (hash.drop 48) % 2 ^ 381),
      Fin.ofNat q (ofBytesBE (hash.take 48) % 2 ^ 381)⟩) := fromHashStartFq2_eq h

/-- the explicit models are what the judge compares the library with. -/
theorem from_hash_is_judge_model_g1 {hash : List UInt8} (h : hash.length = 48) (fuel : Nat) :
    fromHashG1 hash fuel = tryAndIncrement opsFq (opsFq.ofBytes hash) false fuel := fromHashG1_eq_judge h fuel
theorem from_hash_is_judge_model_g2 {hash : List UInt8} (h : hash.length = 96) (fuel : Nat) :
    fromHashG2 hash fuel = tryAndIncrement opsFq2 (opsFq2.ofBytes hash) false fuel := fromHashG2_eq_judge h fuel

/-- **`G1Affine::from_hash`**: the point `(x₀ + n, y)`, `n` least with `(x₀+n)³ + 4` a square, on the curve, never the
identity, `y` the root with sign bit clear. -/
theorem g1_hash_spec {hash : List UInt8} (hl : hash.length = 48) {fuel : Nat} {x y : Fq} {n : Nat}
    (h : fromHashG1 hash fuel = some (x, y, n)) :
    let x₀ : Fq := Fin.ofNat q (ofBytesBE hash % 2 ^ 381)
    x = x₀ + (n : Fq) ∧ n < fuel ∧
      (∀ j, j < n → ¬ ∃ y' : Fq, y' * y' = (x₀ + (j : Fq)) * (x₀ + (j : Fq)) * (x₀ + (j : Fq)) + g1B) ∧
      Pt.isOnCurve g1B (.aff x y) = true ∧ isGreater opsFq y = false ∧ (Pt.aff x y : G1Pt) ≠ .inf :=
  fromHashG1_spec hl h

/-- **`G1Affine::from_hash` is TOTAL** (explicit bound; fuel `q` always suffices). -/
theorem g1_hash_total {hash : List UInt8} (hl : hash.length = 48) (fuel : Nat)
    (hf : (-(Fin.ofNat q (ofBytesBE hash % 2 ^ 381) : Fq)).val < fuel) :
    ∃ (x y : Fq) (n : Nat), fromHashG1 hash fuel = some (x, y, n) ∧
      n ≤ (-(Fin.ofNat q (ofBytesBE hash % 2 ^ 381) : Fq)).val := fromHashG1_total hl fuel hf
theorem g1_hash_total_q {hash : List UInt8} (hl : hash.length = 48) : (fromHashG1 hash q).isSome = true :=
  fromHashG1_total_q hl

/-- with the judge's fuel 512: PARTIAL (hypothesis: one of `x₀ … x₀+511` carries a point). -/
theorem g1_hash_total_512_partial {hash : List UInt8} (hl : hash.length = 48)
    (h : ∃ n : Nat, n < 512 ∧ ∃ y : Fq, y * y = ((Fin.ofNat q (ofBytesBE hash % 2 ^ 381) : Fq) + (n : Fq)) *
        ((Fin.ofNat q (ofBytesBE hash % 2 ^ 381) : Fq) + (n : Fq)) * ((Fin.ofNat q (ofBytesBE hash % 2 ^ 381) : Fq) + (n : Fq)) + g1B) :
    (fromHashG1 hash 512).isSome = true := fromHashG1_total_512_partial hl h

/-- **`G2Affine::from_hash`**. -/
theorem g2_hash_spec {hash : List UInt8} (hl : hash.length = 96) {fuel : Nat} {x y : Fq2} {n : Nat}
    (h : fromHashG2 hash fuel = some (x, y, n)) :
    let a₀ : Fq := Fin.ofNat q (ofBytesBE (hash.drop 48) % 2 ^ 381)
    let t : Fq := Fin.ofNat q (ofBytesBE (hash.take 48) % 2 ^ 381)
    x = ⟨a₀ + (n : Fq), t⟩ ∧ n < fuel ∧
      (∀ j, j < n → ¬ ∃ y' : Fq2, y' * y' = (⟨a₀ + (j : Fq), t⟩ : Fq2) * ⟨a₀ + (j : Fq), t⟩ * ⟨a₀ + (j : Fq), t⟩ + g2B) ∧
      Pt.isOnCurve g2B (.aff x y) = true ∧ isGreater opsFq2 y = false ∧ (Pt.aff x y : G2Pt) ≠ .inf :=
  fromHashG2_spec hl h

/-- `G2Affine::from_hash` totality: PARTIAL, under `HLine` for the hashed `c1`. -/
theorem g2_hash_total_partial {hash : List UInt8} (hl : hash.length = 96)
    (h : HLine (Fin.ofNat q (ofBytesBE (hash.take 48) % 2 ^ 381))) : (fromHashG2 hash q).isSome = true :=
  fromHashG2_total_partial hl h

/-- determinism of `from_hash`: a function of the hash bytes; model fuel immaterial. -/
theorem g1_hash_deterministic {hash : List UInt8} {f₁ f₂ : Nat} {r₁ r₂ : Fq × Fq × Nat}
    (h₁ : fromHashG1 hash f₁ = some r₁) (h₂ : fromHashG1 hash f₂ = some r₂) : r₁ = r₂ := fromHashG1_fuel_irrelevant h₁ h₂
theorem g2_hash_deterministic {hash : List UInt8} {f₁ f₂ : Nat} {r₁ r₂ : Fq2 × Fq2 × Nat}
    (h₁ : fromHashG2 hash f₁ = some r₁) (h₂ : fromHashG2 hash f₂ = some r₂) : r₁ = r₂ := fromHashG2_fuel_irrelevant h₁ h₂

/-! ### 3. identity derivation -/

/-- **`compute_id_from_hash`** = `[g1Cofactor]·from_hash(hash)`, on the curve; UNDER `HCardG1` killed by `r` (in G1). -/
theorem id_in_G1 {hash : List UInt8} (hl : hash.length = 48) {fuel : Nat} {p : G1Pt} (h : idHash hash fuel = some p) :
    ∃ (x y : Fq) (n : Nat), fromHashG1 hash fuel = some (x, y, n) ∧ p = Pt.smul g1Cofactor (.aff x y) ∧
      Pt.isOnCurve g1B p = true ∧ (HCardG1 → Pt.smul r p = .inf ∧ inSubgroup p = true) := idHash_spec hl h
/-- … and total. -/
theorem id_hash_total {hash : List UInt8} (hl : hash.length = 48) : ∃ p, idHash hash q = some p := idHash_total hl

/-- the hypothesis, spelled out. -/
theorem HCardG1_def : HCardG1 ↔ ∀ P : G1Pt, Pt.isOnCurve g1B P = true → Pt.smul (g1Cofactor * r) P = .inf := Iff.rfl
theorem HCardG2_def : HCardG2 ↔ ∀ P : G2Pt, Pt.isOnCurve g2B P = true → Pt.smul (g2Cofactor * r) P = .inf := Iff.rfl
theorem HLine_def (t : Fq) : HLine t ↔ ∃ a : Fq, ∃ y : Fq2, y * y = (⟨a, t⟩ : Fq2) * ⟨a, t⟩ * ⟨a, t⟩ + g2B := Iff.rfl

/-! ### 4. `sample_random_generator` (the model `genSample` lives in Driver/Judge4.lean) -/

/-- the stateless judge's sampler (ops g1_rand / g2_rand) is `genSample`; `sampleG1`, `sampleG2` are `genSample` with the
judge's fuel. -/
theorem judge_sampler_is_genSample {F : Type} (o : CurveOps F) (fo : FieldOps F) (cof fuel : Nat) (s : RS) :
    judgeEnc.sample o fo cof fuel s = genSample o fo cof fuel s := judge_sample_eq o fo cof fuel s
theorem sampleG1_eq {s s' : RS} {p : G1Pt} (h : sampleG1 s = .ok (p, s')) :
    genSample curveG1 opsFq g1Cofactor (s.fuel 48 + 64) s = some (p, s') := sampleG1_ok h
theorem sampleG2_eq {s s' : RS} {p : G2Pt} (h : sampleG2 s = .ok (p, s')) :
    genSample curveG2 opsFq2 g2Cofactor (s.fuel 96 + 64) s = some (p, s') := sampleG2_ok h

/-- **`G1::random_generator`, for every stream on which it returns**: with `genDraw` the point `get_point_from_x` yields in a
pass (`genDraw_g1`), `genCand` its cofactor multiple unless that is ∞, `genAfter k` the stream after `k` passes: the result is
`[g1Cofactor]P` for the point `P` drawn in the FIRST pass with `[g1Cofactor]P ≠ ∞`; it is on the curve and ≠ ∞; the stream is
left just after that pass; UNDER `HCardG1` the result is killed by `r`. -/
theorem g1_rand_spec {fuel : Nat} {s s' : RS} {p : G1Pt} (h : genSample curveG1 opsFq g1Cofactor fuel s = some (p, s')) :
    ∃ (k : Nat) (x y : Fq), k < fuel ∧ s' = genAfter curveG1 (k + 1) s ∧
      (∀ j, j < k → genCand curveG1 opsFq g1Cofactor (genAfter curveG1 j s) = none) ∧
      genDraw curveG1 opsFq (genAfter curveG1 k s) = some (x, y) ∧ Pt.isOnCurve g1B (.aff x y) = true ∧
      p = Pt.smul g1Cofactor (.aff x y) ∧ p ≠ .inf ∧ Pt.isOnCurve g1B p = true ∧
      (HCardG1 → Pt.smul r p = .inf ∧ inSubgroup p = true) := sampleG1_spec h

/-- **`G2::random_generator`**, likewise. -/
theorem g2_rand_spec {fuel : Nat} {s s' : RS} {p : G2Pt} (h : genSample curveG2 opsFq2 g2Cofactor fuel s = some (p, s')) :
    ∃ (k : Nat) (x y : Fq2), k < fuel ∧ s' = genAfter curveG2 (k + 1) s ∧
      (∀ j, j < k → genCand curveG2 opsFq2 g2Cofactor (genAfter curveG2 j s) = none) ∧
      genDraw curveG2 opsFq2 (genAfter curveG2 k s) = some (x, y) ∧ Pt.isOnCurve g2B (.aff x y) = true ∧
      p = Pt.smul g2Cofactor (.aff x y) ∧ p ≠ .inf ∧ Pt.isOnCurve g2B p = true ∧
      (HCardG2 → Pt.smul r p = .inf ∧ inSubgroup p = true) := sampleG2_spec h

/-- corollaries in the words of the property: sampled group elements are non-identity curve points, and members of the
order-r subgroup UNDER H-card. -/
theorem g1_rand_nonidentity {s s' : RS} {p : G1Pt} (h : sampleG1 s = .ok (p, s')) :
    p ≠ .inf ∧ Pt.isOnCurve g1B p = true := by
  obtain ⟨_, _, _, _, _, _, _, _, _, h1, h2, _⟩ := sampleG1_spec (sampleG1_ok h); exact ⟨h1, h2⟩
theorem g2_rand_nonidentity {s s' : RS} {p : G2Pt} (h : sampleG2 s = .ok (p, s')) :
    p ≠ .inf ∧ Pt.isOnCurve g2B p = true := by
  obtain ⟨_, _, _, _, _, _, _, _, _, h1, h2, _⟩ := sampleG2_spec (sampleG2_ok h); exact ⟨h1, h2⟩
theorem g1_rand_in_subgroup (hcard : HCardG1) {s s' : RS} {p : G1Pt} (h : sampleG1 s = .ok (p, s')) :
    Pt.smul r p = .inf ∧ inSubgroup p = true := by
  obtain ⟨_, _, _, _, _, _, _, _, _, _, _, h3⟩ := sampleG1_spec (sampleG1_ok h); exact h3 hcard
theorem g2_rand_in_subgroup (hcard : HCardG2) {s s' : RS} {p : G2Pt} (h : sampleG2 s = .ok (p, s')) :
    Pt.smul r p = .inf ∧ inSubgroup p = true := by
  obtain ⟨_, _, _, _, _, _, _, _, _, _, _, h3⟩ := sampleG2_spec (sampleG2_ok h); exact h3 hcard

/-- the first-accepted-pass characterisation in both directions, for any record pair with a total `randF`. -/
theorem gen_sample_first_hit {F : Type} (o : CurveOps F) (fo : FieldOps F) (cof : Nat)
    (hr : ∀ s, (o.randF s).1.isSome = true) (k fuel : Nat) (s : RS) (p : Pt F) (hk : k < fuel)
    (hrej : ∀ j, j < k → genCand o fo cof (genAfter o j s) = none) (hacc : genCand o fo cof (genAfter o k s) = some p) :
    genSample o fo cof fuel s = some (p, genAfter o (k + 1) s) := genSample_first_hit o fo cof hr k fuel s p hk hrej hacc
theorem gen_sample_none_iff {F : Type} (o : CurveOps F) (fo : FieldOps F) (cof : Nat)
    (hr : ∀ s, (o.randF s).1.isSome = true) (fuel : Nat) (s : RS) :
    genSample o fo cof fuel s = none ↔ ∀ j, j < fuel → genCand o fo cof (genAfter o j s) = none :=
  genSample_none_iff o fo cof hr fuel s

/-- what a pass draws: the abscissa is the element whose STORED limbs are the integer `Fq::random` accepted (first 48-byte
little-endian draw, top three bits cleared, below `q`: `C10.randBelow_accepts`), the flag is the low bit of the next byte. -/
theorem gen_draw_g1 (s : RS) :
    genDraw curveG1 opsFq s =
      fromX opsFq (unmontC (randFqRaw s).1) ((((randFqRaw s).2.draw 1).1.headD 0).toNat % 2 == 1) true := genDraw_g1 s
theorem gen_draw_g2 (s : RS) :
    genDraw curveG2 opsFq2 s =
      fromX opsFq2 ⟨unmontC (randFqRaw s).1, unmontC (randFqRaw (randFqRaw s).2).1⟩
        ((((randFqRaw (randFqRaw s).2).2.draw 1).1.headD 0).toNat % 2 == 1) true := genDraw_g2 s

/-- STREAM POSITION: a G1 pass consumes `48·(j+1) + 1` bytes (`j` rejected candidates of `Fq::random`), a G2 pass
`48·(j₀+1) + 48·(j₁+1) + 1`; at least 49 bytes per pass. -/
theorem gen_pass_g1 (s : RS) :
    ∃ j, j < s.fuel 48 ∧ (∀ i, i < j → ¬ RS.candidate 48 381 (RS.after 48 i s) < q) ∧
      RS.candidate 48 381 (RS.after 48 j s) < q ∧ (randFqRaw s).1 = RS.candidate 48 381 (RS.after 48 j s) ∧
      genNext curveG1 s = ((RS.after 48 (j + 1) s).draw 1).2 ∧
      (genNext curveG1 s).used + (genNext curveG1 s).over = s.used + s.over + 48 * (j + 1) + 1 := genNext_g1 s
theorem gen_pass_g2 (s : RS) :
    ∃ j₀ j₁, (randFqRaw s).2 = RS.after 48 (j₀ + 1) s ∧
      (randFqRaw (randFqRaw s).2).2 = RS.after 48 (j₁ + 1) (RS.after 48 (j₀ + 1) s) ∧
      genNext curveG2 s = ((RS.after 48 (j₁ + 1) (RS.after 48 (j₀ + 1) s)).draw 1).2 ∧
      (genNext curveG2 s).used + (genNext curveG2 s).over = s.used + s.over + 48 * (j₀ + 1) + 48 * (j₁ + 1) + 1 :=
  genNext_g2 s
theorem gen_passes_g1_counters (k : Nat) (s : RS) :
    s.used + s.over + 49 * k ≤ (genAfter curveG1 k s).used + (genAfter curveG1 k s).over := genAfter_g1_counters k s

/-- NOT total: on an exhausted stream (the callback delivers zeros) neither sampler ever returns. -/
theorem g1_rand_never_returns_on_zeros (fuel : Nat) (s : RS) (h : s.bytes = []) :
    genSample curveG1 opsFq g1Cofactor fuel s = none := genSample_g1_of_empty fuel s h
theorem g2_rand_never_returns_on_zeros (fuel : Nat) (s : RS) (h : s.bytes = []) :
    genSample curveG2 opsFq2 g2Cofactor fuel s = none := genSample_g2_of_empty fuel s h

/-! ### 5. scalars and field elements (restated from C02b / C10 / C07) -/

/-- `zp_from_hash`: 32 bytes big-endian, top bit cleared, reduced into `[0, r)`; equals the Spec `zpFromHash` of C10. -/
theorem zp_from_hash_spec {hash : List UInt8} (h : hash.length = 32) :
    zpFromHashImpl hash = (ofBytesBE hash % 2 ^ 255) % r ∧ zpFromHashImpl hash = zpFromHash hash ∧
      zpFromHashImpl hash < r := zpFromHashImpl_spec h
/-- `scalar_hash_reduce`: the 256-bit scalar with its top bit cleared, reduced into `[0, r)`. -/
theorem scalar_hash_reduce_spec {x : Nat} (hx : x < 2 ^ 256) :
    scalarHashReduce x = (x % 2 ^ 255) % r ∧ scalarHashReduce x < r := scalarHashReduce_spec hx

/-- `Fq::random`, `Fr::random` (models of the loops as coded; `= randFqRaw`, `randFrRaw`): below the modulus for every stream,
first accepted draw, stream advanced just past it. -/
theorem fq_random_lt (s : RS) : (fqRandom s).1 < q := fqRandom_lt s
theorem fr_random_lt (s : RS) : (frRandom s).1 < r := frRandom_lt s
theorem fq_random_first (s : RS) :
    ∃ j, j < s.fuel 48 ∧ (∀ i, i < j → q ≤ nthDraw 384 0x1F s i) ∧ nthDraw 384 0x1F s j < q ∧
      fqRandom s = (nthDraw 384 0x1F s j, RS.after 48 (j + 1) s) := fqRandom_first s
theorem fr_random_first (s : RS) :
    ∃ j, j < s.fuel 32 ∧ (∀ i, i < j → r ≤ nthDraw 256 0x7F s i) ∧ nthDraw 256 0x7F s j < r ∧
      frRandom s = (nthDraw 256 0x7F s j, RS.after 32 (j + 1) s) := frRandom_first s
theorem fq_random_eq_spec (s : RS) : fqRandom s = randFqRaw s := fqRandom_eq_spec s
theorem fr_random_eq_spec (s : RS) : frRandom s = randFrRaw s := frRandom_eq_spec s

/-- `PowersOfX::random`: for every stream (and fuel) the four sampled digits are below `|x|` and CONSISTENT with the returned
scalar `y = Σ cᵢ·|x|^i < r`. -/
theorem xrand_consistent (fuel : Nat) (s : RS) :
    ∃ c0 c1 c2 c3, (xrandModel fuel s).2.1 = [c0, c1, c2, c3] ∧ c0 < blsX ∧ c1 < blsX ∧ c2 < blsX ∧ c3 < blsX ∧
      xadicVal (xrandModel fuel s).2.1 = (xrandModel fuel s).1 ∧ (xrandModel fuel s).1 < r :=
  GtExp.xrandModel_spec fuel s

/-! ### non-vacuity -/
example : (fromHashG1 (List.replicate 47 0 ++ [1]) 512).map (·.2.2) = some 3 := by decide +kernel
example : idHash (List.replicate 48 0) 512 = some .inf := by decide +kernel
example : (genSample curveG1 opsFq g1Cofactor 3 { bytes := 1 :: List.replicate 48 0 }).isSome = true := by decide +kernel
example : (genSample curveG2 opsFq2 g2Cofactor 3 { bytes := 4 :: List.replicate 96 0 }).isSome = true := by decide +kernel

end Jedi.C10
