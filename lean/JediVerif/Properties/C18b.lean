/-
C18 (continued) — alias independence beyond the tower: curve points (both instantiations of the curve.hpp templates) and the
pairing's final exponentiation.  For every function of curve.hpp whose signature lets the output object coincide with an input
(`add(a, b)` with `this == &a`, mixed addition likewise, `multiply2(a)` with `this != &a` vs `this == &a`, `negate`, `equal`),
the model translated with the objects unified equals the all-distinct model for ALL operands and EVERY coefficient type — no
algebra is used, the translated code performs its reads before its writes.  Statements are proved in Proofs/CurveProofs.lean
(restated in C05 §5) and re-exported here so that the C18 check audits them; `Proj2`/`Affn2` are the Fq2 instantiations.
-/
import JediVerif.Properties.C05
import JediVerif.Gen.PairingGen

namespace Jedi.C18
open Jedi Jedi.Gen

section curve
variable {F : Type}

theorem curve_add_out_eq_a [Add F] [Sub F] [Mul F] [Zero F] [DecidableEq F] (p q : Jac F) :
    Proj.add_oa p q = Proj.add p q := C05.add_out_eq_a p q
theorem curve_add_mixed_out_eq_a [Add F] [Sub F] [Mul F] [Zero F] [One F] [DecidableEq F] (p : Jac F) (a : Aff F) :
    Proj.addA_oa p a = Proj.addA p a := C05.addA_out_eq_a p a
theorem curve_multiply2_out_other [Add F] [Sub F] [Mul F] [Zero F] [DecidableEq F] (p : Jac F) :
    Proj.multiply2_oother p = Proj.multiply2 p := C05.multiply2_out_eq_other p
theorem curve_negate_out_eq_a [Neg F] (p : Jac F) : Proj.negate_oa p = Proj.negate p := C05.negate_out_eq_a p
theorem curve_affine_negate_out_eq_a [Neg F] (a : Aff F) : Affn.negate_oa a = Affn.negate a := C05.aff_negate_out_eq_a a
theorem curve_equal_aliases [Mul F] [Zero F] [DecidableEq F] (p q : Jac F) :
    Proj.equal_oa p q = Proj.equal p q ∧ Proj.equal_ob p q = Proj.equal p q ∧ Proj.equal_oab p = Proj.equal p p :=
  C05.equal_aliases p q
theorem curve_affine_equal_aliases [DecidableEq F] (a c : Aff F) :
    Affn.equal_oa a c = Affn.equal a c ∧ Affn.equal_ob a c = Affn.equal a c ∧ Affn.equal_oab a = Affn.equal a a :=
  C05.aff_equal_aliases a c
end curve

section curve2
variable {R : Type} [CommRing R] [DecidableEq R]
/-- the Fq2 instantiation, aliased or not, is the generic all-distinct code -/
theorem curve2_add_out_eq_a (p q : Jac (Q2 R)) : Proj2.add_oa p q = Proj2.add p q := by
  rw [C05.proj2_add_oa_eq, C05.proj2_add_eq]
theorem curve2_add_mixed_out_eq_a (p : Jac (Q2 R)) (a : Aff (Q2 R)) : Proj2.addA_oa p a = Proj2.addA p a := by
  rw [C05.proj2_addA_oa_eq, C05.proj2_addA_eq]
theorem curve2_multiply2_out_other (p : Jac (Q2 R)) : Proj2.multiply2_oother p = Proj2.multiply2 p := by
  rw [C05.proj2_multiply2_oother_eq, C05.proj2_multiply2_eq]
theorem curve2_negate_out_eq_a (p : Jac (Q2 R)) : Proj2.negate_oa p = Proj2.negate p := by
  rw [C05.proj2_negate_oa_eq, C05.proj2_negate_eq]
theorem curve2_affine_negate_out_eq_a (a : Aff (Q2 R)) : Affn2.negate_oa a = Affn2.negate a := by
  rw [C05.affn2_negate_oa_eq, C05.affn2_negate_eq]
end curve2

section pairing
variable {F : Type} [Add F] [Sub F] [Mul F] [Neg F] [Zero F] [One F] [Inv F] [TowerConsts F]
/-- `final_exponentiation(result, a)` with `&result == &a` (the way `pairing` calls it) computes the same function -/
theorem final_exponentiation_out_eq_a (a : Q12 F) : final_exponentiation_oa a = final_exponentiation a := rfl
end pairing

end Jedi.C18
