/-
C06 (continued) — the endomorphism-accelerated G1 method and the Frobenius-accelerated G2 method return [k]P on the real
curve: the eigenvalue facts that `Properties/C06.lean` left as hypotheses (`glv_scalar_correct`: "… on which the
endomorphism acts as λ"; `xadic_scalar_correct`).

Property theorems only; proofs in `JediVerif/Proofs/Eigen.lean`.  Objects:
* `Impl.g1Endo` / `Impl.g1EndoPt`   — `G1::endomorphism` (curve_fast_multiply.cpp l.167) on Jacobian triples / the affine map
  φ(x, y) = (x·β, y) it induces; β = `g1_endomorphism_beta` (constant regenerated from the source);
* `Impl.g2FrobInto`, `Impl.g2Frob`, `Impl.g2FrobPt` — `G2::frobenius_map` (l.296) with its `switch (power & 3)` / the affine
  map ψ(x, y) = (x̄·γ⁴·u, ȳ·u·γ³) its case 1 induces; γ = `uplusonetotheqminusoneoversix`;
* `Impl.frobTable`, `Impl.frobTablePt` — the array `t[0..3] = [Q, −ψQ, ψ²Q, −ψ³Q]` of `G2::multiply_frobenius`;
* `Impl.decomposeLambda`, `Impl.xadic` — the decompositions of `Properties/C06.lean`;
* `Impl.g1MultiplyEndomorphism`, `Impl.g2MultiplyFrobenius` — the WHOLE methods `G1::multiply_endomorphism(a, scalar)`
  (l.268/l.173) and `G2::multiply_frobenius(a, scalar)` (l.396/l.326): decomposition, wNAF recodings, tables, and the
  interleaved double-and-add loops with `found_one` (`Impl.interRun`), run on the generated Jacobian arithmetic
  (`Gen.Proj.add / negate / multiply2`, `Gen.Proj2.*`).
The judge compares `g1Endo` / `g2FrobInto` with the raw Jacobian output of the library on every `g1_endo` / `g2_frob` line,
and `g1MultiplyEndomorphism` / `g2MultiplyFrobenius` with the raw Jacobian output of `G1::multiply` / `G2::multiply` on
every `g1_mul`, `g1_mula`, `g2_mul`, `g2_mula` line.

"G1" and "G2" are the groups as the library defines them: the multiples of the published generators
(`InSpanG1 P := ∃ k, P = [k]g1`, `InSpanG2`).  Every point of these groups is on the curve and killed by r.  That they
contain EVERY point killed by r needs the group orders #E(Fq), #E'(Fq2) (hypothesis H-card) and is NOT claimed here.
The group law is the Spec's chord-and-tangent law `Pt.add` / `Pt.smul` (a group law by `Properties/C05b.lean`).
-/
import JediVerif.Proofs.Eigen

namespace Jedi.C06
open Jedi Jedi.Impl Jedi.Gen.Consts

/-! ### (i) φ is an endomorphism of E(Fq) : y² = x³ + 4 -/

/-- β is a primitive cube root of unity in Fq (closed fact, kernel evaluation). -/
theorem beta_cube : g1Beta ^ 3 = 1 ∧ g1Beta ≠ 1 := ⟨g1Beta_cube, g1Beta_ne_one⟩

/-- φ maps the curve to itself. -/
theorem endo_onCurve {P : G1Pt} (hP : Pt.isOnCurve g1B P = true) : Pt.isOnCurve g1B (g1EndoPt P) = true :=
  g1EndoPt_isOnCurve hP

/-- φ(∞) = ∞, φ(−P) = −φ(P), φ(P + Q) = φ(P) + φ(Q) (all pairs of points, exceptional cases included), φ([k]P) = [k]φ(P). -/
theorem endo_hom : g1EndoPt (Pt.inf : G1Pt) = Pt.inf ∧
    (∀ P : G1Pt, g1EndoPt (Pt.neg P) = Pt.neg (g1EndoPt P)) ∧
    (∀ P Q : G1Pt, g1EndoPt (Pt.add P Q) = Pt.add (g1EndoPt P) (g1EndoPt Q)) ∧
    (∀ (k : Nat) (P : G1Pt), g1EndoPt (Pt.smul k P) = Pt.smul k (g1EndoPt P)) :=
  ⟨rfl, g1EndoPt_neg, g1EndoPt_add, g1EndoPt_smul⟩

/-- the code acts on Jacobian triples; on the represented points it is φ (every triple, z = 0 included). -/
theorem endo_jacobian (j : Jac Fq) : Pt.ofJac (g1Endo j) = g1EndoPt (Pt.ofJac j) := ofJac_g1Endo j

/-! ### (ii) φ = [λ] on G1 -/

/-- closed fact: φ(g1) = [λ]g1 with λ = `g1_endomorphism_lambda` (kernel evaluation of a 255-bit double-and-add). -/
theorem endo_generator : g1EndoPt g1Gen = Pt.smul g1_endomorphism_lambda g1Gen := g1EndoPt_gen

/-- G1 (the multiples of the generator) lies on the curve and is killed by r. -/
theorem g1_span_facts {P : G1Pt} (hP : InSpanG1 P) : Pt.isOnCurve g1B P = true ∧ Pt.smul r P = Pt.inf :=
  ⟨hP.isOnCurve, hP.smul_r⟩

/-- **φ acts as [λ] on G1**: `(x·β, y) = [λ](x, y)` for every multiple of the generator. -/
theorem endo_eigenvalue {P : G1Pt} (hP : InSpanG1 P) : g1EndoPt P = Pt.smul g1_endomorphism_lambda P :=
  g1EndoPt_eigen hP

/-- the library's λ is the λ = −x² mod r the decomposition theorems of `C06` are stated with. -/
theorem lambda_eq : glvLambda = g1_endomorphism_lambda := glvLambda_eq

/-! ### (iii) GLV multiplication returns [k]P -/

/-- **`±[c0]P + ±[c1]φ(P) = [k]P`** for every `P` in G1 and EVERY scalar `k` (in particular every 256-bit `k`, reduced or
not), where `(c0, c0_neg, c1, c1_neg) = decompose_lambda(k)` and `signedSmul neg c P = if neg then −[c]P else [c]P`.
This is the quantity `G1::multiply_endomorphism(a, c0, c0_neg, c1, c1_neg)` accumulates. -/
theorem glv_multiply_correct {P : G1Pt} (hP : InSpanG1 P) (k : Nat) :
    Pt.add (signedSmul (decomposeLambda k).c0neg (decomposeLambda k).c0 P)
      (signedSmul (decomposeLambda k).c1neg (decomposeLambda k).c1 (g1EndoPt P)) = Pt.smul k P :=
  glv_correct hP k

/-! ### (iv) ψ is an endomorphism of the twist E'(Fq2) : y² = x³ + 4(1+u) -/

/-- how `G2::frobenius_map(a, power)` handles its power: only `power & 3` counts; 0 copies the source, 1 applies ψ, and for
2 and 3 NOTHING is written (the source says `// TODO`): the destination keeps its previous content `self`.  The library
itself only ever passes 1. -/
theorem frob_power (self a : Jac Fq2) (power : Nat) :
    g2FrobInto self a power = if power % 4 = 0 then a else if power % 4 = 1 then g2FrobOne a else self :=
  g2FrobInto_eq self a power

/-- the code (power 1) acts on Jacobian triples; on the represented points it is ψ. -/
theorem frob_jacobian (j : Jac Fq2) : Pt.ofJac (g2Frob j 1) = g2FrobPt (Pt.ofJac j) := ofJac_g2Frob_one j

/-- ψ is `(x, y) ↦ (x^q·cx, y^q·cy)` with `cx = γ⁴u`, `cy = uγ³`, where `cy² = cx³`, `(4(1+u))^q·cy² = 4(1+u)`, γ⁶ = −u
(closed facts). -/
theorem frob_shape : (∀ x y : Fq2, g2FrobPt (Pt.aff x y) = Pt.aff (x ^ q * psiCx) (y ^ q * psiCy)) ∧
    psiCy ^ 2 = psiCx ^ 3 ∧ g2B ^ q * psiCy ^ 2 = g2B ∧ g2Gamma ^ 6 = -Q2.u := by
  refine ⟨fun x y => ?_, psi_rel, ?_, g2Gamma_pow_six⟩
  · rw [g2FrobPt_eq_twistMap]; simp only [Pt.twistMap, fq2Frob_eq_pow]
  · rw [← Fq2.frobenius_map_one]; exact psi_b

/-- ψ maps the twist to itself. -/
theorem frob_onCurve {Q : G2Pt} (hQ : Pt.isOnCurve g2B Q = true) : Pt.isOnCurve g2B (g2FrobPt Q) = true :=
  g2FrobPt_isOnCurve hQ

/-- ψ(∞) = ∞, ψ(−P) = −ψ(P), ψ(P + Q) = ψ(P) + ψ(Q) (all pairs of points), ψ([k]P) = [k]ψ(P). -/
theorem frob_hom : g2FrobPt (Pt.inf : G2Pt) = Pt.inf ∧
    (∀ P : G2Pt, g2FrobPt (Pt.neg P) = Pt.neg (g2FrobPt P)) ∧
    (∀ P Q : G2Pt, g2FrobPt (Pt.add P Q) = Pt.add (g2FrobPt P) (g2FrobPt Q)) ∧
    (∀ (k : Nat) (P : G2Pt), g2FrobPt (Pt.smul k P) = Pt.smul k (g2FrobPt P)) :=
  ⟨rfl, g2FrobPt_neg, g2FrobPt_add, g2FrobPt_smul⟩

/-! ### (v) ψ = [q mod r] = [−|x|] on G2 -/

/-- closed fact: ψ(g2) = [q mod r]g2 (kernel evaluation over Fq2), and q mod r = r − |x|. -/
theorem frob_generator : g2FrobPt g2Gen = Pt.smul (q % r) g2Gen ∧ q % r = r - blsX := ⟨g2FrobPt_gen, q_mod_r⟩

/-- G2 (the multiples of the generator) lies on the twist, is killed by r and is stable under ψ. -/
theorem g2_span_facts {Q : G2Pt} (hQ : InSpanG2 Q) :
    Pt.isOnCurve g2B Q = true ∧ Pt.smul r Q = Pt.inf ∧ InSpanG2 (g2FrobPt Q) :=
  ⟨hQ.isOnCurve, hQ.smul_r, hQ.frob⟩

/-- **ψ acts as [q mod r] = [−|x|] on G2.** -/
theorem frob_eigenvalue {Q : G2Pt} (hQ : InSpanG2 Q) :
    g2FrobPt Q = Pt.smul (q % r) Q ∧ g2FrobPt Q = Pt.neg (Pt.smul blsX Q) :=
  ⟨g2FrobPt_eigen hQ, g2FrobPt_eq_neg hQ⟩

/-- ψⁱ acts as [(q mod r)ⁱ] on G2, for every i (the method uses i < 4, obtained by iterating power 1). -/
theorem frob_iterate_eigenvalue {Q : G2Pt} (hQ : InSpanG2 Q) (i : Nat) :
    g2FrobPt^[i] Q = Pt.smul ((q % r) ^ i) Q :=
  (g2FrobPt_iterate_eigen hQ i).1

/-! ### (vi) x-adic multiplication returns [k]Q -/

/-- the Jacobian table `t[0..3]` built by `G2::multiply_frobenius` represents `[Q, −ψQ, ψ²Q, −ψ³Q]` … -/
theorem frob_table_jacobian (j : Jac Fq2) : (frobTable j).map Pt.ofJac = frobTablePt (Pt.ofJac j) := ofJac_frobTable j

/-- … which on G2 is `[Q, [|x|]Q, [|x|²]Q, [|x|³]Q]` (the sign pattern for x < 0 is the right one). -/
theorem frob_table_powers {Q : G2Pt} (hQ : InSpanG2 Q) :
    frobTablePt Q = [Q, Pt.smul blsX Q, Pt.smul blsX (Pt.smul blsX Q), Pt.smul blsX (Pt.smul blsX (Pt.smul blsX Q))] :=
  frobTablePt_eq hQ

/-- **`[c0]Q + [c1](−ψQ) + [c2]ψ²Q + [c3](−ψ³Q) = [k]Q`** for every `Q` in G2 and every `k < 2^256`, where
`[c0, c1, c2, c3] = PowersOfX::decompose(k)`.  This is the quantity `G2::multiply_frobenius` accumulates. -/
theorem xadic_multiply_correct {Q : G2Pt} (hQ : InSpanG2 Q) (k : Nat) (hk : k < 2 ^ 256) :
    ∃ c0 c1 c2 c3 : Nat, xadic k = [c0, c1, c2, c3] ∧
      Pt.add (Pt.smul c0 Q) (Pt.add (Pt.smul c1 (Pt.neg (g2FrobPt Q)))
        (Pt.add (Pt.smul c2 (g2FrobPt (g2FrobPt Q)))
          (Pt.smul c3 (Pt.neg (g2FrobPt (g2FrobPt (g2FrobPt Q))))))) = Pt.smul k Q := by
  obtain ⟨c0, c1, c2, c3, hx, -⟩ := xadic_digits k hk
  refine ⟨c0, c1, c2, c3, hx, ?_⟩
  have h := xadic_correct hQ k hk
  rw [hx] at h
  simpa only [multiSmul, frobTablePt, Pt.add_inf] using h

/-- the same with the sum written over the table. -/
theorem xadic_multiply_correct' {Q : G2Pt} (hQ : InSpanG2 Q) (k : Nat) (hk : k < 2 ^ 256) :
    multiSmul (xadic k) (frobTablePt Q) = Pt.smul k Q :=
  xadic_correct hQ k hk

/-! ### (vii) the methods themselves: `G1::multiply_endomorphism`, `G2::multiply_frobenius` return [k]P -/

/-- the generated Jacobian `add / negate / multiply2 / zero` compute, on triples denoting curve points (z = 0 included),
the operations of the elliptic-curve group (`jacPoint` : the Mathlib point a triple denotes) — any curve y² = x³ + b. -/
theorem jacobian_ops_represent_group {K : Type} [Field K] [DecidableEq K] {b : K} (hc : CurveHyp b) :
    OpsRep (jacOps K) (ValidJ b) (jacPoint hc) := jacOps_rep hc

/-- the invariant of the interleaved loops, for ANY carrier representing ANY commutative group, any number of lanes, any
window `w ≥ 1`, any well-formed digit lists no longer than `top`: the loop returns a valid representative of
`Σ_lanes ±(Σ dᵢ 2^i)·B`. -/
theorem interleaved_loop_spec {C G : Type} [AddCommGroup G] {ops : GOps C} {valid : C → Prop} {ρ : C → G}
    (R : OpsRep ops valid ρ) (w : Nat) (hw : 1 ≤ w) (lb : List (Lane C × G))
    (hOK : ∀ p ∈ lb, LaneOK valid ρ w p.1 p.2) (top : Nat) (hlen : ∀ p ∈ lb, p.1.digits.length ≤ top) :
    valid (interRun ops (lb.map Prod.fst) top top).1 ∧
    ρ (interRun ops (lb.map Prod.fst) top top).1 =
      (lb.map fun p => (laneSign p.1 * digitsVal p.1.digits) • p.2).sum :=
  interRun_rep_full R w hw lb hOK top hlen

/-- **`G1::multiply_endomorphism(a, k)` returns `[k]a`** for every Jacobian triple `a` denoting a point of G1 (any
representative, ∞ included) and every `k < 2^256` (reduced modulo r or not). -/
theorem g1_multiply_endomorphism_correct (a : Jac Fq) (ha : InSpanG1 (Pt.ofJac a)) (k : Nat) (hk : k < 2 ^ 256) :
    Pt.ofJac (g1MultiplyEndomorphism a k) = Pt.smul k (Pt.ofJac a) :=
  g1MultiplyEndomorphism_correct a ha k hk

/-- **`G2::multiply_frobenius(a, k)` returns `[k]a`** for every Jacobian triple `a` denoting a point of G2 and every
`k < 2^256`. -/
theorem g2_multiply_frobenius_correct (a : Jac Fq2) (ha : InSpanG2 (Pt.ofJac a)) (k : Nat) (hk : k < 2 ^ 256) :
    Pt.ofJac (g2MultiplyFrobenius a k) = Pt.smul k (Pt.ofJac a) :=
  g2MultiplyFrobenius_correct a ha k hk

/-! ### non-vacuity -/

example : InSpanG1 g1Gen ∧ InSpanG2 g2Gen := ⟨inSpanG1_gen, inSpanG2_gen⟩
example : g1EndoPt g1Gen ≠ g1Gen := by decide +kernel
example : g2FrobPt g2Gen ≠ g2Gen := by decide +kernel
example : g1EndoPt g1Gen = Pt.smul g1_endomorphism_lambda g1Gen := endo_eigenvalue inSpanG1_gen
example : multiSmul (xadic (2 ^ 256 - 1)) (frobTablePt g2Gen) = Pt.smul (2 ^ 256 - 1) g2Gen :=
  xadic_multiply_correct' inSpanG2_gen _ (by decide)
example : Pt.ofJac (g1MultiplyEndomorphism (Pt.toJac g1Gen) 0xBEEF) = Pt.smulFast 0xBEEF g1Gen := by decide +kernel
example : Pt.ofJac (g2MultiplyFrobenius (Pt.toJac g2Gen) 0xBEEF) = Pt.smulFast 0xBEEF g2Gen := by decide +kernel

end Jedi.C06
