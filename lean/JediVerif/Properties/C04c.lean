/-
C04 (third part) — "Mapping into the cyclotomic subgroup and the fast cyclotomic squaring agree with ordinary
exponentiation and squaring on every element of that subgroup."

Property theorems only (proofs in `Proofs/Cyclotomic.lean`, `Proofs/GtCapstone.lean`).  Objects: the generated
`Fq12.square_cyclotomic` (Granger–Scott squaring, fq12_cyclotomic.cpp l.52), `Fq12.map_to_cyclotomic` (the "easy part"
of the final exponentiation) and their `_oa` alias forms; `Cyclotomic.IsCyclotomic a` — six polynomial equations in the
Fq2-coordinates of `a` (`adj4 a = conj a`, where `adj4` is the adjugate for the cubic extension Q12/Q4), meaningful over
every commutative ring.

Part A holds for every commutative coefficient ring `R`: `IsCyclotomic` is EXACTLY the set on which the fast squaring is
correct (when 2 is cancellable), and it is a submonoid closed under conjugation and the Frobenius maps.
Part B is over the concrete field `Fq = Fin q` with the library's regenerated tables, where `x ^ n` is the monoid power
of `Fq12 = Q12 Fq` (a field, `instFieldFq12`): `IsCyclotomic a ↔ a = 0 ∨ a ^ (q⁴ − q² + 1) = 1`, i.e. `IsCyclotomic` is
the cyclotomic subgroup G_{Φ₁₂(q)} of Fq12ˣ together with 0, and `map_to_cyclotomic a = a ^ ((q⁶ − 1)(q² + 1))` for every
non-zero `a`.
-/
import JediVerif.Proofs.GtCapstone

namespace Jedi.C04
open Jedi Jedi.Gen
open Jedi.Cyclotomic (IsCyclotomic adj4 twist FrobTwoFacts)

/-! ## A. any commutative ring -/
section Generic
variable {R : Type} [CommRing R]

/-- `IsCyclotomic a` abbreviates the coordinate-wise Granger–Scott equations `adj4 a = conj a`. -/
theorem isCyclotomic_def (a : Q12 R) : IsCyclotomic a ↔ adj4 a = Q12.conj a := Cyclotomic.isCyclotomic_iff_adj4 a

/-- the fast squaring for EVERY input: the ordinary square plus twice the defect `adj4 a − conj a`. -/
theorem square_cyclotomic_general (a : Q12 R) :
    Fq12.square_cyclotomic a = a * a + ((adj4 a - Q12.conj a) + (adj4 a - Q12.conj a)) :=
  Cyclotomic.square_cyclotomic_general a

/-- **the fast cyclotomic squaring is the squaring on `IsCyclotomic` elements** (both alias forms) … -/
theorem square_cyclotomic_eq (a : Q12 R) (h : IsCyclotomic a) : Fq12.square_cyclotomic a = a * a :=
  Cyclotomic.square_cyclotomic_eq a h
theorem square_cyclotomic_oa_eq (a : Q12 R) (h : IsCyclotomic a) : Fq12.square_cyclotomic_oa a = a * a :=
  Cyclotomic.square_cyclotomic_oa_eq a h
/-- … where it agrees with the generic `Fq12::square` … -/
theorem square_cyclotomic_eq_square (a : Q12 R) (h : IsCyclotomic a) : Fq12.square_cyclotomic a = Fq12.square a := by
  rw [Cyclotomic.square_cyclotomic_eq a h, Fq12.square_spec]

/-- … **and nowhere else** (2 cancellable in `R`): the hypothesis is the weakest possible. -/
theorem square_cyclotomic_eq_iff (h2 : ∀ x : R, x + x = 0 → x = 0) (a : Q12 R) :
    Fq12.square_cyclotomic a = a * a ↔ IsCyclotomic a :=
  Cyclotomic.square_cyclotomic_eq_iff h2 a

/-- `IsCyclotomic` contains 1 and is closed under products, powers and conjugation … -/
theorem isCyclotomic_one : IsCyclotomic (1 : Q12 R) := Cyclotomic.isCyclotomic_one
theorem isCyclotomic_mul (a b : Q12 R) (ha : IsCyclotomic a) (hb : IsCyclotomic b) : IsCyclotomic (a * b) := ha.mul hb
theorem isCyclotomic_pow (a : Q12 R) (ha : IsCyclotomic a) (n : Nat) : IsCyclotomic (a ^ n) := ha.pow n
theorem isCyclotomic_conj (a : Q12 R) (ha : IsCyclotomic a) : IsCyclotomic (Fq12.conjugate a) := by
  rw [Fq12.conjugate_spec]; exact ha.conj

/-- … under every table-driven Frobenius map (all powers `k`), given the table relations `LawfulFrob` … -/
theorem isCyclotomic_frobenius [TowerConsts R] (L : LawfulFrob R) (a : Q12 R) (ha : IsCyclotomic a) (k : Nat) :
    IsCyclotomic (Fq12.frobenius_map a k) := ha.frobenius_map L k

/-- … and on its invertible members the conjugate is the inverse (the library's GT inversion). -/
theorem isCyclotomic_mul_conj (a b : Q12 R) (ha : IsCyclotomic a) (hab : a * b = 1) : a * Q12.conj a = 1 :=
  ha.mul_conj_eq_one hab

/-- so the fast squaring can be iterated: it is the squaring on every power of an `IsCyclotomic` element. -/
theorem square_cyclotomic_pow (a : Q12 R) (ha : IsCyclotomic a) (n : Nat) :
    Fq12.square_cyclotomic (a ^ n) = a ^ n * a ^ n := Cyclotomic.square_cyclotomic_eq _ (ha.pow n)

/-- meaning of the equations: for a primitive 6th root of unity `h` and σ : w ↦ h·w (the q²-Frobenius of the
library's tower, `Cyclotomic.frobenius_map_two`), `IsCyclotomic a ↔ a · σ²(a) = σ(a)`. -/
theorem isCyclotomic_iff_twist {h : Q2 R} (hh : h ^ 2 - h + 1 = 0) (a : Q12 R) :
    IsCyclotomic a ↔ a * twist (h ^ 2) a = twist h a := Cyclotomic.isCyclotomic_iff_twist hh a

variable [TowerConsts R] [Inv R]

/-- the generated easy-part map in ring notation: `f · f^σ` with `f = conj a · inverse a`. -/
theorem map_to_cyclotomic_def (a : Q12 R) :
    Fq12.map_to_cyclotomic a =
      (Q12.conj a * Fq12.inverse a) * Fq12.frobenius_map (Q12.conj a * Fq12.inverse a) 2 :=
  Cyclotomic.map_to_cyclotomic_def a

/-- every output of `map_to_cyclotomic` on an invertible input is `IsCyclotomic` (four closed table facts). -/
theorem isCyclotomic_map_to_cyclotomic (T : FrobTwoFacts R) (a : Q12 R) (ha : a * Fq12.inverse a = 1) :
    IsCyclotomic (Fq12.map_to_cyclotomic a) := Cyclotomic.isCyclotomic_map_to_cyclotomic T a ha

/-- the easy part is the power `(n⁶ − 1)(n² + 1)` wherever the Frobenius maps are the powers `x ↦ x^(n^k)`. -/
theorem map_to_cyclotomic_eq_pow_generic (n : Nat) (hn : 0 < n)
    (hFrob : ∀ (x : Q12 R) (k : Nat), Fq12.frobenius_map x k = x ^ (n ^ k))
    (a : Q12 R) (hinv : a * Fq12.inverse a = 1) (hconj : Q12.conj a = a ^ (n ^ 6)) :
    Fq12.map_to_cyclotomic a = a ^ ((n ^ 6 - 1) * (n ^ 2 + 1)) :=
  Cyclotomic.map_to_cyclotomic_eq' n hn hFrob a hinv hconj

end Generic

/-! ## B. the concrete tower over `Fq = Fin q` -/

/-- the closed facts about the regenerated tables used below (kernel evaluation). -/
theorem frobenius_tables_two : FrobTwoFacts Fq := Cyclotomic.frobTwoFacts_Fq

/-- **`IsCyclotomic` is the cyclotomic subgroup**: over the concrete Fq12 the Granger–Scott equations say
`a · a^(q⁴) = a^(q²)`, i.e. `a = 0` or `a ^ Φ₁₂(q) = 1` with `Φ₁₂(q) = q⁴ − q² + 1`. -/
theorem fq12_isCyclotomic_iff_pow_eq (a : Fq12) : IsCyclotomic a ↔ a * a ^ (q ^ 4) = a ^ (q ^ 2) :=
  GtCapstone.isCyclotomic_iff_pow_eq a
theorem fq12_isCyclotomic_iff_pow (a : Fq12) : IsCyclotomic a ↔ a = 0 ∨ a ^ (q ^ 4 - q ^ 2 + 1) = 1 :=
  GtCapstone.isCyclotomic_iff_pow a

/-- **the fast squaring is the squaring exactly on the cyclotomic subgroup (and at 0)**. -/
theorem fq12_square_cyclotomic_eq_iff (a : Fq12) :
    Fq12.square_cyclotomic a = a * a ↔ a = 0 ∨ a ^ (q ^ 4 - q ^ 2 + 1) = 1 :=
  GtCapstone.square_cyclotomic_eq_iff_pow a

/-- C04's sentence, squaring half: on every element of the cyclotomic subgroup the fast squaring (both alias
forms) is the ordinary squaring. -/
theorem fq12_square_cyclotomic_on_subgroup (a : Fq12) (ha : a ^ (q ^ 4 - q ^ 2 + 1) = 1) :
    Fq12.square_cyclotomic a = a * a ∧ Fq12.square_cyclotomic_oa a = a * a ∧
      Fq12.square_cyclotomic a = Fq12.square a := by
  have h : IsCyclotomic a := (GtCapstone.isCyclotomic_iff_pow a).2 (Or.inr ha)
  exact ⟨Cyclotomic.square_cyclotomic_eq a h, Cyclotomic.square_cyclotomic_oa_eq a h, square_cyclotomic_eq_square a h⟩

/-- on the cyclotomic subgroup the conjugate is the inverse. -/
theorem fq12_conj_on_subgroup (a : Fq12) (ha : a ^ (q ^ 4 - q ^ 2 + 1) = 1) : Fq12.conjugate a * a = 1 := by
  have h : IsCyclotomic a := (GtCapstone.isCyclotomic_iff_pow a).2 (Or.inr ha)
  have h0 : a ≠ 0 := by
    rintro rfl
    rw [zero_pow (by decide +kernel)] at ha
    exact zero_ne_one ha
  rw [Fq12.conjugate_spec, mul_comm]
  exact h.mul_conj_eq_one (Fq12.mul_inverse a h0)

/-- C04's sentence, mapping half: **`map_to_cyclotomic a = a ^ ((q⁶ − 1)(q² + 1))` for every non-zero `a`** … -/
theorem fq12_map_to_cyclotomic_eq_pow (a : Fq12) (ha : a ≠ 0) :
    Fq12.map_to_cyclotomic a = a ^ ((q ^ 6 - 1) * (q ^ 2 + 1)) :=
  GtCapstone.map_to_cyclotomic_eq_pow a ha
theorem fq12_map_to_cyclotomic_oa_eq_pow (a : Fq12) (ha : a ≠ 0) :
    Fq12.map_to_cyclotomic_oa a = a ^ ((q ^ 6 - 1) * (q ^ 2 + 1)) := by
  rw [Fq12.map_to_cyclotomic_oa_alias]; exact GtCapstone.map_to_cyclotomic_eq_pow a ha
/-- … and `map_to_cyclotomic 0 = 0`. -/
theorem fq12_map_to_cyclotomic_zero : Fq12.map_to_cyclotomic (0 : Fq12) = 0 := GtCapstone.map_to_cyclotomic_zero

/-- its outputs lie in the cyclotomic subgroup, in both senses (`(q⁶ − 1)(q² + 1)·Φ₁₂(q) = q¹² − 1`), so the fast
squaring is exact on them and on all their products and powers. -/
theorem fq12_map_to_cyclotomic_isCyclotomic (a : Fq12) : IsCyclotomic (Fq12.map_to_cyclotomic a) :=
  GtCapstone.isCyclotomic_map_to_cyclotomic_all a
theorem fq12_map_to_cyclotomic_in_subgroup (a : Fq12) (ha : a ≠ 0) :
    Fq12.map_to_cyclotomic a ^ (q ^ 4 - q ^ 2 + 1) = 1 :=
  GtCapstone.map_to_cyclotomic_pow_phi12 a ha
theorem fq12_square_cyclotomic_map_to_cyclotomic (a : Fq12) :
    Fq12.square_cyclotomic (Fq12.map_to_cyclotomic a) = Fq12.map_to_cyclotomic a * Fq12.map_to_cyclotomic a :=
  Cyclotomic.square_cyclotomic_eq _ (GtCapstone.isCyclotomic_map_to_cyclotomic_all a)

/-- the subgroup is stable under every Frobenius map of the concrete tower. -/
theorem fq12_isCyclotomic_frobenius (a : Fq12) (ha : IsCyclotomic a) (k : Nat) :
    IsCyclotomic (Fq12.frobenius_map a k) := ha.frobenius_map lawfulFrobFq k

/-! ### non-vacuity -/

/-- the library's `generator_pairing` is a non-trivial element of the cyclotomic subgroup … -/
example : Cyclotomic.gtGen ^ (q ^ 4 - q ^ 2 + 1) = 1 ∧ Cyclotomic.gtGen ≠ 1 :=
  ⟨GtCapstone.IsGT.pow_phi12 GtCapstone.gtGen_isGT.1, GtCapstone.gtGen_isGT.2⟩

/-- … `sample` is a non-zero element outside it, where the fast squaring is indeed wrong, while its image under
`map_to_cyclotomic` is a non-trivial element of the subgroup. -/
example : Cyclotomic.sample ≠ 0 ∧ ¬ IsCyclotomic Cyclotomic.sample ∧
    Fq12.square_cyclotomic Cyclotomic.sample ≠ Cyclotomic.sample * Cyclotomic.sample ∧
    Fq12.map_to_cyclotomic Cyclotomic.sample ≠ 1 := by decide +kernel

end Jedi.C04
