/-
C17 (layout half) — no struct that the marshalling code overlays on a caller-supplied byte buffer has
an alignment requirement, so no access through such an overlay can be misaligned whatever the buffer's
address or the offset at which the overlay is placed.  Decided completely over the table regenerated
from the marshalling sources on every run (Gen/Layout.lean, both word-size configurations).
-/
import JediVerif.Properties.C19

namespace Jedi.C17
open Jedi.Gen.Layout

theorem overlay_alignment : (∀ r ∈ overlays_cfg64, r.align = 1) ∧ (∀ r ∈ overlays_cfg32, r.align = 1) :=
  ⟨Jedi.C19.overlay_alignment_cfg64, Jedi.C19.overlay_alignment_cfg32⟩

/-- the table really contains the overlays of the secret-key slots, in both forms -/
example : (overlays_cfg64.map (·.name)).contains "wkdibe::FreeSlotMarshalled<true>" = true ∧
          (overlays_cfg64.map (·.name)).contains "wkdibe::FreeSlotMarshalled<false>" = true := by decide

end Jedi.C17
