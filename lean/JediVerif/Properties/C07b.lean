/-
C07 (capstone) — "For every element a of the order-r target group and every 256-bit exponent k (including 0, values at and
above r, and 2^256-1), the fast exponentiation routines return a^k, the fast squaring returns a^2, inversion returns
a^-1, and the combined random-exponentiation routine returns both a uniformly chosen y in [0,r) and exactly a^y."

`Properties/C07.lean` proves these statements for an arbitrary coefficient ring under three NAMED hypotheses on the
element `a` ((H-order), (H-frob), (H-cyc)).  This file discharges them over the concrete field `Fq = Fin q` with the
library's regenerated constant tables: the ONLY remaining hypothesis is membership in the target group,
    `a ^ r = 1`      (`GtCapstone.IsGT a`, written out below; it implies `a ≠ 0`),
and every value returned by the (generated) final exponentiation on a non-zero input satisfies it.

Property theorems only; proofs in `Proofs/GtCapstone.lean`.  Objects: as in `Properties/C07.lean`
(`Impl.exponentiateGt`, `Impl.xadic`, `Driver.xrandModel`, the generated `Fq12.*` routines), `Fq12 = Q12 (Fin q)` with
the Spec's schoolbook ring operations (a field: `instFieldFq12`), `x ^ n` the monoid power, `x⁻¹` the Spec inverse
`Q12.inv`.  `exponentiate_gt_nodiv` is covered in `Properties/C07c.lean`; still not covered: the probabilistic reading of "uniformly
chosen" beyond the bijection `C07.xrand_digits_unique` / `C07.xrand_digits_exist`.
-/
import JediVerif.Proofs.GtCapstone

namespace Jedi.C07
open Jedi Jedi.Impl Jedi.Gen Jedi.Driver
open Jedi.Cyclotomic (IsCyclotomic)

/-! ### 1. the target group GT -/

/-- membership in GT is, by definition, `a ^ r = 1` … -/
theorem isGT_def (a : Fq12) : GtCapstone.IsGT a ↔ a ^ r = 1 := Iff.rfl

/-- … it excludes 0 … -/
theorem gt_ne_zero (a : Fq12) (ha : a ^ r = 1) : a ≠ 0 := GtCapstone.IsGT.ne_zero ha

/-- … and GT is a subgroup of Fq12ˣ: it contains 1 and is closed under products, powers, conjugation
(= inversion, see §4), the general inversion and all Frobenius maps. -/
theorem gt_one : (1 : Fq12) ^ r = 1 := GtCapstone.isGT_one
theorem gt_mul (a b : Fq12) (ha : a ^ r = 1) (hb : b ^ r = 1) : (a * b) ^ r = 1 := GtCapstone.IsGT.mul ha hb
theorem gt_pow (a : Fq12) (ha : a ^ r = 1) (n : Nat) : (a ^ n) ^ r = 1 := GtCapstone.IsGT.pow ha n
theorem gt_conj (a : Fq12) (ha : a ^ r = 1) : Fq12.conjugate a ^ r = 1 := GtCapstone.IsGT.conjugate ha
theorem gt_inverse (a : Fq12) (ha : a ^ r = 1) : Fq12.inverse a ^ r = 1 := GtCapstone.IsGT.inverse ha
theorem gt_frobenius (a : Fq12) (ha : a ^ r = 1) (k : Nat) : Fq12.frobenius_map a k ^ r = 1 :=
  GtCapstone.IsGT.frobenius_map ha k

/-- `r` divides `Φ₁₂(q) = q⁴ − q² + 1` (closed fact, kernel arithmetic), so GT lies in the cyclotomic subgroup … -/
theorem r_dvd_phi12 : (q ^ 4 - q ^ 2 + 1) % r = 0 := GtCapstone.r_dvd_phi12
theorem gt_pow_phi12 (a : Fq12) (ha : a ^ r = 1) : a ^ (q ^ 4 - q ^ 2 + 1) = 1 := GtCapstone.IsGT.pow_phi12 ha

/-- … hence every GT element satisfies the Granger–Scott equations `IsCyclotomic` (the weakest hypothesis under which
the fast squaring is correct, `Properties/C04c.lean`) and is unitary. -/
theorem gt_isCyclotomic (a : Fq12) (ha : a ^ r = 1) : IsCyclotomic a := GtCapstone.IsGT.isCyclotomic ha
theorem gt_unitary (a : Fq12) (ha : a ^ r = 1) : a * Q12.conj a = 1 := GtCapstone.IsGT.mul_conj ha

/-- the named hypotheses (H-frob) and (H-cyc) of `Properties/C07.lean` hold for every GT element. -/
theorem gt_H_frob (a : Fq12) (ha : a ^ r = 1) : ∀ j < 4, GtExp.gtTable a j = a ^ (blsX ^ j) :=
  GtCapstone.IsGT.gtTable ha
theorem gt_H_cyc (a : Fq12) (ha : a ^ r = 1) (n : Nat) : Fq12.square_cyclotomic_oa (a ^ n) = a ^ n * a ^ n :=
  GtCapstone.IsGT.square_cyclotomic_pow ha n

/-! ### 2. every pairing value is a GT element -/

/-- the generated final exponentiation is the power `3·(q¹²−1)/r` on every non-zero element of Fq12 … -/
theorem final_exponentiation_eq_pow (f : Fq12) (hf : f ≠ 0) :
    final_exponentiation f = f ^ (3 * ((q ^ 12 - 1) / r)) :=
  GtCapstone.final_exponentiation_eq_pow_Fq f hf

/-- … so **every output of the final exponentiation on a non-zero input is in GT** (both alias forms), and only
those: on 0 the chain returns 0. -/
theorem final_exponentiation_in_gt (f : Fq12) (hf : f ≠ 0) : final_exponentiation f ^ r = 1 :=
  GtCapstone.final_exponentiation_isGT f hf
theorem final_exponentiation_oa_in_gt (f : Fq12) (hf : f ≠ 0) : final_exponentiation_oa f ^ r = 1 :=
  GtCapstone.final_exponentiation_oa_isGT f hf
theorem final_exponentiation_in_gt_iff (f : Fq12) : final_exponentiation f ^ r = 1 ↔ f ≠ 0 :=
  GtCapstone.final_exponentiation_isGT_iff f

/-- Every pairing value whose Miller value is non-zero is in GT: `pairing`, `pairing` with a prepared G2 point, and the
pairing-product routine.  (Non-vanishing of the Miller value for points of prime order is part of C01.) -/
theorem pairing_in_gt (g1 : Aff Fq) (g2 : Aff Fq2) (h : millerLoop [(g1, g2)] [] ≠ 0) : pairing g1 g2 ^ r = 1 :=
  GtCapstone.pairing_isGT g1 g2 h
theorem pairing_prepared_in_gt (g1 : Aff Fq) (g2 : Prepared Fq) (h : millerLoop [] [(g1, g2)] ≠ 0) :
    pairingPrepared g1 g2 ^ r = 1 :=
  GtCapstone.pairingPrepared_isGT g1 g2 h
theorem pairing_product_in_gt (as : List (Aff Fq × Aff Fq2)) (ps : List (Aff Fq × Prepared Fq))
    (h : millerLoop as ps ≠ 0) : pairingProduct as ps ^ r = 1 :=
  GtCapstone.pairingProduct_isGT as ps h

/-! ### 3. exponentiation -/

/-- **`exponentiate_gt_div` returns `a ^ k` for every GT element `a` and every 256-bit `k`** (0, `k ≥ r`, `2^256 − 1`
included).  No hypothesis beyond membership in GT. -/
theorem gt_exponentiation_exact (a : Fq12) (ha : a ^ r = 1) (k : Nat) (hk : k < 2 ^ 256) :
    exponentiateGt a (xadic k) = a ^ k :=
  GtCapstone.gt_exponentiation_exact a ha k hk

/-- … which is `a ^ (k mod r)`. -/
theorem gt_exponentiation_exact_mod (a : Fq12) (ha : a ^ r = 1) (k : Nat) (hk : k < 2 ^ 256) :
    exponentiateGt a (xadic k) = a ^ (k % r) :=
  GtCapstone.gt_exponentiation_exact_mod a ha k hk

/-- the loop on an arbitrary vector of 64-bit digits (what `exponentiate_gt(a, PowersOfX)` is given). -/
theorem gt_exponentiation_digits_exact (a : Fq12) (ha : a ^ r = 1) (c : List Nat)
    (hc : ∀ j < 4, c.getD j 0 < 2 ^ 64) : exponentiateGt a c = a ^ xadicVal c :=
  GtCapstone.gt_exponentiation_digits_exact a ha c hc

/-- the result stays in GT. -/
theorem gt_exponentiation_in_gt (a : Fq12) (ha : a ^ r = 1) (k : Nat) (hk : k < 2 ^ 256) :
    exponentiateGt a (xadic k) ^ r = 1 :=
  GtCapstone.gt_exponentiation_isGT a ha k hk

/-- **`random_gt`**: for every byte stream the exponent returned is below `r` and the element returned is exactly
`a ^ y`, for every GT element `a`. -/
theorem gt_rand_exact (a : Fq12) (ha : a ^ r = 1) (fuel : Nat) (s : RS) :
    (xrandModel fuel s).1 < r ∧ exponentiateGt a (xrandModel fuel s).2.1 = a ^ (xrandModel fuel s).1 :=
  GtCapstone.gt_rand_exact a ha fuel s

/-! ### 4. squaring and inversion -/

/-- **the fast squaring (`gt_double`) returns `a²` on GT**, both alias forms, i.e. what the generic `Fq12::square`
returns. -/
theorem gt_square_exact (a : Fq12) (ha : a ^ r = 1) :
    Fq12.square_cyclotomic_oa a = a * a ∧ Fq12.square_cyclotomic a = a * a ∧
      Fq12.square_cyclotomic a = Fq12.square a :=
  GtCapstone.gt_square_exact a ha

/-- **inversion on GT**: the conjugate is the inverse; the general `Fq12::inverse` (called by `gt_negate`) returns the
same element; it is the inverse of the field Fq12 and the power `a ^ (r − 1)`. -/
theorem gt_inverse_exact (a : Fq12) (ha : a ^ r = 1) :
    Fq12.conjugate a * a = 1 ∧ Fq12.inverse a = Fq12.conjugate a ∧ Fq12.conjugate a = a⁻¹ ∧
      Fq12.conjugate a = a ^ (r - 1) :=
  GtCapstone.gt_inverse_exact a ha

/-! ### non-vacuity -/

/-- GT is non-trivial: it contains the library's exported `generator_pairing ≠ 1` (kernel evaluation) … -/
theorem generator_pairing_in_gt : Cyclotomic.gtGen ^ r = 1 ∧ Cyclotomic.gtGen ≠ 1 := GtCapstone.gtGen_isGT

/-- … so the theorems above apply to it, e.g. for the largest 256-bit exponent … -/
example : exponentiateGt Cyclotomic.gtGen (xadic (2 ^ 256 - 1)) = Cyclotomic.gtGen ^ ((2 ^ 256 - 1) % r) :=
  gt_exponentiation_exact_mod _ generator_pairing_in_gt.1 _ (by decide)

/-- … and to the final exponentiation of an arbitrary non-zero element of Fq12. -/
example : final_exponentiation Cyclotomic.sample ^ r = 1 := final_exponentiation_in_gt _ (by decide +kernel)

/-- membership in GT is a genuine restriction (so is the hypothesis of `gt_square_exact`). -/
example : Cyclotomic.sample ^ r ≠ 1 ∧ Fq12.square_cyclotomic Cyclotomic.sample ≠ Cyclotomic.sample * Cyclotomic.sample := by
  refine ⟨?_, by decide +kernel⟩
  rw [← npow_eq_pow]; decide +kernel

end Jedi.C07
