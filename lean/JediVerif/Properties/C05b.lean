/-
C05b — the point arithmetic of C05 is the ABELIAN GROUP LAW of the elliptic curve.

C05 shows that the generated Jacobian code of `/repo/include/bls12_381/curve.hpp` (`Proj.add`, `Proj.multiply2`,
`Proj.negate`, … and the Fq2 instantiation `Proj2.*`) computes the textbook affine chord-and-tangent operations
`Pt.add` / `Pt.dbl` / `Pt.neg` of Spec/Curve.lean.  Here: those operations, restricted to the points of
y² = x³ + b (b ≠ 0, characteristic ≠ 2, 3 — i.e. the curve is nonsingular), are the group law of the elliptic curve, by an
explicit bijection (`Jedi.toPoint` / `Jedi.ofPoint`, Proofs/CurveGroup.lean) with Mathlib's
`WeierstrassCurve.Affine.Point` of the curve a₁ = a₂ = a₃ = a₄ = 0, a₆ = b that carries `Pt.add ↦ +`, `Pt.neg ↦ −`,
`.inf ↦ 0`, `Pt.dbl ↦ 2 • ·`, `Pt.smul n ↦ n • ·`.  Mathlib's `AddCommGroup` instance (associativity via the ideal class
group of the coordinate ring) gives:

* (1) `spec_group_iso`: the dictionary itself;
* (2) associativity, commutativity, neutral element, inverse for `Pt.add` on curve points;
* (3) `Pt.smul` (binary double-and-add) is repeated addition, additive and multiplicative in the scalar;
* (4) the same laws for the implementation's Jacobian arithmetic read through `Pt.ofJac` (generic field, and the Fq2
  instantiation with the Spec operations on `Q2 R`);
* (5) the BLS12-381 instances (b = 4 over Fq, b = 4(1+u) over Fq2) and, for points of order r:
  `[m]P = [n]P ↔ m ≡ n (mod r)`.

No hypothesis excludes an exceptional case (∞, equal, opposite operands): all statements are for all curve points.
The curve hypothesis cannot be dropped: off the curve the chord-and-tangent formulas are not associative
(`not_assoc_off_curve`).
-/
import JediVerif.Properties.C05
import JediVerif.Proofs.CurveGroup
import JediVerif.Proofs.OrderR

set_option linter.unusedSectionVars false
set_option linter.unusedVariables false
namespace Jedi.C05
open Jedi Jedi.Gen

section Generic
variable {K : Type} [Field K] [DecidableEq K] {b : K}
variable (h2 : (2 : K) ≠ 0) (h3 : (3 : K) ≠ 0) (hb : b ≠ 0)
include h2 h3 hb

/-! #### (1) the Spec's curve points with `Pt.add`, `Pt.neg`, `.inf`, `Pt.smul` ARE Mathlib's elliptic-curve group -/
/-- There is a bijection between the Spec's points of y² = x³ + b and the Mathlib group
`(W b).Point` (`W b` : a₁ = a₂ = a₃ = a₄ = 0, a₆ = b) which maps ∞ to 0 and carries `Pt.add`, `Pt.neg`, `Pt.dbl`,
`Pt.smul n` to `+`, `−`, `2 • ·`, `n • ·`. -/
theorem spec_group_iso :
    ∃ e : {P : Pt K // Pt.isOnCurve b P = true} ≃ (W b).Point,
      e ⟨Pt.inf, rfl⟩ = 0 ∧
      (∀ P Q, e ⟨Pt.add P.1 Q.1, Pt.add_isOnCurve h2 P.2 Q.2⟩ = e P + e Q) ∧
      (∀ P, e ⟨Pt.neg P.1, Pt.neg_isOnCurve P.2⟩ = -e P) ∧
      (∀ P, e ⟨Pt.dbl P.1, Pt.dbl_isOnCurve h2 P.2⟩ = 2 • e P) ∧
      (∀ (n : Nat) P, e ⟨Pt.smul n P.1, Pt.smul_isOnCurve h2 P.2 n⟩ = n • e P) :=
  have hc : CurveHyp b := ⟨h2, h3, hb⟩
  ⟨pointEquiv hc, rfl, fun P Q => toPoint_add hc P.2 Q.2 _, fun P => toPoint_neg hc P.2 _,
    fun P => toPoint_dbl hc P.2 _, fun n P => toPoint_smul hc P.2 n _⟩

/-! #### (2) group axioms for the Spec law on curve points -/
variable {P Q R : Pt K}

/-- associativity — for all curve points, including ∞, equal and opposite operands. -/
theorem spec_add_assoc (hP : Pt.isOnCurve b P = true) (hQ : Pt.isOnCurve b Q = true)
    (hR : Pt.isOnCurve b R = true) : Pt.add (Pt.add P Q) R = Pt.add P (Pt.add Q R) :=
  Pt.add_assoc' ⟨h2, h3, hb⟩ hP hQ hR

/-- commutativity. -/
theorem spec_add_comm (hP : Pt.isOnCurve b P = true) (hQ : Pt.isOnCurve b Q = true) :
    Pt.add P Q = Pt.add Q P := Pt.add_comm' ⟨h2, h3, hb⟩ hP hQ

omit h2 h3 hb in
/-- ∞ is neutral (no hypothesis at all). -/
theorem spec_add_inf (P : Pt K) : Pt.add P Pt.inf = P ∧ Pt.add Pt.inf P = P :=
  ⟨Pt.add_inf P, Pt.inf_add P⟩

/-- `Pt.neg` is the inverse, on both sides. -/
theorem spec_add_neg (hP : Pt.isOnCurve b P = true) :
    Pt.add P (Pt.neg P) = Pt.inf ∧ Pt.add (Pt.neg P) P = Pt.inf :=
  ⟨Pt.add_neg_self P, Pt.neg_add_self' ⟨h2, h3, hb⟩ hP⟩

omit h2 h3 hb in
/-- doubling is adding a point to itself (no hypothesis). -/
theorem spec_dbl_eq_add (P : Pt K) : Pt.dbl P = Pt.add P P := (Pt.add_self P).symm

/-! #### (3) scalar multiplication (binary double-and-add in the Spec) is repeated addition -/
omit h2 h3 hb in
theorem spec_smul_zero (P : Pt K) : Pt.smul 0 P = Pt.inf := by rw [Pt.smul]

theorem spec_smul_succ (hP : Pt.isOnCurve b P = true) (n : Nat) :
    Pt.smul (n + 1) P = Pt.add (Pt.smul n P) P := Pt.smul_succ' ⟨h2, h3, hb⟩ hP n

theorem spec_smul_one (hP : Pt.isOnCurve b P = true) : Pt.smul 1 P = P :=
  Pt.smul_one' ⟨h2, h3, hb⟩ hP

theorem spec_smul_add (hP : Pt.isOnCurve b P = true) (m n : Nat) :
    Pt.smul (m + n) P = Pt.add (Pt.smul m P) (Pt.smul n P) := Pt.smul_add' ⟨h2, h3, hb⟩ hP m n

theorem spec_smul_mul (hP : Pt.isOnCurve b P = true) (m n : Nat) :
    Pt.smul (m * n) P = Pt.smul m (Pt.smul n P) := Pt.smul_mul' ⟨h2, h3, hb⟩ hP m n

theorem spec_smul_neg (hP : Pt.isOnCurve b P = true) (n : Nat) :
    Pt.smul n (Pt.neg P) = Pt.neg (Pt.smul n P) := Pt.smul_neg' ⟨h2, h3, hb⟩ hP n

/-- `[n](P + Q) = [n]P + [n]Q`. -/
theorem spec_smul_add_points (hP : Pt.isOnCurve b P = true) (hQ : Pt.isOnCurve b Q = true) (n : Nat) :
    Pt.smul n (Pt.add P Q) = Pt.add (Pt.smul n P) (Pt.smul n Q) := by
  have hc : CurveHyp b := ⟨h2, h3, hb⟩
  have hPQ := Pt.add_isOnCurve h2 hP hQ
  have hnP := Pt.smul_isOnCurve h2 hP n
  have hnQ := Pt.smul_isOnCurve h2 hQ n
  refine toPoint_injective hc (hP := Pt.smul_isOnCurve h2 hPQ n)
    (hQ := Pt.add_isOnCurve h2 hnP hnQ) ?_
  rw [toPoint_smul hc hPQ, toPoint_add hc hP hQ, toPoint_add hc hnP hnQ, toPoint_smul hc hP,
    toPoint_smul hc hQ, nsmul_add]

/-! #### (4) the implementation's Jacobian arithmetic (via C05) obeys the group laws, read through `Pt.ofJac` -/
variable {p q s : Jac K}

theorem impl_add_assoc (hp : OnCurveJ b p) (hq : OnCurveJ b q) (hs : OnCurveJ b s) :
    Pt.ofJac (Proj.add (Proj.add p q) s) = Pt.ofJac (Proj.add p (Proj.add q s)) := by
  rw [add_correct' h2 (onCurve_add h2 hp hq) hs, add_correct' h2 hp hq,
    add_correct' h2 hp (onCurve_add h2 hq hs), add_correct' h2 hq hs]
  exact spec_add_assoc h2 h3 hb ((Jedi.onCurveJ_iff b p).mp hp) ((Jedi.onCurveJ_iff b q).mp hq)
    ((Jedi.onCurveJ_iff b s).mp hs)

theorem impl_add_comm (hp : OnCurveJ b p) (hq : OnCurveJ b q) :
    Pt.ofJac (Proj.add p q) = Pt.ofJac (Proj.add q p) := by
  rw [add_correct' h2 hp hq, add_correct' h2 hq hp]
  exact spec_add_comm h2 h3 hb ((Jedi.onCurveJ_iff b p).mp hp) ((Jedi.onCurveJ_iff b q).mp hq)

/-- in `Proj.equal` form (the C++ comparison). -/
theorem impl_add_assoc_equal (hp : OnCurveJ b p) (hq : OnCurveJ b q) (hs : OnCurveJ b s) :
    Proj.equal (Proj.add (Proj.add p q) s) (Proj.add p (Proj.add q s)) = true :=
  (equal_iff' _ _).mpr (impl_add_assoc h2 h3 hb hp hq hs)

theorem impl_add_comm_equal (hp : OnCurveJ b p) (hq : OnCurveJ b q) :
    Proj.equal (Proj.add p q) (Proj.add q p) = true :=
  (equal_iff' _ _).mpr (impl_add_comm h2 h3 hb hp hq)

/-- p + (−p) = 0 = (−p) + p in the implementation. -/
theorem impl_add_negate (hp : OnCurveJ b p) :
    Proj.is_zero (Proj.add p (Proj.negate p)) = true ∧
      Proj.is_zero (Proj.add (Proj.negate p) p) = true := by
  have hpn := onCurve_negate hp
  have hP := (Jedi.onCurveJ_iff b p).mp hp
  rw [is_zero_iff', is_zero_iff', add_correct' h2 hp hpn, add_correct' h2 hpn hp, neg_correct']
  exact spec_add_neg h2 h3 hb hP

/-- `multiply2` is `add` with itself, up to representation. -/
theorem impl_multiply2_eq_add (hp : OnCurveJ b p) :
    Pt.ofJac (Proj.multiply2 p) = Pt.ofJac (Proj.add p p) := by
  rw [dbl_correct' h2, add_correct' h2 hp hp, Pt.add_self]

end Generic

/-! #### (4b) the Fq2 instantiation `Proj2.*`, in terms of the Spec operations on `Q2 R` -/
section Fq2
variable {R : Type} [Field R] [DecidableEq R]
variable (hnr : ∀ x y : R, x * x + y * y = 0 → x = 0 ∧ y = 0) (h2 : (2 : R) ≠ 0) (h3 : (3 : R) ≠ 0)
variable {b : Q2 R} (hb : b ≠ 0)
include hnr h2 h3 hb

theorem fq2_spec_add_assoc {P Q S : Pt (Q2 R)} (hP : Pt.isOnCurve b P = true)
    (hQ : Pt.isOnCurve b Q = true) (hS : Pt.isOnCurve b S = true) :
    Pt.add (Pt.add P Q) S = Pt.add P (Pt.add Q S) := by
  let _ := Q2.instField hnr
  exact Pt.add_assoc' (Q2.curveHyp hnr h2 h3 hb) hP hQ hS

theorem fq2_spec_add_comm {P Q : Pt (Q2 R)} (hP : Pt.isOnCurve b P = true)
    (hQ : Pt.isOnCurve b Q = true) : Pt.add P Q = Pt.add Q P := by
  let _ := Q2.instField hnr
  exact Pt.add_comm' (Q2.curveHyp hnr h2 h3 hb) hP hQ

theorem fq2_spec_smul_add {P : Pt (Q2 R)} (hP : Pt.isOnCurve b P = true) (m n : Nat) :
    Pt.smul (m + n) P = Pt.add (Pt.smul m P) (Pt.smul n P) := by
  let _ := Q2.instField hnr
  exact Pt.smul_add' (Q2.curveHyp hnr h2 h3 hb) hP m n

theorem fq2_spec_smul_mul {P : Pt (Q2 R)} (hP : Pt.isOnCurve b P = true) (m n : Nat) :
    Pt.smul (m * n) P = Pt.smul m (Pt.smul n P) := by
  let _ := Q2.instField hnr
  exact Pt.smul_mul' (Q2.curveHyp hnr h2 h3 hb) hP m n

theorem fq2_spec_smul_succ {P : Pt (Q2 R)} (hP : Pt.isOnCurve b P = true) (n : Nat) :
    Pt.smul (n + 1) P = Pt.add (Pt.smul n P) P := by
  let _ := Q2.instField hnr
  exact Pt.smul_succ' (Q2.curveHyp hnr h2 h3 hb) hP n

theorem fq2_impl_add_assoc {p q s : Jac (Q2 R)} (hp : Pt.isOnCurve b (Pt.ofJac p) = true)
    (hq : Pt.isOnCurve b (Pt.ofJac q) = true) (hs : Pt.isOnCurve b (Pt.ofJac s) = true) :
    Pt.ofJac (Proj2.add (Proj2.add p q) s) = Pt.ofJac (Proj2.add p (Proj2.add q s)) := by
  rw [fq2_add_correct' hnr h2 (fq2_onCurve_add hnr h2 hp hq) hs, fq2_add_correct' hnr h2 hp hq,
    fq2_add_correct' hnr h2 hp (fq2_onCurve_add hnr h2 hq hs), fq2_add_correct' hnr h2 hq hs]
  exact fq2_spec_add_assoc hnr h2 h3 hb hp hq hs

theorem fq2_impl_add_comm {p q : Jac (Q2 R)} (hp : Pt.isOnCurve b (Pt.ofJac p) = true)
    (hq : Pt.isOnCurve b (Pt.ofJac q) = true) :
    Pt.ofJac (Proj2.add p q) = Pt.ofJac (Proj2.add q p) := by
  rw [fq2_add_correct' hnr h2 hp hq, fq2_add_correct' hnr h2 hq hp]
  exact fq2_spec_add_comm hnr h2 h3 hb hp hq

end Fq2

/-! #### (5) BLS12-381: E(Fq): y² = x³ + 4 and the twist E'(Fq2): y² = x³ + 4(1+u) -/
section BLS

theorem g1_add_assoc {P Q R : G1Pt} (hP : Pt.isOnCurve g1B P = true) (hQ : Pt.isOnCurve g1B Q = true)
    (hR : Pt.isOnCurve g1B R = true) : Pt.add (Pt.add P Q) R = Pt.add P (Pt.add Q R) :=
  Pt.add_assoc' curveHyp_g1 hP hQ hR

theorem g1_add_comm {P Q : G1Pt} (hP : Pt.isOnCurve g1B P = true) (hQ : Pt.isOnCurve g1B Q = true) :
    Pt.add P Q = Pt.add Q P := Pt.add_comm' curveHyp_g1 hP hQ

theorem g1_smul_add {P : G1Pt} (hP : Pt.isOnCurve g1B P = true) (m n : Nat) :
    Pt.smul (m + n) P = Pt.add (Pt.smul m P) (Pt.smul n P) := Pt.smul_add' curveHyp_g1 hP m n

theorem g1_smul_mul {P : G1Pt} (hP : Pt.isOnCurve g1B P = true) (m n : Nat) :
    Pt.smul (m * n) P = Pt.smul m (Pt.smul n P) := Pt.smul_mul' curveHyp_g1 hP m n

theorem g2_add_assoc {P Q R : G2Pt} (hP : Pt.isOnCurve g2B P = true) (hQ : Pt.isOnCurve g2B Q = true)
    (hR : Pt.isOnCurve g2B R = true) : Pt.add (Pt.add P Q) R = Pt.add P (Pt.add Q R) :=
  Pt.add_assoc' curveHyp_g2 hP hQ hR

theorem g2_add_comm {P Q : G2Pt} (hP : Pt.isOnCurve g2B P = true) (hQ : Pt.isOnCurve g2B Q = true) :
    Pt.add P Q = Pt.add Q P := Pt.add_comm' curveHyp_g2 hP hQ

theorem g2_smul_add {P : G2Pt} (hP : Pt.isOnCurve g2B P = true) (m n : Nat) :
    Pt.smul (m + n) P = Pt.add (Pt.smul m P) (Pt.smul n P) := Pt.smul_add' curveHyp_g2 hP m n

theorem g2_smul_mul {P : G2Pt} (hP : Pt.isOnCurve g2B P = true) (m n : Nat) :
    Pt.smul (m * n) P = Pt.smul m (Pt.smul n P) := Pt.smul_mul' curveHyp_g2 hP m n

/-- the r-torsion test of the Spec (`inSubgroup`) defines a subgroup: closed under `Pt.add` and `Pt.neg`. -/
theorem g1_inSubgroup_add {P Q : G1Pt} (hP : Pt.isOnCurve g1B P = true) (hQ : Pt.isOnCurve g1B Q = true)
    (sP : Pt.smul r P = .inf) (sQ : Pt.smul r Q = .inf) : Pt.smul r (Pt.add P Q) = .inf := by
  rw [spec_smul_add_points curveHyp_g1.two curveHyp_g1.three curveHyp_g1.bne hP hQ, sP, sQ]; rfl

theorem g2_inSubgroup_add {P Q : G2Pt} (hP : Pt.isOnCurve g2B P = true) (hQ : Pt.isOnCurve g2B Q = true)
    (sP : Pt.smul r P = .inf) (sQ : Pt.smul r Q = .inf) : Pt.smul r (Pt.add P Q) = .inf := by
  rw [spec_smul_add_points curveHyp_g2.two curveHyp_g2.three curveHyp_g2.bne hP hQ, sP, sQ]; rfl

/-- multiples of a point of order r in G1 depend only on the scalar mod r (so scalars live in `Fr`). -/
theorem g1_smul_eq_iff {P : G1Pt} (hP : Pt.isOnCurve g1B P = true) (hne : P ≠ .inf)
    (hr : Pt.smul r P = .inf) (m n : Nat) : Pt.smul m P = Pt.smul n P ↔ m ≡ n [MOD r] :=
  smul_eq_smul_iff curveHyp_g1 r_prime hP hne hr m n

theorem g2_smul_eq_iff {P : G2Pt} (hP : Pt.isOnCurve g2B P = true) (hne : P ≠ .inf)
    (hr : Pt.smul r P = .inf) (m n : Nat) : Pt.smul m P = Pt.smul n P ↔ m ≡ n [MOD r] :=
  smul_eq_smul_iff curveHyp_g2 r_prime hP hne hr m n

end BLS

/-! #### non-vacuity and necessity of the curve hypothesis -/
section NonVacuity
/-- y² = x³ + 3 over ℚ, P = (1, 2), 2P = (−23/16, −11/64): (P + P) + 2P = P + (P + 2P), each side computed by
different branches (tangent/chord). -/
example : Pt.add (Pt.add (Pt.aff (1 : ℚ) 2) (Pt.aff 1 2)) (Pt.aff (-23 / 16) (-11 / 64)) =
    Pt.add (Pt.aff 1 2) (Pt.add (Pt.aff 1 2) (Pt.aff (-23 / 16) (-11 / 64))) :=
  spec_add_assoc (b := 3) (by norm_num) (by norm_num) (by norm_num) (by decide +kernel)
    (by decide +kernel) (by decide +kernel)
example : Pt.add (Pt.aff (1 : ℚ) 2) (Pt.aff 1 2) ≠ Pt.inf := by decide +kernel

/-- off the curve the chord-and-tangent formulas are NOT associative: the curve hypotheses are needed.
(ℚ, P = (0,1), Q = (1,1), R = (2,3); no single b puts all three on y² = x³ + b.) -/
theorem not_assoc_off_curve :
    Pt.add (Pt.add (Pt.aff (0 : ℚ) 1) (Pt.aff 1 1)) (Pt.aff 2 3) ≠
      Pt.add (Pt.aff 0 1) (Pt.add (Pt.aff 1 1) (Pt.aff 2 3)) := by decide +kernel

/-- the generators of G1 and G2 satisfy the hypotheses of (5). -/
example (m n : Nat) : Pt.smul m g2Gen = Pt.smul n g2Gen ↔ m ≡ n [MOD r] :=
  g2_smul_eq_iff g2Gen_isOnCurve (fun h => by cases h) g2Gen_smul_r m n
end NonVacuity

end Jedi.C05
