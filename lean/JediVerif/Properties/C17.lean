/-
C17 — unmarshalling never reads outside the buffer.

The readers of src/wkdibe/marshal.cpp first call `unmarshalledLength(buffer_length)` (`unLen`,
include/wkdibe/api.hpp; `none` = −1 = refuse) to discover the number l of slots and then consume
`getMarshalledLength(l)` bytes (`paramsLen` / `keyLen`).  The theorems say that this is the same
number as the buffer length, for EVERY length n and every first byte, so nothing beyond the buffer
is touched and nothing is left over; short buffers are refused.
Property theorems only (proofs in `Proofs/MarshalProofs.lean`).
-/
import JediVerif.Proofs.MarshalProofs

namespace Jedi.C17
open Jedi Jedi.Impl

/-- whenever length discovery accepts a buffer of n bytes, the reader consumes exactly n bytes. -/
theorem reads_in_bounds {isParams comp : Bool} {fb n l : Nat} (h : unLen isParams comp fb n = some l) :
    (if isParams then paramsLen comp l (fb != 0) else keyLen comp l (fb != 0)) = n := by
  cases isParams
  · exact Impl.unLen_some_key h
  · exact Impl.unLen_some_params h

/-- … and it accepts exactly the lengths of well-formed objects (params). -/
theorem unLen_params_iff (comp : Bool) (fb n l : Nat) :
    unLen true comp fb n = some l ↔ paramsLen comp l (fb != 0) = n := Impl.unLen_params_iff comp fb n l

/-- … (secret keys). -/
theorem unLen_key_iff (comp : Bool) (fb n l : Nat) :
    unLen false comp fb n = some l ↔ keyLen comp l (fb != 0) = n := Impl.unLen_key_iff comp fb n l

/-- buffers shorter than the object without slots are refused (in particular the fixed header
fields g, g1, g2, g3, … are never read from a short buffer). -/
theorem unLen_none_below_min {isParams comp : Bool} {fb n : Nat}
    (h : n < (if isParams then paramsLen comp 0 (fb != 0) else keyLen comp 0 (fb != 0))) :
    unLen isParams comp fb n = none := by
  cases isParams
  · exact Impl.unLen_none_key h
  · exact Impl.unLen_none_params h

/-- the one byte that is inspected before the length is known exists as soon as anything is accepted. -/
theorem accepted_nonempty {isParams comp : Bool} {fb n l : Nat} (h : unLen isParams comp fb n = some l) :
    1 ≤ n := by
  have := reads_in_bounds h
  cases isParams <;> simp [paramsLen, keyLen] at this <;> omega

/-- every offset the reader uses lies inside the buffer: the end of slot i (0-based, i < l) of a key
is at most n. -/
theorem key_slot_end_le {comp : Bool} {fb n l i : Nat} (h : unLen false comp fb n = some l) (hi : i < l) :
    keyLen comp (i + 1) (fb != 0) ≤ n := by
  rw [← Impl.unLen_some_key h]
  unfold keyLen
  have : (i + 1) * (4 + g1Size comp) ≤ l * (4 + g1Size comp) := Nat.mul_le_mul_right _ hi
  omega

theorem params_slot_end_le {comp : Bool} {fb n l i : Nat} (h : unLen true comp fb n = some l) (hi : i < l) :
    paramsLen comp (i + 1) (fb != 0) ≤ n := by
  rw [← Impl.unLen_some_params h]
  unfold paramsLen
  have : ((if (fb != 0) = true then 1 else 0) + (i + 1)) * g1Size comp ≤
      ((if (fb != 0) = true then 1 else 0) + l) * g1Size comp := Nat.mul_le_mul_right _ (by omega)
  omega

/-! non-vacuity: accepted and refused lengths -/
example : keyLen true 2 true = 297 := by decide
example : unLen false true 1 297 = some 2 := by decide
example : unLen false true 1 301 = none := by decide
example : unLen false true 1 192 = none := by decide
example : unLen true false 0 1152 = none := by decide
example : unLen true false 0 1153 = some 0 := by decide
example : unLen true false 0 1249 = some 1 := by decide

end Jedi.C17
