/-
C14 on the concrete BLS12-381 groups — incremental and precomputed paths equal recomputation (real curve operations).

Raw-level versions of Properties/C14.lean: `adjustPrecomputed`, `adjustNondelegable`, `ndQualifykey` run with `Driver.g1Ops`
(`Pt.add`, Jacobian `Pt.smulFast`) on raw points.  No pairing hypothesis at all; the only hypotheses are membership of the
inputs in the groups (`ParamsIn` for the parameters, `KeyIn` for an arbitrary parent key, `InTors` for the master key).
-/
import JediVerif.Proofs.ConcreteGroups
import JediVerif.Properties.C14

namespace Jedi.C14b
open Jedi Jedi.Wk Jedi.Driver

variable {pp : RawParams} {g2alpha : G1Pt}

/-- `adjust_precomputed` from list A to list B equals `precompute` of B, with the real operations: for ALL lists and ALL
identifier values (also ≥ r). -/
theorem adjustPrecomputed_eq (hin : ParamsIn pp) (from_ to_ : AttrList) :
    adjustPrecomputed g1Ops pp (precompute g1Ops pp from_) from_ to_ = precompute g1Ops pp to_ := by
  rw [precompute_val hin, adjustPrecomputed_val hin, precompute_val hin,
    C14.adjustPrecomputed_eq g1OpsC_lawful G1c.expR hin.lift from_ to_]

/-- `adjust_nondelegable(nondelegable_qualifykey(parent, A), parent, A, B) = nondelegable_qualifykey(parent, B)`, component
for component, for EVERY parent key with components in the groups whose free-slot list is strictly ascending with indices
below l, and all well-formed A, B. -/
theorem adjustNd_eq (parent : RawKey) (hk : KeyIn parent) (l : Nat)
    (hasc : parent.b.Pairwise (fun p q => p.1 < q.1)) (hlt : ∀ p ∈ parent.b, p.1 < l)
    (from_ to_ : AttrList) (hf : from_.wellFormed l = true) (ht : to_.wellFormed l = true) :
    adjustNondelegable g1Ops (ndQualifykey g1Ops l parent from_) parent from_ to_ = ndQualifykey g1Ops l parent to_ := by
  have e := hk.lift_map
  have hasc' : hk.lift.b.Pairwise (fun p q => p.1 < q.1) := by
    have : (mapB Subtype.val hk.lift.b).Pairwise (fun p q => p.1 < q.1) := by
      have e' := congrArg SecretKey.b e
      simp only [SecretKey.map] at e'
      rw [e']; exact hasc
    simp only [mapB, List.pairwise_map] at this
    exact this
  have hlt' : ∀ p ∈ hk.lift.b, p.1 < l := by
    intro p hp
    have e' := congrArg SecretKey.b e
    simp only [SecretKey.map] at e'
    refine hlt (p.1, p.2.1) ?_
    rw [← e']; simp only [mapB, List.mem_map]; exact ⟨p, hp, rfl⟩
  rw [← e, ndQualifykey_val, adjustNondelegable_val, ndQualifykey_val,
    C14.adjustNd_eq g1OpsC_lawful G1c.expR hk.lift l hasc' hlt' from_ to_ hf ht]

/-- the same for canonical parents under admissibility, landing on the canonical key. -/
theorem adjustNd_canon (hin : ParamsIn pp) (hm : InTors g1B r g2alpha) (π : List Slot) (ρ : Nat)
    (from_ to_ : AttrList) (hf : admissible π from_ = true) (ht : admissible π to_ = true) :
    adjustNondelegable g1Ops
        (ndQualifykey g1Ops π.length (canon g1Ops g2Ops pp g2alpha π ρ) from_)
        (canon g1Ops g2Ops pp g2alpha π ρ) from_ to_
      = canon g1Ops g2Ops pp g2alpha (updatePattern π to_) ρ := by
  rw [canon_val hin ⟨g2alpha, hm⟩, canon_val hin ⟨g2alpha, hm⟩, ndQualifykey_val, adjustNondelegable_val,
    C14.adjustNd_canon g1OpsC_lawful g2OpsC_lawful G1c.expR hin.lift _ π ρ from_ to_ hf ht]

/-! ### Non-vacuity -/

/-- from a list with an identifier ≥ r to a different list, any parameters in the groups. -/
example {pp : RawParams} (hin : ParamsIn pp) :
    adjustPrecomputed g1Ops pp (precompute g1Ops pp Wk.Ex.al1) Wk.Ex.al1 Wk.Ex.al0 = precompute g1Ops pp Wk.Ex.al0 :=
  adjustPrecomputed_eq hin _ _

/-- a parent key over the published generator. -/
example :
    let parent : RawKey := ⟨g1Gen, g2Gen, false, .inf, [(0, g1Gen), (1, Pt.smulFast 6 g1Gen)]⟩
    adjustNondelegable g1Ops (ndQualifykey g1Ops 2 parent ⟨[], false⟩) parent ⟨[], false⟩ ⟨[⟨1, 7, false⟩], true⟩
      = ndQualifykey g1Ops 2 parent ⟨[⟨1, 7, false⟩], true⟩ := by
  have g1In : InTors g1B r g1Gen := ⟨g1Gen_isOnCurve, g1Gen_smul_r⟩
  refine adjustNd_eq _ ⟨g1In, ⟨g2Gen_isOnCurve, g2Gen_smul_r⟩, InTors.inf _ _, ?_⟩ 2 ?_ ?_ _ _ (by decide) (by decide)
  · intro p hp
    simp only [List.mem_cons, List.not_mem_nil, or_false] at hp
    rcases hp with rfl | rfl
    · exact g1In
    · exact g1In.smulFast curveHyp_g1 6
  · simp
  · intro p hp
    simp only [List.mem_cons, List.not_mem_nil, or_false] at hp
    rcases hp with rfl | rfl <;> simp

end Jedi.C14b
