/-
C14 — incremental and precomputed paths equal recomputation.

Property theorems only (proofs in Proofs/WkdibeProofs.lean).
-/
import JediVerif.Proofs.WkdibeProofs

namespace Jedi.C14
open Jedi Jedi.Wk

variable {G1 G2 GT : Type} [AddCommGroup G1] [AddCommGroup G2]
variable {o1 : GroupOps G1} {o2 : GroupOps G2}

/-- `adjust_precomputed` from list A to list B equals `precompute` of B: for *all* lists (not even
well-formedness is needed) and *all* identifier values, including identifiers ≥ r (the model
reduces mod r before subtracting, `diffId`). -/
theorem adjustPrecomputed_eq (L1 : Lawful o1) (hr : ExpR G1) (pp : Params G1 G2 GT)
    (from_ to_ : AttrList) :
    adjustPrecomputed o1 pp (precompute o1 pp from_) from_ to_ = precompute o1 pp to_ :=
  Wk.adjustPrecomputed_eq L1 hr pp from_ to_

/-- `adjust_nondelegable(nondelegable_qualifykey(parent, A), parent, A, B)` equals
`nondelegable_qualifykey(parent, B)`, component for component, for every parent key whose
free-slot list is strictly ascending with indices below l and all well-formed A, B — for both
settings of `A.omitAll` and of `B.omitAll`. -/
theorem adjustNd_eq (L1 : Lawful o1) (hr : ExpR G1) (parent : SecretKey G1 G2) (l : Nat)
    (hasc : parent.b.Pairwise (fun p q => p.1 < q.1)) (hlt : ∀ p ∈ parent.b, p.1 < l)
    (from_ to_ : AttrList)
    (hf : from_.wellFormed l = true) (ht : to_.wellFormed l = true) :
    adjustNondelegable o1 (ndQualifykey o1 l parent from_) parent from_ to_
      = ndQualifykey o1 l parent to_ :=
  Wk.adjustNd_eq L1 hr parent l hasc hlt from_ to_ hf ht

/-- the same for canonical parents under admissibility, landing on the canonical key. -/
theorem adjustNd_canon (L1 : Lawful o1) (L2 : Lawful o2) (hr : ExpR G1) (pp : Params G1 G2 GT)
    (g2alpha : G1) (π : List Slot) (ρ : Nat) (from_ to_ : AttrList)
    (hf : admissible π from_ = true) (ht : admissible π to_ = true) :
    adjustNondelegable o1
        (ndQualifykey o1 π.length (canon o1 o2 pp g2alpha π ρ) from_)
        (canon o1 o2 pp g2alpha π ρ) from_ to_
      = canon o1 o2 pp g2alpha (updatePattern π to_) ρ := by
  rw [Wk.adjustNd_eq L1 hr _ π.length (Wk.canon_b_ascB L1 L2 pp g2alpha π ρ)
    (Wk.canon_b_lt L1 L2 pp g2alpha π ρ) from_ to_ (Wk.admissible_wf hf) (Wk.admissible_wf ht)]
  exact Wk.ndQualify_canon L1 L2 pp g2alpha π ρ to_ ht

/-! ### Non-vacuity -/

open Wk.Ex in
/-- from a list with an identifier ≥ r to a different list. -/
example : adjustPrecomputed ops pp (precompute ops pp al1) al1 al0 = precompute ops pp al0 :=
  adjustPrecomputed_eq lawful expR pp al1 al0

open Wk.Ex in
example (ρ : Nat) :
    adjustNondelegable ops
        (ndQualifykey ops 3 (canon ops ops pp g2alpha [.fixed 42, .free, .hidden] ρ) al1)
        (canon ops ops pp g2alpha [.fixed 42, .free, .hidden] ρ) al1
        ⟨[⟨0, 42, false⟩, ⟨1, 8, false⟩], false⟩
      = canon ops ops pp g2alpha [.fixed 42, .fixed 8, .hidden] ρ := by
  have h := adjustNd_canon lawful lawful expR pp g2alpha [.fixed 42, .free, .hidden] ρ al1
    ⟨[⟨0, 42, false⟩, ⟨1, 8, false⟩], false⟩ al1_ok (by decide)
  rw [show updatePattern [Slot.fixed 42, .free, .hidden] ⟨[⟨0, 42, false⟩, ⟨1, 8, false⟩], false⟩
    = [.fixed 42, .fixed 8, .hidden] by decide] at h
  exact h

/-- the instance on which the two sides used to differ (before `adjust_nondelegable` honoured
`to.omitAllFromKeysUnlessPresent`): parent with free slots 0 and 1, A = B = empty list,
`B.omitAll = true`.  Both sides now drop the parent's free slots. -/
example :
    let parent : SecretKey ℤ ℤ := ⟨0, 0, false, 0, [(0, 5), (1, 6)]⟩
    (adjustNondelegable (stdOps ℤ) (ndQualifykey (stdOps ℤ) 2 parent ⟨[], false⟩) parent
        ⟨[], false⟩ ⟨[], true⟩).b.length = 0
      ∧ (ndQualifykey (stdOps ℤ) 2 parent ⟨[], true⟩).b.length = 0 := by
  decide

end Jedi.C14
