/-
C07 (division-free variant) — "For every element a of the order-r target group and every 256-bit exponent k (including 0,
values at and above r, and 2^256-1), the fast exponentiation routines return a^k …": the routine that `Properties/C07.lean`
and `Properties/C07b.lean` left out, `Fq12::exponentiate_gt_nodiv` (with the `exponentiate_restrict_cyclotomic_nodiv` it
calls; /repo/include/bls12_381/fq12.hpp l.72-105).

Property theorems only; proofs in `Proofs/GtNodivProofs.lean`.  Objects:
* `Impl.exponentiateGtNodiv bits a k`, `Impl.exponentiateRestrictCyclotomicNodiv bits a k` (`Impl/GtNodiv.lean`): the two
  C++ templates at `BigInt<bits>`, statement by statement over the GENERATED `Fq12.copy`, `Fq12.square_cyclotomic_oa`
  (`this->square_cyclotomic(*this)`), `Fq12.multiply_oa` (`this->multiply(*this, a)`): plain square-and-multiply over bits
  `bits-1 … 0` with the `found_one` shortcut; `…CT` = the RESIST_SIDE_CHANNELS build.  `Impl.gtExpNodiv256` = the
  `BigInt<256>` instance over the concrete field, which the judge runs on every `gt_expnd` line next to the real code and
  compares token by token (`Driver/Judge3.lean`).
* `Fq12 = Q12 (Fin q)` with the Spec's schoolbook ring operations (a field), `x ^ n` the monoid power, `npow` the Spec's
  executable power, `Cyclotomic.IsCyclotomic` the Granger–Scott equations (`Properties/C04c.lean`), `GT = {a | a ^ r = 1}`.
No hypothesis other than membership in GT (or, more generally, in the cyclotomic subgroup).
-/
import JediVerif.Proofs.GtNodivProofs

namespace Jedi.C07
open Jedi Jedi.Impl Jedi.Gen
open Jedi.Cyclotomic (IsCyclotomic)

/-! ### 1. any commutative coefficient ring, any width of the exponent -/

section
variable {R : Type} [CommRing R]

/-- On an element satisfying the Granger–Scott equations the loop of the division-free routine goes through exactly the
states of the loop of the generic `core::exponentiate` (C02b: `Impl.expLoop`) … -/
theorem gt_nodiv_loop_is_generic_loop (a : Q12 R) (ha : IsCyclotomic a) (e i : Nat) (res : Q12 R) (found : Bool)
    (hres : IsCyclotomic res) : gtNodivLoop a e i (res, found) = expLoop a e i (res, found) :=
  GtNodiv.gtNodivLoop_eq_expLoop a ha e i res found hres

/-- … so the routine returns what the generic exponentiation returns … -/
theorem gt_nodiv_eq_generic (bits : Nat) (a : Q12 R) (ha : IsCyclotomic a) (e : Nat) :
    exponentiateRestrictCyclotomicNodiv bits a e = fpExponentiate bits a e :=
  GtNodiv.exponentiateRestrictCyclotomicNodiv_eq_fpExponentiate bits a ha e

/-- … namely the power by the (low `bits` bits of the) exponent: both templates, both builds. -/
theorem gt_nodiv_restrict_eq_pow (bits : Nat) (a : Q12 R) (ha : IsCyclotomic a) (e : Nat) :
    exponentiateRestrictCyclotomicNodiv bits a e = a ^ (e % 2 ^ bits) :=
  GtNodiv.exponentiateRestrictCyclotomicNodiv_eq bits a ha e
theorem gt_nodiv_eq_pow (bits : Nat) (a : Q12 R) (ha : IsCyclotomic a) (e : Nat) :
    exponentiateGtNodiv bits a e = a ^ (e % 2 ^ bits) :=
  GtNodiv.exponentiateGtNodiv_eq bits a ha e
theorem gt_nodiv_ct_eq_pow (bits : Nat) (a : Q12 R) (ha : IsCyclotomic a) (e : Nat) :
    exponentiateGtNodivCT bits a e = a ^ (e % 2 ^ bits) ∧
      exponentiateRestrictCyclotomicNodivCT bits a e = a ^ (e % 2 ^ bits) :=
  ⟨GtNodiv.exponentiateGtNodivCT_eq bits a ha e, GtNodiv.exponentiateRestrictCyclotomicNodivCT_eq bits a ha e⟩

/-- the result satisfies the Granger–Scott equations again. -/
theorem gt_nodiv_isCyclotomic (bits : Nat) (a : Q12 R) (ha : IsCyclotomic a) (e : Nat) :
    IsCyclotomic (exponentiateGtNodiv bits a e) :=
  GtNodiv.exponentiateGtNodiv_isCyclotomic bits a ha e
end

/-! ### 2. the target group over the concrete field -/

/-- **`exponentiate_gt_nodiv` returns `a ^ k` for every GT element `a` and every 256-bit `k`** (0, `k ≥ r`, `2^256 − 1`
included).  No hypothesis beyond membership in GT. -/
theorem gt_nodiv_exact (a : Fq12) (ha : a ^ r = 1) (k : Nat) (hk : k < 2 ^ 256) : gtExpNodiv256 a k = a ^ k :=
  GtNodiv.gt_nodiv_exact a ha k hk

/-- … which is `a ^ (k mod r)` … -/
theorem gt_nodiv_exact_mod (a : Fq12) (ha : a ^ r = 1) (k : Nat) (hk : k < 2 ^ 256) :
    gtExpNodiv256 a k = a ^ (k % r) :=
  GtNodiv.gt_nodiv_exact_mod a ha k hk

/-- … i.e. the Spec-level value `npow a (k % r)` the judge demands of the real output on every `gt_expnd` line. -/
theorem gt_nodiv_eq_spec_power (a : Fq12) (ha : a ^ r = 1) (k : Nat) (hk : k < 2 ^ 256) :
    gtExpNodiv256 a k = npow a (k % r) :=
  GtNodiv.gt_nodiv_eq_npow a ha k hk

/-- without the bound: the model reads the low 256 bits of whatever natural number it is given. -/
theorem gt_nodiv_all_exponents (a : Fq12) (ha : a ^ r = 1) (k : Nat) : gtExpNodiv256 a k = a ^ (k % 2 ^ 256) :=
  GtNodiv.gt_nodiv_all a ha k

/-- the inner routine and the RESIST_SIDE_CHANNELS build return the same element. -/
theorem gt_nodiv_variants_exact (a : Fq12) (ha : a ^ r = 1) (k : Nat) (hk : k < 2 ^ 256) :
    exponentiateRestrictCyclotomicNodiv 256 a k = a ^ k ∧ exponentiateGtNodivCT 256 a k = a ^ k :=
  ⟨GtNodiv.gt_nodiv_restrict_exact a ha k hk, GtNodiv.gt_nodiv_ct_exact a ha k hk⟩

/-- the result stays in GT. -/
theorem gt_nodiv_in_gt (a : Fq12) (ha : a ^ r = 1) (k : Nat) : gtExpNodiv256 a k ^ r = 1 :=
  GtNodiv.gt_nodiv_isGT a ha k

/-- **the two GT exponentiation routines of the library agree**: division-free square-and-multiply and
`exponentiate_gt_div` (base-|x| decomposition with the Frobenius table, `Properties/C07b.lean`). -/
theorem gt_nodiv_eq_div (a : Fq12) (ha : a ^ r = 1) (k : Nat) (hk : k < 2 ^ 256) :
    gtExpNodiv256 a k = exponentiateGt a (xadic k) :=
  GtNodiv.gt_nodiv_eq_div a ha k hk

/-- what is really needed of `a`: membership in the cyclotomic subgroup of order `Φ₁₂(q) = q⁴ − q² + 1` (GT is inside:
`C07.gt_pow_phi12`) … -/
theorem gt_nodiv_exact_on_cyclotomic_subgroup (a : Fq12) (ha : a ^ (q ^ 4 - q ^ 2 + 1) = 1) (k : Nat)
    (hk : k < 2 ^ 256) : gtExpNodiv256 a k = a ^ k :=
  GtNodiv.cyclotomic_nodiv_exact a ha k hk

/-- … and that cannot be dropped: on an element outside it the routine is wrong already for `k = 2`. -/
theorem gt_nodiv_needs_membership : gtExpNodiv256 Cyclotomic.sample 2 ≠ Cyclotomic.sample ^ 2 :=
  GtNodiv.nodiv_sample_ne

/-! ### non-vacuity -/

/-- the theorems apply to the library's exported `generator_pairing` (in GT, ≠ 1: `C07.generator_pairing_in_gt`), e.g.
with the largest 256-bit exponent. -/
example : gtExpNodiv256 Cyclotomic.gtGen (2 ^ 256 - 1) = Cyclotomic.gtGen ^ ((2 ^ 256 - 1) % r) :=
  gt_nodiv_exact_mod _ GtCapstone.gtGen_isGT.1 _ (by decide)

/-- and with `k = r`: the result is 1. -/
example : gtExpNodiv256 Cyclotomic.gtGen r = 1 := by
  rw [gt_nodiv_exact _ GtCapstone.gtGen_isGT.1 r (by decide)]; exact GtCapstone.gtGen_isGT.1

end Jedi.C07
