/-
C01 — the pairing is the BLS12-381 optimal-ate pairing: value on the generators, identity short-circuit, order r.

Property theorems only.  Objects: `Impl.pairing` = hand-written loop skeleton of `miller_loop` (Impl/Miller.lean) over
the steps REGENERATED from pairing.cpp on every run (`miller_doubling_step`, `miller_addition_step`, `ell`,
`final_exponentiation`, Fq12 operations), tied to the real code exactly by the judge (raw Miller values, final
exponentiation, pairing values);  `ateSpec` = the textbook optimal-ate pairing of Spec/Pairing.lean (affine
chord-and-tangent Miller loop on the untwisted point, dense Fq12 arithmetic, literal exponent 3(q¹²−1)/r), which shares
no formula with the implementation.

What is proved here: (i) closed, kernel-evaluated facts tying implementation model, textbook definition and the exported
constant together on the published generators; (ii) for ALL inputs: pairs with an identity member give 1 (both in the
implementation model over the concrete field and in the specification).  The universally quantified refinement
"implementation model = textbook pairing on all of G1 × G2" is developed in Proofs/MillerSteps.lean (step level) and
Proofs/FinalExp.lean (final exponentiation is the power 3(q¹²−1)/r); bilinearity itself is the named hypothesis
H-bilinear (DESIGN.md §3.5) and is sampled against the Spec by the correspondence.
-/
import JediVerif.Proofs.PairingKAT
import JediVerif.Proofs.PairingKATSpec
import JediVerif.Proofs.MillerProduct
import JediVerif.Proofs.Primes
import Mathlib.Data.ZMod.Defs

namespace Jedi.C01
open Jedi Jedi.Gen Jedi.Impl Jedi.KAT
open scoped Fin.CommRing

/-- the generators the source exports are the published BLS12-381 generators. -/
theorem exported_generators_are_published :
    g1Gen = .aff g1GenAff.x g1GenAff.y ∧ g2Gen = .aff g2GenAff.x g2GenAff.y ∧
      g1GenAff.infinity = false ∧ g2GenAff.infinity = false := generators_published

/-- [known answer, kernel-evaluated] the implementation model on the published generators returns the exported
`generator_pairing` (through `pairing` and through `pairing_product` with one pair). -/
theorem pairing_on_generators :
    Impl.pairing g1GenAff g2GenAff = gtGenConst ∧ Impl.pairingProduct [(g1GenAff, g2GenAff)] [] = gtGenConst :=
  ⟨impl_pairing_generators, impl_pairing_generators_product⟩

/-- [known answer, kernel-evaluated] the TEXTBOOK optimal-ate pairing (reduced pairing cubed) of the published generators
is the exported `generator_pairing`: the constant is the value of the mathematical definition. -/
theorem textbook_pairing_on_generators : ateSpec g1Gen g2Gen = gtGenConst := spec_pairing_generators

/-- hence implementation model and textbook definition agree on the generators. -/
theorem impl_eq_textbook_on_generators : Impl.pairing g1GenAff g2GenAff = ateSpec g1Gen g2Gen := by
  rw [impl_pairing_generators, spec_pairing_generators]

/-- the exported target-group generator has order exactly r: its r-th power is 1, it is not 1, and r is prime. -/
theorem generator_pairing_order : npow gtGenConst r = 1 ∧ gtGenConst ≠ 1 ∧ Nat.Prime r :=
  ⟨gt_generator_order.1, gt_generator_order.2, r_prime⟩

/-- final exponentiation of 1 is 1 (closed fact on the generated chain, concrete field). -/
theorem final_exponentiation_one : final_exponentiation_oa (1 : Fq12) = 1 ∧ final_exponentiation (1 : Fq12) = 1 := by
  decide +kernel

/-- **identity short-circuit, all inputs**: for EVERY g1, g2 over the concrete field with an identity member
(x, y arbitrary when the flag is set), the implementation model returns the target-group identity. -/
theorem pairing_identity (g1 : Aff Fq) (g2 : Aff Fq2) (h : (g1.infinity || g2.infinity) = true) :
    Impl.pairing g1 g2 = 1 := by
  unfold Impl.pairing
  rw [millerLoop_identity_affine g1 g2 h]
  exact final_exponentiation_one.1

/-- the same with a precomputed second argument. -/
theorem pairing_prepared_identity (g1 : Aff Fq) (P : Prepared Fq) (h : (g1.infinity || P.infinity) = true) :
    Impl.pairingPrepared g1 P = 1 := by
  unfold Impl.pairingPrepared
  rw [millerLoop_identity_prepared g1 P h]
  exact final_exponentiation_one.1

/-- the specification returns 1 exactly in the same cases by definition. -/
theorem textbook_identity (P : G1Pt) (Q : G2Pt) : ateSpec .inf Q = 1 ∧ ateSpec P .inf = 1 := by
  constructor
  · rfl
  · cases P <;> rfl

end Jedi.C01
