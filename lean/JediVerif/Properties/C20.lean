/-
C20 — the core library is self-contained, stateless and re-entrant (the static half).

Data: `JediVerif/Gen/Symbols.lean`, regenerated from the repository's working tree by
`translate/syms2lean.py` on every run: every library source is compiled to object files in four
configurations

* `asm`        g++ -std=c++17 -O2 (+ `as` for src/core/arch/x86_64/*.s, + runtime.cpp)
* `portable64` … -DDISABLE_ASM
* `portable32` … -DDISABLE_ASM -U__SIZEOF_INT128__
* `embedded`   -Os -ffunction-sections -fdata-sections -fno-builtin -fno-threadsafe-statics -DDISABLE_ASM

and the symbol tables, section headers, relocations and disassembly (readelf / objdump) are turned
into finite tables.  Part 1 decides the table properties completely.  Part 2 is a small abstract
machine with the theorem that calls with disjoint footprints can be interleaved arbitrarily.

What this does NOT prove: the footprint premises of Part 2 are not derived from a semantics of the
machine code.  They rest on Part 1 (no external calls besides memory/arith helpers, no mutable
globals written after load) plus the reading of the API that every function touches only the
objects passed to it; real data races are only sampled by the runtime harness (DESIGN §C20).
-/
import JediVerif.Gen.Symbols

namespace Jedi.C20
open Jedi.Gen.Symbols

/-! ## Part 1 — tables -/

/-- `p` is a prefix of `s` (on characters; reduces by `decide`). -/
def hasPrefix (p s : String) : Bool := p.toList.isPrefixOf s.toList

/-! ### (a) external symbols -/

/-- What the library may need from outside: the C memory primitives and libgcc's integer
arithmetic helpers.

Beyond the list of the brief, two names occur on the current tree and are allowed here:
* `__udivmodti4` — libgcc's combined 128-bit unsigned divide-and-remainder (GCC 12 emits it where
  older compilers emitted the pair `__udivti3`/`__umodti3`); pure arithmetic, no state;
  `__udivmoddi4` is its 64-bit sibling (32-bit targets).
* `_GLOBAL_OFFSET_TABLE_` — not a function: the linker-defined base symbol of the GOT, referenced
  by position-independent code (Debian's g++ defaults to `-fPIE`; in the `asm` configuration
  `runtime.cpp` takes the addresses of the assembly routines through the GOT). -/
def allowedExternal : List String :=
  ["memcpy", "memmove", "memset", "memcmp", "bcmp",
   "__udivti3", "__umodti3", "__udivmodti4", "__udivdi3", "__umoddi3", "__udivmoddi4",
   "_GLOBAL_OFFSET_TABLE_"]

theorem undefined_allowed_asm : ∀ s ∈ undefined_asm, s ∈ allowedExternal := by decide +kernel
theorem undefined_allowed_portable64 : ∀ s ∈ undefined_portable64, s ∈ allowedExternal := by decide +kernel
theorem undefined_allowed_portable32 : ∀ s ∈ undefined_portable32, s ∈ allowedExternal := by decide +kernel
theorem undefined_allowed_embedded : ∀ s ∈ undefined_embedded, s ∈ allowedExternal := by decide +kernel

/-- Names whose presence would mean allocation, I/O, locking, thread-local storage, lazily
initialised statics, exit handlers or exceptions.  (Raw symbol names; `_Zn*`/`_Zd*` are the
manglings of `operator new`/`operator delete`.) -/
def forbiddenExact : List String :=
  ["malloc", "calloc", "realloc", "free", "aligned_alloc", "posix_memalign", "mmap", "munmap", "brk", "sbrk",
   "printf", "fprintf", "sprintf", "snprintf", "vprintf", "vfprintf", "puts", "fputs", "putchar", "putc", "fputc",
   "fwrite", "fread", "fopen", "fclose", "fflush", "perror", "write", "read", "open", "close", "ioctl", "syscall",
   "abort", "exit", "_exit", "atexit", "raise", "signal", "getenv", "rand", "srand", "time", "clock",
   "__cxa_atexit", "__cxa_thread_atexit", "__cxa_finalize", "__tls_get_addr", "__stack_chk_fail",
   "__cxa_allocate_exception", "__cxa_throw", "__cxa_begin_catch", "__cxa_pure_virtual", "__errno_location",
   "stdout", "stderr", "stdin"]
def forbiddenPrefixes : List String :=
  ["pthread_", "__cxa_guard_", "__gthread", "_Znw", "_Zna", "_Zdl", "_Zda", "_Unwind_", "__gxx_personality",
   "mtx_", "cnd_", "thrd_", "tss_", "sem_", "_ZSt", "_ZNSt", "_ZNKSt"]
def isForbidden (s : String) : Bool := forbiddenExact.contains s || forbiddenPrefixes.any (hasPrefix · s)

theorem no_forbidden_asm : ∀ s ∈ undefined_asm, isForbidden s = false := by decide +kernel
theorem no_forbidden_portable64 : ∀ s ∈ undefined_portable64, isForbidden s = false := by decide +kernel
theorem no_forbidden_portable32 : ∀ s ∈ undefined_portable32, isForbidden s = false := by decide +kernel
theorem no_forbidden_embedded : ∀ s ∈ undefined_embedded, isForbidden s = false := by decide +kernel

/-- The allow-list itself contains nothing forbidden (so `undefined_allowed_*` implies `no_forbidden_*`). -/
theorem allowed_not_forbidden : ∀ s ∈ allowedExternal, isForbidden s = false := by decide +kernel

/-! ### (b) writable objects -/

/-- The CPU-dispatch table of `src/core/arch/x86_64/runtime.cpp`: three function pointers and the
file-static flag they are computed from (the flag is optimised away at -O2 on the current tree). -/
def dispatchTable : List String :=
  ["embedded_pairing::core::runtime_fpbase_384_montgomery_reduce",
   "embedded_pairing::core::runtime_bigint_768_multiply",
   "embedded_pairing::core::runtime_bigint_768_square",
   "embedded_pairing::core::cpu_supports_bmi2_adx"]

/-- The pointer variables exported by `bls12_381.cpp`: non-const pointers to const data, hence in
a writable section, but the library never references them (`exported_pointers_unreferenced_*`). -/
def exportedPointers : List String :=
  ["embedded_pairing_bls12_381_group_order",
   "embedded_pairing_bls12_381_g1_zero", "embedded_pairing_bls12_381_g1affine_zero", "embedded_pairing_bls12_381_g1affine_generator",
   "embedded_pairing_bls12_381_g2_zero", "embedded_pairing_bls12_381_g2affine_zero", "embedded_pairing_bls12_381_g2affine_generator",
   "embedded_pairing_bls12_381_gt_zero", "embedded_pairing_bls12_381_gt_generator"]

/-- `const` objects of the source that the compiler initialises at load time (copy of another
constant) and therefore places in .bss. -/
def groupOrderCopies : List String :=
  ["embedded_pairing::wkdibe::group_order", "embedded_pairing::lqibe::group_order"]

/-- A non-const global of curve_fast_multiply.cpp that nothing references. -/
def unreferencedGlobals : List String := ["embedded_pairing::bls12_381::g1_endomorphism_lambda"]

def fqOne : String :=
  "embedded_pairing::core::Fp<384, embedded_pairing::bls12_381::fq_modulus_var, embedded_pairing::bls12_381::fq_R_var, embedded_pairing::bls12_381::fq_R2_var, embedded_pairing::bls12_381::fq_inv_var>::one"

/-- FOUND ON THE CURRENT TREE, not in the brief's list: `Fp<384,…>::one` (the base-class constant
behind `Fq`), declared `static const` in include/core/fp.hpp:339 as `{{ .val = r }}` with `r` a
reference template parameter, is *dynamically* initialised: it lives in .bss (48 bytes, COMDAT in
every TU that uses it) together with an 8-byte guard variable, and is filled by the
`_GLOBAL__sub_I_*` initialiser of whichever TU runs first.  Same nature as the group_order copies:
written once at load time, `const` afterwards. -/
def loadTimeConstants : List String := [fqOne, "guard variable for " ++ fqOne]

/-- everything the brief expected to be writable -/
def allowedWritable : List String := dispatchTable ++ exportedPointers ++ groupOrderCopies ++ unreferencedGlobals

theorem writable_allowed_asm : ∀ p ∈ writable_asm, p.1 ∈ allowedWritable ++ loadTimeConstants := by decide +kernel
theorem writable_allowed_portable64 : ∀ p ∈ writable_portable64, p.1 ∈ allowedWritable ++ loadTimeConstants := by decide +kernel
theorem writable_allowed_portable32 : ∀ p ∈ writable_portable32, p.1 ∈ allowedWritable ++ loadTimeConstants := by decide +kernel
theorem writable_allowed_embedded : ∀ p ∈ writable_embedded, p.1 ∈ allowedWritable ++ loadTimeConstants := by decide +kernel

/-- Exactly which writable objects fall outside the brief's list (all configurations). -/
theorem writable_beyond_brief_asm :
    (writable_asm.map Prod.fst).filter (fun s => !allowedWritable.contains s) = loadTimeConstants := by decide +kernel
theorem writable_beyond_brief_portable64 :
    (writable_portable64.map Prod.fst).filter (fun s => !allowedWritable.contains s) = loadTimeConstants := by decide +kernel
theorem writable_beyond_brief_portable32 :
    (writable_portable32.map Prod.fst).filter (fun s => !allowedWritable.contains s) = loadTimeConstants := by decide +kernel
theorem writable_beyond_brief_embedded :
    (writable_embedded.map Prod.fst).filter (fun s => !allowedWritable.contains s) = loadTimeConstants := by decide +kernel

/-- Only the assembly configuration has the dispatch table. -/
theorem no_dispatch_table_without_asm :
    (∀ p ∈ writable_portable64, p.1 ∉ dispatchTable) ∧ (∀ p ∈ writable_portable32, p.1 ∉ dispatchTable) ∧
    (∀ p ∈ writable_embedded, p.1 ∉ dispatchTable) := by decide +kernel

/-- No byte of a writable section is anonymous (every byte belongs to a named object above). -/
theorem writable_all_named :
    writable_unnamed_asm = [] ∧ writable_unnamed_portable64 = [] ∧ writable_unnamed_portable32 = [] ∧
    writable_unnamed_embedded = [] := by decide +kernel

/-! ### (c) who writes them -/

/-- Raw names of the functions GCC generates for load-time initialisation of a translation unit. -/
def isStaticInit (f : String) : Bool :=
  hasPrefix "_GLOBAL__sub_I_" f || f == "__static_initialization_and_destruction_0" ||
  hasPrefix "_Z41__static_initialization_and_destruction_0" f

/-- Every instruction that stores to a writable object lies in a static initialiser. -/
theorem stores_only_in_initialisers_asm : ∀ p ∈ stores_asm, isStaticInit p.2 = true := by decide +kernel
theorem stores_only_in_initialisers_portable64 : ∀ p ∈ stores_portable64, isStaticInit p.2 = true := by decide +kernel
theorem stores_only_in_initialisers_portable32 : ∀ p ∈ stores_portable32, isStaticInit p.2 = true := by decide +kernel
theorem stores_only_in_initialisers_embedded : ∀ p ∈ stores_embedded, isStaticInit p.2 = true := by decide +kernel

/-- Independent of naming: the storing functions are exactly functions registered in `.init_array`
(run by the loader before `main`, once). -/
theorem stores_in_registered_initialisers :
    (∀ p ∈ stores_asm, p.2 ∈ init_array_asm.map Prod.snd) ∧
    (∀ p ∈ stores_portable64, p.2 ∈ init_array_portable64.map Prod.snd) ∧
    (∀ p ∈ stores_portable32, p.2 ∈ init_array_portable32.map Prod.snd) ∧
    (∀ p ∈ stores_embedded, p.2 ∈ init_array_embedded.map Prod.snd) := by decide +kernel

theorem init_array_are_static_inits :
    (∀ p ∈ init_array_asm, isStaticInit p.2 = true) ∧ (∀ p ∈ init_array_portable64, isStaticInit p.2 = true) ∧
    (∀ p ∈ init_array_portable32, isStaticInit p.2 = true) ∧ (∀ p ∈ init_array_embedded, isStaticInit p.2 = true) := by decide +kernel

/-- Objects that are `const` in the C++ source (a store through a pointer to them needs a
`const_cast`, of which the sources contain none: `no_const_cast`). -/
def constInSource : List String := groupOrderCopies ++ [fqOne]

/-- A store can also go through a pointer.  Outside static initialisers the address of a writable
object is materialised (lea / GOT load) only for objects that are `const` in the source; so for
the genuinely mutable ones (dispatch table, exported pointers, g1_endomorphism_lambda, the guard)
the direct stores above are all the stores there are. -/
theorem addr_taken_only_const_asm :
    ∀ p ∈ addr_taken_asm, isStaticInit p.2 = true ∨ p.1 ∈ constInSource := by decide +kernel
theorem addr_taken_only_const_portable64 :
    ∀ p ∈ addr_taken_portable64, isStaticInit p.2 = true ∨ p.1 ∈ constInSource := by decide +kernel
theorem addr_taken_only_const_portable32 :
    ∀ p ∈ addr_taken_portable32, isStaticInit p.2 = true ∨ p.1 ∈ constInSource := by decide +kernel
theorem addr_taken_only_const_embedded :
    ∀ p ∈ addr_taken_embedded, isStaticInit p.2 = true ∨ p.1 ∈ constInSource := by decide +kernel

theorem no_const_cast : const_casts = [] := by decide +kernel

/-- No data section holds the address of a writable object (no table of pointers to state). -/
theorem no_data_refs :
    data_refs_asm = [] ∧ data_refs_portable64 = [] ∧ data_refs_portable32 = [] ∧ data_refs_embedded = [] := by decide +kernel

/-- The exported pointer variables and `g1_endomorphism_lambda` are not referenced by any code of
the library at all (neither read nor written). -/
theorem exported_pointers_unreferenced :
    (∀ s ∈ exportedPointers ++ unreferencedGlobals, s ∉ referenced_asm) ∧
    (∀ s ∈ exportedPointers ++ unreferencedGlobals, s ∉ referenced_portable64) ∧
    (∀ s ∈ exportedPointers ++ unreferencedGlobals, s ∉ referenced_portable32) ∧
    (∀ s ∈ exportedPointers ++ unreferencedGlobals, s ∉ referenced_embedded) := by decide +kernel

/-! ### non-vacuity -/

example : undefined_asm ≠ [] ∧ writable_asm ≠ [] ∧ stores_asm ≠ [] ∧ objects_asm.length ≥ 20 := by decide +kernel
example : writable_embedded ≠ [] ∧ stores_embedded ≠ [] ∧ undefined_embedded.length ≥ 4 := by decide +kernel
/-- the asm configuration really lists the three runtime pointers, 8 bytes each … -/
example : ("embedded_pairing::core::runtime_fpbase_384_montgomery_reduce", 8) ∈ writable_asm ∧
    ("embedded_pairing::core::runtime_bigint_768_multiply", 8) ∈ writable_asm ∧
    ("embedded_pairing::core::runtime_bigint_768_square", 8) ∈ writable_asm := by decide +kernel
/-- … sees the stores that fill them, and the calls through them -/
example : ∃ p ∈ stores_asm, p.1 = "embedded_pairing::core::runtime_bigint_768_multiply" := by decide +kernel
example : "embedded_pairing::core::runtime_bigint_768_multiply" ∈ referenced_asm := by decide +kernel
/-- the recogniser rejects ordinary functions and accepts the generated ones -/
example : isStaticInit "_ZN16embedded_pairing6wkdibe5setupERNS0_6ParamsERNS0_9MasterKeyEibPFvPvmE" = false := by decide +kernel
example : isStaticInit "_GLOBAL__sub_I_embedded_pairing_bls12_381_group_order" = true := by decide +kernel
example : isForbidden "malloc" = true ∧ isForbidden "_Znwm" = true ∧ isForbidden "pthread_mutex_lock" = true ∧
    isForbidden "__cxa_guard_acquire" = true ∧ isForbidden "memcpy" = false := by decide +kernel
/-- address-taking outside initialisers does occur (for the const objects), so that table is live -/
example : ∃ p ∈ addr_taken_asm, isStaticInit p.2 = false := by decide +kernel

/-! ## Part 2 — abstract machine: disjoint footprints make interleavings sequential

Memory is a total map from addresses to values.  The atomic actions are single-cell writes whose
value is a function of the *current* contents of a declared list of cells (this is more general
than "the initial contents of the read set": a call may read back what it wrote itself).  A call is
a program-ordered list of steps with a declared footprint `(R, W)`: it writes only cells of `W`
and reads only cells of `R ∪ W`.

**Where the premises come from.**  Nothing below knows about machine code.  That an API call of the
library *is* such a call — footprint = the objects passed to it, plus immutable globals in `R` —
is a premise supported by Part 1 (no writable global is written after load, no external function
with hidden state is called), not a theorem about the compiled code. -/

abbrev Addr := Nat
abbrev Val := Nat
abbrev Mem := Addr → Val

/-- an atomic step: write `val m` to `target`, where `val` looks only at the cells in `reads` -/
structure Step where
  reads : List Addr
  target : Addr
  val : Mem → Val
  val_local : ∀ m m' : Mem, (∀ a ∈ reads, m a = m' a) → val m = val m'

def Step.exec (s : Step) (m : Mem) : Mem := fun a => if a = s.target then s.val m else m a

/-- run steps in list order -/
def run : List Step → Mem → Mem
  | [], m => m
  | s :: p, m => run p (s.exec m)

@[simp] theorem run_nil (m : Mem) : run [] m = m := rfl
@[simp] theorem run_cons (s : Step) (p : List Step) (m : Mem) : run (s :: p) m = run p (s.exec m) := rfl

theorem run_append (p q : List Step) (m : Mem) : run (p ++ q) m = run q (run p m) := by
  induction p generalizing m with
  | nil => rfl
  | cons s p ih => simp [ih]

/-- two steps do not interfere: different targets, neither reads the other's target -/
def Indep (s t : Step) : Prop := s.target ≠ t.target ∧ s.target ∉ t.reads ∧ t.target ∉ s.reads

theorem Indep.symm {s t : Step} (h : Indep s t) : Indep t s := ⟨fun e => h.1 e.symm, h.2.2, h.2.1⟩

theorem exec_val_of_not_read (s t : Step) (m : Mem) (h : s.target ∉ t.reads) : t.val (s.exec m) = t.val m := by
  apply t.val_local
  intro a ha
  have : a ≠ s.target := fun e => h (e ▸ ha)
  simp [Step.exec, this]

/-- independent steps commute -/
theorem exec_comm (s t : Step) (h : Indep s t) (m : Mem) : t.exec (s.exec m) = s.exec (t.exec m) := by
  funext a
  have h1 := exec_val_of_not_read s t m h.2.1
  have h2 := exec_val_of_not_read t s m h.2.2
  by_cases hs : a = s.target
  · have hne : a ≠ t.target := fun e => h.1 (hs.symm.trans e)
    simp [Step.exec, hs, h2, h.1]
  · by_cases ht : a = t.target
    · simp [Step.exec, ht, h1, Ne.symm h.1]
    · simp [Step.exec, hs, ht]

/-- a step independent of every step of `p` can be moved across `p` -/
theorem run_exec_comm (p : List Step) (y : Step) (h : ∀ s ∈ p, Indep s y) (m : Mem) :
    run p (y.exec m) = y.exec (run p m) := by
  induction p generalizing m with
  | nil => rfl
  | cons s p ih =>
    have hs : Indep s y := h s (by simp)
    have hp : ∀ t ∈ p, Indep t y := fun t ht => h t (by simp [ht])
    simp only [run_cons]
    rw [← exec_comm s y hs m]
    exact ih hp (s.exec m)

/-- `Interleave p q z`: `z` is a shuffle of `p` and `q` that keeps the order inside each -/
inductive Interleave {α : Type} : List α → List α → List α → Prop
  | nil : Interleave [] [] []
  | left {x xs ys zs} : Interleave xs ys zs → Interleave (x :: xs) ys (x :: zs)
  | right {y xs ys zs} : Interleave xs ys zs → Interleave xs (y :: ys) (y :: zs)

theorem Interleave.symm {α : Type} {p q z : List α} (h : Interleave p q z) : Interleave q p z := by
  induction h with
  | nil => exact .nil
  | left _ ih => exact .right ih
  | right _ ih => exact .left ih

/-- step-level statement: if every step of `p` is independent of every step of `q`, every
interleaving computes what `p` followed by `q` computes. -/
theorem run_interleave (p q z : List Step) (hind : ∀ s ∈ p, ∀ t ∈ q, Indep s t) (hz : Interleave p q z) (m : Mem) :
    run z m = run q (run p m) := by
  induction hz generalizing m with
  | nil => rfl
  | @left x xs ys zs _ ih =>
    simp only [run_cons]
    exact ih (fun s hs t ht => hind s (by simp [hs]) t ht) (x.exec m)
  | @right y xs ys zs _ ih =>
    simp only [run_cons]
    rw [ih (fun s hs t ht => hind s hs t (by simp [ht])) (y.exec m)]
    rw [run_exec_comm xs y (fun s hs => hind s hs y (by simp)) m]

/-- A call with a declared footprint. -/
structure Call where
  R : List Addr
  W : List Addr
  steps : List Step
  writes_in_W : ∀ s ∈ steps, s.target ∈ W
  reads_in_RW : ∀ s ∈ steps, ∀ a ∈ s.reads, a ∈ R ∨ a ∈ W

def Call.run (c : Call) (m : Mem) : Mem := Jedi.C20.run c.steps m

/-- write sets disjoint, and neither call reads what the other writes -/
def Compatible (c d : Call) : Prop :=
  (∀ a ∈ c.W, a ∉ d.W) ∧ (∀ a ∈ c.W, a ∉ d.R) ∧ (∀ a ∈ d.W, a ∉ c.R)

theorem Compatible.symm {c d : Call} (h : Compatible c d) : Compatible d c :=
  ⟨fun a ha hc => h.1 a hc ha, h.2.2, h.2.1⟩

theorem Compatible.indep {c d : Call} (h : Compatible c d) : ∀ s ∈ c.steps, ∀ t ∈ d.steps, Indep s t := by
  intro s hs t ht
  have hsW := c.writes_in_W s hs
  have htW := d.writes_in_W t ht
  refine ⟨fun e => h.1 _ hsW (e ▸ htW), fun hr => ?_, fun hr => ?_⟩
  · cases d.reads_in_RW t ht _ hr with
    | inl r => exact h.2.1 _ hsW r
    | inr w => exact h.1 _ hsW w
  · cases c.reads_in_RW s hs _ hr with
    | inl r => exact h.2.2 _ htW r
    | inr w => exact h.1 _ w htW

/-- frame: a call changes no cell outside its write set -/
theorem Call.frame (c : Call) (m : Mem) (a : Addr) (ha : a ∉ c.W) : c.run m a = m a := by
  have key : ∀ (p : List Step), (∀ s ∈ p, s.target ∈ c.W) → ∀ m : Mem, Jedi.C20.run p m a = m a := by
    intro p
    induction p with
    | nil => intro _ m; rfl
    | cons s p ih =>
      intro h m
      have hne : a ≠ s.target := fun e => ha (e ▸ h s (by simp))
      simp only [run_cons]
      rw [ih (fun t ht => h t (by simp [ht]))]
      simp [Step.exec, hne]
  exact key c.steps c.writes_in_W m

/-- purity: what a call writes is a function of the cells of its footprint only -/
theorem Call.pure (c : Call) (m m' : Mem) (h : ∀ a, a ∈ c.R ∨ a ∈ c.W → m a = m' a) :
    ∀ a, a ∈ c.R ∨ a ∈ c.W → c.run m a = c.run m' a := by
  have key : ∀ (p : List Step), (∀ s ∈ p, ∀ a ∈ s.reads, a ∈ c.R ∨ a ∈ c.W) → ∀ m m' : Mem,
      (∀ a, a ∈ c.R ∨ a ∈ c.W → m a = m' a) → ∀ a, a ∈ c.R ∨ a ∈ c.W → Jedi.C20.run p m a = Jedi.C20.run p m' a := by
    intro p
    induction p with
    | nil => intro _ m m' h a ha; exact h a ha
    | cons s p ih =>
      intro hr m m' h
      simp only [run_cons]
      apply ih (fun t ht => hr t (by simp [ht]))
      intro a ha
      have hv : s.val m = s.val m' := s.val_local m m' (fun b hb => h b (hr s (by simp) b hb))
      by_cases e : a = s.target
      · simp [Step.exec, e, hv]
      · simp [Step.exec, e, h a ha]
  exact key c.steps c.reads_in_RW m m' h

/-- **Two calls.**  If their write sets are disjoint and neither reads what the other writes,
every interleaving of their atomic steps leaves the memory of the sequential execution. -/
theorem interleaving_eq_sequential (c d : Call) (h : Compatible c d) (z : List Step)
    (hz : Interleave c.steps d.steps z) (m : Mem) : run z m = d.run (c.run m) :=
  run_interleave c.steps d.steps z h.indep hz m

/-- … and the order of the sequential execution does not matter either. -/
theorem sequential_order_irrelevant (c d : Call) (h : Compatible c d) (m : Mem) : d.run (c.run m) = c.run (d.run m) := by
  have hz : Interleave c.steps d.steps (c.steps ++ d.steps) := by
    have left_all : ∀ (p q : List Step), Interleave p q (p ++ q) := by
      intro p q
      induction p with
      | nil =>
        induction q with
        | nil => exact .nil
        | cons y q ih => exact .right ih
      | cons x p ih => exact .left ih
    exact left_all _ _
  rw [← interleaving_eq_sequential c d h _ hz m, ← interleaving_eq_sequential d c h.symm _ hz.symm m]

/-! ### n calls

A schedule is a list of `(i, step)`: "call `i` performs `step`".  The calls are the projections
of the schedule (so *every* interleaving of given calls is a schedule whose projections are those
calls, and conversely). -/

/-- the steps of call `i` in schedule order -/
def proj (z : List (Nat × Step)) (i : Nat) : List Step := (z.filter (fun e => e.1 == i)).map Prod.snd

/-- the sequential execution: call 0 to completion, then call 1, … -/
def sequential (z : List (Nat × Step)) (n : Nat) : List Step := ((List.range n).map (proj z)).flatten

/-- moving all steps of one class behind the others, when the two classes are independent -/
theorem run_partition (P : Nat × Step → Bool) (z : List (Nat × Step))
    (hind : ∀ e ∈ z, ∀ f ∈ z, P e = false → P f = true → Indep e.2 f.2) (m : Mem) :
    run (z.map Prod.snd) m =
      run ((z.filter P).map Prod.snd) (run ((z.filter (fun e => !P e)).map Prod.snd) m) := by
  induction z generalizing m with
  | nil => rfl
  | cons e z ih =>
    have hz : ∀ e' ∈ z, ∀ f ∈ z, P e' = false → P f = true → Indep e'.2 f.2 :=
      fun e' he' f hf => hind e' (by simp [he']) f (by simp [hf])
    cases hP : P e with
    | false =>
      simp only [List.map_cons, run_cons, List.filter_cons, hP, Bool.not_false, if_true, Bool.false_eq_true, if_false]
      exact ih hz (e.2.exec m)
    | true =>
      simp only [List.map_cons, run_cons, List.filter_cons, hP, Bool.not_true, if_true, Bool.false_eq_true, if_false]
      rw [ih hz (e.2.exec m)]
      congr 1
      apply run_exec_comm
      intro s hs
      simp only [List.mem_map, List.mem_filter] at hs
      obtain ⟨e', ⟨he', hPe'⟩, rfl⟩ := hs
      have hPe'f : P e' = false := by simpa using hPe'
      exact hind e' (by simp [he']) e (by simp) hPe'f hP

theorem proj_filter_ne (z : List (Nat × Step)) (n i : Nat) (hi : i ≠ n) :
    proj (z.filter (fun e => !(e.1 == n))) i = proj z i := by
  unfold proj
  rw [List.filter_filter]
  congr 1
  apply List.filter_congr
  intro e _
  by_cases h : e.1 = i
  · have : e.1 ≠ n := fun e' => hi (h ▸ e')
    simp [h, hi]
  · simp [h]

/-- step-level statement for `n` calls -/
theorem run_schedule (n : Nat) (z : List (Nat × Step)) (hown : ∀ e ∈ z, e.1 < n)
    (hind : ∀ e ∈ z, ∀ f ∈ z, e.1 ≠ f.1 → Indep e.2 f.2) (m : Mem) :
    run (z.map Prod.snd) m = run (sequential z n) m := by
  induction n generalizing z m with
  | zero =>
    have : z = [] := by
      cases z with
      | nil => rfl
      | cons e z => exact absurd (hown e (by simp)) (Nat.not_lt_zero _)
    subst this
    rfl
  | succ n ih =>
    have hpart := run_partition (fun e => e.1 == n) z
      (fun e he f hf hPe hPf => hind e he f hf (by
        intro heq
        simp only [beq_iff_eq] at hPf
        have : e.1 = n := heq.trans hPf
        simp [this] at hPe)) m
    rw [hpart]
    let z' := z.filter (fun e => !(e.1 == n))
    have hown' : ∀ e ∈ z', e.1 < n := by
      intro e he
      simp only [z', List.mem_filter, Bool.not_eq_true', beq_eq_false_iff_ne] at he
      have := hown e he.1
      omega
    have hind' : ∀ e ∈ z', ∀ f ∈ z', e.1 ≠ f.1 → Indep e.2 f.2 := by
      intro e he f hf
      simp only [z', List.mem_filter] at he hf
      exact hind e he.1 f hf.1
    have hih := ih z' hown' hind' m
    have hseq : sequential z (n + 1) = sequential z' n ++ proj z n := by
      unfold sequential
      rw [List.range_succ, List.map_append, List.flatten_append]
      simp only [List.map_cons, List.map_nil, List.flatten_cons, List.flatten_nil, List.append_nil]
      congr 2
      apply List.map_congr_left
      intro i hi
      have : i ≠ n := by
        have := List.mem_range.mp hi
        omega
      exact (proj_filter_ne z n i this).symm
    rw [hseq, run_append, ← hih]
    rfl

/-- **n calls.**  `calls i` (for `i < n`) are calls with pairwise compatible footprints; `z` is any
schedule of their atomic steps (its projection on `i` is exactly `calls i`'s program).  Then the
schedule leaves the memory of running the calls one after the other. -/
theorem interleaving_eq_sequential_n (n : Nat) (calls : Nat → Call)
    (hcompat : ∀ i j, i < n → j < n → i ≠ j → Compatible (calls i) (calls j))
    (z : List (Nat × Step)) (hown : ∀ e ∈ z, e.1 < n)
    (hproj : ∀ i, i < n → proj z i = (calls i).steps) (m : Mem) :
    run (z.map Prod.snd) m = run (((List.range n).map (fun i => (calls i).steps)).flatten) m := by
  have hmem : ∀ e ∈ z, e.2 ∈ (calls e.1).steps := by
    intro e he
    rw [← hproj e.1 (hown e he)]
    simp only [proj, List.mem_map, List.mem_filter]
    exact ⟨e, ⟨he, by simp⟩, rfl⟩
  have hind : ∀ e ∈ z, ∀ f ∈ z, e.1 ≠ f.1 → Indep e.2 f.2 :=
    fun e he f hf hne => (hcompat e.1 f.1 (hown e he) (hown f hf) hne).indep e.2 (hmem e he) f.2 (hmem f hf)
  rw [run_schedule n z hown hind m]
  unfold sequential
  congr 2
  apply List.map_congr_left
  intro i hi
  exact hproj i (List.mem_range.mp hi)

/-! ### the machine is not vacuous -/

/-- copy cell 0 to cell 1 -/
def copy01 : Step := ⟨[0], 1, fun m => m 0, fun _ _ h => h 0 (by simp)⟩
/-- cell 3 := cell 2 + 1 -/
def incr23 : Step := ⟨[2], 3, fun m => m 2 + 1, fun _ _ h => by simp [h 2 (by simp)]⟩
/-- cell 0 := cell 1 (conflicts with `copy01`) -/
def copy10 : Step := ⟨[1], 0, fun m => m 1, fun _ _ h => h 1 (by simp)⟩

def callA : Call := ⟨[0], [1], [copy01], by simp [copy01], by simp [copy01]⟩
def callB : Call := ⟨[2], [3], [incr23], by simp [incr23], by simp [incr23]⟩

example : Compatible callA callB := by simp [Compatible, callA, callB]
example (m : Mem) : run [incr23, copy01] m = callB.run (callA.run m) :=
  interleaving_eq_sequential callA callB (by simp [Compatible, callA, callB]) _ (.right (.left .nil)) m
/-- and the premise matters: conflicting steps do not commute -/
example : ∃ m : Mem, run [copy01, copy10] m ≠ run [copy10, copy01] m := by
  refine ⟨fun a => if a = 0 then 5 else 7, fun h => ?_⟩
  have := congrFun h 0
  simp [run, Step.exec, copy01, copy10] at this

end Jedi.C20
