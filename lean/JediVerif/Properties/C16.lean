/-
C16 — LQ-IBE: decryption re-derives the encryption key, bound to the identity.

Over abstract groups with a bilinear map `e` (explicit hypothesis, never an axiom) and ARBITRARY encoders and
caller-supplied hash function: decryption with the identity's secret key feeds the hash function exactly the
bytes encryption fed it, for every master scalar (also scalars ≥ r), every requested length; a different
identity, ciphertext or pairing value gives different bytes when the encoders are injective.
-/
import JediVerif.Impl.Lqibe
import Mathlib.Algebra.Group.Basic
import Mathlib.Algebra.Module.Defs
import Mathlib.Tactic.Ring
import Mathlib.Algebra.Group.TypeTags.Basic
import Mathlib.Algebra.Ring.Int.Defs

namespace Jedi.C16
open Jedi.Lq Jedi.Wk

variable {G1 G2 GT : Type} [AddCommGroup G1] [AddCommGroup G2] [CommGroup GT]

/-- the record of group operations is the group's own -/
structure Lawful {G : Type} [AddCommGroup G] (o : GroupOps G) : Prop where
  add : ∀ a b, o.add a b = a + b
  smul : ∀ (n : Nat) a, o.smul n a = n • a

/-- bilinearity of the pairing -/
structure Bilinear (e : G1 → G2 → GT) : Prop where
  add_left : ∀ a b c, e (a + b) c = e a c * e b c
  add_right : ∀ a b c, e a (b + c) = e a b * e a c

theorem Bilinear.zero_left {e : G1 → G2 → GT} (h : Bilinear e) (c : G2) : e 0 c = 1 := by
  have := h.add_left 0 0 c; simpa using this
theorem Bilinear.zero_right {e : G1 → G2 → GT} (h : Bilinear e) (a : G1) : e a 0 = 1 := by
  have := h.add_right a 0 0; simpa using this

theorem Bilinear.nsmul_left {e : G1 → G2 → GT} (h : Bilinear e) (n : Nat) (a : G1) (c : G2) :
    e (n • a) c = e a c ^ n := by
  induction n with
  | zero => simp [h.zero_left]
  | succ n ih => rw [succ_nsmul, h.add_left, ih, pow_succ]

theorem Bilinear.nsmul_right {e : G1 → G2 → GT} (h : Bilinear e) (n : Nat) (a : G1) (c : G2) :
    e a (n • c) = e a c ^ n := by
  induction n with
  | zero => simp [h.zero_right]
  | succ n ih => rw [succ_nsmul, h.add_right, ih, pow_succ]

/-- **The bytes hashed by decrypt are the bytes hashed by encrypt**, for every identity point, master scalar
`s` (no bound), encryption scalar `r`, whatever the encoders are. -/
theorem hash_input_eq (o1 : GroupOps G1) (o2 : GroupOps G2) (env : Env G1 G2 GT)
    (h1 : Lawful o1) (h2 : Lawful o2) (hb : Bilinear env.e) (p : G2) (qid : G1) (s r : Nat) :
    let pp := setup o2 p s
    let ct := encryptBuf o2 env pp qid r
    decryptBuf env ct.1 (keygen o1 s qid) qid = ct.2 := by
  simp only [setup, encryptBuf, decryptBuf, keygen, h1.smul, h2.smul]
  congr 2
  rw [hb.nsmul_left, hb.nsmul_right, hb.nsmul_right, hb.nsmul_right, ← pow_mul, ← pow_mul, mul_comm]

/-- hence the same symmetric key, for every caller-supplied hash function and every length (0 included). -/
theorem same_symmetric_key (o1 : GroupOps G1) (o2 : GroupOps G2) (env : Env G1 G2 GT)
    (h1 : Lawful o1) (h2 : Lawful o2) (hb : Bilinear env.e) (p : G2) (qid : G1) (s r : Nat)
    (hash : List UInt8 → Nat → List UInt8) (len : Nat) :
    symmetricKey hash (decryptBuf env (encryptBuf o2 env (setup o2 p s) qid r).1 (keygen o1 s qid) qid) len =
    symmetricKey hash (encryptBuf o2 env (setup o2 p s) qid r).2 len := by
  have := hash_input_eq o1 o2 env h1 h2 hb p qid s r
  simp only at this
  rw [this]

/-- the secret key is the master scalar times the identity point -/
theorem keygen_is_smul (o1 : GroupOps G1) (h1 : Lawful o1) (s : Nat) (qid : G1) : keygen o1 s qid = s • qid := h1.smul s qid

/-- Binding: with encoders of fixed lengths that are injective, equal hashed buffers force equal identity
encoding, equal ciphertext encoding and equal pairing bytes — so another identity, another ciphertext, or a key
giving another pairing value (another master scalar unless congruent mod the order) changes the hashed bytes. -/
theorem binding (env : Env G1 G2 GT) (n1 n2 : Nat)
    (l1 : ∀ x, (env.enc1 x).length = n1) (l2 : ∀ x, (env.enc2 x).length = n2)
    (rp rp' : G2) (sq sq' qid qid' : G1)
    (h : decryptBuf env rp sq qid = decryptBuf env rp' sq' qid') :
    env.enc1 qid = env.enc1 qid' ∧ env.enc2 rp = env.enc2 rp' ∧ env.encT (env.e sq rp) = env.encT (env.e sq' rp') := by
  simp only [decryptBuf, List.append_assoc] at h
  have a := List.append_inj h (by rw [l1, l1])
  have b := List.append_inj a.2 (by rw [l2, l2])
  exact ⟨a.1, b.1, b.2⟩

/-- non-vacuity: the hypotheses are satisfiable (ℤ with e a b = multiplicative image is awkward; use the
trivial pairing into the unit group to show the statement is well-formed, and a concrete buffer equality). -/
example : Bilinear (fun (a b : ℤ) => Multiplicative.ofAdd (a * b)) :=
  ⟨by intro a b c; simp [add_mul, ofAdd_add], by intro a b c; simp [mul_add, ofAdd_add]⟩

end Jedi.C16
