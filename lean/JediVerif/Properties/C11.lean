/-
C11 — every key from any delegation history is well-formed and decrypts.

Property theorems only (proofs in Proofs/WkdibeProofs.lean).  The objects are the executable
models `keygen`, `ndKeygen`, `qualifykey`, `ndQualifykey`, `adjustNondelegable`, `resamplekey` of
Impl/WkdibeImpl.lean (the ones the judge runs against /repo/src/wkdibe/api.cpp) and the
specification `canon`, `admissible`, `updatePattern`, `opens` of Spec/Wkdibe.lean.

Hypotheses, always explicit:
* `Lawful o`      the operation record is the `AddCommGroup` structure of the carrier;
* `ExpR G`        `∀ x, r • x = 0` (the groups have exponent r) — needed exactly where the scheme
                  identifies identifiers mod r;
* `Bilinear e`, `SetupOk e pp g2alpha α`   bilinearity of the pairing and g1 = α·g, msk = α·g2,
                  pp.pairing = e(g2, g1).
-/
import JediVerif.Proofs.WkdibeProofs

namespace Jedi.C11
open Jedi Jedi.Wk

variable {G1 G2 GT : Type} [AddCommGroup G1] [AddCommGroup G2]
variable {o1 : GroupOps G1} {o2 : GroupOps G2}

/-- `keygen` returns the canonical key — all of a0, a1, signatures flag, bsig and the list b with
its slot indices — for every admissible list (strictly ascending, indices < l) and every l. -/
theorem keygen_canon (L1 : Lawful o1) (L2 : Lawful o2) (pp : Params G1 G2 GT) (g2alpha : G1)
    (al : AttrList) (ρ l : Nat) (hl : pp.h.length = l)
    (hadm : admissible (List.replicate l .free) al = true) :
    keygen o1 o2 pp g2alpha al ρ
      = canon o1 o2 pp g2alpha (updatePattern (List.replicate l .free) al) ρ :=
  Wk.keygen_canon L1 L2 pp g2alpha al ρ l hl hadm

/-- `nondelegable_keygen` returns the canonical key with randomiser 1. -/
theorem ndKeygen_canon (L1 : Lawful o1) (L2 : Lawful o2) (pp : Params G1 G2 GT) (g2alpha : G1)
    (al : AttrList) (l : Nat) (hl : pp.h.length = l)
    (hadm : admissible (List.replicate l .free) al = true) :
    ndKeygen o1 pp g2alpha al
      = canon o1 o2 pp g2alpha (updatePattern (List.replicate l .free) al) 1 :=
  Wk.ndKeygen_canon L1 L2 pp g2alpha al l hl hadm

/-- `qualifykey` maps the canonical key for (π, ρ) to the canonical key for
(updatePattern π al, ρ + t), for every admissible list. -/
theorem qualify_canon (L1 : Lawful o1) (L2 : Lawful o2) (hr : ExpR G1) (pp : Params G1 G2 GT)
    (g2alpha : G1) (π : List Slot) (ρ : Nat) (al : AttrList) (t : Nat)
    (hl : pp.h.length = π.length) (hadm : admissible π al = true) :
    qualifykey o1 o2 pp (canon o1 o2 pp g2alpha π ρ) al t
      = canon o1 o2 pp g2alpha (updatePattern π al) (ρ + t) :=
  Wk.qualify_canon L1 L2 hr pp g2alpha π ρ al t hl hadm

/-- `nondelegable_qualifykey` maps the canonical key for (π, ρ) to the canonical key for
(updatePattern π al, ρ). -/
theorem ndQualify_canon (L1 : Lawful o1) (L2 : Lawful o2) (pp : Params G1 G2 GT)
    (g2alpha : G1) (π : List Slot) (ρ : Nat) (al : AttrList) (hadm : admissible π al = true) :
    ndQualifykey o1 π.length (canon o1 o2 pp g2alpha π ρ) al
      = canon o1 o2 pp g2alpha (updatePattern π al) ρ :=
  Wk.ndQualify_canon L1 L2 pp g2alpha π ρ al hadm

/-- `resamplekey` with the precomputed product of the key's pattern: canonical for ρ + t; without
support for further qualification the free slots become hidden. -/
theorem resample_canon (L1 : Lawful o1) (L2 : Lawful o2) (pp : Params G1 G2 GT) (g2alpha : G1)
    (π : List Slot) (ρ t : Nat) (pre : G1) (hpre : pre = patternProduct o1 pp π) (further : Bool) :
    resamplekey o1 o2 pp pre (canon o1 o2 pp g2alpha π ρ) further t
      = canon o1 o2 pp g2alpha (if further then π else hideFree π) (ρ + t) :=
  Wk.resample_canon L1 L2 pp g2alpha π ρ t pre hpre further

/-- The main statement.  Start from the master key by `keygen` or `nondelegable_keygen` and apply
any list of steps (`Step`: qualify / non-delegable qualify / non-delegable qualify-then-adjust /
resample), each admissible for the pattern accumulated so far (`stepsOk`).  Then the resulting key
is *equal* to the canonical key for the accumulated pattern and the sum of the fresh scalars. -/
theorem history_canon (L1 : Lawful o1) (L2 : Lawful o2) (hr : ExpR G1) (pp : Params G1 G2 GT)
    (g2alpha : G1) (start : Start) (steps : List Step)
    (hstart : start.ok pp.h.length = true)
    (hsteps : stepsOk (start.run o1 o2 pp g2alpha pp.h.length).π steps = true) :
    let st := runSteps o1 o2 pp (start.run o1 o2 pp g2alpha pp.h.length) steps
    st.sk = canon o1 o2 pp g2alpha st.π st.ρ ∧ st.π.length = pp.h.length :=
  Wk.history_canon L1 L2 hr pp g2alpha start steps hstart hsteps

/-- a canonical key lists exactly the still-free slots … -/
theorem canon_lists_free_slots (L1 : Lawful o1) (L2 : Lawful o2) (pp : Params G1 G2 GT)
    (g2alpha : G1) (π : List Slot) (ρ : Nat) :
    (canon o1 o2 pp g2alpha π ρ).b.map (·.1)
      = (List.range π.length).filter (fun i => π.getD i .free == .free) :=
  Wk.canon_b_indices L1 L2 pp g2alpha π ρ

/-- … in strictly ascending order. -/
theorem canon_b_ascending (L1 : Lawful o1) (L2 : Lawful o2) (pp : Params G1 G2 GT)
    (g2alpha : G1) (π : List Slot) (ρ : Nat) :
    (canon o1 o2 pp g2alpha π ρ).b.Pairwise (fun p q => p.1 < q.1) :=
  Wk.canon_b_ascB L1 L2 pp g2alpha π ρ

section decrypt
variable [CommGroup GT] {e : G1 → G2 → GT}

/-- the canonical key for π decrypts every ciphertext encrypted to a list that π opens. -/
theorem decrypt_canon (L1 : Lawful o1) (L2 : Lawful o2) (hr : ExpR G1)
    (he : Bilinear e) (pp : Params G1 G2 GT) (g2alpha : G1) (α : Nat) (hs : SetupOk e pp g2alpha α)
    (π : List Slot) (ρ : Nat) (al : AttrList) (hwf : al.wellFormed π.length = true)
    (hop : opens π al = true) (m : GT) (s : Nat) :
    decrypt e (encrypt pp m (precompute o1 pp al) s) (canon o1 o2 pp g2alpha π ρ) = m :=
  Wk.decrypt_canon L1 L2 hr he pp g2alpha α hs π ρ al hwf hop m s

/-- the master key decrypts every ciphertext. -/
theorem decrypt_master (he : Bilinear e) (pp : Params G1 G2 GT) (g2alpha : G1)
    (α : Nat) (hs : SetupOk e pp g2alpha α) (m : GT) (prod : G1) (s : Nat) :
    decryptMaster e (encrypt pp m prod s) g2alpha = m :=
  Wk.decrypt_master he pp g2alpha α hs m prod s

/-- every key at the end of an admissible history decrypts every ciphertext encrypted to a list
its accumulated pattern opens. -/
theorem history_decrypts (L1 : Lawful o1) (L2 : Lawful o2) (hr : ExpR G1)
    (he : Bilinear e) (pp : Params G1 G2 GT) (g2alpha : G1) (α : Nat) (hs : SetupOk e pp g2alpha α)
    (start : Start) (steps : List Step) (hstart : start.ok pp.h.length = true)
    (hsteps : stepsOk (start.run o1 o2 pp g2alpha pp.h.length).π steps = true)
    (al : AttrList) (m : GT) (s : Nat)
    (hwf : al.wellFormed pp.h.length = true)
    (hop : opens (runSteps o1 o2 pp (start.run o1 o2 pp g2alpha pp.h.length) steps).π al = true) :
    decrypt e (encrypt pp m (precompute o1 pp al) s)
      (runSteps o1 o2 pp (start.run o1 o2 pp g2alpha pp.h.length) steps).sk = m :=
  Wk.history_decrypts L1 L2 hr he pp g2alpha α hs start steps hstart hsteps al m s hwf hop

end decrypt

/-! ### Non-vacuity: the hypotheses are satisfiable (concrete 3-slot instance `Wk.Ex`) -/

open Wk.Ex in
example (ρ : Nat) : keygen ops ops pp g2alpha al0 ρ
    = canon ops ops pp g2alpha [.fixed 42, .free, .hidden] ρ := by
  rw [← al0_pattern]; exact keygen_canon lawful lawful pp g2alpha al0 ρ 3 rfl al0_ok

open Wk.Ex in
/-- a fixed slot repeated with an identifier ≥ r (42 + r), slot 1 newly fixed. -/
example (ρ t : Nat) : qualifykey ops ops pp (canon ops ops pp g2alpha [.fixed 42, .free, .hidden] ρ) al1 t
    = canon ops ops pp g2alpha [.fixed 42, .fixed 9, .hidden] (ρ + t) := by
  rw [← al1_pattern]; exact qualify_canon lawful lawful expR pp g2alpha _ ρ al1 t rfl al1_ok

open Wk.Ex in
/-- a two-step history (keygen, then qualify, then resample) and a ciphertext it decrypts. -/
example (ρ t u s : Nat) (m : Multiplicative Z) :
    decrypt e (encrypt pp m (precompute ops pp alC) s)
      (runSteps ops ops pp (Start.run ops ops pp g2alpha 3 (.keygen al0 ρ))
        [.qualify al1 t, .resample alC true u]).sk = m :=
  history_decrypts lawful lawful expR bilinear pp g2alpha 5 setupOk (.keygen al0 ρ)
    [.qualify al1 t, .resample alC true u] (by rfl) (by rfl) alC m s (by rfl) (by rfl)

end Jedi.C11
