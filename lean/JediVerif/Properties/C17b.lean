/-
C17 — "writes only inside the destination object and the slot array of the size it reported".

Length discovery (`unLen`, the model of `unmarshalledLength` / `setLength`) reports a slot count `l`; the caller allocates `l` slots;
the unmarshal models (`Impl.unmarshalParams`, `Impl.unmarshalKey` — the definitions the judge runs against the real code on every
marshal stream, `Properties/C15b.lean`) fill exactly `l` slots whenever they accept: never more (nothing is written behind the
array), never fewer (no slot of the reported size is left unset).  For every decoder record, encoding and byte string.
-/
import JediVerif.Proofs.MarshalProofs

namespace Jedi.C17
open Jedi Jedi.Impl

theorem readSlots_length (D : Decoders) (comp : Bool) :
    ∀ (k : Nat) (bs : List UInt8) (ps : List (Nat × G1Pt)) (rest : List UInt8), readSlots D comp k bs = some (ps, rest) → ps.length = k := by
  intro k
  induction k with
  | zero => intro bs ps rest h; simp [readSlots] at h; simp [h.1.symm]
  | succ k ih =>
    intro bs ps rest h
    unfold readSlots at h
    split at h
    · cases h
    · rename_i p r1 _
      split at h
      · cases h
      · rename_i ib r2 _
        split at h
        · cases h
        · rename_i ps' rest' hrec
          cases h
          simp [ih _ _ _ hrec]

theorem readG1s_length (D : Decoders) (comp : Bool) :
    ∀ (k : Nat) (bs : List UInt8) (ps : List G1Pt) (rest : List UInt8), readG1s D comp k bs = some (ps, rest) → ps.length = k := by
  intro k
  induction k with
  | zero => intro bs ps rest h; simp [readG1s] at h; simp [h.1.symm]
  | succ k ih =>
    intro bs ps rest h
    unfold readG1s at h
    split at h
    · cases h
    · rename_i p r1 _
      split at h
      · cases h
      · rename_i ps' rest' hrec
        cases h
        simp [ih _ _ _ hrec]

/-- **Secret keys.**  An accepted buffer fills exactly the number of free-slot records that length discovery reported for it. -/
theorem unmarshalKey_fills_reported_slots (D : Decoders) (comp : Bool) (bs : List UInt8) (k : WKey)
    (h : unmarshalKey D comp bs = some k) :
    unLen false comp (firstByte bs) bs.length = some k.b.length := by
  unfold unmarshalKey at h
  split at h
  · cases h
  · rename_i l hl
    simp only at h
    split at h
    · cases h
    · split at h
      · cases h
      · split at h
        · cases h
        · split at h
          · cases h
          · rename_i b rest hs
            cases h
            simp [hl, readSlots_length D comp _ _ _ _ hs]

/-- **Parameters.**  Likewise for the `h` array. -/
theorem unmarshalParams_fills_reported_slots (D : Decoders) (comp : Bool) (bs : List UInt8) (p : WParams)
    (h : unmarshalParams D comp bs = some p) :
    unLen true comp (firstByte bs) bs.length = some p.h.length := by
  unfold unmarshalParams at h
  split at h
  · cases h
  · rename_i l hl
    simp only at h
    repeat (split at h; · cases h)
    rename_i hh rest hs
    cases h
    simp [hl, readG1s_length D comp _ _ _ _ hs]

end Jedi.C17
