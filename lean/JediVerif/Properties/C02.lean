/-
C02 — the portable multi-precision (`BigInt`) and Montgomery (`FpBase`/`Fp`) arithmetic of
/repo/include/core/bigint.hpp and /repo/include/core/fp.hpp is correct for ALL inputs.

Property theorems only; the models are in `JediVerif/Impl/Limbs.lean`, the proofs in
`JediVerif/Proofs/LimbsProofs.lean`.  Numbers are little-endian limb lists, `val B xs = Σ xᵢ·Bⁱ`,
`WF B xs` = every limb `< B`.  Everything is generic in the limb base `B` (2^64 or 2^32 for
`word_t`, 2^128 or 2^64 for `dword_t`) and in the number of limbs `n` (length of the lists).

Model (Jedi.Impl)            mirrors C++
  addLoop                     BigInt::add            (carry recovered by `<` / `<=` against b[i])
  subLoop                     BigInt::subtract       (borrow recovered by comparing old a[i] with the difference)
  shl1, shr1                  BigInt::shift_left_in_word<1>, shift_right_in_word<1>
  cmp, isZero                 BigInt::compare, BigInt::is_zero (non-RESIST_SIDE_CHANNELS variants)
  mulLoop (mulRow0, mulRows, macLoop)   BigInt::multiply  (first row special-cased, then row by row)
  sqrLoop (sqrRows, sqrDouble, sqrDiag) BigInt::square    (half grid, doubling via dwords[], diagonal)
  fpAdd, fpDbl, fpSub, fpNeg, fpReduce  FpBase::add, multiply2, subtract, negate, reduce
  montReduce (montStep, montLoop)       FpBase::montgomery_reduce
  fpMul, fpSqr                FpBase::multiply, FpBase::square
  fpSet, fpGet                Fp::set / Fp::into_montgomery_form, Fp::get

Status: every statement below is proved (no `sorry`, axioms: propext, Classical.choice,
Quot.sound only).  Nothing asked for remains unproved.  Two hypotheses are worth noticing because
they are genuine preconditions of the C++ and not artefacts of the proof:
  * `montgomery_reduce` (hence `multiply`, `square`, `set`, `get`) needs `2·P ≤ B^n` (a spare top
    bit in the modulus): the C++ drops the last `meta_carry`.  Both BLS12-381 moduli satisfy it
    (`two_q_le`, `two_r_le`).
  * `square` needs `n ≥ 2` limbs (for `n = 1` the C++ indexes `words[-1]`) and an even base;
    the one-bit shifts need an even base (`shl1`) resp. a power of two (`shr1`).
-/
import JediVerif.Proofs.LimbsProofs
import JediVerif.Spec.Basic
import JediVerif.Gen.Consts

namespace Jedi.C02
open Jedi Jedi.Impl

/-! ## Representation -/

/-- A well-formed `n`-limb list denotes a number `< B^n`. -/
theorem limbs_bound {B : Nat} {a : List Nat} (ha : WF B a) : val B a < B ^ a.length := val_lt ha

/-- Canonical limb lists are unique: equal value and length ⇒ equal lists. -/
theorem limbs_unique {B : Nat} {a b : List Nat} (ha : WF B a) (hb : WF B b)
    (hlen : a.length = b.length) (hv : val B a = val B b) : a = b := val_inj ha hb hlen hv

/-- `toLimbs` is the inverse of `val` on `n` limbs. -/
theorem toLimbs_val_eq (B n v : Nat) : val B (toLimbs B n v) = v % B ^ n := val_toLimbs B n v
theorem val_toLimbs_eq {B : Nat} {a : List Nat} (ha : WF B a) :
    toLimbs B a.length (val B a) = a := toLimbs_val ha

/-! ## BigInt -/

/-- `BigInt::add`: limbs and carry-out satisfy `out + B^n·carry = a + b + carryIn`. -/
theorem bigint_add {B : Nat} {a b : List Nat} {c : Nat} (ha : WF B a) (hb : WF B b)
    (hlen : a.length = b.length) (hc : c ≤ 1) :
    WF B (addLoop B a b c).1 ∧ (addLoop B a b c).1.length = a.length ∧
    (addLoop B a b c).2 ≤ 1 ∧
    val B (addLoop B a b c).1 + B ^ a.length * (addLoop B a b c).2 = val B a + val B b + c :=
  addLoop_spec ha hb hlen hc

/-- `BigInt::subtract`: `out + b + borrowIn = a + B^n·borrowOut`. -/
theorem bigint_subtract {B : Nat} {a b : List Nat} {c : Nat} (ha : WF B a) (hb : WF B b)
    (hlen : a.length = b.length) (hc : c ≤ 1) :
    WF B (subLoop B a b c).1 ∧ (subLoop B a b c).1.length = a.length ∧
    (subLoop B a b c).2 ≤ 1 ∧
    val B (subLoop B a b c).1 + val B b + c = val B a + B ^ a.length * (subLoop B a b c).2 :=
  subLoop_spec ha hb hlen hc

/-- `BigInt::shift_left_in_word<1>` (even base): `out + B^n·shiftedOut = 2·a`. -/
theorem bigint_shl1 {B : Nat} {a : List Nat} (hB : B % 2 = 0) (ha : WF B a) :
    WF B (shl1 B a).1 ∧ (shl1 B a).1.length = a.length ∧ (shl1 B a).2 ≤ 1 ∧
    val B (shl1 B a).1 + B ^ a.length * (shl1 B a).2 = 2 * val B a := shl1_spec hB ha

/-- `BigInt::shift_right_in_word<1>` (`B = 2^(w+1)`): the result is `a / 2`, the returned word
is the dropped bit moved to the top bit position. -/
theorem bigint_shr1 {B w : Nat} {a : List Nat} (hB : B = 2 ^ (w + 1)) (ha : WF B a) :
    WF B (shr1 B a).1 ∧ (shr1 B a).1.length = a.length ∧
    val B (shr1 B a).1 = val B a / 2 ∧ (shr1 B a).2 = (val B a % 2) * (B / 2) := shr1_spec hB ha

/-- `BigInt::multiply`: the `n+m`-limb result is the exact product. -/
theorem bigint_multiply {B : Nat} {a b : List Nat} (hB : 0 < B) (ha : WF B a) (hb : WF B b) :
    WF B (mulLoop B a b) ∧ (mulLoop B a b).length = a.length + b.length ∧
    val B (mulLoop B a b) = val B a * val B b := mulLoop_spec ha hb hB

/-- `BigInt::square` (`n ≥ 2` limbs, even base): the `2n`-limb result is the exact square. -/
theorem bigint_square {B : Nat} {a : List Nat} (hB : B % 2 = 0) (ha : WF B a)
    (hn : 2 ≤ a.length) :
    WF B (sqrLoop B a) ∧ (sqrLoop B a).length = 2 * a.length ∧
    val B (sqrLoop B a) = val B a * val B a := sqrLoop_spec hB ha hn

/-- `square(a)` and `multiply(a, a)` produce the same words. -/
theorem bigint_square_eq_multiply {B : Nat} {a : List Nat} (hB : B % 2 = 0) (ha : WF B a)
    (hn : 2 ≤ a.length) : sqrLoop B a = mulLoop B a a := sqrLoop_eq_mulLoop hB ha hn

/-- `BigInt::compare` returns -1 / 0 / 1 exactly when `a < b` / `a = b` / `a > b`. -/
theorem bigint_compare_lt {B : Nat} {a b : List Nat} (ha : WF B a) (hb : WF B b)
    (hlen : a.length = b.length) : Impl.cmp a b = -1 ↔ val B a < val B b := cmp_lt_iff ha hb hlen
theorem bigint_compare_eq {B : Nat} {a b : List Nat} (ha : WF B a) (hb : WF B b)
    (hlen : a.length = b.length) : Impl.cmp a b = 0 ↔ val B a = val B b := cmp_eq_iff ha hb hlen
theorem bigint_compare_gt {B : Nat} {a b : List Nat} (ha : WF B a) (hb : WF B b)
    (hlen : a.length = b.length) : Impl.cmp a b = 1 ↔ val B b < val B a := cmp_gt_iff ha hb hlen
/-- … and never anything else. -/
theorem bigint_compare_range {B : Nat} {a b : List Nat} (ha : WF B a) (hb : WF B b)
    (hlen : a.length = b.length) : Impl.cmp a b = -1 ∨ Impl.cmp a b = 0 ∨ Impl.cmp a b = 1 := by
  rcases cmp_cases ha hb hlen with h | h | h
  · exact Or.inl h.1
  · exact Or.inr (Or.inl h.1)
  · exact Or.inr (Or.inr h.1)

/-- `BigInt::is_zero`. -/
theorem bigint_is_zero {B : Nat} (hB : 0 < B) (a : List Nat) : isZero a = true ↔ val B a = 0 :=
  isZero_iff B hB a

/-! ## FpBase (modulus limbs `p`, `P = val B p`) -/

/-- `FpBase::add` computes `(a + b) mod P` for reduced inputs. -/
theorem fp_add {B : Nat} {a b p : List Nat} (ha : WF B a) (hb : WF B b) (hp : WF B p)
    (hla : a.length = p.length) (hlb : b.length = p.length)
    (hap : val B a < val B p) (hbp : val B b < val B p) :
    WF B (fpAdd B a b p) ∧ (fpAdd B a b p).length = p.length ∧
    val B (fpAdd B a b p) = (val B a + val B b) % val B p :=
  fpAdd_spec ha hb hp hla hlb hap hbp

/-- `FpBase::multiply2` computes `2a mod P`. -/
theorem fp_multiply2 {B : Nat} {a p : List Nat} (hB : B % 2 = 0) (ha : WF B a) (hp : WF B p)
    (hla : a.length = p.length) (hap : val B a < val B p) :
    WF B (fpDbl B a p) ∧ (fpDbl B a p).length = p.length ∧
    val B (fpDbl B a p) = (2 * val B a) % val B p := fpDbl_spec hB ha hp hla hap

/-- `FpBase::subtract` computes `(a − b) mod P`, written `(a + P − b) mod P` in ℕ. -/
theorem fp_subtract {B : Nat} {a b p : List Nat} (ha : WF B a) (hb : WF B b) (hp : WF B p)
    (hla : a.length = p.length) (hlb : b.length = p.length)
    (hap : val B a < val B p) (hbp : val B b < val B p) :
    WF B (fpSub B a b p) ∧ (fpSub B a b p).length = p.length ∧
    val B (fpSub B a b p) = (val B a + val B p - val B b) % val B p :=
  fpSub_spec ha hb hp hla hlb hap hbp

/-- `FpBase::negate` computes `(P − a) mod P`; in particular `-0 = 0`. -/
theorem fp_negate {B : Nat} {a p : List Nat} (ha : WF B a) (hp : WF B p)
    (hla : a.length = p.length) (hap : val B a < val B p) :
    WF B (fpNeg B a p) ∧ (fpNeg B a p).length = p.length ∧
    val B (fpNeg B a p) = (val B p - val B a) % val B p := fpNeg_spec ha hp hla hap

theorem fp_negate_zero {B : Nat} {a p : List Nat} (ha : WF B a) (hp : WF B p)
    (hla : a.length = p.length) (hP : 0 < val B p) (h0 : val B a = 0) :
    val B (fpNeg B a p) = 0 := by
  rw [(fpNeg_spec ha hp hla (by omega)).2.2, h0, Nat.sub_zero, Nat.mod_self]

/-- `FpBase::reduce`: one conditional subtraction reduces any `a < 2P`. -/
theorem fp_reduce {B : Nat} {a p : List Nat} (ha : WF B a) (hp : WF B p)
    (hla : a.length = p.length) (hap : val B a < 2 * val B p) :
    WF B (fpReduce B a p) ∧ (fpReduce B a p).length = p.length ∧
    val B (fpReduce B a p) = val B a % val B p := fpReduce_spec ha hp hla hap

/-- `FpBase::montgomery_reduce`: for a `2n`-limb `T < P·B^n`, `inv·P ≡ −1 (mod B)` and
`2P ≤ B^n`, the result is reduced and equals `T·B^{-n}` modulo `P`. -/
theorem montgomery_reduce {B n inv : Nat} {a p : List Nat} (ha : WF B a) (hp : WF B p)
    (hn : p.length = n) (hn0 : 0 < n) (hla : a.length = 2 * n)
    (hinv : (inv * val B p + 1) % B = 0)
    (hT : val B a < val B p * B ^ n) (h2P : 2 * val B p ≤ B ^ n) :
    WF B (montReduce B n a p inv) ∧ (montReduce B n a p inv).length = n ∧
    val B (montReduce B n a p inv) < val B p ∧
    (val B (montReduce B n a p inv) * B ^ n) % val B p = val B a % val B p :=
  montReduce_spec ha hp hn hn0 hla hinv hT h2P

/-- `FpBase::multiply`: reduced result with `out·B^n ≡ a·b (mod P)`. -/
theorem fp_multiply {B n inv : Nat} {a b p : List Nat} (ha : WF B a) (hb : WF B b) (hp : WF B p)
    (hn : p.length = n) (hn0 : 0 < n) (hla : a.length = n) (hlb : b.length = n)
    (hinv : (inv * val B p + 1) % B = 0)
    (hap : val B a < val B p) (hbp : val B b < val B p) (h2P : 2 * val B p ≤ B ^ n) :
    WF B (fpMul B n a b p inv) ∧ (fpMul B n a b p inv).length = n ∧
    val B (fpMul B n a b p inv) < val B p ∧
    (val B (fpMul B n a b p inv) * B ^ n) % val B p = (val B a * val B b) % val B p :=
  fpMul_spec ha hb hp hn hn0 hla hlb hinv hap hbp h2P

/-- `FpBase::square`: reduced result with `out·B^n ≡ a² (mod P)`. -/
theorem fp_square {B n inv : Nat} {a p : List Nat} (hB : B % 2 = 0) (ha : WF B a) (hp : WF B p)
    (hn : p.length = n) (hn2 : 2 ≤ n) (hla : a.length = n)
    (hinv : (inv * val B p + 1) % B = 0)
    (hap : val B a < val B p) (h2P : 2 * val B p ≤ B ^ n) :
    WF B (fpSqr B n a p inv) ∧ (fpSqr B n a p inv).length = n ∧
    val B (fpSqr B n a p inv) < val B p ∧
    (val B (fpSqr B n a p inv) * B ^ n) % val B p = (val B a * val B a) % val B p :=
  fpSqr_spec hB ha hp hn hn2 hla hinv hap h2P

/-- `FpBase::square(a)` returns the same words as `FpBase::multiply(a, a)`. -/
theorem fp_square_eq_multiply {B n inv : Nat} {a p : List Nat} (hB : B % 2 = 0) (ha : WF B a)
    (hn2 : 2 ≤ a.length) : fpSqr B n a p inv = fpMul B n a a p inv := by
  simp only [fpSqr, fpMul, sqrLoop_eq_mulLoop hB ha hn2]

/-- Multiplication of Montgomery representatives: `x·R` times `y·R` gives `x·y·R`
(`R = B^n`, everything mod `P`). -/
theorem fp_multiply_montgomery {B n inv : Nat} {a b p : List Nat} {x y : Nat} (ha : WF B a)
    (hb : WF B b) (hp : WF B p) (hn : p.length = n) (hn0 : 0 < n) (hla : a.length = n)
    (hlb : b.length = n) (hinv : (inv * val B p + 1) % B = 0) (h2P : 2 * val B p ≤ B ^ n)
    (hP : 0 < val B p)
    (hax : val B a = (x * B ^ n) % val B p) (hby : val B b = (y * B ^ n) % val B p) :
    val B (fpMul B n a b p inv) = (x * y * B ^ n) % val B p :=
  fpMul_mont ha hb hp hn hn0 hla hlb hinv h2P hP hax hby

/-- `Fp::set` / `into_montgomery_form`: any `n`-limb integer `x` becomes `x·R mod P`
(when the constant `r2` is `R² mod P`). -/
theorem fp_set {B n inv : Nat} {x r2 p : List Nat} (hx : WF B x) (hr2 : WF B r2)
    (hp : WF B p) (hn : p.length = n) (hn0 : 0 < n) (hlx : x.length = n) (hlr : r2.length = n)
    (hinv : (inv * val B p + 1) % B = 0) (h2P : 2 * val B p ≤ B ^ n) (hP : 0 < val B p)
    (hR2 : val B r2 = (B ^ n * B ^ n) % val B p) :
    WF B (fpSet B n x r2 p inv) ∧ (fpSet B n x r2 p inv).length = n ∧
    val B (fpSet B n x r2 p inv) = (val B x * B ^ n) % val B p :=
  fpSet_spec hx hr2 hp hn hn0 hlx hlr hinv h2P hP hR2

/-- `Fp::get`: `out·R ≡ a (mod P)`, `out < P`. -/
theorem fp_get {B n inv : Nat} {a p : List Nat} (ha : WF B a) (hp : WF B p)
    (hn : p.length = n) (hn0 : 0 < n) (hla : a.length = n)
    (hinv : (inv * val B p + 1) % B = 0) (h2P : 2 * val B p ≤ B ^ n)
    (hap : val B a < val B p) :
    WF B (fpGet B n a p inv) ∧ (fpGet B n a p inv).length = n ∧
    val B (fpGet B n a p inv) < val B p ∧
    (val B (fpGet B n a p inv) * B ^ n) % val B p = val B a :=
  fpGet_spec ha hp hn hn0 hla hinv h2P hap

/-- `get(set(x)) = x mod P`. -/
theorem fp_get_set {B n inv : Nat} {x r2 p : List Nat} (hx : WF B x) (hr2 : WF B r2)
    (hp : WF B p) (hn : p.length = n) (hn0 : 0 < n) (hlx : x.length = n) (hlr : r2.length = n)
    (hinv : (inv * val B p + 1) % B = 0) (h2P : 2 * val B p ≤ B ^ n) (hP : 0 < val B p)
    (hR2 : val B r2 = (B ^ n * B ^ n) % val B p) :
    val B (fpGet B n (fpSet B n x r2 p inv) p inv) = val B x % val B p :=
  fpGet_fpSet hx hr2 hp hn hn0 hlx hlr hinv h2P hP hR2

/-! ## Non-vacuity: the hypotheses hold on concrete inputs (B = 16, n = 3, P = 2039 prime,
`inv = 9 = −P⁻¹ mod 16`, `R² mod P = 324`), and the conclusions are non-trivial there. -/

section Examples
/-- P = 2039 -/
private abbrev p16 : List Nat := [7, 15, 7]
/-- a = 1845 -/
private abbrev a16 : List Nat := [5, 3, 7]
/-- b = 1559 -/
private abbrev b16 : List Nat := [7, 1, 6]

example : val 16 p16 = 2039 ∧ val 16 a16 = 1845 ∧ val 16 b16 = 1559 := by decide
example : (addLoop 16 [15, 15, 3] [1, 0, 12] 1) = ([1, 0, 0], 1) := by decide
example := bigint_add (B := 16) (a := [15, 15, 3]) (b := [1, 0, 12]) (c := 1)
  (by decide) (by decide) (by decide) (by decide)
example : (subLoop 16 [0, 0, 3] [1, 0, 12] 0) = ([15, 15, 6], 1) := by decide
example := bigint_subtract (B := 16) (a := [0, 0, 3]) (b := [1, 0, 12]) (c := 0)
  (by decide) (by decide) (by decide) (by decide)
example : shl1 16 [9, 8, 12] = ([2, 1, 9], 1) := by decide
example := bigint_shl1 (B := 16) (a := [9, 8, 12]) (by decide) (by decide)
example : shr1 16 [9, 8, 12] = ([4, 4, 6], 8) := by decide
example := bigint_shr1 (B := 16) (w := 3) (a := [9, 8, 12]) (by decide) (by decide)
example : val 16 (mulLoop 16 a16 b16) = 1845 * 1559 := by decide
example := bigint_multiply (B := 16) (a := a16) (b := b16) (by decide) (by decide) (by decide)
example : val 16 (sqrLoop 16 [15, 15, 15]) = 4095 * 4095 := by decide
example := bigint_square (B := 16) (a := [15, 15, 15]) (by decide) (by decide) (by decide)
example : Impl.cmp a16 b16 = 1 ∧ Impl.cmp b16 a16 = -1 ∧ Impl.cmp a16 a16 = 0 := by decide
example := (bigint_compare_gt (B := 16) (a := a16) (b := b16) (by decide) (by decide)
  (by decide)).2 (by decide)
example : val 16 (fpAdd 16 a16 b16 p16) = 1365 := by decide
example := fp_add (B := 16) (a := a16) (b := b16) (p := p16) (by decide) (by decide) (by decide)
  (by decide) (by decide) (by decide) (by decide)
example : val 16 (fpDbl 16 a16 p16) = 1651 := by decide
example := fp_multiply2 (B := 16) (a := a16) (p := p16) (by decide) (by decide) (by decide)
  (by decide) (by decide)
example : val 16 (fpSub 16 b16 a16 p16) = 1753 := by decide
example := fp_subtract (B := 16) (a := b16) (b := a16) (p := p16) (by decide) (by decide)
  (by decide) (by decide) (by decide) (by decide) (by decide)
example : val 16 (fpNeg 16 a16 p16) = 194 ∧ fpNeg 16 [0, 0, 0] p16 = [0, 0, 0] := by decide
example := fp_negate (B := 16) (a := a16) (p := p16) (by decide) (by decide) (by decide)
  (by decide)
example : val 16 (fpReduce 16 [5, 14, 15] p16) = 2030 := by decide
example := fp_reduce (B := 16) (a := [5, 14, 15]) (p := p16) (by decide) (by decide)
  (by decide) (by decide)
/-- 1845·1559·4096⁻¹ mod 2039 = 1775, and 1775·4096 ≡ 1845·1559 (mod 2039). -/
example : val 16 (fpMul 16 3 a16 b16 p16 9) = 1775 ∧
    (1775 * 4096) % 2039 = (1845 * 1559) % 2039 := by decide
example := fp_multiply (B := 16) (n := 3) (inv := 9) (a := a16) (b := b16) (p := p16)
  (by decide) (by decide) (by decide) (by decide) (by decide) (by decide) (by decide)
  (by decide) (by decide) (by decide) (by decide)
example := montgomery_reduce (B := 16) (n := 3) (inv := 9) (a := [1, 2, 3, 4, 5, 6])
  (p := p16) (by decide) (by decide) (by decide) (by decide) (by decide) (by decide)
  (by decide) (by decide)
example := fp_square (B := 16) (n := 3) (inv := 9) (a := a16) (p := p16)
  (by decide) (by decide) (by decide) (by decide) (by decide) (by decide) (by decide)
  (by decide) (by decide)
example : fpSqr 16 3 a16 p16 9 = fpMul 16 3 a16 a16 p16 9 := by decide
/-- set maps 1000 to 1000·4096 mod 2039 = 1688 (r2 = 324 = [4, 4, 1]); get maps it back. -/
example : val 16 (fpSet 16 3 [8, 14, 3] [4, 4, 1] p16 9) = 1688 ∧
    val 16 (fpGet 16 3 (fpSet 16 3 [8, 14, 3] [4, 4, 1] p16 9) p16 9) = 1000 := by decide
example := fp_get_set (B := 16) (n := 3) (inv := 9) (x := [8, 14, 3]) (r2 := [4, 4, 1])
  (p := p16) (by decide) (by decide) (by decide) (by decide) (by decide) (by decide)
  (by decide) (by decide) (by decide) (by decide) (by decide)
/-- The precondition `2P ≤ B^n` of `montgomery_reduce` is necessary: with P = 4093 (> 2^11),
inv = 11 and T = 0xFA15B5 < P·B^n, the algorithm as written in the C++ (which drops the last
meta_carry) returns a wrong residue. -/
example : val 16 [13, 15, 15] = 4093 ∧ (11 * 4093 + 1) % 16 = 0 ∧
    val 16 [5, 11, 5, 1, 10, 15] < 4093 * 4096 ∧
    (val 16 (montReduce 16 3 [5, 11, 5, 1, 10, 15] [13, 15, 15] 11) * 4096) % 4093
      ≠ val 16 [5, 11, 5, 1, 10, 15] % 4093 := by decide
end Examples

/-! ## The BLS12-381 instances: `Fq` (384 bits) and `Fr` (256 bits)

Closed facts about the constants of /repo/src/bls12_381/{fq,fr}.cpp (as extracted into
`Gen/Consts.lean`), then the Montgomery theorems instantiated with them for EVERY word size
`B` and limb count `n` with `B^n = 2^384` (resp. `2^256`): 6×64 and 12×32 bits for `Fq`,
4×64 and 8×32 bits for `Fr`.  The C++ passes the limbs of the modulus and `inv.words[0]`,
i.e. `toLimbs B n q` and `fq_inv % B`. -/

section BLS
open Jedi.Gen.Consts
-- let `decide` evaluate `2 ^ 384`, `2 ^ 768` (closed GMP arithmetic)
set_option exponentiation.threshold 1024

theorem fq_modulus_eq : fq_modulus = q := by decide
theorem fr_modulus_eq : fr_modulus = r := by decide
/-- spare top bit: needed because `montgomery_reduce` drops the final meta_carry. -/
theorem two_q_le : 2 * q ≤ 2 ^ 384 := by decide
theorem two_r_le : 2 * r ≤ 2 ^ 256 := by decide
/-- `inv = −q⁻¹ mod 2^384` (resp. `−r⁻¹ mod 2^256`). -/
theorem fq_inv_spec : (fq_inv * q + 1) % 2 ^ 384 = 0 := by decide
theorem fr_inv_spec : (fr_inv * r + 1) % 2 ^ 256 = 0 := by decide
/-- hence its low word is the per-word Montgomery constant, for 64- and 32-bit words. -/
theorem fq_inv_word64 : (fq_inv % 2 ^ 64 * q + 1) % 2 ^ 64 = 0 := by decide
theorem fq_inv_word32 : (fq_inv % 2 ^ 32 * q + 1) % 2 ^ 32 = 0 := by decide
theorem fr_inv_word64 : (fr_inv % 2 ^ 64 * r + 1) % 2 ^ 64 = 0 := by decide
theorem fr_inv_word32 : (fr_inv % 2 ^ 32 * r + 1) % 2 ^ 32 = 0 := by decide
/-- `R = 2^bits mod p`, `R2 = R² mod p`. -/
theorem fq_R_eq : fq_R = 2 ^ 384 % q := by decide
theorem fq_R2_eq : fq_R2 = (2 ^ 384 * 2 ^ 384) % q := by decide
theorem fq_R2_eq' : fq_R2 = 2 ^ 768 % q := by decide
theorem fr_R_eq : fr_R = 2 ^ 256 % r := by decide
theorem fr_R2_eq : fr_R2 = (2 ^ 256 * 2 ^ 256) % r := by decide
theorem fr_R2_eq' : fr_R2 = 2 ^ 512 % r := by decide

/-- `Fq::multiply` (any word size): `out < q` and `out·2^384 ≡ a·b (mod q)`. -/
theorem fq_multiply {B n : Nat} (hBn : B ^ n = 2 ^ 384) (hn : 0 < n) {a b : List Nat}
    (ha : WF B a) (hb : WF B b) (hla : a.length = n) (hlb : b.length = n)
    (hap : val B a < q) (hbp : val B b < q) :
    WF B (fpMul B n a b (toLimbs B n q) (fq_inv % B)) ∧
    (fpMul B n a b (toLimbs B n q) (fq_inv % B)).length = n ∧
    val B (fpMul B n a b (toLimbs B n q) (fq_inv % B)) < q ∧
    (val B (fpMul B n a b (toLimbs B n q) (fq_inv % B)) * 2 ^ 384) % q
      = (val B a * val B b) % q :=
  field_mul hBn hn two_q_le fq_inv_spec ha hb hla hlb hap hbp

/-- `Fq::multiply` on Montgomery representatives represents the product. -/
theorem fq_multiply_montgomery {B n : Nat} (hBn : B ^ n = 2 ^ 384) (hn : 0 < n)
    {a b : List Nat} {x y : Nat} (ha : WF B a) (hb : WF B b) (hla : a.length = n)
    (hlb : b.length = n) (hax : val B a = (x * 2 ^ 384) % q) (hby : val B b = (y * 2 ^ 384) % q) :
    val B (fpMul B n a b (toLimbs B n q) (fq_inv % B)) = (x * y * 2 ^ 384) % q :=
  field_mul_mont hBn hn two_q_le fq_inv_spec (by decide) ha hb hla hlb hax hby

/-- `Fq::set`: the integer `x` (any `n`-limb value) is stored as `x·2^384 mod q`. -/
theorem fq_set {B n : Nat} (hBn : B ^ n = 2 ^ 384) (hn : 0 < n) {x : List Nat}
    (hx : WF B x) (hlx : x.length = n) :
    val B (fpSet B n x (toLimbs B n fq_R2) (toLimbs B n q) (fq_inv % B))
      = (val B x * 2 ^ 384) % q :=
  (field_set hBn hn two_q_le fq_inv_spec (by decide) fq_R2_eq hx hlx).2.2

/-- `Fq::get ∘ Fq::set` is reduction modulo `q`. -/
theorem fq_get_set {B n : Nat} (hBn : B ^ n = 2 ^ 384) (hn : 0 < n) {x : List Nat}
    (hx : WF B x) (hlx : x.length = n) :
    val B (fpGet B n (fpSet B n x (toLimbs B n fq_R2) (toLimbs B n q) (fq_inv % B))
      (toLimbs B n q) (fq_inv % B)) = val B x % q :=
  field_get_set hBn hn two_q_le fq_inv_spec (by decide) fq_R2_eq hx hlx

/-- `Fr::multiply` (any word size). -/
theorem fr_multiply {B n : Nat} (hBn : B ^ n = 2 ^ 256) (hn : 0 < n) {a b : List Nat}
    (ha : WF B a) (hb : WF B b) (hla : a.length = n) (hlb : b.length = n)
    (hap : val B a < r) (hbp : val B b < r) :
    WF B (fpMul B n a b (toLimbs B n r) (fr_inv % B)) ∧
    (fpMul B n a b (toLimbs B n r) (fr_inv % B)).length = n ∧
    val B (fpMul B n a b (toLimbs B n r) (fr_inv % B)) < r ∧
    (val B (fpMul B n a b (toLimbs B n r) (fr_inv % B)) * 2 ^ 256) % r
      = (val B a * val B b) % r :=
  field_mul hBn hn two_r_le fr_inv_spec ha hb hla hlb hap hbp

theorem fr_multiply_montgomery {B n : Nat} (hBn : B ^ n = 2 ^ 256) (hn : 0 < n)
    {a b : List Nat} {x y : Nat} (ha : WF B a) (hb : WF B b) (hla : a.length = n)
    (hlb : b.length = n) (hax : val B a = (x * 2 ^ 256) % r) (hby : val B b = (y * 2 ^ 256) % r) :
    val B (fpMul B n a b (toLimbs B n r) (fr_inv % B)) = (x * y * 2 ^ 256) % r :=
  field_mul_mont hBn hn two_r_le fr_inv_spec (by decide) ha hb hla hlb hax hby

theorem fr_set {B n : Nat} (hBn : B ^ n = 2 ^ 256) (hn : 0 < n) {x : List Nat}
    (hx : WF B x) (hlx : x.length = n) :
    val B (fpSet B n x (toLimbs B n fr_R2) (toLimbs B n r) (fr_inv % B))
      = (val B x * 2 ^ 256) % r :=
  (field_set hBn hn two_r_le fr_inv_spec (by decide) fr_R2_eq hx hlx).2.2

theorem fr_get_set {B n : Nat} (hBn : B ^ n = 2 ^ 256) (hn : 0 < n) {x : List Nat}
    (hx : WF B x) (hlx : x.length = n) :
    val B (fpGet B n (fpSet B n x (toLimbs B n fr_R2) (toLimbs B n r) (fr_inv % B))
      (toLimbs B n r) (fr_inv % B)) = val B x % r :=
  field_get_set hBn hn two_r_le fr_inv_spec (by decide) fr_R2_eq hx hlx

/-- The two word sizes the library is built with are instances (6×64 / 12×32 bits). -/
example : ((2 : Nat) ^ 64) ^ 6 = 2 ^ 384 ∧ ((2 : Nat) ^ 32) ^ 12 = 2 ^ 384 ∧
    ((2 : Nat) ^ 64) ^ 4 = 2 ^ 256 ∧ ((2 : Nat) ^ 32) ^ 8 = 2 ^ 256 := by decide
/-- `Fq::one` is the Montgomery form of 1, `set(1)` on 64-bit words evaluates to it. -/
example : fq_one = (1 * 2 ^ 384) % q := by decide
example := fq_set (B := 2 ^ 64) (n := 6) (x := [1, 0, 0, 0, 0, 0]) (by decide) (by decide)
  (by decide) (by decide)
end BLS

end Jedi.C02
