/-
C04 (second part) — the statements about the extension tower that need the concrete field:
"… invert, Frobenius maps for every power, norm … equals the corresponding operation in
Fq[u]/(u²+1), Fq2[v]/(v³−(u+1)), Fq6[w]/(w²−v)".

Property theorems only (proofs in `Proofs/FqField.lean`, `Proofs/FqTower.lean`).  `Gen.*` are the functions
regenerated from fq2.cpp / fq6.cpp / fq12.cpp on every run, applied to `Fq = Fin q` with core Lean's modular `Fin`
arithmetic, the Spec's Fermat inverse `finInv`, and the constant tables regenerated from the source
(`instTowerConstsFq`).  `Fq2 = Q2 Fq`, `Fq6 = Q6 Fq`, `Fq12 = Q12 Fq` carry the Spec's schoolbook operations; they are
fields (`instFieldFq2`, `instFieldFq6`, `instFieldFq12`: −1 a non-square in Fq, 1+u a non-cube in Fq2, v a non-square
in Fq6), `x ^ n` is the monoid power of these rings and `frobSpec x k = npow x (q^k)` the Spec's literal
square-and-multiply power.  All statements hold for ALL elements and ALL Frobenius powers `k : Nat`.
-/
import JediVerif.Proofs.FqTower

namespace Jedi.C04
open Jedi Jedi.Gen

/-! ### the tower is a tower of fields with the Spec operations -/

/-- −1 is a non-square in Fq, so u² + 1 is irreducible over Fq. -/
theorem fq_neg_one_nonsquare : ∀ x y : Fq, x * x + y * y = 0 → x = 0 ∧ y = 0 := Fq.hnr
/-- ξ = 1 + u is not a cube in Fq2, so v³ − ξ is irreducible over Fq2. -/
theorem fq2_xi_noncube : ∀ b : Fq2, b ^ 3 ≠ (⟨1, 1⟩ : Fq2) := Fq2.hnc
/-- v is not a square in Fq6, so w² − v is irreducible over Fq6. -/
theorem fq6_v_nonsquare : ∀ b : Fq6, b ^ 2 ≠ (⟨0, 1, 0⟩ : Fq6) := Fq6.hns
/-- the field structures use exactly the Spec's ring operations and inverses -/
theorem fq2_field_ops : (instFieldFq2.toCommRing = (inferInstance : CommRing Fq2)) ∧ (instFieldFq2.toInv = ⟨Q2.inv⟩) :=
  ⟨rfl, rfl⟩
theorem fq6_field_ops : (instFieldFq6.toCommRing = (inferInstance : CommRing Fq6)) ∧ (instFieldFq6.toInv = ⟨Q6.inv⟩) :=
  ⟨rfl, rfl⟩
theorem fq12_field_ops :
    (instFieldFq12.toCommRing = (inferInstance : CommRing Fq12)) ∧ (instFieldFq12.toInv = ⟨Q12.inv⟩) :=
  ⟨rfl, rfl⟩
theorem fq2_card : Fintype.card Fq2 = q ^ 2 := Fq2.card
theorem fq6_card : Fintype.card Fq6 = q ^ 6 := Fq6.card
theorem fq12_card : Fintype.card Fq12 = q ^ 12 := Fq12.card

/-! ### inversion -/

/-- `Fq::inverse` of the Spec (`x^(q−2)`) inverts every non-zero element and maps 0 to 0. -/
theorem fq_inv (x : Fq) (hx : x ≠ 0) : x * finInv x = 1 := Fq.mul_finInv x hx
theorem fq_inv_zero : finInv (0 : Fq) = 0 := finInv_zero two_lt_q
/-- `Fq2::inverse` is the Spec inverse, inverts every non-zero element, and maps 0 to 0. -/
theorem fq2_inverse_spec (a : Fq2) : Fq2.inverse a = Q2.inv a := rfl
theorem fq2_inverse (a : Fq2) (ha : a ≠ 0) : a * Fq2.inverse a = 1 := Fq2.mul_inverse a ha
theorem fq2_inverse_zero : Fq2.inverse (0 : Fq2) = 0 := Fq2.inverse_zero
/-- `Fq6::inverse` is the Spec inverse, inverts every non-zero element, and maps 0 to 0. -/
theorem fq6_inverse_spec (a : Fq6) : Fq6.inverse a = Q6.inv a := Fq6.inverse_eq a
theorem fq6_inverse (a : Fq6) (ha : a ≠ 0) : a * Fq6.inverse a = 1 := Fq6.mul_inverse a ha
theorem fq6_inverse_zero : Fq6.inverse (0 : Fq6) = 0 := Fq6.inverse_zero
/-- `Fq12::inverse` is the Spec inverse, inverts every non-zero element, and maps 0 to 0. -/
theorem fq12_inverse_spec (a : Fq12) : Fq12.inverse a = Q12.inv a := Fq12.inverse_eq a
theorem fq12_inverse (a : Fq12) (ha : a ≠ 0) : a * Fq12.inverse a = 1 := Fq12.mul_inverse a ha
theorem fq12_inverse_zero : Fq12.inverse (0 : Fq12) = 0 := Fq12.inverse_zero
/-- the alias forms (output object = input object) compute the same. -/
theorem fq2_inverse_alias (a : Fq2) : Fq2.inverse_oa a = Fq2.inverse a := Fq2.inverse_oa_alias a

/-! ### Frobenius maps, every power -/

/-- the relations among the regenerated Frobenius tables (hypotheses of the generic theorems). -/
theorem frobenius_tables_lawful : LawfulFrob Fq := lawfulFrobFq
/-- `Fq2::frobenius_map(a, k)` is `a^(q^k)`, for every `k`. -/
theorem fq2_frobenius (a : Fq2) (k : Nat) : Fq2.frobenius_map a k = a ^ (q ^ k) := Fq2.frobenius_map_eq_pow a k
/-- `Fq6::frobenius_map(a, k)` is `a^(q^k)`, for every `k`. -/
theorem fq6_frobenius (a : Fq6) (k : Nat) : Fq6.frobenius_map a k = a ^ (q ^ k) := Fq6.frobenius_map_eq_pow a k
/-- `Fq12::frobenius_map(a, k)` is `a^(q^k)`, for every `k`. -/
theorem fq12_frobenius (a : Fq12) (k : Nat) : Fq12.frobenius_map a k = a ^ (q ^ k) := Fq12.frobenius_map_eq_pow a k
/-- … and equals the Spec's literal square-and-multiply power `frobSpec` (what the judge compares with). -/
theorem fq2_frobenius_spec (a : Fq2) (k : Nat) : Fq2.frobenius_map a k = frobSpec a k :=
  Fq2.frobenius_map_eq_frobSpec a k
theorem fq6_frobenius_spec (a : Fq6) (k : Nat) : Fq6.frobenius_map a k = frobSpec a k :=
  Fq6.frobenius_map_eq_frobSpec a k
theorem fq12_frobenius_spec (a : Fq12) (k : Nat) : Fq12.frobenius_map a k = frobSpec a k :=
  Fq12.frobenius_map_eq_frobSpec a k
/-- the judge reduces the power modulo the extension degree first: same value. -/
theorem fq2_frobenius_spec_mod (a : Fq2) (k : Nat) : Fq2.frobenius_map a k = frobSpec a (k % 2) := by
  rw [← Fq2.frobenius_map_eq_frobSpec, Fq2.frobenius_map_mod]
theorem fq6_frobenius_spec_mod (a : Fq6) (k : Nat) : Fq6.frobenius_map a k = frobSpec a (k % 6) := by
  rw [← Fq6.frobenius_map_eq_frobSpec, Fq6.frobenius_map_mod]
theorem fq12_frobenius_spec_mod (a : Fq12) (k : Nat) : Fq12.frobenius_map a k = frobSpec a (k % 12) := by
  rw [← Fq12.frobenius_map_eq_frobSpec, Fq12.frobenius_map_mod]
/-- hence the maps are ring homomorphisms. -/
theorem fq12_frobenius_mul (a b : Fq12) (k : Nat) :
    Fq12.frobenius_map (a * b) k = Fq12.frobenius_map a k * Fq12.frobenius_map b k := Fq12.frobenius_map_mul a b k
theorem fq12_frobenius_add (a b : Fq12) (k : Nat) :
    Fq12.frobenius_map (a + b) k = Fq12.frobenius_map a k + Fq12.frobenius_map b k := Fq12.frobenius_map_add a b k
/-- the alias forms compute the same. -/
theorem fq2_frobenius_alias (a : Fq2) (k : Nat) : Fq2.frobenius_map_oa a k = Fq2.frobenius_map a k :=
  Fq2.frobenius_map_oa_alias a k

/-! ### conjugation, norm, unit group -/

/-- `Fq12::conjugate` is the Frobenius map of power 6, i.e. `a ↦ a^(q^6)`. -/
theorem fq12_conj_frobenius (a : Fq12) : Fq12.conjugate a = Fq12.frobenius_map a 6 :=
  Fq12.conjugate_eq_frobenius_map_six a
theorem fq12_conj_pow (a : Fq12) : Fq12.conjugate a = a ^ (q ^ 6) := Fq12.conjugate_eq_pow a
/-- `Fq2::norm` is `a · ā` (any commutative ring; the second argument is the C++ output slot, ignored), and over Fq it
is the field norm `a^(q+1)`; `ā = a^q`. -/
theorem fq2_norm {R : Type} [CommRing R] (a : Q2 R) (r : R) :
    (⟨Fq2.norm a r, 0⟩ : Q2 R) = a * ⟨a.c0, -a.c1⟩ := Fq2.norm_eq_mul_conj a r
theorem fq2_conj_pow (a : Fq2) : (⟨a.c0, -a.c1⟩ : Fq2) = a ^ q := Fq2.conj_eq_pow a
theorem fq2_norm_pow (a : Fq2) (r : Fq) : (⟨Fq2.norm a r, 0⟩ : Fq2) = a ^ (q + 1) := Fq2.norm_eq_pow a r
/-- every non-zero element of Fq12 has order dividing `q^12 − 1`. -/
theorem fq12_pow_card_sub_one (a : Fq12) (ha : a ≠ 0) : a ^ (q ^ 12 - 1) = 1 := Fq12.pow_q12_sub_one a ha
theorem fq12_pow_card (a : Fq12) : a ^ (q ^ 12) = a := Fq12.pow_q12 a

/-- non-vacuity: a concrete element moved by Frobenius and inverted by `Fq12::inverse`. -/
example : Fq12.frobenius_map (⟨⟨⟨2, 3⟩, ⟨5, 7⟩, ⟨11, 13⟩⟩, ⟨⟨17, 19⟩, ⟨23, 29⟩, ⟨31, 37⟩⟩⟩ : Fq12) 7 ≠
    ⟨⟨⟨2, 3⟩, ⟨5, 7⟩, ⟨11, 13⟩⟩, ⟨⟨17, 19⟩, ⟨23, 29⟩, ⟨31, 37⟩⟩⟩ := by decide +kernel
example : (⟨⟨⟨2, 3⟩, ⟨5, 7⟩, ⟨11, 13⟩⟩, ⟨⟨17, 19⟩, ⟨23, 29⟩, ⟨31, 37⟩⟩⟩ : Fq12) ≠ 0 := by decide +kernel

end Jedi.C04
