/-
Mirrors — the C++ functions that the hand-written Impl models mirror still have the typed syntax tree the models were written
against.  `Gen.Mirrors.*` is regenerated from /repo on every run by translate/mirrors2lean.py (digest of the clang AST of every
function definition: statements, operators, callees, member accesses, literals, types; no locations, addresses or comments);
`Impl.MirrorsExpected.*` is the committed table.  One theorem per property whose models are hand-written; both sides are closed
terms, so the kernel decides them by evaluation.  When one of these theorems stops checking, a function body that a model
mirrors has changed: the check then looks for a behavioural difference (replay) and otherwise reports the obligation
(`no-failing-input-found`), because the model is no longer known to describe the code.
-/
import JediVerif.Gen.Mirrors
import JediVerif.Impl.MirrorsExpected

namespace Jedi.Mirrors
open Jedi

theorem mirror_C01 : Gen.Mirrors.c01 = Impl.MirrorsExpected.c01 := rfl
theorem mirror_C02 : Gen.Mirrors.c02 = Impl.MirrorsExpected.c02 := rfl
theorem mirror_C06 : Gen.Mirrors.c06 = Impl.MirrorsExpected.c06 := rfl
theorem mirror_C07 : Gen.Mirrors.c07 = Impl.MirrorsExpected.c07 := rfl
theorem mirror_C08 : Gen.Mirrors.c08 = Impl.MirrorsExpected.c08 := rfl
theorem mirror_C09 : Gen.Mirrors.c09 = Impl.MirrorsExpected.c09 := rfl
theorem mirror_C10 : Gen.Mirrors.c10 = Impl.MirrorsExpected.c10 := rfl
theorem mirror_C11 : Gen.Mirrors.c11 = Impl.MirrorsExpected.c11 := rfl
theorem mirror_C12 : Gen.Mirrors.c12 = Impl.MirrorsExpected.c12 := rfl
theorem mirror_C13 : Gen.Mirrors.c13 = Impl.MirrorsExpected.c13 := rfl
theorem mirror_C14 : Gen.Mirrors.c14 = Impl.MirrorsExpected.c14 := rfl
theorem mirror_C15 : Gen.Mirrors.c15 = Impl.MirrorsExpected.c15 := rfl
theorem mirror_C16 : Gen.Mirrors.c16 = Impl.MirrorsExpected.c16 := rfl
theorem mirror_C17 : Gen.Mirrors.c17 = Impl.MirrorsExpected.c17 := rfl

/-- non-vacuity: the tables are not empty (564 function definitions on the current tree). -/
example : 5 ≤ Gen.Mirrors.c11.length ∧ 5 ≤ Gen.Mirrors.c08.length ∧ Gen.Mirrors.c16.length = 5 := by decide

end Jedi.Mirrors
