/-
Mirrors — the C++ functions that the hand-written Impl models mirror still have the typed syntax tree the models were written
against.  `Gen.Mirrors.*` is regenerated from /repo on every run by translate/mirrors2lean.py (digest of the clang AST of every
function definition: statements, operators, callees, member accesses, literals, types; no locations, addresses or comments);
`Impl.MirrorsExpected.*` is the committed table.  One theorem per property whose models are hand-written; both sides are closed
terms, so the kernel decides them by evaluation.  When one of these theorems stops checking, a function body that a model
mirrors has changed: the check then looks for a behavioural difference (replay) and otherwise reports the obligation
(`no-failing-input-found`), because the model is no longer known to describe the code.
-/
import JediVerif.Properties.Mirrors.C01
import JediVerif.Properties.Mirrors.C02
import JediVerif.Properties.Mirrors.C03
import JediVerif.Properties.Mirrors.C06
import JediVerif.Properties.Mirrors.C07
import JediVerif.Properties.Mirrors.C08
import JediVerif.Properties.Mirrors.C09
import JediVerif.Properties.Mirrors.C10
import JediVerif.Properties.Mirrors.C11
import JediVerif.Properties.Mirrors.C12
import JediVerif.Properties.Mirrors.C13
import JediVerif.Properties.Mirrors.C14
import JediVerif.Properties.Mirrors.C15
import JediVerif.Properties.Mirrors.C16
import JediVerif.Properties.Mirrors.C17
import JediVerif.Properties.Mirrors.C19

namespace Jedi.Mirrors
open Jedi

/- one module per property (`Properties/Mirrors/Cxx.lean`, theorem `mirror_Cxx`) so that a changed function only breaks the
obligation of the properties whose models mirror it -/

/-- non-vacuity: the tables are not empty (564 function definitions on the current tree). -/
example : 5 ≤ Gen.Mirrors.c11.length ∧ 5 ≤ Gen.Mirrors.c08.length ∧ 5 ≤ Gen.Mirrors.c16.length := by decide

end Jedi.Mirrors
