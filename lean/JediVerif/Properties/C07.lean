/-
C07 — "For every element a of the order-r target group and every 256-bit exponent k (including 0, values at and
above r, and 2^256-1), the fast exponentiation routines return a^k, the fast squaring returns a^2, inversion returns
a^-1, and the combined random-exponentiation routine returns both a uniformly chosen y in [0,r) and exactly a^y.  The
scalar decomposition used internally always recombines to the exponent modulo r."

Property theorems only; the proofs are in `JediVerif/Proofs/GtExp.lean`.  Objects:
* `Impl.exponentiateGt a c`  — hand-written mirror of the loop of `Fq12::exponentiate_gt(a, PowersOfX)`
  (fq12_cyclotomic.cpp l.139; tied to the real code by the differential judge) over the GENERATED
  `Fq12.frobenius_map`, `Fq12.conjugate_oa`, `Fq12.square_cyclotomic_oa`, `Fq12.multiply_oa`;
* `Impl.xadic k`             — `PowersOfX::decompose` (its own properties: C06 `xadic_represents`, `xadic_digits`,
  `xadic_mod_r`); `Impl.xadicVal c = c₀ + c₁|x| + c₂|x|² + c₃|x|³`;
* `GtExp.gtTable a j`        — the table entry `t[j]` the loop builds: `frobenius_map a j`, conjugated for odd `j`;
* `Driver.xrandModel`        — `PowersOfX::random` over the explicit byte stream (compared with the real routine by the
  judge, op `xrand`).
`R` is an arbitrary commutative ring with arbitrary constant tables (`TowerConsts R`), so everything holds for
`R = Fin q` with the library's tables.

Hypotheses that stay NAMED (they are facts about the element `a`, established by other parts of the development):
* (H-order) `a ^ r = 1`;
* (H-frob)  `gtTable a j = a ^ (|x| ^ j)` for `j < 4`.  `gt_frob_of_qpow` reduces it to (H-order), (H-unit)
  `a * conj a = 1` and (H-qpow) `Fq12.frobenius_map a j = a ^ (q ^ j)` — the arithmetic `q ≡ −|x| (mod r)` is proved
  here;
* (H-cyc)   `Fq12.square_cyclotomic_oa (a ^ n) = a ^ n * a ^ n` for all `n` (Granger–Scott squaring is squaring on
  the powers of `a`; `Proofs/Cyclotomic.lean` proves it from the coordinate predicate `IsCyclotomic a`, which is closed
  under powers).  Theorem 1 needs it only in the weaker "any multiplicatively closed set `P`" form.
`exponentiate_gt_nodiv` is covered in `Properties/C07c.lean`.  Not covered: the probabilistic
reading of "uniformly chosen" beyond the bijection `xrand_digits_unique` / `xrand_digits_exist`.
-/
import JediVerif.Proofs.GtExp

namespace Jedi.C07
open Jedi Jedi.Impl Jedi.Gen Jedi.GtExp Jedi.Driver

section
variable {R : Type} [CommRing R] [TowerConsts R]

/-! ### the table -/

/-- `gtTable a j` is, by definition, the Frobenius image for even `j` and its conjugate for odd `j` … -/
theorem gtTable_def (a : Q12 R) (j : Nat) :
    gtTable a j = if j % 2 = 0 then Fq12.frobenius_map a j else Q12.conj (Fq12.frobenius_map a j) := rfl

/-- … and it is the `j`-th entry of the list the model builds (with the model's own test
`((i % 2 == 0) != (bls_x_is_negative == 1))` and the generated `conjugate_oa`). -/
theorem gtTable_is_model_entry (a : Q12 R) (j : Nat) (hj : j < 4) :
    ((List.range 4).map fun i =>
        let ti := Fq12.frobenius_map a i
        if ((i % 2 == 0) != (Consts.bls_x_is_negative == 1)) then Fq12.conjugate_oa ti else ti).getD j 1
      = gtTable a j :=
  gtTable_getD a j hj

/-! ### 1. the loop, for every digit vector -/

/-- **The interleaved 4-way square-and-multiply is right for EVERY digit list `c`** (any length, any digit sizes):
only bits 63…0 of the first four entries are examined and the result is `∏_{j<4} t_j ^ (c_j mod 2^64)`.  The
`found_one` shortcut is part of the model and is handled exactly (no squaring while the accumulator is still 1).
The only hypothesis: the generated cyclotomic squaring is the squaring on some set `P` that contains 1 and the four
table entries and is closed under products. -/
theorem exponentiateGt_eq_prod (a : Q12 R) (c : List Nat) (P : Q12 R → Prop) (h1 : P 1)
    (hmul : ∀ x y, P x → P y → P (x * y)) (ht : ∀ j < 4, P (gtTable a j))
    (hsq : ∀ y, P y → Fq12.square_cyclotomic_oa y = y * y) :
    exponentiateGt a c = ∏ j ∈ Finset.range 4, gtTable a j ^ (c.getD j 0 % 2 ^ 64) :=
  GtExp.exponentiateGt_eq_prod a c P h1 hmul ht hsq

/-- the same product written out. -/
theorem exponentiateGt_eq_mul4 (a : Q12 R) (c : List Nat) (P : Q12 R → Prop) (h1 : P 1)
    (hmul : ∀ x y, P x → P y → P (x * y)) (ht : ∀ j < 4, P (gtTable a j))
    (hsq : ∀ y, P y → Fq12.square_cyclotomic_oa y = y * y) :
    exponentiateGt a c = gtTable a 0 ^ (c.getD 0 0 % 2 ^ 64) * gtTable a 1 ^ (c.getD 1 0 % 2 ^ 64) *
      gtTable a 2 ^ (c.getD 2 0 % 2 ^ 64) * gtTable a 3 ^ (c.getD 3 0 % 2 ^ 64) :=
  GtExp.exponentiateGt_eq_mul4 a c P h1 hmul ht hsq

/-! ### 2. exponentiation -/

/-- Under (H-frob) and (H-cyc), for every digit list whose first four entries fit 64-bit registers:
`exponentiate_gt(a, c) = a ^ (c₀ + c₁|x| + c₂|x|² + c₃|x|³)`.  No hypothesis on the order of `a`. -/
theorem gt_exp_digits (a : Q12 R) (c : List Nat) (hc : ∀ j < 4, c.getD j 0 < 2 ^ 64)
    (hfrob : ∀ j < 4, gtTable a j = a ^ (blsX ^ j))
    (hcyc : ∀ n : Nat, Fq12.square_cyclotomic_oa (a ^ n) = a ^ n * a ^ n) :
    exponentiateGt a c = a ^ xadicVal c :=
  exponentiateGt_digits a c hc hfrob hcyc

/-- **`exponentiate_gt_div`** (decompose, then the loop) **returns `a ^ k` for every 256-bit `k`** — including 0,
`k ≥ r` and `2^256 − 1` — under (H-order), (H-frob), (H-cyc).  Uses C06 (`xadic_digits`, `xadic_mod_r`). -/
theorem gt_exp_correct (a : Q12 R) (hord : a ^ r = 1) (hfrob : ∀ j < 4, gtTable a j = a ^ (blsX ^ j))
    (hcyc : ∀ n : Nat, Fq12.square_cyclotomic_oa (a ^ n) = a ^ n * a ^ n) (k : Nat) (hk : k < 2 ^ 256) :
    exponentiateGt a (xadic k) = a ^ k :=
  GtExp.gt_exp_correct a hord hfrob hcyc k hk

/-- … which is also `a ^ (k mod r)`: exponents at and above `r` wrap around as they must. -/
theorem gt_exp_correct_mod (a : Q12 R) (hord : a ^ r = 1) (hfrob : ∀ j < 4, gtTable a j = a ^ (blsX ^ j))
    (hcyc : ∀ n : Nat, Fq12.square_cyclotomic_oa (a ^ n) = a ^ n * a ^ n) (k : Nat) (hk : k < 2 ^ 256) :
    exponentiateGt a (xadic k) = a ^ (k % r) := by
  rw [GtExp.gt_exp_correct a hord hfrob hcyc k hk, pow_eq_pow_mod k hord]

/-- (H-frob) holds for every `a` with (H-order) `a^r = 1`, (H-unit) `a · conj a = 1` and (H-qpow) the table-driven
Frobenius map being the `q^j`-th power on `a`: then `t_j = a^(|x|^j)` because `q ≡ −|x| (mod r)` (closed facts
`q^j ≡ |x|^j` for `j = 0, 2`, `q^j + |x|^j ≡ 0` for `j = 1, 3`, checked by evaluation) and conjugation inverts. -/
theorem gt_frob_of_qpow (a : Q12 R) (hord : a ^ r = 1) (hunit : a * Q12.conj a = 1)
    (hq : ∀ j < 4, Fq12.frobenius_map a j = a ^ (q ^ j)) : ∀ j < 4, gtTable a j = a ^ (blsX ^ j) :=
  gtTable_eq_pow_of_qpow a hord hunit hq

/-- `gt_exp_correct` with (H-frob) replaced by (H-unit) and (H-qpow). -/
theorem gt_exp_correct' (a : Q12 R) (hord : a ^ r = 1) (hunit : a * Q12.conj a = 1)
    (hq : ∀ j < 4, Fq12.frobenius_map a j = a ^ (q ^ j))
    (hcyc : ∀ n : Nat, Fq12.square_cyclotomic_oa (a ^ n) = a ^ n * a ^ n) (k : Nat) (hk : k < 2 ^ 256) :
    exponentiateGt a (xadic k) = a ^ k :=
  GtExp.gt_exp_correct a hord (gtTable_eq_pow_of_qpow a hord hunit hq) hcyc k hk

/-! ### 3. inversion -/

/-- Conjugation is inversion on unitary elements (`a · conj a = 1`, true on the whole cyclotomic subgroup). -/
theorem gt_inverse_is_conjugate (a : Q12 R) (h : a * Q12.conj a = 1) : Fq12.conjugate a * a = 1 :=
  conjugate_mul_self a h

/-- The C API's `gt_negate` calls the general `Fq12::inverse`; wherever that is an inverse (`a · inverse a = 1`:
non-zero norm, `Proofs/FinalExp.lean`) it coincides on unitary elements with the conjugate. -/
theorem gt_inverse_eq_conjugate [Inv R] (a : Q12 R) (hinv : a * Fq12.inverse a = 1) (h : a * Q12.conj a = 1) :
    Fq12.inverse a = Fq12.conjugate a :=
  inverse_eq_conjugate a hinv h

/-- every power of a unitary element is unitary (so the statement above applies to all of `⟨a⟩`). -/
theorem gt_unitary_pow (a : Q12 R) (h : a * Q12.conj a = 1) (k : Nat) : a ^ k * Q12.conj (a ^ k) = 1 :=
  pow_mul_conj a h k

/-! ### 4. squaring -/

omit [TowerConsts R] in
/-- the generic squaring `Fq12::square` (aliased form) is the square, for every input. -/
theorem gt_square (a : Q12 R) : Fq12.square_oa a = a * a := Fq12.square_oa_spec a

omit [TowerConsts R] in
/-- under (H-cyc) the fast squaring (`gt_double`) agrees with it on every power of `a`, both alias forms. -/
theorem gt_square_cyclotomic (a : Q12 R) (hcyc : ∀ n : Nat, Fq12.square_cyclotomic_oa (a ^ n) = a ^ n * a ^ n)
    (n : Nat) : Fq12.square_cyclotomic_oa (a ^ n) = Fq12.square_oa (a ^ n) ∧
      Fq12.square_cyclotomic (a ^ n) = (a ^ n) ^ 2 := by
  refine ⟨by rw [hcyc n, Fq12.square_oa_spec], ?_⟩
  rw [← Fq12.square_cyclotomic_oa_alias, hcyc n, pow_two]

end

/-! ### 5. the random-exponent routine -/

/-- `PowersOfX::random`, for every byte stream (and every loop bound of the model): the digits returned are four
values below `|x|`, they recombine to the returned `y`, and `y < r` (the exit condition of the rejection loop). -/
theorem xrand_spec (fuel : Nat) (s : RS) :
    ∃ c0 c1 c2 c3, (xrandModel fuel s).2.1 = [c0, c1, c2, c3] ∧ c0 < blsX ∧ c1 < blsX ∧ c2 < blsX ∧ c3 < blsX ∧
      xadicVal (xrandModel fuel s).2.1 = (xrandModel fuel s).1 ∧ (xrandModel fuel s).1 < r :=
  xrandModel_spec fuel s

/-- Uniformity, combinatorial core (i): a digit vector below `|x|` is determined by its value … -/
theorem xrand_digits_unique (c0 c1 c2 c3 d0 d1 d2 d3 : Nat) (hc0 : c0 < blsX) (hc1 : c1 < blsX) (hc2 : c2 < blsX)
    (hd0 : d0 < blsX) (hd1 : d1 < blsX) (hd2 : d2 < blsX)
    (h : xadicVal [c0, c1, c2, c3] = xadicVal [d0, d1, d2, d3]) : [c0, c1, c2, c3] = [d0, d1, d2, d3] :=
  xadicVal_inj c0 c1 c2 c3 d0 d1 d2 d3 hc0 hc1 hc2 hd0 hd1 hd2 h

/-- … (ii) and every `y ∈ [0, r)` is the value of such a vector.  Hence rejection sampling from independent uniform
digits in `[0, |x|)` (each itself by rejection from 64 uniform bits) accepts each `y < r` through exactly one vector:
`y` is uniform on `[0, r)`.  (The probabilistic statement itself is not formalised.) -/
theorem xrand_digits_exist (y : Nat) (hy : y < r) :
    ∃ c0 c1 c2 c3, c0 < blsX ∧ c1 < blsX ∧ c2 < blsX ∧ c3 < blsX ∧ xadicVal [c0, c1, c2, c3] = y :=
  xadicVal_surj y hy

/-- **`Fq12::random_gt`** (= `PowersOfX::random`, then the loop on the sampled digits): for every byte stream the
returned exponent is below `r` and the returned element is exactly `a ^ y`, under (H-frob) and (H-cyc). -/
theorem gt_rand_correct {R : Type} [CommRing R] [TowerConsts R] (a : Q12 R)
    (hfrob : ∀ j < 4, gtTable a j = a ^ (blsX ^ j))
    (hcyc : ∀ n : Nat, Fq12.square_cyclotomic_oa (a ^ n) = a ^ n * a ^ n) (fuel : Nat) (s : RS) :
    (xrandModel fuel s).1 < r ∧ exponentiateGt a (xrandModel fuel s).2.1 = a ^ (xrandModel fuel s).1 :=
  GtExp.gt_rand_correct a hfrob hcyc fuel s

/-! ### non-vacuity -/

section NonVacuity
/-- constant tables with every entry 1 (all Frobenius maps are then the identity) -/
local instance trivialConsts : TowerConsts ℤ where
  fq2_frobenius_coeff _ := 1
  fq6_frobenius_coeff_c1 _ := 1
  fq6_frobenius_coeff_c2 _ := 1
  fq12_frobenius_coeff_c1 _ := 1
  g1_endomorphism_beta := 1
  uplusonetotheqminusoneoversix := 1

/-- the model evaluates, `found_one` included: `0 ∈ Q12 ℤ` satisfies the Granger–Scott equations (cyclotomic squaring
maps the closed set {0, 1} to squares), all its table entries are 0, and the loop returns `1` exactly when no examined
bit is set — as `exponentiateGt_eq_prod` predicts (`0^0 = 1`). -/
example : exponentiateGt (0 : Q12 ℤ) [0, 0, 0, 0] = 1 ∧ exponentiateGt (0 : Q12 ℤ) [0, 2 ^ 64] = 1 ∧
    exponentiateGt (0 : Q12 ℤ) [4, 3] = 0 := by decide +kernel

/-- the hypotheses of `exponentiateGt_eq_prod` are satisfiable with a non-trivial `P` and `a ≠ 1`. -/
example (c : List Nat) : exponentiateGt (0 : Q12 ℤ) c =
    ∏ j ∈ Finset.range 4, gtTable (0 : Q12 ℤ) j ^ (c.getD j 0 % 2 ^ 64) := by
  have ht : ∀ j < 4, gtTable (0 : Q12 ℤ) j = 0 := by decide +kernel
  refine exponentiateGt_eq_prod 0 c (fun y => y = 0 ∨ y = 1) (Or.inr rfl) ?_ ?_ ?_
  · rintro x y (rfl | rfl) (rfl | rfl) <;> simp
  · intro j hj; exact Or.inl (ht j hj)
  · rintro y (rfl | rfl) <;> decide +kernel

/-- the hypotheses of `gt_exp_correct` are jointly satisfiable (here by `a = 1`; for the elements of the real target
group they are the subject of `Proofs/Cyclotomic.lean` / `Proofs/FinalExp.lean`, and the judge compares the model with
`a ^ (k mod r)` on every `gt_exp` line). -/
example : exponentiateGt (1 : Q12 ℤ) (xadic (2 ^ 256 - 1)) = 1 ^ (2 ^ 256 - 1) :=
  gt_exp_correct 1 (one_pow _) (by simp only [one_pow]; decide +kernel) (by intro n; simp only [one_pow]; decide +kernel) _ (by decide)

/-- the exported `generator_pairing` as an element of `Fq12` (Montgomery form removed) -/
def gtGenConst : Fq12 :=
  let c := Consts.generator_pairing.map unmontC
  let f := fun i => c.getD i 0
  ⟨⟨⟨f 0, f 1⟩, ⟨f 2, f 3⟩, ⟨f 4, f 5⟩⟩, ⟨⟨f 6, f 7⟩, ⟨f 8, f 9⟩, ⟨f 10, f 11⟩⟩⟩

/-- known-answer check on the real field and tables (kernel evaluation, no compiler): for `generator_pairing` and
`k = 2^256 − 1` the model returns `g ^ (k mod r)` (`npow` is the monoid power, `Proofs/Pow.lean`). -/
example : exponentiateGt gtGenConst (xadic (2 ^ 256 - 1)) = npow gtGenConst ((2 ^ 256 - 1) % r) := by
  decide +kernel

/-- the sampler model runs: an all-zero stream yields digits 0 and `y = 0`. -/
example : (xrandModel 3 { bytes := List.replicate 32 0 }).1 = 0 := by decide +kernel
end NonVacuity

end Jedi.C07
