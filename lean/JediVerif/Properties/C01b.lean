/-
C01 (continued) — the universally quantified refinement: the implementation model of `pairing` IS the textbook
optimal-ate pairing, on all inputs for which the Miller loop meets no exceptional point.

Property theorems only (proofs in Proofs/PairingRefine.lean, which assembles Proofs/MillerSteps.lean,
Proofs/MillerRefine.lean, Proofs/FinalExp.lean and Proofs/FqTower.lean).  Objects as in C01.lean: `Impl.pairing` = the
hand-written loop skeleton over the Miller steps, `ell` and `final_exponentiation` REGENERATED from pairing.cpp;
`ateSpec` = Spec/Pairing.lean (affine chord-and-tangent Miller loop on the untwisted point with dense Fq12 arithmetic,
inversion for negative x, literal exponent `finalExponent = 3(q¹²−1)/r` applied by square-and-multiply `npow`).

Remaining hypothesis, stated explicitly in every theorem that needs it:
  `noExc Q.x Q.y (bitsBelowTop blsX) (.aff Q.x Q.y) = true`
— a DECIDABLE predicate (Proofs/MillerRefine.lean) that mentions only the Spec's affine multiples of Q: along the
double-and-add chain of |x| = 0xd201000000010000 started at Q, every point that is doubled is finite and not 2-torsion,
and every point 2T to which Q is added is finite with x(2T) ≠ x(Q) (2T ≠ ±Q).  The multiples involved are [m]Q for m a
binary prefix of |x| or its double (m < 2⁶⁴), so the predicate holds for every Q of prime order r > 2⁶⁴ — that
group-theoretic fact is not proved in Lean; the predicate is kernel-evaluated for the published generator (5. below), and
is checked at run time by the correspondence on the sampled inputs.  Where the C++ code is NOT the pairing (the
addition step with T = Q returns the zero line; additions from ∞ stay at ∞) is documented in Proofs/MillerSteps.lean.
No curve equation and no subgroup membership of P or Q is used.  Bilinearity is not claimed here (H-bilinear).
-/
import JediVerif.Proofs.PairingRefine
import JediVerif.Properties.C01

namespace Jedi.C01
open Jedi Jedi.Gen Jedi.Impl Jedi.KAT

/-! ### 1. the final exponentiation is the power 3(q¹²−1)/r -/

/-- the generated `final_exponentiation` chain (easy part by conjugation/inversion/Frobenius, hard part by the
x-power addition chain) raises every non-zero element of Fq12 to the power `3·(q¹²−1)/r`. -/
theorem final_exponentiation_is_power (a : Fq12) (ha : a ≠ 0) :
    final_exponentiation a = a ^ (3 * ((q ^ 12 - 1) / r)) ∧
      final_exponentiation_oa a = a ^ (3 * ((q ^ 12 - 1) / r)) :=
  ⟨PairingRefine.final_exponentiation_is_pow a ha, PairingRefine.final_exponentiation_oa_is_pow a ha⟩

/-- for ALL inputs (0 ↦ 0 included) it is the Spec's literal power `npow · finalExponent`; both aliasing forms. -/
theorem final_exponentiation_is_spec_power (a : Fq12) :
    final_exponentiation a = npow a finalExponent ∧ final_exponentiation_oa a = npow a finalExponent :=
  ⟨PairingRefine.final_exponentiation_eq_npow a, PairingRefine.final_exponentiation_oa_eq_npow a⟩

theorem final_exponentiation_zero : final_exponentiation (0 : Fq12) = 0 := PairingRefine.final_exponentiation_zero

/-- multiplicative on all inputs -/
theorem final_exponentiation_multiplicative (x y : Fq12) :
    final_exponentiation (x * y) = final_exponentiation x * final_exponentiation y := PairingRefine.fe_mul x y

/-- the output has order dividing r, for every non-zero input -/
theorem final_exponentiation_order (a : Fq12) (ha : a ≠ 0) : final_exponentiation a ^ r = 1 :=
  PairingRefine.final_exponentiation_pow_r_Fq a ha

/-! ### 2. what the final exponentiation kills -/

/-- every monomial `k·w^j` with `k ∈ Fq2` non-zero (the shape of the factor by which the projective, sparse line
coefficients of the C++ Miller steps differ from the affine textbook lines) is sent to 1; so is −1. -/
theorem final_exponentiation_kills_monomials (k : Fq2) (hk : k ≠ 0) (j : Nat) :
    final_exponentiation (Q12.ofQ2 k * Q12.w ^ j : Fq12) = 1 := PairingRefine.fe_kills_monomial k hk j

theorem final_exponentiation_neg_one : final_exponentiation (-1 : Fq12) = 1 := PairingRefine.fe_neg_one

/-- conjugation (how the library handles x < 0) and inversion (how the textbook does) agree after the final
exponentiation, on every input. -/
theorem final_exponentiation_conj_eq_inv (f : Fq12) :
    final_exponentiation (Q12.conj f) = final_exponentiation (f⁻¹) := PairingRefine.fe_conj_eq_fe_inv_all f

/-! ### 4. the refinement theorem -/

/-- **the implementation model of `pairing(result, g1, g2)` equals the textbook optimal-ate pairing** for all finite
P ∈ Fq², Q ∈ Fq2² with `noExc` for Q (see the file header).  Nothing is assumed about P. -/
theorem pairing_eq_textbook (P : Aff Fq) (Q : Aff Fq2) (hP : P.infinity = false) (hQ : Q.infinity = false)
    (hok : noExc Q.x Q.y (bitsBelowTop blsX) (.aff Q.x Q.y) = true) :
    Impl.pairing P Q = ateSpec (.aff P.x P.y) (.aff Q.x Q.y) :=
  PairingRefine.pairing_eq_textbook P Q hP hQ hok

/-- **total form**: ALL inputs, identity members included (`Aff.toPt` maps a set infinity flag to the Spec's `inf`);
`noExc` is required only when both members are finite. -/
theorem pairing_eq_textbook_all (P : Aff Fq) (Q : Aff Fq2)
    (hok : P.infinity = false → Q.infinity = false →
      noExc Q.x Q.y (bitsBelowTop blsX) (.aff Q.x Q.y) = true) :
    Impl.pairing P Q = ateSpec P.toPt Q.toPt :=
  PairingRefine.pairing_eq_textbook_total P Q hok

/-- the same through `G2Prepared` -/
theorem pairing_prepared_eq_textbook (P : Aff Fq) (Q : Aff Fq2) (hP : P.infinity = false)
    (hQ : Q.infinity = false) (hok : noExc Q.x Q.y (bitsBelowTop blsX) (.aff Q.x Q.y) = true) :
    Impl.pairingPrepared P (Impl.prepare Q) = ateSpec (.aff P.x P.y) (.aff Q.x Q.y) :=
  PairingRefine.pairingPrepared_eq_textbook P Q hP hQ hok

/-- the intermediate statement: the raw Miller value of the implementation is the conjugate of a monomial times the
textbook Miller function f_{|x|,ψ(Q)}(P). -/
theorem miller_loop_eq_textbook_up_to_monomial (P : Aff Fq) (Q : Aff Fq2) (hP : P.infinity = false)
    (hQ : Q.infinity = false) (hok : noExc Q.x Q.y (bitsBelowTop blsX) (.aff Q.x Q.y) = true) :
    millerLoop [(P, Q)] [] = Q12.conj (kappaTotal Q * millerSpec blsX (.aff P.x P.y) (.aff Q.x Q.y)) ∧
      ∃ k : Fq2, k ≠ 0 ∧ ∃ j : Nat, kappaTotal Q = Q12.ofQ2 k * Q12.w ^ j :=
  ⟨PairingRefine.millerLoop_refines_Fq P Q hP hQ (noExc_addOK _ _ _ _ hok),
    PairingRefine.kappaTotal_mono_Fq Q hQ hok⟩

/-- with `P.y ≠ 0` (true for every point of odd order) neither Miller value vanishes … -/
theorem miller_values_ne_zero (P : Aff Fq) (Q : Aff Fq2) (hP : P.infinity = false) (hQ : Q.infinity = false)
    (hy : P.y ≠ 0) (hok : noExc Q.x Q.y (bitsBelowTop blsX) (.aff Q.x Q.y) = true) :
    millerSpec blsX (.aff P.x P.y) (.aff Q.x Q.y) ≠ 0 ∧ millerLoop [(P, Q)] [] ≠ 0 :=
  ⟨PairingRefine.millerSpec_ne_zero P Q hy hok, PairingRefine.millerLoop_ne_zero P Q hP hQ hy hok⟩

/-- … and **the pairing value has order dividing r** (r prime: `generator_pairing_order`), in both the implementation
model and the specification. -/
theorem pairing_pow_r (P : Aff Fq) (Q : Aff Fq2) (hP : P.infinity = false) (hQ : Q.infinity = false)
    (hy : P.y ≠ 0) (hok : noExc Q.x Q.y (bitsBelowTop blsX) (.aff Q.x Q.y) = true) :
    Impl.pairing P Q ^ r = 1 ∧ ateSpec (.aff P.x P.y) (.aff Q.x Q.y) ^ r = 1 := by
  have h := PairingRefine.pairing_pow_r P Q hP hQ hy hok
  exact ⟨h, by rw [← PairingRefine.pairing_eq_textbook P Q hP hQ hok]; exact h⟩

/-! ### 5. non-vacuity: the published generators satisfy every hypothesis (closed, kernel-evaluated) -/

theorem generators_satisfy_hypotheses :
    g1GenAff.infinity = false ∧ g2GenAff.infinity = false ∧ g1GenAff.y ≠ 0 ∧
      noExc g2GenAff.x g2GenAff.y (bitsBelowTop blsX) (.aff g2GenAff.x g2GenAff.y) = true :=
  ⟨PairingRefine.g1Gen_finite, PairingRefine.g2Gen_finite, PairingRefine.g1Gen_y_ne_zero, PairingRefine.g2Gen_noExc⟩

/-- so the refinement theorem yields, WITHOUT evaluating either side, the equality that
`impl_eq_textbook_on_generators` (C01.lean) obtains by evaluating both. -/
theorem pairing_eq_textbook_on_generators_by_refinement :
    Impl.pairing g1GenAff g2GenAff = ateSpec g1Gen g2Gen := by
  rw [exported_generators_are_published.1, exported_generators_are_published.2.1]
  exact PairingRefine.pairing_eq_textbook_generators

end Jedi.C01
