/-
C06 — scalar multiplication returns [k]P for every scalar and every algorithm; the signed-digit
recoding and the scalar decompositions represent exactly the scalar (modulo r where the group
order is used) and never exceed their fixed-size digit buffers.

Property theorems only; the proofs are in `JediVerif/Proofs/WnafProofs.lean`.  The objects are
the executable models the judge runs:
* `Impl.wnafDigits bits w wrap k`   — `WnafScalar<bits, w>::from_bigint` (wnaf.hpp); `wrap = false`
  is the repaired code (carry of the add-back kept), `wrap = true` the code before the repair.
* `Impl.decomposeLambda`            — `decompose_lambda` (curve_fast_multiply.cpp), GLV split for G1.
* `Impl.xadic`                      — `PowersOfX::decompose` (decomposition.cpp), base-|x| digits for G2.
* `Impl.fillTable`, `Impl.wnafTableMultiply`, `Impl.wnafMultiply`, `Impl.doubleAdd`
                                    — the evaluation loops (`Impl/ScalarMul.lean`), generic in `GOps G`.
The evaluation theorems hold over an arbitrary commutative group `G` whose operations are the
ones in the `GOps` record (`GOps.Lawful`); `•` is Mathlib's `ℕ`/`ℤ` scalar multiple.
-/
import JediVerif.Proofs.WnafProofs

namespace Jedi.C06
open Jedi Jedi.Impl Jedi.Gen.Consts

/-! ### (a)–(d) the wNAF recoding -/

/-- (a) The repaired recoding represents exactly the scalar: `Σ dᵢ·2^i = k` for every `k < 2^bits`,
every register width and every window (in particular the fuel `bits + 2` of the model — the loop
bound — is sufficient).  No hypothesis on `w` is needed. -/
theorem wnaf_represents (bits w k : Nat) (hk : k < 2 ^ bits) :
    digitsVal (wnafDigits bits w false k) = k :=
  wnafDigits_val bits w k hk

/-- (b) The recoding never exceeds the `bits + 1` entries of `WnafScalar::wnaf`. -/
theorem wnaf_length (bits w k : Nat) (hk : k < 2 ^ bits) :
    (wnafDigits bits w false k).length ≤ bits + 1 :=
  wnafDigits_length bits w k hk

/-- (c) Every digit is zero, or odd with `|d| < 2^w` (so `d >> 1` indexes the `2^(w-1)`-entry
table and `d` fits the `int8_t` buffer for `w ≤ 7`).  Holds for both variants of the loop. -/
theorem wnaf_digits_small (bits w : Nat) (wrap : Bool) (hw : 1 ≤ w) (k : Nat) :
    ∀ d ∈ wnafDigits bits w wrap k, d = 0 ∨ (d % 2 = 1 ∧ d.natAbs < 2 ^ w) :=
  wnafDigits_small bits w wrap hw k

/-- (c') Non-adjacency: the `w` digits following a non-zero digit are zero. -/
theorem wnaf_nonadjacent (bits w k i j : Nat) (hij : i < j) (hjw : j ≤ i + w)
    (hi : (wnafDigits bits w false k).getD i 0 ≠ 0) : (wnafDigits bits w false k).getD j 0 = 0 :=
  wnafLoop_nonadjacent bits w (bits + 2) k i j hij hjw hi

/-- (d) The code before the repair computed the same recoding unless the scalar is within `2^w`
of the top of the register. -/
theorem wnaf_wrap_agrees (bits w k : Nat) (hk : k + 2 ^ w ≤ 2 ^ bits) :
    wnafDigits bits w true k = wnafDigits bits w false k :=
  wnafLoop_wrap_agrees bits w (bits + 2) k hk

/-- (d) … and near the top it was wrong (finding F1): for the 256-bit, window-4 instance the
library uses, the old recoding of `2^256 − 1` is `[-1]`, which represents `−1`.
Checked by kernel evaluation of the model. -/
theorem wnaf_wrap_wrong : digitsVal (wnafDigits 256 4 true (2 ^ 256 - 1)) ≠ 2 ^ 256 - 1 := by decide

/-! ### (e) the evaluation loops over a commutative group -/

section Group
variable {G : Type} [AddCommGroup G] {ops : GOps G}

/-- `WnafTable::fill_table`: `2^(w-1)` entries, entry `j` is `(2j+1)·P`. -/
theorem fillTable_spec (h : ops.Lawful) (w : Nat) (P : G) :
    (fillTable ops w P).length = 2 ^ (w - 1) ∧
    ∀ j < 2 ^ (w - 1), (fillTable ops w P).getD j ops.zero = (2 * j + 1) • P :=
  ⟨fillTable_length ops w P, fun j hj => fillTable_getD h w P j hj⟩

/-- `wnaf_table_multiply`: from a table of the odd multiples of `P` and well-formed digits the
loop (including the `found_one` shortcut) returns `(Σ dᵢ·2^i)·P`. -/
theorem wnafTableMultiply_spec (h : ops.Lawful) (w : Nat) (hw : 1 ≤ w) (P : G) (table : Nat → G)
    (ht : ∀ j < 2 ^ (w - 1), table j = (2 * j + 1) • P) (ds : List Int)
    (hds : ∀ d ∈ ds, d = 0 ∨ (d % 2 = 1 ∧ d.natAbs < 2 ^ w)) :
    wnafTableMultiply ops table ds = digitsVal ds • P :=
  wnafTableMultiply_eq h w hw P table ht ds hds

/-- `multiply_doubleadd_restrict` returns `[k]P` for a `bits`-bit scalar. -/
theorem doubleAdd_spec (h : ops.Lawful) (P : G) (k bits : Nat) (hk : k < 2 ^ bits) :
    doubleAdd ops P k bits = k • P := by
  rw [doubleAdd_eq h P k bits, Nat.mod_eq_of_lt hk]

/-- `wnaf_multiply` (fill the table, recode with the repaired `from_bigint`, evaluate)
returns `[k]P` for every `k < 2^bits` and every window `w ≥ 1`. -/
theorem wnaf_multiply_correct (h : ops.Lawful) (bits w : Nat) (hw : 1 ≤ w) (P : G) (k : Nat)
    (hk : k < 2 ^ bits) : wnafMultiply ops bits w P k = k • P :=
  wnafMultiply_eq h bits w hw P k hk

/-- the two algorithms agree. -/
theorem wnaf_eq_doubleAdd (h : ops.Lawful) (bits w : Nat) (hw : 1 ≤ w) (P : G) (k : Nat)
    (hk : k < 2 ^ bits) : wnafMultiply ops bits w P k = doubleAdd ops P k bits := by
  rw [wnaf_multiply_correct h bits w hw P k hk, doubleAdd_spec h P k bits hk]

/-- the hypothesis `ops.Lawful` is satisfiable: the operations of the group itself. -/
theorem ofGroup_lawful : (GOps.ofGroup G).Lawful := GOps.ofGroup_lawful

end Group

/-! ### (f) base-|x| decomposition (`PowersOfX::decompose`) -/

/-- The four digits recombine to the input after the single conditional subtraction of `r`
(no 64-bit truncation of the last quotient occurs). -/
theorem xadic_represents (y : Nat) (hy : y < 2 ^ 256) :
    xadicVal (xadic y) = if y < r then y else y - r :=
  xadicVal_xadic y hy

/-- Digit ranges: three digits below `|x|`, the last one leaves room for the window-2 add-back
in a 64-bit register. -/
theorem xadic_digits (y : Nat) (hy : y < 2 ^ 256) :
    ∃ c0 c1 c2 c3, xadic y = [c0, c1, c2, c3] ∧
      c0 < blsX ∧ c1 < blsX ∧ c2 < blsX ∧ c3 + 3 < 2 ^ 64 :=
  Impl.xadic_digits y hy

/-- hence the digits represent the scalar modulo the group order. -/
theorem xadic_mod_r (y : Nat) (hy : y < 2 ^ 256) : xadicVal (xadic y) % r = y % r :=
  xadicVal_mod y hy

/-- … and give the same multiple of any point killed by `r`. -/
theorem xadic_scalar_correct {G : Type} [AddCommGroup G] (P : G) (hP : r • P = 0) (y : Nat)
    (hy : y < 2 ^ 256) : xadicVal (xadic y) • P = y • P :=
  nsmul_eq_of_mod_eq P hP (xadicVal_mod y hy)

/-! ### (g), (h) GLV decomposition (`decompose_lambda`) -/

/-- (g) `c0 + c1·λ ≡ k (mod r)` with the signs carried by the flags, for every 256-bit `k`
(whatever the accuracy of the reciprocal-based quotient: the identity holds for any `b2`). -/
theorem glv_congruence (k : Nat) (_hk : k < 2 ^ 256) :
    let g := decomposeLambda k
    ((if g.c0neg then -(g.c0 : Int) else g.c0) + (if g.c1neg then -(g.c1 : Int) else g.c1) * glvLambda
      - k) % r = 0 :=
  glv_congr k

/-- (g') hence `[c0]P + [c1]φ(P) = [k]P` for every `P` killed by `r` on which the endomorphism
acts as `λ`. -/
theorem glv_scalar_correct {G : Type} [AddCommGroup G] (P : G) (hP : (r : Int) • P = 0) (k : Nat) :
    let g := decomposeLambda k
    (if g.c0neg then -(g.c0 : Int) else g.c0) • P
      + (if g.c1neg then -(g.c1 : Int) else g.c1) • ((glvLambda : Int) • P) = (k : Int) • P :=
  glv_smul P hP k

/-- (h) both halves leave room for the window-4 add-back in their 256-bit registers. -/
theorem glv_fits (k : Nat) (hk : k < 2 ^ 256) :
    (decomposeLambda k).c0 + 16 ≤ 2 ^ 256 ∧ (decomposeLambda k).c1 + 16 ≤ 2 ^ 256 :=
  Impl.glv_fits k hk

/-- the constants behind (g): `v1_2·λ ≡ 1` and `v2_1 + λ ≡ 0 (mod r)`; `fr_modulus` is `r`. -/
theorem glv_lattice : (g1_v1_2 * glvLambda) % r = 1 ∧ (g1_v2_1 + glvLambda) % r = 0 ∧ fr_modulus = r := by
  decide

/-! ### non-vacuity: the models evaluate to non-trivial values -/

example : wnafDigits 8 2 false 255 = [-1, 0, 0, 0, 0, 0, 0, 0, 1] := by decide
example : wnafDigits 8 2 true 255 = [-1] := by decide
example : wnafDigits 16 4 false 0xBEEF = [15, 0, 0, 0, 0, -9, 0, 0, 0, 0, 0, 0, 0, 0, 3] := by decide
example : (wnafDigits 256 4 false (2 ^ 256 - 1)).length = 257 := by decide +kernel
example : xadic (2 ^ 256 - 1) =
    [14629233707595333630, 195505874469761692, 10577008429071461935, 18283857455383412146] := by decide
example : decomposeLambda 12345 = ⟨12345, false, 0, true⟩ := by decide +kernel
example : decomposeLambda (2 ^ 256 - 1) =
    ⟨77920854317153022565097574423042468774785923512978600663625281294129000611838, false,
     63604157099440229749978253162387083729, false⟩ := by decide +kernel
example : wnafMultiply (GOps.ofGroup Int) 8 4 1 255 = 255 := by decide
example : doubleAdd (GOps.ofGroup Int) 3 0xBEEF 16 = 3 * 0xBEEF := by decide
example : fillTable (GOps.ofGroup Int) 4 1 = [1, 3, 5, 7, 9, 11, 13, 15] := by decide
example : wnafTableMultiply (GOps.ofGroup Int) (fun j => 2 * j + 1) [-1, 0, 0, 0, 0, 0, 0, 0, 1] = 255 := by decide

end Jedi.C06
