/-
C02 (continued) — the prime-field operations of the library that are LOOPS or byte manipulations on top of the limb
arithmetic of `Properties/C02.lean`: inversion, exponentiation, Legendre symbol, the two square roots, `hash_reduce`,
`random`, big-endian byte I/O.  "… returns exactly the result of integer arithmetic modulo the prime, and every produced
element is the unique canonical representative below the modulus …  Inverting zero yields zero."

Property theorems only.  Models: `JediVerif/Impl/FpUtils.lean` (statement-by-statement mirrors at the level of values; the
judge runs each of them next to the real routine on every `fp_inv / fp_pow / fp_leg / fp_sqrt / fp_hred / fp_rand /
fp_rdbe / fp_wrbe` line and demands equal output).  Proofs: `JediVerif/Proofs/FpUtilsProofs.lean`, where every statement
is first proved for an ARBITRARY prime modulus / finite field / commutative monoid and then instantiated.

`Fq = Fin q`, `Fr = Fin r` carry the field structure of `Proofs/FqField.lean` (ring operations = core `Fin` arithmetic,
inverse = the Spec's Fermat inverse); the only inputs are the primality certificates `q_prime`, `r_prime`.

  model (Jedi.Impl)             mirrors
  fpInverseRaw / fqInverse …    core::fp_inverse          (binary extended Euclid on the stored Montgomery limbs)
  fpExponentiate(CT)            core::exponentiate        (default build / RESIST_SIDE_CHANNELS)
  fqLegendre, frLegendre        Fp::legendre
  fqSqrt                        Fq::square_root           (q ≡ 3 mod 4)
  frSqrt                        Fr::square_root           (Tonelli–Shanks, constants of fr.cpp)
  fqHashReduce, frHashReduce    Fq/Fr::hash_reduce
  fqRandom, frRandom            Fq/Fr::random             (over the explicit byte stream `RS` of Spec/Rand.lean)
  fqReadBE, fqWriteBE           Fq::read_big_endian / write_big_endian

Status: everything below is proved (axioms: propext, Classical.choice, Quot.sound).  Limits worth knowing:
  * `Fr::square_root` does not terminate on non-squares (the real loop spins: `t` keeps order 2^32); the model has fuel
    and returns `none` there.  Proved: on every square the fuel is NOT exhausted and the result squares to the input;
    on every non-square the model returns `none` for ANY fuel (`t` never becomes 1).
  * `fp_inverse` needs reduced limbs (`a < p`); for non-reduced limbs (e.g. `a = p`) the real loop does not terminate.
  * `Fq::compare` (orders the stored limbs) and the limb-level operations are in `Properties/C02.lean`.
-/
import JediVerif.Proofs.FpUtilsProofs

namespace Jedi.C02
open Jedi Jedi.Impl Jedi.Gen

/-! ## Inversion (`fp_inverse`, fp_utils.hpp l.100) -/

/-- Binary extended Euclid on stored limbs, any odd prime `p` with a spare top bit (`2p ≤ 2^bits`), any reduced constant
`r2`: for reduced non-zero limbs `a` the result is reduced and `result · a ≡ r2 (mod p)` — with `r2 = R² mod p` and
`a = x·R` this is the Montgomery form of `x⁻¹`. -/
theorem fp_inverse_limbs {p bits r2 a : Nat} (hp : p.Prime) (h2 : 2 < p) (hbits : 2 * p ≤ 2 ^ bits)
    (hr2 : r2 < p) (ha0 : 0 < a) (ha : a < p) :
    fpInverseRaw p bits r2 a < p ∧ fpInverseRaw p bits r2 a * a ≡ r2 [MOD p] :=
  fpInverseRaw_spec hp h2 hbits hr2 ha0 ha

/-- the zero special case: `if (a.is_zero()) { res.set_zero(); return; }` -/
theorem fp_inverse_limbs_zero (p bits r2 : Nat) : fpInverseRaw p bits r2 0 = 0 := fpInverseRaw_zero p bits r2

/-- `fp_inverse` on `Fq` / `Fr` elements is the field inverse, for ALL inputs. -/
theorem fq_inverse (x : Fq) : fqInverse x = x⁻¹ := fqInverse_eq x
theorem fr_inverse (x : Fr) : frInverse x = x⁻¹ := frInverse_eq x

theorem fq_inverse_mul (x : Fq) (hx : x ≠ 0) : x * fqInverse x = 1 := by rw [fq_inverse, mul_inv_cancel₀ hx]
theorem fr_inverse_mul (x : Fr) (hx : x ≠ 0) : x * frInverse x = 1 := by rw [fr_inverse, mul_inv_cancel₀ hx]

/-- "Inverting zero yields zero." -/
theorem fq_inverse_zero : fqInverse 0 = 0 := by rw [fq_inverse, inv_zero]
theorem fr_inverse_zero : frInverse 0 = 0 := by rw [fr_inverse, inv_zero]

/-- the model agrees with the Spec inverse the judge uses (`finInv`, Fermat) -/
theorem fq_inverse_eq_spec (x : Fq) : fqInverse x = finInv x := fqInverse_eq x
theorem fr_inverse_eq_spec (x : Fr) : frInverse x = finInv x := frInverse_eq x

/-- stored limbs returned for `Fq` / `Fr`: canonical (below the modulus) -/
theorem fq_inverse_limbs {a : Nat} (ha0 : 0 < a) (ha : a < q) :
    fpInverseRaw q 384 Consts.fq_R2 a < q ∧ fpInverseRaw q 384 Consts.fq_R2 a * a ≡ Consts.fq_R2 [MOD q] :=
  fqInverseRaw_spec ha0 ha
theorem fr_inverse_limbs {a : Nat} (ha0 : 0 < a) (ha : a < r) :
    fpInverseRaw r 256 Consts.fr_R2 a < r ∧ fpInverseRaw r 256 Consts.fr_R2 a * a ≡ Consts.fr_R2 [MOD r] :=
  frInverseRaw_spec ha0 ha

/-! ## Exponentiation (`exponentiate`, fp_utils.hpp l.60-93) -/

/-- square-and-multiply over the `bits` bits of the exponent, in any commutative monoid: the power by the exponent
(reduced to `bits` bits, which is all a `BigInt<bits>` holds).  Both build variants. -/
theorem exponentiate_eq {M : Type} [CommMonoid M] (bits : Nat) (a : M) (e : Nat) :
    fpExponentiate bits a e = a ^ (e % 2 ^ bits) := fpExponentiate_eq bits a e
theorem exponentiate_ct_eq {M : Type} [CommMonoid M] (bits : Nat) (a : M) (e : Nat) :
    fpExponentiateCT bits a e = a ^ (e % 2 ^ bits) := fpExponentiateCT_eq bits a e

theorem fq_exponentiate (x : Fq) {e : Nat} (he : e < 2 ^ 384) : fqExponentiate x e = x ^ e := fqExponentiate_eq x he
theorem fr_exponentiate (x : Fr) {e : Nat} (he : e < 2 ^ 256) : frExponentiate x e = x ^ e := frExponentiate_eq x he

/-- agreement with the Spec power `npow` the judge uses -/
theorem fq_exponentiate_eq_spec (x : Fq) {e : Nat} (he : e < 2 ^ 384) : fqExponentiate x e = npow x e := by
  rw [fq_exponentiate x he, npow_eq_pow]
theorem fr_exponentiate_eq_spec (x : Fr) {e : Nat} (he : e < 2 ^ 256) : frExponentiate x e = npow x e := by
  rw [fr_exponentiate x he, npow_eq_pow]

/-! ## Legendre symbol (`Fp::legendre`, fp.hpp l.303) -/

/-- in any finite field of odd order `p ≤ 2^bits`: the result is 0, 1 or −1; 0 exactly for 0; 1 exactly for the non-zero
squares; −1 exactly for the non-squares; and it is Euler's power `x^((p-1)/2)`. -/
theorem legendre_generic {K : Type} [Field K] [Fintype K] [DecidableEq K] {p bits : Nat}
    (hcard : Fintype.card K = p) (hodd : p % 2 = 1) (hb : p ≤ 2 ^ bits) (x : K) :
    (legendre p bits x = 0 ∨ legendre p bits x = 1 ∨ legendre p bits x = -1) ∧
    (legendre p bits x = 0 ↔ x = 0) ∧
    (legendre p bits x = 1 ↔ x ≠ 0 ∧ IsSquare x) ∧
    (legendre p bits x = -1 ↔ ¬ IsSquare x) ∧
    ((legendre p bits x : ℤ) : K) = x ^ ((p - 1) / 2) :=
  ⟨legendre_range p bits x, legendre_eq_zero_iff hcard hodd hb x, legendre_eq_one_iff hcard hodd hb x,
    legendre_eq_neg_one_iff hcard hodd hb x, legendre_eq_pow hcard hodd hb x⟩

theorem fq_legendre_range (x : Fq) : fqLegendre x = 0 ∨ fqLegendre x = 1 ∨ fqLegendre x = -1 := fqLegendre_range x
theorem fq_legendre_zero (x : Fq) : fqLegendre x = 0 ↔ x = 0 := fqLegendre_eq_zero_iff x
theorem fq_legendre_one (x : Fq) : fqLegendre x = 1 ↔ x ≠ 0 ∧ IsSquare x := fqLegendre_eq_one_iff x
theorem fq_legendre_neg_one (x : Fq) : fqLegendre x = -1 ↔ ¬ IsSquare x := fqLegendre_eq_neg_one_iff x
theorem fq_legendre_euler (x : Fq) : ((fqLegendre x : ℤ) : Fq) = x ^ ((q - 1) / 2) := fqLegendre_eq_pow x
theorem fq_legendre_eq_spec (x : Fq) : fqLegendre x = finLegendre x := fqLegendre_eq_finLegendre x

theorem fr_legendre_range (x : Fr) : frLegendre x = 0 ∨ frLegendre x = 1 ∨ frLegendre x = -1 := frLegendre_range x
theorem fr_legendre_zero (x : Fr) : frLegendre x = 0 ↔ x = 0 := frLegendre_eq_zero_iff x
theorem fr_legendre_one (x : Fr) : frLegendre x = 1 ↔ x ≠ 0 ∧ IsSquare x := frLegendre_eq_one_iff x
theorem fr_legendre_neg_one (x : Fr) : frLegendre x = -1 ↔ ¬ IsSquare x := frLegendre_eq_neg_one_iff x
theorem fr_legendre_euler (x : Fr) : ((frLegendre x : ℤ) : Fr) = x ^ ((r - 1) / 2) := frLegendre_eq_pow x
theorem fr_legendre_eq_spec (x : Fr) : frLegendre x = finLegendre x := frLegendre_eq_finLegendre x

/-! ## Square roots -/

/-- `Fq::square_root` (the power `(q+1)/4`; the stored exponent is that number): on a square it returns a square root … -/
theorem fq_sqrt_exponent_eq : Consts.fq_qminusthreeoverfourplusone = (q + 1) / 4 := fq_sqrt_exponent
theorem fq_square_root {a : Fq} (ha : IsSquare a) : fqSqrt a * fqSqrt a = a := fqSqrt_sq ha
/-- … i.e. `±y` on `y²` … -/
theorem fq_square_root_mul_self (y : Fq) : fqSqrt (y * y) = y ∨ fqSqrt (y * y) = -y := fqSqrt_mul_self y
/-- … and on a non-square a square root of `−a` (so squaring the output tests squareness). -/
theorem fq_square_root_of_not_isSquare {a : Fq} (ha : ¬ IsSquare a) : fqSqrt a * fqSqrt a = -a :=
  fqSqrt_sq_of_not_isSquare ha
theorem fq_square_root_eq_spec (a : Fq) : fqSqrt a = Fq.sqrt a := fqSqrt_eq_spec a

/-- the constants of `Fr::square_root`: `r − 1 = 2^32·t` with `t` odd, `(t+1)/2` as stored, and the element stored as
`fr_root_of_unity` has multiplicative order exactly `2^32` (its `2^31`-th power is `−1`). -/
theorem fr_sqrt_constants :
    r - 1 = 2 ^ 32 * Consts.fr_t_constant ∧ Consts.fr_t_constant % 2 = 1 ∧
    2 * Consts.fr_tplusoneovertwo = Consts.fr_t_constant + 1 ∧
    (frRootOfUnity : Fr) ^ 2 ^ 31 = -1 ∧ (frRootOfUnity : Fr) ^ 2 ^ 32 = 1 :=
  ⟨fr_two_adicity, fr_t_odd, fr_tplusoneovertwo_eq, frRootOfUnity_pow, frRootOfUnity_pow_two_pow_32⟩

/-- Tonelli–Shanks as coded, in any field: if `2·th = tc + 1`, `c0^(2^(s-1)) = −1` and the input satisfies
`(a^tc)^(2^(s-1)) = 1` (true for squares when `|K| − 1 = 2^s·tc`), both loops stop within `fuel ≥ s` iterations and the
result squares to `a`. -/
theorem tonelli_shanks_generic {K : Type} [Field K] [DecidableEq K] {bits tc th s fuel : Nat} {c0 : K}
    (hs : 1 ≤ s) (hfuel : s ≤ fuel) (htc : tc < 2 ^ bits) (hth : th < 2 ^ bits) (h2 : 2 * th = tc + 1)
    (hc0 : c0 ^ 2 ^ (s - 1) = -1) {a : K} (ha : a ≠ 0 → (a ^ tc) ^ 2 ^ (s - 1) = 1) :
    ∃ y, tonelliShanks bits c0 tc th s fuel a = some y ∧ y * y = a :=
  tonelliShanks_spec hs hfuel htc hth h2 hc0 ha

/-- `Fr::square_root` terminates on every square and returns a square root of it … -/
theorem fr_square_root {a : Fr} (ha : IsSquare a) : ∃ y, frSqrt a = some y ∧ y * y = a := frSqrt_sq ha
/-- … i.e. `±y` on `y²`; zero goes to zero. -/
theorem fr_square_root_mul_self (y : Fr) : frSqrt (y * y) = some y ∨ frSqrt (y * y) = some (-y) := frSqrt_mul_self y
theorem fr_square_root_zero : frSqrt 0 = some 0 := frSqrt_zero
/-- On a non-square the loop of `Fr::square_root` never reaches `t = 1` (`t` keeps order `2^32`): the model returns `none`
whatever the fuel — the real routine does not terminate.  So the routine returns exactly on the squares. -/
theorem fr_square_root_not_isSquare {a : Fr} (ha : ¬ IsSquare a) : frSqrt a = none := frSqrt_none ha
theorem fr_square_root_terminates_iff (a : Fr) : (frSqrt a).isSome ↔ IsSquare a := frSqrt_isSome_iff a
theorem tonelli_shanks_not_isSquare_generic {K : Type} [Field K] [DecidableEq K] [Fintype K] {p bits tc th s fuel : Nat}
    {c0 : K} (hcard : Fintype.card K = p) (hs : 1 ≤ s) (hp : p - 1 = 2 ^ s * tc) (hodd : p % 2 = 1)
    (htc : tc < 2 ^ bits) (hc0 : c0 ^ 2 ^ s = 1) {a : K} (ha : ¬ IsSquare a) :
    tonelliShanks bits c0 tc th s fuel a = none :=
  tonelliShanks_not_isSquare hcard hs hp hodd htc hc0 ha

/-! ## `hash_reduce` -/

/-- generic: clear the top `8 − k` bits of the top byte, subtract `p` once if needed.  With `2^(bits-8+k) ≤ 2p` the
result is the masked integer reduced modulo `p` (canonical); the flag returned is the top bit of the limb array. -/
theorem hash_reduce_generic {p bits k x : Nat} (hbits : 8 ≤ bits) (hk : k ≤ 8) (hx : x < 2 ^ bits)
    (hp2 : 2 ^ (bits - 8 + k) ≤ 2 * p) :
    (Impl.hashReduce p bits (2 ^ k - 1) x).1 = x.testBit (bits - 1) ∧
    (Impl.hashReduce p bits (2 ^ k - 1) x).2 < p ∧
    (Impl.hashReduce p bits (2 ^ k - 1) x).2 = (x % 2 ^ (bits - 8 + k)) % p ∧
    (Impl.hashReduce p bits (2 ^ k - 1) x).2 =
      if x % 2 ^ (bits - 8 + k) < p then x % 2 ^ (bits - 8 + k) else x % 2 ^ (bits - 8 + k) - p :=
  hashReduce_spec hbits hk hx hp2

set_option exponentiation.threshold 800 in
/-- `Fq::hash_reduce`: limbs `x < 2^384` ↦ `(x mod 2^381) mod q`, returned flag = bit 383. -/
theorem fq_hash_reduce {x : Nat} (hx : x < 2 ^ 384) :
    (fqHashReduce x).1 = x.testBit 383 ∧ (fqHashReduce x).2 < q ∧ (fqHashReduce x).2 = (x % 2 ^ 381) % q ∧
    (fqHashReduce x).2 = if x % 2 ^ 381 < q then x % 2 ^ 381 else x % 2 ^ 381 - q := fqHashReduce_spec hx
/-- `Fr::hash_reduce`: limbs `x < 2^256` ↦ `(x mod 2^255) mod r`, returned flag = bit 255. -/
theorem fr_hash_reduce {x : Nat} (hx : x < 2 ^ 256) :
    (frHashReduce x).1 = x.testBit 255 ∧ (frHashReduce x).2 < r ∧ (frHashReduce x).2 = (x % 2 ^ 255) % r ∧
    (frHashReduce x).2 = if x % 2 ^ 255 < r then x % 2 ^ 255 else x % 2 ^ 255 - r := frHashReduce_spec hx

/-! ## `random` (rejection sampling over the caller's byte source) -/

/-- the result is always below the modulus … -/
theorem fq_random_lt (s : RS) : (fqRandom s).1 < q := fqRandom_lt s
theorem fr_random_lt (s : RS) : (frRandom s).1 < r := frRandom_lt s

/-- … it is the FIRST draw (one call of `get_random_bytes` for 48 resp. 32 bytes, little-endian, top 3 resp. 1 bits
cleared: `nthDraw`) that is below the modulus, all earlier draws having been rejected, the stream is advanced exactly
past it, and with the zero-padded stream the loop stops within `RS.fuel` draws. -/
theorem fq_random_first (s : RS) :
    ∃ j, j < s.fuel 48 ∧ (∀ i, i < j → q ≤ nthDraw 384 0x1F s i) ∧ nthDraw 384 0x1F s j < q ∧
      fqRandom s = (nthDraw 384 0x1F s j, RS.after 48 (j + 1) s) := fqRandom_first s
theorem fr_random_first (s : RS) :
    ∃ j, j < s.fuel 32 ∧ (∀ i, i < j → r ≤ nthDraw 256 0x7F s i) ∧ nthDraw 256 0x7F s j < r ∧
      frRandom s = (nthDraw 256 0x7F s j, RS.after 32 (j + 1) s) := frRandom_first s

set_option exponentiation.threshold 800 in
/-- the masked draw is the little-endian integer reduced modulo `2^381` resp. `2^255` -/
theorem fq_random_mask {x : Nat} (hx : x < 2 ^ 384) : maskTop 384 0x1F x = x % 2 ^ 381 := maskTop_fq hx
theorem fr_random_mask {x : Nat} (hx : x < 2 ^ 256) : maskTop 256 0x7F x = x % 2 ^ 255 := maskTop_fr hx

/-- the models are the Spec samplers (`Spec/Rand.lean`) used by the scheme-level properties -/
theorem fq_random_eq_spec (s : RS) : fqRandom s = randFqRaw s := fqRandom_eq_spec s
theorem fr_random_eq_spec (s : RS) : frRandom s = randFrRaw s := frRandom_eq_spec s

/-! ## Big-endian byte I/O -/

/-- `BigInt::read_big_endian` / `write_big_endian` (index-reversing copies of the little-endian byte array) -/
theorem bigint_read_big_endian {len : Nat} {buffer : List UInt8} (h : buffer.length = len) :
    bigintReadBE len buffer = ofBytesBE buffer := bigintReadBE_eq h
theorem bigint_write_big_endian (len v : Nat) : bigintWriteBE len v = toBytesBE len v := bigintWriteBE_eq len v

/-- `Fq::write_big_endian` writes the 48-byte big-endian encoding of the canonical integer `x.val < q` … -/
theorem fq_write_big_endian (x : Fq) : fqWriteBE x = toBytesBE 48 x.val := fqWriteBE_eq x
theorem fq_write_big_endian_length (x : Fq) : (fqWriteBE x).length = 48 := fqWriteBE_length x
theorem fq_write_big_endian_value (x : Fq) : ofBytesBE (fqWriteBE x) = x.val := ofBytesBE_fqWriteBE x

set_option exponentiation.threshold 800 in
/-- … `Fq::read_big_endian` reads 48 bytes, clears the top three bits and reduces modulo `q` … -/
theorem fq_read_big_endian {buffer : List UInt8} (h : buffer.length = 48) :
    fqReadBE buffer = Fin.ofNat q (ofBytesBE buffer % 2 ^ 381) := fqReadBE_eq h
/-- … and reading back what was written gives the element. -/
theorem fq_read_write_big_endian (x : Fq) : fqReadBE (fqWriteBE x) = x := fqReadBE_fqWriteBE x

/-! ## Non-vacuity -/

example : fqInverse 3 * 3 = 1 := by rw [mul_comm]; exact fq_inverse_mul 3 (by decide)
example : IsSquare (4 : Fr) := ⟨2, by decide⟩
example : ∃ y, frSqrt 4 = some y ∧ y * y = 4 := fr_square_root ⟨2, by decide⟩
example : fqLegendre 4 = 1 := (fq_legendre_one 4).2 ⟨by decide, ⟨2, by decide⟩⟩

end Jedi.C02
