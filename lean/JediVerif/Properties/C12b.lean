/-
C12 on the concrete BLS12-381 groups — keys open only matching ciphertexts (real curve operations, real pairing).

Raw-level versions (the computation of the judge: `Driver.g1Ops`/`g2Ops`, `ateSpec`, `npow`, Fq12 `⁻¹`) of the theorems of
Properties/C12.lean.  Remaining hypotheses: membership (`GensIn`, `InTors`), `SetupOkRaw`, `HBilinearFull`; for the "only
matching" direction additionally non-degeneracy, either in the exact form C12 uses (`hnd`, for the exponent that occurs)
or as the named hypothesis `HNonDegenerate` together with r ∤ s·ρ and g ≠ ∞.
The pattern-level facts of C12 (`opens_hidden`, `opens_fixed`, `hidden_stays_hidden`, `fixed_stays_fixed`,
`hidden_not_filled`) do not mention groups and apply verbatim.
-/
import JediVerif.Proofs.ConcreteGroups
import JediVerif.Properties.C12

namespace Jedi.C12b
open Jedi Jedi.Wk Jedi.Driver

variable {pp : RawParams} {g2alpha : G1Pt} {α : Nat}

/-- exact decryption formula with the real operations: for EVERY key pattern, every `prod` ∈ G1 and every message the
result is the message times e(prod − patternProduct π, g)^(s·ρ). -/
theorem decrypt_exact (H : HBilinearFull) (hg : GensIn pp) (hs : SetupOkRaw pp g2alpha α)
    (π : List Slot) (ρ : Nat) (m : Fq12) (prod : G1Pt) (hprod : InTors g1B r prod) (s : Nat) :
    decryptRaw (encryptRaw pp m prod s) (canon g1Ops g2Ops pp g2alpha π ρ)
      = m * ateSpec (Pt.add prod (Pt.neg (patternProduct g1Ops pp π))) pp.g ^ (s * ρ) := by
  have hin := ParamsIn.of_setup hg hs
  have hm := hs.msk_in hg
  have h := C12.decrypt_exact g1OpsC_lawful g2OpsC_lawful (eC_bilinear H) hin.lift ⟨g2alpha, hm⟩ α
    (setupOk_lift hin hs hm) π ρ 1 ⟨prod, hprod⟩ s
  have h' := congrArg Subtype.val h
  rw [decrypt_val, encrypt_val hin, ← canon_val hin ⟨g2alpha, hm⟩, GTc.mul_val, GTc.pow_val, eC_val, G1c.sub_val,
    ← patternProduct_val hin] at h'
  simp only [GTc.one_val, one_mul] at h'
  rw [decryptRaw_msg, h']; rfl

/-- lists opened by π bind exactly π's product, with the real operations. -/
theorem opens_product (hin : ParamsIn pp) (π : List Slot) (al : AttrList) (hwf : al.wellFormed π.length = true)
    (hop : opens π al = true) : listProduct g1Ops pp al = patternProduct g1Ops pp π := by
  rw [listProduct_val hin, patternProduct_val hin,
    C12.opens_product g1OpsC_lawful G1c.expR hin.lift π al hwf hop]

/-- the pattern product is a point of G1. -/
theorem patternProduct_in (hin : ParamsIn pp) (π : List Slot) : InTors g1B r (patternProduct g1Ops pp π) := by
  rw [patternProduct_val hin]; exact (patternProduct g1OpsC hin.lift π).2

theorem precompute_in (hin : ParamsIn pp) (al : AttrList) : InTors g1B r (precompute g1Ops pp al) := by
  rw [precompute_val hin]; exact (precompute g1OpsC hin.lift al).2

/-- with non-degeneracy at the exponent that occurs (the hypothesis of C12, on raw points) a key opens exactly the
ciphertexts bound to its own product (m ≠ 0: the message is a factor). -/
theorem decrypt_iff_matching (H : HBilinearFull) (hg : GensIn pp) (hs : SetupOkRaw pp g2alpha α)
    (π : List Slot) (ρ : Nat) (m : Fq12) (hm0 : m ≠ 0) (prod : G1Pt) (hprod : InTors g1B r prod) (s : Nat)
    (hnd : ∀ X : G1Pt, InTors g1B r X → ateSpec X pp.g ^ (s * ρ) = 1 → X = .inf) :
    decryptRaw (encryptRaw pp m prod s) (canon g1Ops g2Ops pp g2alpha π ρ) = m
      ↔ prod = patternProduct g1Ops pp π := by
  have hin := ParamsIn.of_setup hg hs
  have hpat := patternProduct_in hin π
  rw [decrypt_exact H hg hs π ρ m prod hprod s]
  constructor
  · intro h
    have h1 : ateSpec (Pt.add prod (Pt.neg (patternProduct g1Ops pp π))) pp.g ^ (s * ρ) = 1 := by
      have : m * ateSpec (Pt.add prod (Pt.neg (patternProduct g1Ops pp π))) pp.g ^ (s * ρ) = m * 1 := by
        rw [h, mul_one]
      exact mul_left_cancel₀ hm0 this
    have h2 := hnd _ (hprod.add curveHyp_g1 (hpat.neg curveHyp_g1)) h1
    have h3 : (⟨prod, hprod⟩ : G1c) - ⟨_, hpat⟩ = 0 := G1c.ext h2
    exact congrArg Subtype.val (sub_eq_zero.1 h3)
  · intro h
    rw [h, Pt.add_neg_self, ateSpec_inf_left, one_pow, mul_one]

/-- **non-degeneracy of the textbook pairing on G1 × G2** (named hypothesis; a true fact about BLS12-381, not provable
with the libraries present): a point of G1 pairing trivially with a non-trivial point of G2 is the identity. -/
structure HNonDegenerate : Prop where
  left : ∀ (P : G1Pt) (Q : G2Pt), InTors g1B r P → InTors g2B r Q → Q ≠ .inf → ateSpec P Q = 1 → P = .inf

/-- the hypothesis `hnd` of `decrypt_iff_matching` follows from `HNonDegenerate` when g ≠ ∞ and r ∤ s·ρ (values in GT
have order dividing the prime r). -/
theorem hnd_of_nonDegenerate (N : HNonDegenerate) {g : G2Pt} (hg : InTors g2B r g) (hg0 : g ≠ .inf) {k : Nat}
    (hk : ¬ r ∣ k) : ∀ X : G1Pt, InTors g1B r X → ateSpec X g ^ k = 1 → X = .inf := by
  intro X hX h
  refine N.left X g hX hg hg0 ?_
  have hr := ateSpec_pow_r hX hg
  have hgcd : Nat.gcd k r = 1 := by
    rcases (Nat.coprime_or_dvd_of_prime r_prime k) with h' | h'
    · exact Nat.Coprime.symm h'
    · exact absurd h' hk
  have := (pow_gcd_eq_one (a := (⟨ateSpec X g, hr⟩ : GTc)) (m := k) (n := r)).2 ⟨GTc.ext h, GTc.ext hr⟩
  rw [hgcd, pow_one] at this
  exact congrArg Subtype.val this

/-- keys open ONLY matching ciphertexts, under the two named pairing hypotheses. -/
theorem decrypt_iff_matching' (H : HBilinearFull) (N : HNonDegenerate) (hg : GensIn pp) (hs : SetupOkRaw pp g2alpha α)
    (hg0 : pp.g ≠ .inf) (π : List Slot) (ρ : Nat) (m : Fq12) (hm0 : m ≠ 0) (prod : G1Pt) (hprod : InTors g1B r prod)
    (s : Nat) (hsρ : ¬ r ∣ s * ρ) :
    decryptRaw (encryptRaw pp m prod s) (canon g1Ops g2Ops pp g2alpha π ρ) = m
      ↔ prod = patternProduct g1Ops pp π :=
  decrypt_iff_matching H hg hs π ρ m hm0 prod hprod s (hnd_of_nonDegenerate N hg.g hg0 hsρ)

/-- along any history computed with the real operations (any steps, any scalars, any starting key) a hidden slot stays
hidden. -/
theorem history_hidden (pp : RawParams) : ∀ (steps : List Step) (st : KeyState G1Pt G2Pt) {i : Nat},
    st.π.getD i .free = .hidden → (runSteps g1Ops g2Ops pp st steps).π.getD i .free = .hidden := by
  intro steps
  induction steps with
  | nil => intro st i h; exact h
  | cons s ss ih =>
    intro st i h
    refine ih _ ?_
    have e : (s.run g1Ops g2Ops pp st).π = s.pattern st.π := by cases s <;> rfl
    rw [e]; exact s.pattern_hidden h

/-! ### Non-vacuity -/

/-- the exact factor for the generator-based parameters: key for [42, free, hidden] on a ciphertext for slot 0 = 43. -/
example (H : HBilinearFull) {pp : RawParams} {g2alpha : G1Pt} {α : Nat} (hg : GensIn pp)
    (hs : SetupOkRaw pp g2alpha α) (ρ s : Nat) (m : Fq12) :
    decryptRaw (encryptRaw pp m (precompute g1Ops pp ⟨[⟨0, 43, false⟩], false⟩) s)
        (canon g1Ops g2Ops pp g2alpha [.fixed 42, .free, .hidden] ρ)
      = m * ateSpec (Pt.add (precompute g1Ops pp ⟨[⟨0, 43, false⟩], false⟩)
              (Pt.neg (patternProduct g1Ops pp [.fixed 42, .free, .hidden]))) pp.g ^ (s * ρ) :=
  decrypt_exact H hg hs _ ρ m _ (precompute_in (ParamsIn.of_setup hg hs) _) s

end Jedi.C12b
