/-
The Go bindings (lang/go) — the layer the C17 and C19 statements reach through `lang/go/wkdibe/marshal.go`,
`lang/go/*/…go`.  There is no Go toolchain in the sandbox, so this layer is TRANSLATED (translate/go2lean.py, T8) on
every run into `Gen/GoBindings.lean`: tables of every C call with the C type of each argument, and, for every
function, the list of memory events of one call as a function of an environment `E` that fixes everything the Go
code does not determine (slice lengths, results of C calls, integer members, nil-ness, sizeof).

Property theorems only.  The per-function proofs are generated (`Gen/GoBindingsThms.lean`) and discharged by the
tactics of `Impl/GoMemTac.lean`; what a VALID call is (`Pre`) and what the C functions read and write (`bufNeeds`)
are hand-written in `Impl/GoMem.lean` and cite the C-side theorems they rest on.
-/
import JediVerif.Gen.GoBindingsThms
import Mathlib.Tactic.Ring

namespace Jedi.GoB
open Jedi.Go Jedi.Gen.Go

/-! ### C17 at the Go layer: memory safety of every modelled function, for every environment -/

/-- **Memory safety of the Go bindings.**  For every modelled function `f` of lang/go (`models` lists 112 of the 115;
the other three are `unmodelled`, pinned by digest and modelled by hand below), every environment `E` (any slice
lengths, any results of the C calls, any member values, any positive sizes) in which the call is valid (`Pre`): every
`malloc`/`realloc`/`make` gets a non-negative size, every store and `memset`/`memcpy` through a pointer derived from
such a block stays inside the block, every Go slice index is in range, and no `panic` is reached. -/
theorem go_memory_safe (n : String) (f : Env → List Ev) (hm : (n, f) ∈ models) (E : Env) (hv : Valid E) (hp : Pre n E) :
    AllOk (f E) := mem_safe n f hm E hv hp

/-- **Buffers handed to C are long enough.**  Same quantification: whenever a modelled function passes a pointer into a
Go slice, a local array or a malloc'ed block to a C function that reads or writes `bufNeeds` bytes behind it, at
least that many bytes are available. -/
theorem go_buffers_sufficient (n : String) (f : Env → List Ev) (hm : (n, f) ∈ models) (E : Env) (hv : Valid E)
    (hp : Pre n E) : AllP (bufOk E) (f E) := buffers_sufficient n f hm E hv hp

/-- the event lists are not empty shells: the model of `PairingSum` on two affine and three prepared pairs performs
2·4 + 3·4 stores, 10 slice indexings, two allocations and the C call -/
example : let E : Env := { i := fun k => if k = ("len", ["a"]) ∨ k = ("len", ["b"]) then 2 else 3, b := fun _ => false, sz := fun _ => 8 }
    («bls12381.GT.PairingSum» E).length = 33 := by decide +kernel

/-- … and the precondition of `PairingSum` is satisfiable while its buffer really is exactly filled: the last store of
the loop over `c` ends at the end of the block -/
example : let E : Env := { i := fun _ => 3, b := fun _ => false, sz := fun _ => 8 }
    Pre "bls12381.GT.PairingSum" E ∧ Ev.access "*pair.g2" 72 40 8 ∈ «bls12381.GT.PairingSum» E := by
  refine ⟨by decide, by decide +kernel⟩

/-! ### the slot arrays the Go layer allocates are the ones the C functions fill (C17: "the slot array of the size it reported") -/

/-- capacity in bytes of pointer member `fld` of the object passed as argument `a` -/
def capOf (a : Arg) (fld : String) : Int := (a.caps.lookup fld).getD 0

/-- `Params.Unmarshal`: whenever `params_unmarshal` is reached, `set_length` accepted the buffer (≠ −1), the whole
slice was announced to it, and `p.Data.h` has room for exactly the `arrlength` slots it reported. -/
theorem params_unmarshal_slots (E : Env) (args : List Arg)
    (h : Ev.ccall "embedded_pairing_wkdibe_params_unmarshal" args ∈ «wkdibe.Params.Unmarshal» E) :
    let r := E.i ("call", ["embedded_pairing_wkdibe_params_set_length", "&p.Data", "unsafe.Pointer(&marshalled[0])",
      "C.size_t(len(marshalled))", "C._Bool(compressed)"])
    r ≠ -1 ∧ (arg1 args).avail = some (E.i ("len", ["marshalled"]) * 1 - 0 * 1) ∧
    (r ≠ 0 → capOf (arg0 args) "h" = r * E.sz "embedded_pairing_bls12_381_g1_t" - 0) := by
  simp only [«wkdibe.Params.Unmarshal»] at h
  intro r
  by_cases h0 : E.i ("len", ["marshalled"]) = 0
  · simp [h0] at h
  by_cases h1 : r = -1
  · exfalso; simp only [r] at h1; simp [h0, h1] at h
  by_cases h2 : r = 0 <;> by_cases h3 : E.b ("nil", ["p.Data.h"]) = true <;>
    simp [h0, show E.i ("call", ["embedded_pairing_wkdibe_params_set_length", "&p.Data", "unsafe.Pointer(&marshalled[0])",
      "C.size_t(len(marshalled))", "C._Bool(compressed)"]) = r from rfl, h1, h2, h3] at h <;>
    (try subst h) <;> (try simp [arg0, arg1, capOf, h1, h2, List.lookup])

/-- `SecretKey.Unmarshal`: the same for `sk.Data.b` and the free-slot records. -/
theorem secretkey_unmarshal_slots (E : Env) (args : List Arg)
    (h : Ev.ccall "embedded_pairing_wkdibe_secretkey_unmarshal" args ∈ «wkdibe.SecretKey.Unmarshal» E) :
    let r := E.i ("call", ["embedded_pairing_wkdibe_secretkey_set_length", "&sk.Data", "unsafe.Pointer(&marshalled[0])",
      "C.size_t(len(marshalled))", "C._Bool(compressed)"])
    r ≠ -1 ∧ (arg1 args).avail = some (E.i ("len", ["marshalled"]) * 1 - 0 * 1) ∧
    (r ≠ 0 → capOf (arg0 args) "b" = r * E.sz "embedded_pairing_wkdibe_freeslot_t" - 0) := by
  simp only [«wkdibe.SecretKey.Unmarshal»] at h
  intro r
  by_cases h0 : E.i ("len", ["marshalled"]) = 0
  · simp [h0] at h
  by_cases h1 : r = -1
  · exfalso; simp only [r] at h1; simp [h0, h1] at h
  by_cases h2 : r = 0 <;> by_cases h3 : E.b ("nil", ["sk.Data.b"]) = true <;>
    simp [h0, show E.i ("call", ["embedded_pairing_wkdibe_secretkey_set_length", "&sk.Data", "unsafe.Pointer(&marshalled[0])",
      "C.size_t(len(marshalled))", "C._Bool(compressed)"]) = r from rfl, h1, h2, h3] at h <;>
    (try subst h) <;> (try simp [arg0, arg1, capOf, h1, h2, List.lookup])

/-- `Setup(l, …)` hands `embedded_pairing_wkdibe_setup` an `h` array of exactly `l` elements, and the same `l`. -/
theorem setup_slots (E : Env) (args : List Arg) (h : Ev.ccall "embedded_pairing_wkdibe_setup" args ∈ «wkdibe.Setup» E) :
    capOf (arg0 args) "h" = E.i ("param", ["l"]) * E.sz "embedded_pairing_bls12_381_g1_t" - 0 ∧
    (arg2 args).val = some (E.i ("param", ["l"])) := by
  simp [«wkdibe.Setup»] at h
  subst h; simp [arg0, arg2, capOf, List.lookup]

/-- The four key-generation wrappers allocate `NumAttributes() − len(attrs)` free-slot records before the C call (the C
functions write one record per slot the list does not name: C11's `freeSlots`; a Go map names each slot once), and the
attribute array they pass holds exactly `len(attrs)` attributes. -/
macro "keygen_tac " f:ident : tactic => `(tactic| (
  simp only [$f:ident] at h
  split_ifs at h <;> simp at h <;>
    first
    | (subst h; simp_all [arg0, arg3, capOf])
    | (rcases h with ⟨a, _, h⟩ | h
       · split_ifs at h <;> simp at h
       · subst h; simp_all [arg0, arg3, capOf])))

theorem keygen_slots (E : Env) (args : List Arg) (h : Ev.ccall "embedded_pairing_wkdibe_keygen" args ∈ «wkdibe.KeyGen» E) :
    capOf (arg0 args) "b" = (E.i ("field", ["params.Data.l"]) - E.i ("len", ["attrs"])) * E.sz "embedded_pairing_wkdibe_freeslot_t" ∧
    (E.b ("nil", ["attrs"]) = false → capOf (arg3 args) "attrs" = E.i ("len", ["attrs"]) * E.sz "embedded_pairing_wkdibe_attribute_t") := by
  simp only [«wkdibe.KeyGen»] at h
  split_ifs at h <;> simp at h <;>
    first
    | (subst h; simp_all [arg0, arg3, capOf])
    | (rcases h with ⟨a, _, h⟩ | h
       · split_ifs at h <;> simp at h
       · subst h; simp_all [arg0, arg3, capOf])

theorem qualifykey_slots (E : Env) (args : List Arg) (h : Ev.ccall "embedded_pairing_wkdibe_qualifykey" args ∈ «wkdibe.QualifyKey» E) :
    capOf (arg0 args) "b" = (E.i ("field", ["params.Data.l"]) - E.i ("len", ["attrs"])) * E.sz "embedded_pairing_wkdibe_freeslot_t" ∧
    (E.b ("nil", ["attrs"]) = false → capOf (arg3 args) "attrs" = E.i ("len", ["attrs"]) * E.sz "embedded_pairing_wkdibe_attribute_t") := by
  simp only [«wkdibe.QualifyKey»] at h
  split_ifs at h <;> simp at h <;>
    first
    | (subst h; simp_all [arg0, arg3, capOf])
    | (rcases h with ⟨a, _, h⟩ | h
       · split_ifs at h <;> simp at h
       · subst h; simp_all [arg0, arg3, capOf])

theorem nondelegable_keygen_slots (E : Env) (args : List Arg)
    (h : Ev.ccall "embedded_pairing_wkdibe_nondelegable_keygen" args ∈ «wkdibe.NonDelegableKeyGen» E) :
    capOf (arg0 args) "b" = (E.i ("field", ["params.Data.l"]) - E.i ("len", ["attrs"])) * E.sz "embedded_pairing_wkdibe_freeslot_t" ∧
    (E.b ("nil", ["attrs"]) = false → capOf (arg3 args) "attrs" = E.i ("len", ["attrs"]) * E.sz "embedded_pairing_wkdibe_attribute_t") := by
  simp only [«wkdibe.NonDelegableKeyGen»] at h
  split_ifs at h <;> simp at h <;>
    first
    | (subst h; simp_all [arg0, arg3, capOf])
    | (rcases h with ⟨a, _, h⟩ | h
       · split_ifs at h <;> simp at h
       · subst h; simp_all [arg0, arg3, capOf])

theorem nondelegable_qualifykey_slots (E : Env) (args : List Arg)
    (h : Ev.ccall "embedded_pairing_wkdibe_nondelegable_qualifykey" args ∈ «wkdibe.NonDelegableQualifyKey» E) :
    capOf (arg0 args) "b" = (E.i ("field", ["params.Data.l"]) - E.i ("len", ["attrs"])) * E.sz "embedded_pairing_wkdibe_freeslot_t" ∧
    (E.b ("nil", ["attrs"]) = false → capOf (arg3 args) "attrs" = E.i ("len", ["attrs"]) * E.sz "embedded_pairing_wkdibe_attribute_t") := by
  simp only [«wkdibe.NonDelegableQualifyKey»] at h
  split_ifs at h <;> simp at h <;>
    first
    | (subst h; simp_all [arg0, arg3, capOf])
    | (rcases h with ⟨a, _, h⟩ | h
       · split_ifs at h <;> simp at h
       · subst h; simp_all [arg0, arg3, capOf])

/-! ### the buffer contract covers every C function that takes an untyped buffer -/

/-- the C functions of the three headers with a `void*` parameter that is a data buffer -/
def bufferFns : List String := [
  "embedded_pairing_wkdibe_params_marshal", "embedded_pairing_wkdibe_secretkey_marshal", "embedded_pairing_wkdibe_ciphertext_marshal",
  "embedded_pairing_wkdibe_signature_marshal", "embedded_pairing_wkdibe_masterkey_marshal", "embedded_pairing_wkdibe_ciphertext_unmarshal",
  "embedded_pairing_wkdibe_signature_unmarshal", "embedded_pairing_wkdibe_masterkey_unmarshal", "embedded_pairing_wkdibe_params_set_length",
  "embedded_pairing_wkdibe_secretkey_set_length", "embedded_pairing_lqibe_params_marshal", "embedded_pairing_lqibe_id_marshal",
  "embedded_pairing_lqibe_masterkey_marshal", "embedded_pairing_lqibe_secretkey_marshal", "embedded_pairing_lqibe_ciphertext_marshal",
  "embedded_pairing_lqibe_params_unmarshal", "embedded_pairing_lqibe_id_unmarshal", "embedded_pairing_lqibe_masterkey_unmarshal",
  "embedded_pairing_lqibe_secretkey_unmarshal", "embedded_pairing_lqibe_ciphertext_unmarshal", "embedded_pairing_lqibe_encrypt",
  "embedded_pairing_lqibe_decrypt", "embedded_pairing_bls12_381_g1_marshal", "embedded_pairing_bls12_381_g1_unmarshal",
  "embedded_pairing_bls12_381_g2_marshal", "embedded_pairing_bls12_381_g2_unmarshal", "embedded_pairing_bls12_381_gt_marshal",
  "embedded_pairing_bls12_381_gt_unmarshal", "embedded_pairing_bls12_381_zp_from_hash", "embedded_pairing_bls12_381_g1affine_from_hash",
  "embedded_pairing_bls12_381_g2affine_from_hash"]

/-- … each of them has an entry in the contract `bufNeeds` (whatever the environment and the arguments) -/
theorem bufNeeds_covers (f : String) (hf : f ∈ bufferFns) (E : Env) (a : List Arg) : (bufNeeds E f a).length = 1 := by
  simp only [bufferFns, List.mem_cons, List.not_mem_nil, or_false] at hf
  rcases hf with rfl | rfl | rfl | rfl | rfl | rfl | rfl | rfl | rfl | rfl | rfl | rfl | rfl | rfl | rfl | rfl | rfl | rfl | rfl | rfl |
    rfl | rfl | rfl | rfl | rfl | rfl | rfl | rfl | rfl | rfl | rfl <;> simp [bufNeeds]

/-- … and they are ALL the C functions with a `void*` parameter that the Go layer calls, except the two slot-array
readers, whose buffer is handled by `params_unmarshal_slots` / `secretkey_unmarshal_slots` (the whole slice that
`set_length` accepted).  A new call of a buffer-taking C function from Go breaks this until the contract is extended. -/
theorem bufferFns_complete :
    (goCalls.filter (fun c => (cProtos.any (fun p => p.1 == c.callee && p.2.2.contains "void*")))).all (fun c =>
      bufferFns.contains c.callee || c.callee == "embedded_pairing_wkdibe_params_unmarshal"
        || c.callee == "embedded_pairing_wkdibe_secretkey_unmarshal") = true := by decide +kernel

/-! ### the three byte-level helpers of lang/go/internal (hand models; the source is pinned by digest: `helpers_pinned`)

`BigIntToC(result, size, scalar)` writes the big-endian bytes of `scalar.Bytes()` in reverse, then zero-fills:
the little-endian encoding in `size` bytes.  `BigIntFromC(result, p, size)` reverses the `size` bytes and calls
`SetBytes` (big-endian).  The first panics on negative or too large scalars. -/

/-- big-endian bytes without leading zeros (`big.Int.Bytes`) -/
def beBytes : Nat → List Nat
  | 0 => []
  | n + 1 => beBytes ((n + 1) / 256) ++ [(n + 1) % 256]
decreasing_by omega

/-- value of big-endian bytes (`big.Int.SetBytes`) -/
def ofBE (bs : List Nat) : Nat := bs.foldl (fun a b => a * 256 + b) 0

/-- model of `BigIntToC`: `none` is the panic ("too large") -/
def bigIntToC (size : Nat) (n : Nat) : Option (List Nat) :=
  let sb := beBytes n
  if sb.length > size then none else some (sb.reverse ++ List.replicate (size - sb.length) 0)

/-- model of `BigIntFromC` -/
def bigIntFromC (bytes : List Nat) : Nat := ofBE bytes.reverse

theorem foldl_be (b : List Nat) (x : Nat) : b.foldl (fun a b => a * 256 + b) x = x * 256 ^ b.length + ofBE b := by
  induction b generalizing x with
  | nil => simp [ofBE]
  | cons y b ih =>
    simp only [List.foldl_cons, List.length_cons, ofBE]
    rw [ih, ih (0 * 256 + y), pow_succ]; ring

theorem ofBE_append (a b : List Nat) : ofBE (a ++ b) = ofBE a * 256 ^ b.length + ofBE b := by
  simp only [ofBE, List.foldl_append]
  exact foldl_be b _

theorem ofBE_beBytes (n : Nat) : ofBE (beBytes n) = n := by
  induction n using Nat.strong_induction_on with
  | _ n ih =>
    cases n with
    | zero => simp [beBytes, ofBE]
    | succ m =>
      rw [beBytes, ofBE_append, ih _ (by omega)]
      simp [ofBE]; omega

theorem ofBE_replicate_zero (k : Nat) : ofBE (List.replicate k 0) = 0 := by
  induction k with
  | zero => simp [ofBE]
  | succ k ih => rw [List.replicate_succ', ofBE_append, ih]; simp [ofBE]

theorem ofBE_zeros_append (k : Nat) (l : List Nat) : ofBE (List.replicate k 0 ++ l) = ofBE l := by
  rw [ofBE_append, ofBE_replicate_zero]; simp

/-- the helpers are inverse to each other: for every scalar that fits (`BigIntToC` does not panic), converting to C
and back returns the scalar — the Go wrappers hand the C library exactly the scalar they were given. -/
theorem bigInt_roundtrip (size n : Nat) (bs : List Nat) (h : bigIntToC size n = some bs) :
    bigIntFromC bs = n ∧ bs.length = size := by
  unfold bigIntToC at h
  simp only at h
  split at h
  · cases h
  · rename_i hl
    have : bs = (beBytes n).reverse ++ List.replicate (size - (beBytes n).length) 0 := by simpa using h.symm
    subst this
    constructor
    · simp [bigIntFromC, List.reverse_append, ofBE_zeros_append, ofBE_beBytes]
    · simp; omega

theorem beBytes_length_le (n k : Nat) (h : n < 256 ^ k) : (beBytes n).length ≤ k := by
  induction k generalizing n with
  | zero => have : n = 0 := by simpa using h
            subst this; simp [beBytes]
  | succ k ih =>
    cases n with
    | zero => simp [beBytes]
    | succ m =>
      rw [beBytes]; simp only [List.length_append, List.length_singleton]
      have := ih ((m + 1) / 256) (by rw [pow_succ] at h; exact Nat.div_lt_of_lt_mul (by rwa [Nat.mul_comm]))
      omega

/-- … and it does not panic for any scalar below 256^size (in particular every scalar < 2^256 with size 32) -/
theorem bigIntToC_total (size n : Nat) (h : n < 256 ^ size) : (bigIntToC size n).isSome = true := by
  unfold bigIntToC
  have := beBytes_length_le n size h
  simp only
  split
  · omega
  · rfl

example : bigIntToC 4 0x010203 = some [3, 2, 1, 0] := by simp [bigIntToC, beBytes]
example : bigIntFromC [3, 2, 1, 0] = 0x010203 := by decide
example : bigIntToC 2 0x010203 = none := by simp [bigIntToC, beBytes]

/-- the sources of the three helpers (and of every other function) are the ones these models were written for -/
def expectedDigests : List (String × String) := [
  ("internal.PointerToByteSlice", "9af957dbe5d39397"),
  ("internal.BigIntToC", "5b98548193d68add"),
  ("internal.BigIntFromC", "6063a45091627f50")]

theorem helpers_pinned :
    expectedDigests.all (fun p => (goFns.find? (fun f => f.name == p.1)).map (·.digest) == some p.2) = true := by decide +kernel

/-- exactly these three functions are outside the generated memory models -/
theorem unmodelled_are_the_helpers : unmodelled.map (·.1) = expectedDigests.map (·.1) := by decide +kernel

end Jedi.GoB
