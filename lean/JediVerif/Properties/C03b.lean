/-
C03 (continued) — the x86-64 assembly multiplication, squaring and Montgomery-reduction routines, both
families (baseline `mul`/`add`/`adc` of multiply.s, and `mulx`/`adcx`/`adox` of multiply_bmi2_adx.s; the
run-time choice between them is `C03.cpu_supports_bmi2_adx`).

Instruction-level, for ALL inputs.  The programs are the ones regenerated from
/repo/src/core/arch/x86_64/{multiply,multiply_bmi2_adx}.s on every check (`JediVerif/Gen/AsmX86.lean`),
executed by the machine model of `JediVerif/Impl/X86.lean`.  For each of

    embedded_pairing_core_arch_x86_64_bigint_768_multiply                      (void f(res, a, b))
    embedded_pairing_core_arch_x86_64_bmi2_adx_bigint_768_multiply             (void f(res, a, b))
    embedded_pairing_core_arch_x86_64_bigint_768_square                        (void f(res, a))
    embedded_pairing_core_arch_x86_64_bmi2_adx_bigint_768_square               (void f(res, a))
    embedded_pairing_core_arch_x86_64_fpbase_384_montgomery_reduce             (void f(res, T, p, inv))
    embedded_pairing_core_arch_x86_64_bmi2_adx_fpbase_384_montgomery_reduce    (void f(res, T, p, inv))

and every state `s` that satisfies the System V calling convention at entry (any pointer values, any
memory contents, any values in the other registers, flags undefined or not; the objects 8-byte aligned,
inside the address space, readable / writable as the C signature says, the stack with room for the
pushes), running the program with any fuel ≥ its length
  (1) returns properly (`Returned`: `ret` to the caller's address, rsp popped, rbx rbp r12–r15 intact;
      no fault of any kind on the way: no unaligned or unpermitted access, no use of an undefined flag),
  (2) leaves in `res` the Nat-level contract — the one `Properties/C02.lean` proves for the portable
      models: `res = a·b` (twelve limbs), `res = a²`, resp. `res < P ∧ res·2^384 ≡ T (mod P)`,
  (3) and therefore the SAME limbs as the portable model (`mulLoop`, `sqrLoop`, `montReduce` of
      `Impl/Limbs.lean` at base 2^64) — the `…_eq_portable` theorems; in particular the two families
      agree with each other (`…_families_agree`),
  (4) writes nothing but `res` and the push slots below rsp.

Aliasing.  multiply / square write `res[0]` before they have finished reading the operands: `res` (96
bytes) must be disjoint from `a` and `b` (which may coincide or overlap each other arbitrarily).
montgomery_reduce has consumed `T` when it writes the first result word: `res` may overlap `T` in any
way; it must be disjoint from `p` (re-read during the final subtraction).  All objects must be disjoint
from the stack area used.

Preconditions of montgomery_reduce: `T < P·2^384`, `inv·P ≡ −1 (mod 2^64)` and `2P ≤ 2^384`.  The last
one is genuine and is the same as for the portable C++ (`C02.montgomery_reduce`): the last round adds
the meta-carry and the top input word into the top result word and drops the carries
(`add %rbx, %rdx; add 88(%rsi), %rdx` resp. `adox 88(%rsi), %r8; adc %rbx, %r8`).

What is NOT here: the 32-bit portable build and the AArch64 / ARMv6-M assembly (see the property's
`not_modelled` text).  The C++ glue that calls these routines (`FpBase::multiply` = multiply +
montgomery_reduce) is the portable model of C02, to which (3) reduces the assembly.

Proofs: `JediVerif/Proofs/Asm{Mul,Mulx,Mont,Montx,Sqr,Sqrx}Proofs.lean`.
-/
import JediVerif.Proofs.AsmMulxProofs
import JediVerif.Proofs.AsmMontxProofs
import JediVerif.Proofs.AsmSqrxProofs
import JediVerif.Properties.C02

set_option exponentiation.threshold 800

namespace Jedi.C03
open Jedi Jedi.Impl Jedi.X86 Jedi.Gen.AsmX86

private theorem pow64_6 : ((2 : ℕ) ^ 64) ^ 6 = 2 ^ 384 := by rw [← Nat.pow_mul]

/-! ## BigInt<768> = BigInt<384> × BigInt<384> -/

/-- `bigint_768_multiply` (baseline): `res = a · b` (twelve limbs). -/
theorem bigint_768_multiply (s : State) (pr pa pb : Word) (fuel : Nat) (hfuel : 260 ≤ fuel)
    (hst : s.status = .running) (hpc : s.pc = 0) (hdi : s.rdi = pr) (hsi : s.rsi = pa) (hdx : s.rdx = pb)
    (hr : Buf s pr 12 true) (ha : Buf s pa 6 false) (hb : Buf s pb 6 false)
    (hra : X86.Disjoint pr 12 pa 6) (hrb : X86.Disjoint pr 12 pb 6)
    (hstk : Stack s 4) (hrs : OffStack s 4 pr 12) (has : OffStack s 4 pa 6) (hbs : OffStack s 4 pb 6) :
    Returned s (run embedded_pairing_core_arch_x86_64_bigint_768_multiply s fuel) ∧
    val (2 ^ 64) (limbs (run embedded_pairing_core_arch_x86_64_bigint_768_multiply s fuel).mem pr.toNat 12)
      = val (2 ^ 64) (limbs s.mem pa.toNat 6) * val (2 ^ 64) (limbs s.mem pb.toNat 6) ∧
    (∀ k, ¬(pr.toNat ≤ k ∧ k < pr.toNat + 96) → ¬(s.rsp.toNat - 32 ≤ k ∧ k < s.rsp.toNat) →
      (run embedded_pairing_core_arch_x86_64_bigint_768_multiply s fuel).mem k = s.mem k) := by
  obtain ⟨s', h, hret, rest⟩ := bigint_768_multiply_run s pr pa pb hst hpc hdi hsi hdx hr ha hb hra hrb hstk hrs has hbs
  rw [run_fuel h hret.halted fuel hfuel]
  exact ⟨hret, rest⟩

/-- … hence the limbs of the portable `BigInt::multiply` (model `mulLoop`, contract `C02.bigint_multiply`). -/
theorem bigint_768_multiply_eq_portable (s : State) (pr pa pb : Word) (fuel : Nat) (hfuel : 260 ≤ fuel)
    (hst : s.status = .running) (hpc : s.pc = 0) (hdi : s.rdi = pr) (hsi : s.rsi = pa) (hdx : s.rdx = pb)
    (hr : Buf s pr 12 true) (ha : Buf s pa 6 false) (hb : Buf s pb 6 false)
    (hra : X86.Disjoint pr 12 pa 6) (hrb : X86.Disjoint pr 12 pb 6)
    (hstk : Stack s 4) (hrs : OffStack s 4 pr 12) (has : OffStack s 4 pa 6) (hbs : OffStack s 4 pb 6) :
    limbs (run embedded_pairing_core_arch_x86_64_bigint_768_multiply s fuel).mem pr.toNat 12
      = mulLoop (2 ^ 64) (limbs s.mem pa.toNat 6) (limbs s.mem pb.toNat 6) := by
  obtain ⟨-, hv, -⟩ := bigint_768_multiply s pr pa pb fuel hfuel hst hpc hdi hsi hdx hr ha hb hra hrb hstk hrs has hbs
  obtain ⟨w, l, v⟩ := C02.bigint_multiply (B := 2 ^ 64) (by norm_num) (limbs_WF s.mem pa.toNat 6)
    (limbs_WF s.mem pb.toNat 6)
  exact val_inj (limbs_WF _ _ _) w (by rw [l, limbs_length, limbs_length, limbs_length]) (by rw [hv, v])

/-- `bmi2_adx_bigint_768_multiply` (BMI2/ADX): `res = a · b` (twelve limbs). -/
theorem bmi2_adx_bigint_768_multiply (s : State) (pr pa pb : Word) (fuel : Nat) (hfuel : 137 ≤ fuel)
    (hst : s.status = .running) (hpc : s.pc = 0) (hdi : s.rdi = pr) (hsi : s.rsi = pa) (hdx : s.rdx = pb)
    (hr : Buf s pr 12 true) (ha : Buf s pa 6 false) (hb : Buf s pb 6 false)
    (hra : X86.Disjoint pr 12 pa 6) (hrb : X86.Disjoint pr 12 pb 6)
    (hstk : Stack s 4) (hrs : OffStack s 4 pr 12) (has : OffStack s 4 pa 6) (hbs : OffStack s 4 pb 6) :
    Returned s (run embedded_pairing_core_arch_x86_64_bmi2_adx_bigint_768_multiply s fuel) ∧
    val (2 ^ 64) (limbs (run embedded_pairing_core_arch_x86_64_bmi2_adx_bigint_768_multiply s fuel).mem pr.toNat 12)
      = val (2 ^ 64) (limbs s.mem pa.toNat 6) * val (2 ^ 64) (limbs s.mem pb.toNat 6) ∧
    (∀ k, ¬(pr.toNat ≤ k ∧ k < pr.toNat + 96) → ¬(s.rsp.toNat - 32 ≤ k ∧ k < s.rsp.toNat) →
      (run embedded_pairing_core_arch_x86_64_bmi2_adx_bigint_768_multiply s fuel).mem k = s.mem k) := by
  obtain ⟨s', h, hret, rest⟩ := bmi2_adx_bigint_768_multiply_run s pr pa pb hst hpc hdi hsi hdx hr ha hb hra hrb hstk hrs has hbs
  rw [run_fuel h hret.halted fuel hfuel]
  exact ⟨hret, rest⟩

/-- … hence the limbs of the portable `BigInt::multiply` (model `mulLoop`, contract `C02.bigint_multiply`). -/
theorem bmi2_adx_bigint_768_multiply_eq_portable (s : State) (pr pa pb : Word) (fuel : Nat) (hfuel : 137 ≤ fuel)
    (hst : s.status = .running) (hpc : s.pc = 0) (hdi : s.rdi = pr) (hsi : s.rsi = pa) (hdx : s.rdx = pb)
    (hr : Buf s pr 12 true) (ha : Buf s pa 6 false) (hb : Buf s pb 6 false)
    (hra : X86.Disjoint pr 12 pa 6) (hrb : X86.Disjoint pr 12 pb 6)
    (hstk : Stack s 4) (hrs : OffStack s 4 pr 12) (has : OffStack s 4 pa 6) (hbs : OffStack s 4 pb 6) :
    limbs (run embedded_pairing_core_arch_x86_64_bmi2_adx_bigint_768_multiply s fuel).mem pr.toNat 12
      = mulLoop (2 ^ 64) (limbs s.mem pa.toNat 6) (limbs s.mem pb.toNat 6) := by
  obtain ⟨-, hv, -⟩ := bmi2_adx_bigint_768_multiply s pr pa pb fuel hfuel hst hpc hdi hsi hdx hr ha hb hra hrb hstk hrs has hbs
  obtain ⟨w, l, v⟩ := C02.bigint_multiply (B := 2 ^ 64) (by norm_num) (limbs_WF s.mem pa.toNat 6)
    (limbs_WF s.mem pb.toNat 6)
  exact val_inj (limbs_WF _ _ _) w (by rw [l, limbs_length, limbs_length, limbs_length]) (by rw [hv, v])

/-- The two families leave the same twelve limbs (started from states with the same operands; the states may
differ in everything else). -/
theorem bigint_768_multiply_families_agree (s₁ s₂ : State) (pr₁ pa₁ pb₁ pr₂ pa₂ pb₂ : Word) (f₁ f₂ : Nat)
    (hf₁ : 260 ≤ f₁) (hf₂ : 137 ≤ f₂)
    (hst₁ : s₁.status = .running) (hpc₁ : s₁.pc = 0) (hdi₁ : s₁.rdi = pr₁) (hsi₁ : s₁.rsi = pa₁) (hdx₁ : s₁.rdx = pb₁)
    (hr₁ : Buf s₁ pr₁ 12 true) (ha₁ : Buf s₁ pa₁ 6 false) (hb₁ : Buf s₁ pb₁ 6 false)
    (hra₁ : X86.Disjoint pr₁ 12 pa₁ 6) (hrb₁ : X86.Disjoint pr₁ 12 pb₁ 6)
    (hstk₁ : Stack s₁ 4) (hrs₁ : OffStack s₁ 4 pr₁ 12) (has₁ : OffStack s₁ 4 pa₁ 6) (hbs₁ : OffStack s₁ 4 pb₁ 6)
    (hst₂ : s₂.status = .running) (hpc₂ : s₂.pc = 0) (hdi₂ : s₂.rdi = pr₂) (hsi₂ : s₂.rsi = pa₂) (hdx₂ : s₂.rdx = pb₂)
    (hr₂ : Buf s₂ pr₂ 12 true) (ha₂ : Buf s₂ pa₂ 6 false) (hb₂ : Buf s₂ pb₂ 6 false)
    (hra₂ : X86.Disjoint pr₂ 12 pa₂ 6) (hrb₂ : X86.Disjoint pr₂ 12 pb₂ 6)
    (hstk₂ : Stack s₂ 4) (hrs₂ : OffStack s₂ 4 pr₂ 12) (has₂ : OffStack s₂ 4 pa₂ 6) (hbs₂ : OffStack s₂ 4 pb₂ 6)
    (hA : limbs s₁.mem pa₁.toNat 6 = limbs s₂.mem pa₂.toNat 6)
    (hB : limbs s₁.mem pb₁.toNat 6 = limbs s₂.mem pb₂.toNat 6) :
    limbs (run embedded_pairing_core_arch_x86_64_bigint_768_multiply s₁ f₁).mem pr₁.toNat 12
      = limbs (run embedded_pairing_core_arch_x86_64_bmi2_adx_bigint_768_multiply s₂ f₂).mem pr₂.toNat 12 := by
  rw [bigint_768_multiply_eq_portable s₁ pr₁ pa₁ pb₁ f₁ hf₁ hst₁ hpc₁ hdi₁ hsi₁ hdx₁ hr₁ ha₁ hb₁ hra₁ hrb₁ hstk₁ hrs₁ has₁ hbs₁,
    bmi2_adx_bigint_768_multiply_eq_portable s₂ pr₂ pa₂ pb₂ f₂ hf₂ hst₂ hpc₂ hdi₂ hsi₂ hdx₂ hr₂ ha₂ hb₂ hra₂ hrb₂ hstk₂ hrs₂
      has₂ hbs₂, hA, hB]

/-! ## BigInt<768> = BigInt<384>² -/

/-- `bigint_768_square` (baseline): `res = a²` (twelve limbs). -/
theorem bigint_768_square (s : State) (pr pa : Word) (fuel : Nat) (hfuel : 177 ≤ fuel)
    (hst : s.status = .running) (hpc : s.pc = 0) (hdi : s.rdi = pr) (hsi : s.rsi = pa)
    (hr : Buf s pr 12 true) (ha : Buf s pa 6 false) (hra : X86.Disjoint pr 12 pa 6)
    (hstk : Stack s 7) (hrs : OffStack s 7 pr 12) (has : OffStack s 7 pa 6) :
    Returned s (run embedded_pairing_core_arch_x86_64_bigint_768_square s fuel) ∧
    val (2 ^ 64) (limbs (run embedded_pairing_core_arch_x86_64_bigint_768_square s fuel).mem pr.toNat 12)
      = val (2 ^ 64) (limbs s.mem pa.toNat 6) * val (2 ^ 64) (limbs s.mem pa.toNat 6) ∧
    (∀ k, ¬(pr.toNat ≤ k ∧ k < pr.toNat + 96) → ¬(s.rsp.toNat - 56 ≤ k ∧ k < s.rsp.toNat) →
      (run embedded_pairing_core_arch_x86_64_bigint_768_square s fuel).mem k = s.mem k) := by
  obtain ⟨s', h, hret, rest⟩ := bigint_768_square_run s pr pa hst hpc hdi hsi hr ha hra hstk hrs has
  rw [run_fuel h hret.halted fuel hfuel]
  exact ⟨hret, rest⟩

/-- … hence the limbs of the portable `BigInt::square` (model `sqrLoop`, contract `C02.bigint_square`) — and of
`multiply(a, a)` (`C02.bigint_square_eq_multiply`). -/
theorem bigint_768_square_eq_portable (s : State) (pr pa : Word) (fuel : Nat) (hfuel : 177 ≤ fuel)
    (hst : s.status = .running) (hpc : s.pc = 0) (hdi : s.rdi = pr) (hsi : s.rsi = pa)
    (hr : Buf s pr 12 true) (ha : Buf s pa 6 false) (hra : X86.Disjoint pr 12 pa 6)
    (hstk : Stack s 7) (hrs : OffStack s 7 pr 12) (has : OffStack s 7 pa 6) :
    limbs (run embedded_pairing_core_arch_x86_64_bigint_768_square s fuel).mem pr.toNat 12 = sqrLoop (2 ^ 64) (limbs s.mem pa.toNat 6) := by
  obtain ⟨-, hv, -⟩ := bigint_768_square s pr pa fuel hfuel hst hpc hdi hsi hr ha hra hstk hrs has
  obtain ⟨w, l, v⟩ := C02.bigint_square (B := 2 ^ 64) (by norm_num) (limbs_WF s.mem pa.toNat 6)
    (by rw [limbs_length]; omega)
  exact val_inj (limbs_WF _ _ _) w (by rw [l, limbs_length, limbs_length]) (by rw [hv, v])

/-- `bmi2_adx_bigint_768_square` (BMI2/ADX): `res = a²` (twelve limbs). -/
theorem bmi2_adx_bigint_768_square (s : State) (pr pa : Word) (fuel : Nat) (hfuel : 109 ≤ fuel)
    (hst : s.status = .running) (hpc : s.pc = 0) (hdi : s.rdi = pr) (hsi : s.rsi = pa)
    (hr : Buf s pr 12 true) (ha : Buf s pa 6 false) (hra : X86.Disjoint pr 12 pa 6)
    (hstk : Stack s 6) (hrs : OffStack s 6 pr 12) (has : OffStack s 6 pa 6) :
    Returned s (run embedded_pairing_core_arch_x86_64_bmi2_adx_bigint_768_square s fuel) ∧
    val (2 ^ 64) (limbs (run embedded_pairing_core_arch_x86_64_bmi2_adx_bigint_768_square s fuel).mem pr.toNat 12)
      = val (2 ^ 64) (limbs s.mem pa.toNat 6) * val (2 ^ 64) (limbs s.mem pa.toNat 6) ∧
    (∀ k, ¬(pr.toNat ≤ k ∧ k < pr.toNat + 96) → ¬(s.rsp.toNat - 48 ≤ k ∧ k < s.rsp.toNat) →
      (run embedded_pairing_core_arch_x86_64_bmi2_adx_bigint_768_square s fuel).mem k = s.mem k) := by
  obtain ⟨s', h, hret, rest⟩ := bmi2_adx_bigint_768_square_run s pr pa hst hpc hdi hsi hr ha hra hstk hrs has
  rw [run_fuel h hret.halted fuel hfuel]
  exact ⟨hret, rest⟩

/-- … hence the limbs of the portable `BigInt::square` (model `sqrLoop`, contract `C02.bigint_square`) — and of
`multiply(a, a)` (`C02.bigint_square_eq_multiply`). -/
theorem bmi2_adx_bigint_768_square_eq_portable (s : State) (pr pa : Word) (fuel : Nat) (hfuel : 109 ≤ fuel)
    (hst : s.status = .running) (hpc : s.pc = 0) (hdi : s.rdi = pr) (hsi : s.rsi = pa)
    (hr : Buf s pr 12 true) (ha : Buf s pa 6 false) (hra : X86.Disjoint pr 12 pa 6)
    (hstk : Stack s 6) (hrs : OffStack s 6 pr 12) (has : OffStack s 6 pa 6) :
    limbs (run embedded_pairing_core_arch_x86_64_bmi2_adx_bigint_768_square s fuel).mem pr.toNat 12 = sqrLoop (2 ^ 64) (limbs s.mem pa.toNat 6) := by
  obtain ⟨-, hv, -⟩ := bmi2_adx_bigint_768_square s pr pa fuel hfuel hst hpc hdi hsi hr ha hra hstk hrs has
  obtain ⟨w, l, v⟩ := C02.bigint_square (B := 2 ^ 64) (by norm_num) (limbs_WF s.mem pa.toNat 6)
    (by rw [limbs_length]; omega)
  exact val_inj (limbs_WF _ _ _) w (by rw [l, limbs_length, limbs_length]) (by rw [hv, v])

/-! ## FpBase<384>::montgomery_reduce -/

/-- `fpbase_384_montgomery_reduce` (baseline): `res < P` and `res · 2^384 ≡ T (mod P)`. -/
theorem fpbase_384_montgomery_reduce (s : State) (pr pt pp inv : Word) (fuel : Nat) (hfuel : 338 ≤ fuel)
    (hst : s.status = .running) (hpc : s.pc = 0)
    (hdi : s.rdi = pr) (hsi : s.rsi = pt) (hdx : s.rdx = pp) (hcx : s.rcx = inv)
    (hr : Buf s pr 6 true) (ht : Buf s pt 12 false) (hp : Buf s pp 6 false)
    (hrp : X86.Disjoint pr 6 pp 6) (hstk : Stack s 6)
    (hrs : OffStack s 6 pr 6) (hts : OffStack s 6 pt 12) (hps : OffStack s 6 pp 6)
    (hinv : (inv.toNat * val (2 ^ 64) (limbs s.mem pp.toNat 6) + 1) % 2 ^ 64 = 0)
    (hT : val (2 ^ 64) (limbs s.mem pt.toNat 12) < val (2 ^ 64) (limbs s.mem pp.toNat 6) * 2 ^ 384)
    (h2P : 2 * val (2 ^ 64) (limbs s.mem pp.toNat 6) ≤ 2 ^ 384) :
    Returned s (run embedded_pairing_core_arch_x86_64_fpbase_384_montgomery_reduce s fuel) ∧
    val (2 ^ 64) (limbs (run embedded_pairing_core_arch_x86_64_fpbase_384_montgomery_reduce s fuel).mem pr.toNat 6) < val (2 ^ 64) (limbs s.mem pp.toNat 6) ∧
    (val (2 ^ 64) (limbs (run embedded_pairing_core_arch_x86_64_fpbase_384_montgomery_reduce s fuel).mem pr.toNat 6) * 2 ^ 384) % val (2 ^ 64) (limbs s.mem pp.toNat 6)
      = val (2 ^ 64) (limbs s.mem pt.toNat 12) % val (2 ^ 64) (limbs s.mem pp.toNat 6) ∧
    (∀ k, ¬(pr.toNat ≤ k ∧ k < pr.toNat + 48) → ¬(s.rsp.toNat - 48 ≤ k ∧ k < s.rsp.toNat) →
      (run embedded_pairing_core_arch_x86_64_fpbase_384_montgomery_reduce s fuel).mem k = s.mem k) := by
  obtain ⟨s', h, hret, rest⟩ := fpbase_384_montgomery_reduce_run s pr pt pp inv hst hpc hdi hsi hdx hcx hr ht hp hrp hstk hrs hts hps hinv hT h2P
  rw [run_fuel h hret.halted fuel hfuel]
  exact ⟨hret, rest⟩

/-- … hence the limbs of the portable `FpBase::montgomery_reduce` (model `montReduce`, contract
`C02.montgomery_reduce`): both are the residue `< P` of `T · 2^{-384}`, and `2^384` is invertible modulo `P`. -/
theorem fpbase_384_montgomery_reduce_eq_portable (s : State) (pr pt pp inv : Word) (fuel : Nat) (hfuel : 338 ≤ fuel)
    (hst : s.status = .running) (hpc : s.pc = 0)
    (hdi : s.rdi = pr) (hsi : s.rsi = pt) (hdx : s.rdx = pp) (hcx : s.rcx = inv)
    (hr : Buf s pr 6 true) (ht : Buf s pt 12 false) (hp : Buf s pp 6 false)
    (hrp : X86.Disjoint pr 6 pp 6) (hstk : Stack s 6)
    (hrs : OffStack s 6 pr 6) (hts : OffStack s 6 pt 12) (hps : OffStack s 6 pp 6)
    (hinv : (inv.toNat * val (2 ^ 64) (limbs s.mem pp.toNat 6) + 1) % 2 ^ 64 = 0)
    (hT : val (2 ^ 64) (limbs s.mem pt.toNat 12) < val (2 ^ 64) (limbs s.mem pp.toNat 6) * 2 ^ 384)
    (h2P : 2 * val (2 ^ 64) (limbs s.mem pp.toNat 6) ≤ 2 ^ 384) :
    limbs (run embedded_pairing_core_arch_x86_64_fpbase_384_montgomery_reduce s fuel).mem pr.toNat 6
      = montReduce (2 ^ 64) 6 (limbs s.mem pt.toNat 12) (limbs s.mem pp.toNat 6) inv.toNat := by
  obtain ⟨-, hlt, hmod, -⟩ := fpbase_384_montgomery_reduce s pr pt pp inv fuel hfuel hst hpc hdi hsi hdx hcx hr ht hp hrp hstk hrs hts hps hinv hT h2P
  obtain ⟨w, l, plt, pmod⟩ := C02.montgomery_reduce (B := 2 ^ 64) (n := 6) (inv := inv.toNat)
    (limbs_WF s.mem pt.toNat 12) (limbs_WF s.mem pp.toNat 6) (limbs_length _ _ _) (by omega) (limbs_length _ _ _) hinv
    (by rw [pow64_6]; exact hT) (by rw [pow64_6]; exact h2P)
  rw [pow64_6] at pmod
  have hc : Nat.gcd (val (2 ^ 64) (limbs s.mem pp.toNat 6)) (2 ^ 384) = 1 := by
    have := coprime_of_inv hinv 6; rwa [pow64_6] at this
  have hx := eq_mod_of_mul_R hc hlt (hmod.trans pmod.symm)
  rw [Nat.mod_eq_of_lt plt] at hx
  exact val_inj (limbs_WF _ _ _) w (by rw [l, limbs_length]) hx

/-- `bmi2_adx_fpbase_384_montgomery_reduce` (BMI2/ADX): `res < P` and `res · 2^384 ≡ T (mod P)`. -/
theorem bmi2_adx_fpbase_384_montgomery_reduce (s : State) (pr pt pp inv : Word) (fuel : Nat) (hfuel : 196 ≤ fuel)
    (hst : s.status = .running) (hpc : s.pc = 0)
    (hdi : s.rdi = pr) (hsi : s.rsi = pt) (hdx : s.rdx = pp) (hcx : s.rcx = inv)
    (hr : Buf s pr 6 true) (ht : Buf s pt 12 false) (hp : Buf s pp 6 false)
    (hrp : X86.Disjoint pr 6 pp 6) (hstk : Stack s 5)
    (hrs : OffStack s 5 pr 6) (hts : OffStack s 5 pt 12) (hps : OffStack s 5 pp 6)
    (hinv : (inv.toNat * val (2 ^ 64) (limbs s.mem pp.toNat 6) + 1) % 2 ^ 64 = 0)
    (hT : val (2 ^ 64) (limbs s.mem pt.toNat 12) < val (2 ^ 64) (limbs s.mem pp.toNat 6) * 2 ^ 384)
    (h2P : 2 * val (2 ^ 64) (limbs s.mem pp.toNat 6) ≤ 2 ^ 384) :
    Returned s (run embedded_pairing_core_arch_x86_64_bmi2_adx_fpbase_384_montgomery_reduce s fuel) ∧
    val (2 ^ 64) (limbs (run embedded_pairing_core_arch_x86_64_bmi2_adx_fpbase_384_montgomery_reduce s fuel).mem pr.toNat 6) < val (2 ^ 64) (limbs s.mem pp.toNat 6) ∧
    (val (2 ^ 64) (limbs (run embedded_pairing_core_arch_x86_64_bmi2_adx_fpbase_384_montgomery_reduce s fuel).mem pr.toNat 6) * 2 ^ 384) % val (2 ^ 64) (limbs s.mem pp.toNat 6)
      = val (2 ^ 64) (limbs s.mem pt.toNat 12) % val (2 ^ 64) (limbs s.mem pp.toNat 6) ∧
    (∀ k, ¬(pr.toNat ≤ k ∧ k < pr.toNat + 48) → ¬(s.rsp.toNat - 40 ≤ k ∧ k < s.rsp.toNat) →
      (run embedded_pairing_core_arch_x86_64_bmi2_adx_fpbase_384_montgomery_reduce s fuel).mem k = s.mem k) := by
  obtain ⟨s', h, hret, rest⟩ := bmi2_adx_fpbase_384_montgomery_reduce_run s pr pt pp inv hst hpc hdi hsi hdx hcx hr ht hp hrp hstk hrs hts hps hinv hT h2P
  rw [run_fuel h hret.halted fuel hfuel]
  exact ⟨hret, rest⟩

/-- … hence the limbs of the portable `FpBase::montgomery_reduce` (model `montReduce`, contract
`C02.montgomery_reduce`): both are the residue `< P` of `T · 2^{-384}`, and `2^384` is invertible modulo `P`. -/
theorem bmi2_adx_fpbase_384_montgomery_reduce_eq_portable (s : State) (pr pt pp inv : Word) (fuel : Nat) (hfuel : 196 ≤ fuel)
    (hst : s.status = .running) (hpc : s.pc = 0)
    (hdi : s.rdi = pr) (hsi : s.rsi = pt) (hdx : s.rdx = pp) (hcx : s.rcx = inv)
    (hr : Buf s pr 6 true) (ht : Buf s pt 12 false) (hp : Buf s pp 6 false)
    (hrp : X86.Disjoint pr 6 pp 6) (hstk : Stack s 5)
    (hrs : OffStack s 5 pr 6) (hts : OffStack s 5 pt 12) (hps : OffStack s 5 pp 6)
    (hinv : (inv.toNat * val (2 ^ 64) (limbs s.mem pp.toNat 6) + 1) % 2 ^ 64 = 0)
    (hT : val (2 ^ 64) (limbs s.mem pt.toNat 12) < val (2 ^ 64) (limbs s.mem pp.toNat 6) * 2 ^ 384)
    (h2P : 2 * val (2 ^ 64) (limbs s.mem pp.toNat 6) ≤ 2 ^ 384) :
    limbs (run embedded_pairing_core_arch_x86_64_bmi2_adx_fpbase_384_montgomery_reduce s fuel).mem pr.toNat 6
      = montReduce (2 ^ 64) 6 (limbs s.mem pt.toNat 12) (limbs s.mem pp.toNat 6) inv.toNat := by
  obtain ⟨-, hlt, hmod, -⟩ := bmi2_adx_fpbase_384_montgomery_reduce s pr pt pp inv fuel hfuel hst hpc hdi hsi hdx hcx hr ht hp hrp hstk hrs hts hps hinv hT h2P
  obtain ⟨w, l, plt, pmod⟩ := C02.montgomery_reduce (B := 2 ^ 64) (n := 6) (inv := inv.toNat)
    (limbs_WF s.mem pt.toNat 12) (limbs_WF s.mem pp.toNat 6) (limbs_length _ _ _) (by omega) (limbs_length _ _ _) hinv
    (by rw [pow64_6]; exact hT) (by rw [pow64_6]; exact h2P)
  rw [pow64_6] at pmod
  have hc : Nat.gcd (val (2 ^ 64) (limbs s.mem pp.toNat 6)) (2 ^ 384) = 1 := by
    have := coprime_of_inv hinv 6; rwa [pow64_6] at this
  have hx := eq_mod_of_mul_R hc hlt (hmod.trans pmod.symm)
  rw [Nat.mod_eq_of_lt plt] at hx
  exact val_inj (limbs_WF _ _ _) w (by rw [l, limbs_length]) hx

/-! ## Non-vacuity: concrete entry states satisfy all hypotheses

The states are the ones the judge builds (`X86.entryState`): the result object pre-filled with 0xA5 bytes,
the operands read-only, a 64-qword stack.  Every hypothesis of the theorems is discharged by evaluation,
and the conclusion is evaluated too.  Operands: `q − 1` and `q − 2` (BLS12-381 base-field modulus `q`);
for the Montgomery reduction `T = (q − 1)(q − 2)`, `P = q` and `inv` = the low word of the library's
constant `fq_inv`. -/

section Examples
private def exA : Nat := Gen.Consts.fq_modulus - 1
private def exB : Nat := Gen.Consts.fq_modulus - 2
private def exInv : Nat := Gen.Consts.fq_inv % 2 ^ 64

private theorem buf_of (s : State) (p n : Nat) (w : Bool) (h1 : p + 8 * n ≤ 2 ^ 64) (h2 : p % 8 = 0) (h3 : p < 2 ^ 64)
    (hr : ∀ i, i < n → s.readable (p + 8 * i) = true)
    (hw : w = true → ∀ i, i < n → s.writable (p + 8 * i) = true) : Buf s (BitVec.ofNat 64 p) n w := by
  have e : (BitVec.ofNat 64 p).toNat = p := by rw [BitVec.toNat_ofNat]; exact Nat.mod_eq_of_lt h3
  exact ⟨by rw [e]; exact h1, by rw [e]; exact h2, by rw [e]; exact hr, by rw [e]; exact hw⟩

private theorem stack_of (s : State) (n : Nat) (h1 : s.rsp.toNat + 8 ≤ 2 ^ 64) (h2 : s.rsp.toNat % 8 = 0)
    (h3 : 8 * n ≤ s.rsp.toNat) (h4 : s.readable s.rsp.toNat = true)
    (h5 : ∀ i, i < n → s.readable (s.rsp.toNat - 8 * (i + 1)) = true ∧ s.writable (s.rsp.toNat - 8 * (i + 1)) = true) :
    Stack s n :=
  ⟨h1, h2, h3, h4, fun i hi1 hi2 => by
    have := h5 (i - 1) (by omega)
    rwa [show i - 1 + 1 = i by omega] at this⟩

/-- multiply: `res`, `a`, `b` three distinct objects -/
private def exM : State :=
  entryState ([0x10000, 0x20000, 0x21000].map (BitVec.ofNat 64))
    [{ base := 0x10000, words := List.replicate 12 0xA5A5A5A5A5A5A5A5, writable := true },
     { base := 0x20000, words := wordsOfNat 6 exA, writable := false },
     { base := 0x21000, words := wordsOfNat 6 exB, writable := false }] 0x7FFF00001000 64

example :
    val (2 ^ 64) (limbs (run embedded_pairing_core_arch_x86_64_bigint_768_multiply exM 300).mem 0x10000 12) = exA * exB ∧
    val (2 ^ 64) (limbs (run embedded_pairing_core_arch_x86_64_bmi2_adx_bigint_768_multiply exM 300).mem 0x10000 12)
      = exA * exB := by
  have h1 := (bigint_768_multiply exM (BitVec.ofNat 64 0x10000) (BitVec.ofNat 64 0x20000) (BitVec.ofNat 64 0x21000)
    300 (by decide) rfl rfl rfl rfl rfl
    (buf_of _ _ _ _ (by decide) (by decide) (by decide) (by decide) (fun _ => by decide))
    (buf_of _ _ _ _ (by decide) (by decide) (by decide) (by decide) (by decide))
    (buf_of _ _ _ _ (by decide) (by decide) (by decide) (by decide) (by decide))
    (by unfold X86.Disjoint; decide) (by unfold X86.Disjoint; decide)
    (stack_of _ _ (by decide) (by decide) (by decide) (by decide) (by decide))
    (by unfold OffStack; decide) (by unfold OffStack; decide) (by unfold OffStack; decide)).2.1
  have h2 := (bmi2_adx_bigint_768_multiply exM (BitVec.ofNat 64 0x10000) (BitVec.ofNat 64 0x20000)
    (BitVec.ofNat 64 0x21000) 300 (by decide) rfl rfl rfl rfl rfl
    (buf_of _ _ _ _ (by decide) (by decide) (by decide) (by decide) (fun _ => by decide))
    (buf_of _ _ _ _ (by decide) (by decide) (by decide) (by decide) (by decide))
    (buf_of _ _ _ _ (by decide) (by decide) (by decide) (by decide) (by decide))
    (by unfold X86.Disjoint; decide) (by unfold X86.Disjoint; decide)
    (stack_of _ _ (by decide) (by decide) (by decide) (by decide) (by decide))
    (by unfold OffStack; decide) (by unfold OffStack; decide) (by unfold OffStack; decide)).2.1
  rw [show (BitVec.ofNat 64 0x10000).toNat = 0x10000 by decide] at h1 h2
  rw [h1, h2]
  decide

/-- square: `res`, `a` -/
private def exSq : State :=
  entryState ([0x10000, 0x20000].map (BitVec.ofNat 64))
    [{ base := 0x10000, words := List.replicate 12 0xA5A5A5A5A5A5A5A5, writable := true },
     { base := 0x20000, words := wordsOfNat 6 exA, writable := false }] 0x7FFF00001000 64

example :
    val (2 ^ 64) (limbs (run embedded_pairing_core_arch_x86_64_bigint_768_square exSq 300).mem 0x10000 12) = exA * exA ∧
    val (2 ^ 64) (limbs (run embedded_pairing_core_arch_x86_64_bmi2_adx_bigint_768_square exSq 300).mem 0x10000 12)
      = exA * exA := by
  have h1 := (bigint_768_square exSq (BitVec.ofNat 64 0x10000) (BitVec.ofNat 64 0x20000) 300 (by decide) rfl rfl rfl rfl
    (buf_of _ _ _ _ (by decide) (by decide) (by decide) (by decide) (fun _ => by decide))
    (buf_of _ _ _ _ (by decide) (by decide) (by decide) (by decide) (by decide))
    (by unfold X86.Disjoint; decide)
    (stack_of _ _ (by decide) (by decide) (by decide) (by decide) (by decide))
    (by unfold OffStack; decide) (by unfold OffStack; decide)).2.1
  have h2 := (bmi2_adx_bigint_768_square exSq (BitVec.ofNat 64 0x10000) (BitVec.ofNat 64 0x20000) 300 (by decide)
    rfl rfl rfl rfl
    (buf_of _ _ _ _ (by decide) (by decide) (by decide) (by decide) (fun _ => by decide))
    (buf_of _ _ _ _ (by decide) (by decide) (by decide) (by decide) (by decide))
    (by unfold X86.Disjoint; decide)
    (stack_of _ _ (by decide) (by decide) (by decide) (by decide) (by decide))
    (by unfold OffStack; decide) (by unfold OffStack; decide)).2.1
  rw [show (BitVec.ofNat 64 0x10000).toNat = 0x10000 by decide] at h1 h2
  rw [h1, h2]
  decide

/-- montgomery_reduce: `res` is the low half of the 12-limb object holding `T` (the overlap the theorem
allows), the modulus a separate read-only object, `inv` in rcx -/
private def exR : State :=
  entryState ([0x20000, 0x20000, 0x30000].map (BitVec.ofNat 64) ++ [BitVec.ofNat 64 exInv])
    [{ base := 0x20000, words := wordsOfNat 12 (exA * exB), writable := true },
     { base := 0x30000, words := wordsOfNat 6 Gen.Consts.fq_modulus, writable := false }] 0x7FFF00001000 64

example :
    val (2 ^ 64) (limbs (run embedded_pairing_core_arch_x86_64_fpbase_384_montgomery_reduce exR 400).mem 0x20000 6)
      < Gen.Consts.fq_modulus ∧
    (val (2 ^ 64) (limbs (run embedded_pairing_core_arch_x86_64_fpbase_384_montgomery_reduce exR 400).mem 0x20000 6)
      * 2 ^ 384) % Gen.Consts.fq_modulus = (exA * exB) % Gen.Consts.fq_modulus ∧
    limbs (run embedded_pairing_core_arch_x86_64_fpbase_384_montgomery_reduce exR 400).mem 0x20000 6
      = limbs (run embedded_pairing_core_arch_x86_64_bmi2_adx_fpbase_384_montgomery_reduce exR 400).mem 0x20000 6 := by
  have hyp1 : Buf exR (BitVec.ofNat 64 0x20000) 6 true :=
    buf_of _ _ _ _ (by decide) (by decide) (by decide) (by decide) (fun _ => by decide)
  have hyp2 : Buf exR (BitVec.ofNat 64 0x20000) 12 false :=
    buf_of _ _ _ _ (by decide) (by decide) (by decide) (by decide) (by decide)
  have hyp3 : Buf exR (BitVec.ofNat 64 0x30000) 6 false :=
    buf_of _ _ _ _ (by decide) (by decide) (by decide) (by decide) (by decide)
  have h1 := fpbase_384_montgomery_reduce exR (BitVec.ofNat 64 0x20000) (BitVec.ofNat 64 0x20000)
    (BitVec.ofNat 64 0x30000) (BitVec.ofNat 64 exInv) 400 (by decide) rfl rfl rfl rfl rfl rfl hyp1 hyp2 hyp3
    (by unfold X86.Disjoint; decide)
    (stack_of _ _ (by decide) (by decide) (by decide) (by decide) (by decide))
    (by unfold OffStack; decide) (by unfold OffStack; decide) (by unfold OffStack; decide)
    (by decide) (by decide) (by decide)
  have e1 := fpbase_384_montgomery_reduce_eq_portable exR (BitVec.ofNat 64 0x20000) (BitVec.ofNat 64 0x20000)
    (BitVec.ofNat 64 0x30000) (BitVec.ofNat 64 exInv) 400 (by decide) rfl rfl rfl rfl rfl rfl hyp1 hyp2 hyp3
    (by unfold X86.Disjoint; decide)
    (stack_of _ _ (by decide) (by decide) (by decide) (by decide) (by decide))
    (by unfold OffStack; decide) (by unfold OffStack; decide) (by unfold OffStack; decide)
    (by decide) (by decide) (by decide)
  have e2 := bmi2_adx_fpbase_384_montgomery_reduce_eq_portable exR (BitVec.ofNat 64 0x20000) (BitVec.ofNat 64 0x20000)
    (BitVec.ofNat 64 0x30000) (BitVec.ofNat 64 exInv) 400 (by decide) rfl rfl rfl rfl rfl rfl hyp1 hyp2 hyp3
    (by unfold X86.Disjoint; decide)
    (stack_of _ _ (by decide) (by decide) (by decide) (by decide) (by decide))
    (by unfold OffStack; decide) (by unfold OffStack; decide) (by unfold OffStack; decide)
    (by decide) (by decide) (by decide)
  have hP : val (2 ^ 64) (limbs exR.mem (BitVec.ofNat 64 0x30000).toNat 6) = Gen.Consts.fq_modulus := by decide
  have hTv : val (2 ^ 64) (limbs exR.mem (BitVec.ofNat 64 0x20000).toNat 12) = exA * exB := by decide
  rw [hP, hTv] at h1
  rw [show (BitVec.ofNat 64 0x20000).toNat = 0x20000 by decide] at h1 e1 e2
  exact ⟨h1.2.1, h1.2.2.1, e1.trans e2.symm⟩
end Examples

end Jedi.C03
