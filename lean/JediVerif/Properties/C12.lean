/-
C12 — keys open only matching ciphertexts; hidden slots cannot be filled.

Property theorems only (proofs in Proofs/WkdibeProofs.lean).
* `decrypt_exact`: for *every* key pattern and *every* ciphertext product the decryption result is
  the message times e(prod − patternProduct π, g)^(s·ρ); no assumption relates key and ciphertext.
* `decrypt_iff_matching`: hence, under non-degeneracy of the pairing at the exponent that occurs
  (explicit hypothesis), decryption returns the message iff the products agree.
* `opens_hidden` / `opens_fixed`: what the matching ciphertexts of a pattern look like.
* `hidden_stays_hidden`, `hidden_not_filled`, `history_hidden`: no API step turns a hidden slot
  into a free or fixed one, and admissible lists never give it a value.
-/
import JediVerif.Proofs.WkdibeProofs

namespace Jedi.C12
open Jedi Jedi.Wk

variable {G1 G2 GT : Type} [AddCommGroup G1] [AddCommGroup G2]
variable {o1 : GroupOps G1} {o2 : GroupOps G2}

section decrypt
variable [CommGroup GT] {e : G1 → G2 → GT}

/-- exact decryption formula. -/
theorem decrypt_exact (L1 : Lawful o1) (L2 : Lawful o2) (he : Bilinear e)
    (pp : Params G1 G2 GT) (g2alpha : G1) (α : Nat) (hs : SetupOk e pp g2alpha α)
    (π : List Slot) (ρ : Nat) (m : GT) (prod : G1) (s : Nat) :
    decrypt e (encrypt pp m prod s) (canon o1 o2 pp g2alpha π ρ)
      = m * e (prod - patternProduct o1 pp π) pp.g ^ (s * ρ) :=
  Wk.decrypt_exact L1 L2 he pp g2alpha α hs π ρ m prod s

/-- with a non-degenerate pairing a key opens exactly the ciphertexts bound to its own product. -/
theorem decrypt_iff_matching (L1 : Lawful o1) (L2 : Lawful o2) (he : Bilinear e)
    (pp : Params G1 G2 GT) (g2alpha : G1) (α : Nat) (hs : SetupOk e pp g2alpha α)
    (π : List Slot) (ρ : Nat) (m : GT) (prod : G1) (s : Nat)
    (hnd : ∀ x : G1, e x pp.g ^ (s * ρ) = 1 → x = 0) :
    decrypt e (encrypt pp m prod s) (canon o1 o2 pp g2alpha π ρ) = m
      ↔ prod = patternProduct o1 pp π :=
  Wk.decrypt_only_matching L1 L2 he pp g2alpha α hs π ρ m prod s hnd

end decrypt

/-- lists opened by π bind exactly π's product (so `opens` ⇒ decrypts, C11). -/
theorem opens_product (L1 : Lawful o1) (hr : ExpR G1) (pp : Params G1 G2 GT)
    (π : List Slot) (al : AttrList) (hwf : al.wellFormed π.length = true)
    (hop : opens π al = true) : listProduct o1 pp al = patternProduct o1 pp π :=
  Wk.listProduct_eq_patternProduct L1 hr pp π al hwf hop

/-- a pattern with slot i hidden opens only lists whose slot i is empty (identifier 0 mod r). -/
theorem opens_hidden {π : List Slot} {al : AttrList} (hop : opens π al = true) {i : Nat}
    (h : π.getD i .free = .hidden) {a : Attr} (ha : al.find? i = some a) : a.id % r = 0 :=
  Wk.opens_hidden hop h ha

/-- a pattern with slot i fixed to v opens only lists with that identifier (mod r) at slot i. -/
theorem opens_fixed {π : List Slot} {al : AttrList} (hop : opens π al = true) {i v : Nat}
    (h : π.getD i .free = .fixed v) :
    (match al.find? i with | some a => a.id % r | none => 0) = v % r :=
  Wk.opens_fixed hop h

/-- `updatePattern` never changes a hidden slot (for any list, admissible or not). -/
theorem hidden_stays_hidden {π : List Slot} (al : AttrList) {i : Nat}
    (h : π.getD i .free = .hidden) : (updatePattern π al).getD i .free = .hidden :=
  Wk.updatePattern_hidden al h

/-- nor a fixed slot. -/
theorem fixed_stays_fixed {π : List Slot} (al : AttrList) {i v : Nat}
    (h : π.getD i .free = .fixed v) : (updatePattern π al).getD i .free = .fixed v :=
  Wk.updatePattern_fixed al h

/-- an admissible list can mention a hidden slot only to hide it again, never to give it a value. -/
theorem hidden_not_filled {π : List Slot} {al : AttrList} (hadm : admissible π al = true) {i : Nat}
    (h : π.getD i .free = .hidden) {a : Attr} (ha : al.find? i = some a) : a.hide = true :=
  Wk.admissible_hidden hadm h ha

/-- along any history (any steps, any scalars) a hidden slot stays hidden. -/
theorem history_hidden (pp : Params G1 G2 GT) (steps : List Step) (st : KeyState G1 G2) {i : Nat}
    (h : st.π.getD i .free = .hidden) :
    (runSteps o1 o2 pp st steps).π.getD i .free = .hidden :=
  Wk.runSteps_hidden pp steps st h

/-! ### Non-vacuity -/

open Wk.Ex in
/-- the key for [42, free, hidden] on a ciphertext for slot 0 = 43: the exact (non-trivial) factor. -/
example (ρ s : Nat) (m : Multiplicative Z) :
    decrypt Wk.Ex.e (encrypt pp m (precompute ops pp ⟨[⟨0, 43, false⟩], false⟩) s)
        (canon ops ops pp g2alpha [.fixed 42, .free, .hidden] ρ)
      = m * Wk.Ex.e (precompute ops pp ⟨[⟨0, 43, false⟩], false⟩
              - patternProduct ops pp [.fixed 42, .free, .hidden]) pp.g ^ (s * ρ) :=
  decrypt_exact lawful lawful bilinear pp g2alpha 5 setupOk _ ρ m _ s

/-- filling the hidden slot 2 is not admissible; hiding it again is. -/
example : admissible [.fixed 42, .free, .hidden] ⟨[⟨0, 42, false⟩, ⟨2, 5, false⟩], false⟩ = false := by
  decide
example : admissible [.fixed 42, .free, .hidden] ⟨[⟨0, 42, false⟩, ⟨2, 5, true⟩], false⟩ = true := by
  decide
example : opens [.fixed 42, .free, .hidden] ⟨[⟨0, 42, false⟩, ⟨2, 5, false⟩], false⟩ = false := by
  decide

end Jedi.C12
