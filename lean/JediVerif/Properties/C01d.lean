/-
C01 — the "consequently" sentences, derived from the single named hypothesis H-bilinear (`C01.HBilinear`: the TEXTBOOK
optimal-ate function is multiplicative in each argument on the r-torsion of the two curves), with everything else proved:
on G1 × G2 (the spans of the published generators) the pairing is non-degenerate —
e(aG₁, bG₂) = e(G₁,G₂)^(ab), and it is the target-group identity EXACTLY when one of the two points is the identity —
because e(G₁,G₂) is the exported `generator_pairing`, which has order exactly r (kernel-evaluated closed facts, r prime).
Since the implementation model equals the textbook function (`pairing_is_optimal_ate`), the same holds for the implementation.
-/
import JediVerif.Properties.C01c
import JediVerif.Proofs.Eigen
import Mathlib.GroupTheory.OrderOfElement

namespace Jedi.C01
open Jedi Jedi.Gen Jedi.Impl Jedi.KAT

/-- the exported target-group generator has multiplicative order exactly r. -/
theorem gtGen_orderOf : orderOf (gtGenConst : Fq12) = r := by
  have h := generator_pairing_order
  have hr : Fact (Nat.Prime r) := ⟨r_prime⟩
  refine orderOf_eq_prime ?_ h.2.1
  rw [← npow_eq_pow]; exact h.1

/-- under H-bilinear: e(aG₁, bG₂) = generator_pairing^(ab), for all scalars. -/
theorem textbook_on_spans (H : HBilinear) (a b : Nat) :
    ateSpec (Pt.smul a g1Gen) (Pt.smul b g2Gen) = gtGenConst ^ (a * b) := by
  have hQ : InSpanG2 (Pt.smul b g2Gen) := ⟨b, rfl⟩
  rw [textbook_bilinear H a b g1Gen g2Gen g1Gen_isOnCurve g1Gen_smul_r g2Gen_isOnCurve g2Gen_smul_r
    hQ.isOnCurve hQ.smul_r, textbook_pairing_on_generators]

/-- **non-degeneracy on G1 × G2 under H-bilinear**: the pairing value is 1 exactly when one of the points is the identity. -/
theorem textbook_nondegenerate (H : HBilinear) (a b : Nat) :
    ateSpec (Pt.smul a g1Gen) (Pt.smul b g2Gen) = 1 ↔ (Pt.smul a g1Gen = .inf ∨ Pt.smul b g2Gen = .inf) := by
  rw [textbook_on_spans H a b, ← orderOf_dvd_iff_pow_eq_one, gtGen_orderOf,
    smul_eq_inf_iff curveHyp_g1 r_prime g1Gen_isOnCurve (fun h => by cases h) g1Gen_smul_r a,
    smul_eq_inf_iff curveHyp_g2 r_prime g2Gen_isOnCurve (fun h => by cases h) g2Gen_smul_r b]
  exact Nat.Prime.dvd_mul r_prime

/-- the same two statements for the IMPLEMENTATION model (affine inputs in the C++ representation), because it equals the
textbook function on G2 × anything. -/
theorem pairing_on_spans (H : HBilinear) (P : Aff Fq) (Q : Aff Fq2) (a b : Nat)
    (hP : P.toPt = Pt.smul a g1Gen) (hQ : Q.toPt = Pt.smul b g2Gen) (hQ2 : InG2 Q) :
    Impl.pairing P Q = gtGenConst ^ (a * b) ∧
      (Impl.pairing P Q = 1 ↔ (P.toPt = .inf ∨ Q.toPt = .inf)) := by
  rw [pairing_is_optimal_ate P Q hQ2, hP, hQ]
  exact ⟨textbook_on_spans H a b, textbook_nondegenerate H a b⟩

end Jedi.C01
