/-
C09 — point encodings: flags, canonical decoding, round trips.

About the definitions of `Impl/Encode.lean` (models of `Encoding<Affine, compressed>::encode/decode`
and `get_point_from_x` in src/bls12_381/curve.cpp):
  * `encode o comp p` — the encoder;
  * `decode o inSub comp checked bs` — the decoder as modelled in Encode.lean (WITHOUT the
    `coordinate_is_canonical` test added by the repair of finding F5);
  * `decodeChecked o inSub comp bs` (defined in Proofs/MarshalProofs.lean) — `decode … checked = true`
    followed by the `coordinate_is_canonical` test of every coordinate read: the validating decode of
    the repaired library;
  * `decodeCanonical o inSub onC comp bs` — the SPECIFICATION of validating decode: accept exactly what
    the encoder produces for points on the curve and in the subgroup.
`EncOK o` bundles what is needed of a field record (constant width, top three bits of a serialised
coordinate clear, read∘write = id, the reader masks the flag bits); it is proved for `opsFq`, `opsFq2`.
Property theorems only (proofs in `Proofs/MarshalProofs.lean`).
-/
import JediVerif.Proofs.MarshalProofs

namespace Jedi.C09
open Jedi Jedi.Impl

variable {F : Type} {o : FieldOps F}

/-- the premises hold for the two coordinate fields of BLS12-381. -/
theorem opsFq_ok : EncOK opsFq := Impl.opsFq_ok
theorem opsFq2_ok : EncOK opsFq2 := Impl.opsFq2_ok

/-- a 48-byte big-endian value below 2^381 (in particular below q) leaves the three flag bits free. -/
theorem toBytesBE48_head_lt {v : Nat} (h : v < 2 ^ 381) : ((toBytesBE 48 v).headD 0).toNat < 32 :=
  Impl.toBytesBE48_firstByte_lt h

/-- reading back a serialised base-field element gives the element. -/
theorem fqOfBytes48_toBytesBE (x : Fq) : fqOfBytes48 (toBytesBE 48 x.val) = x := Impl.fqOfBytes48_toBytesBE x

/-- Flags.  Bit 7 of the first byte ⇔ compressed form; bit 6 ⇔ identity; bit 5 ⇔ compressed,
affine and y "greater" than −y (the library's order: `Fq::compare` on Montgomery limbs). -/
theorem encode_flags (ok : EncOK o) (comp : Bool) (p : Pt F) :
    (((encode o comp p).headD 0).toNat &&& 128 ≠ 0 ↔ comp = true) ∧
    (((encode o comp p).headD 0).toNat &&& 64 ≠ 0 ↔ p = .inf) ∧
    (((encode o comp p).headD 0).toNat &&& 32 ≠ 0 ↔
      comp = true ∧ ∃ x y, p = .aff x y ∧ (o.cmp y (o.neg y) == 1) = true) :=
  Impl.encode_flags ok comp p

/-- Soundness of the specification: what canonical decoding returns is on the curve, in the subgroup,
and re-encodes to the input (so no second byte string decodes to the same point). -/
theorem decodeCanonical_sound {inSub onC : Pt F → Bool} {comp : Bool} {bs : List UInt8} {p : Pt F}
    (h : decodeCanonical o inSub onC comp bs = some p) :
    onC p = true ∧ inSub p = true ∧ encode o comp p = bs := Impl.decodeCanonical_sound h

/-- Round trip, uncompressed form (any point, identity included). -/
theorem decodeCanonical_encode (ok : EncOK o) (inSub onC : Pt F → Bool) (p : Pt F)
    (hc : onC p = true) (hs : inSub p = true) :
    decodeCanonical o inSub onC false (encode o false p) = some p := by
  refine Impl.decodeCanonical_of_decode ?_ hc hs
  cases p with
  | inf => exact Impl.decode_unchecked_encode_inf ok _ false
  | aff x y => exact Impl.decode_unchecked_encode_aff_unc ok _ x y

/-- Round trip of the identity in both forms. -/
theorem decodeCanonical_encode_inf (ok : EncOK o) (inSub onC : Pt F → Bool) (comp : Bool)
    (hc : onC .inf = true) (hs : inSub .inf = true) :
    decodeCanonical o inSub onC comp (encode o comp .inf) = some .inf :=
  Impl.decodeCanonical_of_decode (Impl.decode_unchecked_encode_inf ok _ comp) hc hs

/-- instances for G1 and G2 with the Spec's curve and subgroup tests. -/
theorem decodeCanonical_encode_G1 (p : G1Pt) (hc : Pt.isOnCurve g1B p = true) (hs : inSubgroup p = true) :
    decodeCanonical opsFq inSubgroup (Pt.isOnCurve g1B) false (encG1 false p) = some p :=
  decodeCanonical_encode Impl.opsFq_ok _ _ p hc hs
theorem decodeCanonical_encode_G2 (p : G2Pt) (hc : Pt.isOnCurve g2B p = true) (hs : inSubgroup p = true) :
    decodeCanonical opsFq2 inSubgroup (Pt.isOnCurve g2B) false (encG2 false p) = some p :=
  decodeCanonical_encode Impl.opsFq2_ok _ _ p hc hs

/- FULL STATEMENT WANTED for the compressed form:
     onC (.aff x y) → inSub (.aff x y) → onCurve o x y →
       decodeCanonical o inSub onC true (encode o true (.aff x y)) = some (.aff x y).
   What is missing is the square-root fact (needs q prime and q ≡ 3 mod 4 / the Fq2 algorithm):
   "if y² = x³ + b then y = ±sqrt(x³ + b)".  Everything else — flag insertion and masking, the sign
   rule picking y rather than −y (which needs that `Fq::compare` on Montgomery representatives is a
   strict total order: proved, `cmpFq_antisymm`, `cmpFq2_antisymm`) — is proved, so the theorems
   below take exactly that fact as hypothesis. -/

/-- compressed round trip, given that `get_point_from_x` (unchecked) selects y for y's own sign bit. -/
theorem decodeCanonical_encode_compressed_partial (ok : EncOK o) (inSub onC : Pt F → Bool) (x y : F)
    (hx : fromX o x (o.cmp y (o.neg y) == 1) false = some (x, y))
    (hc : onC (.aff x y) = true) (hs : inSub (.aff x y) = true) :
    decodeCanonical o inSub onC true (encode o true (.aff x y)) = some (.aff x y) :=
  Impl.decodeCanonical_of_decode (Impl.decode_unchecked_encode_aff_comp ok _ x y hx) hc hs

/-- G1: it suffices that y is plus or minus the computed root `(x³+4)^((q+1)/4)`. -/
theorem decodeCanonical_encode_compressed_G1_partial (x y : Fq)
    (hy : y = Fq.sqrt (x * x * x + g1B) ∨ y = -Fq.sqrt (x * x * x + g1B))
    (hc : Pt.isOnCurve g1B (.aff x y) = true) (hs : inSubgroup (Pt.aff x y) = true) :
    decodeCanonical opsFq inSubgroup (Pt.isOnCurve g1B) true (encG1 true (.aff x y)) = some (.aff x y) :=
  Impl.decodeCanonical_encode_comp_of_root Impl.opsFq_ok Impl.opsFq_neg_neg
    Impl.opsFq_cmp_antisymm _ _ x y hy hc hs

/-- G2: likewise with `Fq2::square_root`. -/
theorem decodeCanonical_encode_compressed_G2_partial (x y : Fq2)
    (hy : y = fq2Sqrt (x * x * x + g2B) ∨ y = -fq2Sqrt (x * x * x + g2B))
    (hc : Pt.isOnCurve g2B (.aff x y) = true) (hs : inSubgroup (Pt.aff x y) = true) :
    decodeCanonical opsFq2 inSubgroup (Pt.isOnCurve g2B) true (encG2 true (.aff x y)) = some (.aff x y) :=
  Impl.decodeCanonical_encode_comp_of_root Impl.opsFq2_ok Impl.opsFq2_neg_neg
    Impl.opsFq2_cmp_antisymm _ _ x y hy hc hs

/-- The library's order on Fq (Montgomery limbs) separates distinct elements, so exactly one of
y, −y is "greater" when y ≠ −y: the sign bit is well defined. -/
theorem cmpFq_antisymm {a b : Fq} (h : a ≠ b) : (cmpFq a b == 1) = !(cmpFq b a == 1) := Impl.cmpFq_antisymm h
theorem cmpFq2_antisymm {a b : Fq2} (h : a ≠ b) : (cmpFq2 a b == 1) = !(cmpFq2 b a == 1) := Impl.cmpFq2_antisymm h

/-- The repaired validating decode meets the specification on the uncompressed form: on buffers of
the right size, `decodeChecked` IS `decodeCanonical` (same accepted set, same result). -/
theorem decodeChecked_eq_decodeCanonical_uncompressed (ok : EncOK o) (inSub : Pt F → Bool)
    (hinf : inSub .inf = true) (bs : List UInt8) (hl : bs.length = 2 * o.size) :
    decodeChecked o inSub false bs = decodeCanonical o inSub (onCurvePt o) false bs :=
  Impl.decodeChecked_unc_eq_canonical ok inSub hinf bs hl

/-- the same for G1 (96-byte buffers) and G2 (192-byte buffers) with the Spec's curve equation and
subgroup test `[r]P = 0`. -/
theorem decodeChecked_eq_decodeCanonical_G1 (bs : List UInt8) (hl : bs.length = 96) :
    decodeChecked opsFq inSubgroup false bs = decodeCanonical opsFq inSubgroup (Pt.isOnCurve g1B) false bs := by
  rw [← Impl.onCurvePt_opsFq]
  exact Impl.decodeChecked_unc_eq_canonical Impl.opsFq_ok _ Impl.inSubgroup_inf bs hl
theorem decodeChecked_eq_decodeCanonical_G2 (bs : List UInt8) (hl : bs.length = 192) :
    decodeChecked opsFq2 inSubgroup false bs = decodeCanonical opsFq2 inSubgroup (Pt.isOnCurve g2B) false bs := by
  rw [← Impl.onCurvePt_opsFq2]
  exact Impl.decodeChecked_unc_eq_canonical Impl.opsFq2_ok _ Impl.inSubgroup_inf bs hl

/-- … and, in both forms, it returns the identity only for the identity's own encoding, and does
return it there. -/
theorem decodeChecked_inf_iff (ok : EncOK o) (inSub : Pt F → Bool) (comp : Bool) (bs : List UInt8)
    (hl : bs.length = if comp then o.size else 2 * o.size) :
    decodeChecked o inSub comp bs = some .inf ↔ bs = encode o comp .inf :=
  ⟨fun h => (Impl.decodeChecked_inf_sound ok h hl).symm, fun h => h ▸ Impl.decodeChecked_encode_inf ok inSub comp⟩

/-! non-vacuity -/
example : encode opsFq true .inf = 192 :: List.replicate 47 0 := by decide
example : encode opsFq false .inf = 64 :: List.replicate 95 0 := by decide
example : (encode opsFq true g1Gen).headD 0 = 0x97 := by decide +kernel
example : (encode opsFq false g1Gen).headD 0 = 0x17 := by decide +kernel
example : decodeCanonical opsFq (fun _ => true) (Pt.isOnCurve g1B) false (encG1 false g1Gen) = some g1Gen := by
  decide +kernel
example : decodeCanonical opsFq (fun _ => true) (Pt.isOnCurve g1B) true (encG1 true g1Gen) = some g1Gen := by
  decide +kernel

/-- Finding F5 replayed on the models: the point (0, 2) of E(Fq) with x written as q (not reduced).
The pre-repair model of validating decode accepts the string; the repaired one and the
specification refuse it. -/
example : decode opsFq (fun _ => true) false true (toBytesBE 48 q ++ toBytesBE 48 2) = some (.aff 0 2) := by
  decide +kernel
example : decodeChecked opsFq (fun _ => true) false (toBytesBE 48 q ++ toBytesBE 48 2) = none := by
  decide +kernel
example : decodeCanonical opsFq (fun _ => true) (onCurvePt opsFq) false (toBytesBE 48 q ++ toBytesBE 48 2) = none := by
  decide +kernel
example : decodeChecked opsFq (fun _ => true) false (toBytesBE 48 0 ++ toBytesBE 48 2) = some (.aff 0 2) := by
  decide +kernel

end Jedi.C09
