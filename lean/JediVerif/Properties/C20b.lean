/-
C20b — re-entrancy of the hand-written assembly back ends, FROM THE MACHINE SEMANTICS.

`Properties/C20.lean` (Part 2) proves that calls with disjoint declared footprints can be
interleaved arbitrarily — over an abstract machine whose footprint premises are not derived from
any code.  For the assembly routines the premises can be derived: the machine model
(`Impl/X86.lean`) checks a read / write permission on every memory access, and the theorems
of `Properties/C03*.lean` show that each routine, started with permissions on nothing but its
operand / result buffers and its stack window, returns without a fault.  This file states, at
INSTRUCTION granularity and for EVERY program of the model:

* frame (`x86_run_frame`): a run never changes the permission maps and changes memory only at
  writable addresses;
* locality (`x86_run_local`): registers, status and everything written are functions of the
  registers and of the readable part of memory only;
* two cores on one shared memory (`x86_interleaving_eq_sequential`, `x86_interleaving_solo`): if what
  one core may write the other may neither read nor write, then for EVERY schedule of single
  instructions the outcome is that of running core 1 to the same number of steps and then core 2;
  each core's registers are those of running alone, the memory is the merge of the solo runs;

and instantiates it with a C03 theorem (`fpbase_384_add_reentrant`): two concurrent calls of
`embedded_pairing_core_arch_x86_64_fpbase_384_add` on result buffers and stack windows that are
private to each core (operands, e.g. the modulus, may be shared read-only) — every schedule that
gives each core at least 56 instructions returns properly on both cores with both sums correct,
and nothing else in memory changed.

The same generic theorems hold for the AArch64 model (`a64_…`, proofs `Proofs/A64Footprint.lean`) and the
ARMv6-M model (`thumb1_…`, proofs `Proofs/Thumb1Footprint.lean`), with one concurrent instance each
(`aarch64_bigint_384_add_reentrant`, `armv6m_bigint_384_add_reentrant`).  In the ARMv6-M model `bl` to the C++
`fpbase_384_reduce` is ONE atomic step (24 checked reads, 12 checked writes); the theorems are about that
granularity.

Model boundary: one memory, sequentially consistent; one INSTRUCTION of the model is atomic.  Some
instructions make several accesses in that one step (x86 read-modify-write forms such as `add %rax, (%rdi)`
and `push (mem)`; A64 `LDP`/`STP`; Thumb-1 `LDM`/`STM`/`PUSH`/`POP` and the modelled `bl`); real hardware does
not make those pairs atomic, and orders different cores' accesses more weakly (TSO / Arm).  Under `Compatible`
both are unobservable — no cell one core writes can be accessed by the other at all — but that argument is
made here in prose, the theorems are about the model.  The permission maps are those of the model (a proof
device standing for "the objects passed to the call and the stack window"), not of an MMU; that the real
callers pass disjoint objects is the premise `Compatible`, not a theorem.  Writable cells need not be
readable in the model; nothing here assumes `writable ⊆ readable` (the `Buf … true` and `Stack` regions of the
C03 theorems happen to be both).  Proofs: `Proofs/X86Footprint.lean`, `Proofs/A64Footprint.lean`,
`Proofs/Thumb1Footprint.lean`.
-/
import JediVerif.Proofs.X86Footprint
import JediVerif.Proofs.A64Footprint
import JediVerif.Proofs.Thumb1Footprint
import JediVerif.Properties.C03
import JediVerif.Properties.C03c

set_option exponentiation.threshold 500

namespace Jedi.C20b
open Jedi Jedi.Impl

/-! # x86-64 -/

section X86
open Jedi.X86 Jedi.Gen.AsmX86

/-! ## The generic theorems (every program) -/

/-- **Frame.**  Whatever the program, the state and the fuel: the run keeps the permission maps and
the `cpuid` oracle, and every address that is not writable keeps its contents. -/
theorem x86_run_frame (p : Program) (s : State) (n : Nat) :
    (run p s n).readable = s.readable ∧ (run p s n).writable = s.writable ∧ (run p s n).cpuidFn = s.cpuidFn ∧
    ∀ a, s.writable a = false → (run p s n).mem a = s.mem a :=
  run_frame p s n

/-- **Locality.**  If `s'` has the registers, flags, pc, status, permission maps and oracle of `s`
(`noMem` erases the memory contents and nothing else) and the same contents at every READABLE
address, then after any number of steps of any program the same holds again, and every memory cell
is either untouched by both runs or holds the same value after both and is writable.  (Writable cells
need not be readable.) -/
theorem x86_run_local (p : Program) (s s' : State) (hcore : s'.noMem = s.noMem)
    (hmem : ∀ a, s.readable a = true → s.mem a = s'.mem a) (n : Nat) :
    (run p s' n).noMem = (run p s n).noMem ∧
    (∀ a, s.readable a = true → (run p s n).mem a = (run p s' n).mem a) ∧
    (∀ a, ((run p s n).mem a = s.mem a ∧ (run p s' n).mem a = s'.mem a) ∨
          ((run p s n).mem a = (run p s' n).mem a ∧ s.writable a = true)) := by
  have h := run_local p (s := s) (s' := s') ⟨hcore, hmem⟩ n
  refine ⟨h.agree.core, fun a ha => h.agree.mem a ?_, h.cell⟩
  rw [(run_frame p s n).1]; exact ha

/-- **Every interleaving equals the sequential execution.**  `σ` = two cores (`c1`, `c2`: private
registers, flags, pc, status, permission maps) and one shared memory; `sysRun p1 p2 sch σ` executes
the schedule `sch` (`false` = one instruction of core 1, `true` = one of core 2; a core that has
halted or faulted idles).  If the permission maps are compatible, the final state is that of
core 1 running ALONE for its `steps1 sch` steps, then core 2 alone for its `steps2 sch` steps on
the memory core 1 left. -/
theorem x86_interleaving_eq_sequential (p1 p2 : Program) (σ : Sys) (h : Compatible σ.c1 σ.c2) (sch : List Bool) :
    (sysRun p1 p2 sch σ).c1.noMem = (run p1 (σ.c1.withMem σ.mem) (steps1 sch)).noMem ∧
    (sysRun p1 p2 sch σ).c2.noMem
      = (run p2 (σ.c2.withMem (run p1 (σ.c1.withMem σ.mem) (steps1 sch)).mem) (steps2 sch)).noMem ∧
    (sysRun p1 p2 sch σ).mem
      = (run p2 (σ.c2.withMem (run p1 (σ.c1.withMem σ.mem) (steps1 sch)).mem) (steps2 sch)).mem :=
  sysRun_eq_sequential p1 p2 σ h sch

/-- **… and the order of the sequential execution is irrelevant**: each core ends as if it had run
alone on the INITIAL memory, and the final memory is, at every address the OTHER core may not write,
what the core leaves there when running alone.  (So each core's final view — its registers and
everything it can read — is that of a solo run; a cell neither may write keeps its contents.) -/
theorem x86_interleaving_solo (p1 p2 : Program) (σ : Sys) (h : Compatible σ.c1 σ.c2) (sch : List Bool) :
    (sysRun p1 p2 sch σ).c1.noMem = (run p1 (σ.c1.withMem σ.mem) (steps1 sch)).noMem ∧
    (sysRun p1 p2 sch σ).c2.noMem = (run p2 (σ.c2.withMem σ.mem) (steps2 sch)).noMem ∧
    (∀ a, σ.c2.writable a = false → (sysRun p1 p2 sch σ).mem a = (run p1 (σ.c1.withMem σ.mem) (steps1 sch)).mem a) ∧
    (∀ a, σ.c1.writable a = false → (sysRun p1 p2 sch σ).mem a = (run p2 (σ.c2.withMem σ.mem) (steps2 sch)).mem a) ∧
    (∀ a, σ.c1.writable a = false → σ.c2.writable a = false → (sysRun p1 p2 sch σ).mem a = σ.mem a) :=
  ⟨sysRun_core1 p1 p2 σ h sch, sysRun_core2 p1 p2 σ h sch, fun a ha => sysRun_mem1 p1 p2 σ h sch a ha,
    fun a ha => sysRun_mem2 p1 p2 σ h sch a ha, fun a h1 h2 => sysRun_mem_frame p1 p2 σ h sch a h1 h2⟩

/-- two different schedules with the same step counts are indistinguishable -/
theorem x86_schedule_irrelevant (p1 p2 : Program) (σ : Sys) (h : Compatible σ.c1 σ.c2) (sch sch' : List Bool)
    (e1 : steps1 sch = steps1 sch') (e2 : steps2 sch = steps2 sch') : sysRun p1 p2 sch σ = sysRun p1 p2 sch' σ := by
  rw [sysRun_eq_sysRep p1 p2 sch h, sysRun_eq_sysRep p1 p2 sch' h, e1, e2]

/-! ## Instance: two concurrent `fpbase_384_add` calls -/

/-- the entry conditions of `C03.fpbase_384_add` (System V call `f(res, a, b, p)`, operands `< p`) -/
structure FpAddEntry (s : State) (pr pa pb pp : Word) : Prop where
  running : s.status = .running
  pc : s.pc = 0
  rdi : s.rdi = pr
  rsi : s.rsi = pa
  rdx : s.rdx = pb
  rcx : s.rcx = pp
  res : Buf s pr 6 true
  a : Buf s pa 6 false
  b : Buf s pb 6 false
  p : Buf s pp 6 false
  res_a : SameOrDisjoint pr pa 6
  res_b : SameOrDisjoint pr pb 6
  res_p : X86.Disjoint pr 6 pp 6
  stack : Stack s 2
  res_off : OffStack s 2 pr 6
  a_off : OffStack s 2 pa 6
  b_off : OffStack s 2 pb 6
  p_off : OffStack s 2 pp 6
  a_lt : val (2 ^ 64) (limbs s.mem pa.toNat 6) < val (2 ^ 64) (limbs s.mem pp.toNat 6)
  b_lt : val (2 ^ 64) (limbs s.mem pb.toNat 6) < val (2 ^ 64) (limbs s.mem pp.toNat 6)

/-- `C03.fpbase_384_add` in terms of `FpAddEntry` -/
theorem fpbase_384_add_solo {s : State} {pr pa pb pp : Word} (h : FpAddEntry s pr pa pb pp) (fuel : Nat) (hf : 56 ≤ fuel) :
    Returned s (run embedded_pairing_core_arch_x86_64_fpbase_384_add s fuel) ∧
    val (2 ^ 64) (limbs (run embedded_pairing_core_arch_x86_64_fpbase_384_add s fuel).mem pr.toNat 6)
      = (val (2 ^ 64) (limbs s.mem pa.toNat 6) + val (2 ^ 64) (limbs s.mem pb.toNat 6))
          % val (2 ^ 64) (limbs s.mem pp.toNat 6) ∧
    (∀ k, ¬(pr.toNat ≤ k ∧ k < pr.toNat + 48) → ¬(s.rsp.toNat - 16 ≤ k ∧ k < s.rsp.toNat) →
      (run embedded_pairing_core_arch_x86_64_fpbase_384_add s fuel).mem k = s.mem k) :=
  C03.fpbase_384_add s pr pa pb pp fuel hf h.running h.pc h.rdi h.rsi h.rdx h.rcx h.res h.a h.b h.p h.res_a h.res_b
    h.res_p h.stack h.res_off h.a_off h.b_off h.p_off h.a_lt h.b_lt

/-- `Returned` looks only at the core part of the final state -/
private theorem returned_of_noMem_eq {s t t' : State} (h : Returned s t) (e : t'.noMem = t.noMem) : Returned s t' := by
  have e' := State.eq_withMem_of_noMem_eq e
  rw [e']
  exact ⟨h.halted, h.retaddr, h.rsp, h.rbx, h.rbp, h.r12, h.r13, h.r14, h.r15⟩

private theorem limbs_congr {m m' : Nat → Word} {p n : Nat} (h : ∀ i, i < n → m (p + 8 * i) = m' (p + 8 * i)) :
    limbs m p n = limbs m' p n := by
  unfold limbs
  apply List.map_congr_left
  intro i hi
  rw [h i (List.mem_range.mp hi)]

/-- **Two concurrent `fpbase_384_add` calls.**  Core 1 is at the entry of `fpbase_384_add(res₁, a₁, b₁, p₁)`,
core 2 at the entry of `fpbase_384_add(res₂, a₂, b₂, p₂)`, both on the shared memory `σ.mem`, each with
the entry conditions of the single-call theorem; the permission maps are compatible (so `res₁`, `res₂`
and the two stack windows are private to their cores; `a`, `b`, `p` may be shared between the cores).
Then for EVERY schedule that gives each core at least 56 instructions: both calls return properly,
`res₁ = (a₁ + b₁) mod p₁` and `res₂ = (a₂ + b₂) mod p₂` (operands read from the initial memory), and no
cell outside the two result objects and the two pairs of push slots has changed. -/
theorem fpbase_384_add_reentrant (σ : Sys) (pr1 pa1 pb1 pp1 pr2 pa2 pb2 pp2 : Word)
    (h1 : FpAddEntry (σ.c1.withMem σ.mem) pr1 pa1 pb1 pp1) (h2 : FpAddEntry (σ.c2.withMem σ.mem) pr2 pa2 pb2 pp2)
    (hc : Compatible σ.c1 σ.c2) (sch : List Bool) (hn1 : 56 ≤ steps1 sch) (hn2 : 56 ≤ steps2 sch) :
    Returned (σ.c1.withMem σ.mem)
      (sysRun embedded_pairing_core_arch_x86_64_fpbase_384_add embedded_pairing_core_arch_x86_64_fpbase_384_add sch σ).c1 ∧
    Returned (σ.c2.withMem σ.mem)
      (sysRun embedded_pairing_core_arch_x86_64_fpbase_384_add embedded_pairing_core_arch_x86_64_fpbase_384_add sch σ).c2 ∧
    val (2 ^ 64) (limbs (sysRun embedded_pairing_core_arch_x86_64_fpbase_384_add
        embedded_pairing_core_arch_x86_64_fpbase_384_add sch σ).mem pr1.toNat 6)
      = (val (2 ^ 64) (limbs σ.mem pa1.toNat 6) + val (2 ^ 64) (limbs σ.mem pb1.toNat 6))
          % val (2 ^ 64) (limbs σ.mem pp1.toNat 6) ∧
    val (2 ^ 64) (limbs (sysRun embedded_pairing_core_arch_x86_64_fpbase_384_add
        embedded_pairing_core_arch_x86_64_fpbase_384_add sch σ).mem pr2.toNat 6)
      = (val (2 ^ 64) (limbs σ.mem pa2.toNat 6) + val (2 ^ 64) (limbs σ.mem pb2.toNat 6))
          % val (2 ^ 64) (limbs σ.mem pp2.toNat 6) ∧
    (∀ k, ¬(pr1.toNat ≤ k ∧ k < pr1.toNat + 48) → ¬(σ.c1.rsp.toNat - 16 ≤ k ∧ k < σ.c1.rsp.toNat) →
          ¬(pr2.toNat ≤ k ∧ k < pr2.toNat + 48) → ¬(σ.c2.rsp.toNat - 16 ≤ k ∧ k < σ.c2.rsp.toNat) →
      (sysRun embedded_pairing_core_arch_x86_64_fpbase_384_add embedded_pairing_core_arch_x86_64_fpbase_384_add sch σ).mem k
        = σ.mem k) := by
  obtain ⟨k1, k2, m1, m2, _⟩ := x86_interleaving_solo embedded_pairing_core_arch_x86_64_fpbase_384_add
    embedded_pairing_core_arch_x86_64_fpbase_384_add σ hc sch
  obtain ⟨r1, v1, f1⟩ := fpbase_384_add_solo h1 (steps1 sch) hn1
  obtain ⟨r2, v2, f2⟩ := fpbase_384_add_solo h2 (steps2 sch) hn2
  refine ⟨returned_of_noMem_eq r1 k1,
    returned_of_noMem_eq r2 k2, ?_, ?_, fun k a1 a2 a3 a4 => ?_⟩
  · rw [limbs_congr (fun i hi => m1 _ ((hc _).1 (h1.res.writable rfl i hi)).2)]
    exact v1
  · rw [limbs_congr (fun i hi => m2 _ ((hc _).2 (h2.res.writable rfl i hi)).2)]
    exact v2
  · rw [sysRun_mem _ _ σ hc sch k]
    split
    · exact f1 k a1 a2
    · exact f2 k a3 a4

/-! ## Non-vacuity: a concrete two-core configuration

Core 1 computes `res₁ = a + b₁ mod q`, core 2 computes `res₂ = a + b₂ mod q`; the operand `a` and the
modulus `q` (BLS12-381) are the SAME objects for both cores (shared, read-only), `b₁`, `b₂`, the result
objects and the stacks are separate.  Each core's permission maps are what the judge's `entryState`
builds from that core's own argument objects and stack.  All hypotheses of `fpbase_384_add_reentrant`
are discharged (the entry conditions by evaluation, compatibility by arithmetic on the region
bounds), so for every schedule with at least 56 steps per core both results are the right sums. -/

section Example
private def exA : Nat := Gen.Consts.fq_modulus - 1
private def exB1 : Nat := 5
private def exB2 : Nat := Gen.Consts.fq_modulus - 7

private def exShared : List Region :=
  [{ base := 0x20000, words := wordsOfNat 6 exA, writable := false },
   { base := 0x30000, words := wordsOfNat 6 Gen.Consts.fq_modulus, writable := false }]
private def exRegions1 : List Region :=
  [{ base := 0x10000, words := List.replicate 6 0xA5A5A5A5A5A5A5A5, writable := true },
   { base := 0x21000, words := wordsOfNat 6 exB1, writable := false }] ++ exShared
private def exRegions2 : List Region :=
  [{ base := 0x11000, words := List.replicate 6 0xA5A5A5A5A5A5A5A5, writable := true },
   { base := 0x22000, words := wordsOfNat 6 exB2, writable := false }] ++ exShared

private def exSys : Sys where
  c1 := entryState ([0x10000, 0x20000, 0x21000, 0x30000].map (BitVec.ofNat 64)) exRegions1 0x7FFF00001000 64
  c2 := entryState ([0x11000, 0x20000, 0x22000, 0x30000].map (BitVec.ofNat 64)) exRegions2 0x7FFE00001000 64
  mem := memOf (exRegions1 ++ exRegions2)

private theorem ex_buf (s : State) (p : Nat) (w : Bool) (h1 : p + 8 * 6 ≤ 2 ^ 64) (h2 : p % 8 = 0) (h3 : p < 2 ^ 64)
    (hr : ∀ i, i < 6 → s.readable (p + 8 * i) = true)
    (hw : w = true → ∀ i, i < 6 → s.writable (p + 8 * i) = true) : Buf s (BitVec.ofNat 64 p) 6 w := by
  have e : (BitVec.ofNat 64 p).toNat = p := by rw [BitVec.toNat_ofNat]; exact Nat.mod_eq_of_lt h3
  exact ⟨by rw [e]; exact h1, by rw [e]; exact h2, by rw [e]; exact hr, by rw [e]; exact hw⟩

private theorem ex_entry1 : FpAddEntry (exSys.c1.withMem exSys.mem) (BitVec.ofNat 64 0x10000) (BitVec.ofNat 64 0x20000)
    (BitVec.ofNat 64 0x21000) (BitVec.ofNat 64 0x30000) where
  running := rfl
  pc := rfl
  rdi := rfl
  rsi := rfl
  rdx := rfl
  rcx := rfl
  res := ex_buf _ _ _ (by decide) (by decide) (by decide) (by decide) (fun _ => by decide)
  a := ex_buf _ _ _ (by decide) (by decide) (by decide) (by decide) (by decide)
  b := ex_buf _ _ _ (by decide) (by decide) (by decide) (by decide) (by decide)
  p := ex_buf _ _ _ (by decide) (by decide) (by decide) (by decide) (by decide)
  res_a := Or.inr (by unfold X86.Disjoint; decide)
  res_b := Or.inr (by unfold X86.Disjoint; decide)
  res_p := by unfold X86.Disjoint; decide
  stack := ⟨by decide, by decide, by decide, by decide, fun i h1 h2 => by
      obtain rfl | rfl : i = 1 ∨ i = 2 := by omega
      all_goals decide⟩
  res_off := by unfold OffStack; decide
  a_off := by unfold OffStack; decide
  b_off := by unfold OffStack; decide
  p_off := by unfold OffStack; decide
  a_lt := by decide
  b_lt := by decide

private theorem ex_entry2 : FpAddEntry (exSys.c2.withMem exSys.mem) (BitVec.ofNat 64 0x11000) (BitVec.ofNat 64 0x20000)
    (BitVec.ofNat 64 0x22000) (BitVec.ofNat 64 0x30000) where
  running := rfl
  pc := rfl
  rdi := rfl
  rsi := rfl
  rdx := rfl
  rcx := rfl
  res := ex_buf _ _ _ (by decide) (by decide) (by decide) (by decide) (fun _ => by decide)
  a := ex_buf _ _ _ (by decide) (by decide) (by decide) (by decide) (by decide)
  b := ex_buf _ _ _ (by decide) (by decide) (by decide) (by decide) (by decide)
  p := ex_buf _ _ _ (by decide) (by decide) (by decide) (by decide) (by decide)
  res_a := Or.inr (by unfold X86.Disjoint; decide)
  res_b := Or.inr (by unfold X86.Disjoint; decide)
  res_p := by unfold X86.Disjoint; decide
  stack := ⟨by decide, by decide, by decide, by decide, fun i h1 h2 => by
      obtain rfl | rfl : i = 1 ∨ i = 2 := by omega
      all_goals decide⟩
  res_off := by unfold OffStack; decide
  a_off := by unfold OffStack; decide
  b_off := by unfold OffStack; decide
  p_off := by unfold OffStack; decide
  a_lt := by decide
  b_lt := by decide

private theorem ex_compatible : Compatible exSys.c1 exSys.c2 := by
  intro a
  simp only [exSys, entryState, exRegions1, exRegions2, exShared, Region.contains, List.any_cons, List.any_nil,
    List.cons_append, List.nil_append, List.length_replicate, wordsOfNat, List.length_map, List.length_range,
    List.length_append, List.length_cons, List.length_nil, Bool.or_false, Bool.true_and, Bool.false_and, Bool.false_or,
    Bool.or_eq_true, Bool.and_eq_true, decide_eq_true_eq, Bool.or_eq_false_iff, Bool.and_eq_false_imp,
    decide_eq_false_iff_not]
  omega

example (sch : List Bool) (hn1 : 56 ≤ steps1 sch) (hn2 : 56 ≤ steps2 sch) :
    val (2 ^ 64) (limbs (sysRun embedded_pairing_core_arch_x86_64_fpbase_384_add
        embedded_pairing_core_arch_x86_64_fpbase_384_add sch exSys).mem 0x10000 6) = (exA + exB1) % Gen.Consts.fq_modulus ∧
    val (2 ^ 64) (limbs (sysRun embedded_pairing_core_arch_x86_64_fpbase_384_add
        embedded_pairing_core_arch_x86_64_fpbase_384_add sch exSys).mem 0x11000 6) = (exA + exB2) % Gen.Consts.fq_modulus := by
  obtain ⟨-, -, v1, v2, -⟩ := fpbase_384_add_reentrant exSys _ _ _ _ _ _ _ _ ex_entry1 ex_entry2 ex_compatible sch hn1 hn2
  rw [show (BitVec.ofNat 64 0x10000).toNat = 0x10000 by decide] at v1
  rw [show (BitVec.ofNat 64 0x11000).toNat = 0x11000 by decide] at v2
  rw [v1, v2]
  constructor <;> decide
end Example

end X86

/-! # AArch64

The same theorems for the model of `Impl/A64.lean`.  One instruction is atomic; `LDP` / `STP` make two
8-byte accesses in one step of the model. -/

section A64
open Jedi.A64 Jedi.Gen.AsmA64
open Jedi.X86 (limbs)

/-- **Frame** (AArch64 model). -/
theorem a64_run_frame (p : Program) (s : State) (n : Nat) :
    (run p s n).readable = s.readable ∧ (run p s n).writable = s.writable ∧
    ∀ a, s.writable a = false → (run p s n).mem a = s.mem a :=
  run_frame p s n

/-- **Locality** (AArch64 model). -/
theorem a64_run_local (p : Program) (s s' : State) (hcore : s'.noMem = s.noMem)
    (hmem : ∀ a, s.readable a = true → s.mem a = s'.mem a) (n : Nat) :
    (run p s' n).noMem = (run p s n).noMem ∧
    (∀ a, s.readable a = true → (run p s n).mem a = (run p s' n).mem a) ∧
    (∀ a, ((run p s n).mem a = s.mem a ∧ (run p s' n).mem a = s'.mem a) ∨
          ((run p s n).mem a = (run p s' n).mem a ∧ s.writable a = true)) := by
  have h := run_local p (s := s) (s' := s') ⟨hcore, hmem⟩ n
  refine ⟨h.agree.core, fun a ha => h.agree.mem a ?_, h.cell⟩
  rw [(run_frame p s n).1]; exact ha

/-- **Every interleaving equals the sequential execution** (AArch64 model). -/
theorem a64_interleaving_eq_sequential (p1 p2 : Program) (σ : Sys) (h : Compatible σ.c1 σ.c2) (sch : List Bool) :
    (sysRun p1 p2 sch σ).c1.noMem = (run p1 (σ.c1.withMem σ.mem) (steps1 sch)).noMem ∧
    (sysRun p1 p2 sch σ).c2.noMem
      = (run p2 (σ.c2.withMem (run p1 (σ.c1.withMem σ.mem) (steps1 sch)).mem) (steps2 sch)).noMem ∧
    (sysRun p1 p2 sch σ).mem
      = (run p2 (σ.c2.withMem (run p1 (σ.c1.withMem σ.mem) (steps1 sch)).mem) (steps2 sch)).mem :=
  sysRun_eq_sequential p1 p2 σ h sch

/-- **… and each core ends as if it had run alone** (AArch64 model). -/
theorem a64_interleaving_solo (p1 p2 : Program) (σ : Sys) (h : Compatible σ.c1 σ.c2) (sch : List Bool) :
    (sysRun p1 p2 sch σ).c1.noMem = (run p1 (σ.c1.withMem σ.mem) (steps1 sch)).noMem ∧
    (sysRun p1 p2 sch σ).c2.noMem = (run p2 (σ.c2.withMem σ.mem) (steps2 sch)).noMem ∧
    (∀ a, σ.c2.writable a = false → (sysRun p1 p2 sch σ).mem a = (run p1 (σ.c1.withMem σ.mem) (steps1 sch)).mem a) ∧
    (∀ a, σ.c1.writable a = false → (sysRun p1 p2 sch σ).mem a = (run p2 (σ.c2.withMem σ.mem) (steps2 sch)).mem a) ∧
    (∀ a, σ.c1.writable a = false → σ.c2.writable a = false → (sysRun p1 p2 sch σ).mem a = σ.mem a) :=
  ⟨sysRun_core1 p1 p2 σ h sch, sysRun_core2 p1 p2 σ h sch, fun a ha => sysRun_mem1 p1 p2 σ h sch a ha,
    fun a ha => sysRun_mem2 p1 p2 σ h sch a ha, fun a h1 h2 => sysRun_mem_frame p1 p2 σ h sch a h1 h2⟩

/-- the entry conditions of `C03.aarch64_bigint_384_add` (AAPCS64 call `f(res, a, b)`; a leaf routine: no stack) -/
structure A64AddEntry (s : State) (pr pa pb : Word) : Prop where
  running : s.status = .running
  pc : s.pc = 0
  x0 : s.x0 = pr
  x1 : s.x1 = pa
  x2 : s.x2 = pb
  res : Buf s pr 6 true
  a : Buf s pa 6 false
  b : Buf s pb 6 false
  res_a : SameOrDisjoint pr pa 6
  res_b : SameOrDisjoint pr pb 6

private theorem a64_returned_of_noMem_eq {s t t' : State} (h : Returned s t) (e : t'.noMem = t.noMem) : Returned s t' := by
  have e' := State.eq_withMem_of_noMem_eq e
  rw [e']
  exact ⟨h.halted, h.retaddr, h.sp, h.x18, h.x19, h.x20, h.x21, h.x22, h.x23, h.x24, h.x25, h.x26, h.x27, h.x28, h.x29⟩

/-- **Two concurrent AArch64 `bigint_384_add` calls**: for every schedule that gives each core at least 17
instructions, both calls return properly, `res₁ + 2^384·X0₁ = a₁ + b₁`, `res₂ + 2^384·X0₂ = a₂ + b₂` (operands
read from the initial memory) and nothing outside the two result objects has changed. -/
theorem aarch64_bigint_384_add_reentrant (σ : Sys) (pr1 pa1 pb1 pr2 pa2 pb2 : Word)
    (h1 : A64AddEntry (σ.c1.withMem σ.mem) pr1 pa1 pb1) (h2 : A64AddEntry (σ.c2.withMem σ.mem) pr2 pa2 pb2)
    (hc : Compatible σ.c1 σ.c2) (sch : List Bool) (hn1 : 17 ≤ steps1 sch) (hn2 : 17 ≤ steps2 sch) :
    Returned (σ.c1.withMem σ.mem)
      (sysRun embedded_pairing_core_arch_aarch64_bigint_384_add embedded_pairing_core_arch_aarch64_bigint_384_add sch σ).c1 ∧
    Returned (σ.c2.withMem σ.mem)
      (sysRun embedded_pairing_core_arch_aarch64_bigint_384_add embedded_pairing_core_arch_aarch64_bigint_384_add sch σ).c2 ∧
    val (2 ^ 64) (limbs (sysRun embedded_pairing_core_arch_aarch64_bigint_384_add
        embedded_pairing_core_arch_aarch64_bigint_384_add sch σ).mem pr1.toNat 6)
      + 2 ^ 384 * (sysRun embedded_pairing_core_arch_aarch64_bigint_384_add
        embedded_pairing_core_arch_aarch64_bigint_384_add sch σ).c1.x0.toNat
      = val (2 ^ 64) (limbs σ.mem pa1.toNat 6) + val (2 ^ 64) (limbs σ.mem pb1.toNat 6) ∧
    val (2 ^ 64) (limbs (sysRun embedded_pairing_core_arch_aarch64_bigint_384_add
        embedded_pairing_core_arch_aarch64_bigint_384_add sch σ).mem pr2.toNat 6)
      + 2 ^ 384 * (sysRun embedded_pairing_core_arch_aarch64_bigint_384_add
        embedded_pairing_core_arch_aarch64_bigint_384_add sch σ).c2.x0.toNat
      = val (2 ^ 64) (limbs σ.mem pa2.toNat 6) + val (2 ^ 64) (limbs σ.mem pb2.toNat 6) ∧
    (∀ k, ¬(pr1.toNat ≤ k ∧ k < pr1.toNat + 48) → ¬(pr2.toNat ≤ k ∧ k < pr2.toNat + 48) →
      (sysRun embedded_pairing_core_arch_aarch64_bigint_384_add embedded_pairing_core_arch_aarch64_bigint_384_add sch σ).mem k
        = σ.mem k) := by
  obtain ⟨k1, k2, m1, m2, _⟩ := a64_interleaving_solo embedded_pairing_core_arch_aarch64_bigint_384_add
    embedded_pairing_core_arch_aarch64_bigint_384_add σ hc sch
  obtain ⟨r1, v1, _, f1⟩ := C03.aarch64_bigint_384_add _ pr1 pa1 pb1 (steps1 sch) hn1 h1.running h1.pc h1.x0 h1.x1 h1.x2
    h1.res h1.a h1.b h1.res_a h1.res_b
  obtain ⟨r2, v2, _, f2⟩ := C03.aarch64_bigint_384_add _ pr2 pa2 pb2 (steps2 sch) hn2 h2.running h2.pc h2.x0 h2.x1 h2.x2
    h2.res h2.a h2.b h2.res_a h2.res_b
  have x1 : (sysRun embedded_pairing_core_arch_aarch64_bigint_384_add embedded_pairing_core_arch_aarch64_bigint_384_add sch σ).c1.x0
      = (run embedded_pairing_core_arch_aarch64_bigint_384_add (σ.c1.withMem σ.mem) (steps1 sch)).x0 := by
    have := congrArg State.x0 k1; exact this
  have x2 : (sysRun embedded_pairing_core_arch_aarch64_bigint_384_add embedded_pairing_core_arch_aarch64_bigint_384_add sch σ).c2.x0
      = (run embedded_pairing_core_arch_aarch64_bigint_384_add (σ.c2.withMem σ.mem) (steps2 sch)).x0 := by
    have := congrArg State.x0 k2; exact this
  refine ⟨a64_returned_of_noMem_eq r1 k1, a64_returned_of_noMem_eq r2 k2, ?_, ?_, fun k a1 a2 => ?_⟩
  · rw [limbs_congr (fun i hi => m1 _ ((hc _).1 (h1.res.writable rfl i hi)).2), x1]
    exact v1
  · rw [limbs_congr (fun i hi => m2 _ ((hc _).2 (h2.res.writable rfl i hi)).2), x2]
    exact v2
  · rw [sysRun_mem _ _ σ hc sch k]
    split
    · exact f1 k a1
    · exact f2 k a2

/-! ### Non-vacuity (AArch64): two cores adding the shared operand `a` to their own `b₁`, `b₂` -/

section ExampleA64
private def exA64 : Nat := Gen.Consts.fq_modulus - 1
private def exB64a : Nat := Gen.Consts.fq_modulus - 2
private def exB64b : Nat := 2 ^ 384 - 1

private def exShared64 : List Region := [{ base := 0x20000, words := wordsOfNat 6 exA64, writable := false }]
private def exRegions64a : List Region :=
  [{ base := 0x10000, words := List.replicate 6 0xA5A5A5A5A5A5A5A5, writable := true },
   { base := 0x21000, words := wordsOfNat 6 exB64a, writable := false }] ++ exShared64
private def exRegions64b : List Region :=
  [{ base := 0x11000, words := List.replicate 6 0xA5A5A5A5A5A5A5A5, writable := true },
   { base := 0x22000, words := wordsOfNat 6 exB64b, writable := false }] ++ exShared64

private def exSys64 : Sys where
  c1 := entryState ([0x10000, 0x20000, 0x21000].map (BitVec.ofNat 64)) exRegions64a 0x7FFF00001000 64
  c2 := entryState ([0x11000, 0x20000, 0x22000].map (BitVec.ofNat 64)) exRegions64b 0x7FFE00001000 64
  mem := memOf (exRegions64a ++ exRegions64b)

private theorem ex_buf64 (s : State) (p : Nat) (w : Bool) (h1 : p + 8 * 6 ≤ 2 ^ 64) (h2 : p % 8 = 0) (h3 : p < 2 ^ 64)
    (hr : ∀ i, i < 6 → s.readable (p + 8 * i) = true)
    (hw : w = true → ∀ i, i < 6 → s.writable (p + 8 * i) = true) : Buf s (BitVec.ofNat 64 p) 6 w := by
  have e : (BitVec.ofNat 64 p).toNat = p := by rw [BitVec.toNat_ofNat]; exact Nat.mod_eq_of_lt h3
  exact ⟨by rw [e]; exact h1, by rw [e]; exact h2, by rw [e]; exact hr, by rw [e]; exact hw⟩

private theorem ex_entry64a : A64AddEntry (exSys64.c1.withMem exSys64.mem) (BitVec.ofNat 64 0x10000) (BitVec.ofNat 64 0x20000)
    (BitVec.ofNat 64 0x21000) where
  running := rfl
  pc := rfl
  x0 := rfl
  x1 := rfl
  x2 := rfl
  res := ex_buf64 _ _ _ (by decide) (by decide) (by decide) (by decide) (fun _ => by decide)
  a := ex_buf64 _ _ _ (by decide) (by decide) (by decide) (by decide) (by decide)
  b := ex_buf64 _ _ _ (by decide) (by decide) (by decide) (by decide) (by decide)
  res_a := Or.inr (by unfold A64.Disjoint; decide)
  res_b := Or.inr (by unfold A64.Disjoint; decide)

private theorem ex_entry64b : A64AddEntry (exSys64.c2.withMem exSys64.mem) (BitVec.ofNat 64 0x11000) (BitVec.ofNat 64 0x20000)
    (BitVec.ofNat 64 0x22000) where
  running := rfl
  pc := rfl
  x0 := rfl
  x1 := rfl
  x2 := rfl
  res := ex_buf64 _ _ _ (by decide) (by decide) (by decide) (by decide) (fun _ => by decide)
  a := ex_buf64 _ _ _ (by decide) (by decide) (by decide) (by decide) (by decide)
  b := ex_buf64 _ _ _ (by decide) (by decide) (by decide) (by decide) (by decide)
  res_a := Or.inr (by unfold A64.Disjoint; decide)
  res_b := Or.inr (by unfold A64.Disjoint; decide)

private theorem ex_compatible64 : Compatible exSys64.c1 exSys64.c2 := by
  intro a
  simp only [exSys64, entryState, exRegions64a, exRegions64b, exShared64, Region.contains, List.any_cons, List.any_nil,
    List.cons_append, List.nil_append, List.length_replicate, wordsOfNat, List.length_map, List.length_range,
    Bool.or_false, Bool.true_and, Bool.false_and, Bool.false_or,
    Bool.or_eq_true, Bool.and_eq_true, decide_eq_true_eq, Bool.or_eq_false_iff, Bool.and_eq_false_imp,
    decide_eq_false_iff_not]
  omega

example (sch : List Bool) (hn1 : 17 ≤ steps1 sch) (hn2 : 17 ≤ steps2 sch) :
    val (2 ^ 64) (limbs (sysRun embedded_pairing_core_arch_aarch64_bigint_384_add
        embedded_pairing_core_arch_aarch64_bigint_384_add sch exSys64).mem 0x10000 6)
      + 2 ^ 384 * (sysRun embedded_pairing_core_arch_aarch64_bigint_384_add
        embedded_pairing_core_arch_aarch64_bigint_384_add sch exSys64).c1.x0.toNat = exA64 + exB64a ∧
    val (2 ^ 64) (limbs (sysRun embedded_pairing_core_arch_aarch64_bigint_384_add
        embedded_pairing_core_arch_aarch64_bigint_384_add sch exSys64).mem 0x11000 6)
      + 2 ^ 384 * (sysRun embedded_pairing_core_arch_aarch64_bigint_384_add
        embedded_pairing_core_arch_aarch64_bigint_384_add sch exSys64).c2.x0.toNat = exA64 + exB64b := by
  obtain ⟨-, -, v1, v2, -⟩ := aarch64_bigint_384_add_reentrant exSys64 _ _ _ _ _ _ ex_entry64a ex_entry64b ex_compatible64
    sch hn1 hn2
  rw [show (BitVec.ofNat 64 0x10000).toNat = 0x10000 by decide] at v1
  rw [show (BitVec.ofNat 64 0x11000).toNat = 0x11000 by decide] at v2
  rw [v1, v2]
  constructor <;> decide
end ExampleA64

end A64

/-! # ARMv6-M (Thumb-1)

The same theorems for the model of `Impl/Thumb1.lean`.  One instruction OF THE MODEL is atomic: that
includes LDM / STM / PUSH / POP (several word accesses) and `bl fpbase_384_reduce`, which the model
executes as a single step (24 permission-checked reads, then 12 permission-checked writes, then the
AAPCS clobbers).  Real hardware interleaves these accesses with the other core's; under `Compatible` no
access of such a step touches a cell the other core may write, and no cell it writes is accessible to
the other core — but the theorems below are about the model's granularity. -/

section Thumb1
open Jedi.Thumb1 Jedi.Gen.AsmV6M

/-- **Frame** (ARMv6-M model). -/
theorem thumb1_run_frame (p : Program) (s : State) (n : Nat) :
    (run p s n).readable = s.readable ∧ (run p s n).writable = s.writable ∧
    ∀ a, s.writable a = false → (run p s n).mem a = s.mem a :=
  run_frame p s n

/-- **Locality** (ARMv6-M model). -/
theorem thumb1_run_local (p : Program) (s s' : State) (hcore : s'.noMem = s.noMem)
    (hmem : ∀ a, s.readable a = true → s.mem a = s'.mem a) (n : Nat) :
    (run p s' n).noMem = (run p s n).noMem ∧
    (∀ a, s.readable a = true → (run p s n).mem a = (run p s' n).mem a) ∧
    (∀ a, ((run p s n).mem a = s.mem a ∧ (run p s' n).mem a = s'.mem a) ∨
          ((run p s n).mem a = (run p s' n).mem a ∧ s.writable a = true)) := by
  have h := run_local p (s := s) (s' := s') ⟨hcore, hmem⟩ n
  refine ⟨h.agree.core, fun a ha => h.agree.mem a ?_, h.cell⟩
  rw [(run_frame p s n).1]; exact ha

/-- **Every interleaving equals the sequential execution** (ARMv6-M model). -/
theorem thumb1_interleaving_eq_sequential (p1 p2 : Program) (σ : Sys) (h : Compatible σ.c1 σ.c2) (sch : List Bool) :
    (sysRun p1 p2 sch σ).c1.noMem = (run p1 (σ.c1.withMem σ.mem) (steps1 sch)).noMem ∧
    (sysRun p1 p2 sch σ).c2.noMem
      = (run p2 (σ.c2.withMem (run p1 (σ.c1.withMem σ.mem) (steps1 sch)).mem) (steps2 sch)).noMem ∧
    (sysRun p1 p2 sch σ).mem
      = (run p2 (σ.c2.withMem (run p1 (σ.c1.withMem σ.mem) (steps1 sch)).mem) (steps2 sch)).mem :=
  sysRun_eq_sequential p1 p2 σ h sch

/-- **… and each core ends as if it had run alone** (ARMv6-M model). -/
theorem thumb1_interleaving_solo (p1 p2 : Program) (σ : Sys) (h : Compatible σ.c1 σ.c2) (sch : List Bool) :
    (sysRun p1 p2 sch σ).c1.noMem = (run p1 (σ.c1.withMem σ.mem) (steps1 sch)).noMem ∧
    (sysRun p1 p2 sch σ).c2.noMem = (run p2 (σ.c2.withMem σ.mem) (steps2 sch)).noMem ∧
    (∀ a, σ.c2.writable a = false → (sysRun p1 p2 sch σ).mem a = (run p1 (σ.c1.withMem σ.mem) (steps1 sch)).mem a) ∧
    (∀ a, σ.c1.writable a = false → (sysRun p1 p2 sch σ).mem a = (run p2 (σ.c2.withMem σ.mem) (steps2 sch)).mem a) ∧
    (∀ a, σ.c1.writable a = false → σ.c2.writable a = false → (sysRun p1 p2 sch σ).mem a = σ.mem a) :=
  ⟨sysRun_core1 p1 p2 σ h sch, sysRun_core2 p1 p2 σ h sch, fun a ha => sysRun_mem1 p1 p2 σ h sch a ha,
    fun a ha => sysRun_mem2 p1 p2 σ h sch a ha, fun a h1 h2 => sysRun_mem_frame p1 p2 σ h sch a h1 h2⟩

/-- the entry conditions of `C03.armv6m_bigint_384_add` (AAPCS call `f(res, a, b)`, three pushed words) -/
structure T1AddEntry (s : State) (pr pa pb : Word) : Prop where
  running : s.status = .running
  pc : s.pc = 0
  r0 : s.r0 = pr
  r1 : s.r1 = pa
  r2 : s.r2 = pb
  lr_thumb : s.lr.toNat % 2 = 1
  res : Buf s pr 12 true
  a : Buf s pa 12 false
  b : Buf s pb 12 false
  res_a : SameOrDisjoint pr pa 12
  res_b : SameOrDisjoint pr pb 12
  stack : Stack s 3
  res_off : OffStack s 3 pr 12
  a_off : OffStack s 3 pa 12
  b_off : OffStack s 3 pb 12

private theorem thumb1_returned_of_noMem_eq {s t t' : State} (h : Returned s t) (e : t'.noMem = t.noMem) : Returned s t' := by
  have e' := State.eq_withMem_of_noMem_eq e
  rw [e']
  exact ⟨h.halted, h.retaddr, h.sp, h.r4, h.r5, h.r6, h.r7, h.r8, h.r9, h.r10, h.r11⟩

private theorem limbs32_congr {m m' : Nat → Word} {p n : Nat} (h : ∀ i, i < n → m (p + 4 * i) = m' (p + 4 * i)) :
    limbs32 m p n = limbs32 m' p n := by
  unfold limbs32
  apply List.map_congr_left
  intro i hi
  rw [h i (List.mem_range.mp hi)]

/-- **Two concurrent ARMv6-M `bigint_384_add` calls**: for every schedule that gives each core at least 35
instructions, both calls return properly, `res₁ + 2^384·R0₁ = a₁ + b₁`, `res₂ + 2^384·R0₂ = a₂ + b₂` (operands read
from the initial memory) and nothing outside the two result objects and the two triples of push slots has
changed. -/
theorem armv6m_bigint_384_add_reentrant (σ : Sys) (pr1 pa1 pb1 pr2 pa2 pb2 : Word)
    (h1 : T1AddEntry (σ.c1.withMem σ.mem) pr1 pa1 pb1) (h2 : T1AddEntry (σ.c2.withMem σ.mem) pr2 pa2 pb2)
    (hc : Compatible σ.c1 σ.c2) (sch : List Bool) (hn1 : 35 ≤ steps1 sch) (hn2 : 35 ≤ steps2 sch) :
    Returned (σ.c1.withMem σ.mem)
      (sysRun embedded_pairing_core_arch_armv6_m_bigint_384_add embedded_pairing_core_arch_armv6_m_bigint_384_add sch σ).c1 ∧
    Returned (σ.c2.withMem σ.mem)
      (sysRun embedded_pairing_core_arch_armv6_m_bigint_384_add embedded_pairing_core_arch_armv6_m_bigint_384_add sch σ).c2 ∧
    val (2 ^ 32) (limbs32 (sysRun embedded_pairing_core_arch_armv6_m_bigint_384_add
        embedded_pairing_core_arch_armv6_m_bigint_384_add sch σ).mem pr1.toNat 12)
      + 2 ^ 384 * (sysRun embedded_pairing_core_arch_armv6_m_bigint_384_add
        embedded_pairing_core_arch_armv6_m_bigint_384_add sch σ).c1.r0.toNat
      = val (2 ^ 32) (limbs32 σ.mem pa1.toNat 12) + val (2 ^ 32) (limbs32 σ.mem pb1.toNat 12) ∧
    val (2 ^ 32) (limbs32 (sysRun embedded_pairing_core_arch_armv6_m_bigint_384_add
        embedded_pairing_core_arch_armv6_m_bigint_384_add sch σ).mem pr2.toNat 12)
      + 2 ^ 384 * (sysRun embedded_pairing_core_arch_armv6_m_bigint_384_add
        embedded_pairing_core_arch_armv6_m_bigint_384_add sch σ).c2.r0.toNat
      = val (2 ^ 32) (limbs32 σ.mem pa2.toNat 12) + val (2 ^ 32) (limbs32 σ.mem pb2.toNat 12) ∧
    (∀ k, ¬(pr1.toNat ≤ k ∧ k < pr1.toNat + 48) → ¬(σ.c1.sp.toNat - 12 ≤ k ∧ k < σ.c1.sp.toNat) →
          ¬(pr2.toNat ≤ k ∧ k < pr2.toNat + 48) → ¬(σ.c2.sp.toNat - 12 ≤ k ∧ k < σ.c2.sp.toNat) →
      (sysRun embedded_pairing_core_arch_armv6_m_bigint_384_add embedded_pairing_core_arch_armv6_m_bigint_384_add sch σ).mem k
        = σ.mem k) := by
  obtain ⟨k1, k2, m1, m2, _⟩ := thumb1_interleaving_solo embedded_pairing_core_arch_armv6_m_bigint_384_add
    embedded_pairing_core_arch_armv6_m_bigint_384_add σ hc sch
  obtain ⟨r1, v1, _, f1⟩ := C03.armv6m_bigint_384_add _ pr1 pa1 pb1 (steps1 sch) hn1 h1.running h1.pc h1.r0 h1.r1 h1.r2
    h1.lr_thumb h1.res h1.a h1.b h1.res_a h1.res_b h1.stack h1.res_off h1.a_off h1.b_off
  obtain ⟨r2, v2, _, f2⟩ := C03.armv6m_bigint_384_add _ pr2 pa2 pb2 (steps2 sch) hn2 h2.running h2.pc h2.r0 h2.r1 h2.r2
    h2.lr_thumb h2.res h2.a h2.b h2.res_a h2.res_b h2.stack h2.res_off h2.a_off h2.b_off
  have x1 : (sysRun embedded_pairing_core_arch_armv6_m_bigint_384_add embedded_pairing_core_arch_armv6_m_bigint_384_add sch σ).c1.r0
      = (run embedded_pairing_core_arch_armv6_m_bigint_384_add (σ.c1.withMem σ.mem) (steps1 sch)).r0 := by
    have := congrArg State.r0 k1; exact this
  have x2 : (sysRun embedded_pairing_core_arch_armv6_m_bigint_384_add embedded_pairing_core_arch_armv6_m_bigint_384_add sch σ).c2.r0
      = (run embedded_pairing_core_arch_armv6_m_bigint_384_add (σ.c2.withMem σ.mem) (steps2 sch)).r0 := by
    have := congrArg State.r0 k2; exact this
  refine ⟨thumb1_returned_of_noMem_eq r1 k1, thumb1_returned_of_noMem_eq r2 k2, ?_, ?_, fun k a1 a2 a3 a4 => ?_⟩
  · rw [limbs32_congr (fun i hi => m1 _ ((hc _).1 (h1.res.writable rfl i hi)).2), x1]
    exact v1
  · rw [limbs32_congr (fun i hi => m2 _ ((hc _).2 (h2.res.writable rfl i hi)).2), x2]
    exact v2
  · rw [sysRun_mem _ _ σ hc sch k]
    split
    · exact f1 k a1 a2
    · exact f2 k a3 a4

/-! ### Non-vacuity (ARMv6-M): two cores adding the shared operand `a` to their own `b₁`, `b₂` -/

section ExampleThumb1
private def exA32 : Nat := Gen.Consts.fq_modulus - 1
private def exB32a : Nat := Gen.Consts.fq_modulus - 2
private def exB32b : Nat := 2 ^ 384 - 1

private def exShared32 : List Region := [{ base := 0x20000, words := wordsOfNat 12 exA32, writable := false }]
private def exRegions32a : List Region :=
  [{ base := 0x10000, words := List.replicate 12 0xA5A5A5A5, writable := true },
   { base := 0x21000, words := wordsOfNat 12 exB32a, writable := false }] ++ exShared32
private def exRegions32b : List Region :=
  [{ base := 0x11000, words := List.replicate 12 0xA5A5A5A5, writable := true },
   { base := 0x22000, words := wordsOfNat 12 exB32b, writable := false }] ++ exShared32

private def exSys32 : Sys where
  c1 := entryState ([0x10000, 0x20000, 0x21000].map (BitVec.ofNat 32)) exRegions32a 0x20004000 64 0
  c2 := entryState ([0x11000, 0x20000, 0x22000].map (BitVec.ofNat 32)) exRegions32b 0x20003000 64 0
  mem := memOf (exRegions32a ++ exRegions32b)

private theorem ex_buf32 (s : State) (p : Nat) (w : Bool) (h1 : p + 4 * 12 ≤ 2 ^ 32) (h2 : p % 4 = 0) (h3 : p < 2 ^ 32)
    (hr : ∀ i, i < 12 → s.readable (p + 4 * i) = true)
    (hw : w = true → ∀ i, i < 12 → s.writable (p + 4 * i) = true) : Buf s (BitVec.ofNat 32 p) 12 w := by
  have e : (BitVec.ofNat 32 p).toNat = p := by rw [BitVec.toNat_ofNat]; exact Nat.mod_eq_of_lt h3
  exact ⟨by rw [e]; exact h1, by rw [e]; exact h2, by rw [e]; exact hr, by rw [e]; exact hw⟩

private theorem ex_stack32 (s : State) (h2 : s.sp.toNat % 4 = 0) (h3 : 4 * 3 ≤ s.sp.toNat)
    (h5 : ∀ i, i < 3 → s.readable (s.sp.toNat - 4 * (i + 1)) = true ∧ s.writable (s.sp.toNat - 4 * (i + 1)) = true) :
    Stack s 3 :=
  ⟨h2, h3, fun i hi1 hi2 => by
    have := h5 (i - 1) (by omega)
    rwa [show i - 1 + 1 = i by omega] at this⟩

private theorem ex_entry32a : T1AddEntry (exSys32.c1.withMem exSys32.mem) (BitVec.ofNat 32 0x10000) (BitVec.ofNat 32 0x20000)
    (BitVec.ofNat 32 0x21000) where
  running := rfl
  pc := rfl
  r0 := rfl
  r1 := rfl
  r2 := rfl
  lr_thumb := by decide
  res := ex_buf32 _ _ _ (by decide) (by decide) (by decide) (by decide) (fun _ => by decide)
  a := ex_buf32 _ _ _ (by decide) (by decide) (by decide) (by decide) (by decide)
  b := ex_buf32 _ _ _ (by decide) (by decide) (by decide) (by decide) (by decide)
  res_a := Or.inr (by unfold Thumb1.Disjoint; decide)
  res_b := Or.inr (by unfold Thumb1.Disjoint; decide)
  stack := ex_stack32 _ (by decide) (by decide) (by decide)
  res_off := by unfold OffStack; decide
  a_off := by unfold OffStack; decide
  b_off := by unfold OffStack; decide

private theorem ex_entry32b : T1AddEntry (exSys32.c2.withMem exSys32.mem) (BitVec.ofNat 32 0x11000) (BitVec.ofNat 32 0x20000)
    (BitVec.ofNat 32 0x22000) where
  running := rfl
  pc := rfl
  r0 := rfl
  r1 := rfl
  r2 := rfl
  lr_thumb := by decide
  res := ex_buf32 _ _ _ (by decide) (by decide) (by decide) (by decide) (fun _ => by decide)
  a := ex_buf32 _ _ _ (by decide) (by decide) (by decide) (by decide) (by decide)
  b := ex_buf32 _ _ _ (by decide) (by decide) (by decide) (by decide) (by decide)
  res_a := Or.inr (by unfold Thumb1.Disjoint; decide)
  res_b := Or.inr (by unfold Thumb1.Disjoint; decide)
  stack := ex_stack32 _ (by decide) (by decide) (by decide)
  res_off := by unfold OffStack; decide
  a_off := by unfold OffStack; decide
  b_off := by unfold OffStack; decide

private theorem ex_compatible32 : Compatible exSys32.c1 exSys32.c2 := by
  intro a
  simp only [exSys32, entryState, exRegions32a, exRegions32b, exShared32, Region.contains, List.any_cons, List.any_nil,
    List.cons_append, List.nil_append, List.length_replicate, wordsOfNat, List.length_map, List.length_range,
    List.drop, List.map_cons, List.map_nil, Bool.or_false,
    Bool.true_and, Bool.false_and, Bool.false_or,
    Bool.or_eq_true, Bool.and_eq_true, decide_eq_true_eq, Bool.or_eq_false_iff, Bool.and_eq_false_imp,
    decide_eq_false_iff_not]
  omega

example (sch : List Bool) (hn1 : 35 ≤ steps1 sch) (hn2 : 35 ≤ steps2 sch) :
    val (2 ^ 32) (limbs32 (sysRun embedded_pairing_core_arch_armv6_m_bigint_384_add
        embedded_pairing_core_arch_armv6_m_bigint_384_add sch exSys32).mem 0x10000 12)
      + 2 ^ 384 * (sysRun embedded_pairing_core_arch_armv6_m_bigint_384_add
        embedded_pairing_core_arch_armv6_m_bigint_384_add sch exSys32).c1.r0.toNat = exA32 + exB32a ∧
    val (2 ^ 32) (limbs32 (sysRun embedded_pairing_core_arch_armv6_m_bigint_384_add
        embedded_pairing_core_arch_armv6_m_bigint_384_add sch exSys32).mem 0x11000 12)
      + 2 ^ 384 * (sysRun embedded_pairing_core_arch_armv6_m_bigint_384_add
        embedded_pairing_core_arch_armv6_m_bigint_384_add sch exSys32).c2.r0.toNat = exA32 + exB32b := by
  obtain ⟨-, -, v1, v2, -⟩ := armv6m_bigint_384_add_reentrant exSys32 _ _ _ _ _ _ ex_entry32a ex_entry32b ex_compatible32
    sch hn1 hn2
  rw [show (BitVec.ofNat 32 0x10000).toNat = 0x10000 by decide] at v1
  rw [show (BitVec.ofNat 32 0x11000).toNat = 0x11000 by decide] at v2
  rw [v1, v2]
  constructor <;> decide
end ExampleThumb1

end Thumb1
end Jedi.C20b
